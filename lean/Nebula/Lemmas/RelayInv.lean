/-
Helper lemmas for C39: every control-message handler only *extends* the relay state (`Ext`): records keep
their identity, new Forwarding records appear only while `am_relay` and never point at the node itself,
and every `hm.Relays` entry stays owned.
-/
import Nebula.Model.Relay
import Nebula.Spec.Relay
import Nebula.Lemmas.RelayFwd

namespace Nebula.Lemmas.Relay
open Nebula.Relay Nebula.Gen Nebula.Spec.Relay

/-- an update that keeps a record's identity (type, peer address, local index). -/
def KeyPres (f : Relay → Relay) : Prop :=
  ∀ r, (f r).type = r.type ∧ (f r).peerAddr = r.peerAddr ∧ (f r).localIndex = r.localIndex

theorem keyPres_setState (a : Addr) (st : Nat) : KeyPres (setStateF a st) := by
  intro r; unfold setStateF; split <;> simp

theorem keyPres_completeIp (a : Addr) (i : Nat) : KeyPres (completeIpF a i) := by
  intro r; unfold completeIpF; split <;> simp

theorem keyPres_completeIdx (a i : Nat) : KeyPres (completeIdxF a i) := by
  intro r; unfold completeIdxF; split <;> simp

theorem keyPres_setStateIdx (i st : Nat) : KeyPres (setStateIdxF i st) := by
  intro r; unfold setStateIdxF; split <;> simp

/-- an update that keeps a record's state or moves it to a valid state other than `PeerRequested`. -/
def StOK (f : Relay → Relay) : Prop :=
  ∀ r, ((f r).state = r.state ∨ (f r).state ≠ nebula_PeerRequested) ∧
    (validState r.state = true → validState (f r).state = true)

theorem stOK_setState (a : Addr) (st : Nat) (h1 : st ≠ nebula_PeerRequested) (h2 : validState st = true) :
    StOK (setStateF a st) := by
  intro r; unfold setStateF; split
  · exact ⟨Or.inr h1, fun _ => h2⟩
  · exact ⟨Or.inl rfl, id⟩

theorem stOK_setStateIdx (i st : Nat) (h1 : st ≠ nebula_PeerRequested) (h2 : validState st = true) :
    StOK (setStateIdxF i st) := by
  intro r; unfold setStateIdxF; split
  · exact ⟨Or.inr h1, fun _ => h2⟩
  · exact ⟨Or.inl rfl, id⟩

theorem stOK_completeIp (a : Addr) (i : Nat) : StOK (completeIpF a i) := by
  intro r; unfold completeIpF; split
  · exact ⟨Or.inr (by show nebula_Established ≠ nebula_PeerRequested; decide),
      fun _ => by show validState nebula_Established = true; decide⟩
  · exact ⟨Or.inl rfl, id⟩

theorem stOK_completeIdx (a i : Nat) : StOK (completeIdxF a i) := by
  intro r; unfold completeIdxF; split
  · exact ⟨Or.inr (by show nebula_Established ≠ nebula_PeerRequested; decide),
      fun _ => by show validState nebula_Established = true; decide⟩
  · exact ⟨Or.inl rfl, id⟩

theorem stOK_id : StOK id := fun _ => ⟨Or.inl rfl, id⟩

/-- hostinfo ids identify hostinfos. -/
def UH (n : Node) : Prop := ∀ h1 ∈ n.hosts, ∀ h2 ∈ n.hosts, h1.id = h2.id → h1 = h2

/-- a relay local index identifies one record of one hostinfo (per-node index uniqueness). -/
def GI (n : Node) : Prop :=
  ∀ h1 ∈ n.hosts, ∀ h2 ∈ n.hosts, ∀ r1 ∈ h1.recs, ∀ r2 ∈ h2.recs, r1.localIndex = r2.localIndex → h1.id = h2.id ∧ r1 = r2

/-- every record's local index is a key of `hm.Relays`. -/
def RC (n : Node) : Prop := ∀ h ∈ n.hosts, ∀ r ∈ h.recs, ∃ p ∈ n.relays, p.1 = r.localIndex

/-- every record is in one of the four defined states. -/
def SV (n : Node) : Prop := ∀ h ∈ n.hosts, ∀ r ∈ h.recs, validState r.state = true

def WF (n : Node) : Prop := UH n ∧ GI n ∧ RC n ∧ SV n

/-- `m` extends `n` (`am` = the value of `am_relay` under which new Forwarding records may appear). -/
structure Ext (am : Bool) (n m : Node) : Prop where
  my : m.myAddrs = n.myAddrs
  amr : m.amRelay = n.amRelay
  back : ∀ h' ∈ m.hosts, ∀ r' ∈ h'.recs,
    (∃ h ∈ n.hosts, h.id = h'.id ∧ ∃ r ∈ h.recs, r.type = r'.type ∧ r.peerAddr = r'.peerAddr ∧ r.localIndex = r'.localIndex)
    ∨ r'.type ≠ nebula_ForwardingType ∨ (am = true ∧ n.myAddrs.contains r'.peerAddr = false)
  fwd : ∀ h ∈ n.hosts, ∃ h' ∈ m.hosts, h'.id = h.id ∧ ∀ r ∈ h.recs, ∃ r' ∈ h'.recs, r'.localIndex = r.localIndex
  rel : ∀ p ∈ m.relays, p ∈ n.relays ∨ ∃ h' ∈ m.hosts, h'.id = p.2 ∧ ∃ r' ∈ h'.recs, r'.localIndex = p.1
  /-- every record of `m` is a record of `n` with the same identity (whose state is unchanged or moved to a
  state other than PeerRequested), or carries an index no record of `n` has. -/
  orig : ∀ h' ∈ m.hosts, ∀ r' ∈ h'.recs,
    (∃ h ∈ n.hosts, h.id = h'.id ∧ ∃ r ∈ h.recs, r.type = r'.type ∧ r.peerAddr = r'.peerAddr ∧
        r.localIndex = r'.localIndex ∧ (r.state = r'.state ∨ r'.state ≠ nebula_PeerRequested))
    ∨ (WF n → ∀ h ∈ n.hosts, ∀ r ∈ h.recs, r.localIndex ≠ r'.localIndex)
  wf : WF n → WF m
  /-- no hostinfo appears: every hostinfo of `m` has the id of a hostinfo of `n`. -/
  ids : ∀ h' ∈ m.hosts, ∃ h ∈ n.hosts, h.id = h'.id

theorem Ext.refl (am : Bool) (n : Node) : Ext am n n :=
  { my := rfl, amr := rfl
    back := fun h' hh' r' hr' => Or.inl ⟨h', hh', rfl, r', hr', rfl, rfl, rfl⟩
    fwd := fun h hh => ⟨h, hh, rfl, fun r hr => ⟨r, hr, rfl⟩⟩
    rel := fun p hp => Or.inl hp
    orig := fun h' hh' r' hr' => Or.inl ⟨h', hh', rfl, r', hr', rfl, rfl, rfl, Or.inl rfl⟩
    wf := id
    ids := fun h' hh' => ⟨h', hh', rfl⟩ }

theorem wf_mapHosts {m : Node} (g : Host → Host) (f : Relay → Relay) (hf : KeyPres f) (hs : StOK f)
    (hg : ∀ h, (g h).id = h.id ∧ ((g h).recs = h.recs ∨ (g h).recs = h.recs.map f)) (w : WF m) :
    WF { m with hosts := m.hosts.map g } := by
  obtain ⟨uh, gi, rc, sv⟩ := w
  have gid : ∀ h, (g h).id = h.id := fun h => (hg h).1
  -- every record of `g h` comes from a record of `h` with the same index
  have src : ∀ h, ∀ r' ∈ (g h).recs, ∃ r ∈ h.recs, r.localIndex = r'.localIndex ∧ (r' = r ∨ r' = f r) := by
    intro h r' hr'
    rcases (hg h).2 with h2 | h2
    · rw [h2] at hr'; exact ⟨r', hr', rfl, Or.inl rfl⟩
    · rw [h2] at hr'
      obtain ⟨r, hr, rfl⟩ := List.mem_map.mp hr'
      exact ⟨r, hr, ((hf r).2.2).symm, Or.inr rfl⟩
  refine ⟨?_, ?_, ?_, ?_⟩
  · intro h1 hh1 h2 hh2 hid
    obtain ⟨a, ha, rfl⟩ := List.mem_map.mp hh1
    obtain ⟨b, hb, rfl⟩ := List.mem_map.mp hh2
    rw [gid, gid] at hid
    rw [uh a ha b hb hid]
  · intro h1 hh1 h2 hh2 r1 hr1 r2 hr2 hidx
    obtain ⟨a, ha, rfl⟩ := List.mem_map.mp hh1
    obtain ⟨b, hb, rfl⟩ := List.mem_map.mp hh2
    obtain ⟨s1, hs1, e1, c1⟩ := src a r1 hr1
    obtain ⟨s2, hs2, e2, c2⟩ := src b r2 hr2
    have := gi a ha b hb s1 hs1 s2 hs2 (by rw [e1, e2]; exact hidx)
    have hab : a = b := uh a ha b hb this.1
    subst hab
    refine ⟨by rw [gid], ?_⟩
    have hss : s1 = s2 := this.2
    subst hss
    rcases (hg a).2 with h2 | h2
    · -- records unchanged
      rw [h2] at hr1 hr2
      exact (gi a ha a ha r1 hr1 r2 hr2 hidx).2
    · rw [h2] at hr1 hr2
      obtain ⟨t1, ht1, rfl⟩ := List.mem_map.mp hr1
      obtain ⟨t2, ht2, rfl⟩ := List.mem_map.mp hr2
      have : t1 = t2 := (gi a ha a ha t1 ht1 t2 ht2 (by rw [← (hf t1).2.2, ← (hf t2).2.2]; exact hidx)).2
      rw [this]
  · intro h hh r hr
    obtain ⟨a, ha, rfl⟩ := List.mem_map.mp hh
    obtain ⟨s1, hs1, e1, _⟩ := src a r hr
    obtain ⟨p, hp, hpe⟩ := rc a ha s1 hs1
    exact ⟨p, hp, by rw [hpe, e1]⟩
  · intro h hh r hr
    obtain ⟨a, ha, rfl⟩ := List.mem_map.mp hh
    rcases (hg a).2 with h2 | h2
    · rw [h2] at hr; exact sv a ha r hr
    · rw [h2] at hr
      obtain ⟨t, ht, rfl⟩ := List.mem_map.mp hr
      exact (hs t).2 (sv a ha t ht)

/-- a per-host update `g` that keeps the id and either keeps the records or maps them with a
key-preserving function. -/
theorem ext_mapHosts {am : Bool} {n m : Node} (g : Host → Host) (f : Relay → Relay) (hf : KeyPres f) (hs : StOK f)
    (hg : ∀ h, (g h).id = h.id ∧ ((g h).recs = h.recs ∨ (g h).recs = h.recs.map f)) (e : Ext am n m) :
    Ext am n { m with hosts := m.hosts.map g } := by
  have gid : ∀ h, (g h).id = h.id := fun h => (hg h).1
  have keep : ∀ h, ∀ r ∈ h.recs, ∃ r' ∈ (g h).recs, r'.localIndex = r.localIndex := by
    intro h r hr
    rcases (hg h).2 with h2 | h2
    · rw [h2]; exact ⟨r, hr, rfl⟩
    · rw [h2]; exact ⟨f r, List.mem_map.mpr ⟨r, hr, rfl⟩, (hf r).2.2⟩
  refine { my := e.my, amr := e.amr, back := ?_, fwd := ?_, rel := ?_, orig := ?_, wf := fun w => wf_mapHosts g f hf hs hg (e.wf w),
           ids := fun h' hh' => by
             obtain ⟨h0, hh0, rfl⟩ := List.mem_map.mp hh'
             rw [gid]; exact e.ids h0 hh0 }
  rotate_left 3
  · intro h' hh' r' hr'
    simp only [List.mem_map] at hh'
    obtain ⟨h0, hh0, rfl⟩ := hh'
    rw [gid]
    rcases (hg h0).2 with h1 | h1
    · rw [h1] at hr'; exact e.orig h0 hh0 r' hr'
    · rw [h1] at hr'
      simp only [List.mem_map] at hr'
      obtain ⟨r0, hr0, rfl⟩ := hr'
      have k := hf r0
      rw [k.1, k.2.1, k.2.2]
      rcases e.orig h0 hh0 r0 hr0 with ⟨h, hh, hid, r, hr, k1, k2, k3, st⟩ | fr
      · refine Or.inl ⟨h, hh, hid, r, hr, k1, k2, k3, ?_⟩
        rcases (hs r0).1 with q | q
        · rcases st with st | st
          · exact Or.inl (by rw [q]; exact st)
          · exact Or.inr (by rw [q]; exact st)
        · exact Or.inr q
      · exact Or.inr fr
  · intro h' hh' r' hr'
    simp only [List.mem_map] at hh'
    obtain ⟨h0, hh0, rfl⟩ := hh'
    rw [gid]
    rcases (hg h0).2 with h1 | h1
    · rw [h1] at hr'; exact e.back h0 hh0 r' hr'
    · rw [h1] at hr'
      simp only [List.mem_map] at hr'
      obtain ⟨r0, hr0, rfl⟩ := hr'
      have k := hf r0
      rw [k.1, k.2.1, k.2.2]
      exact e.back h0 hh0 r0 hr0
  · intro h hh
    obtain ⟨h1, hh1, hid, hrec⟩ := e.fwd h hh
    refine ⟨g h1, List.mem_map.mpr ⟨h1, hh1, rfl⟩, by rw [gid]; exact hid, ?_⟩
    intro r hr
    obtain ⟨r1, hr1, hi⟩ := hrec r hr
    obtain ⟨r2, hr2, hi2⟩ := keep h1 r1 hr1
    exact ⟨r2, hr2, by rw [hi2]; exact hi⟩
  · intro p hp
    rcases e.rel p hp with h1 | ⟨h1, hh1, hid, r1, hr1, hi⟩
    · exact Or.inl h1
    · obtain ⟨r2, hr2, hi2⟩ := keep h1 r1 hr1
      exact Or.inr ⟨g h1, List.mem_map.mpr ⟨h1, hh1, rfl⟩, by rw [gid]; exact hid, r2, hr2, by rw [hi2]; exact hi⟩

theorem ext_modHost_map {am : Bool} {n m : Node} (hid : Nat) (f : Relay → Relay) (hf : KeyPres f) (hs : StOK f)
    (e : Ext am n m) : Ext am n (m.modHost hid (·.mapRecs f)) := by
  unfold Node.modHost
  exact ext_mapHosts _ f hf hs (fun h => by
    cases c : (h.id == hid)
    · simp [c]
    · simp [c, Host.mapRecs]) e

theorem ext_modHostsFor_map {am : Bool} {n m : Node} (a : Addr) (f : Relay → Relay) (hf : KeyPres f) (hs : StOK f)
    (e : Ext am n m) : Ext am n (m.modHostsFor a (·.mapRecs f)) := by
  unfold Node.modHostsFor
  exact ext_mapHosts _ f hf hs (fun h => by
    cases c : h.vpnAddrs.contains a
    · simp [c]
    · simp [c, Host.mapRecs]) e

/-- a per-host update that does not touch relay records at all (e.g. the underlay address). -/
theorem ext_modHost_other {am : Bool} {n m : Node} (hid : Nat) (g : Host → Host)
    (hg : ∀ h, (g h).id = h.id ∧ (g h).recs = h.recs) (e : Ext am n m) : Ext am n (m.modHost hid g) := by
  unfold Node.modHost
  exact ext_mapHosts _ id (fun r => ⟨rfl, rfl, rfl⟩) stOK_id (fun h => by
    cases c : (h.id == hid)
    · simp [c]
    · simp [c, hg h]) e

/-- a re-ordering of the host list. -/
theorem ext_perm {am : Bool} {n m : Node} (l : List Host) (hl : ∀ h, h ∈ l ↔ h ∈ m.hosts) (e : Ext am n m) :
    Ext am n { m with hosts := l } :=
  { my := e.my, amr := e.amr
    back := fun h' hh' => e.back h' ((hl h').mp hh')
    fwd := fun h hh => by
      obtain ⟨h1, hh1, r⟩ := e.fwd h hh
      exact ⟨h1, (hl h1).mpr hh1, r⟩
    rel := fun p hp => by
      rcases e.rel p hp with h1 | ⟨h1, hh1, r⟩
      · exact Or.inl h1
      · exact Or.inr ⟨h1, (hl h1).mpr hh1, r⟩
    orig := fun h' hh' => e.orig h' ((hl h').mp hh')
    wf := fun w => by
      obtain ⟨uh, gi, rc, sv⟩ := e.wf w
      exact ⟨fun h1 hh1 h2 hh2 => uh h1 ((hl h1).mp hh1) h2 ((hl h2).mp hh2),
        fun h1 hh1 h2 hh2 => gi h1 ((hl h1).mp hh1) h2 ((hl h2).mp hh2),
        fun h hh => rc h ((hl h).mp hh), fun h hh => sv h ((hl h).mp hh)⟩
    ids := fun h' hh' => e.ids h' ((hl h').mp hh') }

theorem ext_toFront {am : Bool} {n m : Node} (hid : Nat) (e : Ext am n m) : Ext am n (m.toFront hid) := by
  unfold Node.toFront
  apply ext_perm _ _ e
  intro h
  simp only [List.mem_append, List.mem_filter]
  by_cases c : (h.id == hid) = true <;> simp [c]

theorem ext_pending {am : Bool} {n m : Node} (_p : List Addr) (e : Ext am n m) : Ext am n { m with pending := _p } :=
  { my := e.my, amr := e.amr, back := e.back, fwd := e.fwd, rel := e.rel, orig := e.orig, wf := e.wf, ids := e.ids }

theorem ext_relayUsed {am : Bool} {n m : Node} (u : List Nat) (e : Ext am n m) : Ext am n { m with relayUsed := u } :=
  { my := e.my, amr := e.amr, back := e.back, fwd := e.fwd, rel := e.rel, orig := e.orig, wf := e.wf, ids := e.ids }

theorem allocIdx_fresh (m : Node) : ∀ (fuel c : Nat) (idx c' : Nat),
    allocIdx m fuel c = (some idx, c') → ∀ p ∈ m.relays, p.1 ≠ idx := by
  intro fuel
  induction fuel with
  | zero => intro c idx c' h; simp [allocIdx] at h
  | succ k ih =>
    intro c idx c' h
    unfold allocIdx at h
    split at h
    · exact ih _ _ _ h
    · rename_i hfree
      simp only [Prod.mk.injEq, Option.some.injEq] at h
      obtain ⟨rfl, _⟩ := h
      intro p hp heq
      apply hfree
      unfold Node.relayOwner
      rw [Option.isSome_map, List.find?_isSome]
      exact ⟨p, hp, by simp [heq]⟩

/-- `AddRelay`: a new record on the hostinfo `hid` and a new, owned `hm.Relays` entry. -/
theorem ext_addRelay {am : Bool} {n m m1 : Node} {c c' hid peer ri ty st i : Nat}
    (h : addRelay m c hid peer ri ty st = (some (m1, i), c'))
    (ok : ty ≠ nebula_ForwardingType ∨ (am = true ∧ n.myAddrs.contains peer = false))
    (hst : validState st = true)
    (e : Ext am n m) : Ext am n m1 := by
  unfold addRelay at h
  split at h
  · simp at h
  · rename_i idx c1 halloc
    split at h
    · simp at h
    · rename_i h0 hfind
      simp only [Prod.mk.injEq, Option.some.injEq] at h
      obtain ⟨⟨rfl, rfl⟩, rfl⟩ := h
      have hf0 := findHost_some hfind
      have fresh : ∀ p ∈ m.relays, p.1 ≠ idx := allocIdx_fresh m 32 c idx c1 halloc
      let r : Relay := { type := ty, state := st, localIndex := idx, remoteIndex := ri, peerAddr := peer }
      let g : Host → Host := fun h => if h.id == hid then { h with recs := h.recs ++ [r] } else h
      have gid : ∀ h, (g h).id = h.id := by intro h; simp only [g]; split <;> rfl
      -- membership in the re-ordered host list
      have mem : ∀ x, x ∈ ((Node.toFront { m with hosts := m.hosts.map g } hid).hosts) ↔ x ∈ m.hosts.map g := by
        intro x
        unfold Node.toFront
        simp only [List.mem_append, List.mem_filter]
        by_cases cx : (x.id == hid) = true <;> simp [cx]
      -- records of `g h`
      have grec : ∀ x, ∀ r' ∈ (g x).recs, r' ∈ x.recs ∨ (r' = r ∧ x.id = hid) := by
        intro x r' hr'
        simp only [g] at hr'
        split at hr'
        · rename_i hx
          simp only [List.mem_append, List.mem_singleton] at hr'
          rcases hr' with hr' | hr'
          · exact Or.inl hr'
          · exact Or.inr ⟨hr', by simpa using hx⟩
        · exact Or.inl hr'
      have gkeep : ∀ x, ∀ r0 ∈ x.recs, r0 ∈ (g x).recs := by
        intro x r0 hr0
        simp only [g]; split
        · exact List.mem_append_left _ hr0
        · exact hr0
      have gnew : r ∈ (g h0).recs := by
        simp only [g, hf0.2, beq_self_eq_true, if_true, List.mem_append, List.mem_singleton, or_true]
      refine { my := e.my, amr := e.amr, back := ?_, fwd := ?_, rel := ?_, orig := ?_, wf := ?_,
               ids := fun h' hh' => by
                 obtain ⟨h1, hh1, rfl⟩ := List.mem_map.mp ((mem h').mp hh')
                 rw [gid]; exact e.ids h1 hh1 }
      · intro h' hh' r' hr'
        obtain ⟨h1, hh1, rfl⟩ := List.mem_map.mp ((mem h').mp hh')
        rw [gid]
        rcases grec h1 r' hr' with hr' | ⟨rfl, _⟩
        · exact e.back h1 hh1 r' hr'
        · exact Or.inr ok
      · intro h hh
        obtain ⟨h1, hh1, hid1, hrec⟩ := e.fwd h hh
        refine ⟨g h1, (mem _).mpr (List.mem_map.mpr ⟨h1, hh1, rfl⟩), by rw [gid]; exact hid1, ?_⟩
        intro r0 hr0
        obtain ⟨r1, hr1, hi⟩ := hrec r0 hr0
        exact ⟨r1, gkeep h1 r1 hr1, hi⟩
      · intro p hp
        simp only [List.mem_cons, List.mem_filter] at hp
        rcases hp with rfl | ⟨hp, _⟩
        · exact Or.inr ⟨g h0, (mem _).mpr (List.mem_map.mpr ⟨h0, hf0.1, rfl⟩), by rw [gid]; exact hf0.2, r, gnew, rfl⟩
        · rcases e.rel p hp with h1 | ⟨h1, hh1, hid1, r1, hr1, hi⟩
          · exact Or.inl h1
          · exact Or.inr ⟨g h1, (mem _).mpr (List.mem_map.mpr ⟨h1, hh1, rfl⟩), by rw [gid]; exact hid1, r1, gkeep h1 r1 hr1, hi⟩
      · intro h' hh' r' hr'
        obtain ⟨h1, hh1, rfl⟩ := List.mem_map.mp ((mem h').mp hh')
        rw [gid]
        rcases grec h1 r' hr' with hr' | ⟨rfl, _⟩
        · exact e.orig h1 hh1 r' hr'
        · refine Or.inr (fun w x hx r0 hr0 heq => ?_)
          obtain ⟨_, _, rc, _⟩ := e.wf w
          obtain ⟨x1, hx1, _, hrec⟩ := e.fwd x hx
          obtain ⟨r1, hr1, hi⟩ := hrec r0 hr0
          obtain ⟨p, hp, hpe⟩ := rc x1 hx1 r1 hr1
          exact fresh p hp (by rw [hpe, hi]; exact heq)
      · intro w
        obtain ⟨uh, gi, rc, sv⟩ := e.wf w
        have nofresh : ∀ x ∈ m.hosts, ∀ r0 ∈ x.recs, r0.localIndex ≠ idx := by
          intro x hx r0 hr0 heq
          obtain ⟨p, hp, hpe⟩ := rc x hx r0 hr0
          exact fresh p hp (by rw [hpe]; exact heq)
        refine ⟨?_, ?_, ?_, ?_⟩
        · intro a ha b hb hid'
          obtain ⟨a1, ha1, rfl⟩ := List.mem_map.mp ((mem a).mp ha)
          obtain ⟨b1, hb1, rfl⟩ := List.mem_map.mp ((mem b).mp hb)
          rw [gid, gid] at hid'
          rw [uh a1 ha1 b1 hb1 hid']
        · intro a ha b hb r1 hr1 r2 hr2 hidx
          obtain ⟨a1, ha1, rfl⟩ := List.mem_map.mp ((mem a).mp ha)
          obtain ⟨b1, hb1, rfl⟩ := List.mem_map.mp ((mem b).mp hb)
          rw [gid, gid]
          rcases grec a1 r1 hr1 with q1 | ⟨q1, ia⟩ <;> rcases grec b1 r2 hr2 with q2 | ⟨q2, ib⟩
          · exact gi a1 ha1 b1 hb1 r1 q1 r2 q2 hidx
          · subst q2; exact absurd hidx (nofresh a1 ha1 r1 q1)
          · subst q1; exact absurd hidx.symm (nofresh b1 hb1 r2 q2)
          · exact ⟨by rw [ia, ib], by rw [q1, q2]⟩
        · intro x hx r0 hr0
          obtain ⟨x1, hx1, rfl⟩ := List.mem_map.mp ((mem x).mp hx)
          rcases grec x1 r0 hr0 with q | ⟨q, _⟩
          · obtain ⟨p, hp, hpe⟩ := rc x1 hx1 r0 q
            by_cases ce : p.1 = idx
            · exact ⟨(idx, hid), List.mem_cons_self, by rw [← hpe, ce]⟩
            · exact ⟨p, List.mem_cons_of_mem _ (List.mem_filter.mpr ⟨hp, by simpa using ce⟩), hpe⟩
          · subst q; exact ⟨(idx, hid), List.mem_cons_self, rfl⟩
        · intro x hx r0 hr0
          obtain ⟨x1, hx1, rfl⟩ := List.mem_map.mp ((mem x).mp hx)
          rcases grec x1 r0 hr0 with q | ⟨q, _⟩
          · exact sv x1 hx1 r0 q
          · subst q; exact hst

-- ---- consequences of `Ext`

def NS (n : Node) : Prop :=
  ∀ h ∈ n.hosts, ∀ r ∈ h.recs, r.type = nebula_ForwardingType → n.myAddrs.contains r.peerAddr = false

def RO (n : Node) : Prop :=
  ∀ p ∈ n.relays, ∃ h ∈ n.hosts, h.id = p.2 ∧ ∃ r ∈ h.recs, r.localIndex = p.1

theorem Ext.ns {am : Bool} {n m : Node} (e : Ext am n m) (h : NS n) : NS m := by
  intro h' hh' r' hr' hty
  rw [e.my]
  rcases e.back h' hh' r' hr' with ⟨h0, hh0, _, r0, hr0, k1, k2, _⟩ | h1 | h1
  · rw [← k2]; exact h h0 hh0 r0 hr0 (by rw [k1]; exact hty)
  · exact absurd hty h1
  · exact h1.2

theorem Ext.ro {am : Bool} {n m : Node} (e : Ext am n m) (h : RO n) : RO m := by
  intro p hp
  rcases e.rel p hp with h1 | h1
  · obtain ⟨h0, hh0, hid, r0, hr0, hi⟩ := h p h1
    obtain ⟨h', hh', hid', hrec⟩ := e.fwd h0 hh0
    obtain ⟨r', hr', hi'⟩ := hrec r0 hr0
    exact ⟨h', hh', by rw [hid']; exact hid, r', hr', by rw [hi']; exact hi⟩
  · exact h1

theorem ns_iff (n : Node) : noSelfRecords n = true ↔ NS n := by
  unfold noSelfRecords NS
  simp only [List.all_eq_true, Bool.or_eq_true, Bool.not_eq_true', beq_eq_false_iff_ne, ne_eq]
  constructor
  · intro h x hx r hr hty
    rcases h x hx r hr with h1 | h1
    · exact absurd (by simpa using hty) h1
    · exact h1
  · intro h x hx r hr
    by_cases c : r.type = nebula_ForwardingType
    · exact Or.inr (h x hx r hr c)
    · exact Or.inl (by simpa using c)

theorem ro_iff (n : Node) : relaysOwned n = true ↔ RO n := by
  unfold relaysOwned RO
  simp only [List.all_eq_true, List.any_eq_true, Bool.and_eq_true, beq_iff_eq]

end Nebula.Lemmas.Relay
