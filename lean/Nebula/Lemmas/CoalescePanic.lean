/-
C23: the Go code never panics — every slice / index expression stays within bounds.
-/
import Nebula.Lemmas.CoalescePool

namespace Nebula.Lemmas.Coalesce
open Nebula.Coalesce Nebula.Gen
open Nebula.Spec

@[simp] theorem chk_true {α} (w : String) (k : Chk α) : chk true w k = k := rfl

theorem chk_of {α} {c : Bool} (h : c = true) (w : String) (k : Chk α) : chk c w k = k := by
  subst h; rfl

/-! ### parsing: no panic on any bytes, any claimed header length -/

theorem parseIPv4PrologueC_ok (pkt : Bytes) (h : 20 ≤ pkt.length) :
    parseIPv4PrologueC pkt = .ok (parseIPv4Prologue pkt) := by
  unfold parseIPv4PrologueC parseIPv4Prologue
  have e1 : decide (0 < pkt.length) = true := by simp; omega
  have e2 : decide (8 ≤ pkt.length) = true := by simp; omega
  have e3 : decide (4 ≤ pkt.length) = true := by simp; omega
  have e4 : decide (16 ≤ pkt.length) = true := by simp; omega
  have e5 : decide (20 ≤ pkt.length) = true := by simp; omega
  simp only [e1, e2, e3, e4, e5, chk_true]
  split
  · rfl
  · split
    · rfl
    · split
      · rfl
      · rename_i h3
        have : decide (u16At pkt 2 ≤ pkt.length) = true := by simp; omega
        simp only [this, chk_true]

theorem parseIPv6PrologueC_ok (pkt : Bytes) (h : 40 ≤ pkt.length) :
    parseIPv6PrologueC pkt = .ok (parseIPv6Prologue pkt) := by
  unfold parseIPv6PrologueC parseIPv6Prologue
  have e1 : decide (6 ≤ pkt.length) = true := by simp; omega
  have e2 : decide (24 ≤ pkt.length) = true := by simp; omega
  have e3 : decide (40 ≤ pkt.length) = true := by simp; omega
  simp only [e1, e2, e3, chk_true]
  split
  · rfl
  · rename_i h3
    have : decide (40 + u16At pkt 4 ≤ pkt.length) = true := by simp; omega
    simp only [this, chk_true]

theorem parseIPAtC_ok (pkt : Bytes) (iphl : Nat) : parseIPAtC pkt iphl = .ok (parseIPAt pkt iphl) := by
  unfold parseIPAtC parseIPAt
  by_cases h20 : pkt.length < 20
  · simp [h20]
  · have e1 : decide (0 < pkt.length) = true := by simp; omega
    simp only [h20, ↓reduceIte, e1, chk_true]
    split
    · split
      · rfl
      · exact parseIPv4PrologueC_ok pkt (by omega)
    · split
      · split
        · rfl
        · rename_i hc
          exact parseIPv6PrologueC_ok pkt (by omega)
      · rfl

theorem parseTailUDPC_ok (ip : IPParse) (l4 : Nat) : parseTailUDPC ip l4 = .ok (parseTailUDP ip l4) := by
  unfold parseTailUDPC parseTailUDP
  simp only
  split
  · rfl
  · rename_i h
    have e1 : decide (l4 + 6 ≤ ip.trimmed.length) = true := by simp; omega
    have e2 : decide (l4 + 4 ≤ ip.trimmed.length) = true := by simp; omega
    simp only [e1, e2, chk_true]
    split <;> rfl

theorem parseTailTCPC_ok (ip : IPParse) (l4 : Nat) : parseTailTCPC ip l4 = .ok (parseTailTCP ip l4) := by
  unfold parseTailTCPC parseTailTCP
  simp only
  split
  · rfl
  · rename_i h
    have e1 : decide (l4 + 12 < ip.trimmed.length) = true := by simp; omega
    have e2 : decide (l4 + 8 ≤ ip.trimmed.length) = true := by simp; omega
    have e3 : decide (l4 + 13 < ip.trimmed.length) = true := by simp; omega
    simp only [e1, e2, e3, chk_true]
    split
    · rfl
    · split <;> rfl

/-- parsing never panics, whatever the bytes and whatever `IPHdrLen` the caller claims -/
theorem parseAtC_ok (tcp : Bool) (pkt : Bytes) (iphl : Nat) : parseAtC tcp pkt iphl = .ok (parseAt tcp pkt iphl) := by
  unfold parseAtC parseAt
  rw [parseIPAtC_ok]
  cases parseIPAt pkt iphl with
  | none => rfl
  | some ip =>
    simp only
    cases tcp
    · simp only [Bool.false_eq_true, ↓reduceIte]; exact parseTailUDPC_ok ip iphl
    · simp only [↓reduceIte]; exact parseTailTCPC_ok ip iphl

/-! ### the slot stage -/

/-- the bounds a coalescing slot guarantees -/
structure SlotB (tcp : Bool) (s : Slot) : Prop where
  raw : s.hdrLen ≤ s.rawPkt.length
  l4 : s.ipHdrLen = if s.isV6 then 40 else 20
  hmin : s.ipHdrLen + (if tcp then 20 else 8) ≤ s.hdrLen

theorem slotB_of_coal {tcp : Bool} {s : Slot} (hc : CoalOK tcp s) : SlotB tcp s := by
  have SF := seedFacts hc
  refine ⟨?_, SF.l4, SF.hmin⟩
  rw [length_rawPkt hc]; have := SF.lenP0; omega

theorem parsed_len {tcp : Bool} {pkt : Bytes} {iphl : Nat} {info : Parsed} (P : ParseFacts tcp pkt iphl info) :
    28 ≤ info.hdrLen ∧ info.hdrLen ≤ pkt.length := by
  have := P.le; have := P.hl
  cases tcp with
  | true => have := P.tcpF rfl; cases h6 : info.fk.isV6 <;> simp_all <;> omega
  | false => have := P.udp rfl; cases h6 : info.fk.isV6 <;> simp_all <;> omega

theorem ite_ok_false {c : Prop} [Decidable c] {v : Bool} {X : Chk Bool} (h1 : c → v = false)
    (h2 : ¬ c → X = .ok v) : (if c then (.ok false : Chk Bool) else X) = .ok v := by
  by_cases hc : c
  · rw [if_pos hc, h1 hc]
  · rw [if_neg hc, h2 hc]

theorem canAppendC_ok {tcp : Bool} {s : Slot} {pkt : Bytes} {iphl : Nat} {info : Parsed}
    (B : SlotB tcp s) (P : ParseFacts tcp pkt iphl info) :
    canAppendC tcp s pkt info = .ok (canAppend tcp s pkt info) := by
  obtain ⟨h28, hle⟩ := parsed_len P
  have hraw := B.raw; have hl4 := B.l4; have hmin := B.hmin
  have h20 : 20 ≤ s.ipHdrLen := by cases h6 : s.isV6 <;> simp [h6] at hl4 <;> omega
  have k1 : (!tcp || decide (s.ipHdrLen + 13 < s.rawPkt.length)) = true := by
    cases tcp <;> simp at hmin ⊢ <;> omega
  have k2 : (s.isV6 || decide (6 < s.rawPkt.length)) = true := by
    cases s.isV6
    · simp; omega
    · rfl
  have k3 : (s.isV6 || decide (byteAt s.rawPkt 6 / batch_ipv4FlagDF % 2 = 1) ||
      (decide (6 ≤ s.rawPkt.length) && decide (6 ≤ pkt.length))) = true := by
    have a : decide (6 ≤ s.rawPkt.length) = true := by simp; omega
    have b : decide (6 ≤ pkt.length) = true := by simp; omega
    rw [a, b, Bool.and_self, Bool.or_true]
  have k4 : decide (s.hdrLen ≤ s.rawPkt.length) = true := by simp; omega
  have k5 : decide (info.hdrLen ≤ pkt.length) = true := by simp; omega
  have k6 : (if s.isV6 = true then decide (40 ≤ s.hdrLen) else decide (20 ≤ s.hdrLen)) = true := by
    cases h6 : s.isV6 <;> simp [h6] at hl4 ⊢ <;> (cases tcp <;> simp at hmin <;> omega)
  have k7 : (if tcp = true then decide (s.ipHdrLen + 18 ≤ s.hdrLen) else decide (s.ipHdrLen + 4 ≤ s.hdrLen)) = true := by
    cases tcp <;> simp at hmin ⊢ <;> omega
  unfold canAppendC
  simp only [chk_of k1, chk_of k2, chk_of k3, chk_of k4, chk_of k5, chk_of k6, chk_of k7]
  apply ite_ok_false (fun h1 => by unfold canAppend; rw [if_pos h1]) (fun h1 => ?_)
  apply ite_ok_false (fun h2 => by unfold canAppend; rw [if_neg h1, if_pos h2]) (fun h2 => ?_)
  apply ite_ok_false (fun h3 => by unfold canAppend; rw [if_neg h1, if_neg h2, if_pos h3]) (fun h3 => ?_)
  apply ite_ok_false (fun h4 => by unfold canAppend; rw [if_neg h1, if_neg h2, if_neg h3, if_pos h4]) (fun h4 => ?_)
  apply ite_ok_false (fun h5 => by unfold canAppend; rw [if_neg h1, if_neg h2, if_neg h3, if_neg h4, if_pos h5]) (fun h5 => ?_)
  apply ite_ok_false (fun h6 => by
    unfold canAppend; rw [if_neg h1, if_neg h2, if_neg h3, if_neg h4, if_neg h5, if_pos h6]) (fun h6 => ?_)
  apply ite_ok_false (fun h7 => by
    unfold canAppend; rw [if_neg h1, if_neg h2, if_neg h3, if_neg h4, if_neg h5, if_neg h6, if_pos h7]) (fun h7 => ?_)
  rfl

theorem appendPayloadC_ok {tcp : Bool} {s : Slot} {pkt : Bytes} {iphl : Nat} {info : Parsed}
    (B : SlotB tcp s) (P : ParseFacts tcp pkt iphl info) :
    appendPayloadC tcp s pkt info = .ok (appendPayload tcp s pkt info) := by
  have hraw := B.raw; have hmin := B.hmin
  unfold appendPayloadC
  have k1 : decide (info.hdrLen + info.payLen ≤ pkt.length) = true := by simp; exact P.le
  have k2 : (!(tcp && hasPsh info.flags) || decide (s.ipHdrLen + 13 < s.rawPkt.length)) = true := by
    cases tcp <;> simp at hmin ⊢
    right; omega
  rw [chk_of k1, chk_of k2]

theorem seedC_ok {tcp : Bool} {c : Lane} {pkt : Bytes} {iphl : Nat} {info : Parsed}
    (P : ParseFacts tcp pkt iphl info) : c.seedC tcp pkt info = .ok (c.seed tcp pkt info) := by
  unfold Lane.seedC
  have k1 : decide (info.hdrLen + info.payLen ≤ pkt.length) = true := by simp; exact P.le
  rw [chk_of k1]
  split <;> simp

theorem commitParsedC_ok {tcp : Bool} {c : Lane} {pkt : Bytes} {iphl : Nat} {info : Parsed}
    (h : LaneInv tcp none c) (hparse : parseAt tcp pkt iphl = some info) :
    c.commitParsedC tcp pkt info = .ok (c.commitParsed tcp pkt info) := by
  have P := parseAt_facts hparse
  unfold Lane.commitParsedC
  split
  · rfl
  · split
    · rfl
    · simp only
      split
      · rename_i i ho
        obtain ⟨s, hs, hfk, hl, hopen⟩ := open_lookup h info.fk i ho
        rw [hs]
        simp only
        have B := slotB_of_coal ((h.ok s (List.mem_of_getElem? hs)).coal hopen.nv)
        rw [canAppendC_ok B P]
        cases canAppend tcp s pkt info with
        | true => simp only; rw [appendPayloadC_ok B P]
        | false => simp only; rw [seedC_ok P]
      · rw [seedC_ok P]

theorem commitStagedC_ok {tcp : Bool} {c : Lane} {sp : Staged} (h : LaneInv tcp none c) :
    c.commitStagedC tcp sp = .ok (c.commitStaged tcp sp) := by
  unfold Lane.commitStagedC
  split
  · rfl
  · rename_i hf
    rw [parseAtC_ok]
    cases hp : parseAt tcp sp.pkt sp.ipHdrLen with
    | none => rfl
    | some info =>
      simp only
      rw [commitParsedC_ok h hp]
      unfold Lane.commitStaged
      simp only [hf, Bool.false_eq_true, ↓reduceIte, hp]

/-! ### Flush -/

theorem flushSlotC_ok {tcp : Bool} {s : Slot} (B : SlotB tcp s) : flushSlotC tcp s = .ok (flushSlot tcp s) := by
  have hraw := B.raw; have hl4 := B.l4; have hmin := B.hmin
  have hm8 : s.ipHdrLen + 8 ≤ s.hdrLen := by cases tcp <;> simp at hmin <;> omega
  unfold flushSlotC
  have k1 : decide (s.hdrLen ≤ s.rawPkt.length) = true := by simp; omega
  have k2 : (if s.isV6 = true then decide (6 ≤ s.hdrLen) else decide (12 ≤ s.hdrLen ∧ s.ipHdrLen ≤ s.hdrLen)) = true := by
    cases h6 : s.isV6 <;> simp [h6] at hl4 ⊢ <;> omega
  have k3 : (tcp || decide (s.ipHdrLen + 6 ≤ s.hdrLen)) = true := by cases tcp <;> simp <;> omega
  have k4 : (if s.isV6 = true then decide (40 ≤ s.hdrLen) else decide (20 ≤ s.hdrLen)) = true := by
    cases h6 : s.isV6 <;> simp [h6] at hl4 ⊢ <;> omega
  have k5 : decide ((if tcp = true then s.ipHdrLen + 18 else s.ipHdrLen + 8) ≤ s.hdrLen) = true := by
    cases tcp <;> simp at hmin ⊢ <;> omega
  have k6 : decide (s.ipHdrLen ≤ s.hdrLen) = true := by simp; omega
  rw [chk_of k1, chk_of k2, chk_of k3, chk_of k4, chk_of k5, chk_of k6]

theorem slotOutC_ok {tcp : Bool} {s : Slot} (hok : SlotOK tcp s) : slotOutC tcp s = .ok (slotOut tcp s) := by
  unfold slotOutC slotOut
  split
  · rfl
  · rename_i h
    have hv : s.verbatim = false := by
      cases hh : s.verbatim with
      | false => rfl
      | true => exact absurd (Or.inl hh) h
    exact flushSlotC_ok (slotB_of_coal (hok.coal hv))

theorem mapM_ok {α β} (f : α → Chk β) (g : α → β) (l : List α) (h : ∀ a ∈ l, f a = .ok (g a)) :
    l.mapM f = .ok (l.map g) := by
  induction l with
  | nil => rfl
  | cons a t ih =>
    rw [List.mapM_cons, h a (by simp), ih (fun x hx => h x (by simp [hx]))]
    rfl

theorem flushC_ok {tcp : Bool} {ex} {c : Lane} (h : LaneInv tcp ex c) : c.flushC tcp = .ok (c.flush tcp) :=
  mapM_ok _ _ _ (fun s hs => slotOutC_ok (h.ok s hs))

/-! ### the MultiCoalescer -/

theorem dispatchC_ok {m : Multi} {sp : Staged} (h : MultiInv m) : m.dispatchC sp = .ok (m.dispatch sp) := by
  unfold Multi.dispatchC
  split
  · rw [commitStagedC_ok h.tcp]
  · split
    · rw [commitStagedC_ok h.udp]
    · rfl

theorem dispatchAllC_ok (l : List Staged) (m : Multi) (h : MultiInv m)
    (hc : ∀ sp ∈ l, KernelGSO.ppConsistent sp.pkt sp.proto sp.ipHdrLen sp.fragAny = true) :
    dispatchAllC m l = .ok (l.foldl Multi.dispatch m) := by
  induction l generalizing m with
  | nil => rfl
  | cons sp rest ih =>
    unfold dispatchAllC
    rw [dispatchC_ok h]
    simp only [List.foldl_cons]
    exact ih _ (dispatch_inv h (hc sp (by simp))).1 (fun x hx => hc x (by simp [hx]))

/-- a whole `Commit`* ; `Flush` round on a used coalescer never panics -/
theorem roundC_ok {m : Multi} (hi : Idle m) (b : List Staged) (hc : Consistent b) :
    m.roundC b = .ok (m.round b) := by
  have hperm := List.mergeSort_perm b stagedLe
  have hc' : ∀ sp ∈ b.mergeSort stagedLe, KernelGSO.ppConsistent sp.pkt sp.proto sp.ipHdrLen sp.fragAny = true :=
    fun sp hsp => hc sp (hperm.mem_iff.mp hsp)
  obtain ⟨hI, _⟩ := foldl_dispatch_inv (b.mergeSort stagedLe) m hi.inv hc'
  unfold Multi.roundC
  rw [dispatchAllC_ok _ _ hi.inv hc']
  simp only
  rw [flushC_ok hI.tcp, flushC_ok hI.udp]
  rfl

end Nebula.Lemmas.Coalesce
