/-
`firewallPort.addRule`'s per-port loop over the Go map equals the pointwise range update `FPort.addRule` that
the model uses (C16).
-/
import Nebula.Lemmas.FwRules

namespace Nebula.Lemmas.Fw
open Nebula.Net Nebula.Fw

theorem sameInt_iff (a b : Int) : sameInt a b = true ↔ a = b := by simp [sameInt]

theorem portLoop_get (cfg : Cfg) (groups : List String) (host : String) (cidr localCidr : CidrSel)
    (caName caSha : String) (n : Nat) (m : FPortMap) (i j : Int) :
    aget sameInt (portLoop cfg groups host cidr localCidr caName caSha m i n) j
      = if i ≤ j ∧ j < i + n then
          some (((aget sameInt m j).getD {}).addRule cfg groups host cidr localCidr caName caSha)
        else aget sameInt m j := by
  induction n generalizing m i with
  | zero =>
    have h0 : ¬ (i ≤ j ∧ j < i + ((0 : Nat) : Int)) := by omega
    rw [if_neg h0]; rfl
  | succ n ih =>
    simp only [portLoop]
    rw [ih, aget_aset_eq sameInt sameInt_iff]
    by_cases hij : i = j
    · subst hij
      have h1 : ¬ (i + 1 ≤ i ∧ i < i + 1 + (n : Int)) := by omega
      have h2 : i ≤ i ∧ i < i + ((n + 1 : Nat) : Int) := by omega
      rw [if_neg h1, if_pos h2, if_pos rfl]
    · by_cases hin : i + 1 ≤ j ∧ j < i + 1 + (n : Int)
      · have h2 : i ≤ j ∧ j < i + ((n + 1 : Nat) : Int) := by omega
        rw [if_pos hin, if_pos h2, if_neg hij]
      · have h2 : ¬ (i ≤ j ∧ j < i + ((n + 1 : Nat) : Int)) := by omega
        rw [if_neg hin, if_neg h2, if_neg hij]

/-- the loop over the map, read back, is the pointwise update — for every start ≤ end (the guard of
`firewallPort.addRule`), every existing map content and every key. -/
theorem portMap_addRule_eq (cfg : Cfg) (m : FPortMap) (startPort endPort : Int) (groups : List String)
    (host : String) (cidr localCidr : CidrSel) (caName caSha : String) (hle : startPort ≤ endPort) :
    (m.addRule cfg startPort endPort groups host cidr localCidr caName caSha).toFPort
      = m.toFPort.addRule cfg startPort endPort groups host cidr localCidr caName caSha := by
  funext j
  simp only [FPortMap.toFPort, FPortMap.addRule, FPort.addRule, portLoop_get]
  have hn : ((endPort - startPort + 1).toNat : Int) = endPort - startPort + 1 := by omega
  by_cases h : startPort ≤ j ∧ j ≤ endPort
  · have h' : startPort ≤ j ∧ j < startPort + ((endPort - startPort + 1).toNat : Int) := by omega
    rw [if_pos h, if_pos h']
  · have h' : ¬ (startPort ≤ j ∧ j < startPort + ((endPort - startPort + 1).toNat : Int)) := by omega
    rw [if_neg h, if_neg h']

end Nebula.Lemmas.Fw
