/-
Protobuf round trip of `RawNebulaCertificateDetails` and `RawNebulaCertificate` (`Model/CertV1.lean`): the
table-driven decoder reads the encoder's output back, for every message whose numeric fields are inside
their Go types.
-/
import Nebula.Model.CertV1
import Nebula.Lemmas.CertKeysPb

namespace Nebula.Lemmas.CertV1Pb
open Nebula.CertPb Nebula.Cert.V1 Nebula.Lemmas.CertPb Nebula.Lemmas.CertKeysPb

theorem decDetails_nil (fuel : Nat) (hf : 1 ≤ fuel) (d : RawDetails) : decDetails fuel d [] = some d := by
  cases fuel with
  | zero => omega
  | succ f => simp [decDetails]

/-- one string field (name: 1). -/
theorem dd_name (fuel : Nat) (hf : 1 ≤ fuel) (d : RawDetails) (b rest : List UInt8) (hb : b.length < 2 ^ 64)
    (hu : utf8Valid b = true) :
    decDetails fuel d (encBytesField 1 b ++ rest) = decDetails (fuel - 1) { d with name := b } rest := by
  cases fuel with
  | zero => omega
  | succ f =>
    obtain ⟨ht, hv⟩ := field_bytes 1 b rest (by omega) (by omega) hb
    rw [decDetails, append_isEmpty_false (bytesField_length_pos 1 b)]
    simp only [Bool.false_eq_true, if_false, ht, hv]
    simp [hu]

theorem dd_group (fuel : Nat) (hf : 1 ≤ fuel) (d : RawDetails) (b rest : List UInt8) (hb : b.length < 2 ^ 64)
    (hu : utf8Valid b = true) :
    decDetails fuel d (encBytesField 4 b ++ rest) = decDetails (fuel - 1) { d with groups := d.groups ++ [b] } rest := by
  cases fuel with
  | zero => omega
  | succ f =>
    obtain ⟨ht, hv⟩ := field_bytes 4 b rest (by omega) (by omega) hb
    rw [decDetails, append_isEmpty_false (bytesField_length_pos 4 b)]
    simp only [Bool.false_eq_true, if_false, ht, hv]
    simp [hu]

theorem dd_pk (fuel : Nat) (hf : 1 ≤ fuel) (d : RawDetails) (b rest : List UInt8) (hb : b.length < 2 ^ 64) :
    decDetails fuel d (encBytesField 7 b ++ rest) = decDetails (fuel - 1) { d with publicKey := b } rest := by
  cases fuel with
  | zero => omega
  | succ f =>
    obtain ⟨ht, hv⟩ := field_bytes 7 b rest (by omega) (by omega) hb
    rw [decDetails, append_isEmpty_false (bytesField_length_pos 7 b)]
    simp only [Bool.false_eq_true, if_false, ht, hv]
    simp

theorem dd_issuer (fuel : Nat) (hf : 1 ≤ fuel) (d : RawDetails) (b rest : List UInt8) (hb : b.length < 2 ^ 64) :
    decDetails fuel d (encBytesField 9 b ++ rest) = decDetails (fuel - 1) { d with issuer := b } rest := by
  cases fuel with
  | zero => omega
  | succ f =>
    obtain ⟨ht, hv⟩ := field_bytes 9 b rest (by omega) (by omega) hb
    rw [decDetails, append_isEmpty_false (bytesField_length_pos 9 b)]
    simp only [Bool.false_eq_true, if_false, ht, hv]
    simp

theorem dd_varint (fuel : Nat) (hf : 1 ≤ fuel) (d : RawDetails) (num v : Nat) (rest : List UInt8)
    (hn : num = 5 ∨ num = 6 ∨ num = 8 ∨ num = 100) :
    decDetails fuel d (encVarintField num v ++ rest) =
      decDetails (fuel - 1)
        (if num = 5 then { d with notBefore := uToInt64 (v % 2 ^ 64) }
         else if num = 6 then { d with notAfter := uToInt64 (v % 2 ^ 64) }
         else if num = 8 then { d with isCA := v % 2 ^ 64 != 0 }
         else { d with curve := v % 2 ^ 64 % 2 ^ 32 }) rest := by
  cases fuel with
  | zero => omega
  | succ f =>
    obtain ⟨ht, hv⟩ := field_varint num v rest (by omega) (by omega)
    rw [decDetails, append_isEmpty_false (varintField_length_pos num v)]
    simp only [Bool.false_eq_true, if_false, ht, hv]
    rcases hn with rfl | rfl | rfl | rfl <;> simp

theorem map_mod_id (vs : List Nat) (hv : ∀ v ∈ vs, v < 2 ^ 32) : vs.map (· % 2 ^ 32) = vs := by
  induction vs with
  | nil => rfl
  | cons a t ih =>
    simp only [List.map_cons]
    rw [ih (fun v h => hv v (by simp [h])), Nat.mod_eq_of_lt (hv a (by simp))]

/-- packed `repeated uint32` (ips: 2, subnets: 3). -/
theorem dd_packed (fuel : Nat) (hf : 1 ≤ fuel) (d : RawDetails) (num : Nat) (vs : List Nat) (rest : List UInt8)
    (hn : num = 2 ∨ num = 3) (hv : ∀ v ∈ vs, v < 2 ^ 32) (hl : (vs.flatMap encVarint).length < 2 ^ 64) :
    decDetails fuel d (encBytesField num (vs.flatMap encVarint) ++ rest) =
      decDetails (fuel - 1)
        (if num = 2 then { d with ips := d.ips ++ vs } else { d with subnets := d.subnets ++ vs }) rest := by
  cases fuel with
  | zero => omega
  | succ f =>
    obtain ⟨ht, hb⟩ := field_bytes num (vs.flatMap encVarint) rest (by omega) (by omega) hl
    have hp := decPacked_enc vs (fun v h => by have := hv v h; omega) _ (Nat.le_refl _)
    have hm := map_mod_id vs hv
    rw [decDetails, append_isEmpty_false (bytesField_length_pos num _)]
    simp only [Bool.false_eq_true, if_false, ht, hb]
    generalize vs.flatMap encVarint = pk at hp
    rcases hn with rfl | rfl <;> simp [hp, hm]

theorem dd_groups (gs : List (List UInt8)) : ∀ (fuel : Nat) (d : RawDetails) (rest : List UInt8),
    gs.length ≤ fuel → (∀ g ∈ gs, g.length < 2 ^ 64 ∧ utf8Valid g = true) →
    decDetails fuel d (gs.flatMap (encBytesField 4) ++ rest) =
      decDetails (fuel - gs.length) { d with groups := d.groups ++ gs } rest := by
  induction gs with
  | nil => intro fuel d rest _ _; simp
  | cons g tl ih =>
    intro fuel d rest hf hg
    simp only [List.flatMap_cons, List.append_assoc, List.length_cons] at hf ⊢
    obtain ⟨g1, g2⟩ := hg g (by simp)
    rw [dd_group fuel (by omega) d g _ g1 g2]
    rw [ih (fuel - 1) _ rest (by omega) (fun x hx => hg x (by simp [hx]))]
    simp only [List.append_assoc, List.singleton_append]
    congr 1
    omega

theorem flatMap_length_ge {α : Type} (l : List α) (f : α → List UInt8) (h : ∀ x, 1 ≤ (f x).length) :
    l.length ≤ (l.flatMap f).length := by
  induction l with
  | nil => simp
  | cons a tl ih => simp only [List.flatMap_cons, List.length_cons, List.length_append]; have := h a; omega

theorem uToInt64_int64ToU (v : Int) (h1 : -2 ^ 63 ≤ v) (h2 : v < 2 ^ 63) : uToInt64 (int64ToU v % 2 ^ 64) = v := by
  unfold uToInt64 int64ToU
  have e : ((2 ^ 64 : Nat) : Int) = 18446744073709551616 := by decide
  rw [e]
  split <;> omega

theorem enumU_mod (c : Nat) (h : c < 2 ^ 32) : enumU c % 2 ^ 64 % 2 ^ 32 = c := by
  unfold enumU; split <;> omega

/-! optional fields: the encoder omits zero values; `min 1 len` is the fuel the field costs (0 when omitted). -/

theorem opt_name (fuel : Nat) (d : RawDetails) (b rest : List UInt8) (hb : b.length < 2 ^ 64) (hu : utf8Valid b = true)
    (hd : d.name = [])
    (hf : min 1 (if b.isEmpty then [] else encBytesField 1 b).length ≤ fuel) :
    decDetails fuel d ((if b.isEmpty then [] else encBytesField 1 b) ++ rest) =
      decDetails (fuel - min 1 (if b.isEmpty then [] else encBytesField 1 b).length) { d with name := b } rest := by
  by_cases c : b.isEmpty = true
  · simp only [List.isEmpty_iff] at c; subst c
    simp only [List.isEmpty_nil, if_true, List.nil_append, List.length_nil, Nat.min_zero, Nat.sub_zero]
    congr 1; cases d; simp_all
  · have p := bytesField_length_pos 1 b
    simp only [c, Bool.false_eq_true, if_false] at hf ⊢
    rw [dd_name fuel (by omega) d b rest hb hu]; congr 1 <;> omega

theorem opt_pk (fuel : Nat) (d : RawDetails) (b rest : List UInt8) (hb : b.length < 2 ^ 64) (hd : d.publicKey = [])
    (hf : min 1 (if b.isEmpty then [] else encBytesField 7 b).length ≤ fuel) :
    decDetails fuel d ((if b.isEmpty then [] else encBytesField 7 b) ++ rest) =
      decDetails (fuel - min 1 (if b.isEmpty then [] else encBytesField 7 b).length) { d with publicKey := b } rest := by
  by_cases c : b.isEmpty = true
  · simp only [List.isEmpty_iff] at c; subst c
    simp only [List.isEmpty_nil, if_true, List.nil_append, List.length_nil, Nat.min_zero, Nat.sub_zero]
    congr 1; cases d; simp_all
  · have p := bytesField_length_pos 7 b
    simp only [c, Bool.false_eq_true, if_false] at hf ⊢
    rw [dd_pk fuel (by omega) d b rest hb]; congr 1 <;> omega

theorem opt_issuer (fuel : Nat) (d : RawDetails) (b rest : List UInt8) (hb : b.length < 2 ^ 64) (hd : d.issuer = [])
    (hf : min 1 (if b.isEmpty then [] else encBytesField 9 b).length ≤ fuel) :
    decDetails fuel d ((if b.isEmpty then [] else encBytesField 9 b) ++ rest) =
      decDetails (fuel - min 1 (if b.isEmpty then [] else encBytesField 9 b).length) { d with issuer := b } rest := by
  by_cases c : b.isEmpty = true
  · simp only [List.isEmpty_iff] at c; subst c
    simp only [List.isEmpty_nil, if_true, List.nil_append, List.length_nil, Nat.min_zero, Nat.sub_zero]
    congr 1; cases d; simp_all
  · have p := bytesField_length_pos 9 b
    simp only [c, Bool.false_eq_true, if_false] at hf ⊢
    rw [dd_issuer fuel (by omega) d b rest hb]; congr 1 <;> omega

theorem opt_packed (fuel : Nat) (d : RawDetails) (num : Nat) (vs : List Nat) (rest : List UInt8) (hn : num = 2 ∨ num = 3)
    (hv : ∀ v ∈ vs, v < 2 ^ 32) (hl : (vs.flatMap encVarint).length < 2 ^ 64)
    (hd : if num = 2 then d.ips = [] else d.subnets = [])
    (hf : min 1 (encPacked num vs).length ≤ fuel) :
    decDetails fuel d (encPacked num vs ++ rest) =
      decDetails (fuel - min 1 (encPacked num vs).length)
        (if num = 2 then { d with ips := vs } else { d with subnets := vs }) rest := by
  unfold encPacked at hf ⊢
  by_cases c : vs.isEmpty = true
  · simp only [List.isEmpty_iff] at c; subst c
    simp only [List.isEmpty_nil, if_true, List.nil_append, List.length_nil, Nat.min_zero, Nat.sub_zero]
    congr 1
    rcases hn with rfl | rfl <;> (cases d; simp_all)
  · have p := bytesField_length_pos num (vs.flatMap encVarint)
    simp only [c, Bool.false_eq_true, if_false] at hf ⊢
    rw [dd_packed fuel (by omega) d num vs rest hn hv hl]
    rcases hn with rfl | rfl <;> simp_all <;> (congr 1 <;> omega)

theorem opt_time (fuel : Nat) (d : RawDetails) (num : Nat) (t : Int) (rest : List UInt8) (hn : num = 5 ∨ num = 6)
    (h1 : -2 ^ 63 ≤ t) (h2 : t < 2 ^ 63) (hd : if num = 5 then d.notBefore = 0 else d.notAfter = 0)
    (hf : min 1 (if t = 0 then [] else encVarintField num (int64ToU t)).length ≤ fuel) :
    decDetails fuel d ((if t = 0 then [] else encVarintField num (int64ToU t)) ++ rest) =
      decDetails (fuel - min 1 (if t = 0 then [] else encVarintField num (int64ToU t)).length)
        (if num = 5 then { d with notBefore := t } else { d with notAfter := t }) rest := by
  by_cases c : t = 0
  · subst c
    simp only [if_true, List.nil_append, List.length_nil, Nat.min_zero, Nat.sub_zero]
    congr 1
    rcases hn with rfl | rfl <;> (cases d; simp_all)
  · have p := varintField_length_pos num (int64ToU t)
    simp only [c, if_false] at hf ⊢
    rw [dd_varint fuel (by omega) d num _ rest (by omega), uToInt64_int64ToU t h1 h2]
    rcases hn with rfl | rfl <;> simp <;> (congr 1 <;> omega)

theorem opt_isCA (fuel : Nat) (d : RawDetails) (b : Bool) (rest : List UInt8) (hd : d.isCA = false)
    (hf : min 1 (if b then encVarintField 8 1 else []).length ≤ fuel) :
    decDetails fuel d ((if b then encVarintField 8 1 else []) ++ rest) =
      decDetails (fuel - min 1 (if b then encVarintField 8 1 else []).length) { d with isCA := b } rest := by
  cases b
  · simp only [Bool.false_eq_true, if_false, List.nil_append, List.length_nil, Nat.min_zero, Nat.sub_zero]
    congr 1; cases d; simp_all
  · have p := varintField_length_pos 8 1
    simp only [if_true] at hf ⊢
    rw [dd_varint fuel (by omega) d 8 _ rest (by omega)]
    simp; congr 1 <;> omega

theorem opt_curve (fuel : Nat) (d : RawDetails) (c : Nat) (rest : List UInt8) (hc : c < 2 ^ 32) (hd : d.curve = 0)
    (hf : min 1 (if c % 2 ^ 32 = 0 then [] else encVarintField 100 (enumU c)).length ≤ fuel) :
    decDetails fuel d ((if c % 2 ^ 32 = 0 then [] else encVarintField 100 (enumU c)) ++ rest) =
      decDetails (fuel - min 1 (if c % 2 ^ 32 = 0 then [] else encVarintField 100 (enumU c)).length)
        { d with curve := c } rest := by
  by_cases cz : c % 2 ^ 32 = 0
  · have : c = 0 := by omega
    subst this
    simp only [Nat.zero_mod, if_true, List.nil_append, List.length_nil, Nat.min_zero, Nat.sub_zero]
    congr 1; cases d; simp_all
  · have p := varintField_length_pos 100 (enumU c)
    simp only [cz, if_false] at hf ⊢
    rw [dd_varint fuel (by omega) d 100 _ rest (by omega), enumU_mod c hc]
    simp; congr 1 <;> omega

/-- fields inside their Go types; byte lengths fit a varint. -/
structure DetailsWF (d : RawDetails) : Prop where
  name_len : d.name.length < 2 ^ 64
  groups : ∀ g ∈ d.groups, g.length < 2 ^ 64 ∧ utf8Valid g = true
  ips : ∀ v ∈ d.ips, v < 2 ^ 32
  subnets : ∀ v ∈ d.subnets, v < 2 ^ 32
  ips_len : (d.ips.flatMap encVarint).length < 2 ^ 64
  subnets_len : (d.subnets.flatMap encVarint).length < 2 ^ 64
  nb : -2 ^ 63 ≤ d.notBefore ∧ d.notBefore < 2 ^ 63
  na : -2 ^ 63 ≤ d.notAfter ∧ d.notAfter < 2 ^ 63
  pk_len : d.publicKey.length < 2 ^ 64
  issuer_len : d.issuer.length < 2 ^ 64
  curve : d.curve < 2 ^ 32

/-- continuation form of a decoding step: if the field `F` costs `n ≤ |F|` fuel and the rest decodes with any
sufficient fuel, the whole decodes with any sufficient fuel. -/
theorem chain {d d' r : RawDetails} {F rest : List UInt8} {n : Nat} (hn : n ≤ F.length)
    (hstep : ∀ fuel, n ≤ fuel → decDetails fuel d (F ++ rest) = decDetails (fuel - n) d' rest)
    (hk : ∀ fuel', rest.length + 1 ≤ fuel' → decDetails fuel' d' rest = some r)
    (fuel : Nat) (hf : (F ++ rest).length + 1 ≤ fuel) : decDetails fuel d (F ++ rest) = some r := by
  simp only [List.length_append] at hf
  rw [hstep fuel (by omega)]
  apply hk; omega

/-- **Protobuf round trip of `RawNebulaCertificateDetails`.** -/
theorem decDetails_encodeDetails (d : RawDetails) (hw : DetailsWF d) (bytes : List UInt8)
    (he : encodeDetails d = some bytes) (fuel : Nat) (hf : bytes.length + 1 ≤ fuel) :
    decDetails fuel {} bytes = some d := by
  unfold encodeDetails at he
  split at he
  · cases he
  · rename_i hu
    simp only [Bool.or_eq_true, Bool.not_eq_true', not_or, Bool.not_eq_false] at hu
    obtain ⟨hun, _⟩ := hu
    simp only [Option.some.injEq] at he
    subst he
    have hgl := flatMap_length_ge d.groups (encBytesField 4) (bytesField_length_pos 4)
    rw [← List.append_nil (_ ++ (if d.curve % 2 ^ 32 = 0 then [] else encVarintField 100 (enumU d.curve)))] at hf ⊢
    simp only [List.append_assoc] at hf ⊢
    refine chain (Nat.min_le_right _ _) (fun f h => opt_name f _ _ _ hw.name_len hun rfl h) ?_ fuel hf
    intro fuel hf
    refine chain (Nat.min_le_right _ _)
      (fun f h => opt_packed f _ 2 _ _ (Or.inl rfl) hw.ips hw.ips_len (by simp) h) ?_ fuel hf
    intro fuel hf
    refine chain (Nat.min_le_right _ _)
      (fun f h => opt_packed f _ 3 _ _ (Or.inr rfl) hw.subnets hw.subnets_len (by simp) h) ?_ fuel hf
    intro fuel hf
    refine chain hgl (fun f h => dd_groups d.groups f _ _ h hw.groups) ?_ fuel hf
    intro fuel hf
    refine chain (Nat.min_le_right _ _)
      (fun f h => opt_time f _ 5 _ _ (Or.inl rfl) hw.nb.1 hw.nb.2 (by simp) h) ?_ fuel hf
    intro fuel hf
    refine chain (Nat.min_le_right _ _)
      (fun f h => opt_time f _ 6 _ _ (Or.inr rfl) hw.na.1 hw.na.2 (by simp) h) ?_ fuel hf
    intro fuel hf
    refine chain (Nat.min_le_right _ _) (fun f h => opt_pk f _ _ _ hw.pk_len rfl h) ?_ fuel hf
    intro fuel hf
    refine chain (Nat.min_le_right _ _) (fun f h => opt_isCA f _ _ _ rfl h) ?_ fuel hf
    intro fuel hf
    refine chain (Nat.min_le_right _ _) (fun f h => opt_issuer f _ _ _ hw.issuer_len rfl h) ?_ fuel hf
    intro fuel hf
    refine chain (Nat.min_le_right _ _) (fun f h => opt_curve f _ _ _ hw.curve rfl h) ?_ fuel hf
    intro fuel hf
    rw [decDetails_nil _ (by simp at hf; omega)]
    simp

end Nebula.Lemmas.CertV1Pb
