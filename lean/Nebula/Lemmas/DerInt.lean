/-
Round trip of two's-complement INTEGERs of 1 … 8 octets (`AddASN1Int64WithTag` / `ReadASN1Int64WithTag`):
the minimal-length content `encIntContent v` passes `checkASN1Integer` and `asn1Signed` gives `v` back, for
every `int64`. One lemma per length (generated text, proved by linear arithmetic over the byte table).
-/
import Nebula.Lemmas.DerRT

namespace Nebula.Lemmas.DerInt
open Nebula.Der Nebula.Lemmas.DerRT

set_option maxRecDepth 20000 in
theorem byte_tbl : ∀ b : Fin 256,
    ((UInt8.ofNat b.val &&& 0x80 == 0x80) = decide (128 ≤ b.val)) ∧
    ((UInt8.ofNat b.val &&& 0x80 == 0) = decide (b.val < 128)) ∧
    ((UInt8.ofNat b.val == 0) = decide (b.val = 0)) ∧ ((UInt8.ofNat b.val == 0xff) = decide (b.val = 255)) := by decide

theorem byte_facts (n : Nat) (h : n < 256) :
    ((UInt8.ofNat n &&& 0x80 == 0x80) = decide (128 ≤ n)) ∧ ((UInt8.ofNat n &&& 0x80 == 0) = decide (n < 128)) ∧
    ((UInt8.ofNat n == 0) = decide (n = 0)) ∧ ((UInt8.ofNat n == 0xff) = decide (n = 255)) ∧ (UInt8.ofNat n).toNat = n := by
  have := byte_tbl ⟨n, h⟩
  simp only at this
  refine ⟨this.1, this.2.1, this.2.2.1, this.2.2.2, ?_⟩
  simp only [UInt8.toNat_ofNat']; omega

/-- sign-extension of `L` big-endian digits, in closed form. -/
theorem asn1Signed_beBytes (L x : Nat) (hL : 1 ≤ L ∧ L ≤ 8) (hx : x < 256 ^ L) :
    asn1Signed (beBytes L x) = some (if 128 ≤ x / 256 ^ (L - 1) then (x : Int) - (256 ^ L : Nat) else (x : Int)) := by
  obtain ⟨k, rfl⟩ : ∃ k, L = k + 1 := ⟨L - 1, by omega⟩
  have hbe := beNat_beBytes (k + 1) x hx
  have hlen := beBytes_length (k + 1) x
  have hq : x / 256 ^ k < 256 := by
    apply Nat.div_lt_of_lt_mul
    rw [Nat.pow_succ] at hx
    exact hx
  obtain ⟨a1, -, -, -, -⟩ := byte_facts (x / 256 ^ k % 256) (Nat.mod_lt _ (by decide))
  rw [Nat.mod_eq_of_lt hq] at a1
  have hcons : beBytes (k + 1) x = UInt8.ofNat (x / 256 ^ k % 256) :: beBytes k x := rfl
  rw [Nat.mod_eq_of_lt hq] at hcons
  unfold asn1Signed
  generalize beBytes (k + 1) x = bs at hbe hlen hcons ⊢
  subst hcons
  have hle : ¬ (UInt8.ofNat (x / 256 ^ k) :: beBytes k x).length > 8 := by rw [hlen]; omega
  simp only [hle, if_false, a1, hbe, hlen, Nat.add_sub_cancel]
  by_cases h : 128 ≤ x / 256 ^ k <;> simp [h] <;> omega

theorem int1 (v : Int) (hlo : -128 ≤ v) (hhi : v < 128) :
    checkASN1Integer (beBytes 1 (v % (256 ^ 1 : Nat)).toNat) = true ∧
    asn1Signed (beBytes 1 (v % (256 ^ 1 : Nat)).toNat) = some v := by
  have e : ((256 ^ 1 : Nat) : Int) = 256 := by decide
  rw [e]
  generalize hx : (v % 256).toNat = x
  have hxv : (x : Int) = v % 256 := by rw [← hx]; omega
  have hxL : x < 256 := by omega
  obtain ⟨a01, a02, a03, a04, a05⟩ := byte_facts (x % 256) (Nat.mod_lt _ (by decide))

  constructor
  · simp [checkASN1Integer, beBytes]
  · have hp : (256 : Nat) ^ 1 = 256 := by decide
    rw [asn1Signed_beBytes 1 x (by decide) (by omega)]
    simp only [Nat.reducePow, Nat.reduceSub, Option.some.injEq]
    split <;> omega

theorem int2 (v : Int) (hlo : -32768 ≤ v) (hhi : v < 32768) (hmin : v < -128 ∨ 128 ≤ v) :
    checkASN1Integer (beBytes 2 (v % (256 ^ 2 : Nat)).toNat) = true ∧
    asn1Signed (beBytes 2 (v % (256 ^ 2 : Nat)).toNat) = some v := by
  have e : ((256 ^ 2 : Nat) : Int) = 65536 := by decide
  rw [e]
  generalize hx : (v % 65536).toNat = x
  have hxv : (x : Int) = v % 65536 := by rw [← hx]; omega
  have hxL : x < 65536 := by omega
  obtain ⟨a01, a02, a03, a04, a05⟩ := byte_facts (x / 256 % 256) (Nat.mod_lt _ (by decide))
  obtain ⟨a11, a12, a13, a14, a15⟩ := byte_facts (x % 256) (Nat.mod_lt _ (by decide))
  have q1 : x / 256 / 256 = x / 65536 := by rw [Nat.div_div_eq_div_mul]
  constructor
  · simp only [beBytes, Nat.pow_zero, Nat.div_one, Nat.reducePow, checkASN1Integer, a03, a04, a11, a12]
    simp
    constructor
    · by_cases h0 : x / 256 % 256 = 0
      · right; omega
      · left; exact h0
    · by_cases h0 : x / 256 % 256 = 255
      · right; omega
      · left; exact h0
  · have hp : (256 : Nat) ^ 2 = 65536 := by decide
    rw [asn1Signed_beBytes 2 x (by decide) (by omega)]
    simp only [Nat.reducePow, Nat.reduceSub, Option.some.injEq]
    split <;> omega

theorem int3 (v : Int) (hlo : -8388608 ≤ v) (hhi : v < 8388608) (hmin : v < -32768 ∨ 32768 ≤ v) :
    checkASN1Integer (beBytes 3 (v % (256 ^ 3 : Nat)).toNat) = true ∧
    asn1Signed (beBytes 3 (v % (256 ^ 3 : Nat)).toNat) = some v := by
  have e : ((256 ^ 3 : Nat) : Int) = 16777216 := by decide
  rw [e]
  generalize hx : (v % 16777216).toNat = x
  have hxv : (x : Int) = v % 16777216 := by rw [← hx]; omega
  have hxL : x < 16777216 := by omega
  obtain ⟨a01, a02, a03, a04, a05⟩ := byte_facts (x / 65536 % 256) (Nat.mod_lt _ (by decide))
  obtain ⟨a11, a12, a13, a14, a15⟩ := byte_facts (x / 256 % 256) (Nat.mod_lt _ (by decide))
  obtain ⟨a21, a22, a23, a24, a25⟩ := byte_facts (x % 256) (Nat.mod_lt _ (by decide))
  have q1 : x / 256 / 256 = x / 65536 := by rw [Nat.div_div_eq_div_mul]
  have q2 : x / 65536 / 256 = x / 16777216 := by rw [Nat.div_div_eq_div_mul]
  constructor
  · simp only [beBytes, Nat.pow_zero, Nat.div_one, Nat.reducePow, checkASN1Integer, a03, a04, a11, a12]
    simp
    constructor
    · by_cases h0 : x / 65536 % 256 = 0
      · right; omega
      · left; exact h0
    · by_cases h0 : x / 65536 % 256 = 255
      · right; omega
      · left; exact h0
  · have hp : (256 : Nat) ^ 3 = 16777216 := by decide
    rw [asn1Signed_beBytes 3 x (by decide) (by omega)]
    simp only [Nat.reducePow, Nat.reduceSub, Option.some.injEq]
    split <;> omega

theorem int4 (v : Int) (hlo : -2147483648 ≤ v) (hhi : v < 2147483648) (hmin : v < -8388608 ∨ 8388608 ≤ v) :
    checkASN1Integer (beBytes 4 (v % (256 ^ 4 : Nat)).toNat) = true ∧
    asn1Signed (beBytes 4 (v % (256 ^ 4 : Nat)).toNat) = some v := by
  have e : ((256 ^ 4 : Nat) : Int) = 4294967296 := by decide
  rw [e]
  generalize hx : (v % 4294967296).toNat = x
  have hxv : (x : Int) = v % 4294967296 := by rw [← hx]; omega
  have hxL : x < 4294967296 := by omega
  obtain ⟨a01, a02, a03, a04, a05⟩ := byte_facts (x / 16777216 % 256) (Nat.mod_lt _ (by decide))
  obtain ⟨a11, a12, a13, a14, a15⟩ := byte_facts (x / 65536 % 256) (Nat.mod_lt _ (by decide))
  obtain ⟨a21, a22, a23, a24, a25⟩ := byte_facts (x / 256 % 256) (Nat.mod_lt _ (by decide))
  obtain ⟨a31, a32, a33, a34, a35⟩ := byte_facts (x % 256) (Nat.mod_lt _ (by decide))
  have q1 : x / 256 / 256 = x / 65536 := by rw [Nat.div_div_eq_div_mul]
  have q2 : x / 65536 / 256 = x / 16777216 := by rw [Nat.div_div_eq_div_mul]
  have q3 : x / 16777216 / 256 = x / 4294967296 := by rw [Nat.div_div_eq_div_mul]
  constructor
  · simp only [beBytes, Nat.pow_zero, Nat.div_one, Nat.reducePow, checkASN1Integer, a03, a04, a11, a12]
    simp
    constructor
    · by_cases h0 : x / 16777216 % 256 = 0
      · right; omega
      · left; exact h0
    · by_cases h0 : x / 16777216 % 256 = 255
      · right; omega
      · left; exact h0
  · have hp : (256 : Nat) ^ 4 = 4294967296 := by decide
    rw [asn1Signed_beBytes 4 x (by decide) (by omega)]
    simp only [Nat.reducePow, Nat.reduceSub, Option.some.injEq]
    split <;> omega

theorem int5 (v : Int) (hlo : -549755813888 ≤ v) (hhi : v < 549755813888) (hmin : v < -2147483648 ∨ 2147483648 ≤ v) :
    checkASN1Integer (beBytes 5 (v % (256 ^ 5 : Nat)).toNat) = true ∧
    asn1Signed (beBytes 5 (v % (256 ^ 5 : Nat)).toNat) = some v := by
  have e : ((256 ^ 5 : Nat) : Int) = 1099511627776 := by decide
  rw [e]
  generalize hx : (v % 1099511627776).toNat = x
  have hxv : (x : Int) = v % 1099511627776 := by rw [← hx]; omega
  have hxL : x < 1099511627776 := by omega
  obtain ⟨a01, a02, a03, a04, a05⟩ := byte_facts (x / 4294967296 % 256) (Nat.mod_lt _ (by decide))
  obtain ⟨a11, a12, a13, a14, a15⟩ := byte_facts (x / 16777216 % 256) (Nat.mod_lt _ (by decide))
  obtain ⟨a21, a22, a23, a24, a25⟩ := byte_facts (x / 65536 % 256) (Nat.mod_lt _ (by decide))
  obtain ⟨a31, a32, a33, a34, a35⟩ := byte_facts (x / 256 % 256) (Nat.mod_lt _ (by decide))
  obtain ⟨a41, a42, a43, a44, a45⟩ := byte_facts (x % 256) (Nat.mod_lt _ (by decide))
  have q1 : x / 256 / 256 = x / 65536 := by rw [Nat.div_div_eq_div_mul]
  have q2 : x / 65536 / 256 = x / 16777216 := by rw [Nat.div_div_eq_div_mul]
  have q3 : x / 16777216 / 256 = x / 4294967296 := by rw [Nat.div_div_eq_div_mul]
  have q4 : x / 4294967296 / 256 = x / 1099511627776 := by rw [Nat.div_div_eq_div_mul]
  constructor
  · simp only [beBytes, Nat.pow_zero, Nat.div_one, Nat.reducePow, checkASN1Integer, a03, a04, a11, a12]
    simp
    constructor
    · by_cases h0 : x / 4294967296 % 256 = 0
      · right; omega
      · left; exact h0
    · by_cases h0 : x / 4294967296 % 256 = 255
      · right; omega
      · left; exact h0
  · have hp : (256 : Nat) ^ 5 = 1099511627776 := by decide
    rw [asn1Signed_beBytes 5 x (by decide) (by omega)]
    simp only [Nat.reducePow, Nat.reduceSub, Option.some.injEq]
    split <;> omega

theorem int6 (v : Int) (hlo : -140737488355328 ≤ v) (hhi : v < 140737488355328) (hmin : v < -549755813888 ∨ 549755813888 ≤ v) :
    checkASN1Integer (beBytes 6 (v % (256 ^ 6 : Nat)).toNat) = true ∧
    asn1Signed (beBytes 6 (v % (256 ^ 6 : Nat)).toNat) = some v := by
  have e : ((256 ^ 6 : Nat) : Int) = 281474976710656 := by decide
  rw [e]
  generalize hx : (v % 281474976710656).toNat = x
  have hxv : (x : Int) = v % 281474976710656 := by rw [← hx]; omega
  have hxL : x < 281474976710656 := by omega
  obtain ⟨a01, a02, a03, a04, a05⟩ := byte_facts (x / 1099511627776 % 256) (Nat.mod_lt _ (by decide))
  obtain ⟨a11, a12, a13, a14, a15⟩ := byte_facts (x / 4294967296 % 256) (Nat.mod_lt _ (by decide))
  obtain ⟨a21, a22, a23, a24, a25⟩ := byte_facts (x / 16777216 % 256) (Nat.mod_lt _ (by decide))
  obtain ⟨a31, a32, a33, a34, a35⟩ := byte_facts (x / 65536 % 256) (Nat.mod_lt _ (by decide))
  obtain ⟨a41, a42, a43, a44, a45⟩ := byte_facts (x / 256 % 256) (Nat.mod_lt _ (by decide))
  obtain ⟨a51, a52, a53, a54, a55⟩ := byte_facts (x % 256) (Nat.mod_lt _ (by decide))
  have q1 : x / 256 / 256 = x / 65536 := by rw [Nat.div_div_eq_div_mul]
  have q2 : x / 65536 / 256 = x / 16777216 := by rw [Nat.div_div_eq_div_mul]
  have q3 : x / 16777216 / 256 = x / 4294967296 := by rw [Nat.div_div_eq_div_mul]
  have q4 : x / 4294967296 / 256 = x / 1099511627776 := by rw [Nat.div_div_eq_div_mul]
  have q5 : x / 1099511627776 / 256 = x / 281474976710656 := by rw [Nat.div_div_eq_div_mul]
  constructor
  · simp only [beBytes, Nat.pow_zero, Nat.div_one, Nat.reducePow, checkASN1Integer, a03, a04, a11, a12]
    simp
    constructor
    · by_cases h0 : x / 1099511627776 % 256 = 0
      · right; omega
      · left; exact h0
    · by_cases h0 : x / 1099511627776 % 256 = 255
      · right; omega
      · left; exact h0
  · have hp : (256 : Nat) ^ 6 = 281474976710656 := by decide
    rw [asn1Signed_beBytes 6 x (by decide) (by omega)]
    simp only [Nat.reducePow, Nat.reduceSub, Option.some.injEq]
    split <;> omega

theorem int7 (v : Int) (hlo : -36028797018963968 ≤ v) (hhi : v < 36028797018963968) (hmin : v < -140737488355328 ∨ 140737488355328 ≤ v) :
    checkASN1Integer (beBytes 7 (v % (256 ^ 7 : Nat)).toNat) = true ∧
    asn1Signed (beBytes 7 (v % (256 ^ 7 : Nat)).toNat) = some v := by
  have e : ((256 ^ 7 : Nat) : Int) = 72057594037927936 := by decide
  rw [e]
  generalize hx : (v % 72057594037927936).toNat = x
  have hxv : (x : Int) = v % 72057594037927936 := by rw [← hx]; omega
  have hxL : x < 72057594037927936 := by omega
  obtain ⟨a01, a02, a03, a04, a05⟩ := byte_facts (x / 281474976710656 % 256) (Nat.mod_lt _ (by decide))
  obtain ⟨a11, a12, a13, a14, a15⟩ := byte_facts (x / 1099511627776 % 256) (Nat.mod_lt _ (by decide))
  obtain ⟨a21, a22, a23, a24, a25⟩ := byte_facts (x / 4294967296 % 256) (Nat.mod_lt _ (by decide))
  obtain ⟨a31, a32, a33, a34, a35⟩ := byte_facts (x / 16777216 % 256) (Nat.mod_lt _ (by decide))
  obtain ⟨a41, a42, a43, a44, a45⟩ := byte_facts (x / 65536 % 256) (Nat.mod_lt _ (by decide))
  obtain ⟨a51, a52, a53, a54, a55⟩ := byte_facts (x / 256 % 256) (Nat.mod_lt _ (by decide))
  obtain ⟨a61, a62, a63, a64, a65⟩ := byte_facts (x % 256) (Nat.mod_lt _ (by decide))
  have q1 : x / 256 / 256 = x / 65536 := by rw [Nat.div_div_eq_div_mul]
  have q2 : x / 65536 / 256 = x / 16777216 := by rw [Nat.div_div_eq_div_mul]
  have q3 : x / 16777216 / 256 = x / 4294967296 := by rw [Nat.div_div_eq_div_mul]
  have q4 : x / 4294967296 / 256 = x / 1099511627776 := by rw [Nat.div_div_eq_div_mul]
  have q5 : x / 1099511627776 / 256 = x / 281474976710656 := by rw [Nat.div_div_eq_div_mul]
  have q6 : x / 281474976710656 / 256 = x / 72057594037927936 := by rw [Nat.div_div_eq_div_mul]
  constructor
  · simp only [beBytes, Nat.pow_zero, Nat.div_one, Nat.reducePow, checkASN1Integer, a03, a04, a11, a12]
    simp
    constructor
    · by_cases h0 : x / 281474976710656 % 256 = 0
      · right; omega
      · left; exact h0
    · by_cases h0 : x / 281474976710656 % 256 = 255
      · right; omega
      · left; exact h0
  · have hp : (256 : Nat) ^ 7 = 72057594037927936 := by decide
    rw [asn1Signed_beBytes 7 x (by decide) (by omega)]
    simp only [Nat.reducePow, Nat.reduceSub, Option.some.injEq]
    split <;> omega

theorem int8 (v : Int) (hlo : -9223372036854775808 ≤ v) (hhi : v < 9223372036854775808) (hmin : v < -36028797018963968 ∨ 36028797018963968 ≤ v) :
    checkASN1Integer (beBytes 8 (v % (256 ^ 8 : Nat)).toNat) = true ∧
    asn1Signed (beBytes 8 (v % (256 ^ 8 : Nat)).toNat) = some v := by
  have e : ((256 ^ 8 : Nat) : Int) = 18446744073709551616 := by decide
  rw [e]
  generalize hx : (v % 18446744073709551616).toNat = x
  have hxv : (x : Int) = v % 18446744073709551616 := by rw [← hx]; omega
  have hxL : x < 18446744073709551616 := by omega
  obtain ⟨a01, a02, a03, a04, a05⟩ := byte_facts (x / 72057594037927936 % 256) (Nat.mod_lt _ (by decide))
  obtain ⟨a11, a12, a13, a14, a15⟩ := byte_facts (x / 281474976710656 % 256) (Nat.mod_lt _ (by decide))
  obtain ⟨a21, a22, a23, a24, a25⟩ := byte_facts (x / 1099511627776 % 256) (Nat.mod_lt _ (by decide))
  obtain ⟨a31, a32, a33, a34, a35⟩ := byte_facts (x / 4294967296 % 256) (Nat.mod_lt _ (by decide))
  obtain ⟨a41, a42, a43, a44, a45⟩ := byte_facts (x / 16777216 % 256) (Nat.mod_lt _ (by decide))
  obtain ⟨a51, a52, a53, a54, a55⟩ := byte_facts (x / 65536 % 256) (Nat.mod_lt _ (by decide))
  obtain ⟨a61, a62, a63, a64, a65⟩ := byte_facts (x / 256 % 256) (Nat.mod_lt _ (by decide))
  obtain ⟨a71, a72, a73, a74, a75⟩ := byte_facts (x % 256) (Nat.mod_lt _ (by decide))
  have q1 : x / 256 / 256 = x / 65536 := by rw [Nat.div_div_eq_div_mul]
  have q2 : x / 65536 / 256 = x / 16777216 := by rw [Nat.div_div_eq_div_mul]
  have q3 : x / 16777216 / 256 = x / 4294967296 := by rw [Nat.div_div_eq_div_mul]
  have q4 : x / 4294967296 / 256 = x / 1099511627776 := by rw [Nat.div_div_eq_div_mul]
  have q5 : x / 1099511627776 / 256 = x / 281474976710656 := by rw [Nat.div_div_eq_div_mul]
  have q6 : x / 281474976710656 / 256 = x / 72057594037927936 := by rw [Nat.div_div_eq_div_mul]
  have q7 : x / 72057594037927936 / 256 = x / 18446744073709551616 := by rw [Nat.div_div_eq_div_mul]
  constructor
  · simp only [beBytes, Nat.pow_zero, Nat.div_one, Nat.reducePow, checkASN1Integer, a03, a04, a11, a12]
    simp
    constructor
    · by_cases h0 : x / 72057594037927936 % 256 = 0
      · right; omega
      · left; exact h0
    · by_cases h0 : x / 72057594037927936 % 256 = 255
      · right; omega
      · left; exact h0
  · have hp : (256 : Nat) ^ 8 = 18446744073709551616 := by decide
    rw [asn1Signed_beBytes 8 x (by decide) (by omega)]
    simp only [Nat.reducePow, Nat.reduceSub, Option.some.injEq]
    split <;> omega

/-- **INTEGER round trip** for every `int64`. -/
theorem int_roundtrip (v : Int) (hlo : -9223372036854775808 ≤ v) (hhi : v < 9223372036854775808) :
    checkASN1Integer (encIntContent v) = true ∧ asn1Signed (encIntContent v) = some v := by
  unfold encIntContent int64Len
  by_cases c1 : -0x80 ≤ v ∧ v < 0x80
  · simp only [c1, and_self, if_true]; exact int1 v (by omega) (by omega)
  by_cases c2 : -0x8000 ≤ v ∧ v < 0x8000
  · simp only [c1, c2, and_self, if_true, if_false]; exact int2 v (by omega) (by omega) (by omega)
  by_cases c3 : -0x800000 ≤ v ∧ v < 0x800000
  · simp only [c1, c2, c3, and_self, if_true, if_false]; exact int3 v (by omega) (by omega) (by omega)
  by_cases c4 : -0x80000000 ≤ v ∧ v < 0x80000000
  · simp only [c1, c2, c3, c4, and_self, if_true, if_false]; exact int4 v (by omega) (by omega) (by omega)
  by_cases c5 : -0x8000000000 ≤ v ∧ v < 0x8000000000
  · simp only [c1, c2, c3, c4, c5, and_self, if_true, if_false]; exact int5 v (by omega) (by omega) (by omega)
  by_cases c6 : -0x800000000000 ≤ v ∧ v < 0x800000000000
  · simp only [c1, c2, c3, c4, c5, c6, and_self, if_true, if_false]; exact int6 v (by omega) (by omega) (by omega)
  by_cases c7 : -0x80000000000000 ≤ v ∧ v < 0x80000000000000
  · simp only [c1, c2, c3, c4, c5, c6, c7, and_self, if_true, if_false]; exact int7 v (by omega) (by omega) (by omega)
  · simp only [c1, c2, c3, c4, c5, c6, c7, if_false]; exact int8 v (by omega) (by omega) (by omega)

theorem encIntContent_length (v : Int) : 1 ≤ (encIntContent v).length ∧ (encIntContent v).length ≤ 8 := by
  unfold encIntContent
  rw [beBytes_length]
  unfold int64Len
  repeat' split
  all_goals omega

/-- `ReadASN1Int64WithTag` of what `AddASN1Int64WithTag` wrote. -/
theorem readInt64_encInt64 (tag : UInt8) (v : Int) (rest : Bytes) (ht : ¬ tag &&& 0x1f = 0x1f)
    (hlo : -9223372036854775808 ≤ v) (hhi : v < 9223372036854775808) :
    readInt64 tag (encInt64 tag v ++ rest) = some (v, rest) := by
  unfold readInt64 encInt64
  have hl := encIntContent_length v
  rw [readASN1_encTLV tag _ rest ht (by omega)]
  obtain ⟨h1, h2⟩ := int_roundtrip v hlo hhi
  simp [h1, h2]

end Nebula.Lemmas.DerInt
