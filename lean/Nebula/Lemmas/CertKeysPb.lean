/-
Protobuf round trip of `RawNebulaEncryptedData` / `RawNebulaEncryptionMetadata` / `RawNebulaArgon2Parameters`
(`Model/CertKeys.lean`): the decoder reads the encoder's output back, for every message whose numeric fields
are inside their Go types.
-/
import Nebula.Model.CertKeys
import Nebula.Lemmas.CertPb

namespace Nebula.Lemmas.CertKeysPb
open Nebula.CertPb Nebula.CertKeys Nebula.Lemmas.CertPb

theorem append_isEmpty_false {a b : List UInt8} (h : 1 ≤ a.length) : (a ++ b).isEmpty = false := by
  cases a with
  | nil => simp at h
  | cons x l => rfl

theorem varintField_length_pos (num v : Nat) : 1 ≤ (encVarintField num v).length := by
  unfold encVarintField; have := encTag_length_pos num 0; simp only [List.length_append]; omega

theorem bytesField_length_pos (num : Nat) (b : List UInt8) : 1 ≤ (encBytesField num b).length := by
  unfold encBytesField; have := encTag_length_pos num 2; simp only [List.length_append]; omega

/-! ### Argon2 parameters -/

theorem decArgon_nil (fuel : Nat) (hf : 1 ≤ fuel) (a : Argon) : decArgon fuel a [] = some a := by
  cases fuel with
  | zero => omega
  | succ f => simp [decArgon]

theorem decArgon_varint (fuel : Nat) (hf : 1 ≤ fuel) (a : Argon) (num v : Nat) (rest : List UInt8)
    (hn : num = 1 ∨ num = 2 ∨ num = 3 ∨ num = 4) :
    decArgon fuel a (encVarintField num v ++ rest) =
      decArgon (fuel - 1)
        (if num = 1 then { a with version := uToInt32 (v % 2 ^ 64) }
         else if num = 2 then { a with memory := v % 2 ^ 64 % 2 ^ 32 }
         else if num = 3 then { a with iterations := v % 2 ^ 64 % 2 ^ 32 }
         else { a with parallelism := v % 2 ^ 64 % 2 ^ 32 }) rest := by
  cases fuel with
  | zero => omega
  | succ f =>
    obtain ⟨ht, hv⟩ := field_varint num v rest (by omega) (by omega)
    rw [decArgon]
    rw [append_isEmpty_false (varintField_length_pos num v)]
    simp only [Bool.false_eq_true, if_false, ht, hv]
    rcases hn with rfl | rfl | rfl | rfl <;> simp

theorem decArgon_salt (fuel : Nat) (hf : 1 ≤ fuel) (a : Argon) (b rest : List UInt8) (hb : b.length < 2 ^ 64) :
    decArgon fuel a (encBytesField 5 b ++ rest) = decArgon (fuel - 1) { a with salt := b } rest := by
  cases fuel with
  | zero => omega
  | succ f =>
    obtain ⟨ht, hv⟩ := field_bytes 5 b rest (by omega) (by omega) hb
    rw [decArgon]
    rw [append_isEmpty_false (bytesField_length_pos 5 b)]
    simp only [Bool.false_eq_true, if_false, ht, hv]
    simp

/-- in-range parameters (the Go types `int32`, `uint32`, and a salt whose length fits a varint). -/
def ArgonWF (a : Argon) : Prop :=
  -2 ^ 31 ≤ a.version ∧ a.version < 2 ^ 31 ∧ a.memory < 2 ^ 32 ∧ a.parallelism < 2 ^ 32 ∧ a.iterations < 2 ^ 32 ∧
  a.salt.length < 2 ^ 64

theorem uToInt32_int64ToU (v : Int) (h1 : -2 ^ 31 ≤ v) (h2 : v < 2 ^ 31) : uToInt32 (int64ToU v % 2 ^ 64) = v := by
  unfold uToInt32 int64ToU
  have e : ((2 ^ 64 : Nat) : Int) = 18446744073709551616 := by decide
  rw [e]
  split <;> omega

theorem decArgon_encArgon (a : Argon) (hw : ArgonWF a) (fuel : Nat) (hf : (encArgon a).length + 1 ≤ fuel) :
    decArgon fuel {} (encArgon a) = some a := by
  obtain ⟨w1, w2, w3, w4, w5, w6⟩ := hw
  have p1 := varintField_length_pos 1 (int64ToU a.version)
  have p2 := varintField_length_pos 2 (a.memory % 2 ^ 32)
  have p3 := varintField_length_pos 3 (a.iterations % 2 ^ 32)
  have p4 := varintField_length_pos 4 (a.parallelism % 2 ^ 32)
  have p5 := bytesField_length_pos 5 a.salt
  have e2 : a.memory % 2 ^ 32 % 2 ^ 64 % 2 ^ 32 = a.memory := by omega
  have e3 : a.iterations % 2 ^ 32 % 2 ^ 64 % 2 ^ 32 = a.iterations := by omega
  have e4 : a.parallelism % 2 ^ 32 % 2 ^ 64 % 2 ^ 32 = a.parallelism := by omega
  have e1 := uToInt32_int64ToU a.version w1 w2
  rw [← List.append_nil (encArgon a)]
  unfold encArgon at hf ⊢
  by_cases c1 : a.version = 0 <;> by_cases c2 : a.memory % 2 ^ 32 = 0 <;> by_cases c3 : a.iterations % 2 ^ 32 = 0 <;>
    by_cases c4 : a.parallelism % 2 ^ 32 = 0 <;> by_cases c5 : a.salt.isEmpty = true <;>
    simp only [c1, c2, c3, c4, c5, if_true, if_false, List.nil_append, List.append_assoc,
      List.length_append, List.length_nil, Bool.false_eq_true] at hf ⊢ <;>
    (try rw [decArgon_varint _ (by omega) _ 1 _ _ (by omega)]) <;>
    (try rw [decArgon_varint _ (by omega) _ 2 _ _ (by omega)]) <;>
    (try rw [decArgon_varint _ (by omega) _ 3 _ _ (by omega)]) <;>
    (try rw [decArgon_varint _ (by omega) _ 4 _ _ (by omega)]) <;>
    (try rw [decArgon_salt _ (by omega) _ _ _ w6]) <;>
    rw [decArgon_nil _ (by omega)] <;>
    (obtain ⟨v, m, pp, i, sl⟩ := a
     simp only [List.isEmpty_iff] at c5
     simp_all) <;> omega

/-! ### metadata -/

theorem decMetadata_nil (fuel : Nat) (hf : 1 ≤ fuel) (m : Metadata) : decMetadata fuel m [] = some m := by
  cases fuel with
  | zero => omega
  | succ f => simp [decMetadata]

theorem decMetadata_alg (fuel : Nat) (hf : 1 ≤ fuel) (m : Metadata) (b rest : List UInt8) (hb : b.length < 2 ^ 64)
    (hu : utf8Valid b = true) :
    decMetadata fuel m (encBytesField 1 b ++ rest) = decMetadata (fuel - 1) { m with algorithm := b } rest := by
  cases fuel with
  | zero => omega
  | succ f =>
    obtain ⟨ht, hv⟩ := field_bytes 1 b rest (by omega) (by omega) hb
    rw [decMetadata]
    rw [append_isEmpty_false (bytesField_length_pos 1 b)]
    simp only [Bool.false_eq_true, if_false, ht, hv]
    simp [hu]

theorem decMetadata_argon (fuel : Nat) (hf : 1 ≤ fuel) (m : Metadata) (a : Argon) (rest : List UInt8) (hw : ArgonWF a)
    (hm : m.argon = none) (hl : (encArgon a).length < 2 ^ 64) :
    decMetadata fuel m (encBytesField 2 (encArgon a) ++ rest) = decMetadata (fuel - 1) { m with argon := some a } rest := by
  cases fuel with
  | zero => omega
  | succ f =>
    obtain ⟨ht, hv⟩ := field_bytes 2 (encArgon a) rest (by omega) (by omega) hl
    rw [decMetadata]
    rw [append_isEmpty_false (bytesField_length_pos 2 _)]
    simp only [Bool.false_eq_true, if_false, ht, hv]
    simp [hm, decArgon_encArgon a hw _ (Nat.le_refl _)]

def MetadataWF (m : Metadata) : Prop :=
  utf8Valid m.algorithm = true ∧ m.algorithm.length < 2 ^ 64 ∧
  ∀ a, m.argon = some a → ArgonWF a ∧ (encArgon a).length < 2 ^ 64

theorem decMetadata_encMetadata (m : Metadata) (hw : MetadataWF m) (fuel : Nat) (hf : (encMetadata m).length + 1 ≤ fuel) :
    decMetadata fuel {} (encMetadata m) = some m := by
  obtain ⟨w1, w2, w3⟩ := hw
  have p1 := bytesField_length_pos 1 m.algorithm
  rw [← List.append_nil (encMetadata m)]
  unfold encMetadata at hf ⊢
  obtain ⟨alg, ar⟩ := m
  simp only at w1 w2 w3 p1 hf ⊢
  cases ar with
  | none =>
    by_cases c1 : alg.isEmpty = true <;>
      simp only [c1, if_true, if_false, List.nil_append, List.append_assoc, List.append_nil, List.length_append,
        List.length_nil, Bool.false_eq_true] at hf ⊢
    · rw [decMetadata_nil _ (by omega)]; simp only [List.isEmpty_iff] at c1; simp [c1]
    · rw [← List.append_nil (encBytesField 1 alg), decMetadata_alg _ (by omega) _ _ _ w2 w1, decMetadata_nil _ (by omega)]
  | some a =>
    obtain ⟨wa, wl⟩ := w3 a rfl
    have p2 := bytesField_length_pos 2 (encArgon a)
    by_cases c1 : alg.isEmpty = true <;>
      simp only [c1, if_true, if_false, List.nil_append, List.append_assoc, List.length_append,
        List.length_nil, Bool.false_eq_true] at hf ⊢
    · rw [decMetadata_argon _ (by omega) _ a _ wa rfl wl, decMetadata_nil _ (by omega)]
      simp only [List.isEmpty_iff] at c1; simp [c1]
    · rw [decMetadata_alg _ (by omega) _ _ _ w2 w1, decMetadata_argon _ (by omega) _ a _ wa rfl wl,
        decMetadata_nil _ (by omega)]

/-! ### encrypted data -/

theorem decEncData_nil (fuel : Nat) (hf : 1 ≤ fuel) (d : EncData) : decEncData fuel d [] = some d := by
  cases fuel with
  | zero => omega
  | succ f => simp [decEncData]

theorem decEncData_meta (fuel : Nat) (hf : 1 ≤ fuel) (d : EncData) (m : Metadata) (rest : List UInt8) (hw : MetadataWF m)
    (hd : d.metadata = none) (hl : (encMetadata m).length < 2 ^ 64) :
    decEncData fuel d (encBytesField 1 (encMetadata m) ++ rest) = decEncData (fuel - 1) { d with metadata := some m } rest := by
  cases fuel with
  | zero => omega
  | succ f =>
    obtain ⟨ht, hv⟩ := field_bytes 1 (encMetadata m) rest (by omega) (by omega) hl
    rw [decEncData]
    rw [append_isEmpty_false (bytesField_length_pos 1 _)]
    simp only [Bool.false_eq_true, if_false, ht, hv]
    simp [hd, decMetadata_encMetadata m hw _ (Nat.le_refl _)]

theorem decEncData_ct (fuel : Nat) (hf : 1 ≤ fuel) (d : EncData) (b rest : List UInt8) (hb : b.length < 2 ^ 64) :
    decEncData fuel d (encBytesField 2 b ++ rest) = decEncData (fuel - 1) { d with ciphertext := b } rest := by
  cases fuel with
  | zero => omega
  | succ f =>
    obtain ⟨ht, hv⟩ := field_bytes 2 b rest (by omega) (by omega) hb
    rw [decEncData]
    rw [append_isEmpty_false (bytesField_length_pos 2 b)]
    simp only [Bool.false_eq_true, if_false, ht, hv]
    simp

def EncDataWF (d : EncData) : Prop :=
  d.ciphertext.length < 2 ^ 64 ∧ ∀ m, d.metadata = some m → MetadataWF m ∧ (encMetadata m).length < 2 ^ 64

/-- **Protobuf round trip of `RawNebulaEncryptedData`.** -/
theorem decEncData_encEncData (d : EncData) (hw : EncDataWF d) (fuel : Nat) (hf : (encEncData d).length + 1 ≤ fuel) :
    decEncData fuel {} (encEncData d) = some d := by
  obtain ⟨w1, w2⟩ := hw
  rw [← List.append_nil (encEncData d)]
  unfold encEncData at hf ⊢
  obtain ⟨md, ct⟩ := d
  simp only at w1 w2 hf ⊢
  have p2 := bytesField_length_pos 2 ct
  cases md with
  | none =>
    by_cases c1 : ct.isEmpty = true <;>
      simp only [c1, if_true, if_false, List.nil_append, List.append_assoc, List.append_nil, List.length_append,
        List.length_nil, Bool.false_eq_true] at hf ⊢
    · rw [decEncData_nil _ (by omega)]; simp only [List.isEmpty_iff] at c1; simp [c1]
    · rw [← List.append_nil (encBytesField 2 ct), decEncData_ct _ (by omega) _ _ _ w1, decEncData_nil _ (by omega)]
  | some m =>
    obtain ⟨wm, wl⟩ := w2 m rfl
    have p1 := bytesField_length_pos 1 (encMetadata m)
    by_cases c1 : ct.isEmpty = true <;>
      simp only [c1, if_true, if_false, List.nil_append, List.append_assoc, List.length_append,
        List.length_nil, Bool.false_eq_true] at hf ⊢
    · rw [decEncData_meta _ (by omega) _ m _ wm rfl wl, decEncData_nil _ (by omega)]
      simp only [List.isEmpty_iff] at c1; simp [c1]
    · rw [decEncData_meta _ (by omega) _ m _ wm rfl wl, decEncData_ct _ (by omega) _ _ _ w1,
        decEncData_nil _ (by omega)]

/-! ### size bounds (so that the only size hypothesis is on the salt and the ciphertext) -/

theorem encVarint_length_le (v : Nat) : (encVarint v).length ≤ 10 := Nebula.Wire.appendVarint_length_le _

theorem varintField_length_le (num v : Nat) : (encVarintField num v).length ≤ 20 := by
  unfold encVarintField encTag
  have := encVarint_length_le (num * 8 + 0); have := encVarint_length_le v
  simp only [List.length_append]; omega

theorem bytesField_length_le (num : Nat) (b : List UInt8) : (encBytesField num b).length ≤ 20 + b.length := by
  unfold encBytesField encTag
  have := encVarint_length_le (num * 8 + 2); have := encVarint_length_le b.length
  simp only [List.length_append]; omega

theorem encArgon_length_le (a : Argon) : (encArgon a).length ≤ 100 + a.salt.length := by
  unfold encArgon
  have := varintField_length_le 1 (int64ToU a.version)
  have := varintField_length_le 2 (a.memory % 2 ^ 32)
  have := varintField_length_le 3 (a.iterations % 2 ^ 32)
  have := varintField_length_le 4 (a.parallelism % 2 ^ 32)
  have := bytesField_length_le 5 a.salt
  simp only [List.length_append]
  repeat' split
  all_goals (try simp only [List.length_nil]) <;> omega

theorem encMetadata_length_le (alg : List UInt8) (a : Argon) :
    (encMetadata { algorithm := alg, argon := some a }).length ≤ 140 + alg.length + a.salt.length := by
  unfold encMetadata
  have := bytesField_length_le 1 alg
  have := bytesField_length_le 2 (encArgon a)
  have := encArgon_length_le a
  simp only [List.length_append]
  split
  all_goals (try simp only [List.length_nil]) <;> omega

/-- the message `EncryptAndMarshalSigningPrivateKey` builds. -/
abbrev msgOf (a : Argon) (blob : List UInt8) : EncData :=
  { metadata := some { algorithm := algAES, argon := some a }, ciphertext := blob }

/-- The message `EncryptAndMarshalSigningPrivateKey` builds reads back, for in-range parameters. -/
theorem decEncData_encrypted (a : Argon) (ha : ArgonWF a) (blob : List UInt8) (hs : a.salt.length < 2 ^ 32)
    (hb : blob.length < 2 ^ 64) :
    let body := encEncData { metadata := some { algorithm := algAES, argon := some a }, ciphertext := blob }
    decEncData (body.length + 1) {} body =
      some { metadata := some { algorithm := algAES, argon := some a }, ciphertext := blob } ∧ body.length ≠ 0 := by
  intro body
  have l1 := encArgon_length_le a
  have l2 := encMetadata_length_le algAES a
  have hal : algAES.length = 11 := by decide
  constructor
  · apply decEncData_encEncData _ _ _ (Nat.le_refl _)
    refine ⟨hb, ?_⟩
    intro m hm
    simp only [Option.some.injEq] at hm
    subst hm
    refine ⟨⟨(by decide : utf8Valid algAES = true), by show algAES.length < _; rw [hal]; omega, ?_⟩, by omega⟩
    intro a' ha'
    simp only [Option.some.injEq] at ha'
    subst ha'
    exact ⟨ha, by omega⟩
  · show (encEncData _).length ≠ 0
    unfold encEncData
    have := bytesField_length_pos 1 (encMetadata { algorithm := algAES, argon := some a })
    simp only [List.length_append]
    omega

end Nebula.Lemmas.CertKeysPb
