/- C12 on top of C11: a sequential history of `Update`s on the tunnel's window accepts every counter
at most once, because the window refines the specification window whose accepted list has no duplicates. -/
import Nebula.Lemmas.Decrypt
import Nebula.Lemmas.BitsRefine

namespace Nebula.Lemmas.Decrypt
open Nebula.Bits Nebula.Decrypt Nebula.Spec Nebula.Lemmas.Bits

/-- along any `Update` history the accepted counters (as naturals) followed by the pre-taken counter 0
are exactly the specification's accepted list -/
theorem feed_refines {b0 : Bits} {L : Nat} (r0 : R b0 L Window.init) (h : List U64) :
    ∃ w, R (feed b0 h).1 L w ∧ w = (feed b0 h).2.map (·.toNat) ++ [0] ∧ w.Nodup := by
  induction h with
  | nil => exact ⟨Window.init, r0, by simp [feed, Window.init], by simp [Window.init]⟩
  | cons c h ih =>
    obtain ⟨w, r, hw, hnd⟩ := ih
    obtain ⟨h1, h2⟩ := update_refines r c
    refine ⟨(Window.step L w c.toNat).1, ?_, ?_, step_nodup L w c.toNat hnd⟩
    · simpa [feed] using h2
    · simp only [feed]
      rw [h1]
      unfold Window.step
      split <;> simp [hw]

theorem feed_nodup {b0 : Bits} {L : Nat} (r0 : R b0 L Window.init) (h : List U64) :
    (feed b0 h).2.Nodup := by
  obtain ⟨w, _, hw, hnd⟩ := feed_refines r0 h
  rw [hw] at hnd
  have h1 : ((feed b0 h).2.map (·.toNat)).Nodup := (List.nodup_append.mp hnd).1
  exact List.Pairwise.of_map (fun x : U64 => x.toNat) (fun a b hab e => hab (by rw [e])) h1

/-- counter 0 is never accepted -/
theorem feed_zero {b0 : Bits} {L : Nat} (r0 : R b0 L Window.init) (h : List U64) :
    (0#64 : U64) ∉ (feed b0 h).2 := by
  obtain ⟨w, _, hw, hnd⟩ := feed_refines r0 h
  rw [hw] at hnd
  intro hm
  have h1 : (0 : Nat) ∈ (feed b0 h).2.map (·.toNat) := List.mem_map.mpr ⟨0#64, hm, rfl⟩
  have := (List.nodup_append.mp hnd).2.2 0 h1 0 (by simp)
  exact this rfl

end Nebula.Lemmas.Decrypt
