/-
C23: a flushed slot, re-segmented by the reference kernel segmenter, yields the slot's packets up to `mask`.
-/
import Nebula.Lemmas.CoalesceSeg

namespace Nebula.Lemmas.Coalesce
open Nebula.Coalesce Nebula.Gen
open Nebula.Spec
open Nebula.Spec.KernelGSO (setByte setBe16 setBe32 zero2 mask trim classify buildSeg segIP segL4 completeCsum kernelSegGSO kernelSeg chunks chunksAux clearBit enumFrom)

/-! ### trimming is idempotent, so `mask` only looks at the trimmed packet -/

theorem trim_idem (p : Bytes) : trim (trim p) = trim p := by
  unfold trim
  by_cases h20 : p.length < 20
  · simp [h20]
  · simp only [h20, ↓reduceIte, get_eq, be16_eq]
    by_cases h4 : byteAt p 0 / 16 = 4
    · simp only [h4, ↓reduceIte]
      by_cases hc : 20 ≤ u16At p 2 ∧ u16At p 2 ≤ p.length
      · simp only [hc, and_self, ↓reduceIte]
        have hl : (p.take (u16At p 2)).length = u16At p 2 := by simp; omega
        have b0 : byteAt (p.take (u16At p 2)) 0 = byteAt p 0 := byteAt_take _ _ _ (by omega)
        have b2 : u16At (p.take (u16At p 2)) 2 = u16At p 2 := u16At_take _ _ _ (by omega)
        simp only [hl, b0, h4, b2, ↓reduceIte]
        have : ¬ u16At p 2 < 20 := by omega
        simp [this, hc.1, List.take_take]
      · simp only [hc, ↓reduceIte, h20, h4]
    · simp only [h4, ↓reduceIte]
      by_cases h6 : byteAt p 0 / 16 = 6
      · simp only [h6, ↓reduceIte]
        by_cases hc : 40 ≤ p.length ∧ 40 + u16At p 4 ≤ p.length
        · simp only [hc, and_self, ↓reduceIte]
          have hl : (p.take (40 + u16At p 4)).length = 40 + u16At p 4 := by simp; omega
          have b0 : byteAt (p.take (40 + u16At p 4)) 0 = byteAt p 0 := byteAt_take _ _ _ (by omega)
          have b4 : u16At (p.take (40 + u16At p 4)) 4 = u16At p 4 := u16At_take _ _ _ (by omega)
          simp only [hl, b0, h6, b4]
          have : ¬ 40 + u16At p 4 < 20 := by omega
          simp [this, List.take_take]
        · simp [hc, h20, h6]
      · simp only [h6, ↓reduceIte, h20, h4]

theorem mask_trim (p : Bytes) : mask (trim p) = mask p := by
  unfold mask
  simp only [trim_idem]

/-! ### cutting the concatenated payload at `g` gives the payload list back -/

theorem chunksAux_nil (g fuel : Nat) : chunksAux g fuel [] = [] := by
  cases fuel <;> simp [chunksAux]

theorem chunksAux_flatten (g : Nat) (hg : 0 < g) (pays : List Bytes)
    (hpos : ∀ p ∈ pays, 0 < p.length ∧ p.length ≤ g)
    (hfull : ∀ (i : Nat) (p : Bytes), pays[i]? = some p → i + 1 < pays.length → p.length = g)
    (fuel : Nat) (hf : pays.flatten.length ≤ fuel) : chunksAux g fuel pays.flatten = pays := by
  induction pays generalizing fuel with
  | nil => simp [chunksAux_nil]
  | cons p rest ih =>
    have hp := hpos p (by simp)
    cases fuel with
    | zero =>
      simp only [List.flatten_cons, List.length_append] at hf; omega
    | succ f =>
      have hne : (p ++ rest.flatten).isEmpty = false := by
        cases p with
        | nil => simp at hp
        | cons => rfl
      simp only [List.flatten_cons, chunksAux, hne, Bool.false_eq_true, ↓reduceIte]
      cases rest with
      | nil =>
        simp only [List.flatten_nil, List.append_nil]
        rw [List.take_of_length_le hp.2, List.drop_of_length_le hp.2, chunksAux_nil]
      | cons q rest' =>
        have hpl : p.length = g := hfull 0 p (by simp) (by simp)
        rw [List.take_left' hpl, List.drop_left' hpl]
        congr 1
        apply ih
        · intro x hx; exact hpos x (by simp [hx])
        · intro i x hx hi
          exact hfull (i + 1) x (by simpa using hx) (by simp at hi ⊢; omega)
        · simp only [List.flatten_cons, List.length_append] at hf ⊢; omega

theorem chunks_flatten (g : Nat) (hg : 0 < g) (pays : List Bytes)
    (hpos : ∀ p ∈ pays, 0 < p.length ∧ p.length ≤ g)
    (hfull : ∀ (i : Nat) (p : Bytes), pays[i]? = some p → i + 1 < pays.length → p.length = g) :
    chunks g pays.flatten = pays :=
  chunksAux_flatten g hg pays hpos hfull _ (Nat.le_refl _)

theorem getElem?_enumFrom {α} (l : List α) (s i : Nat) :
    (enumFrom s l)[i]? = (l[i]?).map (fun x => (s + i, x)) := by
  induction l generalizing s i with
  | nil => simp [enumFrom]
  | cons a t ih =>
    cases i with
    | zero => simp [enumFrom]
    | succ j =>
      simp only [enumFrom, List.getElem?_cons_succ, ih]
      congr 1; funext x; congr 1; omega

theorem length_enumFrom {α} (l : List α) (s : Nat) : (enumFrom s l).length = l.length := by
  induction l generalizing s with
  | nil => rfl
  | cons a t ih => simp [enumFrom, ih]

/-! ### from the slot invariant to the per-segment hypotheses -/

theorem le_sum_of_getElem? {l : List Nat} {i x : Nat} (h : l[i]? = some x) : x ≤ l.sum := by
  induction l generalizing i with
  | nil => simp at h
  | cons a t ih =>
    cases i with
    | zero => simp at h; subst h; simp
    | succ j => simp at h; have := ih h; simp; omega

theorem headD_eq_of_ne {α} {l : List α} (d : α) (h : l ≠ []) : l[0]? = some (l.headD d) := by
  cases l with
  | nil => exact absurd rfl h
  | cons a t => rfl

theorem getLastD_eq_getElem? {α} {l : List α} {i : Nat} {x d : α} (h : l[i]? = some x) (hi : i + 1 = l.length) :
    l.getLastD d = x := by
  rw [List.getLastD_eq_getLast?, List.getLast?_eq_getElem?]
  have : l.length - 1 = i := by omega
  rw [this, h]; rfl

/-- facts about the seed of a coalescing slot -/
structure SeedFacts (tcp : Bool) (s : Slot) : Prop where
  l4 : s.ipHdrLen = if s.isV6 then 40 else 20
  hmin : s.ipHdrLen + (if tcp then 20 else 8) ≤ s.hdrLen
  udp : tcp = false → s.hdrLen = s.ipHdrLen + 8
  lenP0 : s.hdrLen < (seedOf s).length
  v4 : s.isV6 = false → byteAt (seedOf s) 0 = 0x45
  v6 : s.isV6 = true → byteAt (seedOf s) 0 / 16 = 6
  gLe : s.gsoSize ≤ s.totalPay
  gPos : 0 < s.gsoSize
  adm : tcp = true → hasAck (byteAt (seedOf s) (s.ipHdrLen + 13)) = true ∧
      hasOther (byteAt (seedOf s) (s.ipHdrLen + 13)) = false
  noPsh : tcp = true → 2 ≤ s.ghost.length → hasPsh (byteAt (seedOf s) (s.ipHdrLen + 13)) = false

theorem seedFacts {tcp : Bool} {s : Slot} (hok : CoalOK tcp s) : SeedFacts tcp s := by
  have h0 := headD_eq_of_ne ([] : Bytes) hok.ne
  obtain ⟨info0, parse0, F0⟩ := hok.pk 0 (seedOf s) h0
  have P0 := parseAt_facts parse0
  obtain ⟨info0', parse0', hg⟩ := hok.g0
  rw [parse0] at parse0'
  have e := Option.some.inj parse0'; subst e
  have hL := F0.hHdr
  have hv := F0.hV6
  have hpl : (slice (seedOf s) info0.hdrLen (info0.hdrLen + info0.payLen)).length = info0.payLen :=
    slice_len_of_le _ _ _ P0.le
  constructor
  · exact hok.hl
  · cases tcp with
    | true => have := (P0.tcpF rfl); simp only [↓reduceIte]; omega
    | false => have := (P0.udp rfl); simp only [Bool.false_eq_true, ↓reduceIte]; omega
  · intro ht; have := (P0.udp ht); omega
  · have := P0.le; have := F0.payPos; omega
  · intro h6; exact (P0.v4 (by rw [hv]; exact h6)).1
  · intro h6; exact (P0.v6 (by rw [hv]; exact h6)).1
  · rw [hok.total, hg]
    have hp := F0.pay
    have : (s.payIovs.map List.length)[0]? = some info0.payLen := by
      rw [List.getElem?_map, hp]; simp [hpl]
    exact le_sum_of_getElem? this
  · rw [hg]; exact F0.payPos
  · intro ht; rw [← (P0.tcpF ht).2.2.2]; exact F0.adm ht
  · intro ht h2; rw [← (P0.tcpF ht).2.2.2]; exact (F0.full (by omega)).2 ht

theorem rawPkt_cases {tcp : Bool} {s : Slot} (hok : CoalOK tcp s) :
    s.rawPkt = seedOf s ∨
      (tcp = true ∧ 2 ≤ s.ghost.length ∧ lastPsh s = true ∧ s.rawPkt = orPsh (seedOf s) (s.ipHdrLen + 13)) := by
  have := hok.raw
  by_cases c : tcp = true ∧ 2 ≤ s.ghost.length ∧ lastPsh s = true
  · rw [if_pos c] at this; exact Or.inr ⟨c.1, c.2.1, c.2.2, this⟩
  · rw [if_neg c] at this; exact Or.inl this

theorem rd_rawPkt {tcp : Bool} {s : Slot} (hok : CoalOK tcp s) (k : Nat) (hk : k ≠ s.ipHdrLen + 13) :
    rd s.rawPkt k = rd (seedOf s) k := by
  rcases rawPkt_cases hok with h | ⟨_, _, _, h⟩
  · rw [h]
  · rw [h, rd_orPsh_ne _ _ _ (by omega)]

theorem length_rawPkt {tcp : Bool} {s : Slot} (hok : CoalOK tcp s) : s.rawPkt.length = (seedOf s).length := by
  rcases rawPkt_cases hok with h | ⟨_, _, _, h⟩
  · rw [h]
  · rw [h, length_orPsh]

theorem u16At_congr2 {a b : Bytes} {j : Nat} (h : ∀ k, j ≤ k → k < j + 2 → rd a k = rd b k) :
    u16At a j = u16At b j :=
  u16At_congr (h j (by omega) (by omega)) (h (j + 1) (by omega) (by omega))

theorem u32At_congr4 {a b : Bytes} {j : Nat} (h : ∀ k, j ≤ k → k < j + 4 → rd a k = rd b k) :
    u32At a j = u32At b j := by
  simp only [u32At]
  rw [u16At_congr2 (a := a) (b := b) (j := j) (fun k h1 h2 => h k h1 (by omega)),
    u16At_congr2 (a := a) (b := b) (j := j + 2) (fun k h1 h2 => h k (by omega) (by omega))]

theorem hasAck_iff (f : Nat) : hasAck f = true ↔ f / 16 % 2 = 1 := by
  unfold hasAck batch_tcpFlagAck; exact decide_eq_true_iff
theorem hasPsh_iff (f : Nat) : hasPsh f = true ↔ f / 8 % 2 = 1 := by
  unfold hasPsh batch_tcpFlagPsh; exact decide_eq_true_iff
theorem hasPsh_false (f : Nat) : hasPsh f = false ↔ f / 8 % 2 = 0 := by
  unfold hasPsh batch_tcpFlagPsh; rw [decide_eq_false_iff_not]; omega
theorem hasOther_false (f : Nat) : hasOther f = false ↔ f % 8 = 0 ∧ f / 32 % 2 = 0 ∧ f / 128 % 2 = 0 := by
  simp only [hasOther, decide_eq_false_iff_not]; omega
theorem hasEce_eq (a b : Nat) : hasEce a = hasEce b ↔ a / 64 % 2 = b / 64 % 2 := by
  simp only [hasEce, batch_tcpFlagEce]
  by_cases h1 : a / 64 % 2 = 1 <;> by_cases h2 : b / 64 % 2 = 1 <;> simp [h1, h2] <;> omega

theorem segHyp_of_slot {tcp : Bool} {s : Slot} (hok : CoalOK tcp s) (hn : 2 ≤ s.ghost.length)
    {i : Nat} {p : Bytes} (hp : s.ghost[i]? = some p) :
    SegHyp tcp s.isV6 s.ipHdrLen (flushHdr tcp s) (trim p) s.gsoSize s.ghost.length i ∧
      s.payIovs[i]? = some ((trim p).drop (flushHdr tcp s).length) := by
  have SF := seedFacts hok
  obtain ⟨info, parse, Fi⟩ := hok.pk i p hp
  have P := parseAt_facts parse
  have hL : info.hdrLen = s.hdrLen := Fi.hHdr
  have hv : info.fk.isV6 = s.isV6 := Fi.hV6
  have hilt := getElem?_lt hp
  have hmin := SF.hmin
  have hl8 : s.ipHdrLen + 8 ≤ s.hdrLen := by cases tcp <;> simp at hmin <;> omega
  have hl20 : 20 ≤ s.ipHdrLen := by have := SF.l4; cases h6 : s.isV6 <;> simp [h6] at this <;> omega
  -- lengths
  have hraw : s.rawPkt.length = (seedOf s).length := length_rawPkt hok
  have hhl : (flushHdr tcp s).length = s.hdrLen := by
    rw [length_flushHdr, hraw]; have := SF.lenP0; omega
  have htrim : trim p = p.take (s.hdrLen + info.payLen) := by rw [P.trim, hL]
  have hple : s.hdrLen + info.payLen ≤ p.length := by rw [← hL]; exact P.le
  have htl : (trim p).length = s.hdrLen + info.payLen := by rw [htrim]; simp; omega
  have hpos := Fi.payPos
  have rdt : ∀ k, k < s.hdrLen + info.payLen → rd (trim p) k = rd p k := by
    intro k hk; rw [htrim]; exact rd_take _ _ _ hk
  -- header bytes: flushed header = raw = seed = this packet, outside the regenerated offsets
  have agree0 : ∀ k, k < s.hdrLen → ¬ Free tcp s.isV6 s.ipHdrLen k → rd (flushHdr tcp s) k = rd (seedOf s) k := by
    intro k hk hf
    rw [rd_flushHdr tcp s k hk (fun hw => hf hw.free)]
    apply rd_rawPkt hok
    intro e
    cases tcp with
    | true => exact hf (Free.tcp (by omega))
    | false =>
      have := SF.udp rfl; omega
  have agreeP : ∀ k, k < s.hdrLen → ¬ Free tcp s.isV6 s.ipHdrLen k → rd (seedOf s) k = rd p k := by
    have hm := Fi.hm
    rw [hL] at hm
    exact hm_agree hm SF.l4 hl8 SF.udp
  have nf : ∀ k, k < s.ipHdrLen → k ≠ 2 → k ≠ 3 → k ≠ 4 → k ≠ 5 → k ≠ 10 → k ≠ 11 → ¬ Free tcp s.isV6 s.ipHdrLen k := by
    intro k h1 h2 h3 h4 h5 h6 h7 hf
    rcases hf with ⟨_, e⟩ | ⟨_, e⟩ | ⟨_, e⟩ | ⟨_, e⟩ <;> omega
  have ag : ∀ k, k < s.hdrLen → ¬ Free tcp s.isV6 s.ipHdrLen k → rd (flushHdr tcp s) k = rd (trim p) k := by
    intro k hk hf
    rw [agree0 k hk hf, agreeP k hk hf, rdt k (by omega)]
  have b0 : byteAt (flushHdr tcp s) 0 = byteAt (seedOf s) 0 := by
    simp only [byteAt_rd]; rw [agree0 0 (by omega) (nf 0 (by omega) (by omega) (by omega) (by omega) (by omega) (by omega) (by omega))]
  refine ⟨?_, ?_⟩
  · constructor
    · exact SF.l4
    · rw [hhl]; exact SF.hmin
    · rw [hhl, htl]; omega
    · rw [htl]
      have := hok.cap; have := SF.gLe; have := Fi.payLe; omega
    · rw [b0]
      constructor
      · intro h6
        cases hh : s.isV6 with
        | true => rfl
        | false => have := SF.v4 hh; omega
      · intro h6; exact SF.v6 h6
    · intro h6
      obtain ⟨a, b, c⟩ := P.v4 (by rw [hv]; exact h6)
      refine ⟨?_, ?_, ?_⟩
      · simp only [byteAt_rd]; rw [rdt 0 (by omega), ← byteAt_rd]; exact a
      · rw [u16At_congr2 (b := p) (fun k _ h2 => rdt k (by omega))]; exact b
      · rw [u16At_congr2 (b := p) (fun k _ h2 => rdt k (by omega)), c, htl, hL]
    · intro h6
      obtain ⟨a, b⟩ := P.v6 (by rw [hv]; exact h6)
      refine ⟨?_, ?_⟩
      · simp only [byteAt_rd]; rw [rdt 0 (by omega), ← byteAt_rd]; exact a
      · rw [u16At_congr2 (b := p) (fun k _ h2 => rdt k (by omega)), b, htl, hL]
    · have := Fi.proto
      simp only [byteAt_rd] at this ⊢
      rw [rdt _ (by cases s.isV6 <;> simp <;> omega)]
      exact this
    · intro k hk hf
      rw [hhl] at hk
      exact ag k hk hf
    · intro h6 hdf
      have hid := Fi.id h6
      have e6 : byteAt (trim p) 6 = byteAt (seedOf s) 6 := by
        have hnf := nf 6 (by omega) (by omega) (by omega) (by omega) (by omega) (by omega) (by omega)
        simp only [byteAt_rd]
        rw [rdt 6 (by omega), ← agreeP 6 (by omega) hnf]
      rw [e6] at hdf
      unfold ipv4CanCoalesceID at hid
      simp only [batch_ipv4FlagDF, hdf, ↓reduceIte, beq_iff_eq] at hid
      have e4 : u16At (flushHdr tcp s) 4 = u16At (seedOf s) 4 := by
        apply u16At_congr2
        intro k h1 h2
        rw [rd_flushHdr tcp s k (by omega) (by
          intro hw
          rcases hw with ⟨_, e⟩ | ⟨e, _⟩ | ⟨_, e⟩ | ⟨_, e⟩
          · omega
          · rw [h6] at e; cases e
          · omega
          · omega)]
        exact rd_rawPkt hok k (by omega)
      rw [u16At_congr2 (b := p) (fun k _ h2 => rdt k (by omega)), hid, e4]
    · intro ht
      have := P.udp ht
      have hu := SF.udp ht
      rw [u16At_congr2 (b := p) (fun k _ h2 => rdt k (by omega)), this.2, htl]; omega
    · intro ht
      subst ht
      simp only [↓reduceIte] at hmin
      have hs := Fi.seq rfl
      have hps := (P.tcpF rfl).2.2.1
      have e4 : u32At (flushHdr true s) (s.ipHdrLen + 4) = u32At (seedOf s) (s.ipHdrLen + 4) := by
        apply u32At_congr4
        intro k h1 h2
        rw [rd_flushHdr true s k (by omega) (by
          intro hw
          rcases hw with ⟨_, e⟩ | ⟨_, e⟩ | ⟨e, _⟩ | ⟨_, e⟩
          · omega
          · omega
          · cases e
          · omega)]
        exact rd_rawPkt hok k (by omega)
      rw [u32At_congr4 (b := p) (fun k _ h2 => rdt k (by omega)), ← hps, hs, e4]
    · intro ht
      subst ht
      simp only [↓reduceIte] at hmin
      obtain ⟨_, _, _, hfl⟩ := P.tcpF rfl
      have et : byteAt (trim p) (s.ipHdrLen + 13) = info.flags := by
        simp only [byteAt_rd]; rw [rdt _ (by omega), ← byteAt_rd, hfl]
      have eh : byteAt (flushHdr true s) (s.ipHdrLen + 13) = byteAt s.rawPkt (s.ipHdrLen + 13) := by
        simp only [byteAt_rd]
        rw [rd_flushHdr true s _ (by omega) (by
          intro hw
          rcases hw with ⟨_, e⟩ | ⟨_, e⟩ | ⟨e, _⟩ | ⟨_, e⟩
          · omega
          · omega
          · cases e
          · omega)]
      rw [et, eh]
      obtain ⟨a0, o0⟩ := SF.adm rfl
      have p0 := SF.noPsh rfl hn
      obtain ⟨ai, oi⟩ := Fi.adm rfl
      have hece := Fi.ece rfl
      have hb0 := byteAt_lt (seedOf s) (s.ipHdrLen + 13)
      have hbi : info.flags < 256 := by rw [hfl]; exact byteAt_lt _ _
      rw [hasAck_iff] at a0 ai
      rw [hasOther_false] at o0 oi
      rw [hasPsh_false] at p0
      rw [hasEce_eq] at hece
      have hece' := hece
      have hoff : s.ipHdrLen + 13 < (seedOf s).length := by have := SF.lenP0; omega
      have hfullP : i + 1 < s.ghost.length → info.flags / 8 % 2 = 0 := by
        intro hlt
        have := (Fi.full hlt).2 rfl
        rw [hasPsh_false] at this
        exact this
      apply segFlags_eq (byteAt (seedOf s) (s.ipHdrLen + 13)) info.flags _ _ _ hb0 hbi a0
        o0 ai oi hece' p0 hfullP
      · rcases rawPkt_cases hok with h | ⟨_, _, _, h⟩
        · left; rw [h]
        · right; rw [h]; exact byteAt_orPsh _ _ hoff (by omega)
      · intro hlast
        have hlastP : lastPsh s = hasPsh info.flags := by
          unfold lastPsh
          rw [getLastD_eq_getElem? hp (by omega), hfl]
        rcases rawPkt_cases hok with h | ⟨_, _, hl, h⟩
        · rw [h]
          constructor
          · intro e; omega
          · intro e
            have hr := hok.raw
            have : lastPsh s = true := by
              rw [hlastP, hasPsh_iff]; exact e
            rw [if_pos ⟨rfl, hn, this⟩, h] at hr
            have hb := byteAt_orPsh (seedOf s) (s.ipHdrLen + 13) hoff (by omega)
            rw [← hr] at hb; omega
        · rw [h, byteAt_orPsh _ _ hoff (by omega)]
          constructor
          · intro _
            rw [hlastP, hasPsh_iff] at hl
            exact hl
          · intro _; rfl
  · rw [Fi.pay, hhl, hL, htrim]; rfl

/-! ### a whole slot -/

theorem pay_len {tcp : Bool} {s : Slot} (hok : CoalOK tcp s) {i : Nat} {x : Bytes} (hx : s.payIovs[i]? = some x) :
    0 < x.length ∧ x.length ≤ s.gsoSize ∧ (i + 1 < s.payIovs.length → x.length = s.gsoSize) := by
  have hi := getElem?_lt hx
  rw [hok.npay] at hi
  obtain ⟨info, parse, Fi⟩ := hok.pk i s.ghost[i] (List.getElem?_eq_getElem hi)
  have P := parseAt_facts parse
  have := Fi.pay
  rw [hx] at this
  have e := Option.some.inj this
  have hl : x.length = info.payLen := by rw [e]; exact slice_len_of_le _ _ _ P.le
  refine ⟨by rw [hl]; exact Fi.payPos, by rw [hl]; exact Fi.payLe, ?_⟩
  intro hlt
  rw [hl]; exact (Fi.full (by rw [← hok.npay]; exact hlt)).1

theorem slot_seg {tcp : Bool} {s : Slot} (hok : SlotOK tcp s) :
    (kernelSeg (slotOut tcp s)).map mask = s.ghost.map mask := by
  unfold slotOut
  cases hv : s.verbatim with
  | true =>
    simp only [true_or, ↓reduceIte, kernelSeg]
    rw [hok.verb hv]
  | false =>
    have hc := hok.coal hv
    simp only [Bool.false_eq_true, false_or]
    by_cases h1 : s.numSeg = 1
    · rw [if_pos h1]
      simp only [kernelSeg]
      have hn : s.ghost.length = 1 := by rw [← hc.numSeg]; exact h1
      have hraw := hc.raw
      rw [if_neg (by omega)] at hraw
      have : s.ghost = [seedOf s] := by
        cases hg : s.ghost with
        | nil => rw [hg] at hn; simp at hn
        | cons a t =>
          rw [hg] at hn
          simp at hn
          subst hn
          simp [seedOf, hg]
      rw [this, hraw]
    · rw [if_neg h1]
      have hn : 2 ≤ s.ghost.length := by
        have h2 := hc.numSeg
        have h3 : s.ghost.length ≠ 0 := fun e => hc.ne (List.eq_nil_of_length_eq_zero e)
        omega
      have SF := seedFacts hc
      unfold flushSlot
      simp only [kernelSeg]
      -- the payload list has at least two entries; its first entry has gsoSize bytes
      have hnp : 2 ≤ s.payIovs.length := by rw [hc.npay]; exact hn
      obtain ⟨a, b, rest, hpays⟩ : ∃ a b rest, s.payIovs = a :: b :: rest := by
        cases hp : s.payIovs with
        | nil => rw [hp] at hnp; simp at hnp
        | cons a t =>
          cases t with
          | nil => rw [hp] at hnp; simp at hnp
          | cons b rest => exact ⟨a, b, rest, rfl⟩
      have ha : a.length = s.gsoSize := by
        have := pay_len hc (i := 0) (x := a) (by rw [hpays]; rfl)
        exact this.2.2 (by omega)
      have hchunks : chunks a.length s.payIovs.flatten = s.payIovs := by
        apply chunks_flatten
        · rw [ha]; exact SF.gPos
        · intro x hx
          obtain ⟨i, hi⟩ := List.getElem?_of_mem hx
          have := pay_len hc hi
          rw [ha]; exact ⟨this.1, this.2.1⟩
        · intro i x hx hlt
          rw [ha]; exact (pay_len hc hx).2.2 hlt
      rw [hpays]
      simp only [kernelSegGSO]
      rw [← hpays, hchunks]
      apply List.ext_getElem?
      intro i
      simp only [List.getElem?_map, getElem?_enumFrom]
      by_cases hi : i < s.ghost.length
      · have hp := List.getElem?_eq_getElem hi
        obtain ⟨SH, hpay⟩ := segHyp_of_slot hc hn hp
        rw [hp, hpay]
        simp only [Option.map_some, Nat.zero_add, Option.some.injEq]
        rw [slice_zero, ha, hc.npay, seg_mask_eq SH, mask_trim]
      · have hnp' := hc.npay
        rw [List.getElem?_eq_none (by omega), List.getElem?_eq_none (by omega)]
        rfl

end Nebula.Lemmas.Coalesce
