/-
The packed bitmap of the replay window as a ring of `L` bit positions (C11): what `get`, `set` and
`clearRange` do to position `q`, for every window length `L = 2^k`, every start position and count —
the word-boundary, wrap-around and `L < 64` cases of `clearRange` are cases of these proofs.
-/
import Nebula.Lemmas.BitsWord

namespace Nebula.Lemmas.Bits
open Nebula.Bits

/-- `q` lies among the `n` ring positions `s, s+1, …` (mod `L`) -/
def InCirc (L s n q : Nat) : Prop := (s ≤ q ∧ q < s + n) ∨ (q < s ∧ q + L < s + n)

instance (L s n q : Nat) : Decidable (InCirc L s n q) := by unfold InCirc; infer_instance

/-- shape of the bitmap: `W` words for `L` positions -/
structure Geo (L W : Nat) : Prop where
  pos : 1 ≤ L
  le : L ≤ 2 ^ 63
  shape : (L < 64 ∧ W = 1) ∨ (L = 64 * W)

/-- a well-formed window of length `L` -/
structure WF (b : Bits) (L : Nat) : Prop where
  len : b.length.toNat = L
  mask : ∀ x : U64, (x &&& b.lengthMask).toNat = x.toNat % L
  geo : Geo L b.bits.size

theorem mod_cases (L x : Nat) (hL : 0 < L) (hx : x < 2 * L) :
    (x < L ∧ x % L = x) ∨ (L ≤ x ∧ x % L = x - L) := by
  by_cases h : x < L
  · exact Or.inl ⟨h, Nat.mod_eq_of_lt h⟩
  · refine Or.inr ⟨by omega, ?_⟩
    rw [Nat.mod_eq_sub_mod (by omega), Nat.mod_eq_of_lt (by omega)]

theorem word_lt {L W : Nat} (g : Geo L W) {p : Nat} (hp : p < L) : p / 64 < W := by
  rcases g.shape with ⟨h, hw⟩ | h <;> omega

/-! ### get / set -/

theorem get_spec {b : Bits} {L : Nat} (h : WF b L) (i : U64) :
    Nebula.Bits.get b i = bitAt b.bits (i.toNat % L) := by
  unfold Nebula.Bits.get wordAt bitAt
  simp only []
  have hj : (i &&& b.lengthMask &&& 63#64).toNat < 64 := by rw [toNat_and63]; omega
  rw [test_bit _ _ hj, toNat_shr6, toNat_and63, h.mask]

/-- the `bits[word] = w | mask` pattern used by `set` and inlined in `Update` / `updateSlow` -/
theorem setBit_spec {b : Bits} {L : Nat} (h : WF b L) (i : U64) (q : Nat) :
    bitAt (b.bits.setIfInBounds ((i &&& b.lengthMask) >>> 6).toNat
        (wordAt b.bits ((i &&& b.lengthMask) >>> 6) ||| (1#64 <<< ((i &&& b.lengthMask) &&& 63#64).toNat))) q
      = (bitAt b.bits q || decide (q = i.toNat % L)) := by
  unfold wordAt
  have hpos : i.toNat % L < L := Nat.mod_lt _ h.geo.pos
  have hw : ((i &&& b.lengthMask) >>> 6).toNat < b.bits.size := by
    rw [toNat_shr6, h.mask]; exact word_lt h.geo hpos
  have hj : (i &&& b.lengthMask &&& 63#64).toNat < 64 := by rw [toNat_and63]; omega
  rw [bitAt_setBit _ _ _ hw hj, toNat_shr6, toNat_and63, h.mask]
  congr 2
  rw [eq_iff_iff]; omega

theorem set_spec {b : Bits} {L : Nat} (h : WF b L) (i : U64) (q : Nat) :
    bitAt (Nebula.Bits.set b i).bits q = (bitAt b.bits q || decide (q = i.toNat % L)) := by
  unfold Nebula.Bits.set
  exact setBit_spec h i q

theorem set_fields (b : Bits) (i : U64) :
    (Nebula.Bits.set b i).length = b.length ∧ (Nebula.Bits.set b i).lengthMask = b.lengthMask ∧
    (Nebula.Bits.set b i).current = b.current ∧ (Nebula.Bits.set b i).bits.size = b.bits.size := by
  simp [Nebula.Bits.set]

/-! ### pieces of clearRange -/

theorem firstTake_toNat (len pos rem : U64) (L : Nat) (hlen : len.toNat = L) (hL : L ≤ 2 ^ 63)
    (hp : pos.toNat < L) :
    (firstTake len pos rem).toNat = min (64 - pos.toNat % 64) (min rem.toNat (L - pos.toNat)) := by
  unfold firstTake
  have hb := toNat_and63 pos
  generalize pos &&& 63#64 = bit at hb ⊢
  have : pos.toNat % 64 < 64 := Nat.mod_lt _ (by decide)
  simp only []
  split <;> split <;> bv_omega

theorem firstMask_spec (take bit : U64) (ht : take.toNat + bit.toNat ≤ 64) (j : Nat) (hj : j < 64) :
    (firstMask take bit).getLsbD j = (decide (bit.toNat ≤ j) && decide (j < bit.toNat + take.toNat)) := by
  unfold firstMask
  split
  · rename_i h
    have h64 : take.toNat = 64 := by
      have := eq_of_beq h
      rw [this]; decide
    have hb : bit.toNat = 0 := by omega
    rw [BitVec.getLsbD_allOnes, h64, hb]
    simp [hj]
  · rename_i h
    have hne : take ≠ 64#64 := by intro e; rw [e] at h; simp at h
    have h64 : take.toNat < 64 := by
      have : take.toNat ≠ 64 := by
        intro e; apply hne; apply BitVec.eq_of_toNat_eq; rw [e]; decide
      omega
    exact range_mask _ _ _ h64 hj

theorem clearWords_small (bits : Array U64) (m pos r : U64) (h : r.toNat < 64) :
    clearWords bits m pos r = (bits, pos, r) := by
  rw [clearWords]
  have : ¬ (64#64 ≤ r) := by
    intro hle
    have := BitVec.le_def.mp hle
    simp at this; omega
  simp [this]

theorem lastPartial_spec (bits : Array U64) (pos r : U64) (hr : r.toNat < 64)
    (hal : pos.toNat % 64 = 0 ∨ r.toNat = 0) (hw : r.toNat = 0 ∨ pos.toNat / 64 < bits.size) (q : Nat) :
    (lastPartial bits pos r).size = bits.size ∧
    bitAt (lastPartial bits pos r) q =
      (bitAt bits q && !(decide (pos.toNat ≤ q) && decide (q < pos.toNat + r.toNat))) := by
  unfold lastPartial
  by_cases h0 : 0#64 < r
  · have hrpos : 0 < r.toNat := by have := BitVec.lt_def.mp h0; simpa using this
    simp only [h0, if_true]
    refine ⟨by simp, ?_⟩
    have hal' : pos.toNat % 64 = 0 := by omega
    have hw' : (pos >>> 6).toNat < bits.size := by rw [toNat_shr6]; omega
    unfold wordAt
    rw [bitAt_clearMask bits (pos >>> 6).toNat 0 r.toNat _ hw' (by omega)
      (fun j _ => by rw [low_mask _ _ hr]; simp)]
    rw [toNat_shr6]
    congr 2
    rw [Bool.eq_iff_iff]; simp only [Bool.and_eq_true, decide_eq_true_eq]; omega
  · have hr0 : r.toNat = 0 := by
      have : ¬ (0 < r.toNat) := by
        intro hlt; apply h0; exact BitVec.lt_def.mpr (by simpa using hlt)
      omega
    simp only [h0, if_false]
    refine ⟨trivial, ?_⟩
    have : (decide (pos.toNat ≤ q) && decide (q < pos.toNat + r.toNat)) = false := by
      rw [Bool.eq_false_iff]; simp only [ne_eq, Bool.and_eq_true, decide_eq_true_eq]; omega
    rw [this]; simp

/-- the whole-word loop, for a ring of `L = 64·W` positions, started at an aligned position -/
theorem clearWords_spec (L W : Nat) (m : U64) (hL : L = 64 * W) (hL63 : L ≤ 2 ^ 63)
    (hm : ∀ x : U64, (x &&& m).toNat = x.toNat % L) :
    ∀ (n : Nat) (r : U64) (bits : Array U64) (pos : U64), r.toNat = n → bits.size = W →
      pos.toNat % 64 = 0 → pos.toNat < L → n ≤ L →
      ∃ bits' pos' r', clearWords bits m pos r = (bits', pos', r') ∧ bits'.size = W ∧
        r'.toNat = n % 64 ∧ pos'.toNat % 64 = 0 ∧ pos'.toNat < L ∧
        pos'.toNat = (pos.toNat + (n - n % 64)) % L ∧
        ∀ q, q < L → bitAt bits' q = (bitAt bits q && !decide (InCirc L pos.toNat (n - n % 64) q)) := by
  intro n
  induction n using Nat.strongRecOn with
  | _ n ih =>
    intro r bits pos hr hsz hal hpos hn
    by_cases hlt : n < 64
    · rw [clearWords_small _ _ _ _ (by omega)]
      refine ⟨bits, pos, r, rfl, hsz, by omega, hal, hpos, ?_, ?_⟩
      · have : n - n % 64 = 0 := by omega
        rw [this, Nat.add_zero, Nat.mod_eq_of_lt hpos]
      · intro q _
        have : n - n % 64 = 0 := by omega
        have hf : decide (InCirc L pos.toNat (n - n % 64) q) = false := by
          rw [decide_eq_false_iff_not, this]; unfold InCirc; omega
        rw [hf]; simp
    · have hge : 64#64 ≤ r := BitVec.le_def.mpr (by simp; omega)
      rw [clearWords]
      simp only [hge, dite_true]
      have hr1 : (r - 64#64).toNat = n - 64 := by bv_omega
      have hW : 0 < W := by omega
      have hw : (pos >>> 6).toNat < bits.size := by rw [toNat_shr6]; omega
      have hp64 : pos.toNat + 64 ≤ L := by omega
      have hpos1 : ((pos + 64#64) &&& m).toNat = (pos.toNat + 64) % L := by
        rw [hm]; congr 1; bv_omega
      obtain ⟨bits', pos', r', he, hs', hr', hal', hpos', hpv, hb⟩ :=
        ih (n - 64) (by omega) (r - 64#64) (bits.setIfInBounds (pos >>> 6).toNat 0#64)
          ((pos + 64#64) &&& m) hr1 (by simp [hsz])
          (by rw [hpos1]; rcases mod_cases L (pos.toNat + 64) (by omega) (by omega) with ⟨_, e⟩ | ⟨_, e⟩ <;> omega)
          (by rw [hpos1]; exact Nat.mod_lt _ (by omega)) (by omega)
      refine ⟨bits', pos', r', he, hs', by omega, hal', hpos', ?_, ?_⟩
      · rw [hpv, hpos1]
        have e1 : n - 64 - (n - 64) % 64 = (n - n % 64) - 64 := by omega
        rw [e1]
        rcases mod_cases L (pos.toNat + 64) (by omega) (by omega) with ⟨_, e⟩ | ⟨hh, e⟩
        · rw [e]; congr 1; omega
        · rw [e]
          have : pos.toNat + 64 = L := by omega
          have e2 : pos.toNat + (n - n % 64) = L + ((n - n % 64) - 64) := by omega
          rw [e2, Nat.add_mod_left]; congr 1; omega
      · intro q hq
        rw [hb q hq, bitAt_zeroWord _ _ hw, toNat_shr6, hpos1]
        have e1 : n - 64 - (n - 64) % 64 = (n - n % 64) - 64 := by omega
        rw [e1]
        have hd : (decide (64 * (pos.toNat / 64) ≤ q) && decide (q < 64 * (pos.toNat / 64) + 64)) =
            (decide (pos.toNat ≤ q) && decide (q < pos.toNat + 64)) := by
          have : 64 * (pos.toNat / 64) = pos.toNat := by omega
          rw [this]
        rw [hd, Bool.and_assoc]
        congr 1
        rw [Bool.eq_iff_iff]
        simp only [Bool.and_eq_true, Bool.not_eq_true', decide_eq_false_iff_not, Bool.and_eq_false_imp,
          decide_eq_true_eq]
        unfold InCirc
        rcases mod_cases L (pos.toNat + 64) (by omega) (by omega) with ⟨_, e⟩ | ⟨hh, e⟩ <;> rw [e] <;> omega

/-- `clearRange(startPos, count)` clears exactly the `min count L` ring positions starting at
`startPos` and leaves every other position (and every other field) alone. -/
theorem clearRange_spec {b : Bits} {L : Nat} (h : WF b L) (s n : U64) (hs : s.toNat < L) :
    (clearRange b s n).length = b.length ∧ (clearRange b s n).lengthMask = b.lengthMask ∧
    (clearRange b s n).current = b.current ∧ (clearRange b s n).bits.size = b.bits.size ∧
    ∀ q, q < L → bitAt (clearRange b s n).bits q =
      (bitAt b.bits q && !decide (InCirc L s.toNat (min n.toNat L) q)) := by
  have hgeo := h.geo
  have hLpos := hgeo.pos
  have hL63 := hgeo.le
  unfold clearRange
  by_cases hfull : b.length ≤ n
  · simp only [hfull, if_true]
    refine ⟨trivial, trivial, trivial, by simp, ?_⟩
    intro q hq
    have hn : L ≤ n.toNat := by have := BitVec.le_def.mp hfull; rw [h.len] at this; exact this
    have : decide (InCirc L s.toNat (min n.toNat L) q) = true := by
      rw [decide_eq_true_eq]; unfold InCirc; omega
    rw [this, bitAt_replicate_zero]; simp
  · simp only [hfull, if_false]
    have hn : n.toNat < L := by
      have : ¬ (b.length.toNat ≤ n.toNat) := fun hle => hfull (BitVec.le_def.mpr hle)
      rw [h.len] at this; omega
    have hmin : min n.toNat L = n.toNat := by omega
    rw [hmin]
    have htake := firstTake_toNat b.length s n L h.len hL63 hs
    generalize firstTake b.length s n = take at htake ⊢
    have hbit := toNat_and63 s
    have hb64 : s.toNat % 64 < 64 := Nat.mod_lt _ (by decide)
    -- first chunk: flat positions [s, s + take)
    have hw1 : (s >>> 6).toNat < b.bits.size := by rw [toNat_shr6]; exact word_lt hgeo hs
    have hb1 : ∀ q, bitAt (b.bits.setIfInBounds (s >>> 6).toNat
          (wordAt b.bits (s >>> 6) &&& ~~~firstMask take (s &&& 63#64))) q =
        (bitAt b.bits q && !(decide (s.toNat ≤ q) && decide (q < s.toNat + take.toNat))) := by
      intro q
      unfold wordAt
      rw [bitAt_clearMask b.bits (s >>> 6).toNat (s.toNat % 64) (s.toNat % 64 + take.toNat) _ hw1 (by omega)
        (fun j hj => by rw [firstMask_spec _ _ (by omega) j hj, hbit])]
      rw [toNat_shr6]
      congr 2
      rw [Bool.eq_iff_iff]; simp only [Bool.and_eq_true, decide_eq_true_eq]; omega
    generalize hbits1 : b.bits.setIfInBounds (s >>> 6).toNat
          (wordAt b.bits (s >>> 6) &&& ~~~firstMask take (s &&& 63#64)) = bits1 at hb1 ⊢
    have hsz1 : bits1.size = b.bits.size := by rw [← hbits1]; simp
    have hpos1 : ((s + take) &&& b.lengthMask).toNat = (s.toNat + take.toNat) % L := by
      rw [h.mask]; congr 1; bv_omega
    have hr1 : (n - take).toNat = n.toNat - take.toNat := by bv_omega
    generalize (s + take) &&& b.lengthMask = pos1 at hpos1 ⊢
    generalize n - take = r1 at hr1 ⊢
    by_cases hr0 : r1.toNat = 0
    · -- everything fitted into the first chunk
      rw [clearWords_small _ _ _ _ (by omega)]
      simp only []
      have hl := fun q => lastPartial_spec bits1 pos1 r1 (by omega) (Or.inr hr0) (Or.inl hr0) q
      refine ⟨trivial, trivial, trivial, by rw [(hl 0).1, hsz1], ?_⟩
      intro q hq
      rw [(hl q).2, hb1 q, Bool.and_assoc]
      congr 1
      rw [Bool.eq_iff_iff]
      simp only [Bool.and_eq_true, Bool.not_eq_true', decide_eq_false_iff_not, Bool.and_eq_false_imp,
        decide_eq_true_eq]
      unfold InCirc
      omega
    · rcases hgeo.shape with ⟨hsmall, hW⟩ | hbig
      · -- L < 64: one word; the first chunk ran to the end of the ring, the rest starts at 0
        rw [clearWords_small _ _ _ _ (by omega)]
        simp only []
        have hp0 : pos1.toNat = 0 := by
          rw [hpos1]
          have : s.toNat + take.toNat = L := by omega
          rw [this, Nat.mod_self]
        have hl := fun q => lastPartial_spec bits1 pos1 r1 (by omega) (Or.inl (by omega))
          (Or.inr (by rw [hsz1, hW, hp0]; decide)) q
        refine ⟨trivial, trivial, trivial, by rw [(hl 0).1, hsz1], ?_⟩
        intro q hq
        rw [(hl q).2, hb1 q, Bool.and_assoc]
        congr 1
        rw [Bool.eq_iff_iff]
        simp only [Bool.and_eq_true, Bool.not_eq_true', decide_eq_false_iff_not, Bool.and_eq_false_imp,
          decide_eq_true_eq]
        unfold InCirc
        omega
      · -- L = 64·W: the first chunk ended on a word boundary (or at the end of the ring)
        have hc1 := mod_cases L (s.toNat + take.toNat) (by omega) (by omega)
        have hal1 : pos1.toNat % 64 = 0 := by
          rcases hc1 with ⟨_, e⟩ | ⟨_, e⟩ <;> omega
        have hlt1 : pos1.toNat < L := by rw [hpos1]; exact Nat.mod_lt _ (by omega)
        obtain ⟨bits2, pos2, r2, he, hsz2, hr2, hal2, hlt2, hpv2, hb2⟩ :=
          clearWords_spec L b.bits.size b.lengthMask hbig hL63 h.mask r1.toNat r1 bits1 pos1 rfl hsz1
            hal1 hlt1 (by omega)
        rw [he]
        simp only []
        have hc2 := mod_cases L (pos1.toNat + (r1.toNat - r1.toNat % 64)) (by omega) (by omega)
        have hl := fun q => lastPartial_spec bits2 pos2 r2 (by omega) (Or.inl hal2)
          (Or.inr (by rw [hsz2]; exact word_lt hgeo hlt2)) q
        refine ⟨trivial, trivial, trivial, by rw [(hl 0).1, hsz2], ?_⟩
        intro q hq
        rw [(hl q).2, hb2 q hq, hb1 q, Bool.and_assoc, Bool.and_assoc]
        congr 1
        rw [Bool.eq_iff_iff]
        simp only [Bool.and_eq_true, Bool.not_eq_true', decide_eq_false_iff_not, Bool.and_eq_false_imp,
          decide_eq_true_eq]
        unfold InCirc
        rw [hpv2, hr2]
        rw [hpos1] at hc2 hal1 hlt1 ⊢
        rcases hc1 with ⟨c1, e1⟩ | ⟨c1, e1⟩ <;> rcases hc2 with ⟨c2, e2⟩ | ⟨c2, e2⟩ <;>
          rw [e1] at e2 c2 hal1 ⊢ <;> rw [e2] <;> omega

end Nebula.Lemmas.Bits
