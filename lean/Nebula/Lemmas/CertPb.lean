/-
Round-trip lemmas for the protobuf wire subset of `Base/CertPb.lean`, through the shared lemmas of
`Lemmas/Wire.lean` (`consumeVarint_append`).
-/
import Nebula.Base.CertPb
import Nebula.Lemmas.Wire

namespace Nebula.Lemmas.CertPb
open Nebula.CertPb
open Nebula.Wire (consumeVarint_append appendVarint_length_pos)

theorem decVarint_enc (v : Nat) (rest : Bytes) : decVarint (encVarint v ++ rest) = some (v % 2 ^ 64, rest) := by
  unfold decVarint encVarint
  rw [consumeVarint_append _ _ (Nat.mod_lt _ (by decide))]
  simp

theorem encVarint_length_pos (v : Nat) : 1 ≤ (encVarint v).length := appendVarint_length_pos _

theorem decVarint_enc_lt (v : Nat) (rest : Bytes) (h : v < 2 ^ 64) : decVarint (encVarint v ++ rest) = some (v, rest) := by
  rw [decVarint_enc, Nat.mod_eq_of_lt h]

theorem decBytes_enc (b rest : Bytes) (h : b.length < 2 ^ 64) :
    decBytes (encVarint b.length ++ (b ++ rest)) = some (b, rest) := by
  unfold decBytes
  rw [decVarint_enc_lt _ _ h]
  simp

theorem decTag_enc (num wt : Nat) (rest : Bytes) (h1 : 1 ≤ num) (h2 : num ≤ 536870911) (hw : wt < 8) :
    decTag (encTag num wt ++ rest) = some (num, wt, rest) := by
  unfold decTag encTag
  rw [decVarint_enc_lt _ _ (by omega)]
  have a : (num * 8 + wt) / 8 = num := by omega
  have b : (num * 8 + wt) % 8 = wt := by omega
  simp only [a, b]
  simp
  omega

/-- a length-delimited field: tag, then the bytes. -/
theorem field_bytes (num : Nat) (b rest : Bytes) (h1 : 1 ≤ num) (h2 : num ≤ 536870911) (hb : b.length < 2 ^ 64) :
    decTag (encBytesField num b ++ rest) = some (num, 2, encVarint b.length ++ (b ++ rest)) ∧
    decBytes (encVarint b.length ++ (b ++ rest)) = some (b, rest) := by
  refine ⟨?_, decBytes_enc b rest hb⟩
  unfold encBytesField
  rw [List.append_assoc, List.append_assoc]
  exact decTag_enc num 2 _ h1 h2 (by decide)

theorem field_varint (num v : Nat) (rest : Bytes) (h1 : 1 ≤ num) (h2 : num ≤ 536870911) :
    decTag (encVarintField num v ++ rest) = some (num, 0, encVarint v ++ rest) ∧
    decVarint (encVarint v ++ rest) = some (v % 2 ^ 64, rest) := by
  refine ⟨?_, decVarint_enc v rest⟩
  unfold encVarintField
  rw [List.append_assoc]
  exact decTag_enc num 0 _ h1 h2 (by decide)

theorem encTag_length_pos (num wt : Nat) : 1 ≤ (encTag num wt).length := encVarint_length_pos _

/-- packed repeated varints read back (values are taken mod 2^64 by the encoder). -/
theorem decPacked_enc (vs : List Nat) (hv : ∀ v ∈ vs, v < 2 ^ 64) (fuel : Nat)
    (hf : (vs.flatMap encVarint).length ≤ fuel) : decPacked fuel (vs.flatMap encVarint) = some vs := by
  induction vs generalizing fuel with
  | nil => cases fuel <;> simp [decPacked]
  | cons v rest ih =>
    have hl := encVarint_length_pos v
    simp only [List.flatMap_cons, List.length_append] at hf
    cases fuel with
    | zero => omega
    | succ f =>
      simp only [List.flatMap_cons]
      unfold decPacked
      have hne : (encVarint v ++ rest.flatMap encVarint).isEmpty = false := by
        cases h : encVarint v with
        | nil => rw [h] at hl; simp at hl
        | cons a l => simp
      rw [hne]
      simp only [Bool.false_eq_true, if_false]
      rw [decVarint_enc_lt v _ (hv v (by simp))]
      simp only
      rw [ih (fun x hx => hv x (by simp [hx])) f (by omega)]
      simp

end Nebula.Lemmas.CertPb
