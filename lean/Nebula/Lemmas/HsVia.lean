/-
Lemmas about the extended handshake-manager model (Model/HsManagerVia.lean): one step seen from the main
hostmap, the invariant of C09 over extended histories, and the reduction to the base model for direct
packets from allowed underlay addresses.
-/
import Nebula.Model.HsManagerVia
import Nebula.Lemmas.HsManagerStep

namespace Nebula.Lemmas.HsManager
open Nebula.HsManager

/-- the completed Machine result an extended event carries, if any -/
def completionOfX : EvX → Option Completed
  | .base e => completionOf e
  | .stage1 _ _ (some c) _ _ => some c
  | .stage2 _ _ (.completed c) => some c
  | _ => none

inductive MainChangeX (cfg : Cfg) (m m' : HostMap) (e : EvX) : Prop
  | same (h : m' = m)
  | added (hi : HostInfo) (c : Completed) (hc : completionOfX e = some c) (ha : hi.vpnAddrs = c.certAddrs)
      (hself : c.certAddrs.any (fun a => cfg.myAddrs.contains a) = false) (h : m' = m.addHostInfo hi)
  | promoted (hi : HostInfo) (k : Nat) (hk : alookup k m.indexes = some hi) (h : m' = m.makePrimary hi)
  | deleted (hi : HostInfo) (h : m' = m.deleteHostInfo hi)
  | remoteSet (id : Nat) (u : UNode) (h : m' = m.setRemote id u)

/-! ### SetRemote on a tunnel inside the hostmap keeps every address-only invariant -/

def setRem (id : Nat) (u : UNode) (h : HostInfo) : HostInfo := if h.id == id then { h with remote := some u } else h

@[simp] theorem setRem_vpnAddrs (id : Nat) (u : UNode) (h : HostInfo) : (setRem id u h).vpnAddrs = h.vpnAddrs := by
  unfold setRem; split <;> rfl

theorem alookup_map {α β : Type} (f : α → β) (k : Nat) (l : List (Nat × α)) :
    alookup k (l.map (fun p => (p.1, f p.2))) = (alookup k l).map f := by
  induction l with
  | nil => rfl
  | cons x xs ih =>
    rw [List.map_cons, alookup_cons, alookup_cons, ih]
    split <;> rfl

theorem setRemote_hosts (m : HostMap) (id : Nat) (u : UNode) :
    (m.setRemote id u).hosts = m.hosts.map (fun p => (p.1, (fun l : List HostInfo => l.map (setRem id u)) p.2)) := rfl

theorem setRemote_indexes (m : HostMap) (id : Nat) (u : UNode) :
    (m.setRemote id u).indexes = m.indexes.map (fun p => (p.1, setRem id u p.2)) := rfl

theorem getList_setRemote (m : HostMap) (id : Nat) (u : UNode) (b : Addr) :
    (m.setRemote id u).getList b = (m.getList b).map (setRem id u) := by
  unfold HostMap.getList
  rw [setRemote_hosts, alookup_map]
  cases alookup b m.hosts <;> rfl

theorem indexes_setRemote (m : HostMap) (id : Nat) (u : UNode) (k : Nat) :
    alookup k (m.setRemote id u).indexes = (alookup k m.indexes).map (setRem id u) := by
  rw [setRemote_indexes, alookup_map]

theorem Good.setRemote {Q : HostInfo → Prop} {m : HostMap} (g : Good Q m) (id : Nat) (u : UNode)
    (hq : ∀ h, Q h → Q (setRem id u h)) : Good Q (m.setRemote id u) := by
  constructor
  · intro b h hm
    rw [getList_setRemote] at hm
    obtain ⟨h0, hm0, e⟩ := List.mem_map.mp hm
    subst e
    have := g.1 b h0 hm0
    exact ⟨by simpa using this.1, hq _ this.2⟩
  · intro k h hk
    rw [indexes_setRemote] at hk
    cases hl : alookup k m.indexes with
    | none => rw [hl] at hk; simp at hk
    | some h0 =>
      rw [hl] at hk
      simp only [Option.map_some, Option.some.injEq] at hk
      subst hk
      exact hq _ (g.2 k h0 hl)

/-! ### one extended step, seen from the main hostmap -/

theorem insertRelayTo_n (x : NodeX) (id : Nat) (r : Addr) : (x.insertRelayTo id r).n = x.n := by
  unfold NodeX.insertRelayTo; split <;> rfl

theorem sendResponse_n (x : NodeX) (via : Via) (h : Handle) (id : Nat) : (x.sendResponse via h id).1.n = x.n := by
  unfold NodeX.sendResponse
  cases via with
  | direct u => rfl
  | relayed r ru p => exact insertRelayTo_n x id r

theorem prepareResponderX_vpnAddrs (cfg : Cfg) (p : PSide) (via : Via) (pkt : Handle) (c : Completed) (v : Nat) :
    (p.prepareResponderX cfg via pkt c v).2.1.vpnAddrs = c.certAddrs := rfl

theorem beginHandshakeX_main (al : AllowList) (x : NodeX) (via : Via) (pkt : Handle) (res : Option Completed)
    (rv now : Nat) :
    (x.beginHandshake al via pkt res rv now).1.n.cfg = x.n.cfg ∧
    MainChangeX x.n.cfg x.n.main (x.beginHandshake al via pkt res rv now).1.n.main (.stage1 via pkt res rv now) := by
  unfold NodeX.beginHandshake
  split
  · exact ⟨rfl, .same rfl⟩
  · split
    · exact ⟨rfl, .same rfl⟩
    · rename_i c
      dsimp only
      split
      · exact ⟨rfl, .same rfl⟩
      · rename_i hok
        have hself : c.certAddrs.any (fun a => x.n.cfg.myAddrs.contains a) = false := by
          simp [peerCertOk] at hok
          simpa using hok.1.2
        generalize hprep : x.n.p.prepareResponderX x.n.cfg via pkt c rv = r
        obtain ⟨p, hi, rid⟩ := r
        have hva : hi.vpnAddrs = c.certAddrs := by
          have := prepareResponderX_vpnAddrs x.n.cfg x.n.p via pkt c rv
          rw [hprep] at this; exact this
        dsimp only
        split
        · rename_i ex _
          split
          · rw [sendResponse_n]
            dsimp only
            split
            · exact ⟨rfl, .remoteSet _ _ rfl⟩
            · exact ⟨rfl, .same rfl⟩
          · dsimp only
            split
            · exact ⟨rfl, .remoteSet _ _ rfl⟩
            · exact ⟨rfl, .same rfl⟩
        · exact ⟨rfl, .same rfl⟩
        · exact ⟨rfl, .same rfl⟩
        · rw [sendResponse_n]
          exact ⟨rfl, .added hi c rfl hva hself rfl⟩

theorem continueHandshakeX_main (al : AllowList) (x : NodeX) (via : Via) (idx : Nat) (res : S2Res) :
    (x.continueHandshake al via idx res).1.n.cfg = x.n.cfg ∧
    MainChangeX x.n.cfg x.n.main (x.continueHandshake al via idx res).1.n.main (.stage2 via idx res) := by
  cases via with
  | direct u =>
    unfold NodeX.continueHandshake
    dsimp only
    repeat' split
    all_goals first
      | exact ⟨rfl, .same rfl⟩
      | (rename_i c hself _; exact ⟨rfl, .added _ c rfl rfl (by simpa using hself) rfl⟩)
  | relayed r ru pa =>
    unfold NodeX.continueHandshake
    dsimp only
    split
    · exact ⟨rfl, .same rfl⟩
    split
    · exact ⟨rfl, .same rfl⟩
    split
    · exact ⟨rfl, .same rfl⟩
    split
    · exact ⟨rfl, .same rfl⟩
    split
    · split <;> exact ⟨rfl, .same rfl⟩
    rename_i c
    split
    · exact ⟨rfl, .same rfl⟩
    rename_i hself
    split
    · exact ⟨rfl, .same rfl⟩
    · refine ⟨rfl, .added _ c rfl rfl ?_ rfl⟩
      simpa using hself

theorem MainChange.toX {cfg : Cfg} {m m' : HostMap} {e : Ev} (h : MainChange cfg m m' e) :
    MainChangeX cfg m m' (.base e) := by
  rcases h with h | ⟨hi, c, hc, ha, hself, h⟩ | ⟨hi, k, hk, h⟩ | ⟨hi, h⟩
  · exact .same h
  · exact .added hi c hc ha hself h
  · exact .promoted hi k hk h
  · exact .deleted hi h

theorem MainChangeX.retag {cfg : Cfg} {m m' : HostMap} {e e' : EvX} (hc : completionOfX e = completionOfX e')
    (h : MainChangeX cfg m m' e) : MainChangeX cfg m m' e' := by
  rcases h with h | ⟨hi, c, hc', ha, hself, h⟩ | ⟨hi, k, hk, h⟩ | ⟨hi, h⟩ | ⟨id, u, h⟩
  · exact .same h
  · exact .added hi c (hc ▸ hc') ha hself h
  · exact .promoted hi k hk h
  · exact .deleted hi h
  · exact .remoteSet id u h

theorem stepX_main (al : AllowList) (x : NodeX) (e : EvX) :
    (x.step al e).1.n.cfg = x.n.cfg ∧ MainChangeX x.n.cfg x.n.main (x.step al e).1.n.main e := by
  cases e with
  | stage1 via pkt res rv now => exact beginHandshakeX_main al x via pkt res rv now
  | stage2 via idx res => exact continueHandshakeX_main al x via idx res
  | relayFor r peer =>
    simp only [NodeX.step]
    split <;> exact ⟨rfl, .same rfl⟩
  | base e =>
    cases e with
    | stage1 u pkt res rv now =>
      have := beginHandshakeX_main al x (.direct u) pkt res rv now
      exact ⟨this.1, this.2.retag (by cases res <;> rfl)⟩
    | stage2 u idx res =>
      have := continueHandshakeX_main al x (.direct u) idx res
      exact ⟨this.1, this.2.retag (by cases res <;> rfl)⟩
    | lh a u => exact ⟨(step_main x.n (.lh a u)).1, (step_main x.n (.lh a u)).2.toX⟩
    | hs a => exact ⟨(step_main x.n (.hs a)).1, (step_main x.n (.hs a)).2.toX⟩
    | rehs a => exact ⟨(step_main x.n (.rehs a)).1, (step_main x.n (.rehs a)).2.toX⟩
    | tick now => exact ⟨(step_main x.n (.tick now)).1, (step_main x.n (.tick now)).2.toX⟩
    | trig a now => exact ⟨(step_main x.n (.trig a now)).1, (step_main x.n (.trig a now)).2.toX⟩
    | send a q => exact ⟨(step_main x.n (.send a q)).1, (step_main x.n (.send a q)).2.toX⟩
    | idx v => exact ⟨(step_main x.n (.idx v)).1, (step_main x.n (.idx v)).2.toX⟩
    | del li => exact ⟨(step_main x.n (.del li)).1, (step_main x.n (.del li)).2.toX⟩
    | swap li => exact ⟨(step_main x.n (.swap li)).1, (step_main x.n (.swap li)).2.toX⟩
    | cmcheck li i o => exact ⟨(step_main x.n (.cmcheck li i o)).1, (step_main x.n (.cmcheck li i o)).2.toX⟩
    | block ids => exact ⟨(step_main x.n (.block ids)).1, (step_main x.n (.block ids)).2.toX⟩

/-- completed results carried by an extended history -/
def compsX (evs : List EvX) : List Completed := evs.filterMap completionOfX

theorem Certified.setRem {cfg : Cfg} {S : List Completed} (id : Nat) (u : UNode) {h : HostInfo}
    (hc : Certified cfg S h) : Certified cfg S (setRem id u h) := by
  unfold Certified at hc ⊢
  simpa using hc

theorem stepX_good (al : AllowList) (x : NodeX) (e : EvX) (S : List Completed) (g : Good (Certified x.n.cfg S) x.n.main) :
    Good (Certified x.n.cfg (S ++ (completionOfX e).toList)) (x.step al e).1.n.main := by
  have g' : Good (Certified x.n.cfg (S ++ (completionOfX e).toList)) x.n.main :=
    g.mono (fun h hc => hc.mono (fun c hm => List.mem_append_left _ hm))
  rcases (stepX_main al x e).2 with h | ⟨hi, c, hc, ha, hself, h⟩ | ⟨hi, k, hk, h⟩ | ⟨hi, h⟩ | ⟨id, u, h⟩
  · rw [h]; exact g'
  · rw [h]
    apply g'.add
    constructor
    · intro a hx hmy
      rw [ha] at hx
      have := List.any_eq_false.mp hself a hx
      simp at this
      exact this hmy
    · exact ⟨c, by simp [hc], ha⟩
  · rw [h]; exact g'.makePrimary (g'.2 k hi hk)
  · rw [h]; exact g'.delete hi
  · rw [h]; exact g'.setRemote id u (fun h hc => hc.setRem id u)

theorem runX_good (al : AllowList) (evs : List EvX) (x : NodeX) (S : List Completed) (g : Good (Certified x.n.cfg S) x.n.main) :
    (x.run al evs).n.cfg = x.n.cfg ∧ Good (Certified x.n.cfg (S ++ compsX evs)) (x.run al evs).n.main := by
  induction evs generalizing x S with
  | nil => simpa [NodeX.run, compsX] using g
  | cons e es ih =>
    have hcfg := (stepX_main al x e).1
    have g1 := stepX_good al x e S g
    rw [← hcfg] at g1
    have := ih (x.step al e).1 _ g1
    simp only [NodeX.run, List.foldl_cons] at this ⊢
    rw [hcfg] at this
    refine ⟨this.1, ?_⟩
    have e2 : S ++ compsX (e :: es) = S ++ (completionOfX e).toList ++ compsX es := by
      simp only [compsX, List.filterMap_cons]
      cases completionOfX e <;> simp
    rw [e2]; exact this.2

/-! ### frame facts used by the C09 step theorems -/

theorem drawX_frame (c : Cfg) (p : PSide) :
    (p.draw c).1.vpnIps = p.vpnIps ∧ (p.draw c).1.pindexes = p.pindexes ∧ (p.draw c).1.lh = p.lh ∧
    (p.draw c).1.wheel = p.wheel ∧ (p.draw c).1.nextObj = p.nextObj := by
  unfold PSide.draw; split <;> exact ⟨rfl, rfl, rfl, rfl, rfl⟩

theorem genIndexX_frame (c : Cfg) (f : Nat) (p : PSide) :
    (p.genIndex c f).1.vpnIps = p.vpnIps ∧ (p.genIndex c f).1.pindexes = p.pindexes ∧ (p.genIndex c f).1.lh = p.lh ∧
    (p.genIndex c f).1.wheel = p.wheel ∧ (p.genIndex c f).1.nextObj = p.nextObj := by
  induction f generalizing p with
  | zero => exact ⟨rfl, rfl, rfl, rfl, rfl⟩
  | succ f ih =>
    simp only [PSide.genIndex]
    have d := drawX_frame c p
    split
    · have := ih (p.draw c).1
      exact ⟨this.1.trans d.1, this.2.1.trans d.2.1, this.2.2.1.trans d.2.2.1, this.2.2.2.1.trans d.2.2.2.1,
        this.2.2.2.2.trans d.2.2.2.2⟩
    · exact d

/-- CheckAndComplete never looks at the recorded remote -/
theorem checkAndComplete_remote (main : HostMap) (pidx : List (Nat × Nat)) (hi : HostInfo) (r : Option UNode) :
    checkAndComplete main pidx { hi with remote := r } = checkAndComplete main pidx hi := rfl

/-- the responder's candidate tunnel for a relayed packet is the direct one without the remote; the pending side
differs only in the lighthouse cache (nothing learned) -/
theorem prepareResponderX_relayed (cfg : Cfg) (p : PSide) (u : UNode) (r : Addr) (ru : UNode) (pa : Addr) (pkt : Handle)
    (c : Completed) (v : Nat) :
    let d := p.prepareResponderX cfg (.direct u) pkt c v
    let y := p.prepareResponderX cfg (.relayed r ru pa) pkt c v
    y.2.1 = { d.2.1 with remote := none } ∧ y.2.2 = d.2.2 ∧ y.1.vpnIps = d.1.vpnIps ∧ y.1.pindexes = d.1.pindexes ∧
    y.1.nextObj = d.1.nextObj ∧ y.1.nextH = d.1.nextH ∧ y.1.idxQ = d.1.idxQ ∧ y.1.idxCtr = d.1.idxCtr ∧
    y.1.wheel = d.1.wheel ∧ d.2.1.remote = some u ∧ d.2.1.vpnAddrs = c.certAddrs := by
  exact ⟨rfl, rfl, rfl, rfl, rfl, rfl, rfl, rfl, rfl, rfl, rfl⟩

/-- prepareResponderX for a direct packet is the base model's prepareResponder -/
theorem prepareResponderX_direct (cfg : Cfg) (p : PSide) (u : UNode) (pkt : Handle) (c : Completed) (v : Nat) :
    p.prepareResponderX cfg (.direct u) pkt c v = p.prepareResponder cfg u pkt c v := rfl

theorem initiatorHostInfoX_direct (hh : Pending) (u : UNode) (c : Completed) :
    initiatorHostInfoX hh (.direct u) c = initiatorHostInfo hh u c := rfl

/-! ### relayed handshake messages: shape of one step -/

theorem insertRelayTo_relays (x x' : NodeX) (id : Nat) (r : Addr) (h : x'.relays = x.relays) :
    (x'.insertRelayTo id r).relays = (x.insertRelayTo id r).relays := by
  unfold NodeX.insertRelayTo NodeX.relaysOf
  rw [h]
  split <;> simp [h]

theorem startHandshake_lh_irrel (cfg : Cfg) (p p' : PSide) (a : Addr) (cb : Pending → Pending)
    (hv : p'.vpnIps = p.vpnIps) (hp : p'.pindexes = p.pindexes) (hn : p'.nextObj = p.nextObj) (hw : p'.wheel = p.wheel) :
    (p'.startHandshake cfg a cb).vpnIps = (p.startHandshake cfg a cb).vpnIps ∧
    (p'.startHandshake cfg a cb).pindexes = (p.startHandshake cfg a cb).pindexes ∧
    (p'.startHandshake cfg a cb).nextObj = (p.startHandshake cfg a cb).nextObj ∧
    (p'.startHandshake cfg a cb).wheel = (p.startHandshake cfg a cb).wheel := by
  unfold PSide.startHandshake PSide.setPending
  rw [hv]
  split <;> simp [hv, hp, hn, hw]

theorem mem_relaysOf_insertRelayTo (x : NodeX) (id : Nat) (r : Addr) : r ∈ (x.insertRelayTo id r).relaysOf id := by
  unfold NodeX.insertRelayTo
  split
  · rename_i h; simpa using h
  · simp [NodeX.relaysOf, alookup_ainsert]

theorem relayed_stage1_shape (al : AllowList) (x : NodeX) (r : Addr) (ru : UNode) (pa : Addr) (pkt : Handle)
    (res : Option Completed) (rv now : Nat) :
    let y := x.beginHandshake al (.relayed r ru pa) pkt res rv now
    -- nothing installed and nothing or the cached reply sent through the relay, or a tunnel WITHOUT a remote installed and
    -- its reply sent through the relay, which is recorded as a relay of that tunnel
    (y.1.n.main = x.n.main ∧ (y.2.tx = [] ∨ ∃ ex h, y.2.tx = [.hsVia h r ru] ∧ ex.pkt2 = some h ∧ r ∈ y.1.relaysOf ex.id ∧
        ∃ a, ex ∈ x.n.main.getList a)) ∨
    (∃ hi c, res = some c ∧ hi.vpnAddrs = c.certAddrs ∧ hi.remote = none ∧ y.1.n.main = x.n.main.addHostInfo hi ∧
        y.2.tx = [.hsVia (hi.pkt2.getD 0) r ru] ∧ r ∈ y.1.relaysOf hi.id) := by
  intro y
  have hy : y = x.beginHandshake al (.relayed r ru pa) pkt res rv now := rfl
  unfold NodeX.beginHandshake at hy
  simp only [Via.allowedUnknown, Via.allowedAll, Bool.not_true, Bool.false_eq_true, ↓reduceIte, Bool.or_false] at hy
  cases res with
  | none => rw [hy]; exact Or.inl ⟨rfl, Or.inl rfl⟩
  | some c =>
    dsimp only at hy
    cases hok : peerCertOk x.n.cfg c with
    | false =>
      simp only [hok, Bool.not_false, ↓reduceIte] at hy
      rw [hy]; exact Or.inl ⟨rfl, Or.inl rfl⟩
    | true =>
      simp only [hok, Bool.not_true, Bool.false_eq_true, ↓reduceIte] at hy
      generalize hprep : x.n.p.prepareResponderX x.n.cfg (.relayed r ru pa) pkt c rv = pr at hy
      obtain ⟨p, hi, rid⟩ := pr
      have hva : hi.vpnAddrs = c.certAddrs := by
        have := prepareResponderX_vpnAddrs x.n.cfg x.n.p (.relayed r ru pa) pkt c rv
        rw [hprep] at this; exact this
      have hrm : hi.remote = none := by
        have : (x.n.p.prepareResponderX x.n.cfg (.relayed r ru pa) pkt c rv).2.1.remote = none := rfl
        rw [hprep] at this; exact this
      dsimp only at hy
      cases hcac : checkAndComplete x.n.main p.pindexes hi with
      | none =>
        rw [hcac] at hy
        dsimp only [NodeX.sendResponse] at hy
        rw [hy]
        exact Or.inr ⟨hi, c, rfl, hva, hrm, by simp [insertRelayTo_n], rfl, mem_relaysOf_insertRelayTo _ _ _⟩
      | some e =>
        rw [hcac] at hy
        cases e with
        | alreadySeen ex =>
          dsimp only at hy
          have hex : ∃ a, ex ∈ x.n.main.getList a := by
            unfold checkAndComplete at hcac
            dsimp only at hcac
            split at hcac
            · rename_i e he
              split at he
              · split at he
                · rename_i t ht
                  simp only [Option.some.injEq] at he
                  subst he
                  simp only [Option.some.injEq, CacErr.alreadySeen.injEq] at hcac
                  subst hcac
                  exact ⟨_, List.mem_of_find?_eq_some ht⟩
                · split at he
                  · simp only [Option.some.injEq] at he; subst he; simp at hcac
                  · simp at he
              · simp at he
            · split at hcac
              · simp at hcac
              · split at hcac <;> simp at hcac
          cases hp2 : ex.pkt2 with
          | none => rw [hp2] at hy; rw [hy]; exact Or.inl ⟨rfl, Or.inl rfl⟩
          | some q =>
            rw [hp2] at hy
            dsimp only [NodeX.sendResponse] at hy
            rw [hy]
            exact Or.inl ⟨by simp [insertRelayTo_n], Or.inr ⟨ex, q, rfl, hp2, mem_relaysOf_insertRelayTo _ _ _, hex⟩⟩
        | existing ex => rw [hy]; exact Or.inl ⟨rfl, Or.inl rfl⟩
        | collision => rw [hy]; exact Or.inl ⟨rfl, Or.inl rfl⟩

theorem relayed_stage2_shape (al : AllowList) (x : NodeX) (r : Addr) (ru : UNode) (pa : Addr) (idx : Nat) (res : S2Res) :
    let y := x.continueHandshake al (.relayed r ru pa) idx res
    (y.1.n.main = x.n.main ∨
      ∃ hh c, res = .completed c ∧ (alookup idx x.n.p.pindexes).bind x.n.p.pendingById = some hh ∧
        y.1.n.main = x.n.main.addHostInfo (initiatorHostInfoX hh (.relayed r ru pa) c) ∧
        (initiatorHostInfoX hh (.relayed r ru pa) c).remote = none ∧
        (initiatorHostInfoX hh (.relayed r ru pa) c).vpnAddrs = c.certAddrs ∧ r ∈ y.1.relaysOf hh.id) ∧
    ∀ t ∈ y.2.tx, (∃ len r' ru', t = .msgVia len r' ru') ∨ (∃ r' ru', t = .closeVia r' ru') := by
  intro y
  have hy : y = x.continueHandshake al (.relayed r ru pa) idx res := rfl
  unfold NodeX.continueHandshake at hy
  dsimp only at hy
  simp only [Via.allowedUnknown, Via.allowedAll, Bool.not_true, Bool.false_eq_true, ↓reduceIte] at hy
  cases hl : (alookup idx x.n.p.pindexes).bind x.n.p.pendingById with
  | none => rw [hl] at hy; rw [hy]; exact ⟨Or.inl rfl, by simp⟩
  | some hh =>
    rw [hl] at hy
    dsimp only at hy
    cases hr : hh.ready with
    | false => simp only [hr, Bool.not_false, ↓reduceIte] at hy; rw [hy]; exact ⟨Or.inl rfl, by simp⟩
    | true =>
      simp only [hr, Bool.not_true, Bool.false_eq_true, ↓reduceIte] at hy
      cases res with
      | err failed => cases failed <;> simp only [Bool.false_eq_true, ↓reduceIte] at hy <;> rw [hy] <;> exact ⟨Or.inl rfl, by simp⟩
      | completed c =>
        dsimp only at hy
        cases hs : (c.certAddrs.any fun a => x.n.cfg.myAddrs.contains a) with
        | true => simp only [hs, ↓reduceIte] at hy; rw [hy]; exact ⟨Or.inl (by simp [insertRelayTo_n]), by simp⟩
        | false =>
          cases hw : c.certAddrs.contains hh.vpnAddr with
          | false =>
            simp only [hs, hw, Bool.false_eq_true, ↓reduceIte, Bool.not_false] at hy
            rw [hy]
            refine ⟨Or.inl (by simp [insertRelayTo_n]), ?_⟩
            intro t ht
            dsimp only at ht
            split at ht
            · simp only [List.mem_singleton] at ht; exact Or.inr ⟨_, _, ht⟩
            · simp at ht
          | true =>
            simp only [hs, hw, Bool.false_eq_true, ↓reduceIte, Bool.not_true] at hy
            rw [hy]
            refine ⟨Or.inr ⟨hh, c, rfl, rfl, by simp [insertRelayTo_n], rfl, rfl, ?_⟩, ?_⟩
            · exact mem_relaysOf_insertRelayTo _ _ _
            · intro t ht
              dsimp only at ht
              split at ht
              · simp only [List.mem_map] at ht
                obtain ⟨q, _, e⟩ := ht
                exact Or.inl ⟨_, _, _, e.symm⟩
              · simp at ht


end Nebula.Lemmas.HsManager
