/-
Normal form of the segments produced by the segmenter (C24):

  segment i  =  (IP writes on the first `csumStart` bytes of the saved header)
             ++ ((L4 writes on the saved L4 header) ++ payload_i)

together with the list lemmas (reads through `++`, `set8`, `set16`) needed to read fields back.
-/
import Nebula.Lemmas.SegmentRun

namespace Nebula.Lemmas.SegmentNF
open Nebula.Csum Nebula.Segment Nebula.Gen Nebula.Lemmas.Segment Nebula.Lemmas.SegmentList

/-! ### more list lemmas -/

theorem getD_append_left' (a b : List UInt8) (i : Nat) (h : i < a.length) :
    (a ++ b).getD i 0 = a.getD i 0 := by
  simp only [List.getD_eq_getElem?_getD]; rw [List.getElem?_append_left h]

theorem getD_append_right' (a b : List UInt8) (k : Nat) :
    (a ++ b).getD (a.length + k) 0 = b.getD k 0 := by
  simp only [List.getD_eq_getElem?_getD]
  rw [List.getElem?_append_right (by omega)]
  congr 2; omega

theorem be16_append_right (a b : List UInt8) (k : Nat) : be16 (a ++ b) (a.length + k) = be16 b k := by
  unfold be16
  rw [getD_append_right', Nat.add_assoc, getD_append_right']

theorem getD_set8 (b : List UInt8) (off v i : Nat) (h : off + 1 ≤ b.length) :
    (set8 b off v).getD i 0 = if i = off then UInt8.ofNat v else b.getD i 0 := by
  have hl : (b.take off).length = off := by simp; omega
  unfold set8
  simp only [List.getD_eq_getElem?_getD, List.getElem?_append, List.length_append, hl, List.length_singleton]
  by_cases h1 : i < off
  · have : i < off + 1 := by omega
    have : i ≠ off := by omega
    have hb : i < b.length := by omega
    simp [*, List.getElem?_eq_getElem hb]
  · by_cases h2 : i = off
    · subst h2; simp
    · have : ¬ i < off + 1 := by omega
      simp only [*, if_false]
      rw [List.getElem?_drop]
      congr 2; omega

theorem be16_set8_other (b : List UInt8) (off v off' : Nat) (h : off + 1 ≤ b.length)
    (hd : off' + 2 ≤ off ∨ off + 1 ≤ off') : be16 (set8 b off v) off' = be16 b off' := by
  unfold be16
  rw [getD_set8 _ _ _ _ h, getD_set8 _ _ _ _ h]
  have : off' ≠ off := by omega
  have : off' + 1 ≠ off := by omega
  simp [*]

theorem be16_drop (b : List UInt8) (n off : Nat) : be16 (b.drop n) off = be16 b (n + off) := by
  unfold be16
  simp only [List.getD_eq_getElem?_getD, List.getElem?_drop, Nat.add_assoc]

theorem getD_take (b : List UInt8) (n i : Nat) (h : i < n) : (b.take n).getD i 0 = b.getD i 0 := by
  simp only [List.getD_eq_getElem?_getD, List.getElem?_take, h, if_true]

theorem getD_drop (b : List UInt8) (n i : Nat) : (b.drop n).getD i 0 = b.getD (n + i) 0 := by
  simp only [List.getD_eq_getElem?_getD, List.getElem?_drop]

/-- a single-byte write at an odd offset is a 16-bit write of (old high byte, new low byte). -/
theorem set8_as_set16 (b : List UInt8) (off v : Nat) (h : off + 2 ≤ b.length) (hv : v < 256) :
    set8 b (off + 1) v = set16 b off ((b.getD off 0).toNat * 256 + v) := by
  unfold set8 set16 put16
  have hx := (b.getD off 0).toNat_lt
  have e1 : ((b.getD off 0).toNat * 256 + v) / 256 % 256 = (b.getD off 0).toNat := by omega
  have e2 : ((b.getD off 0).toNat * 256 + v) % 256 = v := by omega
  rw [e1, e2]
  have e3 : b.take (off + 1) = b.take off ++ [b.getD off 0] := by
    rw [List.take_add_one]
    congr 1
    have : off < b.length := by omega
    simp [List.getD_eq_getElem?_getD, List.getElem?_eq_getElem this]
  rw [e3]
  simp [List.append_assoc]

/-! ### TCP -/

/-- the four L4 writes of one TCP segment, on the saved TCP header `T` (offsets relative to `csum_start`). -/
def tcpL4 (T : List UInt8) (seq fl tck : Nat) : List UInt8 := set16 (set8 (set32 T 4 seq) 13 fl) 16 tck

/-- the TCP checksum value written into segment `i` with payload `P`. -/
def tcpCk (c : TcpCtx) (P : List UInt8) (i : Nat) : Nat :=
  let wide := c.baseTcp + checksum P 0 + c.baseProto + (c.origSeq + (i * c.g) % 4294967296) % 4294967296
    + segFlags c.origFlags i c.numSeg + (c.tcpHdrLen + P.length)
  let wide := wide % 4294967296 + wide / 4294967296
  let wide := wide % 4294967296 + wide / 4294967296
  foldComplement (wide % 4294967296)

theorem tcpL4_length (T : List UInt8) (seq fl tck : Nat) (h : 18 ≤ T.length) :
    (tcpL4 T seq fl tck).length = T.length := by
  unfold tcpL4
  have l1 := set32_length T 4 seq (by omega)
  have l2 := set8_length (set32 T 4 seq) 13 fl (by omega)
  rw [set16_length _ _ _ (by omega), l2, l1]

/-- **Normal form (TCP).** -/
theorem tcpSeg_nf (c : TcpCtx) (pkt : List UInt8) (i : Nat) (hlen : c.saved.length = c.hdrLen)
    (h12 : 12 ≤ c.csumStart) (hcs : c.csumStart + 18 ≤ c.hdrLen) :
    tcpSeg c pkt i =
      patchIP (c.saved.take c.csumStart) c.isV4 c.hdrLen (segPayload pkt c.hdrLen c.g i).length c.origID c.baseIP i ++
      (tcpL4 (c.saved.drop c.csumStart) ((c.origSeq + (i * c.g) % 4294967296) % 4294967296)
          (segFlags c.origFlags i c.numSeg) (tcpCk c (segPayload pkt c.hdrLen c.g i) i)
        ++ segPayload pkt c.hdrLen c.g i) := by
  unfold tcpSeg tcpCk tcpL4
  simp only [virtio_tcpSeqOff, virtio_tcpFlagsOff, virtio_tcpChecksumOff]
  generalize segPayload pkt c.hdrLen c.g i = P
  generalize foldComplement _ = tck
  have hX : (c.saved.take c.csumStart).length = c.csumStart := by simp; omega
  have hT : (c.saved.drop c.csumStart).length = c.hdrLen - c.csumStart := by simp; omega
  have hsplit : c.saved ++ P = c.saved.take c.csumStart ++ (c.saved.drop c.csumStart ++ P) := by
    rw [← List.append_assoc, List.take_append_drop]
  rw [hsplit, patchIP_left _ _ _ _ _ _ _ _ (by omega)]
  have lx := patchIP_length (c.saved.take c.csumStart) c.isV4 c.hdrLen P.length c.origID c.baseIP i (by omega)
  generalize patchIP (c.saved.take c.csumStart) c.isV4 c.hdrLen P.length c.origID c.baseIP i = x at lx ⊢
  generalize c.saved.drop c.csumStart = T at hT ⊢
  have e4 : c.csumStart + 4 = x.length + 4 := by omega
  have e13 : c.csumStart + 13 = x.length + 13 := by omega
  have e16 : c.csumStart + 16 = x.length + 16 := by omega
  rw [e4, e13, e16]
  rw [set32_mid x T P 4 _ (by omega)]
  have l1 := set32_length T 4 ((c.origSeq + i * c.g % 4294967296) % 4294967296) (by omega)
  rw [set8_mid x _ P 13 _ (by omega)]
  have l2 := set8_length (set32 T 4 ((c.origSeq + i * c.g % 4294967296) % 4294967296)) 13
    (segFlags c.origFlags i c.numSeg) (by omega)
  rw [set16_mid x _ P 16 _ (by omega)]

/-! ### UDP -/

/-- length write and checksum zeroing on the saved UDP header. -/
def udpL4pre (U : List UInt8) (ulen : Nat) : List UInt8 := set16 (set16 U 4 ulen) 6 0

/-- the UDP checksum value computed over the zeroed-checksum datagram `D`, with the RFC 768 zero rule. -/
def udpCsum (baseProto udpLen : Nat) (D : List UInt8) : Nat :=
  let pseudo := fold2 ((baseProto + udpLen % 4294967296) % 4294967296)
  let csum := compl16 (checksum D (pseudo % 65536))
  if csum = 0 then 0xffff else csum

theorem udp_nf_core (x U P : List UInt8) (ulen : Nat) (F : List UInt8 → Nat) (hU : U.length = 8) :
    set16 (set16 (set16 (x ++ (U ++ P)) (x.length + 4) ulen) (x.length + 6) 0) (x.length + 6)
        (F ((set16 (set16 (x ++ (U ++ P)) (x.length + 4) ulen) (x.length + 6) 0).drop x.length))
      = x ++ (set16 (udpL4pre U ulen) 6 (F (udpL4pre U ulen ++ P)) ++ P) := by
  have l1 := set16_length U 4 ulen (by omega)
  have hS : set16 (set16 (x ++ (U ++ P)) (x.length + 4) ulen) (x.length + 6) 0
      = x ++ (udpL4pre U ulen ++ P) := by
    unfold udpL4pre
    rw [set16_mid x U P 4 _ (by omega), set16_mid x _ P 6 _ (by omega)]
  rw [hS, List.drop_left]
  have l2 : (udpL4pre U ulen).length = 8 := by
    unfold udpL4pre; rw [set16_length _ _ _ (by omega), l1, hU]
  rw [set16_mid x _ P 6 _ (by omega)]

/-- **Normal form (UDP).** -/
theorem udpSeg_nf (c : UdpCtx) (pkt : List UInt8) (i : Nat) (hlen : c.saved.length = c.hdrLen)
    (h12 : 12 ≤ c.csumStart) (hcs : c.csumStart + 8 = c.hdrLen) :
    udpSeg c pkt i =
      patchIP (c.saved.take c.csumStart) c.isV4 c.hdrLen (segPayload pkt c.hdrLen c.g i).length c.origID c.baseIP i ++
      (set16 (udpL4pre (c.saved.drop c.csumStart) ((8 + (segPayload pkt c.hdrLen c.g i).length) % 65536)) 6
          (udpCsum c.baseProto (8 + (segPayload pkt c.hdrLen c.g i).length)
            (udpL4pre (c.saved.drop c.csumStart) ((8 + (segPayload pkt c.hdrLen c.g i).length) % 65536)
              ++ segPayload pkt c.hdrLen c.g i))
        ++ segPayload pkt c.hdrLen c.g i) := by
  unfold udpSeg
  simp only [virtio_udpLengthOff, virtio_udpChecksumOff, virtio_udpHeaderLen]
  generalize segPayload pkt c.hdrLen c.g i = P
  have hX : (c.saved.take c.csumStart).length = c.csumStart := by simp; omega
  have hT : (c.saved.drop c.csumStart).length = 8 := by simp; omega
  have hsplit : c.saved ++ P = c.saved.take c.csumStart ++ (c.saved.drop c.csumStart ++ P) := by
    rw [← List.append_assoc, List.take_append_drop]
  rw [hsplit, patchIP_left _ _ _ _ _ _ _ _ (by omega)]
  have lx := patchIP_length (c.saved.take c.csumStart) c.isV4 c.hdrLen P.length c.origID c.baseIP i (by omega)
  generalize patchIP (c.saved.take c.csumStart) c.isV4 c.hdrLen P.length c.origID c.baseIP i = x at lx ⊢
  generalize c.saved.drop c.csumStart = U at hT ⊢
  have lx' : x.length = c.csumStart := by omega
  have := udp_nf_core x U P ((8 + P.length) % 65536) (udpCsum c.baseProto (8 + P.length)) hT
  rw [lx'] at this
  exact this

end Nebula.Lemmas.SegmentNF
