/-
C23, ordering clause: within a lane, the packets of one flow that are not pure TCP ACKs are emitted in
the order in which they were committed.
-/
import Nebula.Lemmas.CoalesceFlow

namespace Nebula.Lemmas.Coalesce
open Nebula.Coalesce Nebula.Gen
open Nebula.Spec
open Nebula.Spec.KernelGSO (flowOf pureAck Flow ppConsistent)

/-- Ordering invariant of a lane: an open slot of flow key `k` is never followed by a (non-pure-ACK)
packet of `k`'s flow in a later slot — so appending to the open slot keeps the flow in order. -/
structure OrdInv (tcp : Bool) (c : Lane) : Prop where
  wf : ∀ k i, omLookup c.openSlots k = some i → WFKey k
  later : ∀ k i, omLookup c.openSlots k = some i → ∀ (j : Nat) (sj : Slot) (q : Bytes), i < j →
    c.slots[j]? = some sj → q ∈ sj.ghost → qf (keyFlow tcp k) q = false

theorem ordInv_init (tcp : Bool) : OrdInv tcp {} := by
  constructor <;> intro k i h <;> simp [omLookup] at h

theorem qf_other {tcp : Bool} {pkt : Bytes} {fk k : FlowKey} (hfl : flowOf pkt = some (keyFlow tcp fk))
    (hwf : WFKey fk) (hwk : WFKey k) (hne : k ≠ fk) : qf (keyFlow tcp k) pkt = false := by
  unfold qf
  rw [hfl]
  have : (some (keyFlow tcp fk) == some (keyFlow tcp k)) = false := by
    apply beq_false_of_ne
    intro e
    exact hne (keyFlow_inj hwk hwf (Option.some.inj e).symm)
  simp [this]

/-- one new single-packet slot at the end; the surviving registrations are old ones for other keys, or
the new slot itself -/
theorem ord_newSlot {tcp : Bool} {c c' : Lane} {s : Slot} {pkt : Bytes} {fk : FlowKey}
    (hO : OrdInv tcp c)
    (hslots : c'.slots = c.slots ++ [s]) (hg : s.ghost = [pkt])
    (hfl : flowOf pkt = some (keyFlow tcp fk)) (hwf : WFKey fk)
    (hent : ∀ k i, omLookup c'.openSlots k = some i →
      (k ≠ fk ∧ omLookup c.openSlots k = some i) ∨ (k = fk ∧ i = c.slots.length)) :
    OrdInv tcp c' := by
  constructor
  · intro k i hk
    rcases hent k i hk with ⟨_, h⟩ | ⟨h, _⟩
    · exact hO.wf k i h
    · rw [h]; exact hwf
  · intro k i hk j sj q hij hsj hq
    rw [hslots] at hsj
    rcases hent k i hk with ⟨hne, h⟩ | ⟨_, hi⟩
    · rcases getElem?_append_singleton hsj with hold | ⟨_, hs⟩
      · exact hO.later k i h j sj q hij hold hq
      · subst hs
        rw [hg] at hq
        simp only [List.mem_singleton] at hq
        subst hq
        exact qf_other hfl hwf (hO.wf k i h) hne
    · have := getElem?_lt hsj
      simp at this; omega

/-- a new single-packet slot at the end whose packet belongs to no flow's ordered part (pure ACK) -/
theorem ord_newSlot_free {tcp : Bool} {c c' : Lane} {s : Slot} {pkt : Bytes}
    (hO : OrdInv tcp c) (hslots : c'.slots = c.slots ++ [s]) (hopen : c'.openSlots = c.openSlots)
    (hg : s.ghost = [pkt]) (hfree : ∀ f, qf f pkt = false) :
    OrdInv tcp c' := by
  constructor
  · intro k i hk; rw [hopen] at hk; exact hO.wf k i hk
  · intro k i hk j sj q hij hsj hq
    rw [hopen] at hk
    rw [hslots] at hsj
    rcases getElem?_append_singleton hsj with hold | ⟨_, hs⟩
    · exact hO.later k i hk j sj q hij hold hq
    · subst hs
      rw [hg] at hq
      simp only [List.mem_singleton] at hq
      subst hq
      exact hfree _

theorem ord_barrier {tcp : Bool} (c : Lane) (pkt : Bytes) : OrdInv tcp (c.sealAllOpen.addVerbatim pkt) := by
  constructor <;> intro k i h <;> simp [Lane.sealAllOpen, omLookup] at h

theorem omLookup_sealFlow {c : Lane} {fk k : FlowKey} {i : Nat}
    (h : omLookup (c.sealFlow fk).openSlots k = some i) : k ≠ fk ∧ omLookup c.openSlots k = some i := by
  unfold Lane.sealFlow at h
  by_cases h0 : c.openSlots.length = 0
  · have hnil : c.openSlots = [] := List.eq_nil_of_length_eq_zero h0
    rw [if_pos h0, hnil] at h
    simp [omLookup] at h
  · simp only [h0, ↓reduceIte, omLookup_erase] at h
    by_cases hk : k = fk
    · simp [hk] at h
    · simp only [hk, ↓reduceIte] at h
      exact ⟨hk, h⟩

theorem slots_sealFlow (c : Lane) (fk : FlowKey) : (c.sealFlow fk).slots = c.slots := by
  unfold Lane.sealFlow; split <;> rfl

/-- filtering the lane's packets after one slot got one more packet -/
theorem filter_set {P : Bytes → Bool} {l : List Slot} {i : Nat} {s s' : Slot} {pkt : Bytes}
    (h : l[i]? = some s) (hg : s'.ghost = s.ghost ++ [pkt])
    (hP : P pkt = true → ∀ (j : Nat) (sj : Slot) (q : Bytes), i < j → l[j]? = some sj → q ∈ sj.ghost → P q = false) :
    ((l.set i s').flatMap (·.ghost)).filter P = (l.flatMap (·.ghost)).filter P ++ [pkt].filter P := by
  induction l generalizing i with
  | nil => simp at h
  | cons a t ih =>
    cases i with
    | zero =>
      simp only [List.getElem?_cons_zero, Option.some.injEq] at h
      subst h
      simp only [List.set_cons_zero, List.flatMap_cons, hg, List.filter_append, List.append_assoc]
      congr 1
      cases hp : P pkt with
      | false => simp [List.filter, hp]
      | true =>
        have hnone : (t.flatMap (·.ghost)).filter P = [] := by
          rw [List.filter_eq_nil_iff]
          intro q hq
          obtain ⟨sj, hsj, hqs⟩ := List.mem_flatMap.mp hq
          obtain ⟨j, hj⟩ := List.getElem?_of_mem hsj
          have := hP hp (j + 1) sj q (by omega) (by simpa using hj) hqs
          simp [this]
        rw [hnone]; simp
    | succ j =>
      simp only [List.getElem?_cons_succ] at h
      simp only [List.set_cons_succ, List.flatMap_cons, List.filter_append, List.append_assoc]
      congr 1
      apply ih h
      intro hp j' sj q hj hsj hq
      exact hP hp (j' + 1) sj q (by omega) (by simpa using hsj) hq

theorem sealVerbatim_ord {tcp : Bool} {c : Lane} {pkt : Bytes} {fk : FlowKey} (hO : OrdInv tcp c)
    (hfl : flowOf pkt = some (keyFlow tcp fk)) (hwf : WFKey fk) :
    OrdInv tcp ((c.sealFlow fk).addVerbatim pkt) := by
  apply ord_newSlot (c := c)
    (s := { (c.sealFlow fk).take.1 with verbatim := true, rawPkt := pkt, ghost := [pkt] }) hO _ rfl hfl hwf
  · intro k i hk
    rw [addVerbatim_openSlots] at hk
    exact Or.inl (omLookup_sealFlow hk)
  · simp [slots_sealFlow]

theorem seed_ord {tcp : Bool} {c : Lane} {pkt : Bytes} {info : Parsed} (hO : OrdInv tcp c)
    (hfl : flowOf pkt = some (keyFlow tcp info.fk)) (hwf : WFKey info.fk) :
    OrdInv tcp (c.seed tcp pkt info) := by
  rw [seed_eq]
  by_cases hbig : info.hdrLen + info.payLen > 65535
  · rw [if_pos hbig]; exact sealVerbatim_ord hO hfl hwf
  · rw [if_neg hbig]
    unfold Lane.seedTaken
    simp only [seedSlotFrom_eq, take_slots, take_openSlots]
    by_cases hp : tcp = true ∧ hasPsh info.flags = true
    · rw [if_pos hp]
      apply ord_newSlot (c := c) (s := seedSlot tcp pkt info) hO _ rfl hfl hwf
      · intro k i hk
        have := omLookup_sealFlow hk
        exact Or.inl this
      · rw [slots_sealFlow]
    · rw [if_neg hp]
      apply ord_newSlot (c := c) (s := seedSlot tcp pkt info) hO _ rfl hfl hwf
      · intro k i hk
        simp only [omLookup_insert] at hk
        by_cases hkf : k = info.fk
        · simp only [hkf, ↓reduceIte, Option.some.injEq] at hk
          exact Or.inr ⟨hkf, hk.symm⟩
        · simp only [hkf, ↓reduceIte] at hk
          exact Or.inl ⟨hkf, hk⟩
      · rfl

theorem filter_lanePkts_append (f : Flow) (c c' : Lane) (pkt : Bytes) (h : lanePkts c' = lanePkts c ++ [pkt]) :
    (lanePkts c').filter (qf f) = (lanePkts c).filter (qf f) ++ [pkt].filter (qf f) := by
  rw [h, List.filter_append]

theorem qf_pureAck {pkt : Bytes} (h : pureAck pkt = true) (f : Flow) : qf f pkt = false := by
  simp [qf, h]

theorem commitParsed_ord {tcp : Bool} {c : Lane} {pkt : Bytes} {iphl : Nat} {info : Parsed}
    (hI : LaneInv tcp none c) (hO : OrdInv tcp c)
    (hparse : parseAt tcp pkt iphl = some info)
    (hproto : byteAt pkt (if info.fk.isV6 then 6 else 9) = if tcp then 6 else 17) :
    OrdInv tcp (c.commitParsed tcp pkt info) ∧
      ∀ f, (lanePkts (c.commitParsed tcp pkt info)).filter (qf f) =
        (lanePkts c).filter (qf f) ++ [pkt].filter (qf f) := by
  have hfl := flowOf_parsed hparse hproto
  have hwf := wfKey_of_parse hparse
  unfold Lane.commitParsed
  by_cases hadm : tcp = true ∧ ((!hasAck info.flags) = true ∨ hasOther info.flags = true)
  · rw [if_pos hadm]
    exact ⟨sealVerbatim_ord hO hfl hwf, fun f => filter_lanePkts_append f _ _ _
      (by rw [lanePkts_addVerbatim, lanePkts_sealFlow])⟩
  · rw [if_neg hadm]
    by_cases hz : info.payLen = 0
    · rw [if_pos hz]
      cases tcp with
      | true =>
        simp only [↓reduceIte]
        have hpa : pureAck pkt = true := by
          have ha : hasAck info.flags = true := by
            cases h : hasAck info.flags with
            | true => rfl
            | false => exact absurd (And.intro rfl (Or.inl (by simp [h]))) hadm
          have ho : hasOther info.flags = false := by
            cases h : hasOther info.flags with
            | false => rfl
            | true => exact absurd (And.intro rfl (Or.inr h)) hadm
          exact pureAck_parsed hparse (by simpa using hproto) hz ha ho
        exact ⟨ord_newSlot_free hO (addVerbatim_slots c pkt) (addVerbatim_openSlots c pkt) rfl (qf_pureAck hpa),
          fun f => filter_lanePkts_append f _ _ _ (lanePkts_addVerbatim _ _)⟩
      | false =>
        simp only [Bool.false_eq_true, ↓reduceIte]
        exact ⟨sealVerbatim_ord hO hfl hwf, fun f => filter_lanePkts_append f _ _ _
          (by rw [lanePkts_addVerbatim, lanePkts_sealFlow])⟩
    · rw [if_neg hz]
      simp only
      split
      · rename_i i ho
        obtain ⟨s, hs, hfk, hl, hopen⟩ := open_lookup hI info.fk i ho
        rw [hs]
        simp only
        by_cases hca : canAppend tcp s pkt info = true
        · rw [if_pos hca]
          -- the lane with slot `i` extended by `pkt`
          have hord : OrdInv tcp { c with slots := c.slots.set i (appendPayload tcp s pkt info).1 } := by
            constructor
            · exact hO.wf
            · intro k i2 hk j sj q hij hsj hq
              simp only at hk hsj
              by_cases hji : i = j
              · subst hji
                have hi := getElem?_lt hs
                simp only [List.getElem?_set, hi, ↓reduceIte, Option.some.injEq] at hsj
                subst hsj
                simp only [appendPayload, List.mem_append, List.mem_singleton] at hq
                have hkne : k ≠ info.fk := by
                  intro e; subst e; rw [hl] at hk; have := Option.some.inj hk; omega
                rcases hq with hq | hq
                · exact hO.later k i2 hk i s q hij hs hq
                · subst hq; exact qf_other hfl hwf (hO.wf k i2 hk) hkne
              · simp only [List.getElem?_set, hji, ↓reduceIte] at hsj
                exact hO.later k i2 hk j sj q hij hsj hq
          have hfilt : ∀ f, (lanePkts { c with slots := c.slots.set i (appendPayload tcp s pkt info).1 }).filter (qf f) =
              (lanePkts c).filter (qf f) ++ [pkt].filter (qf f) := by
            intro f
            apply filter_set hs rfl
            intro hq j sj q hij hsj hqm
            have hf : f = keyFlow tcp info.fk := by
              simp only [qf, Bool.and_eq_true, beq_iff_eq] at hq
              rw [hfl] at hq
              exact (Option.some.inj hq.1).symm
            rw [hf]
            exact hO.later info.fk i hl j sj q hij hsj hqm
          cases hcl : (appendPayload tcp s pkt info).2 with
          | true =>
            simp only [↓reduceIte]
            refine ⟨?_, fun f => by rw [lanePkts_sealFlow]; exact hfilt f⟩
            constructor
            · intro k i2 hk; exact hord.wf k i2 (omLookup_sealFlow hk).2
            · intro k i2 hk j sj q hij hsj hq
              rw [slots_sealFlow] at hsj
              exact hord.later k i2 (omLookup_sealFlow hk).2 j sj q hij hsj hq
          | false =>
            simp only [Bool.false_eq_true, ↓reduceIte]
            exact ⟨⟨hord.wf, hord.later⟩, hfilt⟩
        · rw [if_neg hca]
          have hO1 : OrdInv tcp (c.sealFlow info.fk) := by
            constructor
            · intro k i2 hk; exact hO.wf k i2 (omLookup_sealFlow hk).2
            · intro k i2 hk j sj q hij hsj hq
              rw [slots_sealFlow] at hsj
              exact hO.later k i2 (omLookup_sealFlow hk).2 j sj q hij hsj hq
          exact ⟨seed_ord hO1 hfl hwf, fun f => filter_lanePkts_append f _ _ _
            (by rw [lanePkts_seed, lanePkts_sealFlow])⟩
      · exact ⟨seed_ord hO hfl hwf, fun f => filter_lanePkts_append f _ _ _ (lanePkts_seed _ _ _ _)⟩

theorem commitStaged_ord {tcp : Bool} {c : Lane} {sp : Staged} (hI : LaneInv tcp none c) (hO : OrdInv tcp c)
    (hproto : sp.proto = if tcp then 6 else 17)
    (hc : ppConsistent sp.pkt sp.proto sp.ipHdrLen sp.fragAny = true) :
    OrdInv tcp (c.commitStaged tcp sp) ∧
      ∀ f, (lanePkts (c.commitStaged tcp sp)).filter (qf f) =
        (lanePkts c).filter (qf f) ++ [sp.pkt].filter (qf f) := by
  unfold Lane.commitStaged
  cases hf : sp.fragAny with
  | true =>
    simp only [↓reduceIte]
    exact ⟨ord_barrier _ _, fun f => filter_lanePkts_append f _ _ _
      (by rw [lanePkts_addVerbatim, lanePkts_sealAllOpen])⟩
  | false =>
    simp only [Bool.false_eq_true, ↓reduceIte]
    cases hp : parseAt tcp sp.pkt sp.ipHdrLen with
    | none =>
      exact ⟨ord_barrier _ _, fun f => filter_lanePkts_append f _ _ _
        (by rw [lanePkts_addVerbatim, lanePkts_sealAllOpen])⟩
    | some info =>
      simp only
      rw [hf] at hc
      have := proto_of_consistent hc hp
      rw [hproto] at this
      exact commitParsed_ord hI hO hp this

/-! ### the three lanes together -/

structure MultiOrd (m : Multi) : Prop where
  tcp : OrdInv true m.tcp
  udp : OrdInv false m.udp
  sepT : ∀ q ∈ lanePkts m.tcp, ∀ f, qf f q = true → f.proto = 6 ∧ m.tso = true
  sepU : ∀ q ∈ lanePkts m.udp, ∀ f, qf f q = true → f.proto = 17 ∧ m.uso = true
  sepP : ∀ q ∈ m.pt, ∀ f, qf f q = true → ¬ (f.proto = 6 ∧ m.tso = true) ∧ ¬ (f.proto = 17 ∧ m.uso = true)

theorem multiOrd_init (tso uso : Bool) : MultiOrd { tso := tso, uso := uso } := by
  constructor
  · exact ordInv_init true
  · exact ordInv_init false
  · intro q hq; simp [lanePkts] at hq
  · intro q hq; simp [lanePkts] at hq
  · intro q hq; simp at hq

theorem proto_of_qf {f : Flow} {sp : Staged} (hq : qf f sp.pkt = true)
    (hc : ppConsistent sp.pkt sp.proto sp.ipHdrLen sp.fragAny = true) : sp.proto = f.proto := by
  simp only [qf, Bool.and_eq_true, beq_iff_eq] at hq
  exact proto_of_flow hq.1 hc

theorem filter_nil_of {P : Bytes → Bool} {l : List Bytes} (h : ∀ q ∈ l, P q = true → False) : l.filter P = [] := by
  rw [List.filter_eq_nil_iff]
  intro q hq hp
  exact h q hq hp

theorem dispatch_ord {m : Multi} {sp : Staged} (hI : MultiInv m) (hO : MultiOrd m)
    (hc : ppConsistent sp.pkt sp.proto sp.ipHdrLen sp.fragAny = true) :
    MultiOrd (m.dispatch sp) ∧
      ∀ f, (multiPkts (m.dispatch sp)).filter (qf f) = (multiPkts m).filter (qf f) ++ [sp.pkt].filter (qf f) := by
  unfold Multi.dispatch
  by_cases ht : sp.proto = batch_ipProtoTCP ∧ m.tso = true
  · rw [if_pos ht]
    have hp6 : sp.proto = 6 := ht.1
    obtain ⟨_, hperm⟩ := commitStaged_inv (tcp := true) hI.tcp (by rw [ht.1]; rfl) hc
    obtain ⟨hord, hfilt⟩ := commitStaged_ord (tcp := true) hI.tcp hO.tcp (by rw [ht.1]; rfl) hc
    constructor
    · refine ⟨hord, hO.udp, ?_, hO.sepU, hO.sepP⟩
      intro q hq f hqf
      have := hperm.mem_iff.mp hq
      simp only [List.mem_append, List.mem_singleton] at this
      rcases this with h | h
      · exact hO.sepT q h f hqf
      · subst h; exact ⟨by rw [← proto_of_qf hqf hc]; exact hp6, ht.2⟩
    · intro f
      simp only [multiPkts, List.filter_append, hfilt f]
      cases hq : qf f sp.pkt with
      | false => simp [List.filter, hq]
      | true =>
        have hfp : f.proto = 6 := by rw [← proto_of_qf hq hc]; exact hp6
        have e1 : (lanePkts m.udp).filter (qf f) = [] :=
          filter_nil_of (fun q hqm hp => by have := (hO.sepU q hqm f hp).1; omega)
        have e2 : m.pt.filter (qf f) = [] :=
          filter_nil_of (fun q hqm hp => (hO.sepP q hqm f hp).1 ⟨hfp, ht.2⟩)
        simp [e1, e2]
  · rw [if_neg ht]
    by_cases hu : sp.proto = batch_ipProtoUDP ∧ m.uso = true
    · rw [if_pos hu]
      have hp17 : sp.proto = 17 := hu.1
      obtain ⟨_, hperm⟩ := commitStaged_inv (tcp := false) hI.udp (by rw [hu.1]; rfl) hc
      obtain ⟨hord, hfilt⟩ := commitStaged_ord (tcp := false) hI.udp hO.udp (by rw [hu.1]; rfl) hc
      constructor
      · refine ⟨hO.tcp, hord, hO.sepT, ?_, hO.sepP⟩
        intro q hq f hqf
        have := hperm.mem_iff.mp hq
        simp only [List.mem_append, List.mem_singleton] at this
        rcases this with h | h
        · exact hO.sepU q h f hqf
        · subst h; exact ⟨by rw [← proto_of_qf hqf hc]; exact hp17, hu.2⟩
      · intro f
        simp only [multiPkts, List.filter_append, hfilt f]
        cases hq : qf f sp.pkt with
        | false => simp [List.filter, hq]
        | true =>
          have hfp : f.proto = 17 := by rw [← proto_of_qf hq hc]; exact hp17
          have e2 : m.pt.filter (qf f) = [] :=
            filter_nil_of (fun q hqm hp => (hO.sepP q hqm f hp).2 ⟨hfp, hu.2⟩)
          simp [e2]
    · rw [if_neg hu]
      constructor
      · refine ⟨hO.tcp, hO.udp, hO.sepT, hO.sepU, ?_⟩
        intro q hq f hqf
        simp only [List.mem_append, List.mem_singleton] at hq
        rcases hq with h | h
        · exact hO.sepP q h f hqf
        · subst h
          have := proto_of_qf hqf hc
          constructor
          · intro ⟨a, b⟩; exact ht ⟨by rw [this, a]; rfl, b⟩
          · intro ⟨a, b⟩; exact hu ⟨by rw [this, a]; rfl, b⟩
      · intro f
        simp only [multiPkts, List.filter_append, List.append_assoc]

theorem foldl_dispatch_ord (l : List Staged) (m : Multi) (hI : MultiInv m) (hO : MultiOrd m)
    (hc : ∀ sp ∈ l, ppConsistent sp.pkt sp.proto sp.ipHdrLen sp.fragAny = true) :
    ∀ f, (multiPkts (l.foldl Multi.dispatch m)).filter (qf f) =
      (multiPkts m).filter (qf f) ++ (l.map (·.pkt)).filter (qf f) := by
  induction l generalizing m with
  | nil => intro f; simp
  | cons sp rest ih =>
    intro f
    obtain ⟨hi, _, _, _⟩ := dispatch_inv hI (hc sp (by simp))
    obtain ⟨ho, hf⟩ := dispatch_ord hI hO (hc sp (by simp))
    simp only [List.foldl_cons, List.map_cons]
    rw [ih (m.dispatch sp) hi ho (fun x hx => hc x (by simp [hx])) f, hf f]
    simp [List.filter_cons]
    split <;> simp

theorem dispatchAll_ord (tso uso : Bool) (l : List Staged)
    (hc : ∀ sp ∈ l, ppConsistent sp.pkt sp.proto sp.ipHdrLen sp.fragAny = true) (f : Flow) :
    (multiPkts (dispatchAll tso uso l)).filter (qf f) = (l.map (·.pkt)).filter (qf f) := by
  have := foldl_dispatch_ord l { tso := tso, uso := uso } (multiInv_init tso uso) (multiOrd_init tso uso) hc f
  simpa [multiPkts, lanePkts, dispatchAll] using this

end Nebula.Lemmas.Coalesce
