/-
Tie of the TCP reset sequence-number arithmetic of the reject model (C21) to iputil/packet.go regenerated from source:
`inAck`, `seq`, the netfilter-style `ackSeq` (wrapping `uint32` arithmetic) and the flag byte of
`ipv4CreateRejectTCPPacket` and `ipv6CreateRejectTCPPacket`.
-/
import Nebula.Model.Reject
import Nebula.Gen.tie_ties1_reject
import Nebula.Lemmas.Ties1Bytes

namespace Nebula.Lemmas.Ties1RejectTie
open Nebula.Gen Nebula.Reject Nebula.Lemmas.Ties1Bytes

theorem be32_toNat (a b c d : BitVec 8) :
    (((BitVec.setWidth 32 a) <<< (24 : Nat)) ||| ((BitVec.setWidth 32 b) <<< (16 : Nat))
      ||| ((BitVec.setWidth 32 c) <<< (8 : Nat)) ||| ((BitVec.setWidth 32 d) <<< (0 : Nat))).toNat
      = (a.toNat * 256 + b.toNat) * 65536 + (c.toNat * 256 + d.toNat) := by
  have := be4 a.toNat b.toNat c.toNat d.toNat a.isLt b.isLt c.isLt d.isLt
  simp only [BitVec.toNat_or, toNat_byte_shl _ _ (by decide : 24 + 8 ≤ 32), toNat_byte_shl _ _ (by decide : 16 + 8 ≤ 32),
    toNat_byte_shl _ _ (by decide : 8 + 8 ≤ 32), toNat_byte_shl _ _ (by decide : 0 + 8 ≤ 32), this]
  omega

theorem inAck_formula (t13 : BitVec 8) : tie_ties1_rst4_inAck t13 = decide (t13.toNat &&& 0x10 ≠ 0) := by
  rw [Bool.eq_iff_iff]
  simp [tie_ties1_rst4_inAck, bne_iff_ne, BitVec.toNat_eq]

theorem seq_formula (t8 t9 t10 t11 : BitVec 8) :
    (tie_ties1_rst4_seq t8 t9 t10 t11).toNat
      = (t8.toNat * 256 + t9.toNat) * 65536 + (t10.toNat * 256 + t11.toNat) := be32_toNat t8 t9 t10 t11

/-- the acknowledgement number of the reset answering a segment without ACK, exactly as the model computes it
(`inSeq`, `inSyn`, `inFin`, `doff` as the model's `let`s; `n = len(tcpIn)`). -/
theorem ackSeq_formula (t4 t5 t6 t7 t12 t13 : BitVec 8) (n : Nat) (hn : n < 2 ^ 62) :
    (tie_ties1_rst4_ackSeq t4 t5 t6 t7 t12 t13 (BitVec.ofNat 64 n)).toNat
      = u32 (u32 (u32 (u32 (((t4.toNat * 256 + t5.toNat) * 65536 + (t6.toNat * 256 + t7.toNat))
            + ((t13.toNat &&& 0x02) >>> 1)) + (t13.toNat &&& 0x01)) + u32 n)
          + 4294967296 - u32 ((t12.toNat >>> 4) <<< 2)) := by
  have hs : t13.toNat &&& 2 ≤ 2 := Nat.and_le_right
  have hf : t13.toNat &&& 1 ≤ 1 := Nat.and_le_right
  have hd := t12.isLt
  have hb := be32_toNat t4 t5 t6 t7
  have h4 := t4.isLt; have h5 := t5.isLt; have h6 := t6.isLt; have h7 := t7.isLt
  unfold tie_ties1_rst4_ackSeq
  simp only [BitVec.toNat_sub, BitVec.toNat_add, hb, BitVec.toNat_setWidth, BitVec.toNat_ushiftRight,
    BitVec.toNat_and, BitVec.toNat_ofNat, BitVec.toNat_shiftLeft, u32, Nat.shiftLeft_eq, Nat.shiftRight_eq_div_pow,
    Nat.reducePow, Nat.reduceMod]
  have e1 : (t13.toNat &&& 2) / 2 % 4294967296 = (t13.toNat &&& 2) / 2 := by omega
  have e2 : (t13.toNat &&& 1) % 4294967296 = (t13.toNat &&& 1) := by omega
  have e3 : n % 18446744073709551616 % 4294967296 = n % 4294967296 := by omega
  have e4 : t12.toNat / 16 % 4294967296 = t12.toNat / 16 := by omega
  rw [e1, e2, e3, e4]
  generalize ((((t4.toNat * 256 + t5.toNat) * 65536 + (t6.toNat * 256 + t7.toNat) + (t13.toNat &&& 2) / 2) % 4294967296
      + (t13.toNat &&& 1)) % 4294967296 + n % 4294967296) % 4294967296 = S
  generalize hD : t12.toNat / 16 * 4 % 4294967296 = D
  have hDlt : D < 4294967296 := by omega
  omega

theorem ackFlags_formula : (tie_ties1_rst4_ackFlags tie_ties1_rst4_rstFlags).toNat = 0x14
    ∧ tie_ties1_rst4_rstFlags.toNat = 0x04 := by decide

/-- the IPv6 function contains the same lines -/
theorem rst6_eq_rst4 :
    tie_ties1_rst6_inAck = tie_ties1_rst4_inAck ∧ tie_ties1_rst6_seq = tie_ties1_rst4_seq
    ∧ tie_ties1_rst6_ackSeq = tie_ties1_rst4_ackSeq ∧ tie_ties1_rst6_ackFlags = tie_ties1_rst4_ackFlags
    ∧ tie_ties1_rst6_rstFlags = tie_ties1_rst4_rstFlags := ⟨rfl, rfl, rfl, rfl, rfl⟩

end Nebula.Lemmas.Ties1RejectTie
