/-
Helper lemmas for C42: well-formedness of loaded certificate states and the effect of the reload guards.
-/
import Nebula.Model.PkiReload

namespace Nebula.Lemmas.PkiReload
open Nebula.Net Nebula.Cert Nebula.Pki

/-- What `newCertState` establishes: at least one certificate; `networks` is the v2 certificate's list, else
the v1 one's; a v1/v2 pair shares key, curve and primary network. -/
structure WF (s : CertState) : Prop where
  some_cert : s.v1.isSome ∨ s.v2.isSome
  nets : s.networks = (match s.v2, s.v1 with
    | some c, _ => c.networks
    | none, some c => c.networks
    | none, none => [])
  pair : ∀ a b, s.v1 = some a → s.v2 = some b →
    a.publicKey = b.publicKey ∧ a.curve = b.curve ∧ a.networks.head? = b.networks.head?

theorem newCertState_wf {dv : Nat} {v1 v2 : Option CertIn} {s : CertState}
    (hs : v1.isSome ∨ v2.isSome) (h : newCertState dv v1 v2 = .ok s) : WF s := by
  unfold newCertState at h
  cases v1 with
  | none =>
    cases v2 with
    | none => simp at hs
    | some b =>
      simp only at h
      repeat' split at h
      all_goals try (cases h; done)
      all_goals
        simp only [Except.ok.injEq] at h
        subst h
        exact ⟨Or.inr rfl, rfl, by intro a b h1; cases h1⟩
  | some a =>
    cases v2 with
    | none =>
      simp only at h
      repeat' split at h
      all_goals try (cases h; done)
      all_goals
        simp only [Except.ok.injEq] at h
        subst h
        exact ⟨Or.inl rfl, rfl, by intro a b _ h2; cases h2⟩
    | some b =>
      simp only at h
      by_cases h1 : a.cert.publicKey = b.cert.publicKey
      · by_cases h2 : a.cert.curve = b.cert.curve
        · by_cases h3 : a.cert.networks.head? = b.cert.networks.head?
          · simp only [h1, h2, h3, ne_eq, not_true_eq_false, if_false] at h
            repeat' split at h
            all_goals try (cases h; done)
            all_goals
              simp only [Except.ok.injEq] at h
              subst h
              refine ⟨Or.inl rfl, rfl, ?_⟩
              intro x y hx hy
              simp only [Option.map_some, Option.some.injEq] at hx hy
              subst hx; subst hy
              exact ⟨h1, h2, h3⟩
          · simp [h1, h2, h3] at h
        · simp [h1, h2] at h
      · simp [h1] at h

theorem collect_some {now : Int} {cs : List CertIn} {a b v1 v2 : Option CertIn}
    (h : collect now cs a b = .ok (v1, v2)) (hab : a.isSome ∨ b.isSome) : v1.isSome ∨ v2.isSome := by
  induction cs generalizing a b with
  | nil => simp only [collect, Except.ok.injEq, Prod.mk.injEq] at h; rw [← h.1, ← h.2]; exact hab
  | cons c rest ih =>
    unfold collect at h
    repeat' split at h
    all_goals first | cases h | skip
    · exact ih h (Or.inl rfl)
    · exact ih h (Or.inr rfl)

theorem collect_nonempty {now : Int} {c : CertIn} {cs : List CertIn} {v1 v2 : Option CertIn}
    (h : collect now (c :: cs) none none = .ok (v1, v2)) : v1.isSome ∨ v2.isSome := by
  unfold collect at h
  repeat' split at h
  all_goals first | cases h | skip
  · exact collect_some h (Or.inl rfl)
  · exact collect_some h (Or.inr rfl)

/-- Every state `newCertStateFromConfig` produces is well formed. -/
theorem loadState_wf {now : Int} {cfg : Config} {s : CertState} (h : loadState now cfg = .ok s) : WF s := by
  unfold loadState at h
  by_cases hk : cfg.keyOK = true
  case neg => simp [hk] at h
  · simp only [hk, Bool.not_true, Bool.false_eq_true, if_false] at h
    cases hcs : cfg.certs with
    | none => rw [hcs] at h; cases h
    | some cs =>
      rw [hcs] at h
      cases cs with
      | nil => cases h
      | cons c rest =>
        simp only at h
        cases hc : collect now (c :: rest) none none with
        | error e => rw [hc] at h; cases h
        | ok r =>
          obtain ⟨v1, v2⟩ := r
          rw [hc] at h
          have hsome := collect_nonempty hc
          dsimp only at h
          repeat' split at h
          all_goals try (cases h; done)
          all_goals exact newCertState_wf hsome h

end Nebula.Lemmas.PkiReload

namespace Nebula.Lemmas.PkiReload
open Nebula.Net Nebula.Cert Nebula.Pki

/-! Concrete data for the witness / examples of `Props/C42.lean`. -/

def exNow : Int := 500

def exV1 : Cert :=
  { version := 1, curve := 0, name := [104], networks := [⟨⟨.v4, 0x0a000001⟩, 24⟩], unsafeNetworks := [], groups := [],
    isCA := false, notBefore := 0, notAfter := 1000, issuer := "ca", publicKey := [1], signature := [1] }

def exV2 : Cert := { exV1 with version := 2, networks := [⟨⟨.v4, 0x0a000001⟩, 24⟩, ⟨⟨.v4, 0x0a090001⟩, 16⟩], signature := [2] }

def exV2Other : Cert := { exV1 with version := 2, networks := [⟨⟨.v4, 0x0a090909⟩, 24⟩], publicKey := [9], signature := [3] }

def exCur : CertState := { v1 := some exV1, v2 := none, initiating := 1, networks := exV1.networks }

def exNew : CertState := { v1 := some exV1, v2 := some exV2, initiating := 1, networks := exV2.networks }

def exCfgSame : Config := { keyOK := true, certs := some [⟨exV1, true⟩], initVer := none, cas := none, blocklist := [] }

def exCfgAddV2 : Config := { exCfgSame with certs := some [⟨exV1, true⟩, ⟨exV2, true⟩] }

def exCfgV2Other : Config := { exCfgSame with certs := some [⟨exV2Other, true⟩] }

theorem exCur_wf : WF exCur := loadState_wf (now := exNow) (cfg := exCfgSame) (by decide)

end Nebula.Lemmas.PkiReload
