import Nebula.Model.Sendmmsg
namespace Nebula.Lemmas.Sendmmsg
open Nebula.Sendmmsg

def cnt (e : Errno) (l : List Sys) : Nat := (l.filter (fun o => o.errno = e)).length

theorem loop_spec (script : List Sys) (enobufs calls : Nat) (he : enobufs ≤ enobufsRetries) :
    match loop script enobufs calls with
    | .ret sent err n =>
      err ≠ .eintr ∧
      ∃ pre o rest, script = pre ++ o :: rest ∧ o.r1 = sent ∧ o.errno = err ∧ n = calls + pre.length + 1 ∧
        (∀ x ∈ pre, x.errno = .eintr ∨ x.errno = .enobufs) ∧
        enobufs + cnt .enobufs pre ≤ enobufsRetries ∧
        (err = .enobufs → enobufs + cnt .enobufs pre = enobufsRetries)
    | .spinning n =>
      n = calls + script.length ∧ (∀ x ∈ script, x.errno = .eintr ∨ x.errno = .enobufs) ∧
      enobufs + cnt .enobufs script ≤ enobufsRetries := by
  induction script generalizing enobufs calls with
  | nil => simp [loop, cnt]; exact he
  | cons o rest ih =>
    unfold loop
    by_cases h1 : o.errno = .eintr
    · simp only [h1, if_true]
      have := ih enobufs (calls + 1) he
      split at this
      · next sent err n hl =>
        obtain ⟨a, pre, o', rest', h2, h3, h4, h5, h6, h7, h8⟩ := this
        refine ⟨a, o :: pre, o', rest', by simp [h2], h3, h4, by simp; omega, ?_, ?_, ?_⟩
        · intro x hx; rcases List.mem_cons.mp hx with rfl | hx
          · exact Or.inl h1
          · exact h6 x hx
        · simpa [cnt, h1] using h7
        · intro h; simpa [cnt, h1] using h8 h
      · next n hl =>
        obtain ⟨h2, h3, h4⟩ := this
        refine ⟨by simp; omega, ?_, by simpa [cnt, h1] using h4⟩
        intro x hx; rcases List.mem_cons.mp hx with rfl | hx
        · exact Or.inl h1
        · exact h3 x hx
    · simp only [h1, if_false]
      by_cases h2 : o.errno = .enobufs ∧ enobufs < enobufsRetries
      · simp only [h2, and_self, if_true]
        have := ih (enobufs + 1) (calls + 1) (by omega)
        split at this
        · next sent err n hl =>
          obtain ⟨a, pre, o', rest', g2, g3, g4, g5, g6, g7, g8⟩ := this
          refine ⟨a, o :: pre, o', rest', by simp [g2], g3, g4, by simp; omega, ?_, ?_, ?_⟩
          · intro x hx; rcases List.mem_cons.mp hx with rfl | hx
            · exact Or.inr h2.1
            · exact g6 x hx
          · simp only [cnt, List.filter_cons, h2.1, decide_true, if_true, List.length_cons] at *; omega
          · intro h; have := g8 h
            simp only [cnt, List.filter_cons, h2.1, decide_true, if_true, List.length_cons] at *; omega
        · next n hl =>
          obtain ⟨g2, g3, g4⟩ := this
          refine ⟨by simp; omega, ?_, ?_⟩
          · intro x hx; rcases List.mem_cons.mp hx with rfl | hx
            · exact Or.inr h2.1
            · exact g3 x hx
          · simp only [cnt, List.filter_cons, h2.1, decide_true, if_true, List.length_cons] at *; omega
      · simp only [h2, if_false]
        by_cases h3 : o.errno ≠ .ok
        · simp only [h3, ne_eq, not_false_eq_true, if_true]
          refine ⟨h1, [], o, rest, rfl, rfl, rfl, by simp, by simp, by simpa [cnt] using he, ?_⟩
          intro h; simp only [cnt, List.filter_nil, List.length_nil, Nat.add_zero]
          have : ¬ enobufs < enobufsRetries := fun hh => h2 ⟨h, hh⟩
          omega
        · have h3' : o.errno = .ok := by simpa using h3
          simp only [h3', ne_eq, not_true_eq_false, if_false]
          refine ⟨by simp, [], o, rest, rfl, rfl, h3', by simp, by simp, by simpa [cnt] using he, by simp⟩
end Nebula.Lemmas.Sendmmsg
