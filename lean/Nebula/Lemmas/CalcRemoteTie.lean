/-
Tie of the calculated-remote model to `calculatedRemote.ApplyV4` regenerated from source (C48): the returned
`uint32` expression over (maskAddr, mask, intAddr), translated to `BitVec 32`, equals the model's `combine 32`.
-/
import Nebula.Model.CalcRemote

namespace Nebula.Lemmas.CalcRemoteTie
open Nebula.Gen Nebula.CalcRemote

theorem applyV4_eq (ma mask ia : Nat) (h1 : ma < 2 ^ 32) (h2 : mask < 2 ^ 32) (h3 : ia < 2 ^ 32) :
    (calcremote_ApplyV4 (BitVec.ofNat 32 ma) (BitVec.ofNat 32 mask) (BitVec.ofNat 32 ia)).toNat
      = combine 32 ma mask ia := by
  unfold combine
  unfold calcremote_ApplyV4
  simp only [BitVec.toNat_or, BitVec.toNat_and, BitVec.toNat_not, BitVec.toNat_ofNat,
    Nat.mod_eq_of_lt h1, Nat.mod_eq_of_lt h2, Nat.mod_eq_of_lt h3]
  congr 2
  apply Nat.eq_of_testBit_eq
  intro i
  have := Nat.testBit_two_pow_sub_succ h2 i
  have e : 2 ^ 32 - 1 - mask = 2 ^ 32 - (mask + 1) := by omega
  rw [e, this, Nat.testBit_xor, Nat.testBit_two_pow_sub_one]
  by_cases hi : i < 32
  · simp [hi]
  · have : mask.testBit i = false := Nat.testBit_lt_two_pow (Nat.lt_of_lt_of_le h2 (Nat.pow_le_pow_right (by decide) (by omega)))
    simp [hi, this]


end Nebula.Lemmas.CalcRemoteTie
