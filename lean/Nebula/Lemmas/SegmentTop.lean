/-
Top-level facts about every segment returned by `segmentTCP` / `segmentUDP` (C24): checksum validity,
lengths, IDs, sequence numbers, flags — assembled from the inversion, the normal form, and the
patch-level lemmas.
-/
import Nebula.Lemmas.SegmentFields

namespace Nebula.Lemmas.SegmentTop
open Nebula.Csum Nebula.Segment Nebula.Gen Nebula.Lemmas.Segment Nebula.Lemmas.SegmentList
open Nebula.Lemmas.SegmentRun Nebula.Lemmas.SegmentNF Nebula.Lemmas.SegmentInv Nebula.Lemmas.SegmentValid
open Nebula.Lemmas.SegmentFields

/-- the superpacket's IP version nibble is 4. -/
def v4 (pkt : List UInt8) : Prop := byteAt pkt 0 / 16 = 4
instance (pkt : List UInt8) : Decidable (v4 pkt) := by unfold v4; infer_instance

/-- the IHL the superpacket declares. -/
def ihlOf (pkt : List UInt8) : Nat := byteAt pkt 0 % 16 * 4

theorem segFlags_lt (f i n : Nat) (hf : f < 256) : segFlags f i n < 256 := by
  unfold segFlags; dsimp only; split <;> split <;> omega

/-- Shape of every TCP segment: context facts + normal form. -/
theorem tcp_view {pkt : List UInt8} {hdrLen cs g : Nat} {segs : List (List UInt8)}
    (h : segmentTCP pkt hdrLen cs g = .ok segs) (hwf : v4 pkt ∨ 40 ≤ cs) :
    ∃ c : TcpCtx, c.hdrLen = hdrLen ∧ c.csumStart = cs ∧ c.g = g ∧ c.saved = pkt.take hdrLen ∧
      c.isV4 = decide (v4 pkt) ∧ c.tcpHdrLen = byteAt pkt (cs + 12) / 16 * 4 ∧
      c.origSeq = be16 pkt (cs + 4) * 65536 + be16 pkt (cs + 6) ∧ c.origFlags = byteAt pkt (cs + 13) ∧
      c.baseProto = checksum (addrBytes pkt c.isV4) 0 + 6 ∧
      c.baseTcp = tcpBaseSum ((pkt.take hdrLen).drop cs) ∧
      (v4 pkt → c.origID = be16 pkt 4 ∧ 20 ≤ ihlOf pkt ∧ ihlOf pkt ≤ cs ∧
        c.baseIP = ipBaseSum (pkt.take (ihlOf pkt))) ∧
      12 ≤ cs ∧ cs + 18 ≤ hdrLen ∧ hdrLen ≤ pkt.length ∧ c.numSeg = segs.length ∧
      segs = (List.range segs.length).map (fun i =>
        patchIP ((pkt.take hdrLen).take cs) c.isV4 hdrLen (segPayload pkt hdrLen g i).length c.origID c.baseIP i ++
        (tcpL4 ((pkt.take hdrLen).drop cs) ((c.origSeq + (i * g) % 4294967296) % 4294967296)
            (segFlags c.origFlags i c.numSeg) (tcpCk c (segPayload pkt hdrLen g i) i)
          ++ segPayload pkt hdrLen g i)) := by
  obtain ⟨_, _, _, hle, hcs18, _⟩ := segmentTCP_ok h
  obtain ⟨c, hsv, hhl, hcs, hg, hn, hsegs, hv, htl, hsq, hfl, hbp, _, hbt, hip⟩ := segmentTCP_inv h
  have hv' : c.isV4 = decide (v4 pkt) := hv
  have hipf : v4 pkt → c.origID = be16 pkt 4 ∧ 20 ≤ ihlOf pkt ∧ ihlOf pkt ≤ cs ∧
      c.baseIP = ipBaseSum (pkt.take (ihlOf pkt)) := by
    intro h4
    have : c.isV4 = true := by rw [hv']; simpa using h4
    rw [this] at hip; simp only [if_true] at hip
    have := baseIPv4HdrSum_ok hip.2
    exact ⟨hip.1, this.1, this.2.1, this.2.2.2⟩
  have h12 : 12 ≤ cs := by
    rcases hwf with h4 | h40
    · have := hipf h4; omega
    · omega
  have hlen : c.saved.length = c.hdrLen := by rw [hsv, hhl]; simp; omega
  have hcnt : segs.length = c.numSeg := by rw [hsegs]; simp
  refine ⟨c, hhl, hcs, hg, hsv, hv', htl, hsq, hfl, hbp, hbt, hipf, h12, hcs18, hle, hcnt.symm, ?_⟩
  rw [hcnt]
  conv => lhs; rw [hsegs]
  apply List.map_congr_left
  intro i _
  have := tcpSeg_nf c pkt i hlen (by omega) (by omega)
  rw [hsv, hhl, hcs, hg] at this
  exact this

/-- Shape of every UDP segment. -/
theorem udp_view {pkt : List UInt8} {hdrLen cs g : Nat} {segs : List (List UInt8)}
    (h : segmentUDP pkt hdrLen cs g = .ok segs) (hwf : v4 pkt ∨ 40 ≤ cs) :
    ∃ c : UdpCtx, c.isV4 = decide (v4 pkt) ∧
      c.baseProto = checksum (addrBytes pkt c.isV4) 0 + 17 ∧
      (v4 pkt → c.origID = be16 pkt 4 ∧ 20 ≤ ihlOf pkt ∧ ihlOf pkt ≤ cs ∧
        c.baseIP = ipBaseSum (pkt.take (ihlOf pkt))) ∧
      12 ≤ cs ∧ cs + 8 = hdrLen ∧ hdrLen ≤ pkt.length ∧
      segs = (List.range segs.length).map (fun i =>
        patchIP ((pkt.take hdrLen).take cs) c.isV4 hdrLen (segPayload pkt hdrLen g i).length c.origID c.baseIP i ++
        (set16 (udpL4pre ((pkt.take hdrLen).drop cs) ((8 + (segPayload pkt hdrLen g i).length) % 65536)) 6
            (udpCsum c.baseProto (8 + (segPayload pkt hdrLen g i).length)
              (udpL4pre ((pkt.take hdrLen).drop cs) ((8 + (segPayload pkt hdrLen g i).length) % 65536)
                ++ segPayload pkt hdrLen g i))
          ++ segPayload pkt hdrLen g i)) := by
  obtain ⟨_, _, _, hle, hcs8, _, _⟩ := segmentUDP_ok h
  obtain ⟨c, hsv, hhl, hcs, hg, hsegs, hv, hbp, _, hip⟩ := segmentUDP_inv h
  have hv' : c.isV4 = decide (v4 pkt) := hv
  have hipf : v4 pkt → c.origID = be16 pkt 4 ∧ 20 ≤ ihlOf pkt ∧ ihlOf pkt ≤ cs ∧
      c.baseIP = ipBaseSum (pkt.take (ihlOf pkt)) := by
    intro h4
    have : c.isV4 = true := by rw [hv']; simpa using h4
    rw [this] at hip; simp only [if_true] at hip
    have := baseIPv4HdrSum_ok hip.2
    exact ⟨hip.1, this.1, this.2.1, this.2.2.2⟩
  have h12 : 12 ≤ cs := by
    rcases hwf with h4 | h40
    · have := hipf h4; omega
    · omega
  have hlen : c.saved.length = c.hdrLen := by rw [hsv, hhl]; simp; omega
  have hcnt : segs.length = segCount (pkt.length - hdrLen) g := by rw [hsegs]; simp
  refine ⟨c, hv', hbp, hipf, h12, hcs8, hle, ?_⟩
  rw [hcnt]
  conv => lhs; rw [hsegs]
  apply List.map_congr_left
  intro i _
  have := udpSeg_nf c pkt i hlen (by omega) (by omega)
  rw [hsv, hhl, hcs, hg] at this
  exact this

theorem getElem_of_map_range {α : Type} (segs : List α) (F : Nat → α) (n : Nat)
    (h : segs = (List.range n).map F) (i : Nat) (hi : i < segs.length) : segs[i] = F i := by
  subst h; simp

theorem drop_nf (x L : List UInt8) (cs : Nat) (hx : x.length = cs) : (x ++ L).drop cs = L := by
  rw [List.drop_append, List.drop_of_length_le (by omega)]; simp [hx]

theorem ipX_length (pkt : List UInt8) (hdrLen cs : Nat) (h1 : cs ≤ hdrLen) (h2 : hdrLen ≤ pkt.length) :
    ((pkt.take hdrLen).take cs).length = cs := by simp; omega

theorem l4T_length (pkt : List UInt8) (hdrLen cs : Nat) (h2 : hdrLen ≤ pkt.length) :
    ((pkt.take hdrLen).drop cs).length = hdrLen - cs := by simp; omega

/-! ### TCP -/

theorem tcp_ipv4_csum_valid {pkt : List UInt8} {hdrLen cs g : Nat} {segs : List (List UInt8)}
    (h : segmentTCP pkt hdrLen cs g = .ok segs) (h4 : v4 pkt)
    (hfit : hdrLen + min g (pkt.length - hdrLen) ≤ 65535) (i : Nat) (hi : i < segs.length) :
    verifies ((segs[i]).take (ihlOf pkt)) 0 := by
  obtain ⟨c, _, _, _, _, hv, _, _, _, _, _, hip, h12, h18, hle, _, hsegs⟩ := tcp_view h (Or.inl h4)
  rw [getElem_of_map_range segs _ _ hsegs i hi]
  obtain ⟨_, h20, hcs, hb⟩ := hip h4
  have hv' : c.isV4 = true := by rw [hv]; simpa using h4
  rw [hv', hb]
  have := segPayload_length pkt hdrLen g i
  exact seg_ipv4_verifies pkt _ hdrLen cs _ c.origID i (ihlOf pkt) h20 hcs (by omega) hle (by omega)

theorem tcp_csum_valid {pkt : List UInt8} {hdrLen cs g : Nat} {segs : List (List UInt8)}
    (h : segmentTCP pkt hdrLen cs g = .ok segs) (hwf : v4 pkt ∨ 40 ≤ cs)
    (hhl : hdrLen = cs + byteAt pkt (cs + 12) / 16 * 4)
    (hfit : hdrLen + min g (pkt.length - hdrLen) ≤ 65535) (i : Nat) (hi : i < segs.length) :
    verifies ((segs[i]).drop cs)
      (pseudoSum (addrBytes pkt (decide (v4 pkt))) 6 ((segs[i]).length - cs)) := by
  obtain ⟨c, _, _, hg, _, hv, htl, hsq, hfl, hbp, hbt, _, h12, h18, hle, _, hsegs⟩ := tcp_view h hwf
  rw [getElem_of_map_range segs _ _ hsegs i hi]
  have lx := patchIP_length ((pkt.take hdrLen).take cs) c.isV4 hdrLen (segPayload pkt hdrLen g i).length
    c.origID c.baseIP i (by rw [ipX_length pkt hdrLen cs (by omega) hle]; omega)
  rw [ipX_length pkt hdrLen cs (by omega) hle] at lx
  have lT := l4T_length pkt hdrLen cs hle
  have hseqlt : (c.origSeq + (i * g) % 4294967296) % 4294967296 < 4294967296 := by omega
  have hfllt : segFlags c.origFlags i c.numSeg < 256 := segFlags_lt _ _ _ (by rw [hfl]; exact byteAt_lt _ _)
  have lL := tcpL4_length ((pkt.take hdrLen).drop cs) ((c.origSeq + (i * g) % 4294967296) % 4294967296)
    (segFlags c.origFlags i c.numSeg) (tcpCk c (segPayload pkt hdrLen g i) i) (by omega)
  have hP := segPayload_length pkt hdrLen g i
  rw [drop_nf _ _ cs lx]
  have hlen : (patchIP ((pkt.take hdrLen).take cs) c.isV4 hdrLen (segPayload pkt hdrLen g i).length c.origID
      c.baseIP i ++ (tcpL4 ((pkt.take hdrLen).drop cs) ((c.origSeq + (i * g) % 4294967296) % 4294967296)
        (segFlags c.origFlags i c.numSeg) (tcpCk c (segPayload pkt hdrLen g i) i)
        ++ segPayload pkt hdrLen g i)).length - cs
      = ((pkt.take hdrLen).drop cs).length + (segPayload pkt hdrLen g i).length := by
    simp only [List.length_append, lx, lL]; omega
  rw [hlen]
  have key := tcp_l4_verifies ((pkt.take hdrLen).drop cs) (segPayload pkt hdrLen g i) (addrBytes pkt c.isV4)
    ((c.origSeq + (i * g) % 4294967296) % 4294967296) (segFlags c.origFlags i c.numSeg) c.baseProto
    (by omega) (by omega) hseqlt hfllt (by omega) hbp
  simp only at key
  have htl' : c.tcpHdrLen = ((pkt.take hdrLen).drop cs).length := by rw [htl, lT]; omega
  unfold tcpCk
  rw [← hv]
  simp only [hbt, htl', hg]
  exact key

end Nebula.Lemmas.SegmentTop
