/-
Top-level facts about every segment returned by `segmentTCP` / `segmentUDP` (C24): checksum validity,
lengths, IDs, sequence numbers, flags — assembled from the inversion, the normal form, and the
patch-level lemmas.
-/
import Nebula.Lemmas.SegmentFields

namespace Nebula.Lemmas.SegmentTop
open Nebula.Csum Nebula.Segment Nebula.Gen Nebula.Lemmas.Segment Nebula.Lemmas.SegmentList
open Nebula.Lemmas.SegmentRun Nebula.Lemmas.SegmentNF Nebula.Lemmas.SegmentInv Nebula.Lemmas.SegmentValid
open Nebula.Lemmas.SegmentFields

/-- the superpacket's IP version nibble is 4. -/
def v4 (pkt : List UInt8) : Prop := byteAt pkt 0 / 16 = 4
instance (pkt : List UInt8) : Decidable (v4 pkt) := by unfold v4; infer_instance

/-- the IHL the superpacket declares. -/
def ihlOf (pkt : List UInt8) : Nat := byteAt pkt 0 % 16 * 4

theorem segFlags_lt (f i n : Nat) (hf : f < 256) : segFlags f i n < 256 := by
  unfold segFlags; dsimp only; split <;> split <;> omega

/-- Shape of every TCP segment: context facts + normal form. -/
theorem tcp_view {pkt : List UInt8} {hdrLen cs g : Nat} {segs : List (List UInt8)}
    (h : segmentTCP pkt hdrLen cs g = .ok segs) (hwf : v4 pkt ∨ 40 ≤ cs) :
    ∃ c : TcpCtx, c.hdrLen = hdrLen ∧ c.csumStart = cs ∧ c.g = g ∧ c.saved = pkt.take hdrLen ∧
      c.isV4 = decide (v4 pkt) ∧ c.tcpHdrLen = byteAt pkt (cs + 12) / 16 * 4 ∧
      c.origSeq = be16 pkt (cs + 4) * 65536 + be16 pkt (cs + 6) ∧ c.origFlags = byteAt pkt (cs + 13) ∧
      c.baseProto = checksum (addrBytes pkt c.isV4) 0 + 6 ∧
      c.baseTcp = tcpBaseSum ((pkt.take hdrLen).drop cs) ∧
      (v4 pkt → c.origID = be16 pkt 4 ∧ 20 ≤ ihlOf pkt ∧ ihlOf pkt ≤ cs ∧
        c.baseIP = ipBaseSum (pkt.take (ihlOf pkt))) ∧
      12 ≤ cs ∧ cs + 18 ≤ hdrLen ∧ hdrLen ≤ pkt.length ∧ c.numSeg = segs.length ∧
      segs = (List.range segs.length).map (fun i =>
        patchIP ((pkt.take hdrLen).take cs) c.isV4 hdrLen (segPayload pkt hdrLen g i).length c.origID c.baseIP i ++
        (tcpL4 ((pkt.take hdrLen).drop cs) ((c.origSeq + (i * g) % 4294967296) % 4294967296)
            (segFlags c.origFlags i c.numSeg) (tcpCk c (segPayload pkt hdrLen g i) i)
          ++ segPayload pkt hdrLen g i)) := by
  obtain ⟨_, _, _, hle, hcs18, _⟩ := segmentTCP_ok h
  obtain ⟨c, hsv, hhl, hcs, hg, hn, hsegs, hv, htl, hsq, hfl, hbp, _, hbt, hip⟩ := segmentTCP_inv h
  have hv' : c.isV4 = decide (v4 pkt) := hv
  have hipf : v4 pkt → c.origID = be16 pkt 4 ∧ 20 ≤ ihlOf pkt ∧ ihlOf pkt ≤ cs ∧
      c.baseIP = ipBaseSum (pkt.take (ihlOf pkt)) := by
    intro h4
    have : c.isV4 = true := by rw [hv']; simpa using h4
    rw [this] at hip; simp only [if_true] at hip
    have := baseIPv4HdrSum_ok hip.2
    exact ⟨hip.1, this.1, this.2.1, this.2.2.2⟩
  have h12 : 12 ≤ cs := by
    rcases hwf with h4 | h40
    · have := hipf h4; omega
    · omega
  have hlen : c.saved.length = c.hdrLen := by rw [hsv, hhl]; simp; omega
  have hcnt : segs.length = c.numSeg := by rw [hsegs]; simp
  refine ⟨c, hhl, hcs, hg, hsv, hv', htl, hsq, hfl, hbp, hbt, hipf, h12, hcs18, hle, hcnt.symm, ?_⟩
  rw [hcnt]
  conv => lhs; rw [hsegs]
  apply List.map_congr_left
  intro i _
  have := tcpSeg_nf c pkt i hlen (by omega) (by omega)
  rw [hsv, hhl, hcs, hg] at this
  exact this

/-- Shape of every UDP segment. -/
theorem udp_view {pkt : List UInt8} {hdrLen cs g : Nat} {segs : List (List UInt8)}
    (h : segmentUDP pkt hdrLen cs g = .ok segs) (hwf : v4 pkt ∨ 40 ≤ cs) :
    ∃ c : UdpCtx, c.isV4 = decide (v4 pkt) ∧
      c.baseProto = checksum (addrBytes pkt c.isV4) 0 + 17 ∧
      (v4 pkt → c.origID = be16 pkt 4 ∧ 20 ≤ ihlOf pkt ∧ ihlOf pkt ≤ cs ∧
        c.baseIP = ipBaseSum (pkt.take (ihlOf pkt))) ∧
      12 ≤ cs ∧ cs + 8 = hdrLen ∧ hdrLen ≤ pkt.length ∧
      segs = (List.range segs.length).map (fun i =>
        patchIP ((pkt.take hdrLen).take cs) c.isV4 hdrLen (segPayload pkt hdrLen g i).length c.origID c.baseIP i ++
        (set16 (udpL4pre ((pkt.take hdrLen).drop cs) ((8 + (segPayload pkt hdrLen g i).length) % 65536)) 6
            (udpCsum c.baseProto (8 + (segPayload pkt hdrLen g i).length)
              (udpL4pre ((pkt.take hdrLen).drop cs) ((8 + (segPayload pkt hdrLen g i).length) % 65536)
                ++ segPayload pkt hdrLen g i))
          ++ segPayload pkt hdrLen g i)) := by
  obtain ⟨_, _, _, hle, hcs8, _, _⟩ := segmentUDP_ok h
  obtain ⟨c, hsv, hhl, hcs, hg, hsegs, hv, hbp, _, hip⟩ := segmentUDP_inv h
  have hv' : c.isV4 = decide (v4 pkt) := hv
  have hipf : v4 pkt → c.origID = be16 pkt 4 ∧ 20 ≤ ihlOf pkt ∧ ihlOf pkt ≤ cs ∧
      c.baseIP = ipBaseSum (pkt.take (ihlOf pkt)) := by
    intro h4
    have : c.isV4 = true := by rw [hv']; simpa using h4
    rw [this] at hip; simp only [if_true] at hip
    have := baseIPv4HdrSum_ok hip.2
    exact ⟨hip.1, this.1, this.2.1, this.2.2.2⟩
  have h12 : 12 ≤ cs := by
    rcases hwf with h4 | h40
    · have := hipf h4; omega
    · omega
  have hlen : c.saved.length = c.hdrLen := by rw [hsv, hhl]; simp; omega
  have hcnt : segs.length = segCount (pkt.length - hdrLen) g := by rw [hsegs]; simp
  refine ⟨c, hv', hbp, hipf, h12, hcs8, hle, ?_⟩
  rw [hcnt]
  conv => lhs; rw [hsegs]
  apply List.map_congr_left
  intro i _
  have := udpSeg_nf c pkt i hlen (by omega) (by omega)
  rw [hsv, hhl, hcs, hg] at this
  exact this

theorem getElem_of_map_range {α : Type} (segs : List α) (F : Nat → α) (n : Nat)
    (h : segs = (List.range n).map F) (i : Nat) (hi : i < segs.length) : segs[i] = F i := by
  subst h; simp

theorem drop_nf (x L : List UInt8) (cs : Nat) (hx : x.length = cs) : (x ++ L).drop cs = L := by
  rw [List.drop_append, List.drop_of_length_le (by omega)]; simp [hx]

theorem ipX_length (pkt : List UInt8) (hdrLen cs : Nat) (h1 : cs ≤ hdrLen) (h2 : hdrLen ≤ pkt.length) :
    ((pkt.take hdrLen).take cs).length = cs := by simp; omega

theorem l4T_length (pkt : List UInt8) (hdrLen cs : Nat) (h2 : hdrLen ≤ pkt.length) :
    ((pkt.take hdrLen).drop cs).length = hdrLen - cs := by simp; omega

/-! ### TCP -/

theorem tcp_ipv4_csum_valid {pkt : List UInt8} {hdrLen cs g : Nat} {segs : List (List UInt8)}
    (h : segmentTCP pkt hdrLen cs g = .ok segs) (h4 : v4 pkt)
    (hfit : hdrLen + min g (pkt.length - hdrLen) ≤ 65535) (i : Nat) (hi : i < segs.length) :
    verifies ((segs[i]).take (ihlOf pkt)) 0 := by
  obtain ⟨c, _, _, _, _, hv, _, _, _, _, _, hip, h12, h18, hle, _, hsegs⟩ := tcp_view h (Or.inl h4)
  rw [getElem_of_map_range segs _ _ hsegs i hi]
  obtain ⟨_, h20, hcs, hb⟩ := hip h4
  have hv' : c.isV4 = true := by rw [hv]; simpa using h4
  rw [hv', hb]
  have := segPayload_length pkt hdrLen g i
  exact seg_ipv4_verifies pkt _ hdrLen cs _ c.origID i (ihlOf pkt) h20 hcs (by omega) hle (by omega)

theorem tcp_csum_valid {pkt : List UInt8} {hdrLen cs g : Nat} {segs : List (List UInt8)}
    (h : segmentTCP pkt hdrLen cs g = .ok segs) (hwf : v4 pkt ∨ 40 ≤ cs)
    (hhl : hdrLen = cs + byteAt pkt (cs + 12) / 16 * 4)
    (hfit : hdrLen + min g (pkt.length - hdrLen) ≤ 65535) (i : Nat) (hi : i < segs.length) :
    verifies ((segs[i]).drop cs)
      (pseudoSum (addrBytes pkt (decide (v4 pkt))) 6 ((segs[i]).length - cs)) := by
  obtain ⟨c, _, _, hg, _, hv, htl, hsq, hfl, hbp, hbt, _, h12, h18, hle, _, hsegs⟩ := tcp_view h hwf
  rw [getElem_of_map_range segs _ _ hsegs i hi]
  have lx := patchIP_length ((pkt.take hdrLen).take cs) c.isV4 hdrLen (segPayload pkt hdrLen g i).length
    c.origID c.baseIP i (by rw [ipX_length pkt hdrLen cs (by omega) hle]; omega)
  rw [ipX_length pkt hdrLen cs (by omega) hle] at lx
  have lT := l4T_length pkt hdrLen cs hle
  have hseqlt : (c.origSeq + (i * g) % 4294967296) % 4294967296 < 4294967296 := by omega
  have hfllt : segFlags c.origFlags i c.numSeg < 256 := segFlags_lt _ _ _ (by rw [hfl]; exact byteAt_lt _ _)
  have lL := tcpL4_length ((pkt.take hdrLen).drop cs) ((c.origSeq + (i * g) % 4294967296) % 4294967296)
    (segFlags c.origFlags i c.numSeg) (tcpCk c (segPayload pkt hdrLen g i) i) (by omega)
  have hP := segPayload_length pkt hdrLen g i
  rw [drop_nf _ _ cs lx]
  have hlen : (patchIP ((pkt.take hdrLen).take cs) c.isV4 hdrLen (segPayload pkt hdrLen g i).length c.origID
      c.baseIP i ++ (tcpL4 ((pkt.take hdrLen).drop cs) ((c.origSeq + (i * g) % 4294967296) % 4294967296)
        (segFlags c.origFlags i c.numSeg) (tcpCk c (segPayload pkt hdrLen g i) i)
        ++ segPayload pkt hdrLen g i)).length - cs
      = ((pkt.take hdrLen).drop cs).length + (segPayload pkt hdrLen g i).length := by
    simp only [List.length_append, lx, lL]; omega
  rw [hlen]
  have key := tcp_l4_verifies ((pkt.take hdrLen).drop cs) (segPayload pkt hdrLen g i) (addrBytes pkt c.isV4)
    ((c.origSeq + (i * g) % 4294967296) % 4294967296) (segFlags c.origFlags i c.numSeg) c.baseProto
    (by omega) (by omega) hseqlt hfllt (by omega) hbp
  simp only at key
  have htl' : c.tcpHdrLen = ((pkt.take hdrLen).drop cs).length := by rw [htl, lT]; omega
  unfold tcpCk
  rw [← hv]
  simp only [hbt, htl', hg]
  exact key

/-- IP length fields, IPv4 ID, sequence number and flags byte of every emitted TCP segment. -/
theorem tcp_fields {pkt : List UInt8} {hdrLen cs g : Nat} {segs : List (List UInt8)}
    (h : segmentTCP pkt hdrLen cs g = .ok segs) (hwf : v4 pkt ∨ 40 ≤ cs)
    (hfit : hdrLen + min g (pkt.length - hdrLen) ≤ 65535) (i : Nat) (hi : i < segs.length) :
    (v4 pkt → be16 (segs[i]) 2 = (segs[i]).length ∧ be16 (segs[i]) 4 = (be16 pkt 4 + i) % 65536) ∧
    (¬ v4 pkt → be16 (segs[i]) 4 + 40 = (segs[i]).length) ∧
    be16 (segs[i]) (cs + 4) * 65536 + be16 (segs[i]) (cs + 6)
      = (be16 pkt (cs + 4) * 65536 + be16 pkt (cs + 6) + i * g) % 4294967296 ∧
    byteAt (segs[i]) (cs + 13) = segFlags (byteAt pkt (cs + 13)) i segs.length := by
  obtain ⟨c, _, _, hg, _, hv, htl, hsq, hfl, hbp, hbt, hip, h12, h18, hle, hn, hsegs⟩ := tcp_view h hwf
  rw [getElem_of_map_range segs _ _ hsegs i hi]
  have lX := ipX_length pkt hdrLen cs (by omega) hle
  have lx := patchIP_length ((pkt.take hdrLen).take cs) c.isV4 hdrLen (segPayload pkt hdrLen g i).length
    c.origID c.baseIP i (by omega)
  rw [lX] at lx
  have lT := l4T_length pkt hdrLen cs hle
  have hseqlt : (c.origSeq + (i * g) % 4294967296) % 4294967296 < 4294967296 := by omega
  have hfllt : segFlags c.origFlags i c.numSeg < 256 := segFlags_lt _ _ _ (by rw [hfl]; exact byteAt_lt _ _)
  have lL := tcpL4_length ((pkt.take hdrLen).drop cs) ((c.origSeq + (i * g) % 4294967296) % 4294967296)
    (segFlags c.origFlags i c.numSeg) (tcpCk c (segPayload pkt hdrLen g i) i) (by omega)
  have hP := segPayload_length pkt hdrLen g i
  have fT := tcpL4_fields ((pkt.take hdrLen).drop cs) ((c.origSeq + (i * g) % 4294967296) % 4294967296)
    (segFlags c.origFlags i c.numSeg) (tcpCk c (segPayload pkt hdrLen g i) i) (by omega) hseqlt hfllt
  generalize tcpL4 ((pkt.take hdrLen).drop cs) ((c.origSeq + (i * g) % 4294967296) % 4294967296)
    (segFlags c.origFlags i c.numSeg) (tcpCk c (segPayload pkt hdrLen g i) i) = L at *
  have hlen : ∀ x : List UInt8, x.length = cs →
      (x ++ (L ++ segPayload pkt hdrLen g i)).length = hdrLen + (segPayload pkt hdrLen g i).length := by
    intro x hx; simp only [List.length_append, hx, lL]; omega
  refine ⟨?_, ?_, ?_, ?_⟩
  · intro h4
    have hv' : c.isV4 = true := by rw [hv]; simpa using h4
    rw [hv'] at lx ⊢
    have f := patchIP_v4_fields ((pkt.take hdrLen).take cs) hdrLen (segPayload pkt hdrLen g i).length
      c.origID c.baseIP i (by omega)
    rw [be16_append_left _ _ _ (by omega), be16_append_left _ _ _ (by omega), f.1, f.2, hlen _ lx,
      (hip h4).1]
    constructor <;> omega
  · intro h6
    have hv' : c.isV4 = false := by rw [hv]; simpa using h6
    rw [hv'] at lx ⊢
    have h40 : 40 ≤ cs := by rcases hwf with h4 | h40; exact absurd h4 h6; exact h40
    have f := patchIP_v6_field ((pkt.take hdrLen).take cs) hdrLen (segPayload pkt hdrLen g i).length
      c.origID c.baseIP i (by omega) (by omega) (by omega)
    rw [be16_append_left _ _ _ (by omega), f, hlen _ lx]; omega
  · have e4 : cs + 4 = (patchIP ((pkt.take hdrLen).take cs) c.isV4 hdrLen (segPayload pkt hdrLen g i).length
        c.origID c.baseIP i).length + 4 := by omega
    have e6 : cs + 6 = (patchIP ((pkt.take hdrLen).take cs) c.isV4 hdrLen (segPayload pkt hdrLen g i).length
        c.origID c.baseIP i).length + 6 := by omega
    conv => lhs; rw [e4, e6, be16_append_right, be16_append_right]
    rw [be16_append_left _ _ _ (by omega), be16_append_left _ _ _ (by omega), fT.1, hsq]
    omega
  · have e13 : cs + 13 = (patchIP ((pkt.take hdrLen).take cs) c.isV4 hdrLen
        (segPayload pkt hdrLen g i).length c.origID c.baseIP i).length + 13 := by omega
    have fT2 : (L.getD 13 0).toNat = segFlags c.origFlags i c.numSeg := fT.2
    show ((_ ++ (L ++ _)).getD (cs + 13) 0).toNat = _
    conv => lhs; rw [e13, getD_append_right', getD_append_left' _ _ _ (by omega), fT2, hfl, hn]

/-! ### UDP -/

theorem udp_ipv4_csum_valid {pkt : List UInt8} {hdrLen cs g : Nat} {segs : List (List UInt8)}
    (h : segmentUDP pkt hdrLen cs g = .ok segs) (h4 : v4 pkt)
    (hfit : hdrLen + min g (pkt.length - hdrLen) ≤ 65535) (i : Nat) (hi : i < segs.length) :
    verifies ((segs[i]).take (ihlOf pkt)) 0 := by
  obtain ⟨c, hv, _, hip, h12, h8, hle, hsegs⟩ := udp_view h (Or.inl h4)
  rw [getElem_of_map_range segs _ _ hsegs i hi]
  obtain ⟨_, h20, hcs, hb⟩ := hip h4
  have hv' : c.isV4 = true := by rw [hv]; simpa using h4
  rw [hv', hb]
  have := segPayload_length pkt hdrLen g i
  exact seg_ipv4_verifies pkt _ hdrLen cs _ c.origID i (ihlOf pkt) h20 hcs (by omega) hle (by omega)

/-- UDP checksum validity, the RFC 768 zero rule, the UDP length field, IP lengths and the IPv4 ID of
every emitted UDP segment. -/
theorem udp_valid {pkt : List UInt8} {hdrLen cs g : Nat} {segs : List (List UInt8)}
    (h : segmentUDP pkt hdrLen cs g = .ok segs) (hwf : v4 pkt ∨ 40 ≤ cs)
    (hfit : hdrLen + min g (pkt.length - hdrLen) ≤ 65535) (i : Nat) (hi : i < segs.length) :
    verifies ((segs[i]).drop cs) (pseudoSum (addrBytes pkt (decide (v4 pkt))) 17 ((segs[i]).length - cs)) ∧
    be16 (segs[i]) (cs + 6) ≠ 0 ∧
    be16 (segs[i]) (cs + 4) = (segs[i]).length - cs ∧
    (v4 pkt → be16 (segs[i]) 2 = (segs[i]).length ∧ be16 (segs[i]) 4 = (be16 pkt 4 + i) % 65536) ∧
    (¬ v4 pkt → be16 (segs[i]) 4 + 40 = (segs[i]).length) := by
  obtain ⟨c, hv, hbp, hip, h12, h8, hle, hsegs⟩ := udp_view h hwf
  rw [getElem_of_map_range segs _ _ hsegs i hi]
  have lX := ipX_length pkt hdrLen cs (by omega) hle
  have lx := patchIP_length ((pkt.take hdrLen).take cs) c.isV4 hdrLen (segPayload pkt hdrLen g i).length
    c.origID c.baseIP i (by omega)
  rw [lX] at lx
  have lT := l4T_length pkt hdrLen cs hle
  have hP := segPayload_length pkt hdrLen g i
  have key := udp_l4_verifies ((pkt.take hdrLen).drop cs) (segPayload pkt hdrLen g i) (addrBytes pkt c.isV4)
    c.baseProto (by omega) (by omega) hbp
  simp only at key
  obtain ⟨k1, k2, k3, k4, k5⟩ := key
  have lU : (set16 (udpL4pre ((pkt.take hdrLen).drop cs) ((8 + (segPayload pkt hdrLen g i).length) % 65536)) 6
      (udpCsum c.baseProto (8 + (segPayload pkt hdrLen g i).length)
        (udpL4pre ((pkt.take hdrLen).drop cs) ((8 + (segPayload pkt hdrLen g i).length) % 65536)
          ++ segPayload pkt hdrLen g i))).length = 8 := by
    have l1 := set16_length ((pkt.take hdrLen).drop cs) 4 ((8 + (segPayload pkt hdrLen g i).length) % 65536)
      (by omega)
    unfold udpL4pre
    rw [set16_length _ _ _ (by rw [set16_length _ _ _ (by omega), l1]; omega),
      set16_length _ _ _ (by omega), l1]; omega
  generalize set16 (udpL4pre ((pkt.take hdrLen).drop cs) ((8 + (segPayload pkt hdrLen g i).length) % 65536)) 6
      (udpCsum c.baseProto (8 + (segPayload pkt hdrLen g i).length)
        (udpL4pre ((pkt.take hdrLen).drop cs) ((8 + (segPayload pkt hdrLen g i).length) % 65536)
          ++ segPayload pkt hdrLen g i)) = U3 at *
  have hlen : ∀ x : List UInt8, x.length = cs →
      (x ++ (U3 ++ segPayload pkt hdrLen g i)).length = hdrLen + (segPayload pkt hdrLen g i).length := by
    intro x hx; simp only [List.length_append, hx, lU]; omega
  have e4 : cs + 4 = (patchIP ((pkt.take hdrLen).take cs) c.isV4 hdrLen (segPayload pkt hdrLen g i).length
      c.origID c.baseIP i).length + 4 := by omega
  have e6 : cs + 6 = (patchIP ((pkt.take hdrLen).take cs) c.isV4 hdrLen (segPayload pkt hdrLen g i).length
      c.origID c.baseIP i).length + 6 := by omega
  refine ⟨?_, ?_, ?_, ?_, ?_⟩
  · rw [drop_nf _ _ cs lx, hlen _ lx, ← hv]
    have : hdrLen + (segPayload pkt hdrLen g i).length - cs = 8 + (segPayload pkt hdrLen g i).length := by omega
    rw [this]; exact k1
  · rw [e6, be16_append_right, k2]; exact k3
  · rw [e4, be16_append_right, k5, hlen _ lx]; omega
  · intro h4
    have hv' : c.isV4 = true := by rw [hv]; simpa using h4
    rw [hv'] at lx ⊢
    have f := patchIP_v4_fields ((pkt.take hdrLen).take cs) hdrLen (segPayload pkt hdrLen g i).length
      c.origID c.baseIP i (by omega)
    rw [be16_append_left _ _ _ (by omega), be16_append_left _ _ _ (by omega), f.1, f.2, hlen _ lx,
      (hip h4).1]
    constructor <;> omega
  · intro h6
    have hv' : c.isV4 = false := by rw [hv]; simpa using h6
    rw [hv'] at lx ⊢
    have h40 : 40 ≤ cs := by rcases hwf with h4 | h40; exact absurd h4 h6; exact h40
    have f := patchIP_v6_field ((pkt.take hdrLen).take cs) hdrLen (segPayload pkt hdrLen g i).length
      c.origID c.baseIP i (by omega) (by omega) (by omega)
    rw [be16_append_left _ _ _ (by omega), f, hlen _ lx]; omega

end Nebula.Lemmas.SegmentTop
