/-
The per-tunnel relay state: `UpdateRelayForByIpState` and `unlockedDisestablishVpnAddrRelayFor` keep the two per-tunnel
maps in agreement and never add or remove a key; they touch nothing but relay state.
-/
import Nebula.Lemmas.HostMapDelete

namespace Nebula.HostMap
open FMap

/-- `relayForByAddr[a] = r` ⇒ `r` is filed under its own peer address and `relayForByIdx[r.LocalIndex]` is the same relay -/
def AgreeA (r : RelayState) : Prop :=
  ∀ a rel, r.byAddr.get a = some rel → rel.peer = a ∧ r.byIdx.get rel.lidx = some rel

/-- `relayForByIdx[i] = r` ⇒ `r` is filed under its own local index and its peer address has an entry -/
def AgreeI (r : RelayState) : Prop :=
  ∀ i rel, r.byIdx.get i = some rel → rel.lidx = i ∧ (r.byAddr.get rel.peer).isSome = true

def ROk (r : RelayState) : Prop := AgreeA r ∧ AgreeI r

def SameKeys (r r' : RelayState) : Prop :=
  r'.relaysTo = r.relaysTo ∧ (∀ i, (r'.byIdx.get i).isSome = (r.byIdx.get i).isSome) ∧
  (∀ a, (r'.byAddr.get a).isSome = (r.byAddr.get a).isSome)

/-- what a relay-state update may do to one tunnel's relay state -/
def RsLe (r r' : RelayState) : Prop := ROk r → ROk r' ∧ SameKeys r r'

theorem RsLe.refl (r : RelayState) : RsLe r r := fun h => ⟨h, rfl, fun _ => rfl, fun _ => rfl⟩

theorem RsLe.trans {a b c : RelayState} (h1 : RsLe a b) (h2 : RsLe b c) : RsLe a c := by
  intro ha
  obtain ⟨hb, k1, k2, k3⟩ := h1 ha
  obtain ⟨hc, l1, l2, l3⟩ := h2 hb
  exact ⟨hc, l1.trans k1, fun i => (l2 i).trans (k2 i), fun i => (l3 i).trans (k3 i)⟩

theorem rok_default : ROk ({} : RelayState) := by
  constructor <;> intro a rel h <;> simp at h

theorem updateRelayState_le (r : RelayState) (v st : Nat) : RsLe r (updateRelayState r v st) := by
  intro ⟨hA, hI⟩
  unfold updateRelayState
  cases hg : r.byAddr.get v with
  | none => exact ⟨⟨hA, hI⟩, rfl, fun _ => rfl, fun _ => rfl⟩
  | some rel =>
    obtain ⟨hp, hi⟩ := hA v rel hg
    simp only
    refine ⟨⟨?_, ?_⟩, rfl, ?_, ?_⟩
    · intro a rel2 h2
      simp only [get_set] at h2 ⊢
      by_cases e : rel.peer = a
      · simp only [e, ↓reduceIte, Option.some.injEq] at h2
        subst h2; simp [e]
      · simp only [e, ↓reduceIte] at h2
        obtain ⟨q1, q2⟩ := hA a rel2 h2
        refine ⟨q1, ?_⟩
        by_cases e2 : rel.lidx = rel2.lidx
        · exfalso
          rw [← e2, hi] at q2
          have : rel = rel2 := Option.some.inj q2
          subst this; exact e (hp.trans (by rw [← q1, hp]))
        · simp [e2, q2]
    · intro i rel2 h2
      simp only [get_set] at h2 ⊢
      by_cases e : rel.lidx = i
      · simp only [e, ↓reduceIte, Option.some.injEq] at h2
        subst h2; simp [e]
      · simp only [e, ↓reduceIte] at h2
        obtain ⟨q1, q2⟩ := hI i rel2 h2
        refine ⟨q1, ?_⟩
        by_cases e2 : rel.peer = rel2.peer
        · simp [e2]
        · simp [e2, q2]
    · intro i
      simp only [get_set]
      by_cases e : rel.lidx = i
      · subst e; simp [hi]
      · simp [e]
    · intro a
      simp only [get_set]
      by_cases e : rel.peer = a
      · subst e; rw [hp, hg]; simp
      · simp [e]

/-- the fields relay-state updates never touch -/
structure SameButRs (s t : State) : Prop where
  hosts : t.hosts = s.hosts
  more : t.more = s.more
  indexes : t.indexes = s.indexes
  rindexes : t.rindexes = s.rindexes
  relays : t.relays = s.relays
  objs : t.objs = s.objs
  vpnIps : t.vpnIps = s.vpnIps
  pidx : t.pidx = s.pidx
  next : t.next = s.next
  rs : ∀ x, RsLe (s.rstate x) (t.rstate x)

theorem SameButRs.refl (s : State) : SameButRs s s :=
  ⟨rfl, rfl, rfl, rfl, rfl, rfl, rfl, rfl, rfl, fun x => RsLe.refl _⟩

theorem SameButRs.trans {s t u : State} (a : SameButRs s t) (b : SameButRs t u) : SameButRs s u :=
  ⟨b.hosts.trans a.hosts, b.more.trans a.more, b.indexes.trans a.indexes, b.rindexes.trans a.rindexes,
   b.relays.trans a.relays, b.objs.trans a.objs, b.vpnIps.trans a.vpnIps, b.pidx.trans a.pidx, b.next.trans a.next,
   fun x => (a.rs x).trans (b.rs x)⟩

theorem rstate_setRs (s : State) (x y : Nat) (r : RelayState) :
    (s.setRs x r).rstate y = if x = y then r else s.rstate y := by
  simp only [State.rstate, State.setRs, get_set]
  by_cases e : x = y <;> simp [e]

theorem updList_same (v : Nat) (l : List Nat) : ∀ s : State,
    SameButRs s (l.foldl (fun s x => s.setRs x (updateRelayState (s.rstate x) v disestablished)) s) := by
  induction l with
  | nil => intro s; exact SameButRs.refl s
  | cons x t ih =>
    intro s
    simp only [List.foldl_cons]
    refine SameButRs.trans ?_ (ih _)
    refine ⟨rfl, rfl, rfl, rfl, rfl, rfl, rfl, rfl, rfl, fun y => ?_⟩
    rw [rstate_setRs]
    by_cases e : x = y
    · subst e; simp only [↓reduceIte]; exact updateRelayState_le _ _ _
    · simp only [e, ↓reduceIte]; exact RsLe.refl _

theorem disestablishVia_same (v : Nat) (s : State) (addr : Nat) : SameButRs s (disestablishVia v s addr) :=
  updList_same v (hostList s addr) s

theorem foldl_same {α : Type} (f : State → α → State) (hf : ∀ s a, SameButRs s (f s a)) (l : List α) :
    ∀ s, SameButRs s (l.foldl f s) := by
  induction l with
  | nil => intro s; exact SameButRs.refl s
  | cons x t ih => intro s; exact (hf s x).trans (ih _)

theorem disestablish_same (s : State) (h : Nat) : SameButRs s (disestablish s h) := by
  unfold disestablish
  simp only
  refine SameButRs.trans (t := (s.rstate h).relaysTo.foldl (disestablishVia ((s.obj h).addrs.headD 0)) s)
    (foldl_same (disestablishVia ((s.obj h).addrs.headD 0)) (fun s a => disestablishVia_same _ s a) _ s) ?_
  apply foldl_same
  intro s rel
  split
  · exact disestablishVia_same _ s _
  · exact SameButRs.refl s

end Nebula.HostMap
