import Nebula.Spec.SshPath

namespace Nebula.Lemmas.SshPath
open Nebula.SshPath Nebula.Spec.SshPath

/-! ### `split` -/

theorem split_ne_nil (p : Path) : split p ≠ [] := by
  cases p with
  | nil => simp [split]
  | cons c cs =>
    simp only [split]
    split
    · simp
    · split <;> simp

theorem split_cons_sep (p : Path) : split ('/' :: p) = [] :: split p := by
  simp [split]

theorem split_cons_other (c : Char) (p : Path) (h : c ≠ '/') :
    ∃ q qs, split p = q :: qs ∧ split (c :: p) = (c :: q) :: qs := by
  cases hs : split p with
  | nil => exact absurd hs (split_ne_nil p)
  | cons q qs => exact ⟨q, qs, rfl, by simp [split, h, hs]⟩

theorem split_append_sep (a b : Path) : split (a ++ '/' :: b) = split a ++ split b := by
  induction a with
  | nil => simp [split]
  | cons c cs ih =>
    by_cases h : c = '/'
    · subst h
      simp only [List.cons_append, split_cons_sep, ih, List.cons_append]
    · obtain ⟨q, qs, h1, h2⟩ := split_cons_other c cs h
      obtain ⟨q', qs', h1', h2'⟩ := split_cons_other c (cs ++ '/' :: b) h
      rw [List.cons_append, h2', h2]
      rw [ih, h1] at h1'
      simp only [List.cons_append] at h1'
      injection h1' with e1 e2
      subst e1 e2
      rfl

theorem split_sepfree (p : Path) (h : '/' ∉ p) : split p = [p] := by
  induction p with
  | nil => rfl
  | cons c cs ih =>
    have hc : c ≠ '/' := fun e => h (e ▸ List.mem_cons_self ..)
    have hcs : '/' ∉ cs := fun e => h (List.mem_cons_of_mem _ e)
    simp [split, hc, ih hcs]

theorem split_sepfree_mem (p : Path) : ∀ c ∈ split p, '/' ∉ c := by
  induction p with
  | nil => intro c hc; simp [split] at hc; subst hc; simp
  | cons x xs ih =>
    by_cases h : x = '/'
    · subst h
      rw [split_cons_sep]
      intro c hc
      simp only [List.mem_cons] at hc
      rcases hc with rfl | hc
      · simp
      · exact ih c hc
    · obtain ⟨q, qs, h1, h2⟩ := split_cons_other x xs h
      rw [h2]
      intro c hc
      simp only [List.mem_cons] at hc
      rcases hc with rfl | hc
      · have := ih q (by rw [h1]; exact List.mem_cons_self ..)
        intro hm
        simp only [List.mem_cons] at hm
        rcases hm with e | e
        · exact h e.symm
        · exact this e
      · exact ih c (by rw [h1]; exact List.mem_cons_of_mem _ hc)

/-- the first piece of a path: the path is that piece alone, or the piece followed by `/…`. -/
theorem split_head (p : Path) (h : Path) (tl : List Path) (hs : split p = h :: tl) :
    (p = h ∧ tl = []) ∨ ∃ u, p = h ++ '/' :: u := by
  induction p generalizing h tl with
  | nil => simp [split] at hs; exact Or.inl ⟨hs.1.symm ▸ rfl, hs.2⟩
  | cons c cs ih =>
    by_cases hc : c = '/'
    · subst hc
      rw [split_cons_sep] at hs
      injection hs with e1 e2
      subst e1
      exact Or.inr ⟨cs, rfl⟩
    · obtain ⟨q, qs, h1, h2⟩ := split_cons_other c cs hc
      rw [h2] at hs
      injection hs with e1 e2
      subst e1 e2
      rcases ih q qs h1 with ⟨e, e'⟩ | ⟨u, e⟩
      · exact Or.inl ⟨by rw [e], e'⟩
      · exact Or.inr ⟨u, by rw [e]; rfl⟩

theorem joinSep_cons_cons (c c' : Path) (cs : List Path) :
    joinSep (c :: c' :: cs) = c ++ '/' :: joinSep (c' :: cs) := rfl

theorem split_joinSep (cs : List Path) (hne : cs ≠ []) (h : ∀ c ∈ cs, '/' ∉ c) : split (joinSep cs) = cs := by
  induction cs with
  | nil => exact absurd rfl hne
  | cons c rest ih =>
    cases rest with
    | nil => simpa [joinSep] using split_sepfree c (h c (List.mem_cons_self ..))
    | cons c' rest' =>
      rw [joinSep_cons_cons, split_append_sep, split_sepfree c (h c (List.mem_cons_self ..)),
        ih (by simp) (fun x hx => h x (List.mem_cons_of_mem _ hx))]
      rfl

end Nebula.Lemmas.SshPath
