/-
Invariants of the two sides of `Model/MachinePair` under every adversarial schedule, from the
bookkeeping laws of `Spec/NoiseSession.Lawful`.
-/
import Nebula.Lemmas.MachineInv
import Nebula.Model.MachinePair

namespace Nebula.MachinePair
open Nebula.Wire Nebula.Machine Nebula.Spec.NoiseSession

variable {σ κ β : Type}

/-- A node set up for IX whose allocator hands out `li` (non-zero, `uint32`), with `uint32` certificate
versions and certificates shorter than 2^63 bytes. -/
structure GoodEnv (E : Env) (init : Bool) (li : Nat) : Prop where
  role : E.cfg.initiator = init
  msgs : E.cfg.msgs = ixMsgs
  alloc : E.cfg.alloc = some li
  pos : li ≠ 0
  lt : li < 2 ^ 32
  cv : ∀ v, E.cfg.credVersion v < 2 ^ 32
  cb : ∀ v, (E.certBytes v).length < 2 ^ 63

theorem clock_lt (now : Nat) : clock now < 2 ^ 64 := Nat.mod_lt _ (by decide)

theorem initiate_ok_inv {c : Cfg} {s s' : St} {now : Nat} {wr : WriteOut} {sent : Option Sent} {res : Option Result}
    (h : Machine.initiate c s now wr = (s', .ok sent res)) :
    s.failed = false ∧ c.initiator = true ∧ s.msgIdx = 0 ∧ res = none ∧
    ∃ x dk ek, sent = some x ∧ buildResponse c s now wr = .ok (s', x, dk, ek) := by
  unfold Machine.initiate at h
  split at h; · simp at h
  rename_i hf
  split at h; · simp at h
  rename_i hi
  split at h; · simp at h
  rename_i hm
  split at h
  · simp at h
  · rename_i s2 x dk ek hbr
    simp at h
    obtain ⟨rfl, rfl, rfl⟩ := h
    exact ⟨by simpa using hf, by simpa using hi, by simpa using hm, rfl, x, dk, ek, rfl, hbr⟩

theorem initiate_err_inv {c : Cfg} {s s' : St} {now : Nat} {wr : WriteOut} {e : Machine.Err}
    (h : Machine.initiate c s now wr = (s', .err e)) : s' = s ∨ s'.failed = true := by
  unfold Machine.initiate at h
  split at h; · simp at h; exact Or.inl h.1.symm
  split at h; · simp [fail] at h; right; rw [← h.1]
  split at h; · simp [fail] at h; right; rw [← h.1]
  split at h
  · simp [fail] at h; right; rw [← h.1]
  · simp at h

/-- when the pre-checks fail, `ProcessPacket` is an error that leaves the Machine alone or failed. -/
theorem pp_unreached {c : Cfg} {s : St} {len sub : Nat} {rd : ReadOut} {co : CertOut} {now : Nat} {wr : WriteOut}
    (h : reachesNoise c s len sub = false) :
    (processPacket c s len sub rd co now wr).1 = s ∨ (processPacket c s len sub rd co now wr).1.failed = true := by
  cases ho : (processPacket c s len sub rd co now wr).2 with
  | ok sent res =>
    have := pp_ok_inv true c s _ len sub rd co now wr sent res (by rw [← ho]; rfl)
    rw [h] at this; simp at this
  | err e => exact pp_err_inv c s _ len sub rd co now wr e (by rw [← ho])

/-- a failed read is an error that leaves the Machine alone or failed. -/
theorem pp_read_err {c : Cfg} {s : St} {len sub : Nat} {m : Bool} {co : CertOut} {now : Nat} {wr : WriteOut} :
    (∃ e, (processPacket c s len sub (.err m) co now wr).2 = .err e) ∧
    ((processPacket c s len sub (.err m) co now wr).1 = s ∨ (processPacket c s len sub (.err m) co now wr).1.failed = true) := by
  cases ho : (processPacket c s len sub (.err m) co now wr).2 with
  | ok sent res =>
    have := pp_ok_inv true c s _ len sub (.err m) co now wr sent res (by rw [← ho]; rfl)
    obtain ⟨_, _, _, _, _, _, _, h, _⟩ := this
    simp at h
  | err e => exact ⟨⟨e, rfl⟩, pp_err_inv c s _ len sub _ co now wr e (by rw [← ho])⟩

/-- an error after a successful read marks the Machine failed. -/
theorem pp_err_after_read {c : Cfg} {s s' : St} {len sub : Nat} {msg : Bytes} {k1 k2 : Bool} {ps : Bytes}
    {co : CertOut} {now : Nat} {wr : WriteOut} {e : Machine.Err} (hr : reachesNoise c s len sub = true)
    (h : processPacket c s len sub (.ok msg k1 k2 ps) co now wr = (s', .err e)) : s'.failed = true := by
  cases hf : s'.failed with
  | true => rfl
  | false =>
    have := (pp_reject c s s' len sub _ co now wr e h hf).2
    rw [hr] at this; simp at this

theorem flagsAt_ix0 : flagsAt ixMsgs 0 = ⟨true, true⟩ := rfl
theorem flagsAt_ix1 : flagsAt ixMsgs 1 = ⟨true, true⟩ := rfl

end Nebula.MachinePair
