/-
Helper lemmas for the outbound packet path (Model/Inside.lean): what `getOrHandshake`, the ECMP fallback loop and
`getOrHandshakeConsiderRouting` can return, and the node's own-address table.
-/
import Nebula.Model.Inside
import Nebula.Lemmas.FwAddr

namespace Nebula.Lemmas.Inside
open Nebula.Net Nebula.Fw Nebula.Inside Nebula.Lemmas.Fw

variable {κ : Type}

/-- the addresses routing may hand a packet for `dst` to: the destination itself when it is inside our networks,
otherwise the gateways of its route. -/
def via (cfg : Nebula.Inside.Cfg) (env : Env κ) (dst : Addr) : List Addr :=
  if anyContains cfg.myNets dst then [dst] else (env.routes dst).map (·.1)

/-- invariant of the `started` list: only addresses without tunnel and without pending handshake, all from `vs`. -/
def StartedOK (env : Env κ) (vs : List Addr) (st : List Addr) : Prop :=
  ∀ a ∈ st, env.hosts a = none ∧ env.pending a = false ∧ a ∈ vs

theorem getOrHandshake_some (env : Env κ) (st : List Addr) (a : Addr) (h : κ) (st' : List Addr)
    (hg : getOrHandshake env st a = (some h, st')) : env.hosts a = some h ∧ st' = st := by
  unfold getOrHandshake at hg
  split at hg
  · rename_i h' hh
    simp only [Prod.mk.injEq, Option.some.injEq] at hg
    exact ⟨by rw [hh, hg.1], hg.2.symm⟩
  · simp at hg

theorem getOrHandshake_none (env : Env κ) (st : List Addr) (a : Addr) (st' : List Addr)
    (hg : getOrHandshake env st a = (none, st')) :
    env.hosts a = none ∧ (st' = st ∨ (st' = st ++ [a] ∧ env.pending a = false)) ∧ (env.pending a = true ∨ a ∈ st') := by
  unfold getOrHandshake at hg
  split at hg
  · simp at hg
  · rename_i hh
    simp only [Prod.mk.injEq, true_and] at hg
    refine ⟨hh, ?_, ?_⟩
    · by_cases hp : (env.pending a || st.any (fun x => decide (x = a))) = true
      · left; simp [hp] at hg; exact hg.symm
      · right
        simp only [hp] at hg
        refine ⟨by simpa using hg.symm, ?_⟩
        simp only [Bool.or_eq_true, not_or, Bool.not_eq_true] at hp
        exact hp.1
    · by_cases hp : (env.pending a || st.any (fun x => decide (x = a))) = true
      · simp only [hp, if_true] at hg
        subst hg
        simp only [Bool.or_eq_true] at hp
        rcases hp with hp | hp
        · exact Or.inl hp
        · right
          simp only [List.any_eq_true, decide_eq_true_eq] at hp
          obtain ⟨x, hx, he⟩ := hp
          exact he ▸ hx
      · simp only [hp] at hg
        right
        rw [← hg]
        simp

theorem getOrHandshake_started (env : Env κ) (vs st : List Addr) (a : Addr) (r : Option κ) (st' : List Addr)
    (hg : getOrHandshake env st a = (r, st')) (ha : a ∈ vs) (hst : StartedOK env vs st) : StartedOK env vs st' := by
  cases r with
  | some h => rw [(getOrHandshake_some env st a h st' hg).2]; exact hst
  | none =>
    obtain ⟨hh, hcase, _⟩ := getOrHandshake_none env st a st' hg
    rcases hcase with h | ⟨h, hp⟩
    · rw [h]; exact hst
    · rw [h]
      intro b hb
      rcases List.mem_append.mp hb with hb | hb
      · exact hst b hb
      · simp only [List.mem_singleton] at hb
        subst hb
        exact ⟨hh, hp, ha⟩

/-- the fallback loop: a ready answer is the tunnel of one of the listed gateways; handshakes are only started for
listed gateways. -/
theorem fallback_spec (env : Env κ) (chosen : Addr) (vs : List Addr) :
    ∀ (gs st : List Addr) (r : Option κ) (st' : List Addr), fallback env chosen gs st = (r, st') →
      (∀ g ∈ gs, g ∈ vs) → StartedOK env vs st →
      StartedOK env vs st' ∧ (∀ h, r = some h → ∃ g ∈ gs, env.hosts g = some h) := by
  intro gs
  induction gs with
  | nil =>
    intro st r st' hf _ hst
    simp only [fallback, Prod.mk.injEq] at hf
    rw [← hf.2, ← hf.1]
    exact ⟨hst, by simp⟩
  | cons g gs ih =>
    intro st r st' hf hvs hst
    unfold fallback at hf
    split at hf
    · obtain ⟨h1, h2⟩ := ih st r st' hf (fun x hx => hvs x (List.mem_cons_of_mem _ hx)) hst
      exact ⟨h1, fun h hr => by obtain ⟨x, hx, hh⟩ := h2 h hr; exact ⟨x, List.mem_cons_of_mem _ hx, hh⟩⟩
    · split at hf
      · rename_i h st1 hg
        simp only [Prod.mk.injEq] at hf
        have := getOrHandshake_some env st g h st1 hg
        rw [← hf.2, this.2]
        refine ⟨hst, fun h' hr => ?_⟩
        rw [← hf.1] at hr
        simp only [Option.some.injEq] at hr
        subst hr
        exact ⟨g, List.mem_cons_self, this.1⟩
      · rename_i st1 hg
        have hst1 := getOrHandshake_started env vs st g none st1 hg (hvs g List.mem_cons_self) hst
        obtain ⟨h1, h2⟩ := ih st1 r st' hf (fun x hx => hvs x (List.mem_cons_of_mem _ hx)) hst1
        exact ⟨h1, fun h hr => by obtain ⟨x, hx, hh⟩ := h2 h hr; exact ⟨x, List.mem_cons_of_mem _ hx, hh⟩⟩

theorem chosenGateway_mem (p : Packet) (gs : List (Addr × Int)) (c : Addr) (h : chosenGateway p gs = some c) :
    c ∈ gs.map (·.1) := by
  unfold chosenGateway at h
  split at h
  · cases h
  · simp only at h
    split at h
    · rename_i i _ _
      cases hi : gs[i]? with
      | none => simp [hi] at h
      | some g =>
        simp only [hi, Option.map_some, Option.some.injEq] at h
        rw [← h]
        exact List.mem_map_of_mem (List.mem_of_getElem? hi)
    · cases h

/-- what `getOrHandshakeConsiderRouting` can answer. -/
def RouteOK (cfg : Nebula.Inside.Cfg) (env : Env κ) (p : Packet) : Route κ → Prop
  | .none => anyContains cfg.myNets p.remoteAddr = false ∧ env.routes p.remoteAddr = []
  | .panic => anyContains cfg.myNets p.remoteAddr = false
  | .ready h st => (∃ a ∈ via cfg env p.remoteAddr, env.hosts a = some h) ∧ StartedOK env (via cfg env p.remoteAddr) st
  | .wait on st => on ∈ via cfg env p.remoteAddr ∧ env.hosts on = none ∧ (env.pending on = true ∨ on ∈ st)
      ∧ StartedOK env (via cfg env p.remoteAddr) st

theorem considerRouting_spec (cfg : Nebula.Inside.Cfg) (env : Env κ) (p : Packet) :
    RouteOK cfg env p (considerRouting cfg env p) := by
  have hnil : StartedOK env (via cfg env p.remoteAddr) [] := fun a ha => by simp at ha
  unfold considerRouting
  by_cases hn : anyContains cfg.myNets p.remoteAddr = true
  · have hv : via cfg env p.remoteAddr = [p.remoteAddr] := by simp [via, hn]
    simp only [hn, if_true]
    split
    · rename_i h st hg
      have := getOrHandshake_some env [] _ h st hg
      refine ⟨⟨p.remoteAddr, by simp [hv], this.1⟩, ?_⟩
      rw [this.2]; exact hnil
    · rename_i st hg
      have := getOrHandshake_none env [] _ st hg
      exact ⟨by simp [hv], this.1, this.2.2,
        getOrHandshake_started env _ [] _ none st hg (by simp [hv]) hnil⟩
  · have hn' : anyContains cfg.myNets p.remoteAddr = false := by simpa using hn
    have hv : via cfg env p.remoteAddr = (env.routes p.remoteAddr).map (·.1) := by simp [via, hn']
    simp only [hn', Bool.false_eq_true, if_false]
    split
    · rename_i hr
      exact ⟨hn', hr⟩
    · rename_i g hr
      have hg1 : g.1 ∈ via cfg env p.remoteAddr := by rw [hv, hr]; simp
      split
      · rename_i h st hg
        have := getOrHandshake_some env [] _ h st hg
        refine ⟨⟨g.1, hg1, this.1⟩, ?_⟩
        rw [this.2]; exact hnil
      · rename_i st hg
        have := getOrHandshake_none env [] _ st hg
        exact ⟨hg1, this.1, this.2.2, getOrHandshake_started env _ [] _ none st hg hg1 hnil⟩
    · split
      · exact hn'
      · rename_i c hc
        have hc1 : c ∈ via cfg env p.remoteAddr := by rw [hv]; exact chosenGateway_mem p _ c hc
        split
        · rename_i h st hg
          have := getOrHandshake_some env [] _ h st hg
          refine ⟨⟨c, hc1, this.1⟩, ?_⟩
          rw [this.2]; exact hnil
        · rename_i st hg
          have hgn := getOrHandshake_none env [] _ st hg
          have hst := getOrHandshake_started env _ [] _ none st hg hc1 hnil
          split
          · rename_i h st2 hf
            obtain ⟨h1, h2⟩ := fallback_spec env c (via cfg env p.remoteAddr) _ st (some h) st2 hf
              (fun g hg => by rw [hv]; exact hg) hst
            obtain ⟨g, hg, hh⟩ := h2 h rfl
            exact ⟨⟨g, by rw [hv]; exact hg, hh⟩, h1⟩
          · rename_i st2 hf
            obtain ⟨h1, _⟩ := fallback_spec env c (via cfg env p.remoteAddr) _ st none st2 hf
              (fun g hg => by rw [hv]; exact hg) hst
            refine ⟨hc1, hgn.1, ?_, h1⟩
            rcases hgn.2.2 with hp | hm
            · exact Or.inl hp
            · right
              -- the fallback loop only appends to the started list
              have happ : ∀ (gs st : List Addr) (r : Option κ) (st' : List Addr),
                  fallback env c gs st = (r, st') → ∀ x ∈ st, x ∈ st' := by
                intro gs
                induction gs with
                | nil => intro st r st' hf x hx; simp only [fallback, Prod.mk.injEq] at hf; rw [← hf.2]; exact hx
                | cons g gs ih =>
                  intro st r st' hf x hx
                  unfold fallback at hf
                  split at hf
                  · exact ih st r st' hf x hx
                  · split at hf
                    · rename_i h' st1 hg'
                      simp only [Prod.mk.injEq] at hf
                      rw [← hf.2, (getOrHandshake_some env st g h' st1 hg').2]; exact hx
                    · rename_i st1 hg'
                      have := (getOrHandshake_none env st g st1 hg').2.1
                      apply ih st1 r st' hf x
                      rcases this with h | ⟨h, _⟩ <;> rw [h]
                      · exact hx
                      · exact List.mem_append_left _ hx
              exact happ _ st none st2 hf c hm


/-- what each outcome of `consumeInsidePacket` on a parsed packet implies about the inputs. -/
def OutcomeOK (cfg : Nebula.Inside.Cfg) (env : Env κ) (p : Packet) : Outcome κ → Prop
  | .dropParse => False
  | .dropBroadcast => cfg.dropLocalBroadcast = true ∧ anyContains cfg.bcast p.remoteAddr = true
  | .loopback => anyContains cfg.myAddrs p.remoteAddr = true ∧ cfg.fwdSelf = true
  | .dropSelf => anyContains cfg.myAddrs p.remoteAddr = true ∧ cfg.fwdSelf = false
  | .dropMulticast => anyContains cfg.myAddrs p.remoteAddr = false ∧ cfg.dropMulticast = true ∧ isMulticast p.remoteAddr = true
  | .noRoute r => anyContains cfg.myAddrs p.remoteAddr = false ∧ r = cfg.sendReject ∧ RouteOK cfg env p .none
  | .queued on st => anyContains cfg.myAddrs p.remoteAddr = false ∧ RouteOK cfg env p (.wait on st)
  | .fwDrop h st r => anyContains cfg.myAddrs p.remoteAddr = false ∧ r = cfg.sendReject ∧ RouteOK cfg env p (.ready h st)
      ∧ env.fwPass p h = false
  | .send h st => anyContains cfg.myAddrs p.remoteAddr = false ∧ RouteOK cfg env p (.ready h st) ∧ env.fwPass p h = true
  | .panic => anyContains cfg.myAddrs p.remoteAddr = false

theorem consume_spec (cfg : Nebula.Inside.Cfg) (env : Env κ) (p : Packet) :
    OutcomeOK cfg env p (consume cfg env (some p)) := by
  have hs := considerRouting_spec cfg env p
  unfold consume
  simp only
  split
  · rename_i hb
    simp only [Bool.and_eq_true] at hb
    exact hb
  · split
    · rename_i hself
      split
      · rename_i hf; exact ⟨hself, hf⟩
      · rename_i hf; exact ⟨hself, by simpa using hf⟩
    · rename_i hself
      have hself' : anyContains cfg.myAddrs p.remoteAddr = false := by simpa using hself
      split
      · rename_i hm
        simp only [Bool.and_eq_true] at hm
        exact ⟨hself', hm.1, hm.2⟩
      · split
        · rename_i hr; rw [hr] at hs; exact ⟨hself', rfl, hs⟩
        · exact hself'
        · rename_i on st hr; rw [hr] at hs; exact ⟨hself', hs⟩
        · rename_i h st hr
          rw [hr] at hs
          split
          · rename_i hp; exact ⟨hself', hs, hp⟩
          · rename_i hp; exact ⟨hself', rfl, hs, by simpa using hp⟩

/-- `myVpnAddrsTable.Contains(a)` is "a is one of our certified addresses". -/
theorem anyContains_myAddrs (my : Cert) (a : Addr) :
    anyContains (myAddrsOf my) a = my.networks.any (fun n => decide (n.addr = a)) := by
  unfold myAddrsOf
  have h1 : ∀ (nets : List Prefix) (t : Lite),
      anyContains (nets.foldl (fun t n => Lite.insert t (hostPrefix n.addr)) t) a
        = (anyContains t a || nets.any (fun n => decide (n.addr = a))) := by
    intro nets
    induction nets with
    | nil => simp
    | cons n nets ih =>
      intro t
      simp only [List.foldl_cons, ih, anyContains_insert, hostPrefix_contains, List.any_cons, Bool.or_assoc]
  rw [h1]
  simp [anyContains]

/-! ### congruence: which parts of the node state the routing decision reads -/

theorem getOrHandshake_congr (e1 e2 : Env κ) (st : List Addr) (a : Addr)
    (hh : e1.hosts a = e2.hosts a) (hp : e1.pending a = e2.pending a) :
    getOrHandshake e1 st a = getOrHandshake e2 st a := by
  simp only [getOrHandshake, hh, hp]

theorem fallback_congr (e1 e2 : Env κ) (c : Addr) :
    ∀ (gs st : List Addr), (∀ g ∈ gs, e1.hosts g = e2.hosts g ∧ e1.pending g = e2.pending g) →
      fallback e1 c gs st = fallback e2 c gs st := by
  intro gs
  induction gs with
  | nil => intro st _; rfl
  | cons g gs ih =>
    intro st hg
    have h1 := hg g List.mem_cons_self
    have h2 : ∀ x ∈ gs, e1.hosts x = e2.hosts x ∧ e1.pending x = e2.pending x :=
      fun x hx => hg x (List.mem_cons_of_mem _ hx)
    unfold fallback
    rw [getOrHandshake_congr e1 e2 st g h1.1 h1.2]
    split
    · exact ih st h2
    · split
      · rfl
      · exact ih _ h2

end Nebula.Lemmas.Inside
