/-
Lemmas about `Base/Wire` (protobuf wire format): round trips of varints, tags and length-delimited
values; length bounds of every `consume*` function (so that `b[n:]` never panics); fuel sufficiency of
the group loop.
-/
import Nebula.Base.Wire

namespace Nebula.Wire

theorem toNat_ofNat_lt {v : Nat} (h : v < 256) : (UInt8.ofNat v).toNat = v := by
  simp [UInt8.toNat_ofNat']; omega

/-! ### varints -/

theorem appendVarintAux_length_pos (n v : Nat) : 1 ≤ (appendVarintAux n v).length := by
  cases n with
  | zero => simp [appendVarintAux]
  | succ n => unfold appendVarintAux; split <;> simp

theorem appendVarintAux_length_le (n v : Nat) : (appendVarintAux n v).length ≤ n + 1 := by
  induction n generalizing v with
  | zero => simp [appendVarintAux]
  | succ n ih =>
    unfold appendVarintAux; split
    · simp
    · simp; have := ih (v / 128); omega

theorem appendVarint_length_pos (v : Nat) : 1 ≤ (appendVarint v).length :=
  appendVarintAux_length_pos 9 v

theorem appendVarint_length_le (v : Nat) : (appendVarint v).length ≤ 10 :=
  appendVarintAux_length_le 9 v

theorem consumeVarintAux_append (n : Nat) : ∀ (i v : Nat) (rest : Bytes), i + n = 9 → v < 2 ^ (7 * n + 1) →
    consumeVarintAux i (appendVarintAux n v ++ rest) = .ok (v, (appendVarintAux n v).length) := by
  induction n with
  | zero =>
    intro i v rest hi hv
    have hi9 : i = 9 := by omega
    have hv2 : v < 2 := by simpa using hv
    subst hi9
    simp [appendVarintAux, consumeVarintAux, toNat_ofNat_lt (show v < 256 by omega), hv2]
  | succ n ih =>
    intro i v rest hi hv
    have hi9 : i ≠ 9 := by omega
    unfold appendVarintAux
    split
    · rename_i h128
      simp [consumeVarintAux, hi9, toNat_ofNat_lt (show v < 256 by omega), h128]
    · rename_i h128
      have hy : (UInt8.ofNat (v % 128 + 128)).toNat = v % 128 + 128 :=
        toNat_ofNat_lt (by omega)
      have hv' : v / 128 < 2 ^ (7 * n + 1) := by
        apply Nat.div_lt_of_lt_mul
        have : 2 ^ (7 * (n + 1) + 1) = 128 * 2 ^ (7 * n + 1) := by
          rw [show 7 * (n + 1) + 1 = 7 + (7 * n + 1) by omega, Nat.pow_add]
        omega
      have := ih (i + 1) (v / 128) rest (by omega) hv'
      have h128' : ¬ (v % 128 + 128 < 128) := by omega
      rw [List.cons_append, consumeVarintAux]
      rw [if_neg hi9, hy, if_neg h128', this]
      show Except.ok (v % 128 + 128 - 128 + 128 * (v / 128), (appendVarintAux n (v / 128)).length + 1) = _
      have e : v % 128 + 128 - 128 + 128 * (v / 128) = v := by omega
      rw [List.length_cons, e]

/-- Round trip: any `uint64`, followed by anything. -/
theorem consumeVarint_append (v : Nat) (rest : Bytes) (hv : v < 2 ^ 64) :
    consumeVarint (appendVarint v ++ rest) = .ok (v, (appendVarint v).length) :=
  consumeVarintAux_append 9 0 v rest (by omega) (by simpa using hv)

/-- `ConsumeVarint` reads between 1 and 10 bytes, never more than there are, and its value fits in
a `uint64`. -/
theorem consumeVarintAux_bounds : ∀ (b : Bytes) (i v n : Nat), i ≤ 9 → consumeVarintAux i b = .ok (v, n) →
    1 ≤ n ∧ n ≤ b.length ∧ n + i ≤ 10 ∧ v < 2 ^ (7 * (9 - i) + 1) := by
  intro b
  induction b with
  | nil => intro i v n _ h; simp [consumeVarintAux] at h
  | cons y rest ih =>
    intro i v n hi h
    unfold consumeVarintAux at h
    split at h
    · rename_i h9; subst h9
      split at h
      · rename_i hy
        simp at h; obtain ⟨rfl, rfl⟩ := h
        simp; omega
      · simp at h
    · rename_i h9
      split at h
      · rename_i hy
        simp at h; obtain ⟨rfl, rfl⟩ := h
        refine ⟨by omega, by simp, by omega, ?_⟩
        have : 2 ^ 7 ≤ 2 ^ (7 * (9 - i) + 1) := Nat.pow_le_pow_right (by omega) (by omega)
        omega
      · rename_i hy
        split at h
        · rename_i v' n' hrec
          simp at h; obtain ⟨rfl, rfl⟩ := h
          have := ih (i + 1) v' n' (by omega) hrec
          refine ⟨by omega, by simp; omega, by omega, ?_⟩
          have e : 2 ^ (7 * (9 - i) + 1) = 128 * 2 ^ (7 * (9 - (i + 1)) + 1) := by
            rw [show 7 * (9 - i) + 1 = 7 + (7 * (9 - (i + 1)) + 1) by omega, Nat.pow_add]
          have hlt := y.toNat_lt
          omega
        · simp at h

theorem consumeVarint_bounds {b : Bytes} {v n : Nat} (h : consumeVarint b = .ok (v, n)) :
    1 ≤ n ∧ n ≤ b.length ∧ n ≤ 10 ∧ v < 2 ^ 64 := by
  have := consumeVarintAux_bounds b 0 v n (by omega) h
  simpa using this

/-! ### tags -/

theorem encodeTag_div (num typ : Nat) : encodeTag num typ / 8 = num := by
  unfold encodeTag; omega

theorem encodeTag_mod (num typ : Nat) (h : typ < 8) : encodeTag num typ % 8 = typ := by
  unfold encodeTag; omega

theorem appendTag_length_pos (num typ : Nat) : 1 ≤ (appendTag num typ).length :=
  appendVarint_length_pos _

/-- Round trip of a tag with a valid field number (`1 ≤ num ≤ MaxInt32`) and any 3-bit wire type. -/
theorem consumeTag_append (num typ : Nat) (rest : Bytes) (h1 : 1 ≤ num) (h2 : num < 2 ^ 31) (ht : typ < 8) :
    consumeTag (appendTag num typ ++ rest) = .ok (num, typ, (appendTag num typ).length) := by
  have hv : encodeTag num typ < 2 ^ 64 := by unfold encodeTag; omega
  unfold consumeTag appendTag
  rw [consumeVarint_append _ _ hv]
  simp only [encodeTag_div, encodeTag_mod _ _ ht]
  have a : ¬ (num > 2 ^ 31 - 1) := by omega
  have b : ¬ (num < 1) := by omega
  simp [a, b]

theorem consumeTag_bounds {b : Bytes} {num typ n : Nat} (h : consumeTag b = .ok (num, typ, n)) :
    1 ≤ n ∧ n ≤ b.length ∧ 1 ≤ num ∧ num < 2 ^ 31 ∧ typ < 8 := by
  unfold consumeTag at h
  split at h
  · simp at h
  · rename_i v m hv
    have := consumeVarint_bounds hv
    split at h
    · simp at h
    · split at h
      · simp at h
      · simp at h
        obtain ⟨rfl, rfl, rfl⟩ := h
        omega

/-! ### length-delimited values -/

theorem consumeBytes_append (v rest : Bytes) (hv : v.length < 2 ^ 64) :
    consumeBytes (appendBytes v ++ rest) = .ok (v, (appendBytes v).length) := by
  unfold consumeBytes appendBytes
  rw [List.append_assoc, consumeVarint_append _ _ hv]
  simp only [List.drop_left']
  simp

theorem consumeBytes_bounds {b v : Bytes} {n : Nat} (h : consumeBytes b = .ok (v, n)) :
    1 ≤ n ∧ n ≤ b.length ∧ v.length ≤ b.length := by
  unfold consumeBytes at h
  split at h
  · simp at h
  · rename_i m k hv
    have := consumeVarint_bounds hv
    split at h
    · simp at h
    · rename_i hm
      simp at h
      obtain ⟨rfl, rfl⟩ := h
      simp at hm ⊢
      omega

theorem consumeFixed32_bounds {b : Bytes} {n : Nat} (h : consumeFixed32 b = .ok n) : 1 ≤ n ∧ n ≤ b.length := by
  unfold consumeFixed32 at h; split at h <;> simp at h; omega

theorem consumeFixed64_bounds {b : Bytes} {n : Nat} (h : consumeFixed64 b = .ok n) : 1 ≤ n ∧ n ≤ b.length := by
  unfold consumeFixed64 at h; split at h <;> simp at h; omega

/-! ### groups and `ConsumeFieldValue` -/

/-- The group loop never reports more than was available, provided the nested consumer does not. -/
theorem groupLoop_bounds (inner : Nat → Nat → Bytes → Res Nat) (num : Nat)
    (hin : ∀ a t b m, inner a t b = .ok m → m ≤ b.length) :
    ∀ (fuel : Nat) (b : Bytes) (c m : Nat), groupLoop inner num fuel b c = some (.ok m) →
      1 ≤ m ∧ m ≤ c + b.length := by
  intro fuel
  induction fuel with
  | zero => intro b c m h; simp [groupLoop] at h
  | succ fuel ih =>
    intro b c m h
    unfold groupLoop at h
    split at h
    · simp at h
    · rename_i num2 typ2 n ht
      have hb := consumeTag_bounds ht
      simp only at h
      split at h
      · split at h
        · simp at h
        · simp at h; omega
      · split at h
        · simp at h
        · rename_i k hk
          have h1 := hin _ _ _ _ hk
          have h2 := ih _ _ _ h
          simp at h1 h2
          omega

/-- With `b.length < fuel` the loop always terminates by itself. -/
theorem groupLoop_fuel (inner : Nat → Nat → Bytes → Res Nat) (num : Nat)
    (_hin : ∀ a t b m, inner a t b = .ok m → m ≤ b.length) :
    ∀ (fuel : Nat) (b : Bytes) (c : Nat), b.length < fuel → groupLoop inner num fuel b c ≠ none := by
  intro fuel
  induction fuel with
  | zero => intro b c h; omega
  | succ fuel ih =>
    intro b c hlen
    unfold groupLoop
    split
    · simp
    · rename_i num2 typ2 n ht
      have hb := consumeTag_bounds ht
      simp only
      split
      · split <;> simp
      · split
        · simp
        · rename_i k hk
          apply ih
          simp
          omega

theorem fieldValueSwitch_bounds (typ : Nat) (b : Bytes) (grp : Unit → Res Nat) (n : Nat)
    (hg : ∀ n, grp () = .ok n → n ≤ b.length) (h : fieldValueSwitch typ b grp = .ok n) : n ≤ b.length := by
  unfold fieldValueSwitch at h
  split at h
  · split at h
    · rename_i hv; simp at h; have := consumeVarint_bounds hv; omega
    · simp at h
  · split at h
    · exact (consumeFixed32_bounds h).2
    · split at h
      · exact (consumeFixed64_bounds h).2
      · split at h
        · split at h
          · rename_i hv; simp at h; have := consumeBytes_bounds hv; omega
          · simp at h
        · split at h
          · exact hg n h
          · split at h <;> simp at h

theorem consumeFieldValueD_bounds : ∀ (d num typ : Nat) (b : Bytes) (n : Nat),
    consumeFieldValueD d num typ b = .ok n → n ≤ b.length := by
  intro d
  induction d with
  | zero =>
    intro num typ b n h
    unfold consumeFieldValueD at h
    exact fieldValueSwitch_bounds _ _ _ _ (by intro n hn; simp at hn) h
  | succ d ih =>
    intro num typ b n h
    unfold consumeFieldValueD at h
    refine fieldValueSwitch_bounds _ _ _ _ ?_ h
    intro m hm
    split at hm
    · rename_i r hr
      subst hm
      have := groupLoop_bounds (consumeFieldValueD d) num ih _ _ _ _ hr
      omega
    · simp at hm

theorem consumeFieldValue_bounds {num typ : Nat} {b : Bytes} {n : Nat}
    (h : consumeFieldValue num typ b = .ok n) : n ≤ b.length :=
  consumeFieldValueD_bounds _ _ _ _ _ h

/-- The `none` branch in `consumeFieldValueD` (fuel of the group loop) is never taken. -/
theorem consumeFieldValueD_group_fuel (d num : Nat) (b : Bytes) :
    groupLoop (consumeFieldValueD d) num (b.length + 1) b 0 ≠ none :=
  groupLoop_fuel _ _ (consumeFieldValueD_bounds d) _ _ _ (by omega)

/-! ### slicing -/

theorem sliceFrom_of_le {b : Bytes} {n : Nat} (h : n ≤ b.length) : sliceFrom b n = some (b.drop n) := by
  simp [sliceFrom, h]

theorem sliceFrom_append (x rest : Bytes) : sliceFrom (x ++ rest) x.length = some rest := by
  simp [sliceFrom]

end Nebula.Wire
