import Nebula.Lemmas.SshPathResolve

namespace Nebula.Lemmas.SshPath
open Nebula.SshPath Nebula.Spec.SshPath

theorem prefix_decompose (a b : Path) (h : (a ++ ['/']).isPrefixOf b = true) :
    b = a ++ '/' :: b.drop (a.length + 1) := by
  rw [List.isPrefixOf_iff_prefix] at h
  obtain ⟨t, ht⟩ := h
  subst ht
  simp

/-- aligning two spellings `..`ⁿ ++ names when the right one continues with a non-`..` element. -/
theorem replicate_align (xs ys : List Path) (hx : ∀ x ∈ xs, x ≠ dotdot) (y : Path) (ys' : List Path)
    (hys : ys = y :: ys') (hy : y ≠ dotdot) :
    ∀ (a b : Nat), List.replicate a dotdot ++ xs = List.replicate b dotdot ++ ys → a = b ∧ xs = ys := by
  intro a
  induction a with
  | zero =>
    intro b h
    cases b with
    | zero => simpa using h
    | succ b =>
      simp only [List.replicate_zero, List.nil_append, List.replicate_succ, List.cons_append] at h
      exact absurd rfl (hx dotdot (by rw [h]; exact List.mem_cons_self ..))
  | succ a ih =>
    intro b h
    cases b with
    | zero =>
      subst hys
      simp only [List.replicate_succ, List.cons_append, List.replicate_zero, List.nil_append] at h
      injection h with h1 h2
      exact absurd h1.symm hy
    | succ b =>
      simp only [List.replicate_succ, List.cons_append] at h
      injection h with _ h2
      have := ih b h2
      exact ⟨by omega, this.2⟩

theorem proper_ne_dotdot {l : Loc} (h : WF l) : ∀ x ∈ l.comps, x ≠ dotdot := fun x hx => (h.1 x hx).2.2.1

/-- The heart of C45: if the shortest spelling of `T` is the shortest spelling of `S`, a separator, and
a remainder that does not start with a `..` element, then `T` is strictly inside `S`. -/
theorem inside_of_prefix (S T : Loc) (hS : WF S) (hT : WF T) (rest : Path)
    (heq : render T = render S ++ '/' :: rest) (h1 : rest ≠ dotdot)
    (h2 : (dotdot ++ ['/']).isPrefixOf rest = false) : strictlyInside S T := by
  have hsplit : selems T = selems S ++ split rest := by
    rw [← split_render T hT, ← split_render S hS, heq, split_append_sep]
  cases hr : split rest with
  | nil => exact absurd hr (split_ne_nil rest)
  | cons h tl =>
    have hh : h ≠ dotdot := by
      intro e
      subst e
      rcases split_head rest _ _ hr with ⟨e, _⟩ | ⟨u, e⟩
      · exact h1 e
      · have : (dotdot ++ ['/']).isPrefixOf rest = true := by
          rw [List.isPrefixOf_iff_prefix]; exact ⟨u, by rw [e]; simp⟩
        rw [this] at h2; cases h2
    rw [hr] at hsplit
    unfold selems at hsplit
    cases hSa : S.abs <;> cases hTa : T.abs <;> simp only [hSa, hTa, Bool.false_eq_true, if_false, if_true] at hsplit
    · -- both relative
      by_cases heS : S.elems = []
      · rw [if_pos heS] at hsplit
        by_cases heT : T.elems = []
        · rw [if_pos heT] at hsplit; simp at hsplit
        · rw [if_neg heT] at hsplit
          have : dot ∈ T.elems := by rw [hsplit]; simp
          simp only [Loc.elems, List.mem_append, List.mem_replicate] at this
          rcases this with ⟨_, e⟩ | hm
          · exact absurd e (by decide)
          · exact absurd rfl (hT.1 dot hm).2.1
      · rw [if_neg heS] at hsplit
        by_cases heT : T.elems = []
        · rw [if_pos heT] at hsplit
          have hl := congrArg List.length hsplit
          cases hSe : S.elems with
          | nil => exact absurd hSe heS
          | cons c cs => rw [hSe] at hl; simp at hl
        · rw [if_neg heT] at hsplit
          simp only [Loc.elems, List.append_assoc] at hsplit
          -- the first element after the `..`s of S is a name of S or `h`: not `..`
          cases hSc : S.comps with
          | nil =>
            rw [hSc] at hsplit
            simp only [List.nil_append] at hsplit
            have := replicate_align T.comps (h :: tl) (proper_ne_dotdot hT) h tl rfl hh _ _ hsplit
            exact ⟨by rw [hSa, hTa], this.1, h, tl, by rw [hSc]; simpa using this.2⟩
          | cons c cs =>
            rw [hSc] at hsplit
            have hc : c ≠ dotdot := proper_ne_dotdot hS c (by rw [hSc]; exact List.mem_cons_self ..)
            have := replicate_align T.comps ((c :: cs) ++ h :: tl) (proper_ne_dotdot hT) c (cs ++ h :: tl) rfl hc _ _ hsplit
            exact ⟨by rw [hSa, hTa], this.1, h, tl, by rw [hSc]; exact this.2⟩
    · -- S relative, T absolute: the spelling of T starts with the empty piece, that of S does not
      exfalso
      have hhead : ∀ (x : Path) (xs : List Path), (if S.elems = [] then [dot] else S.elems) = x :: xs → x ≠ [] := by
        intro x xs hx
        by_cases heS : S.elems = []
        · rw [if_pos heS] at hx; injection hx with e _; subst e; decide
        · rw [if_neg heS] at hx
          exact elems_ne_nil_mem S hS x (by rw [hx]; exact List.mem_cons_self ..)
      cases hL : (if S.elems = [] then [dot] else S.elems) with
      | nil =>
        by_cases heS : S.elems = []
        · rw [if_pos heS] at hL; cases hL
        · rw [if_neg heS] at hL; exact heS hL
      | cons x xs =>
        rw [hL] at hsplit
        have hx := hhead x xs hL
        by_cases hTc : T.comps = []
        · rw [if_pos hTc] at hsplit; injection hsplit with e _; exact hx e.symm
        · rw [if_neg hTc] at hsplit; injection hsplit with e _; exact hx e.symm
    · -- S absolute, T relative
      exfalso
      have hheadT : ∀ (x : Path) (xs : List Path), (if T.elems = [] then [dot] else T.elems) = x :: xs → x ≠ [] := by
        intro x xs hx
        by_cases heT : T.elems = []
        · rw [if_pos heT] at hx; injection hx with e _; subst e; decide
        · rw [if_neg heT] at hx
          exact elems_ne_nil_mem T hT x (by rw [hx]; exact List.mem_cons_self ..)
      by_cases hSc : S.comps = []
      · rw [if_pos hSc] at hsplit
        exact hheadT [] _ hsplit rfl
      · rw [if_neg hSc] at hsplit
        exact hheadT [] _ hsplit rfl
    · -- both absolute
      have hSu : S.ups = 0 := hS.2 hSa
      have hTu : T.ups = 0 := hT.2 hTa
      by_cases hSc : S.comps = []
      · exfalso
        rw [if_pos hSc] at hsplit
        by_cases hTc : T.comps = []
        · rw [if_pos hTc] at hsplit; simp at hsplit
        · rw [if_neg hTc] at hsplit
          simp only [List.cons_append, List.nil_append] at hsplit
          injection hsplit with _ e
          have : ([] : Path) ∈ T.comps := by rw [e]; exact List.mem_cons_self ..
          exact (hT.1 [] this).1 rfl
      · rw [if_neg hSc] at hsplit
        by_cases hTc : T.comps = []
        · exfalso
          rw [if_pos hTc] at hsplit
          simp only [List.cons_append] at hsplit
          injection hsplit with _ e
          have hl := congrArg List.length e
          cases hSe : S.comps with
          | nil => exact absurd hSe hSc
          | cons c cs => rw [hSe] at hl; simp at hl
        · rw [if_neg hTc] at hsplit
          simp only [List.cons_append] at hsplit
          injection hsplit with _ e
          exact ⟨by rw [hSa, hTa], by rw [hSu, hTu], h, tl, e⟩

end Nebula.Lemmas.SshPath
