/-
Checksum validity of the per-segment header patches (C24), as corollaries of `Base/Csum`:
the IPv4 header checksum written by `patchIP` verifies.
-/
import Nebula.Lemmas.Segment

namespace Nebula.Lemmas.SegmentCsum
open Nebula.Csum Nebula.Segment Nebula.Gen Nebula.Lemmas.Segment Nebula.Lemmas.SegmentList

theorem ip_arith (W W3 t0 i0 c0 tl id c s b f : Nat)
    (hc : c % 65535 = W % 65535) (hs : s = c + (65535 - t0) + (65535 - c0) + (65535 - i0))
    (ht0 : t0 < 65536) (hi0 : i0 < 65536) (hc0 : c0 < 65536)
    (hb : b % 65535 = s % 65535) (hf : f % 65535 = (b + tl + id) % 65535) (hflt : f < 65536)
    (he : W3 + t0 + i0 + c0 = W + tl + id + (65535 - f)) : W3 % 65535 = 0 := by
  omega

theorem fold16_ffff (x : Nat) (h0 : x ≠ 0) (hm : x % 65535 = 0) : fold16 x = 65535 := by
  rw [fold16_eq]; unfold ocNorm; split <;> omega

/-- **IPv4 header checksum.** For an IPv4 header `A` (even length ≥ 20), the three writes of `patchIP`
(total length, ID, header checksum computed from the base sum over `A` with the old total length, ID
and checksum complemented out) produce a header that verifies — for every segment length that fits the
16-bit total-length field, every original ID and every segment index. -/
theorem ipv4_patch_verifies (A : List UInt8) (hdrLen spl origID i : Nat)
    (hA : 20 ≤ A.length) (htl : hdrLen + spl ≤ 65535) (hpos : 0 < hdrLen + spl) :
    verifies (patchIP A true hdrLen spl origID
      (fold2 ((checksum A 0 + compl16 (be16 A 2) + compl16 (be16 A 10) + compl16 (be16 A 4)) % 4294967296)) i) 0 := by
  unfold patchIP verifies
  simp only [virtio_ipv4TotalLenOff, virtio_ipv4IDOff, virtio_ipv4ChecksumOff, if_true]
  have htl' : (hdrLen + spl) % 65536 = hdrLen + spl := by omega
  have htl32 : (hdrLen + spl) % 4294967296 = hdrLen + spl := by omega
  rw [htl', htl32]
  generalize hid : (origID + i % 65536) % 65536 = id
  have hidlt : id < 65536 := by omega
  generalize htlv : hdrLen + spl = tl at *
  have t0 := be16_lt A 2
  have i0 := be16_lt A 4
  have c0 := be16_lt A 10
  have hc := checksum_rep A 0
  have hclt := checksum_lt A 0
  -- the base sum
  have hs32 : (checksum A 0 + compl16 (be16 A 2) + compl16 (be16 A 10) + compl16 (be16 A 4)) % 4294967296
      = checksum A 0 + compl16 (be16 A 2) + compl16 (be16 A 10) + compl16 (be16 A 4) := by
    unfold compl16; omega
  rw [hs32]
  generalize hs : checksum A 0 + compl16 (be16 A 2) + compl16 (be16 A 10) + compl16 (be16 A 4) = s
  have hslt : s < 4294967296 := by unfold compl16 at hs; omega
  rw [fold2_eq s hslt]
  have hb := fold16_rep s
  generalize fold16 s = b at hb
  have hsum32 : (b + tl + id) % 4294967296 = b + tl + id := by omega
  rw [hsum32, foldComplement_eq _ (by omega)]
  have hf := fold16_rep (b + tl + id)
  generalize fold16 (b + tl + id) = f at hf
  -- the three writes
  have l1 := set16_length A 2 tl (by omega)
  have e1 := wsum_set16 A 2 tl (by decide) (by omega) (by omega)
  have g1 := be16_set16_other A 2 tl 4 (by omega) (by omega)
  have g1' := be16_set16_other A 2 tl 10 (by omega) (by omega)
  have k1 := be16_set16_same A 2 tl (by omega) (by omega)
  generalize set16 A 2 tl = A1 at *
  have l2 := set16_length A1 4 id (by omega)
  have e2 := wsum_set16 A1 4 id (by decide) (by omega) hidlt
  have g2 := be16_set16_other A1 4 id 10 (by omega) (by omega)
  have k2 := be16_set16_other A1 4 id 2 (by omega) (by omega)
  generalize set16 A1 4 id = A2 at *
  have l3 := set16_length A2 10 (65535 - f) (by omega)
  have e3 := wsum_set16 A2 10 (65535 - f) (by decide) (by omega) (by omega)
  have k3 := be16_set16_other A2 10 (65535 - f) 2 (by omega) (by omega)
  have sp := wsum_split16 (set16 A2 10 (65535 - f)) 2 (by decide) (by omega)
  generalize set16 A2 10 (65535 - f) = A3 at *
  have he : wsum A3 + be16 A 2 + be16 A 4 + be16 A 10 = wsum A + tl + id + (65535 - f) := by omega
  have hnz : wsum A3 ≠ 0 := by omega
  have hs' : s = checksum A 0 + (65535 - be16 A 2) + (65535 - be16 A 10) + (65535 - be16 A 4) := by
    rw [← hs]; unfold compl16; omega
  have hcm : checksum A 0 % 65535 = wsum A % 65535 := by have := hc.1; simpa using this
  apply fold16_ffff
  · simpa using hnz
  · simp only [Nat.add_zero]
    exact ip_arith (wsum A) (wsum A3) (be16 A 2) (be16 A 4) (be16 A 10) tl id (checksum A 0) s b f
      hcm hs' t0 i0 c0 hb.1.1 hf.1.1 hf.2 he

end Nebula.Lemmas.SegmentCsum
