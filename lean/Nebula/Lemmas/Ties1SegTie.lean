/-
Tie of the model of `virtio.CorrectHdrLen` (C24) to overlay/tio/virtio/segment_linux.go regenerated from source: the
`uint16` header-length sums (wrapping), the TCP data-offset extraction, and every bounds comparison.
-/
import Nebula.Model.Segment
import Nebula.Gen.tie_ties1_seg

namespace Nebula.Lemmas.Ties1SegTie
open Nebula.Gen Nebula.Segment

theorem toNat16 (a : Nat) (ha : a < 65536) : (BitVec.ofNat 16 a).toNat = a := by
  simp only [BitVec.toNat_ofNat]; omega

theorem toInt64 (a : Nat) (ha : a < 2 ^ 62) : (BitVec.ofNat 64 a).toInt = a := by
  rw [BitVec.toInt_eq_toNat_cond]; simp only [BitVec.toNat_ofNat]; omega

theorem toInt_ext16 (a : BitVec 16) : (BitVec.setWidth 64 a).toInt = a.toNat := by
  have := a.isLt
  rw [BitVec.toInt_eq_toNat_cond]; simp only [BitVec.toNat_setWidth]; omega

theorem udp_hdrLen_formula (cs : Nat) (hcs : cs < 65536) :
    (tie_ties1_seg_udp_hdrLen (BitVec.ofNat 16 cs)).toNat = (cs + 8) % 65536 := by
  simp only [tie_ties1_seg_udp_hdrLen, BitVec.toNat_add, BitVec.toNat_ofNat]; omega

theorem tcp_short_formula (n cs : Nat) (hn : n < 2 ^ 62) (hcs : cs < 65536) :
    tie_ties1_seg_tcp_short (BitVec.ofNat 64 n) (BitVec.ofNat 16 cs)
      = decide (n ≤ (cs + virtio_tcpDataOffOff) % 65536) := by
  have e : (BitVec.ofNat 16 cs + 12#16).toNat = (cs + 12) % 65536 := by
    simp only [BitVec.toNat_add, BitVec.toNat_ofNat]; omega
  rw [show virtio_tcpDataOffOff = 12 from rfl]
  simp only [tie_ties1_seg_tcp_short, BitVec.sle, toInt64 n hn, toInt_ext16, e]
  rw [decide_eq_decide]; omega

theorem tcp_hlen_formula (d : BitVec 8) : (tie_ties1_seg_tcp_hlen d).toNat = d.toNat / 16 * 4 := by
  have := d.isLt
  simp only [tie_ties1_seg_tcp_hlen, BitVec.toNat_setWidth, BitVec.toNat_mul, BitVec.toNat_ushiftRight,
    BitVec.toNat_ofNat, Nat.shiftRight_eq_div_pow]
  omega

theorem tcp_hlen_bad_formula (t : BitVec 16) :
    tie_ties1_seg_tcp_hlen_bad t
      = decide (t.toNat < virtio_tcpHeaderMinLen ∨ t.toNat > virtio_tcpHeaderMaxLen) := by
  rw [Bool.eq_iff_iff]
  simp [tie_ties1_seg_tcp_hlen_bad, BitVec.ult, virtio_tcpHeaderMinLen, virtio_tcpHeaderMaxLen]

theorem tcp_hdrLen_formula (cs : Nat) (t : BitVec 16) (hcs : cs < 65536) :
    (tie_ties1_seg_tcp_hdrLen (BitVec.ofNat 16 cs) t).toNat = (cs + t.toNat) % 65536 := by
  have := t.isLt
  simp only [tie_ties1_seg_tcp_hdrLen, BitVec.toNat_add, BitVec.toNat_ofNat]; omega

theorem len_lt_hdr_formula (n x : Nat) (hn : n < 2 ^ 62) (hx : x < 65536) :
    tie_ties1_seg_len_lt_hdr (BitVec.ofNat 64 n) (BitVec.ofNat 16 x) = decide (n < x) := by
  simp only [tie_ties1_seg_len_lt_hdr, BitVec.slt, toInt64 n hn, toInt_ext16, toNat16 x hx]
  simp

theorem hdr_lt_csum_formula (x cs : Nat) (hx : x < 65536) (hcs : cs < 65536) :
    tie_ties1_seg_hdr_lt_csum (BitVec.ofNat 16 x) (BitVec.ofNat 16 cs) = decide (x < cs) := by
  simp only [tie_ties1_seg_hdr_lt_csum, BitVec.ult, toNat16 x hx, toNat16 cs hcs]

theorem csum_off_bad_formula (n cs co : Nat) (hn : n < 2 ^ 62) (hcs : cs < 65536) (hco : co < 65536) :
    tie_ties1_seg_csum_off_bad (tie_ties1_seg_cSumAt (BitVec.ofNat 16 cs) (BitVec.ofNat 16 co)) (BitVec.ofNat 64 n)
      = decide ((cs + co) % 65536 + 1 ≥ n) := by
  have e : (BitVec.ofNat 16 cs + BitVec.ofNat 16 co).toNat = (cs + co) % 65536 := by
    simp only [BitVec.toNat_add, BitVec.toNat_ofNat]; omega
  have hlt : (cs + co) % 65536 < 65536 := Nat.mod_lt _ (by decide)
  have e2 : (BitVec.setWidth 64 (BitVec.ofNat 16 cs + BitVec.ofNat 16 co) + 1#64).toInt = ((cs + co) % 65536 + 1 : Nat) := by
    rw [BitVec.toInt_eq_toNat_cond]
    simp only [BitVec.toNat_add, BitVec.toNat_setWidth, e, BitVec.toNat_ofNat]
    omega
  simp only [tie_ties1_seg_csum_off_bad, tie_ties1_seg_cSumAt, BitVec.sle, toInt64 n hn, e2]
  rw [decide_eq_decide]; omega

theorem failIf_congr (c c' : Prop) [Decidable c] [Decidable c'] (e : Err) (h : c ↔ c') :
    failIf c e = failIf c' e := by
  by_cases hc : c
  · have hc' : c' := h.mp hc
    simp [failIf, hc, hc']
  · have hc' : ¬ c' := fun x => hc (h.mpr x)
    simp [failIf, hc, hc']

theorem rd_bind_congr {β : Type} (p : List UInt8) (i : Nat) (f g : Nat → R β)
    (h : ∀ b : BitVec 8, f b.toNat = g b.toNat) : (rd p i >>= f) = (rd p i >>= g) := by
  unfold rd
  cases p[i]? with
  | none => rfl
  | some b =>
    have := h (BitVec.ofNat 8 b.toNat)
    have e : (BitVec.ofNat 8 b.toNat).toNat = b.toNat := by
      simpa using Nat.mod_eq_of_lt (UInt8.toNat_lt b)
    rw [e] at this
    exact this

/-- the checks after the header length is known, with the regenerated comparisons -/
def tailT (pkt : List UInt8) (h : Hdr) (hdrLen : Nat) : R Nat :=
  failIf (tie_ties1_seg_len_lt_hdr (BitVec.ofNat 64 pkt.length) (BitVec.ofNat 16 hdrLen) = true) .lenLtHdrLen >>= fun _ =>
  failIf (tie_ties1_seg_hdr_lt_csum (BitVec.ofNat 16 hdrLen) (BitVec.ofNat 16 h.csumStart) = true) .hdrLtCsum >>= fun _ =>
  failIf (tie_ties1_seg_csum_off_bad
      (tie_ties1_seg_cSumAt (BitVec.ofNat 16 h.csumStart) (BitVec.ofNat 16 h.csumOffset))
      (BitVec.ofNat 64 pkt.length) = true) .csumOff >>= fun _ =>
  pure hdrLen

/-- … and as the model has them -/
def tailM (pkt : List UInt8) (h : Hdr) (hdrLen : Nat) : R Nat := do
  failIf (pkt.length < hdrLen) .lenLtHdrLen
  failIf (hdrLen < h.csumStart) .hdrLtCsum
  let cSumAt := (h.csumStart + h.csumOffset) % 65536
  failIf (cSumAt + 1 ≥ pkt.length) .csumOff
  pure hdrLen

theorem tail_eq (pkt : List UInt8) (h : Hdr) (x : Nat) (hx : x < 65536) (hcs : h.csumStart < 65536)
    (hco : h.csumOffset < 65536) (hn : pkt.length < 2 ^ 62) : tailM pkt h x = tailT pkt h x := by
  unfold tailM tailT
  rw [failIf_congr _ _ _ (by rw [len_lt_hdr_formula _ _ hn hx, decide_eq_true_eq] :
      (tie_ties1_seg_len_lt_hdr (BitVec.ofNat 64 pkt.length) (BitVec.ofNat 16 x) = true) ↔ pkt.length < x),
    failIf_congr _ _ _ (by rw [hdr_lt_csum_formula _ _ hx hcs, decide_eq_true_eq] :
      (tie_ties1_seg_hdr_lt_csum (BitVec.ofNat 16 x) (BitVec.ofNat 16 h.csumStart) = true) ↔ x < h.csumStart),
    failIf_congr _ _ _ (by rw [csum_off_bad_formula _ _ _ hn hcs hco, decide_eq_true_eq] :
      (tie_ties1_seg_csum_off_bad
        (tie_ties1_seg_cSumAt (BitVec.ofNat 16 h.csumStart) (BitVec.ofNat 16 h.csumOffset))
        (BitVec.ofNat 64 pkt.length) = true) ↔ (h.csumStart + h.csumOffset) % 65536 + 1 ≥ pkt.length)]

theorem correctHdrLen_eq (pkt : List UInt8) (h : Hdr) (hcs : h.csumStart < 65536) (hco : h.csumOffset < 65536)
    (hn : pkt.length < 2 ^ 62) :
    correctHdrLen pkt h =
      if h.gso = GSO_UDP_L4 then
        tailT pkt h (tie_ties1_seg_udp_hdrLen (BitVec.ofNat 16 h.csumStart)).toNat
      else
        failIf (tie_ties1_seg_tcp_short (BitVec.ofNat 64 pkt.length) (BitVec.ofNat 16 h.csumStart) = true) .tcpShort
          >>= fun _ =>
        rd pkt ((h.csumStart + virtio_tcpDataOffOff) % 65536) >>= fun d =>
        failIf (tie_ties1_seg_tcp_hlen_bad (tie_ties1_seg_tcp_hlen (BitVec.ofNat 8 d)) = true) .tcpHLen >>= fun _ =>
        tailT pkt h (tie_ties1_seg_tcp_hdrLen (BitVec.ofNat 16 h.csumStart)
          (tie_ties1_seg_tcp_hlen (BitVec.ofNat 8 d))).toNat := by
  have hm : ∀ x, (do
      failIf (pkt.length < x) .lenLtHdrLen
      failIf (x < h.csumStart) .hdrLtCsum
      let cSumAt := (h.csumStart + h.csumOffset) % 65536
      failIf (cSumAt + 1 ≥ pkt.length) .csumOff
      pure x : R Nat) = tailM pkt h x := fun _ => rfl
  unfold correctHdrLen
  simp only [hm]
  by_cases hg : h.gso = GSO_UDP_L4
  · simp only [hg, if_true, pure_bind, udp_hdrLen_formula _ hcs]
    exact tail_eq pkt h _ (Nat.mod_lt _ (by decide)) hcs hco hn
  · simp only [hg, if_false, pure_bind]
    rw [failIf_congr _ _ _ (by rw [tcp_short_formula _ _ hn hcs, decide_eq_true_eq] :
      (tie_ties1_seg_tcp_short (BitVec.ofNat 64 pkt.length) (BitVec.ofNat 16 h.csumStart) = true)
        ↔ pkt.length ≤ (h.csumStart + virtio_tcpDataOffOff) % 65536)]
    congr 1; funext _
    apply rd_bind_congr; intro d
    simp only [BitVec.ofNat_toNat, BitVec.setWidth_eq]
    rw [failIf_congr _ _ _ (by rw [tcp_hlen_bad_formula, decide_eq_true_eq, tcp_hlen_formula] :
      (tie_ties1_seg_tcp_hlen_bad (tie_ties1_seg_tcp_hlen d) = true)
        ↔ (d.toNat / 16 * 4 < virtio_tcpHeaderMinLen ∨ d.toNat / 16 * 4 > virtio_tcpHeaderMaxLen))]
    congr 1; funext _
    rw [tcp_hdrLen_formula _ _ hcs, tcp_hlen_formula]
    exact tail_eq pkt h _ (Nat.mod_lt _ (by decide)) hcs hco hn

end Nebula.Lemmas.Ties1SegTie
