/-
Lemmas for C41: the executable specification implies the declarative per-entry relations of
`Spec/Routes` (what "well formed" and "takes exactly the stated value" mean, in words).
-/
import Nebula.Lemmas.RoutesEntry

namespace Nebula.Lemmas.Routes
open Nebula.Net Nebula.Routes Nebula.Spec.Routes

theorem mapOpt_all2 {α β : Type} (g : α → Option β) (R : α → β → Prop) (h : ∀ a b, g a = some b → R a b) :
    ∀ (l : List α) (xs : List β), mapOpt g l = some xs → All2 R l xs := by
  intro l
  induction l with
  | nil => intro xs hx; simp [mapOpt] at hx; subst hx; exact .nil
  | cons a as ih =>
    intro xs hx
    simp only [mapOpt] at hx
    cases ha : g a with
    | none => simp [ha] at hx
    | some b =>
      cases hm : mapOpt g as with
      | none => simp [ha, hm] at hx
      | some bs =>
        simp [ha, hm] at hx
        subst hx
        exact .cons (h a b ha) (ih bs hm)

theorem specRoute_sound (o : Oracle) (nets : List Prefix) (e : Yaml) (r : Route)
    (h : specRoute o nets e = some r) : RouteOK o nets e r := by
  unfold specRoute at h
  split at h
  · rename_i m
    split at h
    · rename_i mtu cidr e1 e2
      split at h
      · rename_i hc
        injection h with h
        subst h
        refine ⟨m, rfl, ?_, hc.1, ?_, ?_, rfl, rfl, rfl⟩
        · cases hl : lookup "mtu" m with
          | none => simp [hl] at e1
          | some v => exact ⟨v, rfl, by simpa [hl] using e1⟩
        · cases hl : lookup "route" m with
          | none => simp [hl] at e2
          | some v => exact ⟨v, rfl, by simpa [hl] using e2⟩
        · obtain ⟨n, hn, hcn⟩ := List.any_eq_true.mp hc.2
          simp only [Bool.and_eq_true, decide_eq_true_eq] at hcn
          exact ⟨n, hn, hcn.1, hcn.2⟩
      · cases h
    · cases h
  · cases h

theorem specGateway_sound (o : Oracle) (v : Yaml) (g : Gateway) (h : specGateway o v = some g) :
    GatewayOK o v g := by
  unfold specGateway at h
  split at h
  · rename_i gm
    split at h
    · rename_i s hs
      split at h
      · rename_i a w e1 e2
        split at h
        · rename_i hc
          injection h with h
          subst h
          exact ⟨gm, rfl, ⟨s, hs, e1⟩, e2, hc.1, hc.2⟩
        · cases h
      · cases h
    · cases h
  · cases h

theorem specVia_sound (o : Oracle) (v : Yaml) (gs : List Gateway) (h : specVia o v = some gs) :
    ViaOK o v gs := by
  unfold specVia at h
  split at h
  · rename_i s
    cases ha : o.parseAddr s with
    | none => simp [ha] at h
    | some a =>
      simp [ha] at h
      exact Or.inl ⟨s, a, rfl, ha, h.symm⟩
  · rename_i l
    exact Or.inr ⟨l, rfl, mapOpt_all2 _ _ (specGateway_sound o) l gs h⟩
  · cases h

theorem specUnsafe_sound (o : Oracle) (nets : List Prefix) (e : Yaml) (r : Route)
    (h : specUnsafe o nets e = some r) : UnsafeOK o nets e r := by
  unfold specUnsafe at h
  split at h
  · rename_i m
    split at h
    · rename_i mtu metric via cidr inst e1 e2 e3 e4 e5
      split at h
      · rename_i hc
        injection h with h
        subst h
        refine ⟨m, rfl, e1, hc.1, e2, hc.2.1.1, hc.2.1.2, ?_, ?_, ?_, ?_⟩
        · cases hl : lookup "via" m with
          | none => simp [hl] at e3
          | some v => exact ⟨v, rfl, specVia_sound o v via (by simpa [hl] using e3)⟩
        · cases hl : lookup "route" m with
          | none => simp [hl] at e4
          | some v => exact ⟨v, rfl, by simpa [hl] using e4⟩
        · unfold specInstall at e5
          cases hl : lookup "install" m with
          | none => simp [hl] at e5; simp [e5]
          | some v => simpa [hl] using e5
        · intro n hn
          have := hc.2.2
          rw [List.any_eq_false] at this
          simpa using this n hn
      · cases h
    · cases h
  · cases h

theorem specLoad_sound (g : Yaml → Option Route) (R : Yaml → Route → Prop)
    (h : ∀ e r, g e = some r → R e r) (v : Option Yaml) (rs : List Route)
    (hl : specLoad g v = some rs) : Loads R v rs := by
  unfold specLoad at hl
  split at hl
  · injection hl with hl; exact Or.inl ⟨Or.inl rfl, hl.symm⟩
  · injection hl with hl; exact Or.inl ⟨Or.inr rfl, hl.symm⟩
  · rename_i l
    exact Or.inr ⟨l, rfl, mapOpt_all2 g R h l rs hl⟩
  · cases hl

end Nebula.Lemmas.Routes
