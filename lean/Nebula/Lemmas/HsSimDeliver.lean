/-
Simulation, part 3 (C31): delivery of a handshake message to a node of the NODE model against `Side.receive`
of the abstract model. A first message (beginHandshake): answered from the cache (ErrAlreadySeen), or a
responder tunnel installed and answered, or — ErrExistingHostInfo / ErrLocalIndexCollision — nothing the
abstraction sees (the abstract scheduler loses the message instead). A reply (continueHandshake): completes the
pending handshake it answers, or is ignored.
-/
import Nebula.Lemmas.HsSimNode

namespace Nebula.Lemmas.HsSim
open Nebula.HsManager Nebula.Lemmas.HsManager Nebula.HsRace

/-- the abstract message a handshake packet stands for -/
def msgOf : PktInfo → Msg
  | .s1 h idx _ _ => .m1 (h + 1) idx
  | .s2 _ r i _ _ replyTo => .m2 (replyTo + 1) r i

theorem draw_keep (c : Cfg) (p : PSide) :
    (p.draw c).1.vpnIps = p.vpnIps ∧ (p.draw c).1.pindexes = p.pindexes ∧ (p.draw c).1.nextObj = p.nextObj := by
  unfold PSide.draw; split <;> exact ⟨rfl, rfl, rfl⟩

theorem genIndex_keep (c : Cfg) (f : Nat) (p : PSide) :
    (p.genIndex c f).1.vpnIps = p.vpnIps ∧ (p.genIndex c f).1.pindexes = p.pindexes ∧
    (p.genIndex c f).1.nextObj = p.nextObj := by
  induction f generalizing p with
  | zero => exact ⟨rfl, rfl, rfl⟩
  | succ f ih =>
    simp only [PSide.genIndex]
    have d := draw_keep c p
    split
    · have := ih (p.draw c).1
      exact ⟨this.1.trans d.1, this.2.1.trans d.2.1, this.2.2.trans d.2.2⟩
    · exact d

theorem prep_facts (cfg : Cfg) (p : PSide) (via : UNode) (pkt : Handle) (c : Completed) (rv : Nat) :
    (p.prepareResponder cfg via pkt c rv).1.vpnIps = p.vpnIps ∧
    (p.prepareResponder cfg via pkt c rv).1.pindexes = p.pindexes ∧
    (p.prepareResponder cfg via pkt c rv).1.nextObj = p.nextObj + 1 ∧
    (p.prepareResponder cfg via pkt c rv).2.1.id = p.nextObj ∧
    (p.prepareResponder cfg via pkt c rv).2.1.vpnAddrs = c.certAddrs ∧
    (p.prepareResponder cfg via pkt c rv).2.1.remoteIndex = c.remoteIndex ∧
    (p.prepareResponder cfg via pkt c rv).2.1.initiator = false ∧
    (p.prepareResponder cfg via pkt c rv).2.1.pkt0 = some pkt ∧
    (p.prepareResponder cfg via pkt c rv).2.1.pkt2.isSome = true := by
  have g := genIndex_keep cfg 8 p
  simp [PSide.prepareResponder, PSide.freshHandle, g.1, g.2.1, g.2.2]

theorem find_abs (l : List HostInfo) (pkt : Handle) :
    (l.map absTun).find? (fun t => t.hs == pkt + 1) = (l.find? (fun t => t.pkt0 == some pkt)).map absTun := by
  induction l with
  | nil => rfl
  | cons t ts ih =>
    have e : ((absTun t).hs == pkt + 1) = (t.pkt0 == some pkt) := by
      simp only [absTun]
      cases t.pkt0 <;> simp [encH]
    simp only [List.map_cons, List.find?_cons, e]
    cases (t.pkt0 == some pkt) <;> simp [ih]

/-- a node-side change that keeps the main hostmap, the pending table and the marks: no abstract step -/
theorem NInv.keep {n n' : Node} {a : Addr} (inv : NInv n a) (hm : n'.main = n.main)
    (hp : n'.p.vpnIps = n.p.vpnIps ∧ n'.p.pindexes = n.p.pindexes ∧ n.p.nextObj ≤ n'.p.nextObj)
    (hb : n'.blocked = n.blocked) (hd : n'.pdl = n.pdl) : NInv n' a := by
  obtain ⟨hp1, hp2, hp3⟩ := hp
  constructor
  · rw [hm]; exact inv.wf
  · intro h hmem; rw [hm] at hmem; have := inv.idlt h hmem; omega
  · intro h hmem; rw [hm] at hmem; exact inv.ini h hmem
  · rw [hb]; exact inv.blocked
  · intro e he; rw [hp1] at he
    have := inv.pkeys e he
    refine ⟨this.1, this.2.1, by omega, ?_⟩
    intro h hmem; rw [hm] at hmem; exact this.2.2.2 h hmem
  · rw [hp1]; exact inv.one
  · rw [hp1, hp2]; exact inv.pidx
  · rw [hp2, hm]; exact inv.disj
  · intro id hid; rw [hd] at hid; rw [hp1]
    exact ⟨by have := (inv.pdlok id hid).1; omega, (inv.pdlok id hid).2⟩

theorem SR.keep {n n' : Node} {a : Addr} {sd : Side} (sr : SR n a sd) (hm : n'.main = n.main)
    (hp : n'.p.vpnIps = n.p.vpnIps) (hc : n'.cfg = n.cfg) (hd : n'.pdl = n.pdl) : SR n' a sd :=
  ⟨by rw [hm]; exact sr.tun, by rw [absPending_congr a hp]; exact sr.pend,
   by rw [hm, hd]; exact sr.pdl, by rw [hc]; exact sr.addr⟩

/-- what a node may emit when it receives a first message, against the abstract reply -/
def ReplyOk (n : Node) (a : Addr) (o : Out) (via : UNode) (reply : List Msg) : Prop :=
  (o.tx = [] ∧ o.made = []) ∨
  (∃ h li ri now rv pkt, o.tx = [.hs h [via]] ∧ o.made = [.s2 h li ri now rv pkt] ∧ reply = [.m2 (pkt + 1) li ri]) ∨
  (∃ ex p2, ex ∈ n.main.getList a ∧ ex.pkt2 = some p2 ∧ o.tx = [.hs p2 [via]] ∧ o.made = [] ∧
    reply = [.m2 (encH ex.pkt0) ex.localIndex ex.remoteIndex])

theorem cac_spec (main : HostMap) (pidx : List (Nat × Nat)) (hi : HostInfo) :
    match checkAndComplete main pidx hi with
    | some (.alreadySeen t) => (main.getList (hi.vpnAddrs.headD 0)).find? (fun t => t.pkt0 == hi.pkt0) = some t
    | none => (main.getList (hi.vpnAddrs.headD 0)).find? (fun t => t.pkt0 == hi.pkt0) = none ∧
        alookup hi.localIndex main.indexes = none ∧ alookup hi.localIndex pidx = none
    | _ => True := by
  unfold checkAndComplete
  generalize hi.vpnAddrs.headD 0 = a0
  cases hprim : main.primary a0 with
  | none =>
    have hnil : main.getList a0 = [] := by
      unfold HostMap.primary at hprim; simpa using hprim
    simp only [hnil, List.find?_nil]
    split <;> first | trivial | (rename_i h; split at h <;> first | (split at h <;> simp_all) | simp_all)
  | some ex =>
    simp only
    cases hf : (main.getList a0).find? (fun t => t.pkt0 == hi.pkt0) with
    | some t => simp [hprim]
    | none =>
      simp only [hprim]
      split <;> first | trivial | (rename_i h; split at h <;> first | (split at h <;> first | (split at h <;> simp_all) | simp_all) | simp_all)

theorem mem_installList {hi h : HostInfo} {l : List HostInfo} (hm : h ∈ installList hi l) : h = hi ∨ h ∈ l := by
  unfold installList at hm
  split at hm
  · exact List.mem_cons.mp (List.dropLast_subset _ hm)
  · exact List.mem_cons.mp hm

/-- installing a new tunnel `hi` (identity `n.p.nextObj` for a responder, the pending handshake's for an initiator) -/
theorem install_sim {n : Node} {a : Addr} {sd : Side} (inv : NInv n a) (sr : SR n a sd) (hi : HostInfo) (p' : PSide)
    (hva : hi.vpnAddrs = [a]) (hid : ∀ x, x ∈ n.main.getList a → x.id ≠ hi.id)
    (hfree : alookup hi.localIndex n.main.indexes = none)
    (hini : hi.initiator = hi.pkt2.isNone) (hlt : hi.id < p'.nextObj) (hnp : n.pdl.contains hi.id = false)
    (hnext : n.p.nextObj ≤ p'.nextObj)
    (hkeys : ∀ e, e ∈ p'.vpnIps → e ∈ n.p.vpnIps ∧ e.2.id ≠ hi.id) (hone : p'.vpnIps.length ≤ 1)
    (hpidx : ∀ i id, alookup i p'.pindexes = some id →
      i ≠ hi.localIndex ∧ alookup i n.p.pindexes = some id ∧
      ∃ hh, alookup a p'.vpnIps = some hh ∧ hh.id = id ∧ hh.localIndex = i ∧ hh.ready = true)
    (sd' : Side) (htun : sd'.tunnels = (sd.install (absTun hi)).tunnels) (hpend : sd'.pending = absPending p' a)
    (hpdl : sd'.pdl = (sd.install (absTun hi)).pdl) (haddr : sd'.addr = sd.addr) :
    NInv { n with main := n.main.addHostInfo hi, p := p' } a ∧
    SR { n with main := n.main.addHostInfo hi, p := p' } a sd' := by
  have hadd := addHostInfo_list inv.wf hva hid hfree
  have hmemL : ∀ h, h ∈ (n.main.addHostInfo hi).getList a → h = hi ∨ h ∈ n.main.getList a := by
    intro h hm; rw [hadd.1] at hm; exact mem_installList hm
  constructor
  · constructor
    · exact hadd.2
    · intro h hm
      rcases hmemL h hm with e | e
      · subst e; exact hlt
      · have := inv.idlt h e; show h.id < p'.nextObj; omega
    · intro h hm
      rcases hmemL h hm with e | e
      · subst e; exact hini
      · exact inv.ini h e
    · exact inv.blocked
    · intro e he
      have h1 := hkeys e he
      have h2 := inv.pkeys e h1.1
      refine ⟨h2.1, h2.2.1, by show e.2.id < p'.nextObj; omega, ?_⟩
      intro h hm
      rcases hmemL h hm with e' | e'
      · subst e'; exact fun x => h1.2 x.symm
      · exact h2.2.2.2 h e'
    · exact hone
    · intro i id hi'
      exact (hpidx i id hi').2.2
    · intro i hi'
      cases hlk : alookup i (n.main.addHostInfo hi).indexes with
      | none => rfl
      | some h =>
        exfalso
        obtain ⟨id, hid'⟩ := Option.isSome_iff_exists.mp hi'
        have hp := hpidx i id hid'
        rcases addHostInfo_indexes hlk with e | e
        · subst e
          have := (hadd.2.idx_mem i h hlk).2
          exact hp.1 this.symm
        · have := inv.disj i (by rw [hp.2.1]; rfl)
          rw [this] at e; simp at e
    · intro id hid'
      have := inv.pdlok id hid'
      refine ⟨by show id < p'.nextObj; omega, ?_⟩
      intro e he
      exact this.2 e (hkeys e he).1
  · refine ⟨?_, hpend, ?_, by rw [haddr]; exact sr.addr⟩
    · rw [htun, install_abs sd hi _ sr.tun]
      show _ = ((n.main.addHostInfo hi).getList a).map absTun
      rw [hadd.1]
    · intro h hm
      rw [hpdl, install_pdl]
      show _ = n.pdl.contains h.id
      rcases hmemL h hm with e | e
      · subst e
        rw [hnp]
        rw [Bool.eq_false_iff]; simp [List.mem_filter]
      · have hne : absTun h ≠ absTun hi := by
          intro e'
          have e1 : h.localIndex = hi.localIndex := by
            have := congrArg Tun.loc e'; simpa [absTun] using this
          have := inv.wf.mem_idx h e
          rw [e1, hfree] at this; simp at this
        rw [← sr.pdl h e, Bool.eq_iff_iff]
        simp [List.mem_filter, hne]

/-- delivery of a first message -/
theorem stage1_sim {n : Node} {a : Addr} {sd : Side} (inv : NInv n a) (sr : SR n a sd)
    (via : UNode) (pkt : Handle) (c : Completed) (rv now : Nat) (hc : c.certAddrs = [a]) :
    NInv (n.beginHandshake via pkt (some c) rv now).1 a ∧
    ((SR (n.beginHandshake via pkt (some c) rv now).1 a sd ∧
        (n.beginHandshake via pkt (some c) rv now).2.tx = [] ∧ (n.beginHandshake via pkt (some c) rv now).2.made = []) ∨
     ∃ ridx, SR (n.beginHandshake via pkt (some c) rv now).1 a (sd.receive ridx (.m1 (pkt + 1) c.remoteIndex)).1 ∧
        ReplyOk n a (n.beginHandshake via pkt (some c) rv now).2 via (sd.receive ridx (.m1 (pkt + 1) c.remoteIndex)).2) := by
  unfold Node.beginHandshake
  simp only
  split
  · -- own address in the certificate: only the random stream and the handle counter move
    have g := genIndex_keep n.cfg 8 n.p
    refine ⟨inv.keep rfl ⟨g.1, g.2.1, Nat.le_of_eq g.2.2.symm⟩ rfl rfl, Or.inl ⟨sr.keep rfl g.1 rfl rfl, rfl, rfl⟩⟩
  · have pf := prep_facts n.cfg n.p via pkt c rv
    generalize n.p.prepareResponder n.cfg via pkt c rv = r at pf ⊢
    obtain ⟨p, hi, rid⟩ := r
    obtain ⟨f1, f2, f3, f4, f5, f6, f7, f8, f9⟩ := pf
    simp only at f1 f2 f3 f4 f5 f6 f7 f8 f9 ⊢
    have hva : hi.vpnAddrs = [a] := by rw [f5, hc]
    have keepInv : NInv { n with p := p } a := inv.keep rfl ⟨f1, f2, by show n.p.nextObj ≤ p.nextObj; omega⟩ rfl rfl
    have keepSR : SR { n with p := p } a sd := sr.keep rfl f1 rfl rfl
    -- the abstract lookup of the cached answer
    have hfind := find_abs (n.main.getList a) pkt
    have hrecv : sd.receive hi.localIndex (.m1 (pkt + 1) c.remoteIndex) =
        match (n.main.getList a).find? (fun t => t.pkt0 == some pkt) with
        | some t => (sd, if t.initiator then [] else [.m2 (pkt + 1) t.localIndex t.remoteIndex])
        | none => (sd.install (absTun hi), [.m2 (pkt + 1) hi.localIndex c.remoteIndex]) := by
      simp only [Side.receive, sr.tun, hfind]
      cases (n.main.getList a).find? (fun t => t.pkt0 == some pkt) with
      | some t => simp [absTun]
      | none => simp [absTun, f6, f7, f8, encH]
    have spec := cac_spec n.main p.pindexes hi
    rw [hva] at spec; simp only [List.headD_cons, f8] at spec
    cases hcac : checkAndComplete n.main p.pindexes hi with
    | some e =>
      cases e with
      | alreadySeen ex =>
        rw [hcac] at spec; simp only at spec
        have hexm : ex ∈ n.main.getList a := List.mem_of_find?_eq_some spec
        rw [spec] at hrecv
        simp only []
        cases hp2 : ex.pkt2 with
        | some p2 =>
          simp only []
          refine ⟨keepInv, Or.inr ⟨hi.localIndex, ?_, ?_⟩⟩
          · rw [hrecv]; exact keepSR
          · rw [hrecv]; right; right
            have hini : ex.initiator = false := by rw [inv.ini ex hexm, hp2]; rfl
            have hp0 : ex.pkt0 = some pkt := by simpa using List.find?_some spec
            exact ⟨ex, p2, hexm, hp2, rfl, rfl, by simp [hini, hp0, encH]⟩
        | none => exact ⟨keepInv, Or.inl ⟨keepSR, rfl, rfl⟩⟩
      | existing _ => exact ⟨keepInv, Or.inl ⟨keepSR, rfl, rfl⟩⟩
      | collision => exact ⟨keepInv, Or.inl ⟨keepSR, rfl, rfl⟩⟩
    | none =>
      rw [hcac] at spec
      obtain ⟨sf, s1, s2⟩ := spec
      rw [sf] at hrecv
      have hres := install_sim inv sr hi { p with lh := p.lh.refresh rid } hva
        (fun x hx => by have := inv.idlt x hx; omega) s1
        (by rw [f7]; cases h : hi.pkt2 <;> simp_all)
        (by show hi.id < p.nextObj; omega)
        (by
          cases hc' : n.pdl.contains hi.id with
          | false => rfl
          | true =>
            have := (inv.pdlok hi.id (by simpa using hc')).1
            omega)
        (by show n.p.nextObj ≤ p.nextObj; omega)
        (fun e he => by
          have he' : e ∈ n.p.vpnIps := by rw [← f1]; exact he
          exact ⟨he', by have := (inv.pkeys e he').2.2.1; omega⟩)
        (by show p.vpnIps.length ≤ 1; rw [f1]; exact inv.one)
        (fun i id hi' => by
          have hi2 : alookup i n.p.pindexes = some id := by rw [← f2]; exact hi'
          refine ⟨?_, hi2, ?_⟩
          · intro e; rw [e] at hi'; rw [s2] at hi'; simp at hi'
          · have := inv.pidx i id hi2
            show ∃ hh, alookup a p.vpnIps = some hh ∧ _
            rw [f1]; exact this)
        (sd.install (absTun hi)) rfl
        (by rw [install_pending, sr.pend]; exact (absPending_congr a f1).symm) rfl (by simp)
      simp only []
      refine ⟨hres.1, Or.inr ⟨hi.localIndex, by rw [hrecv]; exact hres.2, ?_⟩⟩
      rw [hrecv]; right; left
      exact ⟨_, _, _, _, _, _, rfl, rfl, rfl⟩

/-- delivery of a reply: `res` is what the Machine returned — `.completed c` only if the pending handshake registered
under `idx` is the one the reply answers (`hmatch`), `.err false` otherwise (Model/HsNet.lean `deliverTo`) -/
theorem stage2_sim {n : Node} {a : Addr} {sd : Side} (inv : NInv n a) (sr : SR n a sd)
    (via : UNode) (idx : Nat) (c : Completed) (replyTo : Handle) (hc : c.certAddrs = [a])
    (hself : n.cfg.myAddrs.contains a = false)
    (hmatch : ∀ hh, (alookup idx n.p.pindexes).bind n.p.pendingById = some hh → hh.pkt0 = some replyTo) :
    NInv (n.continueHandshake via idx (.completed c)).1 a ∧
    (SR (n.continueHandshake via idx (.completed c)).1 a sd ∨
     SR (n.continueHandshake via idx (.completed c)).1 a (sd.receive 0 (.m2 (replyTo + 1) c.remoteIndex idx)).1) ∧
    (n.continueHandshake via idx (.completed c)).2.made = [] ∧
    ∀ t, t ∈ (n.continueHandshake via idx (.completed c)).2.tx → ∀ h d, t ≠ .hs h d := by
  unfold Node.continueHandshake
  cases hlk : (alookup idx n.p.pindexes).bind n.p.pendingById with
  | none => exact ⟨inv, Or.inl sr, rfl, by simp⟩
  | some hh =>
    have hpk := hmatch hh hlk
    -- the pending handshake found through the index is THE pending handshake towards `a`
    obtain ⟨id, hid, hby⟩ : ∃ id, alookup idx n.p.pindexes = some id ∧ n.p.pendingById id = some hh := by
      cases h1 : alookup idx n.p.pindexes with
      | none => rw [h1] at hlk; simp at hlk
      | some id => rw [h1] at hlk; exact ⟨id, rfl, by simpa using hlk⟩
    obtain ⟨hh0, hl0, hid0, hli0, hr0⟩ := inv.pidx idx id hid
    have hv : n.p.vpnIps = [(a, hh0)] := by
      rcases vpnIps_shape inv with hv | ⟨x, hv⟩
      · rw [hv] at hl0; simp [alookup] at hl0
      · rw [hv, alookup_single] at hl0; simp at hl0; rw [hl0] at hv; exact hv
    have hheq : hh = hh0 := by
      unfold PSide.pendingById at hby
      rw [hv] at hby
      simp only [List.find?_cons, List.find?_nil] at hby
      split at hby <;> simp at hby
      exact hby.symm
    subst hheq
    have hmem : (a, hh) ∈ n.p.vpnIps := by rw [hv]; simp
    have hk := inv.pkeys _ hmem
    simp only [hr0, Bool.not_true, Bool.false_eq_true, if_false]
    generalize remoteListOf n.p.lh hh hh.vpnAddr = rl
    obtain ⟨lh, rid⟩ := rl
    simp only
    have hany : c.certAddrs.any (fun x => n.cfg.myAddrs.contains x) = false := by
      rw [hc]; simp only [List.any_cons, List.any_nil, Bool.or_false]; exact hself
    have hcont : c.certAddrs.contains hh.vpnAddr = true := by
      rw [hc, hk.2.1]; simp
    simp only [hany, hcont, Bool.not_true, Bool.false_eq_true, if_false]
    -- the pending side after DeleteHostInfo of the pending entry
    have hdel : ∀ (p0 : PSide), p0.vpnIps = n.p.vpnIps → p0.pindexes = n.p.pindexes →
        (p0.deletePending hh).vpnIps = [] ∧ (p0.deletePending hh).pindexes = aerase idx n.p.pindexes ∧
        (p0.deletePending hh).nextObj = p0.nextObj := by
      intro p0 h1 h2
      have hva' : hh.vpnAddr = a := hk.2.1
      unfold PSide.deletePending
      simp only [h1, h2, hva', hl0, hli0, hid, hid0]
      simp [aerase, hv]
    have hd := hdel { n.p with lh := lh.learn rid hh.vpnAddr via } rfl rfl
    generalize PSide.deletePending { n.p with lh := lh.learn rid hh.vpnAddr via } hh = pd at hd ⊢
    obtain ⟨d1, d2, d3⟩ := hd
    have hnone : ∀ i id', alookup i pd.pindexes = some id' → False := by
      intro i id' h
      rw [d2, alookup_aerase] at h
      split at h
      · simp at h
      · rename_i hne
        obtain ⟨hh1, h1, _, h3, _⟩ := inv.pidx i id' h
        rw [hl0] at h1; simp at h1; subst h1
        exact hne (h3.symm.trans hli0)
    have hfree : alookup (initiatorHostInfo hh via c).localIndex n.main.indexes = none := by
      show alookup hh.localIndex n.main.indexes = none
      rw [hli0]; exact inv.disj idx (by rw [hid]; rfl)
    have hnp : n.pdl.contains (initiatorHostInfo hh via c).id = false := by
      show n.pdl.contains hh.id = false
      cases hc' : n.pdl.contains hh.id with
      | false => rfl
      | true => exact absurd rfl ((inv.pdlok hh.id (by simpa using hc')).2 _ hmem)
    have hpend : sd.pending = some (encH hh.pkt0, hh.localIndex) := by
      rw [sr.pend]; simp [absPending, hl0, hr0]
    have hrecv : (sd.receive 0 (.m2 (replyTo + 1) c.remoteIndex idx)).1 =
        { (sd.install (absTun (initiatorHostInfo hh via c))) with pending := none } := by
      simp only [Side.receive, hpend, hpk, encH, hli0, beq_self_eq_true, Bool.and_self, if_true]
      simp [absTun, initiatorHostInfo, hpk, encH, hli0]
    have hres := install_sim inv sr (initiatorHostInfo hh via c) { pd with lh := pd.lh.refresh rid }
      (by show c.certAddrs = [a]; exact hc) (fun x hx => hk.2.2.2 x hx) hfree rfl
      (by show hh.id < pd.nextObj; rw [d3]; exact hk.2.2.1) hnp
      (by show n.p.nextObj ≤ pd.nextObj; rw [d3]; exact Nat.le_refl _)
      (fun e he => by
        have : e ∈ pd.vpnIps := he
        rw [d1] at this; simp at this)
      (by show pd.vpnIps.length ≤ 1; rw [d1]; simp)
      (fun i id' h => (hnone i id' h).elim)
      { (sd.install (absTun (initiatorHostInfo hh via c))) with pending := none } rfl
      (by show none = absPending pd a; simp [absPending, d1, alookup]) rfl (by simp)
    refine ⟨hres.1, Or.inr (by rw [hrecv]; exact hres.2), by first | rfl | trivial, ?_⟩
    intro t ht h d e
    simp only [List.mem_map] at ht
    obtain ⟨q, _, hq⟩ := ht
    rw [e] at hq; simp at hq

end Nebula.Lemmas.HsSim
