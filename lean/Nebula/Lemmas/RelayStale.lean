/-
C39 helper lemmas for the stale-pointer model (Model/RelayStale.lean): the entry points invoked with a dead
hostinfo object only extend the node state (`Ext`), never touch `hm.Relays` on behalf of the dead object,
and a hostinfo id that left the hostmap does not come back unless a new tunnel takes it.
-/
import Nebula.Model.RelayStale
import Nebula.Lemmas.RelayHist

namespace Nebula.Lemmas.Relay
open Nebula.Relay Nebula.Gen Nebula.Spec.Relay

/-- `d'` is the dead object `d` with record states possibly updated (identity of every record kept). -/
def DeadKeep (d d' : Host) : Prop :=
  d'.id = d.id ∧ ∀ r' ∈ d'.recs, ∃ r ∈ d.recs, r.type = r'.type ∧ r.peerAddr = r'.peerAddr

theorem DeadKeep.refl (d : Host) : DeadKeep d d := ⟨rfl, fun r' hr' => ⟨r', hr', rfl, rfl⟩⟩

theorem deadKeep_mapRecs (d : Host) (f : Relay → Relay) (hf : KeyPres f) : DeadKeep d (d.mapRecs f) := by
  refine ⟨rfl, ?_⟩
  intro r' hr'
  simp only [Host.mapRecs, List.mem_map] at hr'
  obtain ⟨r, hr, rfl⟩ := hr'
  exact ⟨r, hr, ((hf r).1).symm, ((hf r).2.1).symm⟩

theorem staleRequest_spec (n : Node) (c : Nat) (d : Host) (v1 : Bool) (frm target : Addr) (initIdx : Nat) :
    Ext n.amRelay n (staleCreateRelayRequest n c d v1 frm target initIdx).1 ∧
    DeadKeep d (staleCreateRelayRequest n c d v1 frm target initIdx).2.1 := by
  unfold staleCreateRelayRequest
  split
  · exact ⟨Ext.refl _ _, DeadKeep.refl _⟩
  · rename_i hfrm
    split
    · split
      · split
        · exact ⟨Ext.refl _ _, deadKeep_mapRecs _ _ (keyPres_completeIp _ _)⟩
        · split
          · split <;> exact ⟨Ext.refl _ _, DeadKeep.refl _⟩
          · split
            · split
              · exact ⟨Ext.refl _ _, DeadKeep.refl _⟩
              · exact ⟨Ext.refl _ _, deadKeep_mapRecs _ _ (keyPres_setState _ _)⟩
            · exact ⟨Ext.refl _ _, DeadKeep.refl _⟩
      · exact ⟨Ext.refl _ _, DeadKeep.refl _⟩
    · rename_i htgt
      split
      · exact ⟨Ext.refl _ _, DeadKeep.refl _⟩
      · rename_i ham
        have ham' : n.amRelay = true := by simpa using ham
        have nfrm : n.myAddrs.contains frm = false := by simpa using hfrm
        split
        · exact ⟨ext_pending _ (Ext.refl _ _), DeadKeep.refl _⟩
        · rename_i peer _
          split
          · exact ⟨Ext.refl _ _, DeadKeep.refl _⟩
          · split
            · exact ⟨Ext.refl _ _, DeadKeep.refl _⟩
            · rename_i n1 index c' hstep
              have e1 : Ext n.amRelay n n1 := by
                unfold fwdIndex at hstep
                split at hstep
                · simp only [Prod.mk.injEq, Option.some.injEq] at hstep
                  rw [← hstep.1.1]; exact Ext.refl _ _
                · exact ext_addRelay hstep (Or.inr ⟨ham', nfrm⟩) (by decide) (Ext.refl _ _)
              have e2 : Ext n.amRelay n (n1.modHost peer.id (·.mapRecs (setStateF frm nebula_Requested))) :=
                ext_modHost_map _ _ (keyPres_setState _ _) (stOK_setState _ _ (by decide) (by decide)) e1
              simp only
              split
              · exact ⟨e2, DeadKeep.refl _⟩
              · split <;> exact ⟨e2, DeadKeep.refl _⟩

theorem ext_respMiddle {n m : Node} (c : Nat) (v1 : Bool) (peerAddr relayTo : Addr) (e1 : Ext n.amRelay n m) :
    Ext n.amRelay n (respMiddle m c v1 peerAddr relayTo).1 := by
  unfold respMiddle
  split
  · exact e1
  · split
    · exact e1
    · split
      · exact e1
      · split
        · rename_i ph _ _ _ _ _ _
          have e2 := ext_modHost_map (am := n.amRelay) (n := n) ph.id _ (keyPres_setState relayTo nebula_Established) (stOK_setState _ _ (by decide) (by decide)) e1
          split
          · exact e2
          · exact e2
        · exact e1

theorem staleResponse_spec (n : Node) (c : Nat) (d : Host) (v1 : Bool) (relayTo : Addr) (initIdx respIdx : Nat) :
    Ext n.amRelay n (staleCreateRelayResponse n c d v1 relayTo initIdx respIdx).1 ∧
    DeadKeep d (staleCreateRelayResponse n c d v1 relayTo initIdx respIdx).2.1 := by
  unfold staleCreateRelayResponse
  split
  · exact ⟨Ext.refl _ _, DeadKeep.refl _⟩
  · simp only
    split
    · exact ⟨Ext.refl _ _, deadKeep_mapRecs _ _ (keyPres_completeIdx _ _)⟩
    · rename_i r _ _
      have e := ext_respMiddle (n := n) c v1 r.peerAddr relayTo (Ext.refl _ _)
      generalize respMiddle n c v1 r.peerAddr relayTo = res at e
      obtain ⟨n1, c1, o⟩ := res
      exact ⟨e, deadKeep_mapRecs _ _ (keyPres_completeIdx _ _)⟩

theorem staleHandleControl_spec (n : Node) (c : Nat) (d : Host) (m : Ctl) :
    Ext n.amRelay n (staleHandleControl n c d m).1 ∧ DeadKeep d (staleHandleControl n c d m).2.1 := by
  unfold staleHandleControl
  split
  rename_i v1 frm to _
  split
  · split
    · split
      · exact staleRequest_spec _ _ _ _ _ _ _
      · exact staleResponse_spec _ _ _ _ _ _ _
    · exact ⟨Ext.refl _ _, DeadKeep.refl _⟩
  · exact ⟨Ext.refl _ _, DeadKeep.refl _⟩

-- ---- hostinfo ids: what leaves the hostmap does not come back by itself

/-- no hostinfo with id `hid` is in the hostmap. -/
def NoId (hid : Nat) (n : Node) : Prop := ∀ h ∈ n.hosts, h.id ≠ hid

theorem noId_of_ids {hid : Nat} {n m : Node} (ids : ∀ h' ∈ m.hosts, ∃ h ∈ n.hosts, h.id = h'.id)
    (h : NoId hid n) : NoId hid m := by
  intro h' hh' heq
  obtain ⟨h0, hh0, e⟩ := ids h' hh'
  exact h h0 hh0 (by rw [e]; exact heq)

theorem ids_deleteHost (n : Node) (k : Nat) : ∀ h' ∈ (deleteHost n k).hosts, ∃ h ∈ n.hosts, h.id = h'.id := by
  rcases deleteHost_eq n k with e | e | ⟨hi, e⟩ <;> rw [e]
  · exact fun h' hh' => ⟨h', hh', rfl⟩
  · intro h' hh'
    simp only [unlinked, List.mem_filter] at hh'
    exact ⟨h', hh'.1, rfl⟩
  · intro h' hh'
    obtain ⟨h0, hh0, e0⟩ := (ext_disestablish (am := false) hi (Ext.refl _ (unlinked n k))).ids h' hh'
    simp only [unlinked, List.mem_filter] at hh0
    exact ⟨h0, hh0.1, e0⟩

theorem noId_unlinked (n : Node) (hid : Nat) : NoId hid (unlinked n hid) := by
  intro h hh
  simp only [unlinked, List.mem_filter, Bool.not_eq_true', beq_eq_false_iff_ne, ne_eq] at hh
  exact hh.2

theorem noId_deleteHost_self (n : Node) (hid : Nat) : NoId hid (deleteHost n hid) := by
  cases hf : n.findHost hid with
  | none =>
    have : deleteHost n hid = n := by unfold deleteHost; rw [hf]
    rw [this]; exact fresh_id hf
  | some hi =>
    rcases deleteHost_live hf with e | e <;> rw [e]
    · exact noId_unlinked n hid
    · exact noId_of_ids (ext_disestablish (am := false) hi (Ext.refl _ (unlinked n hid))).ids (noId_unlinked n hid)

theorem noId_deleteHost {hid : Nat} {n : Node} (k : Nat) (h : NoId hid n) : NoId hid (deleteHost n k) :=
  noId_of_ids (ids_deleteHost n k) h

theorem noId_tunnelUp {hid : Nat} {n : Node} (id rid : Nat) (addrs : List Addr) (via : Option Addr)
    (hne : id ≠ hid) (h : NoId hid n) : NoId hid (tunnelUp n id rid addrs via) := by
  rcases tunnelUp_cases n id rid addrs via with e | ⟨_, e⟩ <;> rw [e]
  · exact h
  · apply fold_evict (P := NoId hid) (fun n k => noId_deleteHost k)
    intro h' hh'
    simp only [List.mem_cons] at hh'
    rcases hh' with rfl | hh'
    · exact hne
    · exact h h' hh'

/-- is `op` a new tunnel taking local index `hid`? -/
def Op.isUpOf (hid : Nat) : Op → Bool
  | .up id _ _ _ => id == hid
  | _ => false

theorem noId_step {hid : Nat} {s : Node × Nat} (op : Op) (hop : Op.isUpOf hid op = false)
    (inv : Inv s.1) (h : NoId hid s.1) : NoId hid (step s op).1 := by
  cases op with
  | up id rid addrs via =>
    exact noId_tunnelUp id rid addrs via (by simpa [Op.isUpOf] using hop) h
  | down k => exact noId_deleteHost k h
  | ctl k m => exact noId_of_ids (ext_handleControl s.1 s.2 k m).ids h
  | reload b => exact h
  | setRemote k v =>
    have e : Ext false s.1 (s.1.modHost k (fun h => { h with remoteValid := v })) :=
      ext_modHost_other k _ (fun h => ⟨rfl, rfl⟩) (Ext.refl _ _)
    exact noId_of_ids e.ids h
  | start vpnIp v1 relays => exact noId_of_ids (ext_startRelays s.1 s.2 vpnIp v1 relays).ids h
  | migrate o nw v1 => exact noId_of_ids (ext_migrate s.1 s.2 o nw v1 inv.1).ids h
  | relayHs hh i =>
    have e : Ext false s.1 (relayHandshakeSeen s.1 hh i) :=
      ext_modHost_map hh _ (keyPres_setStateIdx _ _) (stOK_setStateIdx _ _ (by decide) (by decide)) (Ext.refl _ _)
    exact noId_of_ids e.ids h
  | used i => exact h
  | reloadUse b => exact h

-- ---- the invariant of histories with stale pointers

theorem my_deleteHost (n : Node) (k : Nat) : (deleteHost n k).myAddrs = n.myAddrs := by
  rcases deleteHost_eq n k with e | e | ⟨hi, e⟩ <;> rw [e]
  · rfl
  · exact (ext_disestablish (am := false) hi (Ext.refl _ (unlinked n k))).my

theorem my_tunnelUp (n : Node) (id rid : Nat) (addrs : List Addr) (via : Option Addr) :
    (tunnelUp n id rid addrs via).myAddrs = n.myAddrs := by
  rcases tunnelUp_cases n id rid addrs via with e | ⟨_, e⟩ <;> rw [e]
  exact fold_evict (P := fun m => m.myAddrs = n.myAddrs) (fun m k hm => by rw [my_deleteHost]; exact hm) _ _ rfl

theorem my_step {s : Node × Nat} (op : Op) (inv : Inv s.1) : (step s op).1.myAddrs = s.1.myAddrs := by
  cases op with
  | up id rid addrs via => exact my_tunnelUp _ _ _ _ _
  | down k => exact my_deleteHost _ _
  | ctl k m => exact (ext_handleControl s.1 s.2 k m).my
  | reload b => rfl
  | setRemote k v => rfl
  | start vpnIp v1 relays => exact (ext_startRelays s.1 s.2 vpnIp v1 relays).my
  | migrate o nw v1 => exact (ext_migrate s.1 s.2 o nw v1 inv.1).my
  | relayHs hh i => rfl
  | used i => rfl
  | reloadUse b => rfl

/-- the records kept by dead objects never name the node itself as a Forwarding peer (they were live records). -/
def DeadNS (s : SNode) : Prop :=
  ∀ d ∈ s.dead, ∀ r ∈ d.recs, r.type = nebula_ForwardingType → s.node.myAddrs.contains r.peerAddr = false

def SInv (s : SNode) : Prop := Inv s.node ∧ DeadNS s

def DeadSub (old new : List Host) : Prop := ∀ d' ∈ new, ∃ d ∈ old, DeadKeep d d'

theorem DeadSub.refl (l : List Host) : DeadSub l l := fun d' hd' => ⟨d', hd', DeadKeep.refl _⟩

theorem sinv_ext {am : Bool} {s : SNode} {m : Node} {dead' : List Host} (e : Ext am s.node m)
    (hd : DeadSub s.dead dead') (h : SInv s) : SInv { node := m, dead := dead' } := by
  refine ⟨⟨e.ns h.1.1, e.ro h.1.2.1, e.wf h.1.2.2⟩, ?_⟩
  intro d' hd' r' hr' hty
  obtain ⟨d, hdd, _, keep⟩ := hd d' hd'
  obtain ⟨r, hr, k1, k2⟩ := keep r' hr'
  show m.myAddrs.contains r'.peerAddr = false
  rw [e.my, ← k2]
  exact h.2 d hdd r hr (by rw [k1]; exact hty)

theorem sinv_sDelete {s : SNode} (hid : Nat) (h : SInv s) : SInv (sDelete s hid) := by
  unfold sDelete
  split
  · exact h
  · rename_i hi hf
    obtain ⟨⟨ns, ro, wf⟩, dns⟩ := h
    refine ⟨⟨ns_deleteHost _ ns, ro_deleteHost _ ro, wf_deleteHost _ wf⟩, ?_⟩
    intro d hd r hr hty
    show (deleteHost s.node hid).myAddrs.contains r.peerAddr = false
    rw [my_deleteHost]
    simp only [List.mem_cons, List.mem_filter] at hd
    rcases hd with rfl | ⟨hd, _⟩
    · exact ns d (findHost_some hf).1 r hr hty
    · exact dns d hd r hr hty

theorem sOldRecs_ns {s : SNode} {o : Nat} {recs : List Relay} (h : SInv s) (e : sOldRecs s o = some recs) :
    ∀ r ∈ recs, r.type = nebula_ForwardingType → s.node.myAddrs.contains r.peerAddr = false := by
  unfold sOldRecs at e
  split at e
  · rename_i oh hf
    simp only [Option.some.injEq] at e
    subst e
    exact fun r hr hty => h.1.1 oh (findHost_some hf).1 r hr hty
  · simp only [Option.map_eq_some_iff] at e
    obtain ⟨d, hd, rfl⟩ := e
    unfold SNode.findDead at hd
    exact fun r hr hty => h.2 d (List.mem_of_find?_eq_some hd) r hr hty

theorem sMigrate_spec (s : SNode) (c o nw : Nat) (v1 : Bool) (h : SInv s) :
    Ext s.node.amRelay s.node (sMigrate s c o nw v1).1.node ∧ (sMigrate s c o nw v1).1.dead = s.dead := by
  unfold sMigrate
  split
  · exact ⟨Ext.refl _ _, rfl⟩
  · rename_i recs hrecs
    split
    · have e := ext_migrateLoop (n := s.node) nw v1 recs (sOldRecs_ns h hrecs) s.node c [] (Ext.refl _ _)
      generalize migrateLoop nw v1 recs s.node c [] = res at e
      obtain ⟨n1, c1, o1⟩ := res
      exact ⟨e, rfl⟩
    · split
      · exact ⟨Ext.refl _ _, rfl⟩
      · generalize staleMigrateLoop s.node _ v1 recs c [] = res
        obtain ⟨c1, o1⟩ := res
        exact ⟨Ext.refl _ _, rfl⟩

theorem sinv_sMigrate (s : SNode) (c o nw : Nat) (v1 : Bool) (h : SInv s) : SInv (sMigrate s c o nw v1).1 := by
  obtain ⟨e, hd⟩ := sMigrate_spec s c o nw v1 h
  have := sinv_ext e (DeadSub.refl _) h
  rw [← hd] at this
  exact this

/-- `raceStart` either is `startRelays` (an extension) or tears the relay's tunnel down and registers nothing. -/
theorem raceStart_cases (s : SNode) (c : Nat) (vpnIp : Addr) (v1 : Bool) (relay : Addr) :
    ((raceStart s c vpnIp v1 relay).1.dead = s.dead ∧
        (raceStart s c vpnIp v1 relay).1.node = (startRelays s.node c vpnIp v1 [relay]).1) ∨
    ∃ hid, (raceStart s c vpnIp v1 relay).1 = sDelete s hid := by
  have plain : (racePlain s c vpnIp v1 relay).1.dead = s.dead ∧
      (racePlain s c vpnIp v1 relay).1.node = (startRelays s.node c vpnIp v1 [relay]).1 := by
    unfold racePlain
    generalize startRelays s.node c vpnIp v1 [relay] = res
    obtain ⟨n1, c1, o1⟩ := res
    exact ⟨rfl, rfl⟩
  unfold raceStart
  simp only
  split
  · exact Or.inl plain
  · split
    · exact Or.inl plain
    · split
      · exact Or.inl plain
      · split
        · exact Or.inl plain
        · split
          · exact Or.inl plain
          · exact Or.inr ⟨_, rfl⟩

theorem sinv_raceStart (s : SNode) (c : Nat) (vpnIp : Addr) (v1 : Bool) (relay : Addr) (h : SInv s) :
    SInv (raceStart s c vpnIp v1 relay).1 := by
  rcases raceStart_cases s c vpnIp v1 relay with ⟨hd, hn⟩ | ⟨hid, e⟩
  · have := sinv_ext (ext_startRelays s.node c vpnIp v1 [relay]) (DeadSub.refl _) h
    rw [← hd, ← hn] at this
    exact this
  · rw [e]; exact sinv_sDelete hid h

theorem sinv_staleCtl (x : SNode × Nat) (hid : Nat) (m : Ctl) (h : SInv x.1) : SInv (sStep x (.staleCtl hid m)).1 := by
  simp only [sStep]
  split
  · exact h
  · rename_i d hfd
    obtain ⟨e, keep⟩ := staleHandleControl_spec x.1.node x.2 d m
    generalize staleHandleControl x.1.node x.2 d m = res at e keep
    obtain ⟨n1, d1, c1, o1⟩ := res
    simp only [SNode.setDead]
    apply sinv_ext e ?_ h
    intro d' hd'
    simp only [List.mem_map] at hd'
    obtain ⟨h0, hh0, rfl⟩ := hd'
    split
    · rename_i heq
      exact ⟨d, by rw [← heq]; exact hh0, keep⟩
    · exact ⟨h0, hh0, DeadKeep.refl _⟩

theorem sinv_sStep (x : SNode × Nat) (op : SOp) (h : SInv x.1) : SInv (sStep x op).1 := by
  cases op with
  | base o =>
    have gen : ∀ o', SInv ({ x.1 with node := (step (x.1.node, x.2) o').1 } : SNode) := fun o' =>
      ⟨inv_step (s := (x.1.node, x.2)) o' h.1, fun d hd r hr hty => by
        show (step (x.1.node, x.2) o').1.myAddrs.contains r.peerAddr = false
        rw [my_step (s := (x.1.node, x.2)) o' h.1]; exact h.2 d hd r hr hty⟩
    cases o with
    | down k => exact sinv_sDelete k h
    | _ => exact gen _
  | staleCtl hid m => exact sinv_staleCtl x hid m h
  | migrate o nw v1 => exact sinv_sMigrate x.1 x.2 o nw v1 h
  | raceStart vpnIp v1 relay => exact sinv_raceStart x.1 x.2 vpnIp v1 relay h
  | forget hid =>
    exact ⟨h.1, fun d hd r hr hty => h.2 d (List.mem_filter.mp hd).1 r hr hty⟩

theorem sinv_sRun (ops : List SOp) : ∀ x : SNode × Nat, SInv x.1 → SInv (sRun x ops).1 := by
  induction ops with
  | nil => intro x h; exact h
  | cons op ops ih => intro x h; exact ih _ (sinv_sStep x op h)

theorem sinv_init (my : List Addr) (am : Bool) : SInv (sInit my am) :=
  ⟨inv_init my am, fun d hd => by simp [sInit] at hd⟩

-- ---- a hostinfo id that left the hostmap stays out (unless a new tunnel takes the id)

def SOp.isUpOf (hid : Nat) : SOp → Bool
  | .base o => Op.isUpOf hid o
  | _ => false

theorem noId_sDelete {hid : Nat} {s : SNode} (k : Nat) (h : NoId hid s.node) : NoId hid (sDelete s k).node := by
  unfold sDelete
  split
  · exact h
  · exact noId_deleteHost k h

theorem noId_sDelete_self (s : SNode) (hid : Nat) : NoId hid (sDelete s hid).node := by
  unfold sDelete
  split
  · rename_i hf; exact fresh_id hf
  · exact noId_deleteHost_self _ _

theorem noId_sStep {hid : Nat} (x : SNode × Nat) (op : SOp) (hop : SOp.isUpOf hid op = false)
    (inv : SInv x.1) (h : NoId hid x.1.node) : NoId hid (sStep x op).1.node := by
  cases op with
  | base o =>
    have gen : ∀ o', Op.isUpOf hid o' = false → NoId hid (step (x.1.node, x.2) o').1 := fun o' ho' =>
      noId_step (s := (x.1.node, x.2)) o' ho' inv.1 h
    cases o with
    | down k => exact noId_sDelete k h
    | _ => exact gen _ hop
  | staleCtl k m =>
    simp only [sStep]
    split
    · exact h
    · rename_i d hfd
      have e := (staleHandleControl_spec x.1.node x.2 d m).1
      generalize staleHandleControl x.1.node x.2 d m = res at e
      obtain ⟨n1, d1, c1, o1⟩ := res
      exact noId_of_ids e.ids h
  | migrate o nw v1 => exact noId_of_ids (sMigrate_spec x.1 x.2 o nw v1 inv).1.ids h
  | raceStart vpnIp v1 relay =>
    show NoId hid (raceStart x.1 x.2 vpnIp v1 relay).1.node
    rcases raceStart_cases x.1 x.2 vpnIp v1 relay with ⟨_, hn⟩ | ⟨k, e⟩
    · rw [hn]; exact noId_of_ids (ext_startRelays x.1.node x.2 vpnIp v1 [relay]).ids h
    · rw [e]; exact noId_sDelete k h
  | forget k => exact h

theorem noId_sRun {hid : Nat} (ops : List SOp) : ∀ x : SNode × Nat, (∀ op ∈ ops, SOp.isUpOf hid op = false) →
    SInv x.1 → NoId hid x.1.node → NoId hid (sRun x ops).1.node := by
  induction ops with
  | nil => intro x _ _ h; exact h
  | cons op ops ih =>
    intro x hops inv h
    exact ih _ (fun o ho => hops o (List.mem_cons_of_mem _ ho)) (sinv_sStep x op inv)
      (noId_sStep x op (hops op List.mem_cons_self) inv h)

-- ---- `Inv` in terms of the specification predicates

theorem ownersLive_of_inv {n : Node} (h : Inv n) : relayOwnersLive n = true := by
  unfold relayOwnersLive
  simp only [List.all_eq_true, List.any_eq_true, beq_iff_eq]
  intro p hp
  obtain ⟨h0, hh0, hid, _⟩ := h.2.1 p hp
  exact ⟨h0, hh0, hid⟩

theorem inOwnerState_of_inv {n : Node} (h : Inv n) : relayIndexInOwnerState n = true := by
  unfold relayIndexInOwnerState
  simp only [List.all_eq_true, Bool.or_eq_true, Bool.not_eq_true', beq_eq_false_iff_ne, ne_eq, List.any_eq_true, beq_iff_eq]
  intro p hp x hx
  by_cases c : x.id = p.2
  · right
    obtain ⟨h0, hh0, hid, r, hr, hi⟩ := h.2.1 p hp
    have : x = h0 := h.2.2.1 x hx h0 hh0 (by rw [c, hid])
    subst this
    exact ⟨r, hr, hi⟩
  · exact Or.inl c

theorem registered_of_inv {n : Node} (h : Inv n) : stateIndexesRegistered n = true := by
  unfold stateIndexesRegistered
  simp only [List.all_eq_true, List.any_eq_true, Bool.and_eq_true, beq_iff_eq]
  intro x hx r hr
  obtain ⟨p, hp, hpe⟩ := h.2.2.2.2.1 x hx r hr
  obtain ⟨h0, hh0, hid, r0, hr0, hi⟩ := h.2.1 p hp
  have := (h.2.2.2.1 x hx h0 hh0 r hr r0 hr0 (by rw [hi, hpe])).1
  exact ⟨p, hp, hpe, by rw [← hid, this]⟩

theorem noIndexOf_of_noId {n : Node} {hid : Nat} (h : Inv n) (no : NoId hid n) : noIndexOf n hid = true := by
  unfold noIndexOf
  simp only [List.all_eq_true, Bool.not_eq_true', beq_eq_false_iff_ne, ne_eq]
  intro p hp heq
  obtain ⟨h0, hh0, hid0, _⟩ := h.2.1 p hp
  exact no h0 hh0 (by rw [hid0, heq])

end Nebula.Lemmas.Relay
