/-
The liveness side of C18: a tracked flow that was never idle for its timeout keeps passing. Invariant `Live`:
for every tuple whose most recent packet that got past the address checks passed, the conntrack table still
holds its entry, with `Expires` = that packet's time + the timeout then in force — whatever the timer wheel did.
(Routine cache off; a version wrap forgets the table, so "no wrap since" is part of the premise: finding F16.)
-/
import Nebula.Lemmas.FwHist
namespace Nebula.Lemmas.Fw
open Nebula.Net Nebula.Fw Nebula.Spec.Fw

/-- `inConns` on one tuple keeps every live entry of another tuple. -/
theorem inConns_keeps_other (fw : Fw) (ct : Conntrack) (now : Nat) (cache : Cache) (p q : Packet) (pr : Peer)
    (c : Conn) (hq : q ≠ p) (hc : aget samePkt ct.conns q = some c) (hlive : now < c.expires) :
    aget samePkt (inConns fw ct now cache p pr).2.1.conns q = some c := by
  unfold inConns
  by_cases hcache : cache.has p = true
  · simpa [hcache] using hc
  · simp only [hcache, Bool.false_eq_true, if_false]
    have hne : ¬ p = q := fun e => hq e.symm
    have hk := purgeStep_keeps ct now q c hc hlive
    cases hp : aget samePkt (purgeStep ct now).conns p with
    | none => simpa using hk
    | some c0 =>
      simp only
      split
      · simpa [aget_aerase_pkt, hne] using hk
      · split
        · simpa [aget_aerase_pkt, hne] using hk
        · simpa [aget_aset_pkt, hne] using hk

/-- `Drop` of one tuple keeps every live entry of another tuple. -/
theorem drop_keeps_other (fw : Fw) (ct : Conntrack) (now : Nat) (cache : Cache) (p q : Packet) (incoming : Bool)
    (h : HostInfo) (c : Conn) (hq : q ≠ p) (hc : aget samePkt ct.conns q = some c) (hlive : now < c.expires) :
    aget samePkt (drop fw ct now cache p incoming h).2.1.conns q = some c := by
  rw [drop_eq]
  cases addrCheck fw.routable h.host p with
  | some v => exact hc
  | none =>
    simp only
    have hk := inConns_keeps_other fw ct now cache p q h.peer c hq hc hlive
    split
    · exact hk
    · split
      · rw [addConn_other fw _ now p q incoming hq]; exact hk
      · exact hk


/-- the packet got past the address checks (the verdict is the rules' / conntrack's). -/
def ctReached (e : Event) : Prop := e.verdict = .pass ∨ e.verdict = .noRule

/-- `w` is the most recent packet of tuple `p` that got past the address checks (events newest first). -/
def LastCT (evs : List Event) (p : Packet) (w : Event) : Prop :=
  ∃ pre post, evs = pre ++ w :: post ∧ w.pkt = p ∧ ctReached w ∧ ∀ x ∈ pre, x.pkt = p → ¬ ctReached x

theorem LastCT_cons {x : Event} {evs : List Event} {p : Packet} {w : Event} (h : LastCT (x :: evs) p w) :
    (w = x ∧ x.pkt = p ∧ ctReached x) ∨ (LastCT evs p w ∧ (x.pkt = p → ¬ ctReached x)) := by
  obtain ⟨pre, post, he, hp, hr, hall⟩ := h
  cases pre with
  | nil =>
    simp only [List.nil_append, List.cons.injEq] at he
    left; exact ⟨he.1.symm, by rw [he.1]; exact hp, by rw [he.1]; exact hr⟩
  | cons y pre' =>
    simp only [List.cons_append, List.cons.injEq] at he
    right
    refine ⟨⟨pre', post, he.2, hp, hr, fun z hz => hall z (List.mem_cons_of_mem _ hz)⟩, ?_⟩
    rw [he.1]; exact hall y (by simp)

/-- the version counter has not wrapped between event `w` and now. -/
def noWrapSince (s : Sys) (w : Event) : Prop := w.fw.rulesVersion + (s.reloads - w.reloads) < 65536

structure Live (s : Sys) (evs : List Event) : Prop where
  entry : ∀ p w, LastCT evs p w → w.verdict = .pass → s.now < w.time + w.fw.timeoutFor p.proto →
    noWrapSince s w →
    ∃ c, aget samePkt s.ct.conns p = some c ∧ c.expires = w.time + w.fw.timeoutFor p.proto
      ∧ (w.reloads = s.reloads → c.rulesVersion = s.fw.rulesVersion)
  verRel : ∀ e ∈ evs, e.fw.rulesVersion + (s.reloads - e.reloads) < 65536 →
    s.fw.rulesVersion = e.fw.rulesVersion + (s.reloads - e.reloads)

theorem live_init (fw : Fw) (period : Nat) : Live (Sys.new fw period) [] := by
  refine ⟨?_, by simp⟩
  rintro p w ⟨pre, post, he, _⟩
  simp at he

theorem live_sleep (s : Sys) (evs : List Event) (d : Nat) (h : Live s evs) : Live (s.sleep d) evs := by
  refine ⟨?_, h.verRel⟩
  intro p w hw hp hf hn
  exact h.entry p w hw hp (by simp only [Sys.sleep] at hf; omega) hn

theorem live_reload (s : Sys) (evs : List Event) (newFw : Fw) (hI : Inv s evs) (h : Live s evs) :
    Live (s.reload newFw) evs := by
  have hlt := hI.verLe.1
  unfold Sys.reload
  by_cases hw : (s.fw.rulesVersion + 1) % 65536 = 0
  · -- the wrap: nothing before it is "no wrap since"
    have hv : s.fw.rulesVersion = 65535 := by omega
    simp only [hw, if_true]
    refine ⟨?_, ?_⟩
    · intro p w hl _ _ hn
      exfalso
      have hmem : w ∈ evs := by obtain ⟨pre, post, he, _⟩ := hl; simp [he]
      have ht := (hI.times w hmem).2
      simp only [noWrapSince] at hn
      have := h.verRel w hmem (by omega)
      omega
    · intro e he hn
      exfalso
      have ht := (hI.times e he).2
      simp only at hn
      have := h.verRel e he (by omega)
      omega
  · have hv : (s.fw.rulesVersion + 1) % 65536 = s.fw.rulesVersion + 1 := by omega
    simp only [hw, if_false]
    refine ⟨?_, ?_⟩
    · intro p w hl hp hf hn
      have hmem : w ∈ evs := by obtain ⟨pre, post, he, _⟩ := hl; simp [he]
      have ht := (hI.times w hmem).2
      simp only [noWrapSince] at hn
      obtain ⟨c, hc, he, _⟩ := h.entry p w hl hp hf (by simp only [noWrapSince]; omega)
      exact ⟨c, hc, he, fun hr => by simp only at hr; omega⟩
    · intro e he hn
      have ht := (hI.times e he).2
      simp only at hn ⊢
      have := h.verRel e he (by omega)
      omega

theorem get_nocache (t : Ticker) (now : Nat) (hp : t.period = 0) : t.get now = (t, none) := by
  simp [Ticker.get, hp]

/-- a packet step keeps `Live` (routine cache off). -/
theorem live_packet (s : Sys) (evs : List Event) (p : Packet) (incoming : Bool) (h : HostInfo)
    (hL : Live s evs) (hp0 : s.ticker.period = 0) :
    Live (s.packet p incoming h).2 (evOf s p incoming h :: evs) := by
  have hg := get_nocache s.ticker s.now hp0
  have hsum := drop_summary s.fw s.ct s.now none p incoming h
  simp only at hsum
  have hpk : s.packet p incoming h =
      ((drop s.fw s.ct s.now none p incoming h).1,
       { s with ct := (drop s.fw s.ct s.now none p incoming h).2.1,
                ticker := s.ticker.store (drop s.fw s.ct s.now none p incoming h).2.2 }) := by
    simp only [Sys.packet, hg]
  have hother := fun q c (hq : q ≠ p) hc hl => drop_keeps_other s.fw s.ct s.now none p q incoming h c hq hc hl
  generalize hr : drop s.fw s.ct s.now none p incoming h = r at hsum hpk hother
  have hxv : (evOf s p incoming h).verdict = r.1 := by simp [evOf, hpk]
  refine ⟨?_, ?_⟩
  · intro q w hl hwp hf hn
    rw [hpk] at hf hn ⊢
    simp only [noWrapSince] at hn
    simp only at hf ⊢
    rcases LastCT_cons hl with ⟨hwx, hxq, _⟩ | ⟨hold, hnot⟩
    · -- the packet itself is the most recent one: it passed, so its entry was just written
      subst hwx
      have hq : q = p := hxq.symm
      subst hq
      rw [hxv] at hwp
      rcases hsum with ⟨hnp, _⟩ | ⟨hhas, _⟩ | ⟨_, _, _, ⟨c, _, _, _, hent⟩, _⟩ | ⟨_, _, _, _, hent, _⟩ | ⟨_, hno, _⟩
      · exact absurd hwp hnp
      · simp [Cache.has] at hhas
      · exact ⟨_, hent, rfl, fun _ => rfl⟩
      · exact ⟨_, hent, rfl, fun _ => rfl⟩
      · rw [hno] at hwp; cases hwp
    · obtain ⟨c, hc, he, hver⟩ := hL.entry q w hold hwp hf hn
      by_cases hq : q = p
      · -- an address-check failure of the same tuple: nothing changed
        subst hq
        have hnr : ¬ ctReached (evOf s q incoming h) := hnot rfl
        simp only [ctReached, hxv, not_or] at hnr
        rcases hsum with ⟨_, _, hct, _⟩ | ⟨hhas, _⟩ | ⟨_, hpass, _⟩ | ⟨_, hpass, _⟩ | ⟨_, hno, _⟩
        · rw [hct]; exact ⟨c, hc, he, hver⟩
        · simp [Cache.has] at hhas
        · exact absurd hpass hnr.1
        · exact absurd hpass hnr.1
        · exact absurd hno hnr.2
      · exact ⟨c, hother q c hq hc (by omega), he, hver⟩
  · intro e he hn
    rw [hpk] at hn ⊢
    simp only at hn ⊢
    rcases List.mem_cons.1 he with h1 | h1
    · subst h1
      simp [evOf]
    · exact hL.verRel e h1 hn

/-- **liveness at one step.** If the most recent packet of the tuple that got past the address checks passed, less
than that packet's timeout ago, with no version wrap since, and either no reload since or every rule-allowed packet
the flow could stem from has a direction the current rules still allow — then this packet, once past the address
checks, passes. -/
theorem packet_live (s : Sys) (evs : List Event) (p : Packet) (incoming : Bool) (h : HostInfo)
    (hI : Inv s evs) (hL : Live s evs)
    (haddr : addrCheck s.fw.routable h.host p = none)
    (w : Event) (hw : LastCT evs p w) (hwp : w.verdict = .pass)
    (hfresh : s.now < w.time + w.fw.timeoutFor p.proto) (hnw : noWrapSince s w)
    (hkeep : w.reloads = s.reloads
      ∨ ∀ o, Witness evs p o → o.ruleAllowed = true → (s.fw.table o.incoming).matches p o.incoming h.peer = true) :
    (s.packet p incoming h).1 = .pass := by
  obtain ⟨c, hc, he, hver⟩ := hL.entry p w hw hwp hfresh hnw
  simp only [Sys.packet]
  apply drop_valid_entry s.fw s.ct s.now _ p incoming h c hc (by omega) ?_ haddr
  rcases hkeep with hr | hall
  · exact Or.inl (hver hr)
  · obtain ⟨o, ho, hoi, hoa⟩ := hI.origin p c hc
    right
    rw [← hoi]
    exact hall o ho hoa


theorem packet_reached_addr (s : Sys) (p : Packet) (incoming : Bool) (h : HostInfo)
    (hr : (s.packet p incoming h).1 = .pass ∨ (s.packet p incoming h).1 = .noRule) :
    addrCheck s.fw.routable h.host p = none := by
  cases hac : addrCheck s.fw.routable h.host p with
  | none => rfl
  | some v =>
    exfalso
    simp only [Sys.packet] at hr
    rw [drop_eq] at hr
    simp only [hac] at hr
    rcases hr with hr | hr
    · exact addrCheck_ne_pass _ _ _ (by rw [hac, hr])
    · exact addrCheck_ne_noRule _ _ _ (by rw [hac, hr])

theorem live_step (s : Sys) (evs : List Event) (op : Op) (hI : Inv s evs) (hL : Live s evs)
    (hp0 : s.ticker.period = 0) : Live (s.step op).1 ((s.step op).2.toList ++ evs) := by
  cases op with
  | sleep d => exact live_sleep s evs d hL
  | packet p incoming h => exact live_packet s evs p incoming h hL hp0
  | reload newFw => exact live_reload s evs newFw hI hL

/-- histories with the routine cache off, carrying both invariants. -/
theorem runFrom_all_live (P : List Event → Event → Prop)
    (hstep : ∀ s evs op, Inv s evs → Live s evs → s.ticker.period = 0 →
      ∀ x, (s.step op).2 = some x → P evs x) :
    ∀ (ops : List Op) (s : Sys) (evs : List Event), Inv s evs → Live s evs → s.ticker.period = 0 →
      (∀ pre e post, evs = pre ++ e :: post → P post e) →
      ∀ pre e post, (Sys.runFrom (s, evs) ops).2 = pre ++ e :: post → P post e := by
  intro ops
  induction ops with
  | nil => intro s evs _ _ _ hgood; simpa [Sys.runFrom] using hgood
  | cons op ops ih =>
    intro s evs hI hL hper hgood
    simp only [Sys.runFrom]
    apply ih _ _ (inv_step s evs op hI) (live_step s evs op hI hL hper) ((step_ticker s op).1.trans hper)
    intro pre e post hsplit
    cases hx : (s.step op).2 with
    | none =>
      rw [hx] at hsplit
      exact hgood pre e post (by simpa using hsplit)
    | some x =>
      rw [hx] at hsplit
      simp only [Option.toList_some, List.singleton_append] at hsplit
      cases pre with
      | nil =>
        simp only [List.nil_append, List.cons.injEq] at hsplit
        obtain ⟨h1, h2⟩ := hsplit
        subst h1; subst h2
        exact hstep s evs op hI hL hper x hx
      | cons y pre' =>
        simp only [List.cons_append, List.cons.injEq] at hsplit
        exact hgood pre' e post hsplit.2

theorem run_all_live (P : List Event → Event → Prop)
    (hstep : ∀ s evs op, Inv s evs → Live s evs → s.ticker.period = 0 →
      ∀ x, (s.step op).2 = some x → P evs x)
    (fw : Fw) (hv : fw.rulesVersion < 65536) (ops : List Op) :
    ∀ pre e post, ((Sys.new fw 0).run ops).2 = pre ++ e :: post → P post e := by
  apply runFrom_all_live P hstep ops _ [] (inv_init fw 0 hv) (live_init fw 0) rfl
  intro pre e post h
  simp at h

end Nebula.Lemmas.Fw
