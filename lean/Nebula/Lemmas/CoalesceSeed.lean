/-
C23: the L4 checksum field of every offloaded write holds the pseudo-header sum (`NEEDS_CSUM` seed).
-/
import Nebula.Lemmas.CoalesceGeom

namespace Nebula.Lemmas.Coalesce
open Nebula.Coalesce Nebula.Gen
open Nebula.Spec
open Nebula.Spec.KernelGSO (seedOk writeSeedOk wordSum pseudoWords)

theorem sum16_eq_wordSum (b : Bytes) : sum16 b = wordSum b := by
  induction b using sum16.induct with
  | case1 => rfl
  | case2 x => rfl
  | case3 x y rest ih => simp only [sum16, wordSum, ih]

theorem wordSum_append_even (a b : Bytes) (h : a.length % 2 = 0) : wordSum (a ++ b) = wordSum a + wordSum b := by
  induction a using sum16.induct with
  | case1 => simp [wordSum]
  | case2 x => simp at h
  | case3 x y rest ih =>
    simp only [List.length_cons] at h
    simp only [List.cons_append, wordSum]
    rw [ih (by omega)]; omega

theorem wordSum_le (b : Bytes) : wordSum b ≤ 65535 * ((b.length + 1) / 2) := by
  induction b using sum16.induct with
  | case1 => simp [wordSum]
  | case2 x => have : x.toNat < 256 := UInt8.toNat_lt_size x; simp [wordSum]; omega
  | case3 x y rest ih =>
    have : x.toNat < 256 := UInt8.toNat_lt_size x; have : y.toNat < 256 := UInt8.toNat_lt_size y
    simp only [wordSum, List.length_cons]
    omega

theorem fold16_props (x : Nat) (hx : x < 4294967296) :
    fold16 x < 65536 ∧ fold16 x % 65535 = x % 65535 ∧ (fold16 x = 0 → x = 0) := by
  unfold fold16
  simp only
  omega

/-- equal reads on a range give equal slices -/
theorem slice_congr {a b : Bytes} {lo hi : Nat} (ha : hi ≤ a.length) (hb : hi ≤ b.length)
    (h : ∀ k, lo ≤ k → k < hi → rd a k = rd b k) : slice a lo hi = slice b lo hi := by
  apply ext_rd
  · rw [slice_length, slice_length]; omega
  · intro k hk
    rw [slice_length] at hk
    simp only [slice, rd_drop]
    rw [rd_take _ _ _ (by omega), rd_take _ _ _ (by omega)]
    exact h _ (by omega) (by omega)

theorem slice_split (b : Bytes) (lo mid hi : Nat) (h1 : lo ≤ mid) (h2 : mid ≤ hi) :
    slice b lo hi = slice b lo mid ++ slice b mid hi := by
  apply ext_rd
  · simp only [List.length_append, slice_length]; omega
  · intro k hk
    rw [slice_length] at hk
    rw [rd_append, slice_length]
    simp only [slice, rd_drop]
    split
    · rw [rd_take _ _ _ (by omega), rd_take _ _ _ (by omega)]
    · rw [rd_take _ _ _ (by omega), rd_take _ _ _ (by omega)]
      congr 1; omega

/-- `flushHdr` before the checksum seed is written -/
def flushPre (tcp : Bool) (s : Slot) : Bytes :=
  let hdr := slice s.rawPkt 0 s.hdrLen
  let total := s.hdrLen + s.totalPay
  let l4Len := total - s.ipHdrLen
  let hdr :=
    if s.isV6 then putU16 hdr 4 l4Len
    else
      let hdr := putU16 hdr 2 total
      let hdr := (hdr.set 10 0).set 11 0
      putU16 hdr 10 (ipv4HdrChecksum (slice hdr 0 s.ipHdrLen))
  if tcp then hdr else putU16 hdr (s.ipHdrLen + 4) l4Len

theorem flushHdr_eq (tcp : Bool) (s : Slot) :
    flushHdr tcp s = putU16 (flushPre tcp s) (if tcp then s.ipHdrLen + 16 else s.ipHdrLen + 6)
      (foldOnceNoInvert (pseudoSum s.isV6 (flushPre tcp s) (if tcp then batch_ipProtoTCP else batch_ipProtoUDP)
        (s.hdrLen + s.totalPay - s.ipHdrLen))) := rfl

theorem length_flushPre (tcp : Bool) (s : Slot) : (flushPre tcp s).length = min s.hdrLen s.rawPkt.length := by
  unfold flushPre
  simp only
  split <;> split <;> simp [length_putU16, slice_zero]

theorem slotOut_seed {tcp : Bool} {s : Slot} (hok : SlotOK tcp s) : writeSeedOk (slotOut tcp s) = true := by
  unfold slotOut
  cases hv : s.verbatim with
  | true => simp [writeSeedOk]
  | false =>
    have hc := hok.coal hv
    simp only [Bool.false_eq_true, false_or]
    by_cases h1 : s.numSeg = 1
    · rw [if_pos h1]; rfl
    · rw [if_neg h1]
      have SF := seedFacts hc
      have hmin := SF.hmin
      have hl8 : s.ipHdrLen + 8 ≤ s.hdrLen := by cases tcp <;> simp at hmin <;> omega
      have hraw : s.rawPkt.length = (seedOf s).length := length_rawPkt hc
      have hLraw : s.hdrLen ≤ s.rawPkt.length := by rw [hraw]; have := SF.lenP0; omega
      have hhl : (flushHdr tcp s).length = s.hdrLen := by rw [length_flushHdr]; omega
      have hpl : (flushPre tcp s).length = s.hdrLen := by rw [length_flushPre]; omega
      have hflat : s.payIovs.flatten.length = s.totalPay := by rw [length_flatten_eq_sum, hc.total]
      have hcap := hc.cap
      have hco : (if tcp = true then s.ipHdrLen + 16 else s.ipHdrLen + 6) + 1 < s.hdrLen := by
        cases tcp <;> simp at hmin ⊢ <;> omega
      have hcoge : s.ipHdrLen + 6 ≤ (if tcp = true then s.ipHdrLen + 16 else s.ipHdrLen + 6) := by
        cases tcp <;> simp
      -- bytes below the transport checksum field are those of `flushPre`
      have rdpre : ∀ k, k < s.ipHdrLen + 6 → rd (flushHdr tcp s) k = rd (flushPre tcp s) k := by
        intro k hk
        rw [flushHdr_eq, rd_putU16_ne _ _ _ _ (by omega) (by omega)]
      have hT : ((flushHdr tcp s).drop s.ipHdrLen).length = s.hdrLen - s.ipHdrLen := by simp [hhl]
      -- the seed that was written
      have hseed : u16At (flushHdr tcp s) (if tcp = true then s.ipHdrLen + 16 else s.ipHdrLen + 6) =
          fold16 (pseudoSum s.isV6 (flushPre tcp s) (if tcp = true then 6 else 17)
            (s.hdrLen + s.totalPay - s.ipHdrLen)) % 65536 := by
        rw [flushHdr_eq, u16At_putU16 _ _ _ (by rw [hpl]; exact hco)]
        cases tcp <;> rfl
      have nfree0 : ¬ FlushW tcp s.isV6 s.ipHdrLen 0 := by
        have : 20 ≤ s.ipHdrLen := by have := SF.l4; cases h6 : s.isV6 <;> simp [h6] at this <;> omega
        intro hw; rcases hw with ⟨_, e⟩ | ⟨_, e⟩ | ⟨_, e⟩ | ⟨_, e⟩ <;> omega
      have b0 : byteAt (slice (flushHdr tcp s) 0 s.ipHdrLen) 0 = byteAt (seedOf s) 0 := by
        have : 20 ≤ s.ipHdrLen := by have := SF.l4; cases h6 : s.isV6 <;> simp [h6] at this <;> omega
        simp only [byteAt_rd]
        rw [slice_zero, rd_take _ _ _ (by omega), rd_flushHdr tcp s 0 (by omega) nfree0, rd_rawPkt hc 0 (by omega)]
      have hseedT : u16At ((flushHdr tcp s).drop s.ipHdrLen) (if tcp = true then 16 else 6) =
          u16At (flushHdr tcp s) (if tcp = true then s.ipHdrLen + 16 else s.ipHdrLen + 6) := by
        simp only [u16At, byteAt_rd, rd_drop]
        cases tcp <;> simp only [Bool.false_eq_true, ↓reduceIte, Nat.add_assoc]
      have hl4len : s.hdrLen - s.ipHdrLen + s.totalPay = s.hdrLen + s.totalPay - s.ipHdrLen := by omega
      have hsum : pseudoSum s.isV6 (flushPre tcp s) (if tcp = true then 6 else 17) (s.hdrLen + s.totalPay - s.ipHdrLen) =
          pseudoWords (decide (byteAt (slice (flushHdr tcp s) 0 s.ipHdrLen) 0 / 16 = 6))
            (slice (flushHdr tcp s) 0 s.ipHdrLen) (if tcp = true then 6 else 17) (s.hdrLen + s.totalPay - s.ipHdrLen) := by
        unfold pseudoSum pseudoWords
        rw [b0]
        cases h6 : s.isV6 with
        | false =>
          have hl4 : s.ipHdrLen = 20 := by have := SF.l4; simpa [h6] using this
          have h45 := SF.v4 h6
          simp only [h45, Nat.reduceDiv, Nat.reduceEqDiff, decide_false, Bool.false_eq_true, ↓reduceIte]
          have e : ((slice (flushHdr tcp s) 0 s.ipHdrLen).take 20).drop 12 = slice (flushPre tcp s) 12 20 := by
            show slice (slice (flushHdr tcp s) 0 s.ipHdrLen) 12 20 = _
            apply slice_congr
            · rw [slice_length, hhl]; omega
            · rw [hpl]; omega
            · intro k h1 h2
              rw [slice_zero, rd_take _ _ _ (by omega)]
              exact rdpre k (by omega)
          rw [e, slice_split _ 12 16 20 (by omega) (by omega),
            wordSum_append_even _ _ (by rw [slice_length, hpl]; omega), sum16_eq_wordSum, sum16_eq_wordSum]
          have b1 := wordSum_le (slice (flushPre tcp s) 12 16)
          have b2 := wordSum_le (slice (flushPre tcp s) 16 20)
          rw [slice_length, hpl] at b1 b2
          have : (if tcp = true then 6 else 17) ≤ 17 := by cases tcp <;> simp
          apply Nat.mod_eq_of_lt
          omega
        | true =>
          have hl4 : s.ipHdrLen = 40 := by have := SF.l4; simpa [h6] using this
          have h66 := SF.v6 h6
          simp only [h66, decide_true, ↓reduceIte]
          have e : ((slice (flushHdr tcp s) 0 s.ipHdrLen).take 40).drop 8 = slice (flushPre tcp s) 8 40 := by
            show slice (slice (flushHdr tcp s) 0 s.ipHdrLen) 8 40 = _
            apply slice_congr
            · rw [slice_length, hhl]; omega
            · rw [hpl]; omega
            · intro k h1 h2
              rw [slice_zero, rd_take _ _ _ (by omega)]
              exact rdpre k (by omega)
          rw [e, slice_split _ 8 24 40 (by omega) (by omega),
            wordSum_append_even _ _ (by rw [slice_length, hpl]; omega), sum16_eq_wordSum, sum16_eq_wordSum]
          have b1 := wordSum_le (slice (flushPre tcp s) 8 24)
          have b2 := wordSum_le (slice (flushPre tcp s) 24 40)
          rw [slice_length, hpl] at b1 b2
          have : (if tcp = true then 6 else 17) ≤ 17 := by cases tcp <;> simp
          apply Nat.mod_eq_of_lt
          omega
      -- fold16 keeps the residue mod 0xffff and never turns a non-zero sum into zero
      have hbound : pseudoWords (decide (byteAt (slice (flushHdr tcp s) 0 s.ipHdrLen) 0 / 16 = 6))
          (slice (flushHdr tcp s) 0 s.ipHdrLen) (if tcp = true then 6 else 17) (s.hdrLen + s.totalPay - s.ipHdrLen)
          < 4294967296 := by
        rw [← hsum]; unfold pseudoSum; split <;> exact Nat.mod_lt _ (by omega)
      have hfold := fold16_props _ hbound
      have hS : u16At ((flushHdr tcp s).drop s.ipHdrLen) (if tcp = true then 16 else 6) =
          fold16 (pseudoWords (decide (byteAt (slice (flushHdr tcp s) 0 s.ipHdrLen) 0 / 16 = 6))
            (slice (flushHdr tcp s) 0 s.ipHdrLen) (if tcp = true then 6 else 17)
            (s.hdrLen + s.totalPay - s.ipHdrLen)) := by
        rw [hseedT, hseed, hsum]; exact Nat.mod_eq_of_lt hfold.1
      have hLen : ((flushHdr tcp s).drop s.ipHdrLen).length + s.payIovs.flatten.length =
          s.hdrLen + s.totalPay - s.ipHdrLen := by rw [hT, hflat]; omega
      unfold flushSlot
      simp only [writeSeedOk]
      unfold seedOk
      simp only [Bool.and_eq_true]
      refine ⟨decide_eq_true ?_, decide_eq_true ?_⟩
      · simp only [get_eq, be16_eq]; rw [hLen, hS]; exact hfold.2.1
      · simp only [get_eq, be16_eq]; rw [hLen, hS]; exact hfold.2.2

theorem multiFlush_seed {m : Multi} (h : MultiInv m) : ∀ w ∈ m.flush, writeSeedOk w = true := by
  intro w hw
  simp only [Multi.flush, Lane.flush, List.mem_append, List.mem_map] at hw
  rcases hw with (⟨s, hs, rfl⟩ | ⟨s, hs, rfl⟩) | ⟨b, _, rfl⟩
  · exact slotOut_seed (h.tcp.ok s hs)
  · exact slotOut_seed (h.udp.ok s hs)
  · rfl

end Nebula.Lemmas.Coalesce
