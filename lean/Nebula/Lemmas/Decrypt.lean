/- Helper lemmas for the receive-side model (C12): on every tunnel, the layers acted upon are exactly
the accepted `Update`s of one sequential history on that tunnel's window. -/
import Nebula.Model.Decrypt

namespace Nebula.Lemmas.Decrypt
open Nebula.Bits Nebula.Decrypt

structure Inv (pk : Nat → Pkt) (b0 : Nat → Bits) (s : State) : Prop where
  /-- per tunnel: window and acted-upon counters are those of the sequential `Update` history -/
  hist : ∀ T, (s.win T, onTunnel T s.delivered) = feed (b0 T) (s.hist T)
  /-- a layer acted upon is an authentic layer of that thread's packet, below the thread's current layer -/
  auth : ∀ t T c, (t, T, c) ∈ s.delivered →
    ∃ li, li < (s.pc t).1 ∧ (pk t)[li]? = some { tunnel := T, ctr := c, authOK := true }
  /-- a thread past the AEAD step of a layer holds an authentic layer -/
  opened : ∀ t, (s.pc t).2 = .opened → ∃ ly, (pk t)[(s.pc t).1]? = some ly ∧ ly.authOK = true

theorem inv_init (pk : Nat → Pkt) (b0 : Nat → Bits) : Inv pk b0 (init b0) :=
  ⟨by intro T; simp [init, feed, onTunnel], by simp [init], by simp [init]⟩

theorem setPC_self (s : State) (t : Nat) (p : Nat × PC) : setPC s t p t = p := by simp [setPC]
theorem setPC_other (s : State) (t t' : Nat) (p : Nat × PC) (h : t' ≠ t) : setPC s t p t' = s.pc t' := by
  simp [setPC, h]

theorem onTunnel_cons_same (t T : Nat) (c : U64) (l : List (Nat × Nat × U64)) :
    onTunnel T ((t, T, c) :: l) = c :: onTunnel T l := by simp [onTunnel]

theorem onTunnel_cons_other (t T T' : Nat) (c : U64) (l : List (Nat × Nat × U64)) (h : T' ≠ T) :
    onTunnel T ((t, T', c) :: l) = onTunnel T l := by simp [onTunnel, h]

theorem step_inv {pk : Nat → Pkt} {b0 : Nat → Bits} {s : State} (hi : Inv pk b0 s) (t : Nat) :
    Inv pk b0 (step pk s t).1 := by
  obtain ⟨hh, ha, hop⟩ := hi
  unfold step
  cases hly : (pk t)[(s.pc t).1]? with
  | none => exact ⟨hh, ha, hop⟩
  | some ly =>
    have hlt : (s.pc t).1 < (pk t).length := by
      rcases List.getElem?_eq_some_iff.mp hly with ⟨h, _⟩; exact h
    -- moving thread `t` to layer index `n' ≥` its current one keeps the facts about acted-upon layers
    have keep : ∀ (p : Nat × PC), (s.pc t).1 ≤ p.1 → ∀ t' T c, (t', T, c) ∈ s.delivered →
        ∃ li, li < (setPC s t p t').1 ∧ (pk t')[li]? = some { tunnel := T, ctr := c, authOK := true } := by
      intro p hp t' T c hm
      obtain ⟨li, h1, h2⟩ := ha t' T c hm
      refine ⟨li, ?_, h2⟩
      by_cases e : t' = t
      · subst e; rw [setPC_self]; omega
      · rw [setPC_other _ _ _ _ e]; exact h1
    have keepOpened : ∀ (p : Nat × PC), p.2 ≠ .opened → ∀ t', (setPC s t p t').2 = .opened →
        ∃ ly, (pk t')[(setPC s t p t').1]? = some ly ∧ ly.authOK = true := by
      intro p hp t' h
      by_cases e : t' = t
      · subst e; rw [setPC_self] at h; exact absurd h hp
      · rw [setPC_other _ _ _ _ e] at h ⊢; exact hop t' h
    simp only
    cases hpc : (s.pc t).2 with
    | start =>
      simp only
      split
      · exact ⟨hh, keep _ (Nat.le_refl _), keepOpened _ (by simp)⟩
      · exact ⟨hh, keep _ (Nat.le_of_lt hlt), keepOpened _ (by simp)⟩
    | checked =>
      simp only
      split
      · rename_i hauth
        refine ⟨hh, keep _ (Nat.le_refl _), ?_⟩
        intro t' h
        simp only at h ⊢
        by_cases e : t' = t
        · subst e; rw [setPC_self]; exact ⟨ly, hly, hauth⟩
        · rw [setPC_other _ _ _ _ e] at h ⊢; exact hop t' h
      · exact ⟨hh, keep _ (Nat.le_of_lt hlt), keepOpened _ (by simp)⟩
    | opened =>
      simp only
      obtain ⟨ly', hly', hauth⟩ := hop t hpc
      have : ly' = ly := by rw [hly] at hly'; exact (Option.some.inj hly').symm
      subst this
      have hfeed : feed (b0 ly'.tunnel) (ly'.ctr :: s.hist ly'.tunnel) =
          ((update (s.win ly'.tunnel) ly'.ctr).1,
            if (update (s.win ly'.tunnel) ly'.ctr).2 then ly'.ctr :: onTunnel ly'.tunnel s.delivered
            else onTunnel ly'.tunnel s.delivered) := by
        simp only [feed]
        rw [← hh ly'.tunnel]
      split
      · rename_i hacc
        refine ⟨?_, ?_, keepOpened _ (by simp)⟩
        · intro T
          simp only
          by_cases e : T = ly'.tunnel
          · subst e
            simp only [if_true]
            rw [onTunnel_cons_same, hfeed, if_pos hacc]
          · simp only [e, if_false]
            rw [onTunnel_cons_other _ _ _ _ _ (fun h => e h.symm)]
            exact hh T
        · intro t' T c hm
          simp only [List.mem_cons, Prod.mk.injEq] at hm
          rcases hm with ⟨rfl, rfl, rfl⟩ | hm
          · refine ⟨(s.pc t').1, ?_, ?_⟩
            · simp only; rw [setPC_self]; omega
            · rw [hly]; cases ly'; simp_all
          · exact keep _ (Nat.le_succ _) t' T c hm
      · rename_i hacc
        refine ⟨?_, keep _ (Nat.le_of_lt hlt), keepOpened _ (by simp)⟩
        intro T
        simp only
        by_cases e : T = ly'.tunnel
        · subst e
          simp only [if_true]
          rw [hfeed, if_neg hacc]
        · simp only [e, if_false]
          exact hh T

theorem run_inv {pk : Nat → Pkt} {b0 : Nat → Bits} (sched : List Nat) :
    ∀ s, Inv pk b0 s → Inv pk b0 (run pk s sched) := by
  induction sched with
  | nil => intro s h; exact h
  | cons t rest ih =>
    intro s h
    simp only [run, List.foldl_cons]
    exact ih _ (step_inv h t)

/-- deliveries only grow along a schedule -/
theorem delivered_suffix (pk : Nat → Pkt) (sched : List Nat) :
    ∀ s, ∃ new, (run pk s sched).delivered = new ++ s.delivered := by
  induction sched with
  | nil => intro s; exact ⟨[], rfl⟩
  | cons t rest ih =>
    intro s
    simp only [run, List.foldl_cons]
    obtain ⟨new, h⟩ := ih (step pk s t).1
    simp only [run] at h
    have : ∃ n1, (step pk s t).1.delivered = n1 ++ s.delivered := by
      unfold step
      cases (pk t)[(s.pc t).1]? with
      | none => exact ⟨[], rfl⟩
      | some ly =>
        simp only
        cases (s.pc t).2 <;> simp only
        · split <;> exact ⟨[], rfl⟩
        · split <;> exact ⟨[], rfl⟩
        · split
          · exact ⟨[(t, ly.tunnel, ly.ctr)], rfl⟩
          · exact ⟨[], rfl⟩
    obtain ⟨n1, h1⟩ := this
    exact ⟨new ++ n1, by rw [h, h1, List.append_assoc]⟩

/-- nesting discipline: a thread works on layer `li` only after all outer layers were acted upon, and an
acted-upon layer has all its outer layers acted upon by the same thread -/
structure Chain (pk : Nat → Pkt) (s : State) : Prop where
  below : ∀ t, (s.pc t).1 < (pk t).length → ∀ li', li' < (s.pc t).1 →
    ∃ ly' : Layer, (pk t)[li']? = some ly' ∧ (t, ly'.tunnel, ly'.ctr) ∈ s.delivered
  chain : ∀ t T c, (t, T, c) ∈ s.delivered → ∃ (li : Nat) (ly : Layer), (pk t)[li]? = some ly ∧ ly.tunnel = T ∧ ly.ctr = c ∧
    ∀ li', li' < li → ∃ ly' : Layer, (pk t)[li']? = some ly' ∧ (t, ly'.tunnel, ly'.ctr) ∈ s.delivered

theorem chain_init (pk : Nat → Pkt) (b0 : Nat → Bits) : Chain pk (init b0) :=
  ⟨by intro t _ li' h; simp [init] at h, by simp [init]⟩

theorem step_chain {pk : Nat → Pkt} {s : State} (hc : Chain pk s) (t : Nat) : Chain pk (step pk s t).1 := by
  obtain ⟨hb, hch⟩ := hc
  unfold step
  cases hly : (pk t)[(s.pc t).1]? with
  | none => exact ⟨hb, hch⟩
  | some ly =>
    have hlt : (s.pc t).1 < (pk t).length := by
      rcases List.getElem?_eq_some_iff.mp hly with ⟨h, _⟩; exact h
    -- the thread stays on its layer, or drops the packet: nothing is acted upon
    have same : ∀ (p : Nat × PC), (p.1 = (s.pc t).1 ∨ p.1 = (pk t).length) →
        Chain pk { s with pc := setPC s t p } := by
      intro p hp
      refine ⟨?_, hch⟩
      intro t' hlen li' hli
      simp only at hlen hli ⊢
      by_cases e : t' = t
      · subst e
        rw [setPC_self] at hlen hli
        rcases hp with hp | hp
        · rw [hp] at hli; exact hb t' hlt li' hli
        · omega
      · rw [setPC_other _ _ _ _ e] at hlen hli; exact hb t' hlen li' hli
    simp only
    cases hpc : (s.pc t).2 with
    | start => simp only; split <;> exact same _ (by simp)
    | checked => simp only; split <;> exact same _ (by simp)
    | opened =>
      simp only
      split
      · refine ⟨?_, ?_⟩
        · intro t' hlen li' hli
          simp only at hlen hli ⊢
          by_cases e : t' = t
          · subst e
            rw [setPC_self] at hlen hli
            by_cases e2 : li' = (s.pc t').1
            · subst e2; exact ⟨ly, hly, List.mem_cons_self⟩
            · obtain ⟨ly', h1, h2⟩ := hb t' hlt li' (by simp only at hli; omega)
              exact ⟨ly', h1, List.mem_cons_of_mem _ h2⟩
          · rw [setPC_other _ _ _ _ e] at hlen hli
            obtain ⟨ly', h1, h2⟩ := hb t' hlen li' hli
            exact ⟨ly', h1, List.mem_cons_of_mem _ h2⟩
        · intro t' T c hm
          simp only [List.mem_cons, Prod.mk.injEq] at hm
          rcases hm with ⟨rfl, rfl, rfl⟩ | hm
          · refine ⟨(s.pc t').1, ly, hly, rfl, rfl, ?_⟩
            intro li' hli
            obtain ⟨ly', h1, h2⟩ := hb t' hlt li' hli
            exact ⟨ly', h1, List.mem_cons_of_mem _ h2⟩
          · obtain ⟨li, ly0, h1, h2, h3, h4⟩ := hch t' T c hm
            refine ⟨li, ly0, h1, h2, h3, ?_⟩
            intro li' hli
            obtain ⟨ly', h5, h6⟩ := h4 li' hli
            exact ⟨ly', h5, List.mem_cons_of_mem _ h6⟩
      · have := same ((pk t).length, PC.start) (by simp)
        exact ⟨this.below, this.chain⟩

theorem run_chain {pk : Nat → Pkt} (sched : List Nat) : ∀ s, Chain pk s → Chain pk (run pk s sched) := by
  induction sched with
  | nil => intro s h; exact h
  | cons t rest ih =>
    intro s h
    simp only [run, List.foldl_cons]
    exact ih _ (step_chain h t)

/-- (tunnel, counter) pairs are distinct as soon as, on every tunnel, the counters are -/
theorem nodup_pairs (l : List (Nat × Nat × U64)) (h : ∀ T, (onTunnel T l).Nodup) :
    (l.map (fun e => (e.2.1, e.2.2))).Nodup := by
  induction l with
  | nil => simp
  | cons e l ih =>
    obtain ⟨t, T, c⟩ := e
    simp only [List.map_cons]
    refine List.nodup_cons.mpr ⟨?_, ih ?_⟩
    · intro hm
      obtain ⟨⟨t', T', c'⟩, hm', e⟩ := List.mem_map.mp hm
      simp only [Prod.mk.injEq] at e
      obtain ⟨rfl, rfl⟩ := e
      have hT := h T'
      rw [onTunnel_cons_same] at hT
      apply (List.nodup_cons.mp hT).1
      simp only [onTunnel, List.mem_filterMap]
      exact ⟨(t', T', c'), hm', by simp⟩
    · intro T'
      have hT := h T'
      by_cases e : T = T'
      · subst e; rw [onTunnel_cons_same] at hT; exact (List.nodup_cons.mp hT).2
      · rw [onTunnel_cons_other _ _ _ _ _ e] at hT; exact hT

end Nebula.Lemmas.Decrypt
