/- Helper lemmas for the receive-side model (C12): deliveries are exactly the accepted `Update`s of one
sequential history on the tunnel's window. -/
import Nebula.Model.Decrypt

namespace Nebula.Lemmas.Decrypt
open Nebula.Bits Nebula.Decrypt

structure Inv (pk : Nat → Pkt) (b0 : Bits) (s : State) : Prop where
  /-- window and delivered counters are those of the sequential `Update` history -/
  hist : (s.window, s.delivered.map (·.2)) = feed b0 s.hist
  /-- a delivered packet was authentic, carries the delivered counter, and its thread is finished -/
  auth : ∀ t c, (t, c) ∈ s.delivered → (pk t).authOK = true ∧ (pk t).ctr = c ∧ s.pc t = .done
  /-- no thread delivers twice -/
  once : (s.delivered.map (·.1)).Nodup
  /-- a thread past the AEAD step holds an authentic packet -/
  opened : ∀ t, s.pc t = .opened → (pk t).authOK = true

theorem inv_init (pk : Nat → Pkt) (b0 : Bits) : Inv pk b0 (init b0) :=
  ⟨by simp [init, feed], by simp [init], by simp [init], by simp [init]⟩

theorem setPC_self (s : State) (t : Nat) (p : PC) : setPC s t p t = p := by simp [setPC]
theorem setPC_other (s : State) (t t' : Nat) (p : PC) (h : t' ≠ t) : setPC s t p t' = s.pc t' := by
  simp [setPC, h]

theorem step_inv {pk : Nat → Pkt} {b0 : Bits} {s : State} (hi : Inv pk b0 s) (t : Nat) :
    Inv pk b0 (step pk s t).1 := by
  obtain ⟨hh, ha, ho, hop⟩ := hi
  -- changing the pc of a thread that is not finished keeps the facts about delivered packets
  have keep : ∀ p, s.pc t ≠ .done → ∀ t' c, (t', c) ∈ s.delivered →
      (pk t').authOK = true ∧ (pk t').ctr = c ∧ setPC s t p t' = .done := by
    intro p hne t' c hm
    obtain ⟨a, b, d⟩ := ha t' c hm
    refine ⟨a, b, ?_⟩
    by_cases e : t' = t
    · subst e; exact absurd d hne
    · rw [setPC_other _ _ _ _ e]; exact d
  have keepOpened : ∀ p, p ≠ .opened → ∀ t', setPC s t p t' = .opened → (pk t').authOK = true := by
    intro p hp t' h
    by_cases e : t' = t
    · subst e; rw [setPC_self] at h; exact absurd h hp
    · rw [setPC_other _ _ _ _ e] at h; exact hop t' h
  unfold step
  cases hpc : s.pc t with
  | start =>
    simp only
    split
    · exact ⟨hh, keep _ (by simp [hpc]), ho, keepOpened _ (by decide)⟩
    · exact ⟨hh, keep _ (by simp [hpc]), ho, keepOpened _ (by decide)⟩
  | checked =>
    simp only
    split
    · rename_i hauth
      refine ⟨hh, keep _ (by simp [hpc]), ho, ?_⟩
      intro t' h
      simp only at h
      by_cases e : t' = t
      · subst e; exact hauth
      · rw [setPC_other _ _ _ _ e] at h; exact hop t' h
    · exact ⟨hh, keep _ (by simp [hpc]), ho, keepOpened _ (by decide)⟩
  | opened =>
    simp only
    have hauth := hop t hpc
    have hfeed : feed b0 ((pk t).ctr :: s.hist) =
        ((update s.window (pk t).ctr).1,
          if (update s.window (pk t).ctr).2 then (pk t).ctr :: s.delivered.map (·.2) else s.delivered.map (·.2)) := by
      simp only [feed]
      rw [← hh]
    split
    · rename_i hacc
      refine ⟨?_, ?_, ?_, keepOpened _ (by decide)⟩
      · simp only [List.map_cons]
        rw [hfeed, if_pos hacc]
      · intro t' c hm
        simp only [List.mem_cons, Prod.mk.injEq] at hm
        rcases hm with ⟨rfl, rfl⟩ | hm
        · exact ⟨hauth, rfl, setPC_self _ _ _⟩
        · exact keep _ (by simp [hpc]) t' c hm
      · simp only [List.map_cons]
        refine List.nodup_cons.mpr ⟨?_, ho⟩
        intro hm
        obtain ⟨⟨t', c⟩, hm', e⟩ := List.mem_map.mp hm
        simp only at e
        subst e
        have := (ha _ _ hm').2.2
        rw [hpc] at this
        cases this
    · rename_i hacc
      refine ⟨?_, keep _ (by simp [hpc]), ho, keepOpened _ (by decide)⟩
      simp only
      rw [hfeed, if_neg hacc]
  | done => exact ⟨hh, ha, ho, hop⟩

theorem run_inv {pk : Nat → Pkt} {b0 : Bits} (sched : List Nat) :
    ∀ s, Inv pk b0 s → Inv pk b0 (run pk s sched) := by
  induction sched with
  | nil => intro s h; exact h
  | cons t rest ih =>
    intro s h
    simp only [run, List.foldl_cons]
    exact ih _ (step_inv h t)

/-- deliveries only grow along a schedule -/
theorem delivered_suffix (pk : Nat → Pkt) (sched : List Nat) :
    ∀ s, ∃ new, (run pk s sched).delivered = new ++ s.delivered := by
  induction sched with
  | nil => intro s; exact ⟨[], rfl⟩
  | cons t rest ih =>
    intro s
    simp only [run, List.foldl_cons]
    obtain ⟨new, h⟩ := ih (step pk s t).1
    simp only [run] at h
    have : ∃ n1, (step pk s t).1.delivered = n1 ++ s.delivered := by
      unfold step
      cases s.pc t <;> simp only
      · split <;> exact ⟨[], rfl⟩
      · split <;> exact ⟨[], rfl⟩
      · split
        · exact ⟨[(t, (pk t).ctr)], rfl⟩
        · exact ⟨[], rfl⟩
      · exact ⟨[], rfl⟩
    obtain ⟨n1, h1⟩ := this
    exact ⟨new ++ n1, by rw [h, h1, List.append_assoc]⟩

end Nebula.Lemmas.Decrypt
