/-
`unlockedDeleteHostInfo` as a whole (any state whose per-address lists are duplicate free).
-/
import Nebula.Lemmas.HostMapRelay

namespace Nebula.HostMap
open FMap

structure DeleteSpec (s : State) (h : Nat) (t : State) (final : Bool) : Prop where
  lists : ∀ a, hostList t a = if a ∈ (s.obj h).addrs then (hostList s a).filter (· != h) else hostList s a
  final : final = (s.obj h).addrs.all (fun a => ((hostList s a).filter (· != h)).isEmpty)
  rep : Rep t
  indexes : ∀ i, t.indexes.get i = if i = (s.obj h).lidx ∧ s.indexes.get i = some h then none else s.indexes.get i
  rindexes : ∀ i, t.rindexes.get i = if i = (s.obj h).ridx ∧ s.rindexes.get i = some h then none else s.rindexes.get i
  relays : ∀ i, t.relays.get i =
    if ((t.rstate h).byIdx.get i).isSome = true ∧ s.relays.get i = some h then none else s.relays.get i
  rs : ∀ x, RsLe (s.rstate x) (t.rstate x)
  objs : t.objs = s.objs
  vpnIps : t.vpnIps = s.vpnIps
  pidx : t.pidx = s.pidx
  next : t.next = s.next

theorem condDelIdx_spec (s : State) (h k : Nat) :
    (∀ i, (condDelIdx s h k).indexes.get i = if i = k ∧ s.indexes.get i = some h then none else s.indexes.get i) ∧
    (condDelIdx s h k).hosts = s.hosts ∧ (condDelIdx s h k).more = s.more ∧ (condDelIdx s h k).rindexes = s.rindexes ∧
    (condDelIdx s h k).relays = s.relays ∧ (condDelIdx s h k).objs = s.objs ∧ (condDelIdx s h k).vpnIps = s.vpnIps ∧
    (condDelIdx s h k).pidx = s.pidx ∧ (condDelIdx s h k).next = s.next ∧ (condDelIdx s h k).rs = s.rs := by
  unfold condDelIdx
  by_cases c : s.indexes.get k = some h
  · simp only [c, ↓reduceIte, get_del, and_self, and_true]
    intro i
    by_cases e : k = i
    · subst e; simp [c]
    · simp [e, Ne.symm e]
  · simp only [c, ↓reduceIte, and_self, and_true]
    intro i
    by_cases e : i = k
    · subst e; simp [c]
    · simp [e]

theorem condDelRidx_spec (s : State) (h k : Nat) :
    (∀ i, (condDelRidx s h k).rindexes.get i = if i = k ∧ s.rindexes.get i = some h then none else s.rindexes.get i) ∧
    (condDelRidx s h k).hosts = s.hosts ∧ (condDelRidx s h k).more = s.more ∧ (condDelRidx s h k).indexes = s.indexes ∧
    (condDelRidx s h k).relays = s.relays ∧ (condDelRidx s h k).objs = s.objs ∧ (condDelRidx s h k).vpnIps = s.vpnIps ∧
    (condDelRidx s h k).pidx = s.pidx ∧ (condDelRidx s h k).next = s.next ∧ (condDelRidx s h k).rs = s.rs := by
  unfold condDelRidx
  by_cases c : s.rindexes.get k = some h
  · simp only [c, ↓reduceIte, get_del, and_self, and_true]
    intro i
    by_cases e : k = i
    · subst e; simp [c]
    · simp [e, Ne.symm e]
  · simp only [c, ↓reduceIte, and_self, and_true]
    intro i
    by_cases e : i = k
    · subst e; simp [c]
    · simp [e]

theorem deleteHost_spec (s : State) (h : Nat) (hr : Rep s) (hn : ∀ a, (hostList s a).Nodup) :
    DeleteSpec s h (deleteHost s h).1 (deleteHost s h).2 := by
  obtain ⟨l1, l2, l3, l4⟩ := delLoop_spec h (s.obj h).addrs s true hr hn
  generalize hs1 : (s.obj h).addrs.foldl (delAddrStep h) (s, true) = r1 at l1 l2 l3 l4
  obtain ⟨s1, f1⟩ := r1
  simp only at l1 l2 l3 l4
  obtain ⟨r1, r2, r3, r4, r5, r6, r7, r8, r9, r10⟩ := condDelRidx_spec s1 h (s.obj h).ridx
  generalize hs2 : condDelRidx s1 h (s.obj h).ridx = s2 at *
  obtain ⟨i1, i2, i3, i4, i5, i6, i7, i8, i9, i10⟩ := condDelIdx_spec s2 h (s.obj h).lidx
  generalize hs3 : condDelIdx s2 h (s.obj h).lidx = s3 at *
  have hd : SameButRs s3 (if f1 = true then disestablish s3 h else s3) := by
    split
    · exact disestablish_same s3 h
    · exact SameButRs.refl s3
  generalize hsd : (if f1 = true then disestablish s3 h else s3) = sd at hd
  have e : deleteHost s h = ((sd.rstate h).byIdx.keys.foldl (delRelayStep h) sd, f1) := by
    simp only [deleteHost, hs1, hs2, hs3, hsd]
  rw [e]
  obtain ⟨q1, q2, q3, q4, q5, q6, q7, q8, q9, q10⟩ := delRelayLoop_spec h (sd.rstate h).byIdx.keys sd
  generalize (sd.rstate h).byIdx.keys.foldl (delRelayStep h) sd = s4 at *
  have hl : ∀ a, hostList s4 a = hostList s1 a := by
    intro a; simp [hostList, q2, q3, hd.hosts, hd.more, i2, i3, r2, r3]
  have hrs4 : ∀ x, s4.rstate x = sd.rstate x := fun x => by simp [State.rstate, q10]
  have hrs1 : ∀ x, s3.rstate x = s.rstate x := fun x => by simp [State.rstate, i10, r10, l4.rs]
  refine ⟨fun a => ?_, by simpa using l2, ?_, fun i => ?_, fun i => ?_, fun i => ?_, fun x => ?_, ?_, ?_, ?_, ?_⟩
  · rw [hl a, l1 a]
  · intro a l hml
    rw [q3, hd.more, i3, r3] at hml; rw [q2, hd.hosts, i2, r2]; exact l3 a l hml
  · rw [q4, hd.indexes, i1, r4, l4.indexes]
  · rw [q5, hd.rindexes, i4, r1, l4.rindexes]
  · rw [q1, hd.relays, i5, r5, l4.relays, hrs4]; simp only [mem_keys_iff]
  · rw [hrs4, ← hrs1]; exact hd.rs x
  · rw [q6, hd.objs, i6, r6, l4.objs]
  · rw [q7, hd.vpnIps, i7, r7, l4.vpnIps]
  · rw [q8, hd.pidx, i8, r8, l4.pidx]
  · rw [q9, hd.next, i9, r9, l4.next]

end Nebula.HostMap
