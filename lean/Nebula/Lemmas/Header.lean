/- Helper lemmas for the header model (C47). -/
import Nebula.Model.Header
import Nebula.Spec.Header
namespace Nebula.Lemmas.Header
open Nebula.Header Nebula

theorem beBytes_length (m y : Nat) : (beBytes m y).length = m := by
  induction m with
  | zero => simp [beBytes]
  | succ m ihm => simp [beBytes, ihm]

theorem beBytes_mod (m y : Nat) : beBytes m (y % 256 ^ m) = beBytes m y := by
  induction m generalizing y with
  | zero => simp [beBytes]
  | succ m ihm =>
    simp only [beBytes]
    congr 1
    · rw [Nat.pow_succ, Nat.mod_mul_right_div_self]
      simp
    · rw [← ihm (y % 256 ^ (m + 1)), ← ihm y]
      congr 1
      rw [Nat.pow_succ]; exact Nat.mod_mul_right_mod _ _ _

theorem beVal_beBytes (n x : Nat) (h : x < 256 ^ n) : beVal (beBytes n x) = x := by
  induction n generalizing x with
  | zero => simp [beBytes, beVal] at *; omega
  | succ n ih =>
    simp only [beBytes, beVal, beBytes_length]
    have hq : x / 256 ^ n < 256 := by
      rw [Nat.pow_succ] at h
      exact Nat.div_lt_of_lt_mul (by rw [Nat.mul_comm] at h; rw [Nat.mul_comm]; exact h)
    rw [Nat.mod_eq_of_lt hq, ← beBytes_mod n x, ih _ (Nat.mod_lt _ (Nat.pow_pos (by decide)))]
    rw [Nat.mul_comm]; exact Nat.div_add_mod x (256 ^ n)

theorem b0_hi (v t : Nat) : (((v * 16) % 256 ||| (t % 256 &&& 0x0f)) >>> 4) &&& 0x0f = v % 16 := by
  have e1 : (v * 16) % 256 = (v % 16) * 16 := by omega
  have e2 : t % 256 &&& 0x0f = t % 16 := by
    have := Nat.and_two_pow_sub_one_eq_mod (t % 256) 4
    simp at this; rw [this]
  rw [e1, e2]
  have : ∀ a b : Fin 16, ((a.val * 16 ||| b.val) >>> 4) &&& 0x0f = a.val := by decide
  have h := this ⟨v % 16, Nat.mod_lt _ (by decide)⟩ ⟨t % 16, Nat.mod_lt _ (by decide)⟩
  simpa using h

theorem b0_lo (v t : Nat) : ((v * 16) % 256 ||| (t % 256 &&& 0x0f)) &&& 0x0f = t % 16 := by
  have e1 : (v * 16) % 256 = (v % 16) * 16 := by omega
  have e2 : t % 256 &&& 0x0f = t % 16 := by
    have := Nat.and_two_pow_sub_one_eq_mod (t % 256) 4
    simp at this; rw [this]
  rw [e1, e2]
  have : ∀ a b : Fin 16, (a.val * 16 ||| b.val) &&& 0x0f = b.val := by decide
  have h := this ⟨v % 16, Nat.mod_lt _ (by decide)⟩ ⟨t % 16, Nat.mod_lt _ (by decide)⟩
  simpa using h

end Nebula.Lemmas.Header
