/-
Lemmas about the handshake-manager model: association lists, the per-address tunnel lists under
add / delete / makePrimary, frame facts, and the case analysis of one step on the main hostmap.
-/
import Nebula.Model.HsManager

namespace Nebula.Lemmas.HsManager
open Nebula.HsManager

/-! ### association lists -/

theorem alookup_cons {α : Type} (k : Nat) (x : Nat × α) (l : List (Nat × α)) :
    alookup k (x :: l) = if x.1 = k then some x.2 else alookup k l := by
  unfold alookup; simp only [List.find?_cons]
  by_cases h : x.1 = k
  · have : (x.1 == k) = true := by simp [h]
    simp [this, h]
  · have : (x.1 == k) = false := by simp [h]
    simp [this, h]

theorem alookup_aerase {α : Type} (k k' : Nat) (l : List (Nat × α)) :
    alookup k (aerase k' l) = if k = k' then none else alookup k l := by
  induction l with
  | nil => simp [aerase, alookup]
  | cons x xs ih =>
    have e : aerase k' (x :: xs) = if x.1 = k' then aerase k' xs else x :: aerase k' xs := by
      unfold aerase; simp only [List.filter_cons]; by_cases hx : x.1 = k' <;> simp [hx]
    rw [e]
    by_cases hx : x.1 = k'
    · rw [if_pos hx, ih, alookup_cons]
      by_cases h : k = k'
      · simp [h]
      · have : ¬ x.1 = k := by omega
        simp [h, this]
    · rw [if_neg hx, alookup_cons, alookup_cons, ih]
      by_cases hk : x.1 = k
      · have : ¬ k = k' := by omega
        simp [hk, this]
      · simp [hk]

theorem alookup_ainsert {α : Type} (k k' : Nat) (v : α) (l : List (Nat × α)) :
    alookup k (ainsert k' v l) = if k = k' then some v else alookup k l := by
  unfold ainsert
  rw [alookup_cons, alookup_aerase]
  by_cases h : k = k'
  · simp [h]
  · have : ¬ k' = k := by omega
    simp [h, this]

theorem alookup_aerase_some {α : Type} {k k' : Nat} {l : List (Nat × α)} {v : α}
    (h : alookup k (aerase k' l) = some v) : alookup k l = some v := by
  rw [alookup_aerase] at h; split at h <;> simp_all

/-! ### per-address lists -/

theorem getList_setList (m : HostMap) (a : Addr) (l : List HostInfo) (b : Addr) :
    (m.setList a l).getList b = if b = a then l else m.getList b := by
  unfold HostMap.setList HostMap.getList
  cases l with
  | nil => simp only [alookup_aerase]; split <;> simp
  | cons x xs => simp only [alookup_ainsert]; split <;> simp

@[simp] theorem setList_indexes (m : HostMap) (a : Addr) (l : List HostInfo) :
    (m.setList a l).indexes = m.indexes := by unfold HostMap.setList; cases l <;> rfl

@[simp] theorem setList_remoteIndexes (m : HostMap) (a : Addr) (l : List HostInfo) :
    (m.setList a l).remoteIndexes = m.remoteIndexes := by unfold HostMap.setList; cases l <;> rfl

theorem mem_eraseHI {l : List HostInfo} {id : Nat} {h : HostInfo} (hm : h ∈ eraseHI l id) : h ∈ l :=
  List.mem_of_mem_eraseP hm

/-- the address lists after removing `hi` from the lists of `addrs` -/
theorem mem_foldl_erase (addrs : List Addr) (hi : HostInfo) (m : HostMap) (b : Addr) (h : HostInfo)
    (hm : h ∈ (addrs.foldl (fun m a => m.setList a (eraseHI (m.getList a) hi.id)) m).getList b) :
    h ∈ m.getList b := by
  induction addrs generalizing m with
  | nil => exact hm
  | cons a as ih =>
    have := ih _ hm
    rw [getList_setList] at this
    split at this
    · subst_vars; exact mem_eraseHI this
    · exact this

theorem foldl_erase_indexes (addrs : List Addr) (hi : HostInfo) (m : HostMap) :
    (addrs.foldl (fun m a => m.setList a (eraseHI (m.getList a) hi.id)) m).indexes = m.indexes := by
  induction addrs generalizing m with
  | nil => rfl
  | cons a as ih => simp [List.foldl_cons, ih]

theorem mem_deleteHostInfo {m : HostMap} {hi : HostInfo} {b : Addr} {h : HostInfo}
    (hm : h ∈ (m.deleteHostInfo hi).getList b) : h ∈ m.getList b := by
  unfold HostMap.deleteHostInfo at hm
  exact mem_foldl_erase hi.vpnAddrs hi m b h hm

theorem deleteHostInfo_indexes {m : HostMap} {hi : HostInfo} {k : Nat} {h : HostInfo}
    (hk : alookup k (m.deleteHostInfo hi).indexes = some h) : alookup k m.indexes = some h := by
  unfold HostMap.deleteHostInfo at hk
  simp only [foldl_erase_indexes] at hk
  split at hk
  · split at hk
    · exact alookup_aerase_some hk
    · exact hk
  · exact hk

theorem mem_innerAdd {m : HostMap} {a : Addr} {hi : HostInfo} {b : Addr} {h : HostInfo}
    (hm : h ∈ (m.innerAdd a hi).getList b) : h ∈ m.getList b ∨ (h = hi ∧ b = a) := by
  unfold HostMap.innerAdd at hm
  split at hm
  · rw [getList_setList] at hm
    split at hm
    · simp at hm; right; exact ⟨hm, by assumption⟩
    · left; exact hm
  · rename_i l hl
    have key : ∀ h', h' ∈ (m.setList a (hi :: eraseHI (m.getList a) hi.id)).getList b →
        h' ∈ m.getList b ∨ (h' = hi ∧ b = a) := by
      intro h' hm'
      rw [getList_setList] at hm'
      split at hm'
      · subst_vars
        rcases List.mem_cons.mp hm' with e | e
        · right; exact ⟨e, rfl⟩
        · left; exact mem_eraseHI e
      · left; exact hm'
    dsimp only at hm
    split at hm
    · split at hm
      · exact key h (mem_deleteHostInfo hm)
      · exact key h hm
    · exact key h hm

theorem innerAdd_indexes {m : HostMap} {a : Addr} {hi : HostInfo} {k : Nat} {h : HostInfo}
    (hk : alookup k (m.innerAdd a hi).indexes = some h) : alookup k m.indexes = some h := by
  unfold HostMap.innerAdd at hk
  split at hk
  · simpa using hk
  · dsimp only at hk
    split at hk
    · split at hk
      · have := deleteHostInfo_indexes hk; simpa using this
      · simpa using hk
    · simpa using hk

theorem mem_foldl_innerAdd (addrs : List Addr) (hi : HostInfo) (m : HostMap) (b : Addr) (h : HostInfo)
    (hm : h ∈ (addrs.foldl (fun m a => m.innerAdd a hi) m).getList b) :
    h ∈ m.getList b ∨ (h = hi ∧ b ∈ addrs) := by
  induction addrs generalizing m with
  | nil => left; exact hm
  | cons a as ih =>
    rcases ih _ hm with h1 | ⟨e, hb⟩
    · rcases mem_innerAdd h1 with h2 | ⟨e, hb⟩
      · left; exact h2
      · right; exact ⟨e, by simp [hb]⟩
    · right; exact ⟨e, by simp [hb]⟩

theorem foldl_innerAdd_indexes (addrs : List Addr) (hi : HostInfo) (m : HostMap) {k : Nat} {h : HostInfo}
    (hk : alookup k (addrs.foldl (fun m a => m.innerAdd a hi) m).indexes = some h) :
    alookup k m.indexes = some h := by
  induction addrs generalizing m with
  | nil => exact hk
  | cons a as ih => exact innerAdd_indexes (ih _ hk)

theorem mem_addHostInfo {m : HostMap} {hi : HostInfo} {b : Addr} {h : HostInfo}
    (hm : h ∈ (m.addHostInfo hi).getList b) : h ∈ m.getList b ∨ (h = hi ∧ b ∈ hi.vpnAddrs) := by
  unfold HostMap.addHostInfo at hm
  exact mem_foldl_innerAdd hi.vpnAddrs hi m b h hm

theorem addHostInfo_indexes {m : HostMap} {hi : HostInfo} {k : Nat} {h : HostInfo}
    (hk : alookup k (m.addHostInfo hi).indexes = some h) : h = hi ∨ alookup k m.indexes = some h := by
  unfold HostMap.addHostInfo at hk
  simp only [alookup_ainsert] at hk
  split at hk
  · left; simpa using hk.symm
  · right; exact foldl_innerAdd_indexes _ _ _ hk

theorem mem_promoteAt {m : HostMap} {hi : HostInfo} {a b : Addr} {h : HostInfo}
    (hm : h ∈ (m.promoteAt hi a).getList b) : h ∈ m.getList b ∨ (h = hi ∧ b = a) := by
  unfold HostMap.promoteAt at hm
  split at hm
  · split at hm
    · left; exact hm
    · rw [getList_setList] at hm
      split at hm
      · subst_vars
        rcases List.mem_cons.mp hm with e | e
        · right; exact ⟨e, rfl⟩
        · left; exact mem_eraseHI e
      · left; exact hm
  · rw [getList_setList] at hm
    split at hm
    · subst_vars; simp at hm; right; exact ⟨hm, rfl⟩
    · left; exact hm

theorem promoteAt_indexes (m : HostMap) (hi : HostInfo) (a : Addr) : (m.promoteAt hi a).indexes = m.indexes := by
  unfold HostMap.promoteAt
  split
  · split <;> simp
  · simp

theorem mem_makePrimary {m : HostMap} {hi : HostInfo} {b : Addr} {h : HostInfo}
    (hm : h ∈ (m.makePrimary hi).getList b) : h ∈ m.getList b ∨ (h = hi ∧ b ∈ hi.vpnAddrs) := by
  unfold HostMap.makePrimary at hm
  split at hm
  · left; exact hm
  · split at hm
    · left; exact hm
    · have key : ∀ (addrs : List Addr) (m : HostMap),
          h ∈ (addrs.foldl (fun m a => m.promoteAt hi a) m).getList b →
          h ∈ m.getList b ∨ (h = hi ∧ b ∈ addrs) := by
        intro addrs
        induction addrs with
        | nil => intro m hm; left; exact hm
        | cons a as ih =>
          intro m hm
          rcases ih _ hm with h1 | ⟨e, hb⟩
          · rcases mem_promoteAt h1 with h2 | ⟨e, hb⟩
            · left; exact h2
            · right; exact ⟨e, by simp [hb]⟩
          · right; exact ⟨e, by simp [hb]⟩
      exact key hi.vpnAddrs m hm

theorem foldl_promoteAt_indexes (addrs : List Addr) (hi : HostInfo) (m : HostMap) :
    (addrs.foldl (fun m a => m.promoteAt hi a) m).indexes = m.indexes := by
  induction addrs generalizing m with
  | nil => rfl
  | cons a as ih => simp only [List.foldl_cons]; rw [ih, promoteAt_indexes]

theorem makePrimary_indexes (m : HostMap) (hi : HostInfo) : (m.makePrimary hi).indexes = m.indexes := by
  unfold HostMap.makePrimary
  split
  · rfl
  · split
    · rfl
    · exact foldl_promoteAt_indexes _ _ _

/-! ### the invariant shape: every listed tunnel is listed under one of its own addresses and satisfies Q,
and so does everything in Indexes -/

def Good (Q : HostInfo → Prop) (m : HostMap) : Prop :=
  (∀ b h, h ∈ m.getList b → b ∈ h.vpnAddrs ∧ Q h) ∧ (∀ k h, alookup k m.indexes = some h → Q h)

theorem Good.mono {Q Q' : HostInfo → Prop} {m : HostMap} (hq : ∀ h, Q h → Q' h) (g : Good Q m) : Good Q' m :=
  ⟨fun b h hm => ⟨(g.1 b h hm).1, hq _ (g.1 b h hm).2⟩, fun k h hk => hq _ (g.2 k h hk)⟩

theorem Good.empty (Q : HostInfo → Prop) : Good Q {} := by
  constructor
  · intro b h hm; simp [HostMap.getList, alookup] at hm
  · intro k h hk; simp [alookup] at hk

theorem Good.delete {Q : HostInfo → Prop} {m : HostMap} (g : Good Q m) (hi : HostInfo) :
    Good Q (m.deleteHostInfo hi) :=
  ⟨fun b h hm => g.1 b h (mem_deleteHostInfo hm), fun k h hk => g.2 k h (deleteHostInfo_indexes hk)⟩

theorem Good.add {Q : HostInfo → Prop} {m : HostMap} (g : Good Q m) {hi : HostInfo} (hq : Q hi) :
    Good Q (m.addHostInfo hi) := by
  constructor
  · intro b h hm
    rcases mem_addHostInfo hm with h1 | ⟨e, hb⟩
    · exact g.1 b h h1
    · subst e; exact ⟨hb, hq⟩
  · intro k h hk
    rcases addHostInfo_indexes hk with e | h1
    · subst e; exact hq
    · exact g.2 k h h1

theorem Good.makePrimary {Q : HostInfo → Prop} {m : HostMap} (g : Good Q m) {hi : HostInfo} (hq : Q hi) :
    Good Q (m.makePrimary hi) := by
  constructor
  · intro b h hm
    rcases mem_makePrimary hm with h1 | ⟨e, hb⟩
    · exact g.1 b h h1
    · subst e; exact ⟨hb, hq⟩
  · intro k h hk
    rw [makePrimary_indexes] at hk
    exact g.2 k h hk

end Nebula.Lemmas.HsManager
