/-
Tie of the header model (C47) to `header.Encode` and `H.Parse` regenerated from header/header.go: the sixteen
bytes `Encode` stores (one regenerated definition per byte, `binary.BigEndian.PutUintN` expanded to its byte
stores) are the model's `encode`, and the six field values `Parse` assigns (`binary.BigEndian.UintN` expanded to
shifted ORs of the bytes read) are the model's `parse`.
-/
import Nebula.Model.Header
import Nebula.Gen.tie_ties1_header
import Nebula.Lemmas.Ties1Bytes

namespace Nebula.Lemmas.Ties1HeaderTie
open Nebula.Gen Nebula.Header Nebula.Lemmas.Ties1Bytes

/-- the bytes `Encode(b, v, t, st, ri, c)` stores into `b[0..16)`, in order, as regenerated from the source -/
def encodeBytes (v t st : BitVec 8) (ri : BitVec 32) (c : BitVec 64) : List (BitVec 8) :=
  [tie_ties1_hdr_enc0 v t st ri c, tie_ties1_hdr_enc1 v t st ri c, tie_ties1_hdr_enc2 v t st ri c,
   tie_ties1_hdr_enc3 v t st ri c, tie_ties1_hdr_enc4 v t st ri c, tie_ties1_hdr_enc5 v t st ri c,
   tie_ties1_hdr_enc6 v t st ri c, tie_ties1_hdr_enc7 v t st ri c, tie_ties1_hdr_enc8 v t st ri c,
   tie_ties1_hdr_enc9 v t st ri c, tie_ties1_hdr_enc10 v t st ri c, tie_ties1_hdr_enc11 v t st ri c,
   tie_ties1_hdr_enc12 v t st ri c, tie_ties1_hdr_enc13 v t st ri c, tie_ties1_hdr_enc14 v t st ri c,
   tie_ties1_hdr_enc15 v t st ri c]

theorem b0_eq (v t : BitVec 8) :
    ((v <<< (4 : Nat)) ||| (t &&& 15#8)).toNat = ((v.toNat * 16) % 256) ||| (t.toNat % 256 &&& 0x0f) := by
  have ht := t.isLt
  simp only [BitVec.toNat_or, BitVec.toNat_shiftLeft, BitVec.toNat_and, BitVec.toNat_ofNat, Nat.shiftLeft_eq]
  rw [Nat.mod_eq_of_lt (a := t.toNat) (by omega)]

theorem encode_eq (v t st : BitVec 8) (ri : BitVec 32) (c : BitVec 64) :
    (encodeBytes v t st ri c).map BitVec.toNat = encode v.toNat t.toNat st.toNat ri.toNat c.toNat := by
  have hst := st.isLt
  have hri := ri.isLt
  have hc := c.isLt
  simp only [encodeBytes, tie_ties1_hdr_enc0, tie_ties1_hdr_enc1, tie_ties1_hdr_enc2, tie_ties1_hdr_enc3,
    tie_ties1_hdr_enc4, tie_ties1_hdr_enc5, tie_ties1_hdr_enc6, tie_ties1_hdr_enc7, tie_ties1_hdr_enc8,
    tie_ties1_hdr_enc9, tie_ties1_hdr_enc10, tie_ties1_hdr_enc11, tie_ties1_hdr_enc12, tie_ties1_hdr_enc13,
    tie_ties1_hdr_enc14, tie_ties1_hdr_enc15, List.map_cons, List.map_nil, byte_of_shift, b0_eq, encode, beBytes,
    List.cons_append, List.nil_append]
  rw [Nat.mod_eq_of_lt (a := st.toNat) (by omega), Nat.mod_eq_of_lt (a := ri.toNat) (by omega),
    Nat.mod_eq_of_lt (a := c.toNat) (by omega)]
  simp

/-- `H.Parse` on any input whose first sixteen entries are bytes: every field the model computes is the value the
regenerated assignment of that field computes from the same bytes. -/
theorem parse_eq (b0 b1 b2 b3 b4 b5 b6 b7 b8 b9 b10 b11 b12 b13 b14 b15 : BitVec 8) (rest : List Nat) :
    parse ([b0.toNat, b1.toNat, b2.toNat, b3.toNat, b4.toNat, b5.toNat, b6.toNat, b7.toNat, b8.toNat, b9.toNat,
        b10.toNat, b11.toNat, b12.toNat, b13.toNat, b14.toNat, b15.toNat] ++ rest) =
      some { version := (tie_ties1_hdr_parseVersion b0).toNat
             type := (tie_ties1_hdr_parseType b0).toNat
             subtype := (tie_ties1_hdr_parseSubtype b1).toNat
             reserved := (tie_ties1_hdr_parseReserved b2 b3).toNat
             remoteIndex := (tie_ties1_hdr_parseRemoteIndex b4 b5 b6 b7).toNat
             counter := (tie_ties1_hdr_parseMessageCounter b8 b9 b10 b11 b12 b13 b14 b15).toNat } := by
  have h2 := b2.isLt; have h3 := b3.isLt; have h4 := b4.isLt; have h5 := b5.isLt; have h6 := b6.isLt
  have h7 := b7.isLt; have h8 := b8.isLt; have h9 := b9.isLt; have h10 := b10.isLt; have h11 := b11.isLt
  have h12 := b12.isLt; have h13 := b13.isLt; have h14 := b14.isLt; have h15 := b15.isLt
  have e2 := be2 b2.toNat b3.toNat h2 h3
  have e4 := be4 b4.toNat b5.toNat b6.toNat b7.toNat h4 h5 h6 h7
  have e8 := be8 b8.toNat b9.toNat b10.toNat b11.toNat b12.toNat b13.toNat b14.toNat b15.toNat
    h8 h9 h10 h11 h12 h13 h14 h15
  unfold parse
  rw [if_neg (by simp [Gen.header_Len])]
  simp only [Gen.header_Len, List.cons_append, List.nil_append, List.take, List.drop, List.getD_cons_zero, List.getD_cons_succ, beVal, List.length_cons,
    List.length_nil]
  simp only [tie_ties1_hdr_parseVersion, tie_ties1_hdr_parseType, tie_ties1_hdr_parseSubtype,
    tie_ties1_hdr_parseReserved, tie_ties1_hdr_parseRemoteIndex, tie_ties1_hdr_parseMessageCounter,
    BitVec.toNat_or, BitVec.toNat_and, BitVec.toNat_ushiftRight, BitVec.toNat_ofNat,
    toNat_byte_shl _ _ (by decide : 0 + 8 ≤ 16), toNat_byte_shl _ _ (by decide : 8 + 8 ≤ 16),
    toNat_byte_shl _ _ (by decide : 0 + 8 ≤ 32), toNat_byte_shl _ _ (by decide : 8 + 8 ≤ 32),
    toNat_byte_shl _ _ (by decide : 16 + 8 ≤ 32), toNat_byte_shl _ _ (by decide : 24 + 8 ≤ 32),
    toNat_byte_shl _ _ (by decide : 0 + 8 ≤ 64), toNat_byte_shl _ _ (by decide : 8 + 8 ≤ 64),
    toNat_byte_shl _ _ (by decide : 16 + 8 ≤ 64), toNat_byte_shl _ _ (by decide : 24 + 8 ≤ 64),
    toNat_byte_shl _ _ (by decide : 32 + 8 ≤ 64), toNat_byte_shl _ _ (by decide : 40 + 8 ≤ 64),
    toNat_byte_shl _ _ (by decide : 48 + 8 ≤ 64), toNat_byte_shl _ _ (by decide : 56 + 8 ≤ 64)]
  rw [e2, e4, e8]
  simp
  omega

end Nebula.Lemmas.Ties1HeaderTie
