/-
Every event of a node preserves the pending-side invariant; only a completing stage-2 releases a queue, and
the identity it releases is gone afterwards.
-/
import Nebula.Lemmas.HsPendingStep

namespace Nebula.Lemmas.HsPending
open Nebula.HsManager Nebula.Lemmas.HsWheel Nebula.Lemmas.HsManager Nebula.Gen

/-- pending table and wheel untouched, allocation counter not decreased -/
structure Mono (p p' : PSide) : Prop where
  v : p'.vpnIps = p.vpnIps
  w : p'.wheel = p.wheel
  n : p.nextObj ≤ p'.nextObj

theorem Mono.of_same {p p' : PSide} (s : Same p p') : Mono p p' := ⟨s.v, s.w, Nat.le_of_eq s.n.symm⟩
theorem Mono.trans {p p' p'' : PSide} (a : Mono p p') (b : Mono p' p'') : Mono p p'' :=
  ⟨b.v.trans a.v, b.w.trans a.w, Nat.le_trans a.n b.n⟩

theorem Mono.inv {p p' : PSide} (m : Mono p p') (h : PInv p) : PInv p' ∧ Grow p p' :=
  ⟨h.congr m.v m.w m.n, Grow.of_eq m.v m.n⟩

theorem prepareResponder_mono (cfg : Cfg) (p : PSide) (via : UNode) (pkt : Handle) (c : Completed) (rv : Nat) :
    Mono p (p.prepareResponder cfg via pkt c rv).1 := by
  unfold PSide.prepareResponder
  have s := (genIndex_same cfg 8 p).trans (freshHandle_same cfg (p.genIndex cfg 8).1)
  exact ⟨s.v, s.w, by show p.nextObj ≤ _ + 1; rw [s.n]; omega⟩

/-! ### outputs: nothing but a completing stage-2 releases a queue -/

theorem buildStage0_flushed (c : Cfg) (mi : List (Nat × HostInfo)) (p : PSide) (hh : Pending) (now : Nat) :
    (p.buildStage0 c mi hh now).2.2.1.flushed = [] := by
  unfold PSide.buildStage0
  dsimp only
  generalize stage0Version c hh = v
  by_cases hv : (!c.hasVer v) = true
  · rw [if_pos hv]
  · rw [if_neg hv]
    generalize p.allocIndex c mi 32 = r
    obtain ⟨n1, oi⟩ := r
    cases oi <;> rfl

theorem attempt_flushed (c : Cfg) (mi : List (Nat × HostInfo)) (p : PSide) (hh : Pending) (a : Addr) (trig : Bool)
    (now : Nat) : (p.attempt c mi hh a trig now).2.2.flushed = [] := by
  unfold PSide.attempt
  have hb := buildStage0_flushed c mi p hh now
  by_cases hr : hh.ready
  · simp only [hr, if_true, Bool.not_true, Bool.false_eq_true, if_false]
    split <;> rfl
  · simp only [hr, Bool.false_eq_true, if_false]
    generalize p.buildStage0 c mi hh now = r at hb
    obtain ⟨n1, h1, o1, ok⟩ := r
    dsimp only at hb ⊢
    cases ok
    · simp only [Bool.not_false, if_true]; exact hb
    · simp only [Bool.not_true, Bool.false_eq_true, if_false]
      split <;> simp [Out.app, hb]

theorem handleOutbound_flushed (c : Cfg) (mi : List (Nat × HostInfo)) (p : PSide) (a : Addr) (trig : Bool) (now : Nat)
    (armed : Option Nat) : (p.handleOutbound c mi a trig now armed).2.flushed = [] := by
  unfold PSide.handleOutbound
  split
  · rfl
  · dsimp only
    split
    · rfl
    · split
      · rfl
      · exact attempt_flushed ..

theorem tick_flushed (c : Cfg) (mi : List (Nat × HostInfo)) (p : PSide) (now : Nat) :
    (p.tick c mi now).2.flushed = [] := by
  unfold PSide.tick
  generalize p.wheel.advance now = wa
  obtain ⟨w, E⟩ := wa
  dsimp only
  have key : ∀ (E : List TimerItem) (q : PSide) (o : Out), o.flushed = [] →
      (E.foldl (fun (acc : PSide × Out) a =>
        let (n', o) := acc.1.handleOutbound c mi a.1 false now (some a.2)
        (n', acc.2.app o)) (q, o)).2.flushed = [] := by
    intro E
    induction E with
    | nil => intro q o h; exact h
    | cons it E ih =>
      intro q o h
      simp only [List.foldl_cons]
      apply ih
      simp [Out.app, h, handleOutbound_flushed]
  exact key E _ _ rfl

theorem mem_of_pendingById {p : PSide} {id : Nat} {hh : Pending} (h : p.pendingById id = some hh) :
    ∃ a, (a, hh) ∈ p.vpnIps := by
  unfold PSide.pendingById at h
  cases hf : p.vpnIps.find? (fun q => q.2.id == id) with
  | none => simp [hf] at h
  | some x =>
    simp [hf] at h
    exact ⟨x.1, by rw [← h]; exact List.mem_of_find?_eq_some hf⟩

/-- the flush part of a step's result -/
def FlushOk (n : Node) (r : Node × Out) : Prop :=
  r.2.flushed = [] ∨
  ∃ a hh, (a, hh) ∈ n.p.vpnIps ∧ r.2.flushed = [(hh.id, hh.store.filter n.cfg.allowed)] ∧
    ∀ a' h', (a', h') ∈ r.1.p.vpnIps → h'.id ≠ hh.id

theorem continueHandshake_pinv (n : Node) (via : UNode) (idx : Nat) (res : S2Res) (h : PInv n.p) :
    PInv (n.continueHandshake via idx res).1.p ∧ Grow n.p (n.continueHandshake via idx res).1.p ∧
    FlushOk n (n.continueHandshake via idx res) := by
  unfold Node.continueHandshake
  split
  · exact ⟨h, Grow.refl _, Or.inl rfl⟩
  · rename_i hh hl
    have hm : ∃ a, (a, hh) ∈ n.p.vpnIps := by
      cases hi : alookup idx n.p.pindexes with
      | none => simp [hi] at hl
      | some id => simp [hi] at hl; exact mem_of_pendingById hl
    obtain ⟨a, hm⟩ := hm
    split
    · exact ⟨h.deletePending hh, Grow.deletePending _ _, Or.inl rfl⟩
    · split
      · split
        · exact ⟨h.deletePending hh, Grow.deletePending _ _, Or.inl rfl⟩
        · exact ⟨h, Grow.refl _, Or.inl rfl⟩
      · rename_i c
        -- the lighthouse cache update does not matter
        generalize remoteListOf n.p.lh hh hh.vpnAddr = lr
        obtain ⟨lh, rid⟩ := lr
        dsimp only
        have m0 : Mono n.p { n.p with lh := lh.learn rid hh.vpnAddr via } := ⟨rfl, rfl, Nat.le_refl _⟩
        have h0 := (m0.inv h).1
        have g0 := (m0.inv h).2
        have hm0 : (a, hh) ∈ ({ n.p with lh := lh.learn rid hh.vpnAddr via } : PSide).vpnIps := hm
        split
        · exact ⟨h0.deletePending hh, g0.trans (Grow.deletePending _ _), Or.inl rfl⟩
        · split
          · -- wrong responder: delete, block, start over with the old queue
            have h1 := h0.deletePending hh
            have g1 := g0.trans (Grow.deletePending _ hh)
            have m2 : Mono (({ n.p with lh := lh.learn rid hh.vpnAddr via } : PSide).deletePending hh)
                { (({ n.p with lh := lh.learn rid hh.vpnAddr via } : PSide).deletePending hh) with
                  lh := (({ n.p with lh := lh.learn rid hh.vpnAddr via } : PSide).deletePending hh).lh.block rid via } :=
              ⟨rfl, rfl, Nat.le_refl _⟩
            have h2 := (m2.inv h1).1
            have g2 := g1.trans (m2.inv h1).2
            have cb : GoodCb (fun nh : Pending => { nh with remotes := some rid, store := hh.store, offered := hh.offered }) :=
              ⟨fun _ => rfl, fun _ => rfl, fun _ _ => h.fifo a hh hm⟩
            have r := startHandshake_inv n.cfg _ hh.vpnAddr _ cb h2
            exact ⟨r.1, g2.trans r.2, Or.inl rfl⟩
          · -- completion: the pending entry leaves, its queue is released
            have h1 := h0.deletePending hh
            have g1 := g0.trans (Grow.deletePending _ hh)
            have gone := deletePending_gone h0 hm0
            have m2 : Mono (({ n.p with lh := lh.learn rid hh.vpnAddr via } : PSide).deletePending hh)
                { (({ n.p with lh := lh.learn rid hh.vpnAddr via } : PSide).deletePending hh) with
                  lh := (({ n.p with lh := lh.learn rid hh.vpnAddr via } : PSide).deletePending hh).lh.refresh rid } :=
              ⟨rfl, rfl, Nat.le_refl _⟩
            refine ⟨(m2.inv h1).1, g1.trans (m2.inv h1).2, Or.inr ⟨a, hh, hm, rfl, ?_⟩⟩
            intro a' h' hm'
            exact gone a' h' hm'

theorem beginHandshake_mono (n : Node) (via : UNode) (pkt : Handle) (res : Option Completed) (rv now : Nat) :
    Mono n.p (n.beginHandshake via pkt res rv now).1.p ∧ (n.beginHandshake via pkt res rv now).2.flushed = [] := by
  unfold Node.beginHandshake
  split
  · exact ⟨⟨rfl, rfl, Nat.le_refl _⟩, rfl⟩
  · rename_i c
    split
    · exact ⟨Mono.of_same ((genIndex_same n.cfg 8 n.p).trans (freshHandle_same n.cfg _)), rfl⟩
    · have m := prepareResponder_mono n.cfg n.p via pkt c rv
      generalize n.p.prepareResponder n.cfg via pkt c rv = pr at m
      obtain ⟨p, hi, rid⟩ := pr
      dsimp only at m ⊢
      split
      · split <;> exact ⟨m, rfl⟩
      · exact ⟨m, rfl⟩
      · exact ⟨m, rfl⟩
      · exact ⟨⟨m.v, m.w, m.n⟩, rfl⟩

theorem getOrHandshake_keep (n : Node) (a : Addr) (cb : Pending → Pending) (g : GoodCb cb) (h : PInv n.p) :
    (n.getOrHandshake a cb).1.cfg = n.cfg ∧ PInv (n.getOrHandshake a cb).1.p ∧ Grow n.p (n.getOrHandshake a cb).1.p := by
  unfold Node.getOrHandshake
  split
  · exact ⟨rfl, h, Grow.refl _⟩
  · have := startHandshake_inv n.cfg n.p a cb g h
    exact ⟨rfl, this.1, this.2⟩

theorem firstReady_keep (gs : List Addr) (n : Node) (h : PInv n.p) :
    (n.firstReady gs).1.cfg = n.cfg ∧ PInv (n.firstReady gs).1.p ∧ Grow n.p (n.firstReady gs).1.p := by
  induction gs generalizing n with
  | nil => exact ⟨rfl, h, Grow.refl _⟩
  | cons g gs ih =>
    simp only [Node.firstReady]
    have h1 := getOrHandshake_keep n g id goodCb_id h
    generalize n.getOrHandshake g id = r at h1 ⊢
    obtain ⟨n', o⟩ := r
    cases o with
    | some hi => exact h1
    | none =>
      have := ih n' h1.2.1
      exact ⟨this.1.trans h1.1, this.2.1, h1.2.2.trans this.2.2⟩

theorem sendVia_flushed (c : Cfg) (hi : HostInfo) (q : Cached) : (c.sendVia hi q).flushed = [] := by
  unfold Cfg.sendVia
  split
  · split <;> rfl
  · rfl

theorem sendRouted_keep (n : Node) (q : Cached) (h : PInv n.p) :
    PInv (n.sendRouted q).1.p ∧ Grow n.p (n.sendRouted q).1.p ∧ (n.sendRouted q).2.flushed = [] := by
  unfold Node.sendRouted
  split
  next => exact ⟨h, Grow.refl _, rfl⟩
  next g _ =>
    have h1 := getOrHandshake_keep n g.1 (fun hh => hh.cache q) (goodCb_cache q) h
    generalize n.getOrHandshake g.1 (fun hh => hh.cache q) = r at h1 ⊢
    obtain ⟨n', o⟩ := r
    cases o with
    | some hi => exact ⟨h1.2.1, h1.2.2, sendVia_flushed ..⟩
    | none => exact ⟨h1.2.1, h1.2.2, rfl⟩
  next =>
    split
    next => exact ⟨h, Grow.refl _, rfl⟩
    next chosen _ =>
      have h1 := getOrHandshake_keep n chosen id goodCb_id h
      generalize n.getOrHandshake chosen id = r at h1 ⊢
      obtain ⟨n1, o⟩ := r
      cases o with
      | some hi => exact ⟨h1.2.1, h1.2.2, sendVia_flushed ..⟩
      | none =>
        dsimp only
        have h2 := firstReady_keep ((n.cfg.routes.map (·.1)).filter (· != chosen)) n1 h1.2.1
        generalize n1.firstReady ((n.cfg.routes.map (·.1)).filter (· != chosen)) = r2 at h2 ⊢
        obtain ⟨n2, o2⟩ := r2
        cases o2 with
        | some hi => exact ⟨h2.2.1, h1.2.2.trans h2.2.2, sendVia_flushed ..⟩
        | none =>
          dsimp only
          split
          · rename_i hh hl
            have hm := mem_of_alookup hl
            refine ⟨h2.2.1.setPending hm (cache_id hh q).1 (cache_id hh q).2 (cache_fifo hh q (h2.2.1.fifo _ _ hm)), ?_, rfl⟩
            exact (h1.2.2.trans h2.2.2).trans (Grow.setPending _ _)
          · exact ⟨h2.2.1, h1.2.2.trans h2.2.2, rfl⟩

theorem sendInside_keep (n : Node) (a : Addr) (q : Cached) (h : PInv n.p) :
    PInv (n.sendInside a q).1.p ∧ Grow n.p (n.sendInside a q).1.p ∧ (n.sendInside a q).2.flushed = [] := by
  unfold Node.sendInside
  split
  · exact ⟨h, Grow.refl _, rfl⟩
  · split
    · exact sendRouted_keep n q h
    · split
      · exact ⟨h, Grow.refl _, rfl⟩
      · have h1 := getOrHandshake_keep n a (fun hh => hh.cache q) (goodCb_cache q) h
        generalize n.getOrHandshake a (fun hh => hh.cache q) = r at h1 ⊢
        obtain ⟨n', o⟩ := r
        cases o with
        | some hi => exact ⟨h1.2.1, h1.2.2, sendVia_flushed ..⟩
        | none => exact ⟨h1.2.1, h1.2.2, rfl⟩

theorem step_pinv (n : Node) (e : Ev) (h : PInv n.p) :
    PInv (n.step e).1.p ∧ Grow n.p (n.step e).1.p ∧ FlushOk n (n.step e) := by
  have mono : ∀ {p' : PSide} {r : Node × Out}, Mono n.p p' → r.1.p = p' → r.2.flushed = [] →
      PInv r.1.p ∧ Grow n.p r.1.p ∧ FlushOk n r := by
    intro p' r m e1 e2
    rw [e1]; exact ⟨(m.inv h).1, (m.inv h).2, Or.inl e2⟩
  cases e with
  | lh a u =>
    exact mono (p' := (n.step (.lh a u)).1.p) (r := n.step (.lh a u)) ⟨rfl, rfl, Nat.le_refl _⟩ rfl rfl
  | hs a =>
    simp only [Node.step, Node.getOrHandshake]
    split
    · exact ⟨h, Grow.refl _, Or.inl rfl⟩
    · have := startHandshake_inv n.cfg n.p a id goodCb_id h
      exact ⟨this.1, this.2, Or.inl rfl⟩
  | rehs a =>
    have := startHandshake_inv n.cfg n.p a id goodCb_id h
    exact ⟨this.1, this.2, Or.inl rfl⟩
  | tick now =>
    have := tick_inv n.cfg n.main.indexes n.p now h
    exact ⟨this.1, this.2, Or.inl (tick_flushed ..)⟩
  | trig a now =>
    have := (handleOutbound_inv n.cfg n.main.indexes n.p now []).2 a h
    exact ⟨this.1, this.2, Or.inl (handleOutbound_flushed ..)⟩
  | stage1 via pkt res rv now =>
    have := beginHandshake_mono n via pkt res rv now
    exact mono this.1 rfl this.2
  | stage2 via idx res => exact continueHandshake_pinv n via idx res h
  | send a q =>
    have := sendInside_keep n a q h
    exact ⟨this.1, this.2.1, Or.inl this.2.2⟩
  | idx v =>
    exact mono (p' := (n.step (.idx v)).1.p) (r := n.step (.idx v)) ⟨rfl, rfl, Nat.le_refl _⟩ rfl rfl
  | del li =>
    simp only [Node.step, Node.deleteTunnel]
    split <;> exact ⟨h, Grow.refl _, Or.inl rfl⟩
  | swap li =>
    simp only [Node.step, Node.swapCheck]
    split
    · exact ⟨h, Grow.refl _, Or.inl rfl⟩
    · split
      · exact ⟨h, Grow.refl _, Or.inl rfl⟩
      · split
        · exact ⟨h, Grow.refl _, Or.inl rfl⟩
        · split <;> exact ⟨h, Grow.refl _, Or.inl rfl⟩
  | block ids =>
    exact mono (p' := (n.step (.block ids)).1.p) (r := n.step (.block ids)) ⟨rfl, rfl, Nat.le_refl _⟩ rfl rfl
  | cmcheck li i o =>
    have lhOnly : ∀ (lh : LH), PInv ({ n.p with lh := lh } : PSide) ∧ Grow n.p ({ n.p with lh := lh } : PSide) :=
      fun lh => (⟨rfl, rfl, Nat.le_refl _⟩ : Mono n.p { n.p with lh := lh }).inv h
    simp only [Node.step, Node.trafficCheck]
    split
    · exact ⟨h, Grow.refl _, Or.inl rfl⟩
    · rename_i hi hk
      split
      · split
        · exact ⟨(lhOnly _).1, (lhOnly _).2, Or.inl rfl⟩
        · exact ⟨h, Grow.refl _, Or.inl rfl⟩
      · split
        · exact ⟨(lhOnly _).1, (lhOnly _).2, Or.inl rfl⟩
        · exact ⟨h, Grow.refl _, Or.inl rfl⟩
      · exact ⟨h, Grow.refl _, Or.inl rfl⟩
      · split
        · have cb : GoodCb (fun hh : Pending => { hh with verOverride := hi.certVer }) :=
            ⟨fun _ => rfl, fun _ => rfl, fun _ e => e⟩
          have := startHandshake_inv n.cfg n.p (hi.vpnAddrs.headD 0) _ cb h
          exact ⟨this.1, this.2, Or.inl rfl⟩
        · exact ⟨h, Grow.refl _, Or.inl rfl⟩
      · exact ⟨h, Grow.refl _, Or.inl rfl⟩
      · exact ⟨h, Grow.refl _, Or.inl rfl⟩
      · exact ⟨h, Grow.refl _, Or.inl rfl⟩

end Nebula.Lemmas.HsPending
