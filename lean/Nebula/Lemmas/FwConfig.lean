/-
Lemmas for C22: convertRule never reaches a panicking operation; parsePortValue computes the ordinary decimal
value bounded by 65535; parsePort accepts exactly the valid port texts; the loop of AddFirewallRulesFromConfig
is `addRules` over the described rules.
-/
import Nebula.Spec.FwConfig
import Nebula.Lemmas.FwConn
namespace Nebula.Lemmas.FwCfg
open Nebula.Net Nebula.Fw Nebula.FwCfg Nebula.Spec.FwCfg

/-! ### convertRule never panics -/

theorem groupsOfList_no_panic (l : List Y) (e : ConvErr) (h : groupsOfList l = .error e) : e.isPanic = false := by
  induction l generalizing e with
  | nil => simp [groupsOfList] at h
  | cons x xs ih =>
    cases x <;> simp only [groupsOfList] at h
    all_goals try (cases h; rfl)
    -- the string case
    simp only [assertString] at h
    cases hr : groupsOfList xs with
    | ok r => simp [hr] at h
    | error e' =>
      simp only [hr] at h
      injection h with h
      rw [← h]
      exact ih e' hr

theorem convertRule_no_panic (y : Y) (e : ConvErr) (h : convertRule y = .error e) : e.isPanic = false := by
  cases y <;> simp only [convertRule] at h
  all_goals try (cases h; rfl)
  rename_i m
  -- the `group` array block
  split at h
  · rename_i e1 hm1
    cases h
    split at hm1
    · rename_i v _
      split at hm1
      · cases hm1; rfl
      · split at hm1
        · cases hm1; rfl
        · cases v with
          | nil => simp at *
          | cons x xs => simp [index0] at hm1
    · cases hm1
  · rename_i m1 _
    split at h
    · rename_i e2 hg
      cases h
      split at hg
      · cases hg
      · cases hg; rfl
      · exact groupsOfList_no_panic _ _ hg
      · cases hg
      · cases hg
    · split at h
      · cases h; rfl
      · cases h

/-! ### parsePortValue = the ordinary decimal value, bounded by 65535 -/

def dstep (acc : Option Nat) (c : Char) : Option Nat :=
  match acc, (if '0' ≤ c ∧ c ≤ '9' then some (c.toNat - 48) else none) with
  | some n, some d => some (n * 10 + d)
  | _, _ => none

theorem foldl_dstep_none (cs : List Char) : cs.foldl dstep none = none := by
  induction cs with
  | nil => rfl
  | cons c cs ih => simpa [List.foldl_cons, dstep] using ih

theorem foldl_dstep_mono (cs : List Char) (n v : Nat) (h : cs.foldl dstep (some n) = some v) : n ≤ v := by
  induction cs generalizing n with
  | nil => simp at h; omega
  | cons c cs ih =>
    simp only [List.foldl_cons] at h
    by_cases hd : '0' ≤ c ∧ c ≤ '9'
    · simp only [dstep, hd, and_self, if_true] at h
      have := ih _ h
      omega
    · simp only [dstep, hd, if_false] at h
      rw [foldl_dstep_none] at h
      cases h

theorem parseUintLoop_ok (cs : List Char) (n v : Nat) (hn : n ≤ 65535) :
    parseUintLoop cs n = .ok v ↔ (cs.foldl dstep (some n) = some v ∧ v ≤ 65535) := by
  induction cs generalizing n with
  | nil =>
    simp only [parseUintLoop, List.foldl_nil, Except.ok.injEq, Option.some.injEq]
    constructor
    · intro h; subst h; exact ⟨rfl, hn⟩
    · intro h; exact h.1
  | cons c cs ih =>
    simp only [parseUintLoop, List.foldl_cons, digitVal]
    by_cases hd : '0' ≤ c ∧ c ≤ '9'
    · have h48 : '0'.toNat = 48 := rfl
      simp only [hd, and_self, if_true, dstep, h48]
      by_cases hr : n * 10 + (c.toNat - 48) > 65535
      · simp only [hr, if_true, reduceCtorEq, false_iff, not_and]
        intro hf
        have := foldl_dstep_mono _ _ _ hf
        omega
      · simp only [hr, if_false]
        exact ih _ (by omega)
    · simp only [hd, if_false, dstep, foldl_dstep_none, reduceCtorEq, false_and]

theorem decimalValue_eq (s : List Char) : decimalValue s = if s = [] then none else s.foldl dstep (some 0) := rfl

theorem parsePortValue_ok (s : List Char) (v : Nat) : parsePortValue s = .ok v ↔ portNumeral s = some v := by
  unfold parsePortValue portNumeral
  rw [decimalValue_eq]
  cases s with
  | nil => simp
  | cons c cs =>
    simp only [List.isEmpty_cons, Bool.false_eq_true, if_false, reduceCtorEq]
    rw [parseUintLoop_ok _ _ _ (by omega)]
    cases hf : (c :: cs).foldl dstep (some 0) with
    | none => simp
    | some w =>
      by_cases hw : w ≤ 65535
      · simp only [Option.some.injEq, hw, if_true]
        constructor
        · intro h; exact h.1
        · intro h; subst h; exact ⟨rfl, hw⟩
      · simp only [Option.some.injEq, hw, if_false, reduceCtorEq, iff_false, not_and]
        intro h; subst h; exact hw

/-! ### the first dash -/

theorem splitDash_none (cs : List Char) : splitDash cs = none ↔ cs.contains '-' = false := by
  induction cs with
  | nil => simp [splitDash]
  | cons c cs ih =>
    simp only [splitDash]
    by_cases hc : c = '-'
    · simp [hc]
    · simp only [hc, if_false]
      cases hs : splitDash cs with
      | none =>
        have := ih.1 hs
        simp only [List.contains_cons, this, Bool.or_false, beq_eq_false_iff_ne, ne_eq, true_iff]
        exact fun h => hc h.symm
      | some x =>
        have : cs.contains '-' = true := by
          cases hcs : cs.contains '-'
          · exact absurd (ih.2 hcs) (by simp [hs])
          · rfl
        have hm : '-' ∈ cs := by simpa using this
        simp [hm]

theorem splitDash_some (cs l r : List Char) (h : splitDash cs = some (l, r)) :
    l = cs.takeWhile (· ≠ '-') ∧ r = (cs.dropWhile (· ≠ '-')).drop 1 := by
  induction cs generalizing l r with
  | nil => simp [splitDash] at h
  | cons c cs ih =>
    simp only [splitDash] at h
    by_cases hc : c = '-'
    · simp only [hc, if_true, Option.some.injEq, Prod.mk.injEq] at h
      simp [hc, h.1.symm, h.2.symm]
    · simp only [hc, if_false] at h
      cases hs : splitDash cs with
      | none => simp [hs] at h
      | some x =>
        simp only [hs, Option.some.injEq, Prod.mk.injEq] at h
        have := ih x.1 x.2 (by rw [hs])
        have hne : (decide (c ≠ '-')) = true := by simp [hc]
        rw [← h.1, ← h.2, this.1, this.2]
        simp [List.takeWhile_cons, List.dropWhile_cons, hc]

/-! ### parsePort -/

theorem trim_eq (s : List Char) : trimSpaces s = stripBlanks s := rfl

/-- the `AddRule` bounds `parsePort` returns for a valid text. -/
def loadedBounds (t : PortText) : Int × Int := if t.zeroRange then (0, 0) else t.bounds

theorem portNumeral_nil : portNumeral [] = none := by simp [portNumeral, decimalValue]

/-- `parsePort` accepts exactly the valid port texts, with the bounds the text says (a range from 0 collapsed). -/
theorem parsePort_ok (s : String) (a b : Int) :
    parsePort s = .ok (a, b) ↔ ∃ t, portText s = some t ∧ (a, b) = loadedBounds t := by
  unfold parsePort portText
  by_cases h1 : s = "any"
  · simp only [h1, if_true, Gen.firewall_PortAny]
    constructor
    · intro h; cases h; exact ⟨.any, rfl, rfl⟩
    · rintro ⟨t, ht, hb⟩; cases ht; simp [loadedBounds, PortText.zeroRange, PortText.bounds] at hb; simp [hb]
  · by_cases h2 : s = "fragment"
    · simp only [h1, h2, if_true, Gen.firewall_PortFragment]
      simp only [String.reduceEq, if_false]
      constructor
      · intro h; cases h; exact ⟨.fragment, rfl, rfl⟩
      · rintro ⟨t, ht, hb⟩; cases ht; simp [loadedBounds, PortText.zeroRange, PortText.bounds] at hb; simp [hb]
    · simp only [h1, h2, if_false]
      cases hsd : splitDash s.toList with
      | none =>
        have hc := (splitDash_none _).1 hsd
        simp only [hc, Bool.false_eq_true, if_false]
        cases hp : parsePortValue s.toList with
        | error e =>
          have : portNumeral s.toList = none := by
            cases hn : portNumeral s.toList with
            | none => rfl
            | some v => rw [(parsePortValue_ok _ _).2 hn] at hp; cases hp
          simp [this]
        | ok n =>
          have := (parsePortValue_ok _ _).1 hp
          simp only [this, Option.map_some, Except.ok.injEq, Prod.mk.injEq]
          constructor
          · rintro ⟨ha, hb⟩; exact ⟨.single n, rfl, by simp [loadedBounds, PortText.zeroRange, PortText.bounds, ← ha, ← hb]⟩
          · rintro ⟨t, ht, hb⟩
            simp only [Option.some.injEq] at ht
            subst ht
            simp [loadedBounds, PortText.zeroRange, PortText.bounds] at hb
            exact ⟨hb.1.symm, hb.2.symm⟩
      | some x =>
        obtain ⟨l, r⟩ := x
        have hc : s.toList.contains '-' = true := by
          cases hcc : s.toList.contains '-'
          · rw [(splitDash_none _).2 hcc] at hsd; cases hsd
          · rfl
        obtain ⟨hl, hr⟩ := splitDash_some _ _ _ hsd
        simp only [hc, if_true, trim_eq, ← hl, ← hr]
        by_cases hemp : (stripBlanks l).isEmpty = true ∨ (stripBlanks r).isEmpty = true
        · have : portNumeral (stripBlanks l) = none ∨ portNumeral (stripBlanks r) = none := by
            rcases hemp with h | h
            · left; rw [List.isEmpty_iff.1 h]; exact portNumeral_nil
            · right; rw [List.isEmpty_iff.1 h]; exact portNumeral_nil
          simp only [hemp, if_true, reduceCtorEq, false_iff, not_exists, not_and]
          intro t ht
          rcases this with h | h <;> simp [h] at ht
        · simp only [hemp, if_false]
          cases hpl : parsePortValue (stripBlanks l) with
          | error e =>
            have : portNumeral (stripBlanks l) = none := by
              cases hn : portNumeral (stripBlanks l) with
              | none => rfl
              | some v => rw [(parsePortValue_ok _ _).2 hn] at hpl; cases hpl
            simp [this]
          | ok av =>
            have hla := (parsePortValue_ok _ _).1 hpl
            cases hpr : parsePortValue (stripBlanks r) with
            | error e =>
              have : portNumeral (stripBlanks r) = none := by
                cases hn : portNumeral (stripBlanks r) with
                | none => rfl
                | some v => rw [(parsePortValue_ok _ _).2 hn] at hpr; cases hpr
              simp [this, hla]
            | ok bv =>
              have hrb := (parsePortValue_ok _ _).1 hpr
              simp only [hla, hrb]
              have hany : ((Gen.firewall_PortAny : Nat) : Int) = 0 := rfl
              by_cases hz : av = Gen.firewall_PortAny
              · rw [if_pos hz]
                have hz0 : av = 0 := hz
                subst hz0
                simp only [hany, Except.ok.injEq, Prod.mk.injEq]
                constructor
                · rintro ⟨ha, hb⟩
                  exact ⟨.range 0 bv, rfl, by simp [loadedBounds, PortText.zeroRange, ← ha, ← hb]⟩
                · rintro ⟨t, ht, hb⟩
                  simp only [Option.some.injEq] at ht
                  subst ht
                  simp [loadedBounds, PortText.zeroRange] at hb
                  exact ⟨by simp [hb.1], hb.2.symm⟩
              · rw [if_neg hz]
                have hz0 : ¬ av = 0 := hz
                simp only [Except.ok.injEq, Prod.mk.injEq]
                constructor
                · rintro ⟨ha, hb⟩
                  exact ⟨.range av bv, rfl, by simp [loadedBounds, PortText.zeroRange, PortText.bounds, hz0, ← ha, ← hb]⟩
                · rintro ⟨t, ht, hb⟩
                  simp only [Option.some.injEq] at ht
                  subst ht
                  simp [loadedBounds, PortText.zeroRange, PortText.bounds, hz0] at hb
                  exact ⟨hb.1.symm, hb.2.symm⟩


theorem bounds_admit (t : PortText) (x : Int) :
    rangeAdmits (loadedBounds t).1 (loadedBounds t).2 x = t.admits x := by
  cases t with
  | any => simp [loadedBounds, PortText.zeroRange, PortText.bounds, rangeAdmits, PortText.admits]
  | fragment =>
    simp only [loadedBounds, PortText.zeroRange, PortText.bounds, rangeAdmits, PortText.admits]
    rw [Bool.eq_iff_iff]; simp; omega
  | single n =>
    simp only [loadedBounds, PortText.zeroRange, PortText.bounds, rangeAdmits, PortText.admits]
    rw [Bool.eq_iff_iff]; simp; omega
  | range a b =>
    by_cases ha : a = 0
    · simp [loadedBounds, PortText.zeroRange, PortText.bounds, rangeAdmits, PortText.admits, ha]
    · simp only [loadedBounds, PortText.zeroRange, PortText.bounds, rangeAdmits, PortText.admits, ha]
      rw [Bool.eq_iff_iff]; simp; omega

theorem portLoads_iff (s : String) :
    (∃ a b, parsePort s = .ok (a, b) ∧ a ≤ b) ↔ portTextLoads s = true := by
  unfold portTextLoads
  constructor
  · rintro ⟨a, b, hp, hle⟩
    obtain ⟨t, ht, hb⟩ := (parsePort_ok s a b).1 hp
    rw [ht]
    simp only [loadedBounds] at hb
    by_cases hz : t.zeroRange = true
    · simp [hz]
    · have hz' : t.zeroRange = false := by simpa using hz
      simp only [hz', Bool.false_eq_true, if_false] at hb
      have h1 : t.bounds.1 = a := by rw [← hb]
      have h2 : t.bounds.2 = b := by rw [← hb]
      simp [hz', h1, h2, hle]
  · intro h
    cases ht : portText s with
    | none => simp [ht] at h
    | some t =>
      simp only [ht, Bool.or_eq_true, decide_eq_true_eq] at h
      refine ⟨(loadedBounds t).1, (loadedBounds t).2, (parsePort_ok s _ _).2 ⟨t, ht, rfl⟩, ?_⟩
      simp only [loadedBounds]
      by_cases hz : t.zeroRange = true
      · simp [hz]
      · rcases h with h | h
        · exact absurd h hz
        · simp [hz, h]


/-! ### one rule of the configuration -/

theorem cidrSel_some (pp : String → Option Prefix) (s : String) : (cidrSel pp s).isSome = cidrOK pp s := by
  unfold cidrSel cidrOK
  by_cases h1 : s = ""
  · simp [h1]
  · by_cases h2 : s = "any"
    · simp [h2]
    · simp [h1, h2]

/-- a `(proto, start, end)` triple `AddRule` accepts. -/
def tripleValid (x : Nat × Int × Int) : Bool :=
  (x.1 = 0 ∨ x.1 = 6 ∨ x.1 = 17 ∨ x.1 = 1 ∨ x.1 = 58) ∧ (Spec.Fw.isICMP x.1 ∨ x.2.1 ≤ x.2.2)

theorem protoPort_iff (r : CRule) :
    (∃ x, protoPort r = .ok x ∧ tripleValid x = true)
      ↔ (r.proto = "icmp" ∨ ((r.proto = "any" ∨ r.proto = "tcp" ∨ r.proto = "udp")
            ∧ portTextLoads (if r.code ≠ "" then r.code else r.port) = true)) := by
  unfold protoPort
  simp only
  generalize (if r.code ≠ "" then r.code else r.port) = sPort
  have key : ∀ (pn : Nat), (pn = 0 ∨ pn = 6 ∨ pn = 17) →
      ((∃ x, withProto pn (parsePort sPort) = .ok x ∧ tripleValid x = true)
        ↔ portTextLoads sPort = true) := by
    intro pn hpn
    rw [← portLoads_iff]
    have hi : Spec.Fw.isICMP pn = false := by rcases hpn with h | h | h <;> simp [Spec.Fw.isICMP, h]
    constructor
    · rintro ⟨x, hx, hv⟩
      cases hp : parsePort sPort with
      | error e => simp [hp, withProto] at hx
      | ok ab =>
        obtain ⟨a, b⟩ := ab
        simp only [hp, withProto, Except.ok.injEq] at hx
        subst hx
        simp only [tripleValid, hi, Bool.false_eq_true, false_or, decide_eq_true_eq] at hv
        exact ⟨a, b, rfl, hv.2⟩
    · rintro ⟨a, b, hp, hle⟩
      refine ⟨(pn, a, b), by simp [hp, withProto], ?_⟩
      simp only [tripleValid, hi, Bool.false_eq_true, false_or, decide_eq_true_eq]
      exact ⟨by rcases hpn with h | h | h <;> simp [h], hle⟩
  by_cases h1 : r.proto = "any"
  · simp only [h1, if_true, Gen.firewall_ProtoAny]
    rw [key 0 (Or.inl rfl)]
    simp
  · by_cases h2 : r.proto = "tcp"
    · simp only [h2, if_true, Gen.firewall_ProtoTCP]
      simp only [String.reduceEq, if_false]
      rw [key 6 (Or.inr (Or.inl rfl))]
      simp
    · by_cases h3 : r.proto = "udp"
      · simp only [h3, if_true, Gen.firewall_ProtoUDP]
        simp only [String.reduceEq, if_false]
        rw [key 17 (Or.inr (Or.inr rfl))]
        simp
      · by_cases h4 : r.proto = "icmp"
        · simp only [h4, if_true]
          simp only [String.reduceEq, if_false, true_or, iff_true]
          exact ⟨_, rfl, by decide⟩
        · simp [h1, h2, h3, h4]


/-- **a rule loads iff the specification says so.** -/
theorem loads_iff (pp : String → Option Prefix) (inbound : Bool) (cr : CRule) :
    (∃ r, ruleOfConfig pp inbound cr = .ok r ∧ Spec.Fw.ruleValid r = true) ↔ ruleLoads pp cr = true := by
  have hpp := protoPort_iff cr
  unfold ruleOfConfig ruleLoads
  by_cases hpc : cr.code ≠ "" ∧ cr.port ≠ ""
  · simp [hpc]
  · by_cases hsel : cr.host = "" ∧ cr.groups.length = 0 ∧ cr.cidr = "" ∧ cr.localCidr = "" ∧ cr.caName = "" ∧ cr.caSha = ""
    · obtain ⟨h1, h2, h3, h4, h5, h6⟩ := hsel
      have h2' : cr.groups = [] := List.length_eq_zero_iff.1 h2
      simp [hpc, h1, h2', h3, h4, h5, h6]
    · have hsel' : (cr.host ≠ "" ∨ cr.groups ≠ [] ∨ cr.cidr ≠ "" ∨ cr.localCidr ≠ "" ∨ cr.caName ≠ "" ∨ cr.caSha ≠ "") := by
        by_cases a1 : cr.host = "" <;> by_cases a2 : cr.groups = [] <;> by_cases a3 : cr.cidr = ""
          <;> by_cases a4 : cr.localCidr = "" <;> by_cases a5 : cr.caName = "" <;> by_cases a6 : cr.caSha = ""
          <;> simp_all
      simp only [hpc, hsel, if_false]
      rw [← cidrSel_some, ← cidrSel_some]
      simp only [decide_eq_true_eq, Bool.and_eq_true, not_false_eq_true, true_and, hsel']
      rw [← hpp]
      constructor
      · rintro ⟨r, hr, hv⟩
        cases hx : protoPort cr with
        | error e => simp [hx] at hr
        | ok x =>
          obtain ⟨pn, a, b⟩ := x
          simp only [hx] at hr
          cases hc : cidrSel pp cr.cidr with
          | none => simp [hc] at hr
          | some c =>
            cases hl : cidrSel pp cr.localCidr with
            | none => simp [hc, hl] at hr
            | some lc =>
              simp only [hc, hl, Except.ok.injEq] at hr
              subst hr
              exact ⟨⟨(pn, a, b), rfl, by simpa [tripleValid, Spec.Fw.ruleValid] using hv⟩, rfl, rfl⟩
      · rintro ⟨⟨x, hx, hv⟩, hc, hl⟩
        obtain ⟨pn, a, b⟩ := x
        cases hcc : cidrSel pp cr.cidr with
        | none => simp [hcc] at hc
        | some c =>
          cases hll : cidrSel pp cr.localCidr with
          | none => simp [hll] at hl
          | some lc =>
            refine ⟨{ incoming := inbound, proto := pn, startPort := a, endPort := b, groups := cr.groups,
                      host := cr.host, cidr := c, localCidr := lc, caName := cr.caName, caSha := cr.caSha },
                    by simp only [hx, hcc, hll], ?_⟩
            simpa [tripleValid, Spec.Fw.ruleValid] using hv


theorem withProto_err (pn : Nat) (x : Except PortErr (Int × Int)) (e : LoadErr) (h : withProto pn x = .error e) :
    ∃ pe, e = .port pe := by
  cases x with
  | ok ab => simp [withProto] at h
  | error pe => simp only [withProto, Except.error.injEq] at h; exact ⟨pe, h.symm⟩

theorem protoPort_err (r : CRule) (e : LoadErr) (h : protoPort r = .error e) : e = .proto ∨ ∃ pe, e = .port pe := by
  unfold protoPort at h
  simp only at h
  by_cases h1 : r.proto = "any"
  · simp only [h1, if_true] at h; exact Or.inr (withProto_err _ _ _ h)
  · by_cases h2 : r.proto = "tcp"
    · simp only [h1, h2, if_true, if_false] at h; exact Or.inr (withProto_err _ _ _ h)
    · by_cases h3 : r.proto = "udp"
      · simp only [h1, h2, h3, if_true, if_false] at h; exact Or.inr (withProto_err _ _ _ h)
      · by_cases h4 : r.proto = "icmp"
        · simp [h1, h2, h3, h4] at h
        · simp only [h1, h2, h3, h4, if_false, Except.error.injEq] at h; exact Or.inl h.symm

/-- the guards after `convertRule` never report a conversion error. -/
theorem ruleOfConfig_not_convert (pp : String → Option Prefix) (inbound : Bool) (cr : CRule) (e : ConvErr) :
    ruleOfConfig pp inbound cr ≠ .error (.convert e) := by
  intro h
  unfold ruleOfConfig at h
  split at h
  · cases h
  · split at h
    · cases h
    · cases hx : protoPort cr with
      | error e2 =>
        simp only [hx, Except.error.injEq] at h
        rcases protoPort_err cr e2 hx with h1 | ⟨pe, h1⟩ <;> rw [h1] at h <;> cases h
      | ok x =>
        simp only [hx] at h
        split at h
        · cases h
        · split at h <;> cases h

/-- the error of an `Except`, if any (for `decide`-able examples). -/
def errOf {ε α : Type} : Except ε α → Option ε
  | .error e => some e
  | .ok _ => none

/-! ### the loop of AddFirewallRulesFromConfig -/

/-- the `AddRule` calls a list of configuration values stands for (`none` if one of them does not convert or is
refused before `AddRule`). -/
def describedRules (pp : String → Option Prefix) (inbound : Bool) : List Y → Option (List Rule)
  | [] => some []
  | t :: ts =>
    match convertRule t with
    | .error _ => none
    | .ok cr =>
      match ruleOfConfig pp inbound cr with
      | .error _ => none
      | .ok r => (describedRules pp inbound ts).map (r :: ·)

theorem fw_addRule_ok (fw fw' : Fw) (r : Rule) (h : fw.addRule r = .ok fw') :
    Nebula.Lemmas.Fw.stepFw fw r = fw' ∧ Spec.Fw.ruleValid r = true := by
  refine ⟨by simp [Nebula.Lemmas.Fw.stepFw, h], ?_⟩
  cases hv : Spec.Fw.ruleValid r with
  | true => rfl
  | false =>
    exfalso
    unfold Fw.addRule at h
    cases hi : r.incoming
    · simp only [hi, Bool.false_eq_true, if_false] at h
      obtain ⟨e, he⟩ := (Nebula.Lemmas.Fw.table_refused_iff fw.cfg fw.outRules r).2 hv
      simp [he] at h
    · simp only [hi, if_true] at h
      obtain ⟨e, he⟩ := (Nebula.Lemmas.Fw.table_refused_iff fw.cfg fw.inRules r).2 hv
      simp [he] at h

/-- a list that loads completely is `addRules` of the rules it describes, all of them valid. -/
theorem loadList_ok (pp : String → Option Prefix) (inbound : Bool) (ys : List Y) (fw fw' : Fw)
    (h : loadList pp inbound ys fw = (none, fw')) :
    ∃ rules, describedRules pp inbound ys = some rules ∧ fw' = fw.addRules rules
      ∧ ∀ r ∈ rules, Spec.Fw.ruleValid r = true := by
  induction ys generalizing fw with
  | nil =>
    simp only [loadList, Prod.mk.injEq, true_and] at h
    exact ⟨[], rfl, by simp [Fw.addRules, h], by simp⟩
  | cons t ts ih =>
    simp only [loadList] at h
    cases hc : convertRule t with
    | error e => simp [hc] at h
    | ok cr =>
      simp only [hc] at h
      cases hr : ruleOfConfig pp inbound cr with
      | error e => simp [hr] at h
      | ok r =>
        simp only [hr] at h
        cases ha : fw.addRule r with
        | error e => simp [ha] at h
        | ok fw1 =>
          simp only [ha] at h
          obtain ⟨rules, hd, hf, hvalid⟩ := ih fw1 h
          obtain ⟨hs, hv⟩ := fw_addRule_ok fw fw1 r ha
          refine ⟨r :: rules, by simp [describedRules, hc, hr, hd], ?_, ?_⟩
          · rw [hf, Nebula.Lemmas.Fw.addRules_eq_foldl, Nebula.Lemmas.Fw.addRules_eq_foldl, List.foldl_cons, hs]
          · intro r' hr'
            rcases List.mem_cons.1 hr' with h1 | h1
            · rw [h1]; exact hv
            · exact hvalid r' h1

end Nebula.Lemmas.FwCfg
