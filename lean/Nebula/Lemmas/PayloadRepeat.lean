/-
Repeated occurrences of singular fields (seeded change C08-5): messages made of any number of `Details`
occurrences, each any sequence of well-formed conforming records.  Both decoders read such a message as
the record-by-record interpretation of all records of all occurrences in message order (so the last
occurrence of a singular field wins, inside one occurrence and across occurrences).
-/
import Nebula.Lemmas.PayloadEnv

namespace Nebula.Payload
open Nebula.Wire
open Nebula.Spec.HandshakeSchema

/-- The value of singular field `num` of a decoded payload, as a wire value. -/
def Payload.field (p : Payload) (num : Nat) : Option Val :=
  if num = 1 then some (.bytes p.cert)
  else if num = 2 then some (.varint p.initiatorIndex)
  else if num = 3 then some (.varint p.responderIndex)
  else if num = 5 then some (.varint p.time)
  else if num = 8 then some (.varint p.certVersion)
  else none

/-- A `NebulaHandshake` message consisting of one `Details` field per element of `tss`. -/
def detailsMsg (tss : List (List Tok)) : Bytes :=
  (tss.map (fun ts => appendTag 1 BytesType ++ appendBytes (encodeToks ts))).flatten

def detailsTok (ts : List Tok) : Tok := ⟨1, .bytes (encodeToks ts)⟩

theorem detailsMsg_cons (ts : List Tok) (tss : List (List Tok)) :
    detailsMsg (ts :: tss) = appendTag 1 BytesType ++ (appendBytes (encodeToks ts) ++ detailsMsg tss) := by
  simp [detailsMsg]

theorem detailsMsg_eq (tss : List (List Tok)) : detailsMsg tss = encodeToks (tss.map detailsTok) := by
  induction tss with
  | nil => simp [detailsMsg, encodeToks]
  | cons ts tss ih =>
    rw [detailsMsg_cons, List.map_cons, encodeToks_cons, ← ih]
    simp [detailsTok, Tok.encode, Val.typ, Val.encode]

/-- A record that sets a singular field: afterwards the field has exactly the record's value. -/
theorem field_applyDetails (d : Details) (t : Tok) (hc : t.conforms)
    (hn : t.num = 1 ∨ t.num = 2 ∨ t.num = 3 ∨ t.num = 5 ∨ t.num = 8) :
    (toPayload (applyDetails d t)).field t.num = some t.val := by
  obtain ⟨num, val⟩ := t
  obtain ⟨c1, c2, c5⟩ := hc
  simp only at hn c1 c2 c5
  rcases hn with h | h | h | h | h <;> subst h
  · obtain ⟨b, hb⟩ := c1 rfl
    subst hb; simp [applyDetails, toPayload, Payload.field]
  · obtain ⟨v, hv, hlt⟩ := c2 (by simp)
    subst hv; simp [applyDetails, toPayload, Payload.field, Nat.mod_eq_of_lt hlt]
  · obtain ⟨v, hv, hlt⟩ := c2 (by simp)
    subst hv; simp [applyDetails, toPayload, Payload.field, Nat.mod_eq_of_lt hlt]
  · obtain ⟨v, hv⟩ := c5 rfl
    subst hv; simp [applyDetails, toPayload, Payload.field]
  · obtain ⟨v, hv, hlt⟩ := c2 (by simp)
    subst hv; simp [applyDetails, toPayload, Payload.field, Nat.mod_eq_of_lt hlt]

/-- `UnmarshalPayload` on any number of `Details` occurrences: all records of all occurrences, in order. -/
theorem payloadLoop_detailsMsg : ∀ (tss : List (List Tok)) (d : Details) (fuel : Nat),
    (∀ ts ∈ tss, ∀ t ∈ ts, t.wf ∧ t.conforms) → (∀ ts ∈ tss, (encodeToks ts).length < 2 ^ 64) →
    (detailsMsg tss).length < fuel →
    payloadLoop fuel (toPayload d) (detailsMsg tss) = .ok (toPayload (tss.flatten.foldl applyDetails d)) := by
  intro tss
  induction tss with
  | nil =>
    intro d fuel _ _ hf
    simpa [detailsMsg] using payloadLoop_nil fuel (toPayload d) (by omega)
  | cons ts tss ih =>
    intro d fuel hall hlen hf
    cases fuel with
    | zero => omega
    | succ f =>
      have hts := hall ts (by simp)
      have hX := hlen ts (by simp)
      have hpos := appendTag_length_pos 1 BytesType
      rw [detailsMsg_cons] at hf ⊢
      rw [payloadLoop_step f _ 1 BytesType _ (by omega) (by omega) (by decide),
        payloadField_details _ _ _ hX, unmarshalDetails_toks ts d hts]
      simp only
      have hf' : (detailsMsg tss).length < f := by
        simp only [List.length_append] at hf
        omega
      rw [ih (ts.foldl applyDetails d) f (fun ts' h' => hall ts' (by simp [h']))
        (fun ts' h' => hlen ts' (by simp [h'])) hf']
      simp [List.foldl_append]

theorem unmarshalPayload_detailsMsg (tss : List (List Tok))
    (hall : ∀ ts ∈ tss, ∀ t ∈ ts, t.wf ∧ t.conforms) (hlen : ∀ ts ∈ tss, (encodeToks ts).length < 2 ^ 64) :
    unmarshalPayload (detailsMsg tss) = .ok (toPayload (tss.flatten.foldl applyDetails {})) := by
  have := payloadLoop_detailsMsg tss {} ((detailsMsg tss).length + 1) hall hlen (by omega)
  exact this

/-- The schema's interpretation of the same records. -/
theorem foldl_applyMsg_detailsToks : ∀ (tss : List (List Tok)) (m : Msg),
    (∀ ts ∈ tss, ∀ t ∈ ts, t.wf) → (∀ ts ∈ tss, (encodeToks ts).length < 2 ^ 64) →
    ∃ m', (tss.map detailsTok).foldl applyMsg (some m) = some m' ∧
      m'.details = tss.flatten.foldl applyDetails m.details := by
  intro tss
  induction tss with
  | nil => intro m _ _; exact ⟨m, by simp, by simp⟩
  | cons ts tss ih =>
    intro m hall hlen
    have htk := tokenize_toks ts ((encodeToks ts).length + 1) (hall ts (by simp)) (by omega)
    obtain ⟨m', h1, h2⟩ := ih { m with hasDetails := true, details := ts.foldl applyDetails m.details }
      (fun ts' h' => hall ts' (by simp [h'])) (fun ts' h' => hlen ts' (by simp [h']))
    refine ⟨m', ?_, ?_⟩
    · rw [List.map_cons, List.foldl_cons]
      simp only [applyMsg, detailsTok, htk]
      exact h1
    · rw [h2]; simp [List.foldl_append]

theorem decode_detailsMsg (tss : List (List Tok))
    (hall : ∀ ts ∈ tss, ∀ t ∈ ts, t.wf) (hlen : ∀ ts ∈ tss, (encodeToks ts).length < 2 ^ 64) :
    ∃ m, decode (detailsMsg tss) = some m ∧ m.details = tss.flatten.foldl applyDetails {} := by
  have hwf : ∀ t ∈ tss.map detailsTok, t.wf := by
    intro t ht
    obtain ⟨ts, hts, rfl⟩ := List.mem_map.mp ht
    exact ⟨by simp [detailsTok], by simp [detailsTok, maxValidNumber], hlen ts hts⟩
  have htk := tokenize_toks (tss.map detailsTok) ((detailsMsg tss).length + 1) hwf
    (by rw [← detailsMsg_eq]; omega)
  obtain ⟨m', h1, h2⟩ := foldl_applyMsg_detailsToks tss {} hall hlen
  refine ⟨m', ?_, h2⟩
  unfold decode
  rw [detailsMsg_eq] at htk ⊢
  rw [htk]
  exact h1

end Nebula.Payload
