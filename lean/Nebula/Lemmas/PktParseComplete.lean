/-
Lemmas for C20, completeness direction: whatever the independent parser resolves within the walk limit
(and with the upper-layer bytes the classification reads present) is accepted by the model of newPacket.
-/
import Nebula.Lemmas.PktParse

namespace Nebula.Lemmas.PktParse
open Nebula.Pkt Nebula.Spec.IP


/-- one unfolding of the specification's walk at a TLV header (hop-by-hop, routing, destination) -/
theorem walk_tlv' (sf nh : Nat) (rest : List UInt8) (off : Nat) (af : Bool) (k : Nat)
    (hA : nh = 0 ∨ nh = 43 ∨ nh = 60) (a b : UInt8) (tl : List UInt8) (hr : rest = a :: b :: tl) :
    walk (sf + 1) nh rest off af k =
      if (b.toNat + 1) * 8 ≤ rest.length then
        walk sf a.toNat (rest.drop ((b.toNat + 1) * 8)) (off + (b.toNat + 1) * 8) af (k + 1)
      else .unresolved k := by
  subst hr
  simp only [walk, if_pos hA]

theorem walk_ah' (sf nh : Nat) (rest : List UInt8) (off : Nat) (af : Bool) (k : Nat)
    (hA : nh = 51) (a b : UInt8) (tl : List UInt8) (hr : rest = a :: b :: tl) :
    walk (sf + 1) nh rest off af k =
      if (b.toNat + 2) * 4 ≤ rest.length then
        walk sf a.toNat (rest.drop ((b.toNat + 2) * 4)) (off + (b.toNat + 2) * 4) af (k + 1)
      else .unresolved k := by
  subst hr; subst hA
  simp only [walk]
  simp only [show ¬ ((51:Nat) = 0 ∨ (51:Nat) = 43 ∨ (51:Nat) = 60) by decide, show ¬ ((51:Nat) = 44) by decide, if_false, if_true]

/-- with fewer than two bytes left a TLV / AH header cannot be read: unresolved -/
theorem walk_short2 (sf nh : Nat) (rest : List UInt8) (off : Nat) (af : Bool) (k : Nat)
    (hA : (nh = 0 ∨ nh = 43 ∨ nh = 60) ∨ nh = 51) (h : rest.length < 2) :
    walk (sf + 1) nh rest off af k = .unresolved k := by
  match rest, h with
  | [], _ => rcases hA with hA | hA <;> simp [walk, hA]
  | [a], _ => rcases hA with hA | hA <;> simp [walk, hA]

theorem walk_short8 (sf : Nat) (rest : List UInt8) (off : Nat) (af : Bool) (k : Nat) (h : rest.length < 8) :
    walk (sf + 1) 44 rest off af k = .unresolved k := by
  simp only [walk]
  simp only [show ¬ ((44:Nat) = 0 ∨ (44:Nat) = 43 ∨ (44:Nat) = 60) by decide, if_false, if_true]
  split
  · simp only [List.length_cons] at h; omega
  · rfl

/-- the header count only grows, and grows when the current header is an extension header -/
theorem walk_k_ge : ∀ (sf nh : Nat) (rest : List UInt8) (off : Nat) (af : Bool) (k : Nat)
    (proto off' : Nat) (nf af' : Bool) (upper : List UInt8) (k' : Nat),
    walk sf nh rest off af k = .resolved proto off' nf af' upper k' →
    k ≤ k' ∧ (isExtHeader nh = true → k + 1 ≤ k') := by
  intro sf
  induction sf with
  | zero => intro nh rest off af k proto off' nf af' upper k' h; simp [walk] at h
  | succ n ih =>
    intro nh rest off af k proto off' nf af' upper k' h
    simp only [walk] at h
    repeat' split at h
    all_goals first
      | (simp at h; done)
      | (have := (ih _ _ _ _ _ _ _ _ _ _ _ h).1; exact ⟨by omega, fun _ => by omega⟩)
      | (simp only [Chain.resolved.injEq] at h
         obtain ⟨_, _, _, _, _, hk⟩ := h
         first
           | exact ⟨by omega, fun _ => by omega⟩
           | (refine ⟨by omega, fun he => ?_⟩
              simp [isExtHeader] at he
              omega))


/-- Completeness of the walker: a chain the specification resolves within the remaining budget of
iterations is resolved by `IPv6FindUpperProtocol`'s loop to the same answer. -/
theorem walk_loop (d : List UInt8) : ∀ (fuel nh off : Nat) (af : Bool) (k sf : Nat)
    (proto off' : Nat) (nf af' : Bool) (upper : List UInt8) (k' : Nat),
    off ≤ d.length →
    walk sf nh (d.drop off) off af k = .resolved proto off' nf af' upper k' →
    k' ≤ k + fuel →
    findUpperLoop d fuel nh off af = .ok ⟨proto, off', nf, af'⟩ := by
  intro fuel
  induction fuel with
  | zero =>
    intro nh off af k sf proto off' nf af' upper k' hoff h hk
    cases sf with
    | zero => simp [walk] at h
    | succ s =>
      have hge := walk_k_ge _ _ _ _ _ _ _ _ _ _ _ _ h
      have hne : isExtHeader nh = false := by
        cases he : isExtHeader nh
        · rfl
        · have := hge.2 he; omega
      simp only [isExtHeader, Bool.or_eq_false_iff, beq_eq_false_iff_ne, ne_eq] at hne
      rw [walk_term _ _ _ _ _ _ (by omega) (by omega) (by omega)] at h
      simp only [Chain.resolved.injEq] at h
      obtain ⟨rfl, rfl, rfl, rfl, _, _⟩ := h
      have h1 : ¬ (nh = 0 ∨ nh = 43 ∨ nh = 44 ∨ nh = 51 ∨ nh = 60) := by omega
      have h2 : ¬ off > d.length := by omega
      simp only [findUpperLoop, mem_after, if_neg h1, if_neg h2]
  | succ n ih =>
    intro nh off af k sf proto off' nf af' upper k' hoff h hk
    cases sf with
    | zero => simp [walk] at h
    | succ s =>
      by_cases hA : nh = 0 ∨ nh = 43 ∨ nh = 60
      · by_cases hlen : d.length < off + 2
        · rw [walk_short2 _ _ _ _ _ _ (Or.inl hA) (by simp; omega)] at h
          cases h
        · have hr : d.drop off = d[off]'(by omega) :: d[off+1]'(by omega) :: d.drop (off + 2) := by
            rw [drop_cons d off (by omega), drop_cons d (off+1) (by omega)]
          rw [walk_tlv' s nh _ off af k hA _ _ _ hr] at h
          by_cases hn : ((d[off+1]'(by omega)).toNat + 1) * 8 ≤ (d.drop off).length
          · rw [if_pos hn, List.drop_drop] at h
            simp only [List.length_drop] at hn
            simp only [findUpperLoop, mem_tlv, if_pos hA, if_neg hlen, idx_eq d off (by omega), idx_eq d (off+1) (by omega),
              ok_bind, byte_eq_getElem d off (by omega), byte_eq_getElem d (off+1) (by omega)]
            exact ih _ _ _ _ _ _ _ _ _ _ _ (by omega) h (by omega)
          · rw [if_neg hn] at h; cases h
      · by_cases hF : nh = 44
        · subst hF
          by_cases hlen : d.length < off + 8
          · rw [walk_short8 _ _ _ _ _ (by simp; omega)] at h
            cases h
          · have hr : d.drop off = d[off]'(by omega) :: d[off+1]'(by omega) :: d[off+2]'(by omega) :: d[off+3]'(by omega)
                :: d[off+4]'(by omega) :: d[off+5]'(by omega) :: d[off+6]'(by omega) :: d[off+7]'(by omega) :: d.drop (off + 8) := by
              rw [drop_cons d off (by omega), drop_cons d (off+1) (by omega), drop_cons d (off+2) (by omega),
                drop_cons d (off+3) (by omega), drop_cons d (off+4) (by omega), drop_cons d (off+5) (by omega),
                drop_cons d (off+6) (by omega), drop_cons d (off+7) (by omega)]
            rw [walk_frag s _ off af k _ _ _ _ _ _ _ _ _ hr] at h
            have hf8 := and_f8 (d[off+3]'(by omega))
            simp only [findUpperLoop, mem_tlv, mem_frag, if_neg hA, if_true, if_neg hlen, idx_eq d (off+2) (by omega),
              idx_eq d (off+3) (by omega), idx_eq d off (by omega), ok_bind, byte_eq_getElem d off (by omega),
              byte_eq_getElem d (off+2) (by omega), byte_eq_getElem d (off+3) (by omega)]
            by_cases hfo : (d[off+2]'(by omega)).toNat * 32 + (d[off+3]'(by omega)).toNat / 8 ≠ 0
            · rw [if_pos hfo] at h
              simp only [Chain.resolved.injEq] at h
              obtain ⟨rfl, rfl, rfl, rfl, _, _⟩ := h
              have hm : (d[off+2]'(by omega)).toNat ≠ 0 ∨ (d[off+3]'(by omega)).toNat &&& 0xf8 ≠ 0 := by
                by_cases h2 : (d[off+2]'(by omega)).toNat ≠ 0
                · exact Or.inl h2
                · right; intro hc; have := hf8.1 hc; omega
              rw [if_pos hm]
            · rw [if_neg hfo] at h
              have hm : ¬ ((d[off+2]'(by omega)).toNat ≠ 0 ∨ (d[off+3]'(by omega)).toNat &&& 0xf8 ≠ 0) := by
                intro hc
                rcases hc with hc | hc
                · omega
                · have := mt hf8.2 hc; omega
              rw [if_neg hm]
              exact ih _ _ _ _ _ _ _ _ _ _ _ (by omega) h (by omega)
        · by_cases hH : nh = 51
          · by_cases hlen : d.length < off + 2
            · rw [walk_short2 _ _ _ _ _ _ (Or.inr hH) (by simp; omega)] at h
              cases h
            · have hr : d.drop off = d[off]'(by omega) :: d[off+1]'(by omega) :: d.drop (off + 2) := by
                rw [drop_cons d off (by omega), drop_cons d (off+1) (by omega)]
              rw [walk_ah' s nh _ off af k hH _ _ _ hr] at h
              by_cases hn : ((d[off+1]'(by omega)).toNat + 2) * 4 ≤ (d.drop off).length
              · rw [if_pos hn, List.drop_drop] at h
                simp only [List.length_drop] at hn
                simp only [findUpperLoop, mem_tlv, mem_frag, mem_ah, if_neg hA, if_neg hF, if_pos hH, if_neg hlen,
                  idx_eq d off (by omega), idx_eq d (off+1) (by omega),
                  ok_bind, byte_eq_getElem d off (by omega), byte_eq_getElem d (off+1) (by omega)]
                exact ih _ _ _ _ _ _ _ _ _ _ _ (by omega) h (by omega)
              · rw [if_neg hn] at h; cases h
          · rw [walk_term _ _ _ _ _ _ hA hF hH] at h
            simp only [Chain.resolved.injEq] at h
            obtain ⟨rfl, rfl, rfl, rfl, _, _⟩ := h
            have h2 : ¬ off > d.length := by omega
            simp only [findUpperLoop, mem_tlv, mem_frag, mem_ah, if_neg hA, if_neg hF, if_neg hH, if_neg h2]



theorem findUpper_complete (d : List UInt8) (sp : Spec.IP.Pkt) (h : parse6 d = some sp)
    (hk : sp.nExt ≤ maxIPv6ExtHeaders) :
    findUpper d = .ok ⟨sp.proto, sp.hdrLen, sp.nonFirstFrag, sp.anyFrag⟩ := by
  simp only [parse6] at h
  split at h
  · cases h
  · rename_i hlen
    split at h
    · rename_i proto off nf af upper k hw
      simp only [Option.some.injEq] at h
      subst h
      simp only [findUpper, if_neg hlen, idx_eq d 6 (by omega), ok_bind]
      exact walk_loop d _ _ _ _ 0 _ _ _ _ _ _ _ (by omega) hw (by simpa using hk)
    · cases h

theorem parseV6_complete (d : List UInt8) (inc : Bool) (sp : Spec.IP.Pkt) (h : parse6 d = some sp)
    (hk : sp.nExt ≤ maxIPv6ExtHeaders) (hc : sp.classifiable = true) : ∃ fp, parseV6 d inc = .ok fp := by
  have hf := findUpper_complete d sp h hk
  obtain ⟨k, hk2⟩ := findUpper_spec d _ hf
  rw [h] at hk2
  simp only [Option.some.injEq] at hk2
  have hlen : ¬ d.length < 40 := by
    intro hl; simp only [parse6, if_pos hl] at h; cases h
  have hup : sp.upper = d.drop sp.hdrLen := by rw [hk2]; rfl
  have hver : sp.version = 6 := by rw [hk2]; rfl
  simp only [Spec.IP.Pkt.classifiable, Spec.IP.Pkt.minUpper, decide_eq_true_eq, hup, hver, List.length_drop, byte_drop,
    Nat.add_zero, show ¬ ((6 : Nat) = 4) by decide, if_false] at hc
  simp only [parseV6, if_neg hlen, slice_eq d 8 24 (by omega) (by omega), slice_eq d 24 40 (by omega) (by omega), ok_bind, hf,
    Gen.firewall_ProtoICMPv6, Gen.firewall_ProtoTCP, Gen.firewall_ProtoUDP]
  by_cases hfr : sp.nonFirstFrag = true
  · simp [hfr]
  · simp only [hfr, Bool.false_eq_true, if_false] at hc ⊢
    by_cases h58 : sp.proto = 58
    · have hnp : ¬ (sp.proto = 6 ∨ sp.proto = 17) := by omega
      simp only [h58, if_true, hnp, if_false] at hc ⊢
      simp only [show ¬ ((58 : Nat) = 6 ∨ (58 : Nat) = 17) by decide, if_false] at hc
      by_cases hl4 : d.length < sp.hdrLen + 4
      · exfalso; split at hc <;> omega
      · simp only [if_neg hl4, idx_eq d sp.hdrLen (by omega), ok_bind]
        by_cases hecho : byte d sp.hdrLen = 128 ∨ byte d sp.hdrLen = 129
        · have h4 : 4 ≤ d.length - sp.hdrLen := by omega
          simp only [h4, hecho, and_self, if_true] at hc
          have hl6 : ¬ d.length < sp.hdrLen + 6 := by omega
          simp [hecho, hl6, u16At_eq d (sp.hdrLen + 4) (by omega)]
        · simp [hecho]
    · simp only [h58, if_false] at hc ⊢
      by_cases hp : sp.proto = 6 ∨ sp.proto = 17
      · simp only [hp, if_true] at hc ⊢
        have hl4 : ¬ d.length < sp.hdrLen + 4 := by omega
        simp only [if_neg hl4, u16At_eq d sp.hdrLen (by omega), u16At_eq d (sp.hdrLen + 2) (by omega), ok_bind]
        cases inc <;> simp
      · simp [hp]



theorem parse4_eq_some (d : List UInt8) (sp : Spec.IP.Pkt) (h : parse4 d = some sp) :
    ¬ d.length < 20 ∧ ¬ byte d 0 % 16 * 4 < 20 ∧ byte d 0 % 16 * 4 ≤ d.length ∧ sp = pkt4 d := by
  simp only [parse4] at h
  split at h
  · simp at h
  · split at h
    · simp at h
    · rename_i h1 h2
      simp only [Option.some.injEq] at h
      refine ⟨h1, by omega, by omega, ?_⟩
      rw [← h]
      simp [pkt4, v4NonFirst, v4AnyFrag]

theorem parseV4_complete (d : List UInt8) (inc : Bool) (sp : Spec.IP.Pkt) (h : parse4 d = some sp)
    (hc : sp.classifiable = true) : ∃ fp, parseV4 d inc = .ok fp := by
  obtain ⟨hlen, hihl, hl, rfl⟩ := parse4_eq_some d sp h
  simp only [Spec.IP.Pkt.classifiable, Spec.IP.Pkt.minUpper, pkt4, decide_eq_true_eq, List.length_drop, if_true] at hc
  simp only [parseV4, if_neg hlen, idx_eq d 0 (by omega), ok_bind, and_0f, if_neg hihl, u16At_eq d 6 (by omega),
    idx_eq d 9 (by omega), and_1fff, and_3fff, v4_frag, v4_fragAny, Gen.firewall_ProtoICMP, Gen.nebula_minFwPacketLen]
  by_cases hfr : v4NonFirst d = true
  · have hmin : ¬ d.length < byte d 0 % 16 * 4 := by omega
    simp [hfr, hmin, slice_eq d 12 16 (by omega) (by omega), slice_eq d 16 20 (by omega) (by omega)]
  · simp only [Bool.not_eq_true] at hfr
    simp only [hfr, Bool.false_eq_true, if_false] at hc
    simp only [hfr, Bool.not_false, if_true, Bool.false_eq_true, if_false]
    by_cases hic : byte d 9 = 1
    · simp only [hic, if_true] at hc ⊢
      have hmin : ¬ d.length < byte d 0 % 16 * 4 + 4 + 2 := by omega
      simp [hmin, slice_eq d 12 16 (by omega) (by omega), slice_eq d 16 20 (by omega) (by omega),
        u16At_eq d (byte d 0 % 16 * 4 + 4) (by omega)]
    · simp only [hic, if_false] at hc ⊢
      have hmin : ¬ d.length < byte d 0 % 16 * 4 + 4 := by omega
      simp only [if_neg hmin, slice_eq d 12 16 (by omega) (by omega), slice_eq d 16 20 (by omega) (by omega),
        u16At_eq d (byte d 0 % 16 * 4) (by omega), u16At_eq d (byte d 0 % 16 * 4 + 2) (by omega), ok_bind]
      cases inc <;> simp

/-- the converse for IPv4: an accepted packet is classifiable -/
theorem parseV4_ok_classifiable (d : List UInt8) (inc : Bool) (fp : Parsed) (h : parseV4 d inc = .ok fp) :
    (pkt4 d).classifiable = true := by
  simp only [Spec.IP.Pkt.classifiable, Spec.IP.Pkt.minUpper, pkt4, decide_eq_true_eq, List.length_drop, if_true]
  simp only [parseV4] at h
  by_cases hlen : d.length < 20
  · simp [hlen] at h
  · simp only [if_neg hlen, idx_eq d 0 (by omega), ok_bind, and_0f] at h
    by_cases hihl : (byte d 0 % 16) * 4 < 20
    · rw [if_pos hihl] at h; simp at h
    · simp only [if_neg hihl, u16At_eq d 6 (by omega), idx_eq d 9 (by omega), ok_bind, and_1fff, and_3fff,
        v4_frag, v4_fragAny, Gen.firewall_ProtoICMP, Gen.nebula_minFwPacketLen] at h
      by_cases hfr : v4NonFirst d = true
      · simp [hfr]
      · simp only [Bool.not_eq_true] at hfr
        simp only [hfr, Bool.not_false, if_true, Bool.false_eq_true, if_false] at h ⊢
        by_cases hic : byte d 9 = 1
        · simp only [hic, if_true] at h ⊢
          by_cases hmin : d.length < (byte d 0 % 16) * 4 + 4 + 2
          · simp [hmin] at h
          · omega
        · simp only [hic, if_false] at h ⊢
          by_cases hmin : d.length < (byte d 0 % 16) * 4 + 4
          · simp [hmin] at h
          · omega

/-- the converse for IPv6: an accepted packet is classifiable and within the walk limit -/
theorem parseV6_ok_classifiable (d : List UInt8) (inc : Bool) (fp : Parsed) (h : parseV6 d inc = .ok fp) :
    ∃ sp, parse6 d = some sp ∧ sp.classifiable = true ∧ sp.nExt ≤ maxIPv6ExtHeaders := by
  obtain ⟨w, _, hw, _, _⟩ := parseV6_agree d inc fp h
  obtain ⟨k, hk, hle⟩ := findUpper_spec_le d w hw
  refine ⟨_, hk, ?_, hle⟩
  have hlen : ¬ d.length < 40 := by
    intro hl; simp [findUpper, hl] at hw
  simp only [Spec.IP.Pkt.classifiable, Spec.IP.Pkt.minUpper, pkt6, decide_eq_true_eq, List.length_drop, byte_drop, Nat.add_zero,
    show ¬ ((6 : Nat) = 4) by decide, if_false]
  simp only [parseV6, if_neg hlen, slice_eq d 8 24 (by omega) (by omega), slice_eq d 24 40 (by omega) (by omega), ok_bind, hw,
    Gen.firewall_ProtoICMPv6, Gen.firewall_ProtoTCP, Gen.firewall_ProtoUDP] at h
  by_cases hfr : w.isFrag = true
  · simp [hfr]
  · simp only [hfr, Bool.false_eq_true, if_false] at h ⊢
    by_cases h58 : w.nh = 58
    · simp only [h58, if_true, show ¬ ((58 : Nat) = 6 ∨ (58 : Nat) = 17) by decide, if_false] at h ⊢
      by_cases hl4 : d.length < w.off + 4
      · simp [hl4] at h
      · simp only [if_neg hl4, idx_eq d w.off (by omega), ok_bind] at h
        by_cases hecho : byte d w.off = 128 ∨ byte d w.off = 129
        · simp only [hecho, if_true] at h
          by_cases hl6 : d.length < w.off + 6
          · simp [hl6] at h
          · split <;> omega
        · split
          · rename_i hc; exact absurd hc.2 hecho
          · omega
    · simp only [h58, if_false] at h ⊢
      by_cases hp : w.nh = 6 ∨ w.nh = 17
      · simp only [hp, if_true] at h ⊢
        by_cases hl4 : d.length < w.off + 4
        · simp [hl4] at h
        · omega
      · simp [hp]



theorem newPacket_complete (d : List UInt8) (inc : Bool) (sp : Spec.IP.Pkt) (h : parse d = some sp)
    (hc : sp.classifiable = true) (hk : sp.nExt ≤ maxIPv6ExtHeaders) : ∃ fp, newPacket d inc = .ok fp := by
  match d, h with
  | b :: tl, h =>
    have hb : byte (b :: tl) 0 = b.toNat := by simp [byte]
    have h1 : ¬ (b :: tl).length < 1 := by simp
    simp only [parse] at h
    simp only [newPacket, if_neg h1, idx_eq (b :: tl) 0 (by simp), ok_bind, hb, version_eq b.toNat b.toNat_lt]
    by_cases h4 : b.toNat / 16 = 4
    · simp only [h4, if_true] at h ⊢
      exact parseV4_complete _ inc sp h hc
    · by_cases h6 : b.toNat / 16 = 6
      · simp only [h6, show ¬ ((6 : Nat) = 4) by decide, if_false, if_true] at h ⊢
        exact parseV6_complete _ inc sp h hk hc
      · simp [h4, h6] at h

theorem newPacket_ok_classifiable (d : List UInt8) (inc : Bool) (fp : Parsed) (h : newPacket d inc = .ok fp) :
    ∃ sp, parse d = some sp ∧ sp.classifiable = true ∧ sp.nExt ≤ maxIPv6ExtHeaders := by
  simp only [newPacket] at h
  by_cases hlen : d.length < 1
  · simp [hlen] at h
  · simp only [if_neg hlen, idx_eq d 0 (by omega), ok_bind, version_eq _ (byte_lt d 0)] at h
    match d, hlen with
    | b :: tl, _ =>
      have hb : byte (b :: tl) 0 = b.toNat := by simp [byte]
      simp only [hb] at h
      simp only [parse]
      by_cases h4 : b.toNat / 16 = 4
      · simp only [h4, if_true] at h ⊢
        have hp := (parseV4_agree _ _ _ h).1
        exact ⟨_, hp, parseV4_ok_classifiable _ _ _ h, by simp [pkt4]⟩
      · by_cases h6 : b.toNat / 16 = 6
        · simp only [h6, if_true, show ¬ ((6:Nat) = 4) by decide, if_false] at h ⊢
          exact parseV6_ok_classifiable _ _ _ h
        · simp [h4, h6] at h


end Nebula.Lemmas.PktParse
