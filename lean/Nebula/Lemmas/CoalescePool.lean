/-
C23: slot objects are recycled through a free list across `Flush`es. Whatever a recycled object still
contains, the next batch's output is made of the next batch's packets only.
-/
import Nebula.Lemmas.CoalesceGeom
import Nebula.Lemmas.CoalesceOrder

namespace Nebula.Lemmas.Coalesce
open Nebula.Coalesce Nebula.Gen
open Nebula.Spec
open Nebula.Spec.KernelGSO (mask kernelSeg ppConsistent writeGeometryOk Flow)

/-- a coalescer between two batches: nothing staged in any lane; the pools are arbitrary -/
structure Idle (m : Multi) : Prop where
  ts : m.tcp.slots = []
  to : m.tcp.openSlots = []
  tl : m.tcp.lastSlot = none
  us : m.udp.slots = []
  uo : m.udp.openSlots = []
  ul : m.udp.lastSlot = none
  pt : m.pt = []

theorem laneInv_idle (tcp : Bool) {c : Lane} (hs : c.slots = []) (ho : c.openSlots = []) (hl : c.lastSlot = none) :
    LaneInv tcp none c := by
  constructor
  · intro i hi; rw [hl] at hi; cases hi
  · intro k i hk; rw [ho] at hk; simp [omLookup] at hk
  · intro k i s hk; rw [ho] at hk; simp [omLookup] at hk
  · intro s hsm; rw [hs] at hsm; simp at hsm

theorem ordInv_idle (tcp : Bool) {c : Lane} (ho : c.openSlots = []) : OrdInv tcp c := by
  constructor <;> intro k i hk <;> (rw [ho] at hk; simp [omLookup] at hk)

theorem Idle.inv {m : Multi} (h : Idle m) : MultiInv m :=
  ⟨laneInv_idle true h.ts h.to h.tl, laneInv_idle false h.us h.uo h.ul⟩

theorem Idle.pkts {m : Multi} (h : Idle m) : multiPkts m = [] := by
  simp [multiPkts, lanePkts, h.ts, h.us, h.pt]

theorem Idle.ord {m : Multi} (h : Idle m) : MultiOrd m := by
  refine ⟨ordInv_idle true h.to, ordInv_idle false h.uo, ?_, ?_, ?_⟩
  · intro q hq; simp [lanePkts, h.ts] at hq
  · intro q hq; simp [lanePkts, h.us] at hq
  · intro q hq; simp [h.pt] at hq

theorem idle_after_flush (m : Multi) : Idle (m.flushP).2 := by
  constructor <;> rfl

/-- one round on a used coalescer -/
theorem round_spec {m : Multi} (hi : Idle m) (b : List Staged) (hc : Consistent b) :
    (((m.round b).1.flatMap kernelSeg).map mask).Perm ((b.map (·.pkt)).map mask) ∧
    (∀ w ∈ (m.round b).1, writeGeometryOk w = true) ∧
    (∃ pk : List Bytes, ((m.round b).1.flatMap kernelSeg).map mask = pk.map mask ∧
        ∀ f : Flow, pk.filter (qf f) = ((b.mergeSort stagedLe).map (·.pkt)).filter (qf f)) ∧
    Idle (m.round b).2 := by
  have hperm := List.mergeSort_perm b stagedLe
  have hc' : ∀ sp ∈ b.mergeSort stagedLe, ppConsistent sp.pkt sp.proto sp.ipHdrLen sp.fragAny = true :=
    fun sp hsp => hc sp (hperm.mem_iff.mp hsp)
  obtain ⟨hI, hP⟩ := foldl_dispatch_inv (b.mergeSort stagedLe) m hi.inv hc'
  have hO := foldl_dispatch_ord (b.mergeSort stagedLe) m hi.inv hi.ord hc'
  rw [hi.pkts, List.nil_append] at hP
  refine ⟨?_, ?_, ?_, idle_after_flush _⟩
  · show (((((b.mergeSort stagedLe).foldl Multi.dispatch m).flush).flatMap kernelSeg).map mask).Perm _
    rw [multiFlush_seg hI]
    exact (hP.map mask).trans ((hperm.map (·.pkt)).map mask)
  · exact multiFlush_geometry hI
  · refine ⟨multiPkts ((b.mergeSort stagedLe).foldl Multi.dispatch m), multiFlush_seg hI, ?_⟩
    intro f
    have := hO f
    rw [hi.pkts] at this
    simpa using this

/-- what is claimed of the writes `ws` of one `Flush` with respect to the batch `b` committed before it -/
def RoundOK (ws : List Wr) (b : List Staged) : Prop :=
  (((ws.flatMap kernelSeg).map mask).Perm ((b.map (·.pkt)).map mask)) ∧
  (∀ w ∈ ws, writeGeometryOk w = true) ∧
  (∃ pk : List Bytes, (ws.flatMap kernelSeg).map mask = pk.map mask ∧
    ∀ f : Flow, pk.filter (qf f) = ((b.mergeSort stagedLe).map (·.pkt)).filter (qf f))

/-- the per-batch statement for every batch of a coalescer's life -/
theorem rounds_spec (batches : List (List Staged)) (m : Multi) (hi : Idle m) (hc : ∀ b ∈ batches, Consistent b) :
    (m.rounds batches).length = batches.length ∧
    ∀ (k : Nat) (ws : List Wr) (b : List Staged), (m.rounds batches)[k]? = some ws → batches[k]? = some b →
      RoundOK ws b := by
  induction batches generalizing m with
  | nil => exact ⟨rfl, fun k ws b h => by simp [Multi.rounds] at h⟩
  | cons b rest ih =>
    obtain ⟨h1, h2, h3, h4⟩ := round_spec hi b (hc b (by simp))
    obtain ⟨hl, hr⟩ := ih _ h4 (fun x hx => hc x (by simp [hx]))
    refine ⟨by simp [Multi.rounds, hl], ?_⟩
    intro k ws b' hws hb
    cases k with
    | zero =>
      simp only [Multi.rounds, List.getElem?_cons_zero, Option.some.injEq] at hws hb
      subst hws hb
      exact ⟨h1, h2, h3⟩
    | succ j =>
      simp only [Multi.rounds, List.getElem?_cons_succ] at hws hb
      exact hr j ws b' hws hb

end Nebula.Lemmas.Coalesce
