/-
Lemmas for C21: the replies built by the model of `CreateRejectPacket` parse under the independent
parser to what `Spec/Reject.lean` demands.
-/
import Nebula.Lemmas.PktParse
import Nebula.Lemmas.PktCsum
import Nebula.Spec.Reject

namespace Nebula.Lemmas.Reject
open Nebula.Pkt Nebula.Reject Nebula.Spec.IP Nebula.Spec.PktCsum Nebula.Spec.Reject
open Nebula.Lemmas.PktParse Nebula.Lemmas.PktCsum

theorem len4 (l : List UInt8) (h : l.length = 4) : ∃ a b c d, l = [a, b, c, d] := by
  match l, h with
  | [a, b, c, d], _ => exact ⟨a, b, c, d, rfl⟩

theorem take2 (t : List UInt8) (i : Nat) (h : i + 2 ≤ t.length) :
    (t.drop i).take 2 = [t.getD i 0, t.getD (i + 1) 0] := by
  have h1 : t.drop i = t[i] :: t[i + 1] :: t.drop (i + 2) := by
    rw [drop_cons t i (by omega), drop_cons t (i + 1) (by omega)]
  have e1 : t.getD i 0 = t[i] := by simp [List.getD, show i < t.length by omega]
  have e2 : t.getD (i + 1) 0 = t[i + 1] := by simp [List.getD, show i + 1 < t.length by omega]
  rw [h1, e1, e2]
  rfl

theorem ofNat_toNat (n : Nat) : (UInt8.ofNat n).toNat = n % 256 := by simp

theorem sum16_4 (a b c d : UInt8) : sum16 [a, b, c, d] = a.toNat * 256 + b.toNat + (c.toNat * 256 + d.toNat) := by
  simp [sum16]

theorem ipv4Pseudo_eq (src dst : List UInt8) (hs : src.length = 4) (hd : dst.length = 4) (proto len : Nat)
    (hp : proto < 65536) (hl : len < 4294967296) :
    ipv4Pseudo src dst proto len = pseudo src dst proto len := by
  obtain ⟨a, b, c, d, rfl⟩ := len4 src hs
  obtain ⟨e, f, g, h, rfl⟩ := len4 dst hd
  have := a.toNat_lt; have := b.toNat_lt; have := c.toNat_lt; have := d.toNat_lt
  have := e.toNat_lt; have := f.toNat_lt; have := g.toNat_lt; have := h.toNat_lt
  simp only [ipv4Pseudo, pseudo, sum16_4, u32, List.getD_cons_zero, List.getD_cons_succ]
  omega

theorem pseudo6Loop_eq (src dst : List UInt8) : ∀ c, src.length = dst.length → src.length % 2 = 0 →
    c + sum16 src + sum16 dst < 4294967296 → pseudo6Loop src dst c = c + sum16 src + sum16 dst := by
  induction src using sum16.induct generalizing dst with
  | case1 => intro c h1 _ _; cases dst <;> simp_all [pseudo6Loop, sum16]
  | case2 a => intro c _ h2; simp at h2
  | case3 a b rest ih =>
    intro c h1 h2 h3
    match dst, h1 with
    | e :: f :: drest, h1 =>
      simp only [List.length_cons] at h1 h2
      simp only [sum16] at h3
      have e1 : u32 (u32 (u32 (u32 (c + a.toNat * 256) + b.toNat) + e.toNat * 256) + f.toNat) =
          c + a.toNat * 256 + b.toNat + e.toNat * 256 + f.toNat := by simp only [u32]; omega
      simp only [pseudo6Loop, sum16, e1]
      rw [ih drest _ (by omega) (by omega) (by omega)]; omega

theorem ipv6Pseudo_eq (src dst : List UInt8) (hs : src.length = 16) (hd : dst.length = 16) (proto len : Nat)
    (hp : proto < 65536) (hl : len < 4294967296) :
    ipv6Pseudo src dst proto len = pseudo src dst proto len := by
  have h1 := sum16_le src
  have h2 := sum16_le dst
  simp only [ipv6Pseudo, pseudo]
  rw [pseudo6Loop_eq src dst 0 (by omega) (by omega) (by omega)]
  simp only [u32]; omega

theorem pseudo_lt (src dst : List UInt8) (proto len : Nat) (hs : src.length ≤ 16) (hd : dst.length ≤ 16)
    (hp : proto < 65536) (hl : len < 4294967296) : pseudo src dst proto len < 16777216 := by
  have h1 := sum16_le src
  have h2 := sum16_le dst
  simp only [pseudo]; omega

/-- the reply's IPv4 header parses back -/
theorem parse_v4Header (outLen proto : Nat) (src dst rest : List UInt8) (hs : src.length = 4) (hd : dst.length = 4)
    (hp : proto < 256) :
    parse (v4Header outLen proto src dst ++ rest) =
      some { version := 4, src := src, dst := dst, proto := proto, hdrLen := 20, nonFirstFrag := false,
             anyFrag := false, upper := rest, nExt := 0 } := by
  obtain ⟨a, b, c, d, rfl⟩ := len4 src hs
  obtain ⟨e, f, g, h, rfl⟩ := len4 dst hd
  simp [v4Header, withCsum, put16, parse, parse4, byte, Nat.mod_eq_of_lt hp]

end Nebula.Lemmas.Reject
