/- Helper lemmas for the cpupick model (C46): `arrange` as a permutation. Core Lean only. -/
import Nebula.Model.Cpupick
import Nebula.Spec.Cpupick

namespace Nebula.Lemmas.Cpupick
open Nebula.Cpupick

theorem smtPass_perm (f : Int → Int) (seen l : List Int) :
    List.Perm ((smtPass f seen l).1 ++ (smtPass f seen l).2) l := by
  induction l generalizing seen with
  | nil => simp [smtPass]
  | cons c rest ih =>
    unfold smtPass
    simp only
    split
    · exact (List.perm_middle).trans (List.Perm.cons c (ih seen))
    · exact List.Perm.cons c (ih _)

theorem rotate_perm (l : List Int) (k : Nat) : List.Perm (l.drop k ++ l.take k) l := by
  have := List.perm_append_comm (l₁ := l.drop k) (l₂ := l.take k)
  rw [List.take_append_drop] at this
  exact this

theorem filter_eq_single (l : List Int) (a : Int) (h : l.Nodup) :
    l.filter (fun c => c == a) = if l.contains a then [a] else [] := by
  induction l with
  | nil => simp
  | cons x xs ih =>
    rw [List.nodup_cons] at h
    simp only [List.filter_cons, List.contains_cons]
    by_cases hx : x = a
    · subst hx
      have hn : xs.contains x = false := by simpa using h.1
      have hf : xs.filter (fun c => c == x) = [] := by rw [ih h.2, hn]; simp
      simp [hf]
    · have e1 : (x == a) = false := by simpa using hx
      have e2 : (a == x) = false := by simpa using (fun e => hx e.symm)
      simp only [e1, e2, Bool.false_or]
      exact ih h.2

/-- the three classes `arrange` splits the confined candidates into. -/
theorem partition_perm (t : Topology) (ch : List Int) (h : ch.Nodup) :
    List.Perm (ch.filter (fun c => c != 0 && !onZeroCore t c) ++
      (ch.filter (onZeroCore t) ++ (if ch.contains 0 then [0] else []))) ch := by
  have p1 := List.filter_append_perm (fun c => c != 0 && !onZeroCore t c) ch
  have p2 := List.filter_append_perm (onZeroCore t) (ch.filter (fun c => !(c != 0 && !onZeroCore t c)))
  have e1 : (ch.filter (fun c => !(c != 0 && !onZeroCore t c))).filter (onZeroCore t) = ch.filter (onZeroCore t) := by
    rw [List.filter_filter]
    apply List.filter_congr
    intro c _
    unfold onZeroCore
    cases hc : (c != 0) <;> simp
  have e2 : (ch.filter (fun c => !(c != 0 && !onZeroCore t c))).filter (fun c => !onZeroCore t c)
      = ch.filter (fun c => c == 0) := by
    rw [List.filter_filter]
    apply List.filter_congr
    intro c _
    unfold onZeroCore
    by_cases hc : c = 0
    · subst hc; simp
    · have : (c != 0) = true := by simpa using hc
      have h2 : (c == 0) = false := by simpa using hc
      simp only [this, h2, Bool.true_and]
      cases (decide (t.zeroCore ≥ 0) && mapGet t.coreOf c == t.zeroCore) <;> simp
  rw [e1, e2, filter_eq_single ch 0 h] at p2
  exact (List.Perm.append_left _ p2).trans p1

theorem arrange_perm (cands : List Int) (t : Topology) (routines : Int) (h : Nat)
    (hn : (confine cands (mapGet t.nodeOf) routines h).Nodup) :
    List.Perm (arrange cands t routines h) (confine cands (mapGet t.nodeOf) routines h) := by
  unfold arrange
  simp only
  generalize confine cands (mapGet t.nodeOf) routines h = ch at *
  have hp := partition_perm t ch hn
  split
  · rename_i h0
    have : ch.filter (fun c => c != 0 && !onZeroCore t c) = [] := List.length_eq_zero_iff.mp h0
    rw [this] at hp
    simpa using hp
  · refine List.Perm.trans ?_ hp
    apply List.Perm.append_right
    exact (smtPass_perm _ _ _).trans (rotate_perm _ _)

/-- node ids found by the first loop of `arrange`: exactly the nodes that hold a candidate. -/
theorem nodesOf_mem (f : Int → Int) (l seen : List Int) (n : Int) :
    n ∈ nodesOf f seen l ↔ (n ∉ seen ∧ ∃ c ∈ l, f c = n) := by
  induction l generalizing seen with
  | nil => simp [nodesOf]
  | cons c rest ih =>
    unfold nodesOf
    simp only
    split
    · rename_i hs
      have hs' : f c ∈ seen := by simpa using hs
      rw [ih seen]
      constructor
      · intro ⟨a, x, hx, e⟩; exact ⟨a, x, List.mem_cons_of_mem _ hx, e⟩
      · intro ⟨a, x, hx, e⟩
        refine ⟨a, ?_⟩
        rw [List.mem_cons] at hx
        cases hx with
        | inl h => subst h; subst e; exact absurd hs' a
        | inr h => exact ⟨x, h, e⟩
    · rename_i hs
      have hs' : f c ∉ seen := by simpa using hs
      rw [List.mem_cons, ih (f c :: seen)]
      constructor
      · intro h
        cases h with
        | inl e => subst e; exact ⟨hs', c, List.mem_cons_self, rfl⟩
        | inr h =>
          obtain ⟨a, x, hx, e⟩ := h
          exact ⟨fun hm => a (List.mem_cons_of_mem _ hm), x, List.mem_cons_of_mem _ hx, e⟩
      · intro ⟨a, x, hx, e⟩
        by_cases hn : n = f c
        · exact Or.inl hn
        · refine Or.inr ⟨?_, ?_⟩
          · intro hm; rw [List.mem_cons] at hm; cases hm with
            | inl h => exact hn h
            | inr h => exact a h
          · rw [List.mem_cons] at hx
            cases hx with
            | inl h => subst h; exact absurd e.symm hn
            | inr h => exact ⟨x, h, e⟩

/-- what `confine` returns. -/
theorem confine_cases (cands : List Int) (f : Int → Int) (routines : Int) (h : Nat) :
    (confine cands f routines h = cands ∧
      ∀ n, (∃ c ∈ cands, f c = n) → ((cands.filter (fun c => f c == n)).length : Int) < routines) ∨
    (∃ n, confine cands f routines h = cands.filter (fun c => f c == n) ∧ (∃ c ∈ cands, f c = n) ∧
      ((cands.filter (fun c => f c == n)).length : Int) ≥ routines) := by
  unfold confine
  simp only
  split
  · rename_i hpos
    right
    generalize he : (nodesOf f [] cands).filter
      (fun n => ((cands.filter (fun c => f c == n)).length : Int) ≥ routines) = el at *
    have hidx : h % el.length < el.length := Nat.mod_lt _ hpos
    have hmem : el.getD (h % el.length) 0 ∈ el := by
      simp only [List.getD, List.getElem?_eq_getElem hidx, Option.getD_some]
      exact List.getElem_mem hidx
    have hm2 : el.getD (h % el.length) 0 ∈ (nodesOf f [] cands).filter
        (fun n => ((cands.filter (fun c => f c == n)).length : Int) ≥ routines) := by rw [he]; exact hmem
    rw [List.mem_filter] at hm2
    obtain ⟨m1, m2⟩ := hm2
    refine ⟨_, rfl, ((nodesOf_mem f cands [] _).mp m1).2, by simpa using m2⟩
  · rename_i hz
    left
    refine ⟨rfl, ?_⟩
    intro n hex
    have hn : n ∈ nodesOf f [] cands := (nodesOf_mem f cands [] n).mpr ⟨by simp, hex⟩
    have hl : ((nodesOf f [] cands).filter
      (fun n => ((cands.filter (fun c => f c == n)).length : Int) ≥ routines)) = [] := by
      apply List.length_eq_zero_iff.mp; omega
    have := List.filter_eq_nil_iff.mp hl n hn
    simpa using this

end Nebula.Lemmas.Cpupick
