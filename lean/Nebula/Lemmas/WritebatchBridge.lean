import Nebula.Lemmas.WritebatchCover
import Nebula.Spec.Writebatch
namespace Nebula.Lemmas.Writebatch
open Nebula.Writebatch List
open Nebula.Spec.Writebatch (SEntry SCall STrace SInput)
variable {δ : Type} [DecidableEq δ]

/-! ## The model's trace as the specification's observable trace -/

/-- the entry as the harness observes it: the indices its iovecs point at (not observable for a zero-length
packet), the UDP_SEGMENT value of its control data if any, the destination number in its sockaddr. -/
def toSEntry (pk : List (Pkt δ)) (dnum : δ → Nat) (e : Entry) (ctl : Option Nat) : SEntry :=
  let zero := e.cnt == 1 && (pk[e.start]?.map (·.len)) == some 0
  { idxs := if zero then [] else e.idxs, zero := zero, seg := ctl,
    dst := (pk[e.start]?.map (fun p => dnum p.dst)).getD 999999 }

def toSCall (pk : List (Pkt δ)) (dnum : δ → Nat) (c : Call) : SCall :=
  { done := c.done, n := c.ents.length, ents := List.zipWith (toSEntry pk dnum) c.ents c.ctl,
    sent := c.out.sent, errOk := c.out.err == .none }

def toSTrace (pk : List (Pkt δ)) (dnum : δ → Nat) (r : Result) : STrace :=
  { written := r.written, err := r.err, calls := r.calls.map (toSCall pk dnum) }

def toSInput (c : Cfg δ) (pk : List (Pkt δ)) (dnum : δ → Nat) (rnum : Nat → Bool) : SInput :=
  { scratch := c.n, maxSeg := c.maxSeg, maxBytes := maxGSOBytes, routable := rnum,
    pkts := pk.map (fun p => (p.len, dnum p.dst)) }

/-- the entry with the control data it must have -/
def se (pk : List (Pkt δ)) (dnum : δ → Nat) (e : Entry) : SEntry := toSEntry pk dnum e e.wantCtl

theorem zipWith_map_right {α β γ : Type} (f : α → β → γ) (g : α → β) (l : List α) :
    List.zipWith f l (l.map g) = l.map (fun a => f a (g a)) := by
  induction l with
  | nil => rfl
  | cons a l ih => simp [ih]

/-- every call reports at most what it was offered -/
theorem drain_sent_le (kern : Nat → Nat → Outcome) (hk : KernOK kern) (gso : Bool) (chunk : List Entry) (ctl : Ctl) (done k : Nat) :
    ∀ c ∈ (drain kern gso chunk ctl done k).calls, c.out.sent ≤ (c.ents.length : Int) := by
  fun_induction drain kern gso chunk ctl done k with
  | case1 done k h n o call hpos hover =>
    intro c hc; simp at hc; subst hc; simp only [call, List.length_drop]; exact hk k n
  | case2 done k h n o call hpos hover s r ih =>
    intro c hc
    rcases List.mem_cons.mp hc with rfl | hc
    · simp only [call, List.length_drop]; exact hk k n
    · exact ih c hc
  | case3 done k h n o call hpos herr =>
    intro c hc; simp at hc; subst hc; simp only [call, List.length_drop]; exact hk k n
  | case4 done k h n o call hpos herr hrep =>
    intro c hc; simp at hc; subst hc; simp only [call, List.length_drop]; exact hk k n
  | case5 done k h n o call hpos herr hrep r ih =>
    intro c hc
    rcases List.mem_cons.mp hc with rfl | hc
    · simp only [call, List.length_drop]; exact hk k n
    · exact ih c hc
  | case6 => simp

theorem run_sent_le (c : Cfg δ) (kern : Nat → Nat → Outcome) (hk : KernOK kern) (pk : List (Pkt δ)) (gso : Bool)
    (i k : Nat) (ctl : Ctl) :
    ∀ x ∈ (run c kern pk gso i k ctl).calls, x.out.sent ≤ (x.ents.length : Int) := by
  fun_induction run c kern pk gso i k ctl with
  | case1 => simp
  | case2 gso i k ctl h p hp d hd r ih =>
    intro x hx
    rcases List.mem_append.mp hx with hx | hx
    · exact drain_sent_le kern hk gso p.ents p.ctl 0 k x hx
    · exact ih x hx
  | case3 gso i k ctl h p hp d i' hd r ih =>
    intro x hx
    rcases List.mem_append.mp hx with hx | hx
    · exact drain_sent_le kern hk gso p.ents p.ctl 0 k x hx
    · exact ih x hx
  | case4 gso i k ctl h p hp d hd => exact drain_sent_le kern hk gso p.ents p.ctl 0 k
  | case5 gso i k ctl h p hp d hd => exact drain_sent_le kern hk gso p.ents p.ctl 0 k
  | case6 => simp

open Nebula.Spec.Writebatch in
theorem hasDup_false_of_sorted (l : List Nat) (h : l.Pairwise (· < ·)) : hasDup l = false := by
  induction l with
  | nil => rfl
  | cons a rest ih =>
    have hp := List.pairwise_cons.mp h
    simp only [hasDup, Bool.or_eq_false_iff]
    refine ⟨?_, ih hp.2⟩
    cases hc : rest.contains a with
    | false => rfl
    | true => have hm := List.contains_iff_mem.mp hc; have := hp.1 a hm; omega

open Nebula.Spec.Writebatch in
theorem strictlyIncreasing_of_sorted (l : List Nat) (h : l.Pairwise (· < ·)) : strictlyIncreasing l = true := by
  induction l with
  | nil => rfl
  | cons a rest ih =>
    cases rest with
    | nil => rfl
    | cons b rest =>
      have hp := List.pairwise_cons.mp h
      simp only [strictlyIncreasing, Bool.and_eq_true, decide_eq_true_eq]
      exact ⟨hp.1 b List.mem_cons_self, ih hp.2⟩

open Nebula.Spec.Writebatch in
theorem consecutive_range' (s n : Nat) : consecutive (List.range' s n) = true := by
  induction n generalizing s with
  | zero => rfl
  | succ n ih =>
    cases n with
    | zero => rfl
    | succ n =>
      have := ih (s + 1)
      simp only [List.range'_succ] at this ⊢
      simp only [consecutive, decide_true, Bool.true_and]
      exact this

theorem flatMap_sublist {α β : Type} (l : List α) (f g : α → List β) (h : ∀ a ∈ l, f a <+ g a) :
    l.flatMap f <+ l.flatMap g := by
  induction l with
  | nil => simp
  | cons a l ih =>
    simp only [List.flatMap_cons]
    exact List.Sublist.append (h a List.mem_cons_self) (ih (fun x hx => h x (List.mem_cons_of_mem _ hx)))

/-- a strictly increasing list all of whose elements occur in a strictly increasing list is a sublist of it -/
theorem sublist_of_sorted_subset (l L : List Nat) (hl : l.Pairwise (· < ·)) (hL : L.Pairwise (· < ·))
    (hs : ∀ x ∈ l, x ∈ L) : l <+ L := by
  induction L generalizing l with
  | nil =>
    cases l with
    | nil => exact List.Sublist.refl _
    | cons x l => exact absurd (hs x List.mem_cons_self) (by simp)
  | cons a L ih =>
    have hLp := List.pairwise_cons.mp hL
    cases l with
    | nil => exact List.nil_sublist _
    | cons x l' =>
      have hlp := List.pairwise_cons.mp hl
      by_cases hxa : x = a
      · subst hxa
        refine List.Sublist.cons_cons _ (ih l' hlp.2 hLp.2 ?_)
        intro y hy
        have h1 := hs y (List.mem_cons_of_mem _ hy)
        have h2 := hlp.1 y hy
        rcases List.mem_cons.mp h1 with rfl | h1
        · omega
        · exact h1
      · refine List.Sublist.cons _ (ih (x :: l') hl hLp.2 ?_)
        have hxL : x ∈ L := by
          rcases List.mem_cons.mp (hs x List.mem_cons_self) with h | h
          · exact absurd h hxa
          · exact h
        have hax : a < x := hLp.1 x hxL
        intro y hy
        have h1 := hs y hy
        rcases List.mem_cons.mp h1 with rfl | h1
        · exfalso
          rcases List.mem_cons.mp hy with h | h
          · omega
          · have := hlp.1 y h; omega
        · exact h1

section shape
variable (c : Cfg δ) (pk : List (Pkt δ)) (dnum : δ → Nat) (rnum : Nat → Bool)

omit [DecidableEq δ] in
theorem getD_map_pkts (i : Nat) (hi : i < pk.length) :
    (pk.map (fun p => (p.len, dnum p.dst))).getD i (0, 0) = ((pk[i]).len, dnum (pk[i]).dst) := by
  simp [List.getD_eq_getElem?_getD, hi]

omit [DecidableEq δ] in
theorem map_idxs (e : Entry) (h : e.start + e.cnt ≤ pk.length) :
    e.idxs.map (fun i => (pk.map (fun p => (p.len, dnum p.dst))).getD i (0, 0)) =
      (e.pkts pk).map (fun p => (p.len, dnum p.dst)) := by
  apply List.ext_getElem
  · simp [Entry.idxs, Entry.pkts]; omega
  · intro k h1 h2
    simp only [Entry.idxs, List.length_map, List.length_range'] at h1
    simp only [List.getElem_map, Entry.idxs, List.getElem_range', Entry.pkts, List.getElem_take, List.getElem_drop]
    rw [getD_map_pkts pk dnum _ (by omega)]
    simp

theorem entryShape_se (e : Entry) (gso : Bool) (ho : Offered c gso pk e)
    (hr : ∀ p ∈ pk, rnum (dnum p.dst) = c.routable p.dst) :
    Spec.Writebatch.entryShape (toSInput c pk dnum rnum) (se pk dnum e) = true := by
  obtain ⟨hs, hroute, _⟩ := ho
  have hcnt := hs.1
  have hend := hs.2.1
  have h0 : e.start < pk.length := by omega
  have hget : pk[e.start]? = some pk[e.start] := List.getElem?_eq_getElem h0
  have hseg : e.seg = (pk[e.start]).len := hs.2.2.1 _ hget
  have hrt : rnum (dnum (pk[e.start]).dst) = true := by
    rw [hr _ (List.getElem_mem h0)]; exact hroute _ hget
  by_cases hz : (e.cnt == 1 && (pk[e.start]?.map (·.len)) == some 0) = true
  · -- zero-length single packet
    have hc1 : e.cnt = 1 := by simp only [Bool.and_eq_true, beq_iff_eq] at hz; exact hz.1
    have hl0 : (pk[e.start]).len = 0 := by
      simp only [Bool.and_eq_true, beq_iff_eq, hget, Option.map_some, Option.some.injEq] at hz; exact hz.2
    simp [Spec.Writebatch.entryShape, se, toSEntry, Entry.wantCtl, hc1, hget, toSInput, hl0, hrt]
  · have hz' : (e.cnt == 1 && (pk[e.start]?.map (·.len)) == some 0) = false := by simpa using hz
    have hidx : e.idxs = e.start :: List.range' (e.start + 1) (e.cnt - 1) := by
      simp only [Entry.idxs]
      have : e.cnt = (e.cnt - 1) + 1 := by omega
      rw [this, List.range'_succ]; simp
    have hmap := map_idxs pk dnum e hend
    have hpk : e.pkts pk = pk[e.start] :: (pk.drop (e.start + 1)).take (e.cnt - 1) := by
      simp only [Entry.pkts, List.drop_eq_getElem_cons h0]
      have : e.cnt = (e.cnt - 1) + 1 := by omega
      rw [this, List.take_succ_cons]; simp
    simp only [Spec.Writebatch.entryShape, se, toSEntry, hz', Bool.false_eq_true, if_false]
    rw [hidx]
    simp only [← hidx, toSInput, hmap, hget, Option.map_some, Option.getD_some]
    simp only [getD_map_pkts pk dnum e.start h0]
    simp only [List.length_map, Bool.and_eq_true, List.all_eq_true, decide_eq_true_eq, beq_iff_eq, List.map_map]
    refine ⟨⟨⟨⟨?_, consecutive_range' _ _⟩, ?_⟩, hrt⟩, ?_⟩
    · intro i hi; rw [mem_idxs] at hi; omega
    · intro x hx
      obtain ⟨p, hp, rfl⟩ := List.mem_map.mp hx
      simp only [Entry.pkts] at hp
      obtain ⟨k, hk, rfl⟩ := List.mem_iff_getElem.mp hp
      simp only [List.length_take, List.length_drop] at hk
      simp only [List.getElem_take, List.getElem_drop]
      rw [runShape_dst c.maxSeg pk e hs (e.start + k) (by omega) (by omega) (by omega) h0]
    · by_cases h2 : 2 ≤ e.cnt
      · obtain ⟨g1, g2, g3, g4, g5⟩ := hs.2.2.2 h2
        have hl2 : e.idxs.length ≥ 2 := by simp [Entry.idxs]; exact h2
        simp only [hl2, if_true, Entry.wantCtl, h2, ge_iff_le, Bool.and_eq_true, beq_iff_eq, List.all_eq_true,
          decide_eq_true_eq]
        refine ⟨⟨⟨⟨by rw [hseg], ?_⟩, ?_⟩, by simp [Entry.idxs]; exact g1⟩, ?_⟩
        · intro x hx
          have : (List.map ((fun x => x.1) ∘ fun p => (p.len, dnum p.dst)) (e.pkts pk)) = (e.pkts pk).map (·.len) := by
            simp [Function.comp_def]
          rw [this, ← List.map_dropLast] at hx
          obtain ⟨p, hp, rfl⟩ := List.mem_map.mp hx
          rw [g5 p hp, hseg]
        · have : (List.map ((fun x => x.1) ∘ fun p => (p.len, dnum p.dst)) (e.pkts pk)) = (e.pkts pk).map (·.len) := by
            simp [Function.comp_def]
          rw [this, List.getLast?_map]
          have hne : e.pkts pk ≠ [] := by rw [hpk]; simp
          rw [List.getLast?_eq_some_getLast hne]
          simp only [Option.map_some, decide_eq_true_eq]
          have := g4 _ (List.getLast_mem hne)
          rw [← hseg]; exact ⟨this.2.1, this.2.2⟩
        · have : (List.map ((fun x => x.1) ∘ fun p => (p.len, dnum p.dst)) (e.pkts pk)) = (e.pkts pk).map (·.len) := by
            simp [Function.comp_def]
          rw [this]; exact g3
      · have hc1 : e.cnt = 1 := by omega
        have hl2 : ¬ e.idxs.length ≥ 2 := by simp [Entry.idxs, hc1]
        simp [hl2, Entry.wantCtl, hc1]
end shape

section trace
variable (c : Cfg δ) (pk : List (Pkt δ)) (dnum : δ → Nat) (rnum : Nat → Bool)

omit [DecidableEq δ] in
theorem toSCall_ents (call : Call) (h : call.ctl = call.ents.map Entry.wantCtl) :
    (toSCall pk dnum call).ents = call.ents.map (se pk dnum) := by
  simp only [toSCall, h, zipWith_map_right]; rfl

omit [DecidableEq δ] in
theorem spec_accepted (calls : List Call) (h : ∀ x ∈ calls, x.ctl = x.ents.map Entry.wantCtl) :
    Spec.Writebatch.accepted { written := w, err := b, calls := calls.map (toSCall pk dnum) } =
      (accepted calls).map (se pk dnum) := by
  induction calls with
  | nil => simp [Spec.Writebatch.accepted, accepted]
  | cons x xs ih =>
    have hx := toSCall_ents pk dnum x (h x List.mem_cons_self)
    have := ih (fun y hy => h y (List.mem_cons_of_mem _ hy))
    simp only [Spec.Writebatch.accepted, List.map_cons, List.flatMap_cons, accepted_cons, List.map_append] at *
    rw [this]
    congr 1
    simp only [Call.accepted, hx]
    have : (toSCall pk dnum x).sent = x.out.sent := rfl
    rw [this]
    split
    · simp [List.map_take]
    · rfl

omit [DecidableEq δ] in
theorem se_idxs_sublist (e : Entry) : (se pk dnum e).idxs <+ e.idxs := by
  simp only [se, toSEntry]; split
  · exact List.nil_sublist _
  · exact List.Sublist.refl _

omit [DecidableEq δ] in
theorem spec_acceptedIdxs_sublist (calls : List Call) (h : ∀ x ∈ calls, x.ctl = x.ents.map Entry.wantCtl) :
    Spec.Writebatch.acceptedIdxs { written := w, err := b, calls := calls.map (toSCall pk dnum) } <+ sentIdxs calls := by
  simp only [Spec.Writebatch.acceptedIdxs, spec_accepted pk dnum calls h, sentIdxs, List.flatMap_map]
  exact flatMap_sublist _ _ _ (fun e _ => se_idxs_sublist pk dnum e)

omit [DecidableEq δ] in
theorem se_cnt (e : Entry) : (se pk dnum e).cnt = e.cnt := by
  simp only [Spec.Writebatch.SEntry.cnt, se, toSEntry]
  split
  · next h => simp only [Bool.and_eq_true, beq_iff_eq] at h; exact h.1.symm
  · next h => simp [h, Entry.idxs]
end trace

theorem accepted_mem (calls : List Call) (e : Entry) (h : e ∈ accepted calls) : ∃ x ∈ calls, e ∈ x.ents := by
  simp only [accepted, List.mem_flatMap] at h
  obtain ⟨x, hx, he⟩ := h
  refine ⟨x, hx, ?_⟩
  simp only [Call.accepted] at he
  split at he
  · exact List.mem_of_mem_take he
  · cases he

theorem list_eq_map_range_getD {α : Type} (l : List α) (d : α) : l = (List.range l.length).map (fun i => l.getD i d) := by
  apply List.ext_getElem
  · simp
  · intro i h1 h2; simp [List.getD_eq_getElem?_getD, h1]

section trace2
variable (c : Cfg δ) (pk : List (Pkt δ)) (dnum : δ → Nat) (rnum : Nat → Bool)

/-- what the theorems about `run` give for a trace -/
structure TraceFacts (gso : Bool) (r : Result) : Prop where
  ctl : ∀ x ∈ r.calls, x.ctl = x.ents.map Entry.wantCtl
  sorted : (accepted r.calls).Pairwise Before
  offered : ∀ x ∈ r.calls, x.ents ≠ [] ∧ x.done + x.ents.length ≤ c.n ∧ ∀ e ∈ x.ents, Offered c gso pk e
  sentLe : ∀ x ∈ r.calls, x.out.sent ≤ (x.ents.length : Int)
  written : r.written = sumCnt (accepted r.calls)
  inRange : ∀ e ∈ accepted r.calls, 1 ≤ e.cnt ∧ e.start + e.cnt ≤ pk.length
  stuckErr : r.err = true → ∃ init last, r.calls = init ++ [last] ∧ Stuck last ∧ ∀ x ∈ init, ¬ Stuck x
  stuckOk : r.err = false → ∀ x ∈ r.calls, ¬ Stuck x

variable {c pk} {gso : Bool} {r : Result}

theorem br_sentWithin (F : TraceFacts c pk gso r) : Spec.Writebatch.sentWithin (toSTrace pk dnum r) = true := by
  simp only [Spec.Writebatch.sentWithin, toSTrace, List.all_map, List.all_eq_true, Function.comp, decide_eq_true_eq]
  intro x hx
  exact F.sentLe x hx

theorem br_runShape (F : TraceFacts c pk gso r) (hr : ∀ p ∈ pk, rnum (dnum p.dst) = c.routable p.dst) :
    Spec.Writebatch.runShape (toSInput c pk dnum rnum) (toSTrace pk dnum r) = true := by
  simp only [Spec.Writebatch.runShape, toSTrace, List.all_map, List.all_eq_true, Function.comp]
  intro x hx
  obtain ⟨h1, h2, h3⟩ := F.offered x hx
  have he := toSCall_ents pk dnum x (F.ctl x hx)
  have hl : 1 ≤ x.ents.length := by
    cases hxe : x.ents with
    | nil => exact absurd hxe h1
    | cons a b => simp
  simp only [Bool.and_eq_true, decide_eq_true_eq, he, List.length_map, List.all_map, List.all_eq_true, Function.comp]
  refine ⟨⟨⟨rfl, hl⟩, h2⟩, fun e hee => entryShape_se c pk dnum rnum e gso (h3 e hee) hr⟩

theorem br_countExact (F : TraceFacts c pk gso r) : Spec.Writebatch.countExact (toSTrace pk dnum r) = true := by
  simp only [Spec.Writebatch.countExact, toSTrace, spec_accepted pk dnum r.calls F.ctl, beq_iff_eq, F.written,
    sumCnt, List.map_map]
  congr 1
  apply List.map_congr_left
  intro e _
  exact (se_cnt pk dnum e).symm

theorem br_sorted (F : TraceFacts c pk gso r) :
    (Spec.Writebatch.acceptedIdxs (toSTrace pk dnum r)).Pairwise (· < ·) :=
  (idxs_sorted _ F.sorted).sublist (spec_acceptedIdxs_sublist pk dnum r.calls F.ctl)

theorem br_orderKept (F : TraceFacts c pk gso r) :
    Spec.Writebatch.orderKept (toSInput c pk dnum rnum) (toSTrace pk dnum r) = true := by
  simp only [Spec.Writebatch.orderKept, List.all_eq_true]
  intro d _
  exact strictlyIncreasing_of_sorted _ ((br_sorted dnum F).sublist List.filter_sublist)

theorem br_noProgress (F : TraceFacts c pk gso r) : Spec.Writebatch.noProgress (toSTrace pk dnum r) = true := by
  have hst : ∀ x : Call, (decide ((toSCall pk dnum x).sent ≤ 0) && (toSCall pk dnum x).errOk) = true ↔ Stuck x := by
    intro x
    simp only [Bool.and_eq_true, Stuck]
    constructor
    · rintro ⟨h1, h2⟩; exact ⟨of_decide_eq_true h1, by simpa [toSCall] using h2⟩
    · rintro ⟨h1, h2⟩; exact ⟨decide_eq_true h1, by simp [toSCall, h2]⟩
  simp only [Spec.Writebatch.noProgress, toSTrace, Bool.and_eq_true, List.all_eq_true, Bool.not_eq_true', beq_iff_eq]
  cases he : r.err with
  | true =>
    obtain ⟨init, last, h1, h2, h3⟩ := F.stuckErr he
    rw [h1]
    simp only [List.map_append, List.map_cons, List.map_nil, List.dropLast_concat, List.getLast?_concat]
    refine ⟨?_, ?_⟩
    · intro y hy
      obtain ⟨x, hx, rfl⟩ := List.mem_map.mp hy
      cases hb : (decide ((toSCall pk dnum x).sent ≤ 0) && (toSCall pk dnum x).errOk) with
      | false => rfl
      | true => exact absurd ((hst x).mp hb) (h3 x hx)
    · exact ((hst last).mpr h2).symm
  | false =>
    have hn := F.stuckOk he
    have hall : ∀ x ∈ r.calls, (decide ((toSCall pk dnum x).sent ≤ 0) && (toSCall pk dnum x).errOk) = false := by
      intro x hx
      cases hb : (decide ((toSCall pk dnum x).sent ≤ 0) && (toSCall pk dnum x).errOk) with
      | false => rfl
      | true => exact absurd ((hst x).mp hb) (hn x hx)
    refine ⟨?_, ?_⟩
    · intro y hy
      obtain ⟨x, hx, rfl⟩ := List.mem_map.mp ((List.dropLast_sublist _).subset hy)
      exact hall x hx
    · cases hl : (r.calls.map (toSCall pk dnum)).getLast? with
      | none => rfl
      | some y =>
        obtain ⟨x, hx, rfl⟩ := List.mem_map.mp (List.mem_of_getLast? hl)
        exact (hall x hx).symm

theorem br_atMostOnce (F : TraceFacts c pk gso r) :
    Spec.Writebatch.atMostOnce (toSInput c pk dnum rnum) (toSTrace pk dnum r) = true := by
  simp only [Spec.Writebatch.atMostOnce, Bool.and_eq_true, Bool.not_eq_true', List.all_eq_true, decide_eq_true_eq]
  refine ⟨hasDup_false_of_sorted _ (br_sorted dnum F), fun d _ => ?_⟩
  simp only [toSTrace, spec_accepted pk dnum r.calls F.ctl, List.filter_map, List.length_map]
  generalize hq : (fun e : SEntry => e.zero && e.dst == d) = q
  generalize hZ : (accepted r.calls).filter (q ∘ se pk dnum) = Z
  have hZs : Z <+ accepted r.calls := by rw [← hZ]; exact List.filter_sublist
  have hZm : ∀ e ∈ Z, e ∈ accepted r.calls ∧ q (se pk dnum e) = true := by
    intro e he; rw [← hZ] at he; simpa using List.mem_filter.mp he
  -- the start indices of the accepted zero-length entries for destination d: strictly increasing …
  have hst : (Z.map (·.start)).Pairwise (· < ·) := by
    rw [List.pairwise_map]
    refine (F.sorted.sublist hZs).imp_of_mem ?_
    intro a b ha _ hab
    have := (F.inRange a (hZm a ha).1).1
    simp only [Before] at hab; omega
  -- … and each of them is the index of a zero-length packet for d
  let pkts := (toSInput c pk dnum rnum).pkts
  let g := fun i => pkts.getD i (0, 0)
  let q' := fun p : Nat × Nat => p.1 == 0 && p.2 == d
  have hL : ((List.range pkts.length).filter (q' ∘ g)).Pairwise (· < ·) :=
    List.pairwise_lt_range.sublist List.filter_sublist
  have hmem : ∀ s ∈ Z.map (·.start), s ∈ (List.range pkts.length).filter (q' ∘ g) := by
    intro s hs
    obtain ⟨e, he, rfl⟩ := List.mem_map.mp hs
    obtain ⟨hacc, hqe⟩ := hZm e he
    obtain ⟨h1, h2⟩ := F.inRange e hacc
    have h0 : e.start < pk.length := by omega
    rw [List.mem_filter]
    refine ⟨by simp [pkts, toSInput]; exact h0, ?_⟩
    rw [← hq] at hqe
    simp only [se, toSEntry, List.getElem?_eq_getElem h0, Option.map_some, Option.getD_some, Bool.and_eq_true,
      beq_iff_eq, Option.some.injEq] at hqe
    simp only [Function.comp, q', g, pkts, toSInput, getD_map_pkts pk dnum e.start h0, Bool.and_eq_true, beq_iff_eq]
    exact ⟨hqe.1.2, hqe.2⟩
  have hsub := sublist_of_sorted_subset _ _ hst hL hmem
  have hlen := hsub.length_le
  simp only [List.length_map] at hlen
  have hrhs : (pkts.filter q').length = ((List.range pkts.length).filter (q' ∘ g)).length := by
    conv => lhs; rw [list_eq_map_range_getD pkts (0, 0)]
    rw [List.filter_map, List.length_map]
  show Z.length ≤ (pkts.filter q').length
  omega
end trace2

section final
variable (c : Cfg δ) (pk : List (Pkt δ)) (dnum : δ → Nat) (rnum : Nat → Bool)

theorem traceFacts (kern : Nat → Nat → Outcome) (hk : KernOK kern) (gso : Bool) (ctl : Ctl) (hc : ctl.length = c.n) :
    TraceFacts c pk gso (writeBatch c kern pk gso ctl) := by
  have h := run_spec c kern hk pk gso 0 0 ctl (Nat.zero_le _)
  have hs := run_stuck c kern pk gso 0 0 ctl
  obtain ⟨h1, h2, h3, h4, _⟩ := h
  refine ⟨(run_ctl c kern pk gso 0 0 ctl (Nat.zero_le _) hc).2, h1, h4, run_sent_le c kern hk pk gso 0 0 ctl, h3, ?_, hs.1, hs.2⟩
  intro e he
  obtain ⟨x, hx, hex⟩ := accepted_mem _ e he
  exact ⟨((h4 x hx).2.2 e hex).1.1, (h2 e he).2⟩

/-- The run-time oracle accepts the model: for every batch, kernel (under the sendmmsg contract), scratch
size, GSO flag and stale slot state, `Spec.Writebatch.check` applied to the model's trace — as the harness
would observe it — finds no violation. -/
theorem model_satisfies_oracle_lemma (kern : Nat → Nat → Outcome) (hk : KernOK kern) (gso : Bool) (ctl : Ctl)
    (hc : ctl.length = c.n) (hr : ∀ p ∈ pk, rnum (dnum p.dst) = c.routable p.dst) :
    Spec.Writebatch.check (toSInput c pk dnum rnum) (toSTrace pk dnum (writeBatch c kern pk gso ctl)) = none := by
  have F := traceFacts c pk kern hk gso ctl hc
  simp only [Spec.Writebatch.check, br_sentWithin dnum F, br_runShape dnum rnum F hr, br_atMostOnce dnum rnum F,
    br_countExact dnum F, br_orderKept dnum rnum F, br_noProgress dnum F, Bool.not_true, Bool.false_eq_true, if_false]
end final
end Nebula.Lemmas.Writebatch
