/-
Lemmas about the shared checksum theory `Nebula/Base/Csum.lean` (core Lean only, `omega`-based).

Contents: `Rep` is a congruence for addition; `fold16 = ocNorm`; concatenation at even offsets;
byte-order independence (`leSum` vs `wsum`, `swap16`); incremental update of a 16-bit field;
complement / verification.
-/
import Nebula.Base.Csum

namespace Nebula.Csum

/-! ### `Rep`: equality of one's-complement numbers -/

theorem rep_refl (x : Nat) : Rep x x := ⟨rfl, Iff.rfl⟩

theorem rep_symm {a b : Nat} (h : Rep a b) : Rep b a := ⟨h.1.symm, h.2.symm⟩

theorem rep_trans {a b c : Nat} (h1 : Rep a b) (h2 : Rep b c) : Rep a c := by
  unfold Rep at *; omega

theorem rep_add {a b x y : Nat} (h1 : Rep a x) (h2 : Rep b y) : Rep (a + b) (x + y) := by
  unfold Rep at *; omega

theorem rep_of_eq {a b : Nat} (h : a = b) : Rep a b := h ▸ rep_refl a

/-- adding a multiple of 65535 to a non-zero number does not change the number it represents. -/
theorem rep_add_mul (x k : Nat) (hx : x ≠ 0) : Rep (x + 65535 * k) x := by
  unfold Rep; constructor
  · exact Nat.add_mul_mod_self_left x 65535 k
  · omega

theorem ocNorm_lt (x : Nat) : ocNorm x < 65536 := by
  unfold ocNorm; split <;> omega

theorem ocNorm_rep (x : Nat) : Rep (ocNorm x) x := by
  unfold ocNorm Rep; split <;> omega

/-- A 16-bit value representing `x` *is* the canonical representative. -/
theorem rep_norm {a x : Nat} (h : Rep a x) (ha : a < 65536) : a = ocNorm x := by
  unfold Rep ocNorm at *; split <;> omega

theorem ocNorm_congr {x y : Nat} (h : Rep x y) : ocNorm x = ocNorm y :=
  rep_norm (rep_trans (ocNorm_rep x) h) (ocNorm_lt x)

theorem ocNorm_of_lt {x : Nat} (h : x < 65536) : ocNorm x = x :=
  (rep_norm (rep_refl x) h).symm

theorem ocNorm_zero_iff (x : Nat) : ocNorm x = 0 ↔ x = 0 := (ocNorm_rep x).2

/-! ### the fold loop -/

theorem foldStep_rep (x : Nat) : Rep (foldStep x) x := by
  unfold foldStep Rep; omega

theorem fold16_rep (x : Nat) : Rep (fold16 x) x ∧ fold16 x < 65536 := by
  induction x using Nat.strongRecOn with
  | _ x ih =>
    rw [fold16]
    split
    · exact ⟨rep_refl x, by assumption⟩
    · have hlt : foldStep x < x := by unfold foldStep; omega
      have := ih _ hlt
      exact ⟨rep_trans this.1 (foldStep_rep x), this.2⟩

/-- The RFC 1071 fold loop computes the canonical representative. -/
theorem fold16_eq (x : Nat) : fold16 x = ocNorm x :=
  rep_norm (fold16_rep x).1 (fold16_rep x).2

theorem fold16_lt (x : Nat) : fold16 x < 65536 := (fold16_rep x).2

theorem fold16_congr {x y : Nat} (h : Rep x y) : fold16 x = fold16 y := by
  rw [fold16_eq, fold16_eq]; exact ocNorm_congr h

theorem fold16_of_lt {x : Nat} (h : x < 65536) : fold16 x = x := by
  rw [fold16_eq]; exact ocNorm_of_lt h

/-- Folding twice at width 32 → 16, as `foldComplement` and the base-sum helpers do, is the full fold
for every 32-bit input. -/
theorem foldStep_twice (x : Nat) (h : x < 4294967296) : foldStep (foldStep x) = fold16 x := by
  have h1 : foldStep x ≤ 131070 := by unfold foldStep; omega
  have h2 : foldStep (foldStep x) < 65536 := by
    generalize foldStep x = y at h1; unfold foldStep; omega
  rw [fold16_eq]
  exact rep_norm (rep_trans (foldStep_rep _) (foldStep_rep _)) h2

/-! ### sums over buffers -/

theorem wsum_append (a b : List UInt8) (h : a.length % 2 = 0) : wsum (a ++ b) = wsum a + wsum b := by
  fun_induction wsum a with
  | case1 => simp [wsum]
  | case2 x => simp at h
  | case3 x y r ih =>
    have : r.length % 2 = 0 := by simp at h; omega
    simp only [List.cons_append, wsum, ih this]; omega

theorem leSum_append (a b : List UInt8) (h : a.length % 2 = 0) : leSum (a ++ b) = leSum a + leSum b := by
  fun_induction leSum a with
  | case1 => simp [leSum]
  | case2 x => simp at h
  | case3 x y r ih =>
    have : r.length % 2 = 0 := by simp at h; omega
    simp only [List.cons_append, leSum, ih this]; omega

theorem wsum_le (b : List UInt8) : wsum b ≤ 65535 * b.length := by
  fun_induction wsum b with
  | case1 => simp
  | case2 x => have := x.toNat_lt; simp; omega
  | case3 x y r ih => have := x.toNat_lt; have := y.toNat_lt; simp; omega

/-- Byte-order independence (RFC 1071 §2(B)): summing the buffer as little-endian words gives the
byte-swapped sum, i.e. 256 times the big-endian sum as a one's-complement number. -/
theorem leSum_rep (b : List UInt8) : Rep (leSum b) (256 * wsum b) := by
  fun_induction leSum b with
  | case1 => simp [wsum, rep_refl]
  | case2 x => simp only [wsum]; unfold Rep; omega
  | case3 x y r ih => simp only [wsum]; unfold Rep at *; omega

theorem swap16_lt (x : Nat) : swap16 x < 65536 := by unfold swap16; omega

/-- Swapping the bytes of a 16-bit value multiplies the one's-complement number by 256. -/
theorem swap16_rep (x : Nat) (h : x < 65536) : Rep (swap16 x) (256 * x) := by
  unfold swap16 Rep
  have e : 256 * x = (x % 256 * 256 + x / 256 % 256) + 65535 * (x / 256) := by omega
  constructor
  · rw [e, Nat.add_mul_mod_self_left]
  · omega

theorem rep_mul256 {a x : Nat} (h : Rep a x) : Rep (256 * a) (256 * x) := by
  unfold Rep at *; omega

/-- 256 · 256 = 65536 ≡ 1: swapping twice is the identity on one's-complement numbers. -/
theorem rep_65536 (x : Nat) : Rep (256 * (256 * x)) x := by
  have e : 256 * (256 * x) = x + 65535 * x := by omega
  rw [e]; exact ⟨Nat.add_mul_mod_self_left _ _ _, by omega⟩

/-- Byte-order independence, end to end: fold the little-endian sum seeded with the swapped seed,
swap the result — that is the big-endian checksum. -/
theorem checksum_byte_order (b : List UInt8) (s : Nat) (hs : s < 65536) :
    swap16 (fold16 (leSum b + swap16 s)) = checksum b s := by
  unfold checksum
  have h1 : Rep (leSum b + swap16 s) (256 * (wsum b + s)) := by
    rw [Nat.mul_add]; exact rep_add (leSum_rep b) (swap16_rep s hs)
  have h2 := swap16_rep _ (fold16_lt (leSum b + swap16 s))
  have h3 : Rep (swap16 (fold16 (leSum b + swap16 s))) (wsum b + s) :=
    rep_trans h2 (rep_trans (rep_mul256 (rep_trans (fold16_rep _).1 h1)) (rep_65536 _))
  rw [rep_norm h3 (swap16_lt _), fold16_eq (wsum b + s)]

/-! ### concatenation and seeds -/

theorem checksum_lt (b : List UInt8) (s : Nat) : checksum b s < 65536 := fold16_lt _

theorem checksum_rep (b : List UInt8) (s : Nat) : Rep (checksum b s) (wsum b + s) := (fold16_rep _).1

/-- Checksumming a concatenation whose first part has even length = checksumming the second part
seeded with the checksum of the first. -/
theorem checksum_append (a b : List UInt8) (s : Nat) (h : a.length % 2 = 0) :
    checksum (a ++ b) s = checksum b (checksum a s) := by
  unfold checksum
  rw [wsum_append a b h]
  apply fold16_congr
  have := (fold16_rep (wsum a + s)).1
  have h2 : Rep (wsum b + fold16 (wsum a + s)) (wsum b + (wsum a + s)) := rep_add (rep_refl _) this
  have : wsum a + wsum b + s = wsum b + (wsum a + s) := by omega
  rw [this]; exact rep_symm h2

/-- A seed may be replaced by anything representing the same number. -/
theorem checksum_seed_congr (b : List UInt8) {s t : Nat} (h : Rep s t) : checksum b s = checksum b t :=
  fold16_congr (rep_add (rep_refl _) h)

/-! ### 16-bit fields at even offsets: read, overwrite, incremental update -/

theorem put16_length (v : Nat) : (put16 v).length = 2 := rfl

theorem set16_length (b : List UInt8) (off v : Nat) (h : off + 2 ≤ b.length) :
    (set16 b off v).length = b.length := by
  simp [set16, put16]; omega

theorem wsum_put16 (v : Nat) (h : v < 65536) : wsum (put16 v) = v := by
  simp only [put16, wsum, UInt8.toNat_ofNat']; omega

theorem wsum_two (b : List UInt8) (off : Nat) (h : off + 2 ≤ b.length) :
    wsum ((b.drop off).take 2) = be16 b off := by
  unfold be16
  match hd : b.drop off with
  | [] => have := congrArg List.length hd; simp at this; omega
  | [x] => have := congrArg List.length hd; simp at this; omega
  | x :: y :: r =>
    have h0 : b[off]? = some x := by
      have := List.getElem?_drop (xs := b) (i := off) (j := 0); rw [hd] at this; simpa using this.symm
    have h1 : b[off + 1]? = some y := by
      have := List.getElem?_drop (xs := b) (i := off) (j := 1); rw [hd] at this; simpa using this.symm
    simp [wsum, h0, h1]

/-- Split a buffer around the 16-bit field at an even offset. -/
theorem wsum_split16 (b : List UInt8) (off : Nat) (he : off % 2 = 0) (h : off + 2 ≤ b.length) :
    wsum b = wsum (b.take off) + be16 b off + wsum (b.drop (off + 2)) := by
  have e1 : b = b.take off ++ ((b.drop off).take 2 ++ b.drop (off + 2)) := by
    rw [← List.drop_drop, List.take_append_drop, List.take_append_drop]
  have l1 : (b.take off).length % 2 = 0 := by simp; omega
  have l2 : ((b.drop off).take 2).length % 2 = 0 := by simp; omega
  conv => lhs; rw [e1]
  rw [wsum_append _ _ l1, wsum_append _ _ l2, wsum_two b off h]; omega

/-- Incremental update (RFC 1624): overwriting the field at an even offset changes the word sum by
exactly new − old. -/
theorem wsum_set16 (b : List UInt8) (off v : Nat) (he : off % 2 = 0) (h : off + 2 ≤ b.length)
    (hv : v < 65536) : wsum (set16 b off v) + be16 b off = wsum b + v := by
  have l1 : (b.take off).length % 2 = 0 := by simp; omega
  have l2 : (put16 v).length % 2 = 0 := by simp [put16]
  rw [wsum_split16 b off he h]
  unfold set16
  rw [List.append_assoc, wsum_append _ _ l1, wsum_append _ _ l2, wsum_put16 v hv]; omega

theorem be16_lt (b : List UInt8) (off : Nat) : be16 b off < 65536 := by
  unfold be16
  have := (b.getD off 0).toNat_lt; have := (b.getD (off + 1) 0).toNat_lt; omega

/-! ### complement and verification -/

theorem compl16_lt (x : Nat) : compl16 x < 65536 := by unfold compl16; omega

/-- Adding the complement of a 16-bit value subtracts it: `x + v + ~v` represents `x` (for `x ≠ 0`;
the accumulated sums in nebula always contain a non-zero word). -/
theorem rep_add_compl (x v : Nat) (hv : v < 65536) (hx : x ≠ 0) : Rep (x + v + compl16 v) x := by
  unfold compl16 Rep; omega

/-- Storing the complement of the folded sum of "everything else" makes the whole verify, provided
the rest is not all-zero. -/
theorem verifies_of_compl (rest : Nat) : fold16 (rest + compl16 (fold16 rest)) = 65535 := by
  have h1 := fold16_rep rest
  have h2 := fold16_rep (rest + compl16 (fold16 rest))
  generalize fold16 rest = f at *
  generalize fold16 (rest + compl16 f) = g at *
  unfold compl16 Rep at *; omega

end Nebula.Csum
