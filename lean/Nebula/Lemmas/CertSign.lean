/-
Helper lemmas for C04: what `validate` preserves, and the exact success condition of `SignWith`.
-/
import Nebula.Model.CertSign
import Nebula.Lemmas.CAPool

namespace Nebula.Lemmas.CertSign
open Nebula.Net Nebula.Cert Nebula.Spec.Trust Nebula.Lemmas.Trust

theorem mem_insertPrefix (a n : Prefix) (l : List Prefix) : n ∈ insertPrefix a l ↔ n = a ∨ n ∈ l := by
  induction l with
  | nil => simp [insertPrefix]
  | cons b rest ih =>
    unfold insertPrefix
    split
    · simp
    · simp only [List.mem_cons, ih]
      constructor
      · rintro (h | h | h)
        · exact Or.inr (Or.inl h)
        · exact Or.inl h
        · exact Or.inr (Or.inr h)
      · rintro (h | h | h)
        · exact Or.inr (Or.inl h)
        · exact Or.inl h
        · exact Or.inr (Or.inr h)

theorem mem_sortPrefixes (l : List Prefix) (n : Prefix) : n ∈ sortPrefixes l ↔ n ∈ l := by
  induction l with
  | nil => simp [sortPrefixes]
  | cons a rest ih => simp [sortPrefixes, mem_insertPrefix, ih]

/-- `validate` (either version) only reorders the two network lists. -/
theorem validateVersion_ok {t c : Cert} (h : validateVersion t = some (.ok c)) :
    c.version = t.version ∧ c.curve = t.curve ∧ c.name = t.name ∧ c.groups = t.groups ∧ c.isCA = t.isCA ∧
    c.notBefore = t.notBefore ∧ c.notAfter = t.notAfter ∧ c.issuer = t.issuer ∧ c.publicKey = t.publicKey ∧
    c.signature = t.signature ∧
    (∀ n, n ∈ c.networks ↔ n ∈ t.networks) ∧ (∀ n, n ∈ c.unsafeNetworks ↔ n ∈ t.unsafeNetworks) := by
  unfold validateVersion at h
  by_cases h1 : t.version = 1
  · simp only [h1, if_true, Option.some.injEq] at h
    cases hv : validateV1 t <;> rw [hv] at h <;> simp at h
    subst h; simp
  · by_cases h2 : t.version = 2
    · simp only [h1, h2, if_false, if_true, Option.some.injEq] at h
      unfold validateV2 at h
      dsimp only at h
      repeat' split at h
      all_goals try (simp only [Option.some.injEq, Except.ok.injEq, reduceCtorEq] at h)
      all_goals try (subst h; simp [mem_sortPrefixes])
    · simp [h1, h2] at h

theorem netsWithin_congr (ca l l' : List Prefix) (h : ∀ n, n ∈ l ↔ n ∈ l') :
    netsWithin ca l ↔ netsWithin ca l' := by
  unfold netsWithin
  constructor
  · rintro (h0 | h1)
    · exact Or.inl h0
    · exact Or.inr (fun n hn => h1 n ((h n).mpr hn))
  · rintro (h0 | h1)
    · exact Or.inl h0
    · exact Or.inr (fun n hn => h1 n ((h n).mp hn))

/-- The issuer step of `SignWith` as a relation. -/
def issuerOK (E : SignEnv) (signer : Option Cert) (t : Cert) (iss : String) : Prop :=
  match signer with
  | some s => t.isCA = false ∧
      withinFields s t.notBefore t.notAfter t.groups t.networks t.unsafeNetworks ∧ E.K.fingerprint s = some iss
  | none => t.isCA = true ∧ iss = ""

/-- `SignWith` up to `setSignature` succeeds exactly under the conjunction of its guards and oracle successes. -/
theorem signWithUnsized_ok_iff (E : SignEnv) (signer : Option Cert) (kc : Nat) (t c : Cert) :
    signWithUnsized E signer kc t = .ok c ↔
      kc = t.curve ∧ ∃ iss, issuerOK E signer t iss ∧
      ∃ v, validateVersion (fromTBS t iss) = some (.ok v) ∧
      ∃ bytes sig0 sig, E.tbsBytes v = some bytes ∧ E.sign bytes = some sig0 ∧
        (if kc = curveP256 then E.normalize sig0 else some sig0) = some sig ∧ sig ≠ [] ∧
        c = { v with signature := sig } := by
  unfold signWithUnsized
  by_cases hk : kc = t.curve
  case neg => simp [hk]
  subst hk
  simp only [ne_eq, not_true_eq_false, if_false, true_and]
  -- the issuer step
  have key : ∀ (r : Except SignErr String),
      (∀ iss, r = .ok iss ↔ issuerOK E signer t iss) →
      ((match r with
        | .error e => (Except.error e : Except SignErr Cert)
        | .ok iss =>
          match validateVersion (fromTBS t iss) with
          | none => .error .unknownVersion
          | some (.error e) => .error (.invalid e)
          | some (.ok c) =>
            match E.tbsBytes c with
            | none => .error .marshal
            | some bytes =>
              match E.sign bytes with
              | none => .error .signer
              | some sig =>
                match (if t.curve = curveP256 then E.normalize sig else some sig) with
                | none => .error .normalize
                | some sig => if sig.length == 0 then .error .emptySignature else .ok { c with signature := sig }) = .ok c ↔
       ∃ iss, issuerOK E signer t iss ∧
        ∃ v, validateVersion (fromTBS t iss) = some (.ok v) ∧
        ∃ bytes sig0 sig, E.tbsBytes v = some bytes ∧ E.sign bytes = some sig0 ∧
          (if t.curve = curveP256 then E.normalize sig0 else some sig0) = some sig ∧ sig ≠ [] ∧
          c = { v with signature := sig }) := by
    intro r hr
    cases r with
    | error e =>
      simp only [reduceCtorEq, false_iff]
      rintro ⟨iss, hi, -⟩
      have := (hr iss).mpr hi
      cases this
    | ok iss =>
      have hiss := (hr iss).mp rfl
      have huniq : ∀ iss', issuerOK E signer t iss' → iss' = iss := by
        intro iss' h'
        have := (hr iss').mpr h'
        cases this; rfl
      simp only
      constructor
      · intro h
        refine ⟨iss, hiss, ?_⟩
        cases hv : validateVersion (fromTBS t iss) with
        | none => rw [hv] at h; cases h
        | some rv =>
          rw [hv] at h
          cases rv with
          | error e => cases h
          | ok v =>
            simp only at h
            refine ⟨v, rfl, ?_⟩
            cases hb : E.tbsBytes v with
            | none => rw [hb] at h; cases h
            | some bytes =>
              rw [hb] at h; simp only at h
              cases hs : E.sign bytes with
              | none => rw [hs] at h; cases h
              | some sig0 =>
                rw [hs] at h; simp only at h
                cases hn : (if t.curve = curveP256 then E.normalize sig0 else some sig0) with
                | none => rw [hn] at h; cases h
                | some sig =>
                  rw [hn] at h; simp only at h
                  by_cases hl : (sig.length == 0) = true
                  · rw [if_pos hl] at h; cases h
                  · rw [if_neg hl] at h
                    cases h
                    refine ⟨bytes, sig0, sig, rfl, hs, hn, ?_, rfl⟩
                    intro he; apply hl; simp [he]
      · rintro ⟨iss', hi', v, hv, bytes, sig0, sig, hb, hs, hn, hne, rfl⟩
        have := huniq iss' hi'
        subst this
        rw [hv]; simp only
        rw [hb]; simp only
        rw [hs]; simp only
        rw [hn]; simp only
        have hl : ¬ (sig.length == 0) = true := by
          cases sig with
          | nil => exact absurd rfl hne
          | cons a l => simp
        rw [if_neg hl]
  apply key
  intro iss
  unfold issuerOK
  cases signer with
  | none =>
    cases hc : t.isCA <;> simp [eq_comm]
  | some s =>
    cases hc : t.isCA
    · simp only [Bool.false_eq_true, if_false, true_and]
      cases hk2 : checkCAConstraints s t.notBefore t.notAfter t.groups t.networks t.unsafeNetworks with
      | some e =>
        have : ¬ withinFields s t.notBefore t.notAfter t.groups t.networks t.unsafeNetworks := by
          rw [← checkCAConstraints_none_iff, hk2]; simp
        simp [this]
      | none =>
        have := (checkCAConstraints_none_iff s t.notBefore t.notAfter t.groups t.networks t.unsafeNetworks).mp hk2
        cases hf : E.K.fingerprint s <;> simp [this, eq_comm]
    · simp

theorem signWith_eq (E : SignEnv) (signer : Option Cert) (kc : Nat) (t c : Cert) :
    signWith E signer kc t = .ok c ↔
      signWithUnsized E signer kc t = .ok c ∧ (c.version = 2 → E.tooLarge c = false) := by
  unfold signWith
  cases h : signWithUnsized E signer kc t with
  | error e => simp
  | ok c' =>
    simp only [Except.ok.injEq]
    by_cases hb : c'.version = 2 ∧ E.tooLarge c' = true
    · rw [if_pos hb]
      constructor
      · intro h; cases h
      · rintro ⟨rfl, h2⟩
        have := h2 hb.1
        rw [hb.2] at this
        cases this
    · rw [if_neg hb]
      simp only [Except.ok.injEq]
      constructor
      · rintro rfl
        refine ⟨rfl, fun hv => ?_⟩
        cases ht : E.tooLarge c' with
        | false => rfl
        | true => exact absurd ⟨hv, ht⟩ hb
      · rintro ⟨rfl, -⟩; rfl

/-- `SignWith` succeeds exactly under the conjunction of its guards and oracle successes, the last guard being
that a v2 certificate's encoding fits the decoder's `MaxCertificateSize`. -/
theorem signWith_ok_iff (E : SignEnv) (signer : Option Cert) (kc : Nat) (t c : Cert) :
    signWith E signer kc t = .ok c ↔
      (kc = t.curve ∧ ∃ iss, issuerOK E signer t iss ∧
      ∃ v, validateVersion (fromTBS t iss) = some (.ok v) ∧
      ∃ bytes sig0 sig, E.tbsBytes v = some bytes ∧ E.sign bytes = some sig0 ∧
        (if kc = curveP256 then E.normalize sig0 else some sig0) = some sig ∧ sig ≠ [] ∧
        c = { v with signature := sig }) ∧ (c.version = 2 → E.tooLarge c = false) := by
  rw [signWith_eq, signWithUnsized_ok_iff]

/-! Concrete data for the examples / the known-finding witness of `Props/C04.lean`. -/

def exE : SignEnv where
  K := { fingerprint := fun c => some (if c.isCA then "ca01" else "1eaf"),
         altFingerprint := fun _ => some "", checkSig := fun _ key => key == [7] }
  tbsBytes _ := some [1]
  sign _ := some [9]
  normalize s := some s
  tooLarge _ := false

def exTBS : Cert := { CAPool.exLeaf with curve := 0, issuer := "", signature := [] }

end Nebula.Lemmas.CertSign
