/-
Lemmas for C21, part 6: `CreateRejectPacket` as a whole.
-/
import Nebula.Lemmas.RejectGood

namespace Nebula.Lemmas.Reject
open Nebula.Pkt Nebula.Reject Nebula.Spec.IP Nebula.Spec.PktCsum Nebula.Spec.Reject
open Nebula.Lemmas.PktParse Nebula.Lemmas.PktCsum


theorem and_1f (b : Nat) : b &&& 0x1f = b % 32 := Nat.and_two_pow_sub_one_eq_mod b 5

def v4FragGuard (p : List UInt8) : Prop := byte p 6 % 32 ≠ 0 ∨ byte p 7 ≠ 0
instance (p : List UInt8) : Decidable (v4FragGuard p) := by unfold v4FragGuard; exact inferInstance

/-- closed form of `CreateRejectPacket` on an IPv4 packet of at least 20 bytes -/
theorem create_v4_eq (p : List UInt8) (cap : Nat) (hlen : ¬ p.length < 20) (hv : byte p 0 / 16 = 4) :
    createRejectPacket p cap =
      if v4FragGuard p then .ok none
      else if byte p 9 = 6 then v4RejectTCP p cap else v4RejectICMP p cap := by
  have h1 : ¬ p.length < 1 := by omega
  simp only [createRejectPacket, if_neg h1, idx_eq p 0 (by omega), ok_bind, pure_eq, Nat.shiftRight_eq_div_pow,
    show (2 : Nat) ^ 4 = 16 from rfl, hv, if_true, if_neg hlen, idx_eq p 6 (by omega), idx_eq p 7 (by omega),
    idx_eq p 9 (by omega), and_1f, v4FragGuard]

theorem create_v6_eq (p : List UInt8) (cap : Nat) (hlen : ¬ p.length < 40) (hv : byte p 0 / 16 = 6) :
    createRejectPacket p cap = v6Reject p cap := by
  have h1 : ¬ p.length < 1 := by omega
  simp only [createRejectPacket, if_neg h1, idx_eq p 0 (by omega), ok_bind, pure_eq, Nat.shiftRight_eq_div_pow,
    show (2 : Nat) ^ 4 = 16 from rfl, hv, show ¬ ((6 : Nat) = 4) by decide, if_false, if_true, if_neg hlen]

theorem v6Reject_eq (p : List UInt8) (cap : Nat) (hlen : ¬ p.length < 40) :
    v6Reject p cap =
      match findUpper p with
      | .panic => .panic
      | .err _ => .ok none
      | .ok w =>
        if w.isFrag then .ok none
        else if w.nh = 6 then
          (if p.length < w.off + 20 then .ok none else if 60 > cap then .ok none else .ok (some (v6TcpReply p w.off)))
        else
          (if v6IcmpErr p w.nh w.off then .ok none
           else if 48 + min p.length 1000 > cap then .ok none else .ok (some (v6IcmpReply p))) := by
  simp only [v6Reject, pure_eq]
  cases findUpper p with
  | panic => rfl
  | err e => rfl
  | ok w => simp only [v6RejectTCP_eq p cap _ hlen, v6RejectICMP_eq p cap _ _ hlen]

theorem create_no_panic (p : List UInt8) (cap : Nat) : createRejectPacket p cap ≠ .panic := by
  by_cases h1 : p.length < 1
  · simp [createRejectPacket, h1]
  · by_cases h4 : byte p 0 / 16 = 4
    · by_cases h20 : p.length < 20
      · simp [createRejectPacket, h1, idx_eq p 0 (by omega), Nat.shiftRight_eq_div_pow, h4, h20]
      · rw [create_v4_eq p cap h20 h4, v4RejectTCP_eq p cap h20, v4RejectICMP_eq p cap h20]
        repeat' split
        all_goals simp
    · by_cases h6 : byte p 0 / 16 = 6
      · by_cases h40 : p.length < 40
        · simp [createRejectPacket, h1, idx_eq p 0 (by omega), Nat.shiftRight_eq_div_pow, h6, h40]
        · rw [create_v6_eq p cap h40 h6, v6Reject_eq p cap h40]
          have hnp := findUpper_no_panic p
          split
          · rename_i h; exact absurd h hnp
          · simp
          · repeat' split
            all_goals simp
      · simp [createRejectPacket, h1, idx_eq p 0 (by omega), Nat.shiftRight_eq_div_pow, h4, h6]


theorem parse4_some (p : List UInt8) (o : Spec.IP.Pkt) (h : parse4 p = some o) :
    ¬ p.length < 20 ∧ 20 ≤ byte p 0 % 16 * 4 ∧ byte p 0 % 16 * 4 ≤ p.length ∧ o = pkt4 p := by
  simp only [parse4] at h
  split at h
  · simp at h
  · split at h
    · simp at h
    · rename_i h1 h2
      simp only [Option.some.injEq] at h
      refine ⟨h1, by omega, by omega, ?_⟩
      rw [← h]
      simp [pkt4, v4NonFirst, v4AnyFrag]

theorem v4FragGuard_iff (p : List UInt8) : v4FragGuard p ↔ v4NonFirst p = true := by
  simp only [v4FragGuard, v4NonFirst, decide_eq_true_eq]; omega

theorem v4IcmpErr_of (p : List UInt8) (h : isIcmpError (pkt4 p) = true) : v4IcmpErr p ∧ byte p 9 = 1 := by
  simp only [isIcmpError, Spec.IP.Pkt.isIcmp, pkt4, isIcmpErrorType, byte_drop, Bool.and_eq_true, Bool.or_eq_true,
    beq_iff_eq, decide_eq_true_eq, List.length_drop, Nat.add_zero] at h
  simp only [show ((4 : Nat) = 4) = True from eq_self 4, if_true, Bool.or_eq_true, beq_iff_eq, Bool.and_eq_true] at h
  obtain ⟨⟨⟨h1, _⟩, h3⟩, h4⟩ := h
  have h9 : byte p 9 = 1 := by
    rcases h1 with h1 | h1
    · exact h1.2
    · simp at h1
  refine ⟨⟨h9, by omega, ?_⟩, h9⟩
  simp only []
  omega

theorem v4_must_not (p : List UInt8) (cap : Nat) (hlen : ¬ p.length < 20) (hv : byte p 0 / 16 = 4)
    (hl : byte p 0 % 16 * 4 ≤ p.length) (h : mustNotReply p (pkt4 p) cap = true) :
    createRejectPacket p cap = .ok none := by
  rw [create_v4_eq p cap hlen hv, v4RejectTCP_eq p cap hlen, v4RejectICMP_eq p cap hlen]
  by_cases hG : v4FragGuard p
  · simp [hG]
  · have hnf : v4NonFirst p = false := by
      cases hh : v4NonFirst p
      · rfl
      · exact absurd ((v4FragGuard_iff p).2 hh) hG
    simp only [if_neg hG]
    simp only [mustNotReply, Bool.or_eq_true] at h
    rcases h with (h | h) | h
    · simp [pkt4, hnf] at h
    · obtain ⟨he, h9⟩ := v4IcmpErr_of p h
      simp [h9, he]
    · simp only [replySize, pkt4, decide_eq_true_eq] at h
      by_cases h6 : byte p 9 = 6
      · simp only [h6, if_true] at h ⊢
        have : 40 > cap := by omega
        simp [this]
      · simp only [h6, if_false, if_true] at h ⊢
        have : 28 + min p.length (byte p 0 % 16 * 4 + 8) > cap := by omega
        simp [this]

theorem v4_good (p : List UInt8) (cap : Nat) (hlen : ¬ p.length < 20) (hv : byte p 0 / 16 = 4) (out : List UInt8)
    (h : createRejectPacket p cap = .ok (some out)) : goodReply p (pkt4 p) out = true := by
  rw [create_v4_eq p cap hlen hv, v4RejectTCP_eq p cap hlen, v4RejectICMP_eq p cap hlen] at h
  by_cases h6 : byte p 9 = 6
  · simp only [h6, if_true] at h
    repeat' split at h
    all_goals first
      | (simp at h; done)
      | (simp only [Res.ok.injEq, Option.some.injEq] at h; subst h; exact good_v4Tcp p hlen h6)
  · simp only [h6, if_false] at h
    repeat' split at h
    all_goals first
      | (simp at h; done)
      | (simp only [Res.ok.injEq, Option.some.injEq] at h; subst h; exact good_v4Icmp p hlen h6)


theorem v6IcmpErr_of (p : List UInt8) (w : V6Walk) (k : Nat) (h : isIcmpError (pkt6 p w k) = true) :
    v6IcmpErr p w.nh w.off ∧ w.nh = 58 := by
  simp only [isIcmpError, Spec.IP.Pkt.isIcmp, pkt6, isIcmpErrorType, byte_drop, Bool.and_eq_true, Bool.or_eq_true,
    beq_iff_eq, decide_eq_true_eq, List.length_drop, Nat.add_zero] at h
  simp only [show ¬ ((6 : Nat) = 4) by decide, if_false, Bool.and_eq_true, decide_eq_true_eq] at h
  obtain ⟨⟨⟨h1, _⟩, h3⟩, h4⟩ := h
  have h9 : w.nh = 58 := by
    rcases h1 with h1 | h1
    · simp at h1
    · exact h1.2
  exact ⟨⟨h9, by omega, h4⟩, h9⟩

theorem v6_must_not (p : List UInt8) (cap : Nat) (o : Spec.IP.Pkt) (hlen : ¬ p.length < 40) (hv : byte p 0 / 16 = 6)
    (ho : parse6 p = some o) (h : mustNotReply p o cap = true) : createRejectPacket p cap = .ok none := by
  rw [create_v6_eq p cap hlen hv, v6Reject_eq p cap hlen]
  cases hf : findUpper p with
  | panic => exact absurd hf (findUpper_no_panic p)
  | err e => rfl
  | ok w =>
    obtain ⟨k, hk⟩ := findUpper_spec p w hf
    rw [hk] at ho
    simp only [Option.some.injEq] at ho
    subst ho
    simp only []
    by_cases hfr : w.isFrag = true
    · simp [hfr]
    · simp only [if_neg hfr]
      simp only [mustNotReply, Bool.or_eq_true] at h
      rcases h with (h | h) | h
      · simp [pkt6] at h; exact absurd h hfr
      · obtain ⟨he, h9⟩ := v6IcmpErr_of p w k h
        simp [h9, he, h9 ▸ he]
      · simp only [replySize, pkt6, decide_eq_true_eq, show ¬ ((6 : Nat) = 4) by decide, if_false] at h
        by_cases h6 : w.nh = 6
        · simp only [h6, if_true] at h ⊢
          have : 60 > cap := by omega
          simp [this]
        · simp only [h6, if_false] at h ⊢
          have : 48 + min p.length 1000 > cap := by omega
          simp [this]

theorem v6_good (p : List UInt8) (cap : Nat) (o : Spec.IP.Pkt) (hlen : ¬ p.length < 40) (hv : byte p 0 / 16 = 6)
    (ho : parse6 p = some o) (out : List UInt8) (h : createRejectPacket p cap = .ok (some out)) :
    goodReply p o out = true := by
  rw [create_v6_eq p cap hlen hv, v6Reject_eq p cap hlen] at h
  cases hf : findUpper p with
  | panic => rw [hf] at h; simp at h
  | err e => rw [hf] at h; simp at h
  | ok w =>
    obtain ⟨k, hk⟩ := findUpper_spec p w hf
    rw [hk] at ho
    simp only [Option.some.injEq] at ho
    subst ho
    rw [hf] at h
    simp only [] at h
    by_cases h6 : w.nh = 6
    · simp only [h6, if_true] at h
      repeat' split at h
      all_goals first
        | (simp at h; done)
        | (simp only [Res.ok.injEq, Option.some.injEq] at h; subst h; exact good_v6Tcp p w k hlen h6)
    · simp only [h6, if_false] at h
      repeat' split at h
      all_goals first
        | (simp at h; done)
        | (simp only [Res.ok.injEq, Option.some.injEq] at h; subst h; exact good_v6Icmp p w k hlen h6)

/-- the whole property for a packet the independent parser accepts -/
theorem must_not (p : List UInt8) (cap : Nat) (o : Spec.IP.Pkt) (ho : parse p = some o)
    (h : mustNotReply p o cap = true) : createRejectPacket p cap = .ok none := by
  match p, ho with
  | b :: tl, ho =>
    have hb : byte (b :: tl) 0 = b.toNat := by simp [byte]
    simp only [parse] at ho
    by_cases h4 : b.toNat / 16 = 4
    · simp only [h4, if_true] at ho
      obtain ⟨a1, _, a3, rfl⟩ := parse4_some _ _ ho
      exact v4_must_not _ cap a1 (by rw [hb]; exact h4) a3 h
    · by_cases h6 : b.toNat / 16 = 6
      · simp only [h6, show ¬ ((6 : Nat) = 4) by decide, if_false, if_true] at ho
        have hlen : ¬ (b :: tl).length < 40 := by
          intro hc; simp only [parse6, if_pos hc] at ho; cases ho
        exact v6_must_not _ cap o hlen (by rw [hb]; exact h6) ho h
      · simp [h4, h6] at ho

theorem good (p : List UInt8) (cap : Nat) (o : Spec.IP.Pkt) (ho : parse p = some o) (out : List UInt8)
    (h : createRejectPacket p cap = .ok (some out)) : goodReply p o out = true := by
  match p, ho with
  | b :: tl, ho =>
    have hb : byte (b :: tl) 0 = b.toNat := by simp [byte]
    simp only [parse] at ho
    by_cases h4 : b.toNat / 16 = 4
    · simp only [h4, if_true] at ho
      obtain ⟨a1, _, _, rfl⟩ := parse4_some _ _ ho
      exact v4_good _ cap a1 (by rw [hb]; exact h4) out h
    · by_cases h6 : b.toNat / 16 = 6
      · simp only [h6, show ¬ ((6 : Nat) = 4) by decide, if_false, if_true] at ho
        have hlen : ¬ (b :: tl).length < 40 := by
          intro hc; simp only [parse6, if_pos hc] at ho; cases ho
        exact v6_good _ cap o hlen (by rw [hb]; exact h6) ho out h
      · simp [h4, h6] at ho


end Nebula.Lemmas.Reject
