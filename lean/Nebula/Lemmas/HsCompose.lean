/-
Composition of the handshake-manager model (Model/HsManager.lean, C09/C10) with the handshake.Machine model
(Model/Machine.lean, C05): the manager no longer receives "the Machine's completed result" as an arbitrary input
event — it OWNS Machine instances (one per pending handshake on the initiator side, a fresh one per received
first message on the responder side), feeds them arbitrary packets with arbitrary oracle answers (noise library,
cert.Recombine, trust check, index allocator, clock), and turns what they return into its own steps exactly as
beginHandshake / continueHandshake do:

  * an error                                    -> nothing (responder) / drop the pending handshake if Failed() (initiator)
  * a response without a Result                 -> nothing to complete
  * a Result                                    -> newConnectionStateFromResult (message index below the replay
                                                   window), Result.RemoteCert (must be there), its Networks() and
                                                   Version() -> the `Completed` event of the manager model.

`info` is what a verified certificate object contains (networks, version, fingerprint); it is a function of the
object the trust check returned and nothing else.
-/
import Nebula.Lemmas.HsManagerStep
import Nebula.Lemmas.MachineTrace

namespace Nebula.HsCompose
open Nebula.HsManager Nebula.Lemmas.HsManager

/-- contents of a verified (cached) certificate: Certificate.Networks() addresses, Version(), fingerprint -/
structure CertInfo where
  addrs : List Addr
  ver : Nat
  id : Nat
  deriving Repr

/-- the glue of beginHandshake / continueHandshake: from a Machine Result to the manager's `Completed`.
`none`: newConnectionStateFromResult refuses the message index, or the Result carries no peer certificate. -/
def glue (info : Machine.CertId → CertInfo) (r : Machine.Result) : Option Completed :=
  if r.messageIndex ≥ Nebula.Gen.hsm_ReplayWindow then none else
  match r.remoteCert with
  | none => none
  | some cert =>
    some { certAddrs := (info cert).addrs, certVer := (info cert).ver, remoteIndex := r.remoteIndex,
           time := r.handshakeTime, certId := (info cert).id }

/-- a Machine instance owned by the manager: its configuration, the certificate version it started with, and
every call made on it so far -/
structure Inst where
  cfg : Machine.Cfg
  ver : Nat
  hist : List Machine.Ev

def Inst.state (m : Inst) : Machine.St := Machine.runState m.cfg { myVersion := m.ver } m.hist

/-- one event of the composed system -/
inductive CEv
  /-- anything the manager does without consulting a Machine -/
  | mgr (e : Ev)
  /-- a first handshake message arrives: beginHandshake builds a responder Machine (`mc`, version `v`) and hands
  it the packet; the oracle answers are arbitrary -/
  | recv1 (via : UNode) (pkt : Handle) (respVer now : Nat) (mc : Machine.Cfg) (v : Nat) (call : Machine.Ev)
  /-- a continuation arrives for pending index `idx`: continueHandshake hands it to that handshake's Machine (a
  Machine `mc` / `v` is attached first if the pending handshake has none yet) -/
  | recv2 (via : UNode) (idx : Nat) (mc : Machine.Cfg) (v : Nat) (call : Machine.Ev)

structure Sys where
  node : Node
  insts : List (Nat × Inst) := []     -- pending handshake identity ↦ its Machine
  mlog : List Machine.Ev := []        -- ghost: every call made on any Machine
  fed : List Ev := []                 -- ghost: the manager steps taken

/-- what continueHandshake makes of ProcessPacket's return values -/
def stage2Res (info : Machine.CertId → CertInfo) (s' : Machine.St) : Machine.Outcome → S2Res
  | .err _ => .err s'.failed
  | .ok _ none => .err false                      -- `if result == nil { return }`
  | .ok _ (some r) =>
    match glue info r with
    | some c => .completed c
    | none => .err true                            -- DeleteHostInfo(hostinfo)

def Sys.feed (s : Sys) (e : Ev) : Sys := { s with node := (s.node.step e).1, fed := s.fed ++ [e] }

def isStage : Ev → Bool
  | .stage1 .. => true
  | .stage2 .. => true
  | _ => false

def Sys.step (info : Machine.CertId → CertInfo) (s : Sys) : CEv → Sys
  | .mgr e => if isStage e then s else s.feed e
  | .recv1 via pkt respVer now mc v call =>
    let out := (Machine.stepEv mc { myVersion := v } call).2
    let res : Option Completed := match out with
      | .ok _ (some r) => glue info r
      | _ => none
    { (s.feed (.stage1 via pkt res respVer now)) with mlog := s.mlog ++ [call] }
  | .recv2 via idx mc v call =>
    match (alookup idx s.node.p.pindexes).bind s.node.p.pendingById with
    | none => s
    | some hh =>
      let m : Inst := (alookup hh.id s.insts).getD { cfg := mc, ver := v, hist := [] }
      let r := Machine.stepEv m.cfg m.state call
      let m' : Inst := { m with hist := m.hist ++ [call] }
      { (s.feed (.stage2 via idx (stage2Res info r.1 r.2))) with
        insts := ainsert hh.id m' s.insts, mlog := s.mlog ++ [call] }

def Sys.run (info : Machine.CertId → CertInfo) (s : Sys) (evs : List CEv) : Sys := evs.foldl (Sys.step info) s

def Sys.init (cfg : Cfg) : Sys := { node := Node.init cfg }

/-- a `Completed` event is VERIFIED: its addresses / version are those of a certificate object `cert` that the
trust check returned in a Machine call of the log whose noise read succeeded and whose recombined certificate
carried exactly that read's PeerStatic() (`accepts`, C05) -/
def Verified (info : Machine.CertId → CertInfo) (mlog : List Machine.Ev) (c : Completed) : Prop :=
  ∃ cert, c.certAddrs = (info cert).addrs ∧ c.certVer = (info cert).ver ∧
    ∃ e ∈ mlog, e.accepts cert = true ∧ ∃ key, e.peerStatic = some key

theorem Verified.mono {info : Machine.CertId → CertInfo} {l l' : List Machine.Ev} (h : ∀ e ∈ l, e ∈ l') {c : Completed}
    (v : Verified info l c) : Verified info l' c := by
  obtain ⟨cert, a, b, e, he, x⟩ := v
  exact ⟨cert, a, b, e, h e he, x⟩

/-- C05 applied: a Result returned by a Machine whose history started clean yields a verified `Completed` -/
theorem glue_verified (info : Machine.CertId → CertInfo) (mc : Machine.Cfg) (v : Nat) (hist : List Machine.Ev)
    (call : Machine.Ev) (s' : Machine.St) (sent : Option Machine.Sent) (r : Machine.Result) (c : Completed)
    (h : Machine.stepEv mc (Machine.runState mc { myVersion := v } hist) call = (s', .ok sent (some r)))
    (hg : glue info r = some c) : Verified info (hist ++ [call]) c := by
  -- complete_implies_verified_partial of Props/C05, re-derived from the same lemmas (Props files are not imported)
  have hinv := Machine.certInv_run mc hist { myVersion := v } [] (by intro h0; simp at h0)
  have hstep := Machine.certInv_step mc _ ([] ++ hist) call hinv
  rw [h] at hstep
  have hres : s'.remoteCertSet = true ∧ r.remoteCert = s'.remoteCert ∧ r.remoteKey = s'.remoteKey := by
    cases call with
    | init now wr =>
      simp only [Machine.stepEv, Machine.initiate] at h
      split at h; · simp at h
      split at h; · simp at h
      split at h; · simp at h
      split at h <;> simp at h
    | pkt len st rd co now wr =>
      simp only [Machine.stepEv, Machine.processPacket] at h
      obtain ⟨hc, _, _, hr, _⟩ := Machine.pp_result true mc _ s' len st rd co now wr sent r h
      exact ⟨hc, by rw [hr]; rfl, by rw [hr]; rfl⟩
  obtain ⟨cert, h1, e', h2, h3, h4⟩ := hstep hres.1
  unfold glue at hg
  split at hg; · simp at hg
  rw [hres.2.1, h1] at hg
  simp only [Option.some.injEq] at hg
  subst hg
  exact ⟨cert, rfl, rfl, e', by simpa using h2, h3, s'.remoteKey, h4⟩

end Nebula.HsCompose
