/-
Composition of the handshake-manager model (Model/HsManager.lean, C09/C10) with the handshake.Machine model
(Model/Machine.lean, C05): the manager no longer receives "the Machine's completed result" as an arbitrary input
event — it OWNS Machine instances (one per pending handshake on the initiator side, a fresh one per received
first message on the responder side), feeds them arbitrary packets with arbitrary oracle answers (noise library,
cert.Recombine, trust check, index allocator, clock), and turns what they return into its own steps exactly as
beginHandshake / continueHandshake do:

  * an error                                    -> nothing (responder) / drop the pending handshake if Failed() (initiator)
  * a response without a Result                 -> nothing to complete
  * a Result                                    -> newConnectionStateFromResult (message index below the replay
                                                   window), Result.RemoteCert (must be there), its Networks() and
                                                   Version() -> the `Completed` event of the manager model.

`info` is what a verified certificate object contains (networks, version, fingerprint); it is a function of the
object the trust check returned and nothing else.
-/
import Nebula.Lemmas.HsManagerStep
import Nebula.Lemmas.MachineTrace
import Nebula.Props.C05

namespace Nebula.HsCompose
open Nebula.HsManager Nebula.Lemmas.HsManager

/-- contents of a verified (cached) certificate: Certificate.Networks() addresses, Version(), fingerprint -/
structure CertInfo where
  addrs : List Addr
  ver : Nat
  id : Nat
  deriving Repr

/-- the glue of beginHandshake / continueHandshake: from a Machine Result to the manager's `Completed`.
`none`: newConnectionStateFromResult refuses the message index, or the Result carries no peer certificate. -/
def glue (info : Machine.CertId → CertInfo) (r : Machine.Result) : Option Completed :=
  if r.messageIndex ≥ Nebula.Gen.hsm_ReplayWindow then none else
  match r.remoteCert with
  | none => none
  | some cert =>
    some { certAddrs := (info cert).addrs, certVer := (info cert).ver, remoteIndex := r.remoteIndex,
           time := r.handshakeTime, certId := (info cert).id }

/-- a Machine instance owned by the manager: its configuration, the certificate version it started with, and
every call made on it so far -/
structure Inst where
  cfg : Machine.Cfg
  ver : Nat
  hist : List Machine.Ev

def Inst.state (m : Inst) : Machine.St := Machine.runState m.cfg { myVersion := m.ver } m.hist

/-- one event of the composed system -/
inductive CEv
  /-- anything the manager does without consulting a Machine -/
  | mgr (e : Ev)
  /-- a first handshake message arrives: beginHandshake builds a responder Machine (`mc`, version `v`) and hands
  it the packet; the oracle answers are arbitrary -/
  | recv1 (via : UNode) (pkt : Handle) (respVer now : Nat) (mc : Machine.Cfg) (v : Nat) (call : Machine.Ev)
  /-- a continuation arrives for pending index `idx`: continueHandshake hands it to that handshake's Machine (a
  Machine `mc` / `v` is attached first if the pending handshake has none yet) -/
  | recv2 (via : UNode) (idx : Nat) (mc : Machine.Cfg) (v : Nat) (call : Machine.Ev)

structure Sys where
  node : Node
  insts : List (Nat × Inst) := []     -- pending handshake identity ↦ its Machine
  mlog : List Machine.Ev := []        -- ghost: every call made on any Machine
  fed : List Ev := []                 -- ghost: the manager steps taken

/-- what continueHandshake makes of ProcessPacket's return values -/
def stage2Res (info : Machine.CertId → CertInfo) (s' : Machine.St) : Machine.Outcome → S2Res
  | .err _ => .err s'.failed
  | .ok _ none => .err false                      -- `if result == nil { return }`
  | .ok _ (some r) =>
    match glue info r with
    | some c => .completed c
    | none => .err true                            -- DeleteHostInfo(hostinfo)

/-- what beginHandshake makes of ProcessPacket's return values: only a usable Result goes on -/
def stage1Res (info : Machine.CertId → CertInfo) : Machine.Outcome → Option Completed
  | .ok _ (some r) => glue info r
  | _ => none

def Sys.feed (s : Sys) (e : Ev) : Sys := { s with node := (s.node.step e).1, fed := s.fed ++ [e] }

def isStage : Ev → Bool
  | .stage1 .. => true
  | .stage2 .. => true
  | _ => false

def Sys.step (info : Machine.CertId → CertInfo) (s : Sys) : CEv → Sys
  | .mgr e => if isStage e then s else s.feed e
  | .recv1 via pkt respVer now mc v call =>
    { (s.feed (.stage1 via pkt (stage1Res info (Machine.stepEv mc { myVersion := v } call).2) respVer now)) with
      mlog := s.mlog ++ [call] }
  | .recv2 via idx mc v call =>
    match (alookup idx s.node.p.pindexes).bind s.node.p.pendingById with
    | none => s
    | some hh =>
      let m : Inst := (alookup hh.id s.insts).getD { cfg := mc, ver := v, hist := [] }
      let r := Machine.stepEv m.cfg m.state call
      let m' : Inst := { m with hist := m.hist ++ [call] }
      { (s.feed (.stage2 via idx (stage2Res info r.1 r.2))) with
        insts := ainsert hh.id m' s.insts, mlog := s.mlog ++ [call] }

def Sys.run (info : Machine.CertId → CertInfo) (s : Sys) (evs : List CEv) : Sys := evs.foldl (Sys.step info) s

def Sys.init (cfg : Cfg) : Sys := { node := Node.init cfg }

/-- a `Completed` event is VERIFIED: its addresses / version are those of a certificate object `cert` that the
trust check returned in a Machine call of the log whose noise read succeeded and whose recombined certificate
carried exactly that read's PeerStatic() (`accepts`, C05) -/
def Verified (info : Machine.CertId → CertInfo) (mlog : List Machine.Ev) (c : Completed) : Prop :=
  ∃ cert, c.certAddrs = (info cert).addrs ∧ c.certVer = (info cert).ver ∧
    ∃ e ∈ mlog, e.accepts cert = true ∧ ∃ key, e.peerStatic = some key

theorem Verified.mono {info : Machine.CertId → CertInfo} {l l' : List Machine.Ev} (h : ∀ e ∈ l, e ∈ l') {c : Completed}
    (v : Verified info l c) : Verified info l' c := by
  obtain ⟨cert, a, b, e, he, x⟩ := v
  exact ⟨cert, a, b, e, h e he, x⟩

/-- C05 applied: a Result returned by a Machine whose history started clean yields a verified `Completed` -/
theorem glue_verified (info : Machine.CertId → CertInfo) (mc : Machine.Cfg) (v : Nat) (hist : List Machine.Ev)
    (call : Machine.Ev) (s' : Machine.St) (sent : Option Machine.Sent) (r : Machine.Result) (c : Completed)
    (h : Machine.stepEv mc (Machine.runState mc { myVersion := v } hist) call = (s', .ok sent (some r)))
    (hg : glue info r = some c) : Verified info (hist ++ [call]) c := by
  -- C05: complete_implies_verified_partial
  obtain ⟨cert, h1, e', h2, h3, h4⟩ :=
    Nebula.Props.C05.complete_implies_verified_partial mc { myVersion := v } rfl hist call s' sent r h
  unfold glue at hg
  split at hg; · simp at hg
  rw [h1] at hg
  simp only [Option.some.injEq] at hg
  subst hg
  exact ⟨cert, rfl, rfl, e', h2, h3, r.remoteKey, h4⟩

/-! ### the invariant of composed histories -/

structure CInv (cfg : Cfg) (info : Machine.CertId → CertInfo) (s : Sys) : Prop where
  node : s.node = (Node.init cfg).run s.fed
  hist : ∀ id m, alookup id s.insts = some m → ∀ e ∈ m.hist, e ∈ s.mlog
  ver : ∀ c ∈ comps s.fed, Verified info s.mlog c

theorem run_snoc (n : Node) (evs : List Ev) (e : Ev) : n.run (evs ++ [e]) = ((n.run evs).step e).1 := by
  simp [Node.run, List.foldl_append]

theorem comps_snoc (evs : List Ev) (e : Ev) : comps (evs ++ [e]) = comps evs ++ (completionOf e).toList := by
  simp only [comps, List.filterMap_append, List.filterMap_cons, List.filterMap_nil]
  cases completionOf e <;> simp

theorem CInv.init (cfg : Cfg) (info : Machine.CertId → CertInfo) : CInv cfg info (Sys.init cfg) :=
  ⟨rfl, fun id m h => by simp [Sys.init, alookup] at h, fun c h => by simp [Sys.init, comps] at h⟩

/-- feeding a manager step whose completed result (if any) is verified against the (possibly grown) log -/
theorem CInv.feed {cfg : Cfg} {info : Machine.CertId → CertInfo} {s : Sys} (h : CInv cfg info s) (e : Ev)
    (insts' : List (Nat × Inst)) (mlog' : List Machine.Ev) (hl : ∀ x ∈ s.mlog, x ∈ mlog')
    (hi : ∀ id m, alookup id insts' = some m → ∀ x ∈ m.hist, x ∈ mlog')
    (hv : ∀ c, completionOf e = some c → Verified info mlog' c) :
    CInv cfg info { (s.feed e) with insts := insts', mlog := mlog' } := by
  refine ⟨?_, hi, ?_⟩
  · show (s.node.step e).1 = (Node.init cfg).run (s.fed ++ [e])
    rw [run_snoc, ← h.node]
  · intro c hc
    have hc' : c ∈ comps (s.fed ++ [e]) := hc
    rw [comps_snoc] at hc'
    rcases List.mem_append.mp hc' with h1 | h1
    · exact (h.ver c h1).mono hl
    · cases he : completionOf e with
      | none => simp [he] at h1
      | some c' => simp [he] at h1; rw [h1]; exact hv c' he

theorem step_cinv (cfg : Cfg) (info : Machine.CertId → CertInfo) (s : Sys) (ce : CEv) (h : CInv cfg info s) :
    CInv cfg info (s.step info ce) := by
  cases ce with
  | mgr e =>
    simp only [Sys.step]
    split
    · exact h
    · rename_i hst
      have hn : completionOf e = none := by
        cases e <;> first | rfl | (simp [isStage] at hst)
      have := h.feed e s.insts s.mlog (fun _ hx => hx) h.hist (fun c hc => by rw [hn] at hc; simp at hc)
      exact this
  | recv1 via pkt respVer now mc v call =>
    simp only [Sys.step]
    apply h.feed _ s.insts (s.mlog ++ [call]) (fun x hx => List.mem_append_left _ hx)
      (fun id m hm x hx => List.mem_append_left _ (h.hist id m hm x hx))
    intro c hc
    -- the completed result fed to the manager comes from the fresh Machine's call
    generalize hout : Machine.stepEv mc { myVersion := v } call = out at hc
    obtain ⟨s', o⟩ := out
    cases o with
    | err e => simp [completionOf, stage1Res] at hc
    | ok sent res =>
      cases res with
      | none => simp [completionOf, stage1Res] at hc
      | some r =>
        simp only [completionOf, stage1Res] at hc
        have hg : glue info r = some c := by
          cases hgl : glue info r with
          | none => simp [hgl] at hc
          | some c' => simp [hgl] at hc; rw [hc]
        have := glue_verified info mc v [] call s' sent r c (by simpa [Machine.runState] using hout) hg
        exact this.mono (fun x hx => by simp at hx; simp [hx])
  | recv2 via idx mc v call =>
    simp only [Sys.step]
    split
    · exact h
    · rename_i hh hl
      generalize hm : (alookup hh.id s.insts).getD { cfg := mc, ver := v, hist := [] } = m
      have hsub : ∀ x ∈ m.hist, x ∈ s.mlog := by
        cases hl2 : alookup hh.id s.insts with
        | none => rw [hl2] at hm; simp at hm; subst hm; intro x hx; simp at hx
        | some m0 => rw [hl2] at hm; simp at hm; subst hm; exact h.hist hh.id m0 hl2
      apply h.feed _ _ (s.mlog ++ [call]) (fun x hx => List.mem_append_left _ hx)
      · intro id m1 hm1 x hx
        rw [alookup_ainsert] at hm1
        split at hm1
        · simp only [Option.some.injEq] at hm1
          subst hm1
          rcases List.mem_append.mp hx with h1 | h1
          · exact List.mem_append_left _ (hsub x h1)
          · exact List.mem_append_right _ h1
        · exact List.mem_append_left _ (h.hist id m1 hm1 x hx)
      · intro c hc
        generalize hout : Machine.stepEv m.cfg m.state call = out at hc
        obtain ⟨s', o⟩ := out
        cases o with
        | err e => simp [completionOf, stage2Res] at hc
        | ok sent res =>
          cases res with
          | none => simp [completionOf, stage2Res] at hc
          | some r =>
            cases hgl : glue info r with
            | none => simp [completionOf, stage2Res, hgl] at hc
            | some c' =>
              simp [completionOf, stage2Res, hgl] at hc
              subst hc
              have := glue_verified info m.cfg m.ver m.hist call s' sent r c' (by simpa [Inst.state] using hout) hgl
              exact this.mono (fun x hx => by
                rcases List.mem_append.mp hx with h1 | h1
                · exact List.mem_append_left _ (hsub x h1)
                · exact List.mem_append_right _ h1)

theorem run_cinv (cfg : Cfg) (info : Machine.CertId → CertInfo) (evs : List CEv) (s : Sys) (h : CInv cfg info s) :
    CInv cfg info (s.run info evs) := by
  induction evs generalizing s with
  | nil => exact h
  | cons e es ih => exact ih _ (step_cinv cfg info s e h)

end Nebula.HsCompose
