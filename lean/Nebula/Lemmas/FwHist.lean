/-
Histories of packets, sleeps and reloads (C18, C19): the witness relation, the invariant that ties every
conntrack entry and routine-cache line to a packet that passed, and its preservation by every step.
-/
import Nebula.Lemmas.FwConn
namespace Nebula.Lemmas.Fw
open Nebula.Net Nebula.Fw Nebula.Spec.Fw

/-! ### histories: witnesses and the invariant -/

/-- `w` is an earlier packet of tuple `p` that passed, and no packet of that tuple has been refused by the
rules since (events are newest first: `pre` is what came after `w`). -/
def Witness (evs : List Event) (p : Packet) (w : Event) : Prop :=
  ∃ pre post, evs = pre ++ w :: post ∧ w.pkt = p ∧ w.verdict = .pass
    ∧ ∀ x ∈ pre, x.pkt = p → x.verdict ≠ .noRule

theorem Witness.cons {evs : List Event} {p : Packet} {w : Event} (x : Event) (h : Witness evs p w)
    (hx : x.pkt = p → x.verdict ≠ .noRule) : Witness (x :: evs) p w := by
  obtain ⟨pre, post, he, hp, hv, hall⟩ := h
  refine ⟨x :: pre, post, by simp [he], hp, hv, ?_⟩
  intro y hy
  rcases List.mem_cons.1 hy with h | h
  · subst h; exact hx
  · exact hall y h

theorem Witness.self (evs : List Event) (x : Event) (hv : x.verdict = .pass) : Witness (x :: evs) x.pkt x :=
  ⟨[], evs, rfl, rfl, hv, by simp⟩

theorem Witness.mem {evs : List Event} {p : Packet} {w : Event} (h : Witness evs p w) : w ∈ evs := by
  obtain ⟨pre, post, he, _⟩ := h
  simp [he]

structure Inv (s : Sys) (evs : List Event) : Prop where
  /-- every tracked entry stems from a packet that passed, and carries that packet's time + timeout -/
  conns : ∀ p c, aget samePkt s.ct.conns p = some c →
    ∃ w, Witness evs p w ∧ c.expires = w.time + w.fw.timeoutFor p.proto
  /-- every routine-cache line stems from a packet that passed in the cache's current tick -/
  cache : ∀ p, p ∈ s.ticker.cache →
    s.ticker.period ≠ 0 ∧ ∃ w, Witness evs p w ∧ s.ticker.tickAt w.time = s.ticker.cacheV
  times : ∀ e ∈ evs, e.time ≤ s.now ∧ e.reloads ≤ s.reloads
  /-- C19: entries never carry a version from the future … -/
  verLe : s.fw.rulesVersion < 65536 ∧ ∀ p c, aget samePkt s.ct.conns p = some c → c.rulesVersion ≤ s.fw.rulesVersion
  /-- … an entry stamped with the current version was validated (in its original direction) since the last reload -/
  validated : ∀ p c, aget samePkt s.ct.conns p = some c → c.rulesVersion = s.fw.rulesVersion →
    ∃ w, Witness evs p w ∧ w.reloads = s.reloads
      ∧ (w.fw.table c.incoming).matches p c.incoming w.host.peer = true
  /-- … and `incoming` is the direction of the rule-allowed packet that created the entry -/
  origin : ∀ p c, aget samePkt s.ct.conns p = some c →
    ∃ w, Witness evs p w ∧ w.incoming = c.incoming ∧ w.ruleAllowed = true
  fwSame : ∀ e ∈ evs, e.reloads = s.reloads → e.fw = s.fw

theorem addrCheck_ne_noRule (routable : Lite) (h : Host) (p : Packet) : addrCheck routable h p ≠ some .noRule := by
  unfold addrCheck
  intro hp
  cases hr : remoteCheck h p with
  | some v =>
    simp only [hr, Option.some.injEq] at hp
    subst hp
    unfold remoteCheck at hr
    repeat' split at hr
    all_goals simp_all
  | none =>
    simp only [hr] at hp
    split at hp <;> simp_all

theorem inv_init (fw : Fw) (period : Nat) (hv : fw.rulesVersion < 65536) : Inv (Sys.new fw period) [] := by
  refine ⟨?_, ?_, ?_, ⟨hv, ?_⟩, ?_, ?_, ?_⟩ <;> simp [Sys.new, Conntrack.new, aget]

theorem inv_sleep (s : Sys) (evs : List Event) (d : Nat) (h : Inv s evs) : Inv (s.sleep d) evs := by
  refine ⟨h.conns, h.cache, ?_, h.verLe, h.validated, h.origin, h.fwSame⟩
  intro e he
  have := h.times e he
  simp only [Sys.sleep]
  omega

theorem inv_reload (s : Sys) (evs : List Event) (newFw : Fw) (h : Inv s evs) : Inv (s.reload newFw) evs := by
  unfold Sys.reload
  by_cases hw : (s.fw.rulesVersion + 1) % 65536 = 0
  · simp only [hw, if_true]
    refine ⟨?_, h.cache, ?_, ⟨by simp, ?_⟩, ?_, ?_, ?_⟩
    · simp [Conntrack.new, aget]
    · intro e he; have := h.times e he; simp only; omega
    · simp [Conntrack.new, aget]
    · simp [Conntrack.new, aget]
    · simp [Conntrack.new, aget]
    · intro e he hr
      have := (h.times e he).2
      simp only at hr
      omega
  · simp only [hw, if_false]
    have hlt := h.verLe.1
    have hv : (s.fw.rulesVersion + 1) % 65536 = s.fw.rulesVersion + 1 := by
      apply Nat.mod_eq_of_lt
      by_cases h2 : s.fw.rulesVersion + 1 = 65536
      · rw [h2] at hw; simp at hw
      · omega
    refine ⟨h.conns, h.cache, ?_, ⟨by simp only; omega, ?_⟩, ?_, h.origin, ?_⟩
    · intro e he; have := h.times e he; simp only; omega
    · intro p c hc
      have := h.verLe.2 p c hc
      simp only; omega
    · intro p c hc hcv
      have := h.verLe.2 p c hc
      simp only at hcv
      omega
    · intro e he hr
      have := (h.times e he).2
      simp only at hr
      omega

theorem inv_frame (s s' : Sys) (evs : List Event) (x : Event) (hI : Inv s evs)
    (hx : x.time = s.now ∧ x.reloads = s.reloads ∧ x.fw = s.fw)
    (hs : s'.now = s.now ∧ s'.reloads = s.reloads ∧ s'.fw = s.fw ∧ s'.ticker.period = s.ticker.period
      ∧ s'.ticker.start = s.ticker.start)
    (hother : ∀ q c, q ≠ x.pkt → aget samePkt s'.ct.conns q = some c → aget samePkt s.ct.conns q = some c)
    (hown : ∀ c, aget samePkt s'.ct.conns x.pkt = some c →
      (aget samePkt s.ct.conns x.pkt = some c ∧ x.verdict ≠ .noRule)
      ∨ (x.verdict = .pass ∧ c.expires = s.now + s.fw.timeoutFor x.pkt.proto
          ∧ c.rulesVersion = s.fw.rulesVersion
          ∧ ((s.fw.table c.incoming).matches x.pkt c.incoming x.host.peer = true
              ∨ ∃ c0, aget samePkt s.ct.conns x.pkt = some c0 ∧ c0.incoming = c.incoming
                  ∧ c0.rulesVersion = s.fw.rulesVersion)
          ∧ ((x.incoming = c.incoming ∧ x.ruleAllowed = true)
              ∨ ∃ c0, aget samePkt s.ct.conns x.pkt = some c0 ∧ c0.incoming = c.incoming)))
    (hcache : ∀ q, q ∈ s'.ticker.cache →
      (q ∈ s.ticker.cache ∧ s'.ticker.cacheV = s.ticker.cacheV ∧ (q = x.pkt → x.verdict ≠ .noRule))
      ∨ (q = x.pkt ∧ x.verdict = .pass ∧ s.ticker.period ≠ 0 ∧ s.ticker.tickAt s.now = s'.ticker.cacheV)) :
    Inv s' (x :: evs) := by
  obtain ⟨hxt, hxr, hxf⟩ := hx
  obtain ⟨hsn, hsr, hsf, hsp, hss⟩ := hs
  have htick : ∀ t, s'.ticker.tickAt t = s.ticker.tickAt t := by
    intro t; simp [Ticker.tickAt, hsp, hss]
  refine ⟨?_, ?_, ?_, ⟨?_, ?_⟩, ?_, ?_, ?_⟩
  · -- conns
    intro p c hc
    by_cases hp : p = x.pkt
    · subst hp
      rcases hown c hc with ⟨hold, hnr⟩ | ⟨hv, hexp, _, _, _⟩
      · obtain ⟨w, hw, he⟩ := hI.conns _ c hold
        exact ⟨w, hw.cons x (fun _ => hnr), he⟩
      · exact ⟨x, Witness.self evs x hv, by rw [hexp, hxt, hxf]⟩
    · obtain ⟨w, hw, he⟩ := hI.conns p c (hother p c hp hc)
      exact ⟨w, hw.cons x (fun h => absurd h.symm hp), he⟩
  · -- cache
    intro q hq
    rcases hcache q hq with ⟨hold, hcv, hnr⟩ | ⟨hqp, hv, hper, htk⟩
    · obtain ⟨hper, w, hw, ht⟩ := hI.cache q hold
      refine ⟨by rw [hsp]; exact hper, w, hw.cons x (fun h => hnr h.symm), ?_⟩
      rw [htick, ht, hcv]
    · subst hqp
      refine ⟨by rw [hsp]; exact hper, x, Witness.self evs x hv, ?_⟩
      rw [htick, hxt, htk]
  · -- times
    intro e he
    rcases List.mem_cons.1 he with h | h
    · subst h; omega
    · have := hI.times e h; omega
  · rw [hsf]; exact hI.verLe.1
  · intro p c hc
    rw [hsf]
    by_cases hp : p = x.pkt
    · subst hp
      rcases hown c hc with ⟨hold, _⟩ | ⟨_, _, hver, _, _⟩
      · exact hI.verLe.2 _ c hold
      · omega
    · exact hI.verLe.2 p c (hother p c hp hc)
  · -- validated
    intro p c hc hcv
    rw [hsf] at hcv
    rw [hsr]
    by_cases hp : p = x.pkt
    · subst hp
      rcases hown c hc with ⟨hold, hnr⟩ | ⟨hv, _, _, hm, _⟩
      · obtain ⟨w, hw, hr, hm⟩ := hI.validated _ c hold hcv
        exact ⟨w, hw.cons x (fun _ => hnr), hr, hm⟩
      · rcases hm with hm | ⟨c0, hc0, hi0, hv0⟩
        · exact ⟨x, Witness.self evs x hv, hxr, by rw [hxf]; exact hm⟩
        · obtain ⟨w, hw, hr, hm⟩ := hI.validated _ c0 hc0 hv0
          exact ⟨w, hw.cons x (fun _ => by rw [hv]; simp), hr, by rw [← hi0]; exact hm⟩
    · obtain ⟨w, hw, hr, hm⟩ := hI.validated p c (hother p c hp hc) hcv
      exact ⟨w, hw.cons x (fun h => absurd h.symm hp), hr, hm⟩
  · -- origin
    intro p c hc
    by_cases hp : p = x.pkt
    · subst hp
      rcases hown c hc with ⟨hold, hnr⟩ | ⟨hv, _, _, _, horg⟩
      · obtain ⟨w, hw, hi, ha⟩ := hI.origin _ c hold
        exact ⟨w, hw.cons x (fun _ => hnr), hi, ha⟩
      · rcases horg with ⟨hi, ha⟩ | ⟨c0, hc0, hi0⟩
        · exact ⟨x, Witness.self evs x hv, hi, ha⟩
        · obtain ⟨w, hw, hi, ha⟩ := hI.origin _ c0 hc0
          exact ⟨w, hw.cons x (fun _ => by rw [hv]; simp), hi.trans hi0, ha⟩
    · obtain ⟨w, hw, hi, ha⟩ := hI.origin p c (hother p c hp hc)
      exact ⟨w, hw.cons x (fun h => absurd h.symm hp), hi, ha⟩
  · -- fwSame
    intro e he hr
    rw [hsf]
    rcases List.mem_cons.1 he with h | h
    · subst h; exact hxf
    · exact hI.fwSame e h (by rw [hr, hsr])


theorem get_facts (t : Ticker) (now : Nat) :
    (t.period = 0 ∧ t.get now = (t, none)) ∨
    (t.period ≠ 0 ∧ ∃ t1, t.get now = (t1, some t1.cache) ∧ t1.period = t.period ∧ t1.start = t.start
      ∧ t1.cacheV = t.tickAt now ∧ (∀ q ∈ t1.cache, q ∈ t.cache ∧ t.cacheV = t.tickAt now)) := by
  unfold Ticker.get
  by_cases hp : t.period = 0
  · left; simp [hp]
  · right
    refine ⟨hp, ?_⟩
    simp only [hp, if_false]
    by_cases hv : t.tickAt now = t.cacheV
    · refine ⟨t, by simp [hv], rfl, rfl, hv.symm, ?_⟩
      intro q hq; exact ⟨hq, hv.symm⟩
    · refine ⟨{ t with cacheV := t.tickAt now, cache := [] }, by simp [hv], rfl, rfl, rfl, ?_⟩
      intro q hq; simp at hq

/-- how `inConns` leaves the routine cache. -/
theorem inConns_cache (fw : Fw) (ct : Conntrack) (now : Nat) (cache : Cache) (p : Packet) (pr : Peer) :
    (inConns fw ct now cache p pr).2.2
      = if (inConns fw ct now cache p pr).1 = true ∧ cache.has p = false then cache.put p else cache := by
  unfold inConns
  by_cases hc : cache.has p = true
  · simp [hc]
  · simp only [hc, Bool.false_eq_true, if_false]
    have hc' : cache.has p = false := by simpa using hc
    cases aget samePkt (purgeStep ct now).conns p with
    | none => simp
    | some c =>
      simp only
      split
      · simp
      · split
        · simp
        · simp [hc']

theorem mem_put (l : List Packet) (p q : Packet) (l' : List Packet)
    (h : Cache.put (some l) p = some l') (hq : q ∈ l') : q ∈ l ∨ q = p := by
  unfold Cache.put at h
  simp only at h
  split at h
  · cases h; exact Or.inl hq
  · cases h
    rcases List.mem_cons.1 hq with h | h
    · exact Or.inr h
    · exact Or.inl h


theorem has_some (l : List Packet) (q : Packet) : Cache.has (some l) q = true ↔ q ∈ l := by
  simp [Cache.has]

/-- the routine's cache after `Get` and a `Drop` that did (`usePut`) or did not add the packet's tuple. -/
theorem ticker_after (t : Ticker) (now : Nat) (p : Packet) (usePut : Bool) :
    ((t.get now).1.store (if usePut then (t.get now).2.put p else (t.get now).2)).period = t.period
    ∧ ((t.get now).1.store (if usePut then (t.get now).2.put p else (t.get now).2)).start = t.start
    ∧ (∀ q, (t.get now).2.has q = true → q ∈ t.cache ∧ t.cacheV = t.tickAt now ∧ t.period ≠ 0)
    ∧ (∀ q ∈ ((t.get now).1.store (if usePut then (t.get now).2.put p else (t.get now).2)).cache,
        (q ∈ t.cache
          ∧ ((t.get now).1.store (if usePut then (t.get now).2.put p else (t.get now).2)).cacheV = t.cacheV
          ∧ (t.period ≠ 0 → (t.get now).2.has q = true))
        ∨ (usePut = true ∧ q = p ∧ t.period ≠ 0
          ∧ t.tickAt now = ((t.get now).1.store (if usePut then (t.get now).2.put p else (t.get now).2)).cacheV)) := by
  rcases get_facts t now with ⟨hp0, hg⟩ | ⟨hp, t1, hg, h1p, h1s, h1v, h1c⟩
  · rw [hg]
    have : (if usePut = true then Cache.put none p else (none : Cache)) = none := by cases usePut <;> rfl
    simp only [this, Ticker.store]
    refine ⟨trivial, trivial, ?_, ?_⟩
    · intro q hq; simp [Cache.has] at hq
    · intro q hq; exact Or.inl ⟨hq, trivial, fun h => absurd hp0 h⟩
  · rw [hg]
    simp only
    refine ⟨?_, ?_, ?_, ?_⟩
    · cases usePut
      · simpa [Ticker.store] using h1p
      · simp only [if_true, Cache.put]; split <;> simpa [Ticker.store] using h1p
    · cases usePut
      · simpa [Ticker.store] using h1s
      · simp only [if_true, Cache.put]; split <;> simpa [Ticker.store] using h1s
    · intro q hq
      have := h1c q ((has_some _ _).1 hq)
      exact ⟨this.1, this.2, hp⟩
    · intro q hq
      cases usePut
      · simp only [Bool.false_eq_true, if_false, Ticker.store] at hq ⊢
        have := h1c q hq
        left
        exact ⟨this.1, by rw [h1v, this.2], fun _ => (has_some _ _).2 hq⟩
      · simp only [if_true] at hq ⊢
        cases hput : Cache.put (some t1.cache) p with
        | none => simp [Cache.put] at hput; split at hput <;> cases hput
        | some l' =>
          rw [hput] at hq
          simp only [Ticker.store] at hq ⊢
          rcases mem_put t1.cache p q l' hput hq with h | h
          · have := h1c q h
            left
            exact ⟨this.1, by rw [h1v, this.2], fun _ => (has_some _ _).2 h⟩
          · right
            exact ⟨trivial, h, hp, h1v.symm⟩


/-- everything `Drop` can do, as five cases. -/
theorem drop_summary (fw : Fw) (ct : Conntrack) (now : Nat) (cache : Cache) (p : Packet) (incoming : Bool)
    (h : HostInfo) :
    let r := drop fw ct now cache p incoming h
    -- (A) an address check objects: nothing changes
    (r.1 ≠ .pass ∧ r.1 ≠ .noRule ∧ r.2.1 = ct ∧ r.2.2 = cache)
    -- (B1) routine-cache hit: pass, nothing changes
    ∨ (cache.has p = true ∧ r.1 = .pass ∧ r.2.1 = ct ∧ r.2.2 = cache)
    -- (B2) conntrack hit: the entry is live and valid; it is refreshed, the tuple enters the cache
    ∨ (cache.has p = false ∧ r.1 = .pass ∧ r.2.2 = cache.put p
        ∧ (∃ c, aget samePkt ct.conns p = some c ∧ now < c.expires
            ∧ (c.rulesVersion = fw.rulesVersion ∨ (fw.table c.incoming).matches p c.incoming h.peer = true)
            ∧ aget samePkt r.2.1.conns p = some { expires := now + fw.timeoutFor p.proto, incoming := c.incoming,
                                                  rulesVersion := fw.rulesVersion })
        ∧ (∀ q c, q ≠ p → aget samePkt r.2.1.conns q = some c → aget samePkt ct.conns q = some c))
    -- (B3) no usable entry, a rule allows: a fresh entry
    ∨ (cache.has p = false ∧ r.1 = .pass ∧ r.2.2 = cache
        ∧ (fw.table incoming).matches p incoming h.peer = true
        ∧ aget samePkt r.2.1.conns p = some { expires := now + fw.timeoutFor p.proto, incoming := incoming,
                                              rulesVersion := fw.rulesVersion }
        ∧ (∀ q c, q ≠ p → aget samePkt r.2.1.conns q = some c → aget samePkt ct.conns q = some c))
    -- (B4) no usable entry, no rule: refused, and no entry afterwards
    ∨ (cache.has p = false ∧ r.1 = .noRule ∧ r.2.2 = cache
        ∧ (fw.table incoming).matches p incoming h.peer = false
        ∧ aget samePkt r.2.1.conns p = none
        ∧ (∀ q c, q ≠ p → aget samePkt r.2.1.conns q = some c → aget samePkt ct.conns q = some c)) := by
  intro r
  have hr : r = drop fw ct now cache p incoming h := rfl
  rw [drop_eq] at hr
  cases hac : addrCheck fw.routable h.host p with
  | some v =>
    left
    simp only [hac] at hr
    rw [hr]
    refine ⟨?_, ?_, rfl, rfl⟩
    · intro hv; exact addrCheck_ne_pass fw.routable h.host p (by rw [hac]; simp at hv; rw [hv])
    · intro hv; exact addrCheck_ne_noRule fw.routable h.host p (by rw [hac]; simp at hv; rw [hv])
  | none =>
    right
    simp only [hac] at hr
    by_cases hc : cache.has p = true
    · left
      have : inConns fw ct now cache p h.peer = (true, ct, cache) := by simp [inConns, hc]
      rw [this] at hr
      simp only [if_true] at hr
      rw [hr]
      exact ⟨hc, rfl, rfl, rfl⟩
    · right
      have hc' : cache.has p = false := by simpa using hc
      have hcache := inConns_cache fw ct now cache p h.peer
      have hoth := fun q c (hq : q ≠ p) => inConns_other fw ct now cache p q h.peer c hq
      rcases inConns_entry fw ct now cache p h.peer hc' with ⟨c, hcc, hlive, hval, hhit, hent⟩ | ⟨hmiss, hnone, hcsame, hno⟩
      · left
        simp only [hhit, if_true] at hr
        rw [hr]
        refine ⟨hc', rfl, ?_, ⟨c, hcc, hlive, hval, hent⟩, hoth⟩
        simp only [hcache, hhit, hc', and_self, if_true]
      · right
        simp only [hmiss, Bool.false_eq_true, if_false] at hr
        cases hm : (fw.table incoming).matches p incoming h.peer
        · right
          simp only [hm, Bool.false_eq_true, if_false] at hr
          rw [hr]
          exact ⟨hc', rfl, hcsame, rfl, hnone, hoth⟩
        · left
          simp only [hm, if_true] at hr
          rw [hr]
          refine ⟨hc', rfl, hcsame, rfl, addConn_entry fw _ now p incoming, ?_⟩
          intro q c hq hqc
          rw [addConn_other fw _ now p q incoming hq] at hqc
          exact hoth q c hq hqc


/-- the event a packet step records. -/
def evOf (s : Sys) (p : Packet) (incoming : Bool) (h : HostInfo) : Event :=
  { time := s.now, pkt := p, incoming := incoming, host := h, verdict := (s.packet p incoming h).1, fw := s.fw,
    reloads := s.reloads }

theorem step_packet (s : Sys) (p : Packet) (incoming : Bool) (h : HostInfo) :
    s.step (.packet p incoming h) = ((s.packet p incoming h).2, some (evOf s p incoming h)) := rfl

/-- the whole packet step: the invariant is kept, and a pass that no rule of the packet's direction allows is
backed by a witness that is fresh (C18) and valid under the current rules (C19). -/
theorem packet_step (s : Sys) (evs : List Event) (p : Packet) (incoming : Bool) (h : HostInfo) (hI : Inv s evs) :
    Inv (s.packet p incoming h).2 (evOf s p incoming h :: evs)
    ∧ ((s.packet p incoming h).1 = .pass → (s.fw.table incoming).matches p incoming h.peer = false →
        ∃ w, Witness evs p w ∧ w.time ≤ s.now
          ∧ (s.now - w.time < w.fw.timeoutFor p.proto
              ∨ (s.ticker.period ≠ 0 ∧ s.ticker.tickAt w.time = s.ticker.tickAt s.now)))
    ∧ ((s.packet p incoming h).1 = .pass → (s.fw.table incoming).matches p incoming h.peer = false →
        s.ticker.period = 0 →
        ∃ c, aget samePkt s.ct.conns p = some c
          ∧ ((s.fw.table c.incoming).matches p c.incoming h.peer = true
              ∨ ∃ w, Witness evs p w ∧ w.reloads = s.reloads ∧ w.fw = s.fw
                  ∧ (s.fw.table c.incoming).matches p c.incoming w.host.peer = true)) := by
  have hsum := drop_summary s.fw s.ct s.now (s.ticker.get s.now).2 p incoming h
  simp only at hsum
  have hpk : s.packet p incoming h =
      ((drop s.fw s.ct s.now (s.ticker.get s.now).2 p incoming h).1,
       { s with ct := (drop s.fw s.ct s.now (s.ticker.get s.now).2 p incoming h).2.1,
                ticker := (s.ticker.get s.now).1.store (drop s.fw s.ct s.now (s.ticker.get s.now).2 p incoming h).2.2 }) := rfl
  generalize hr : drop s.fw s.ct s.now (s.ticker.get s.now).2 p incoming h = r at hsum hpk
  have hxv : (evOf s p incoming h).verdict = r.1 := by simp [evOf, hpk]
  have hxp : (evOf s p incoming h).pkt = p := rfl
  -- the frame, given which cache was stored
  have frame : ∀ (usePut : Bool),
      r.2.2 = (if usePut then (s.ticker.get s.now).2.put p else (s.ticker.get s.now).2) →
      (usePut = true → r.1 = .pass) →
      (r.1 = .noRule → ∀ q, (s.ticker.get s.now).2.has q = true → q ≠ p) →
      (∀ q c, q ≠ p → aget samePkt r.2.1.conns q = some c → aget samePkt s.ct.conns q = some c) →
      (∀ c, aget samePkt r.2.1.conns p = some c →
        (aget samePkt s.ct.conns p = some c ∧ r.1 ≠ .noRule)
        ∨ (r.1 = .pass ∧ c.expires = s.now + s.fw.timeoutFor p.proto ∧ c.rulesVersion = s.fw.rulesVersion
            ∧ ((s.fw.table c.incoming).matches p c.incoming h.peer = true
                ∨ ∃ c0, aget samePkt s.ct.conns p = some c0 ∧ c0.incoming = c.incoming
                    ∧ c0.rulesVersion = s.fw.rulesVersion)
            ∧ ((incoming = c.incoming ∧ (s.fw.table incoming).matches p incoming h.peer = true)
                ∨ ∃ c0, aget samePkt s.ct.conns p = some c0 ∧ c0.incoming = c.incoming))) →
      Inv (s.packet p incoming h).2 (evOf s p incoming h :: evs) := by
    intro usePut hcache hputpass hnr hother hown
    have hta := ticker_after s.ticker s.now p usePut
    rw [← hcache] at hta
    obtain ⟨htp, hts, hthas, htmem⟩ := hta
    apply inv_frame s _ evs _ hI ⟨rfl, rfl, rfl⟩
    · rw [hpk]; exact ⟨rfl, rfl, rfl, htp, hts⟩
    · intro q c hq hc; rw [hpk] at hc; exact hother q c hq hc
    · intro c hc
      rw [hpk] at hc
      rw [hxv]
      exact hown c hc
    · intro q hq
      rw [hpk] at hq ⊢
      rcases htmem q hq with ⟨hold, hcv, hhas⟩ | ⟨hu, hqp, hper, htk⟩
      · left
        refine ⟨hold, hcv, ?_⟩
        intro hqp
        rw [hxv]
        intro hno
        exact hnr hno q (hhas (hI.cache q hold).1) hqp
      · right
        exact ⟨hqp, by rw [hxv]; exact hputpass hu, hper, htk⟩
  -- the cases of Drop
  rcases hsum with ⟨hnp, hnn, hct, hca⟩ | ⟨hhas, hpass, hct, hca⟩ | ⟨hhas, hpass, hca, ⟨c, hc, hlive, hval, hent⟩, hoth⟩
      | ⟨hhas, hpass, hca, hm, hent, hoth⟩ | ⟨hhas, hno, hca, hm, hent, hoth⟩
  · -- (A) address check
    refine ⟨?_, ?_, ?_⟩
    · apply frame false (by simpa using hca) (by simp) (fun h => absurd h hnn)
      · intro q c _ hc; rw [hct] at hc; exact hc
      · intro c hc; rw [hct] at hc; exact Or.inl ⟨hc, hnn⟩
    · intro hp; rw [hpk] at hp; exact absurd hp hnp
    · intro hp; rw [hpk] at hp; exact absurd hp hnp
  · -- (B1) routine-cache hit
    obtain ⟨hold, hcv, hper⟩ := (ticker_after s.ticker s.now p false).2.2.1 p hhas
    refine ⟨?_, ?_, ?_⟩
    · apply frame false (by simpa using hca) (by simp) (fun h => by rw [hpass] at h; cases h)
      · intro q c _ hc; rw [hct] at hc; exact hc
      · intro c hc; rw [hct] at hc; exact Or.inl ⟨hc, by rw [hpass]; simp⟩
    · intro _ _
      obtain ⟨_, w, hw, ht⟩ := hI.cache p hold
      exact ⟨w, hw, (hI.times w hw.mem).1, Or.inr ⟨hper, by rw [ht, hcv]⟩⟩
    · intro _ _ hp0; exact absurd hp0 hper
  · -- (B2) conntrack hit
    refine ⟨?_, ?_, ?_⟩
    · apply frame true (by simpa using hca) (fun _ => hpass) (fun h => by rw [hpass] at h; cases h) hoth
      intro c' hc'
      rw [hent] at hc'
      cases hc'
      right
      refine ⟨hpass, rfl, rfl, ?_, Or.inr ⟨c, hc, rfl⟩⟩
      rcases hval with hv | hm
      · exact Or.inr ⟨c, hc, rfl, hv⟩
      · exact Or.inl hm
    · intro _ _
      obtain ⟨w, hw, he⟩ := hI.conns p c hc
      refine ⟨w, hw, (hI.times w hw.mem).1, Or.inl ?_⟩
      have := (hI.times w hw.mem).1
      omega
    · intro _ _ _
      refine ⟨c, hc, ?_⟩
      rcases hval with hv | hm
      · obtain ⟨w, hw, hwr, hwm⟩ := hI.validated p c hc hv
        have hf := hI.fwSame w hw.mem hwr
        right
        exact ⟨w, hw, hwr, hf, by rw [← hf]; exact hwm⟩
      · exact Or.inl hm
  · -- (B3) a rule allows
    refine ⟨?_, ?_, ?_⟩
    · apply frame false (by simpa using hca) (by simp) (fun h => by rw [hpass] at h; cases h) hoth
      intro c' hc'
      rw [hent] at hc'
      cases hc'
      right
      exact ⟨hpass, rfl, rfl, Or.inl hm, Or.inl ⟨rfl, hm⟩⟩
    · intro _ hno; rw [hm] at hno; cases hno
    · intro _ hno; rw [hm] at hno; cases hno
  · -- (B4) refused
    refine ⟨?_, ?_, ?_⟩
    · apply frame false (by simpa using hca) (by simp) ?_ hoth
      · intro c' hc'; rw [hent] at hc'; cases hc'
      · intro _ q hq hqp; rw [hqp, hhas] at hq; cases hq
    · intro hp; rw [hpk, hno] at hp; cases hp
    · intro hp; rw [hpk, hno] at hp; cases hp


/-- C19 at one step (routine cache off): a pass that no rule of the packet's direction allows goes through an
entry whose original direction `d` (that of the rule-allowed packet `o` that created it) is allowed by the
*current* rules — checked now, or checked for an earlier packet `w` of the flow since the last reload. -/
theorem packet_revalidated (s : Sys) (evs : List Event) (p : Packet) (incoming : Bool) (h : HostInfo)
    (hI : Inv s evs) (hpass : (s.packet p incoming h).1 = .pass)
    (hno : (s.fw.table incoming).matches p incoming h.peer = false) (hp0 : s.ticker.period = 0) :
    ∃ d o, Witness evs p o ∧ o.incoming = d ∧ o.ruleAllowed = true
      ∧ ((s.fw.table d).matches p d h.peer = true
          ∨ ∃ w, Witness evs p w ∧ w.reloads = s.reloads ∧ w.fw = s.fw
              ∧ (s.fw.table d).matches p d w.host.peer = true) := by
  obtain ⟨c, hc, hval⟩ := (packet_step s evs p incoming h hI).2.2 hpass hno hp0
  obtain ⟨o, ho, hoi, hoa⟩ := hI.origin p c hc
  exact ⟨c.incoming, o, ho, hoi, hoa, hval⟩

/-- `Drop` passes a packet whose tuple has a live entry that is valid under the current rules. -/
theorem drop_valid_entry (fw : Fw) (ct : Conntrack) (now : Nat) (cache : Cache) (p : Packet)
    (incoming : Bool) (h : HostInfo) (c : Conn)
    (hc : aget samePkt ct.conns p = some c) (hlive : now < c.expires)
    (hv : c.rulesVersion = fw.rulesVersion ∨ (fw.table c.incoming).matches p c.incoming h.peer = true)
    (haddr : addrCheck fw.routable h.host p = none) :
    (drop fw ct now cache p incoming h).1 = .pass := by
  rw [drop_eq]
  simp only [haddr]
  by_cases hcache : cache.has p = true
  · simp [inConns, hcache]
  · have hcache' : cache.has p = false := by simpa using hcache
    rcases inConns_entry fw ct now cache p h.peer hcache' with ⟨_, _, _, _, hhit, _⟩ | ⟨_, _, _, hno⟩
    · simp [hhit]
    · exact absurd ⟨hlive, hv⟩ (hno c hc)

/-! ### whole histories -/

theorem inv_step (s : Sys) (evs : List Event) (op : Op) (hI : Inv s evs) :
    Inv (s.step op).1 ((s.step op).2.toList ++ evs) := by
  cases op with
  | sleep d => exact inv_sleep s evs d hI
  | packet p incoming h => exact (packet_step s evs p incoming h hI).1
  | reload newFw => exact inv_reload s evs newFw hI

/-- the routine's ticker keeps its period and start through every step. -/
theorem step_ticker (s : Sys) (op : Op) :
    (s.step op).1.ticker.period = s.ticker.period ∧ (s.step op).1.ticker.start = s.ticker.start := by
  cases op with
  | sleep d => exact ⟨rfl, rfl⟩
  | reload f =>
    simp only [Sys.step, Sys.reload]
    split <;> exact ⟨rfl, rfl⟩
  | packet p incoming h =>
    have hc := inConns_cache s.fw s.ct s.now (s.ticker.get s.now).2 p h.peer
    have hd := drop_eq s.fw s.ct s.now (s.ticker.get s.now).2 p incoming h
    -- whatever `Drop` returns as cache is the offered cache or that cache with the tuple put in
    have hcases : (drop s.fw s.ct s.now (s.ticker.get s.now).2 p incoming h).2.2 = (s.ticker.get s.now).2
        ∨ (drop s.fw s.ct s.now (s.ticker.get s.now).2 p incoming h).2.2 = (s.ticker.get s.now).2.put p := by
      rw [hd]
      cases addrCheck s.fw.routable h.host p with
      | some v => exact Or.inl rfl
      | none =>
        simp only
        have : (inConns s.fw s.ct s.now (s.ticker.get s.now).2 p h.peer).2.2 = (s.ticker.get s.now).2
            ∨ (inConns s.fw s.ct s.now (s.ticker.get s.now).2 p h.peer).2.2 = (s.ticker.get s.now).2.put p := by
          rw [hc]; split
          · exact Or.inr rfl
          · exact Or.inl rfl
        split
        · exact this
        · split <;> exact this
    simp only [Sys.step, Sys.packet]
    rcases hcases with h1 | h1
    · have := ticker_after s.ticker s.now p false
      simp only [Bool.false_eq_true, if_false] at this
      rw [h1]; exact ⟨this.1, this.2.1⟩
    · have := ticker_after s.ticker s.now p true
      simp only [if_true] at this
      rw [h1]; exact ⟨this.1, this.2.1⟩

/-- If every step from a state satisfying the invariant records only events with property `P` (relative to the
events before them), every event of every history has `P` relative to the events before it. -/
theorem runFrom_all (P : List Event → Event → Prop) (period : Nat)
    (hstep : ∀ s evs op, Inv s evs → s.ticker.period = period → s.ticker.start = 0 →
      ∀ x, (s.step op).2 = some x → P evs x) :
    ∀ (ops : List Op) (s : Sys) (evs : List Event), Inv s evs → s.ticker.period = period → s.ticker.start = 0 →
      (∀ pre e post, evs = pre ++ e :: post → P post e) →
      ∀ pre e post, (Sys.runFrom (s, evs) ops).2 = pre ++ e :: post → P post e := by
  intro ops
  induction ops with
  | nil => intro s evs _ _ _ hgood; simpa [Sys.runFrom] using hgood
  | cons op ops ih =>
    intro s evs hI hper hstart hgood
    simp only [Sys.runFrom]
    apply ih _ _ (inv_step s evs op hI) ((step_ticker s op).1.trans hper) ((step_ticker s op).2.trans hstart)
    intro pre e post hsplit
    cases hx : (s.step op).2 with
    | none =>
      rw [hx] at hsplit
      exact hgood pre e post (by simpa using hsplit)
    | some x =>
      rw [hx] at hsplit
      simp only [Option.toList_some, List.singleton_append] at hsplit
      cases pre with
      | nil =>
        simp only [List.nil_append, List.cons.injEq] at hsplit
        obtain ⟨h1, h2⟩ := hsplit
        subst h1; subst h2
        exact hstep s evs op hI hper hstart x hx
      | cons y pre' =>
        simp only [List.cons_append, List.cons.injEq] at hsplit
        exact hgood pre' e post hsplit.2

theorem run_all (P : List Event → Event → Prop) (period : Nat)
    (hstep : ∀ s evs op, Inv s evs → s.ticker.period = period → s.ticker.start = 0 →
      ∀ x, (s.step op).2 = some x → P evs x)
    (fw : Fw) (hv : fw.rulesVersion < 65536) (ops : List Op) :
    ∀ pre e post, ((Sys.new fw period).run ops).2 = pre ++ e :: post → P post e := by
  apply runFrom_all P period hstep ops _ [] (inv_init fw period hv) rfl rfl
  intro pre e post h
  simp at h

end Nebula.Lemmas.Fw
