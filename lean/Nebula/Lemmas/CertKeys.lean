/-
Helper lemma for C43: exact success condition of the decryption of a decoded `RawNebulaEncryptedData`.
-/
import Nebula.Model.CertKeys

namespace Nebula.Lemmas.CertKeys
open Nebula.CertKeys

theorem decryptMsg_ok_iff (K : KeyCrypto) (pass : Bytes) (curve : Nat) (d : EncData) (c : Nat) (k : Bytes) :
    decryptMsg K pass curve d = .ok (c, k) ↔
      c = curve ∧ ∃ md a, d.metadata = some md ∧ md.argon = some a ∧ checkArgon a = none ∧ md.algorithm = algAES ∧
        a.version = argonVersion ∧ 16 ≤ a.salt.length ∧ nonceSize < d.ciphertext.length ∧
        K.aeadOpen (K.kdf pass a) (d.ciphertext.take nonceSize) (d.ciphertext.drop nonceSize) = some k ∧
        keyLengthOK curve k = true := by
  constructor
  · intro h
    unfold decryptMsg at h
    cases hm : d.metadata with
    | none => rw [hm] at h; cases h
    | some md =>
      rw [hm] at h; simp only at h
      cases ha : md.argon with
      | none => rw [ha] at h; cases h
      | some a =>
        rw [ha] at h; simp only at h
        cases hc : checkArgon a with
        | some e => rw [hc] at h; cases h
        | none =>
          rw [hc] at h; simp only at h
          repeat' split at h
          all_goals try (cases h; done)
          all_goals
            simp only [Except.ok.injEq, Prod.mk.injEq] at h
            obtain ⟨rfl, rfl⟩ := h
            refine ⟨rfl, md, a, rfl, ha, hc, ?_, ?_, ?_, ?_, ?_, ?_⟩ <;>
              first | assumption | omega | exact Classical.not_not.mp (by assumption)
  · rintro ⟨rfl, md, a, hm, ha, hc, h1, h2, h6, h7, ho, hk⟩
    unfold decryptMsg
    rw [hm]; simp only
    rw [ha]; simp only
    rw [hc]; simp only
    have h3 : ¬ a.salt.length < 16 := by omega
    have h4 : ¬ d.ciphertext.length ≤ nonceSize := by omega
    have h5 : ¬ a.salt.length = 0 := by omega
    simp only [h1, h2, h3, h4, h5, ne_eq, not_true_eq_false, if_false]
    rw [ho]; simp only
    rw [hk]; simp

theorem take_drop_nonce (nonce ct : Bytes) (h : nonce.length = nonceSize) :
    (nonce ++ ct).take nonceSize = nonce ∧ (nonce ++ ct).drop nonceSize = ct := by
  rw [← h]; simp

/-! Concrete data for the non-vacuity examples of `Props/C43.lean`. -/

def toyCrypto : LawfulKeyCrypto where
  kdf p _ := p
  aeadSeal _ _ m := m ++ List.replicate 16 0
  aeadOpen _ _ c := if 16 ≤ c.length then some (c.take (c.length - 16)) else none
  open_of_seal := by intro k n m; simp
  seal_length := by intro k n m; simp

def toyKey : Bytes := List.replicate 32 7
def toyNonce : Bytes := List.replicate 12 9
def toyArgon : Argon := { version := 0x13, memory := 8, parallelism := 1, iterations := 1, salt := List.replicate 16 5 }
def toyBody : Bytes :=
  encEncData { metadata := some { algorithm := algAES, argon := some toyArgon },
               ciphertext := toyNonce ++ toyCrypto.aeadSeal [1] toyNonce toyKey }

end Nebula.Lemmas.CertKeys
