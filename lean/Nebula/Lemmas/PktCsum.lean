/-
Checksum lemmas for C21: nebula's `tcpipChecksum` (uint32 accumulation, fold loop, complement) computes
the RFC 1071 checksum of `Spec/PktCsum.lean`, and a region whose checksum field was filled by it verifies.
-/
import Nebula.Model.Reject
import Nebula.Spec.PktCsum

namespace Nebula.Lemmas.PktCsum
open Nebula.Reject Nebula.Spec.PktCsum

theorem sum16_le (d : List UInt8) : sum16 d ≤ 65536 * d.length := by
  induction d using sum16.induct with
  | case1 => simp [sum16]
  | case2 a => have := a.toNat_lt; simp [sum16]; omega
  | case3 a b rest ih =>
    have := a.toNat_lt; have := b.toNat_lt
    simp only [sum16, List.length_cons]; omega

theorem sumLoop_eq (d : List UInt8) : ∀ c, c + sum16 d < 4294967296 → sumLoop d c = c + sum16 d := by
  induction d using sum16.induct with
  | case1 => intro c _; simp [sumLoop, sum16]
  | case2 a => intro c h; simp only [sum16] at h; simp only [sumLoop, sum16, u32]; omega
  | case3 a b rest ih =>
    intro c h
    simp only [sum16] at h
    have h1 : u32 (u32 (c + a.toNat * 256) + b.toNat) = c + a.toNat * 256 + b.toNat := by
      simp only [u32]; omega
    simp only [sumLoop, sum16, h1]
    rw [ih _ (by omega)]; omega

theorem fold16_le (x : Nat) : fold16 x ≤ 65535 := by
  simp only [fold16]; split <;> omega

theorem fold_step (x : Nat) (h : x > 0xffff) : fold16 (x / 65536 + x % 65536) = fold16 x := by
  simp only [fold16]
  split <;> split <;> omega

theorem foldLoop_eq (x : Nat) (h : x < 4294967296) : foldLoop 3 x = fold16 x := by
  have e1 : ∀ c, (c >>> 16) + (c &&& 0xffff) = c / 65536 + c % 65536 := by
    intro c
    rw [Nat.shiftRight_eq_div_pow, show (0xffff : Nat) = 2 ^ 16 - 1 by decide, Nat.and_two_pow_sub_one_eq_mod]
  have small : ∀ c, ¬ c > 0xffff → c = fold16 c := by
    intro c hc; simp only [fold16]; split <;> omega
  simp only [foldLoop, e1]
  split
  · rename_i h1
    rw [← fold_step x h1]
    split
    · rename_i h2
      rw [← fold_step _ h2]
      split
      · omega
      · exact small _ (by assumption)
    · exact small _ (by assumption)
  · exact small _ (by assumption)

theorem tcpipChecksum_eq (d : List UInt8) (init : Nat) (h : init + sum16 d < 4294967296) :
    tcpipChecksum d init = 0xffff - fold16 (sum16 d + init) := by
  have hf := fold16_le (init + sum16 d)
  simp only [tcpipChecksum, sumLoop_eq d init h, foldLoop_eq _ h]
  rw [Nat.add_comm (sum16 d) init]; omega

theorem sum16_append_even (a b : List UInt8) (h : a.length % 2 = 0) : sum16 (a ++ b) = sum16 a + sum16 b := by
  induction a using sum16.induct with
  | case1 => simp [sum16]
  | case2 a => simp at h
  | case3 x y rest ih =>
    simp only [List.length_cons] at h
    simp only [List.cons_append, sum16, ih (by omega)]; omega

theorem put16_sum (c : Nat) (post : List UInt8) (h : c < 65536) : sum16 (put16 c ++ post) = c + sum16 post := by
  simp only [put16, List.cons_append, List.nil_append, sum16, UInt8.toNat_ofNat']
  omega

theorem fold16_complement (t : Nat) : fold16 (t + (65535 - fold16 t)) = 65535 := by
  simp only [fold16]
  split <;> split <;> omega

/-- a region built by `withCsum` verifies (RFC 1071 receiver check) -/
theorem withCsum_verifies (pre post : List UInt8) (init : Nat) (hpre : pre.length % 2 = 0)
    (hb : init + sum16 pre + sum16 post < 4294967296) : verifies (withCsum pre post init) init = true := by
  have hz : sum16 (pre ++ [0, 0] ++ post) = sum16 pre + sum16 post := by
    rw [List.append_assoc, sum16_append_even _ _ hpre]
    simp [sum16]
  have hc := tcpipChecksum_eq (pre ++ [0, 0] ++ post) init (by rw [hz]; omega)
  have hf := fold16_le (sum16 pre + sum16 post + init)
  simp only [verifies, withCsum, beq_iff_eq]
  rw [List.append_assoc, sum16_append_even _ _ hpre, put16_sum _ _ (by rw [hc]; omega), hc, hz]
  have e : sum16 pre + (65535 - fold16 (sum16 pre + sum16 post + init) + sum16 post) + init =
      (sum16 pre + sum16 post + init) + (65535 - fold16 (sum16 pre + sum16 post + init)) := by omega
  rw [e]
  exact fold16_complement _

theorem withCsum_length (pre post : List UInt8) (init : Nat) :
    (withCsum pre post init).length = pre.length + 2 + post.length := by
  simp [withCsum, put16]; omega

end Nebula.Lemmas.PktCsum
