/-
C36: the global invariant of the lighthouse cache — in every remote list, under every owner, every cached
address is usable (outside my overlay networks, allowed by the remote allow list), every owner holds at most
`MaxRemotes` reported addresses per family and relays, and the deduplicated list handed to the handshake
manager / punchy holds only usable, unblocked addresses — preserved by every event (`Ev`).
-/
import Nebula.Lemmas.Lighthouse

namespace Nebula.Lemmas.LighthouseInv
open Nebula.Net Nebula.RemoteList Nebula.Lighthouse Nebula.Lemmas.Lighthouse Nebula.Lemmas.RemoteList
open Nebula.Spec.Lighthouse (usable usableGlobal)

/-- one owner's entry: every learned / reported address (IPv6 slots read through `Unmap`) is usable, and
the per-source caps hold. -/
def OCGood (c : Cfg) (oc : OwnerCache) : Prop :=
  (∀ a ∈ oc.v4l.toList ++ oc.v4r, usableGlobal c a.addr = true) ∧
  (∀ a ∈ oc.v6l.toList ++ oc.v6r, usableGlobal c a.out.addr = true) ∧
  oc.v4r.length ≤ maxRemotes ∧ oc.v6r.length ≤ maxRemotes ∧ oc.relay.length ≤ maxRemotes

/-- a remote list: all owners good, and the cached deduplicated list is dirty or clean of unusable / blocked
addresses. -/
def RLGood (c : Cfg) (rl : RL) : Prop :=
  (∀ e ∈ rl.cache, OCGood c e.2) ∧
  (rl.shouldRebuild = true ∨ ∀ x ∈ rl.addrs, usableGlobal c x.addr = true ∧ x ∉ rl.badRemotes)

def Good (c : Cfg) (s : LH) : Prop := ∀ e ∈ s.lists, RLGood c e.2

theorem ocGood_empty (c : Cfg) : OCGood c {} := by
  refine ⟨?_, ?_, ?_, ?_, ?_⟩ <;> simp [maxRemotes]

theorem mem_updOwner {c : List (Addr × OwnerCache)} {o : Addr} {f : OwnerCache → OwnerCache}
    {e : Addr × OwnerCache} (h : e ∈ updOwner c o f) : e ∈ c ∨ e.2 = f {} ∨ ∃ e' ∈ c, e.2 = f e'.2 := by
  induction c with
  | nil => simp [updOwner] at h; subst h; exact Or.inr (Or.inl rfl)
  | cons x rest ih =>
    obtain ⟨k, v⟩ := x
    simp only [updOwner] at h
    split at h
    · rcases List.mem_cons.mp h with h | h
      · subst h; exact Or.inr (Or.inr ⟨(k, v), by simp, rfl⟩)
      · exact Or.inl (List.mem_cons_of_mem _ h)
    · rcases List.mem_cons.mp h with h | h
      · subst h; exact Or.inl (by simp)
      · rcases ih h with h' | h' | ⟨e', he', h'⟩
        · exact Or.inl (List.mem_cons_of_mem _ h')
        · exact Or.inr (Or.inl h')
        · exact Or.inr (Or.inr ⟨e', List.mem_cons_of_mem _ he', h'⟩)

/-- an owner update keeps all owners good if it keeps a good entry good. -/
theorem updOwner_good (c : Cfg) {cache : List (Addr × OwnerCache)} (o : Addr) (f : OwnerCache → OwnerCache)
    (hc : ∀ e ∈ cache, OCGood c e.2) (hf : ∀ oc, OCGood c oc → OCGood c (f oc)) :
    ∀ e ∈ updOwner cache o f, OCGood c e.2 := by
  intro e he
  rcases mem_updOwner he with h | h | ⟨e', he', h⟩
  · exact hc e h
  · rw [h]; exact hf _ (ocGood_empty c)
  · rw [h]; exact hf _ (hc e' he')

/-! ### RemoteList operations -/

/-- an operation that only rewrites owner entries (and marks the list dirty). -/
theorem rlGood_cache {c : Cfg} {rl : RL} (h : RLGood c rl) (cache' : List (Addr × OwnerCache))
    (hc : ∀ e ∈ cache', OCGood c e.2) : RLGood c { rl with cache := cache', shouldRebuild := true } :=
  ⟨hc, Or.inl rfl⟩

theorem learn_good {c : Cfg} {rl : RL} (h : RLGood c rl) (o : Addr) (a : AP)
    (ha : usableGlobal c a.out.addr = true) (hun : a.addr.is4in6 = false) : RLGood c (learn rl o a) := by
  have hout : a.out.addr = a.addr := by simp [AP.out, Addr.unmap, hun]
  unfold learn
  split
  · apply rlGood_cache h
    apply updOwner_good c o _ h.1
    intro oc ⟨h1, h2, h3, h4, h5⟩
    refine ⟨?_, h2, h3, h4, h5⟩
    intro x hx
    simp only [Option.toList, List.mem_append, List.mem_cons, List.not_mem_nil, or_false] at hx
    rcases hx with hx | hx
    · subst hx; rw [← hout]; exact ha
    · exact h1 x (by simp [hx])
  · apply rlGood_cache h
    apply updOwner_good c o _ h.1
    intro oc ⟨h1, h2, h3, h4, h5⟩
    refine ⟨h1, ?_, h3, h4, h5⟩
    intro x hx
    simp only [Option.toList, List.mem_append, List.mem_cons, List.not_mem_nil, or_false] at hx
    rcases hx with hx | hx
    · subst hx; exact ha
    · exact h2 x (by simp [hx])

theorem take_len (α : Type) (l : List α) (n : Nat) : (l.take n).length ≤ n := by
  simp [List.length_take]; omega

theorem setV4_good {c : Cfg} {rl : RL} (h : RLGood c rl) (o : Addr) (to : List AP) (chk : Addr → Bool)
    (hchk : ∀ u, chk u = true → usableGlobal c u = true) : RLGood c (setV4 rl o to chk) := by
  apply rlGood_cache h
  apply updOwner_good c o _ h.1
  intro oc ⟨h1, h2, h3, h4, h5⟩
  refine ⟨?_, h2, ?_, h4, h5⟩
  · intro x hx
    simp only [List.mem_append, List.mem_filter] at hx
    rcases hx with hx | hx
    · exact h1 x (by simp [hx])
    · exact hchk _ hx.2
  · exact Nat.le_trans (List.length_filter_le _ _) (take_len _ _ _)

theorem setV6_good {c : Cfg} {rl : RL} (h : RLGood c rl) (o : Addr) (to : List AP) (chk : Addr → Bool)
    (hchk : ∀ u, chk u = true → usableGlobal c u = true) : RLGood c (setV6 rl o to chk) := by
  apply rlGood_cache h
  apply updOwner_good c o _ h.1
  intro oc ⟨h1, h2, h3, h4, h5⟩
  refine ⟨h1, ?_, h3, ?_, h5⟩
  · intro x hx
    simp only [List.mem_append, List.mem_filter] at hx
    rcases hx with hx | hx
    · exact h2 x (by simp [hx])
    · exact hchk _ hx.2
  · exact Nat.le_trans (List.length_filter_le _ _) (take_len _ _ _)

theorem setRelay_good {c : Cfg} {rl : RL} (h : RLGood c rl) (o : Addr) (to : List Addr) :
    RLGood c (setRelay rl o to) := by
  apply rlGood_cache h
  apply updOwner_good c o _ h.1
  intro oc ⟨h1, h2, h3, h4, _⟩
  exact ⟨h1, h2, h3, h4, take_len _ _ _⟩

theorem prependV4_good {c : Cfg} {rl : RL} (h : RLGood c rl) (o : Addr) (a : AP)
    (ha : usableGlobal c a.addr = true) : RLGood c (prependV4 rl o a) := by
  apply rlGood_cache h
  apply updOwner_good c o _ h.1
  intro oc ⟨h1, h2, h3, h4, h5⟩
  refine ⟨?_, h2, take_len _ _ _, h4, h5⟩
  intro x hx
  simp only [List.mem_append] at hx
  rcases hx with hx | hx
  · exact h1 x (by simp [hx])
  · rcases List.mem_cons.mp (List.mem_of_mem_take hx) with hx | hx
    · subst hx; exact ha
    · exact h1 x (by simp [hx])

theorem prependV6_good {c : Cfg} {rl : RL} (h : RLGood c rl) (o : Addr) (a : AP)
    (ha : usableGlobal c a.out.addr = true) : RLGood c (prependV6 rl o a) := by
  apply rlGood_cache h
  apply updOwner_good c o _ h.1
  intro oc ⟨h1, h2, h3, h4, h5⟩
  refine ⟨h1, ?_, h3, take_len _ _ _, h5⟩
  intro x hx
  simp only [List.mem_append] at hx
  rcases hx with hx | hx
  · exact h2 x (by simp [hx])
  · rcases List.mem_cons.mp (List.mem_of_mem_take hx) with hx | hx
    · subst hx; exact ha
    · exact h2 x (by simp [hx])

theorem resetForOwner_good {c : Cfg} {rl : RL} (h : RLGood c rl) (o : Addr) : RLGood c (resetForOwner rl o) := by
  refine ⟨?_, Or.inl rfl⟩
  intro e he
  simp only [resetForOwner, List.mem_map] at he
  obtain ⟨e', he', rfl⟩ := he
  obtain ⟨h1, h2, h3, h4, h5⟩ := h.1 e' he'
  split
  · refine ⟨?_, ?_, ?_, ?_, h5⟩
    · intro x hx; exact h1 x (by simp at hx ⊢; exact Or.inl hx)
    · intro x hx; exact h2 x (by simp at hx ⊢; exact Or.inl hx)
    · simp
    · simp
  · exact ⟨h1, h2, h3, h4, h5⟩

theorem dirty_good {c : Cfg} {rl rl' : RL} (h : RLGood c rl) (hc : rl'.cache = rl.cache)
    (hd : rl'.shouldRebuild = true) : RLGood c rl' :=
  ⟨by rw [hc]; exact h.1, Or.inl hd⟩

theorem blockRemote_good {c : Cfg} {rl : RL} (h : RLGood c rl) (a : AP) (rel : Bool) :
    RLGood c (blockRemote rl a rel) := by
  unfold blockRemote
  split
  · exact h
  · split
    · exact h
    · exact dirty_good h rfl rfl

/-- `Rebuild`: what comes out holds only usable, unblocked addresses. -/
theorem rebuild_good {c : Cfg} {rl : RL} (h : RLGood c rl) (pref : List Prefix) :
    RLGood c (rebuild rl (some (shouldAddAll c)) pref) ∧
      ∀ x ∈ (rebuild rl (some (shouldAddAll c)) pref).addrs, usableGlobal c x.addr = true ∧ x ∉ rl.badRemotes := by
  have hsrc : ∀ e ∈ rl.cache, ∀ x ∈ e.2.sources, usableGlobal c x.addr = true := by
    intro e he x hx
    obtain ⟨h1, h2, _⟩ := h.1 e he
    simp only [OwnerCache.sources, List.mem_append, List.mem_map] at hx
    rcases hx with hx | ⟨y, hy, rfl⟩
    · exact h1 x (by simpa using hx)
    · exact h2 y (by simpa using hy)
  have key : ∀ x ∈ (rebuild rl (some (shouldAddAll c)) pref).addrs, usableGlobal c x.addr = true ∧ x ∉ rl.badRemotes := by
    intro x hx
    unfold rebuild at hx
    cases hs : rl.shouldRebuild with
    | true =>
      simp only [hs, if_true, sort] at hx
      have hm := ((sortAddrs_spec pref _).2.1 x).mp hx
      simp only [collect, List.mem_append, List.mem_filter, List.mem_flatMap, Bool.and_eq_true,
        Bool.not_eq_true'] at hm
      rcases hm with ⟨⟨e, he, hxe⟩, hb⟩ | ⟨_, hsa, hb⟩
      · exact ⟨hsrc e he x hxe, by simpa using hb⟩
      · exact ⟨shouldAddAll_usableGlobal c _ _ hsa, by simpa using hb⟩
    | false =>
      simp only [hs, Bool.false_eq_true, if_false, sort] at hx
      have hm := ((sortAddrs_spec pref _).2.1 x).mp hx
      rcases h.2 with h2 | h2
      · rw [hs] at h2; cases h2
      · exact h2 x hm
  refine ⟨⟨?_, Or.inr ?_⟩, key⟩
  · have : (rebuild rl (some (shouldAddAll c)) pref).cache = rl.cache := by
      unfold rebuild; cases rl.shouldRebuild <;> rfl
    rw [this]; exact h.1
  · have hb : (rebuild rl (some (shouldAddAll c)) pref).badRemotes = rl.badRemotes := by
      unfold rebuild; cases rl.shouldRebuild <;> rfl
    intro x hx; rw [hb]; exact key x hx


/-! ### the list store -/

theorem mem_of_getList {s : LH} {id : Nat} {rl : RL} (h : s.getList id = some rl) : (id, rl) ∈ s.lists := by
  simp only [LH.getList, Option.map_eq_some_iff] at h
  obtain ⟨e, he, h2⟩ := h
  have hm := List.mem_of_find?_eq_some he
  have hp := List.find?_some he
  simp only [decide_eq_true_eq] at hp
  obtain ⟨k, v⟩ := e
  simp only at hp h2
  subst hp; subst h2; exact hm

theorem good_getList {c : Cfg} {s : LH} (h : Good c s) {id : Nat} {rl : RL} (hg : s.getList id = some rl) :
    RLGood c rl := h _ (mem_of_getList hg)

theorem good_setList {c : Cfg} {s : LH} (h : Good c s) (id : Nat) {r : RL} (hr : RLGood c r) :
    Good c (s.setList id r) := by
  intro e he
  simp only [LH.setList, List.mem_map] at he
  obtain ⟨e', he', rfl⟩ := he
  split
  · exact hr
  · exact h e' he'

theorem good_onList {c : Cfg} {s : LH} (h : Good c s) (id : Nat) (f : RL → RL)
    (hf : ∀ rl, RLGood c rl → RLGood c (f rl)) : Good c (onList s id f) := by
  unfold onList
  cases hg : s.getList id with
  | none => exact h
  | some rl => exact good_setList h id (hf rl (good_getList h hg))

theorem rlGood_new (c : Cfg) (all : List Addr) : RLGood c { vpnAddrs := all } :=
  ⟨fun e he => by simp at he, Or.inr (fun x hx => by simp at hx)⟩

theorem good_getRemoteList {c : Cfg} {s : LH} (h : Good c s) (all : List Addr) :
    Good c (getRemoteList s all).1 := by
  unfold getRemoteList
  split
  · split <;> exact h
  · intro e he
    simp only [List.mem_append, List.mem_singleton] at he
    rcases he with he | he
    · exact h e he
    · subst he; exact rlGood_new c all

theorem shouldAddOne_global (c : Cfg) (v u : Addr) (h : shouldAddOne c v u = true) : usableGlobal c u = true := by
  rw [shouldAddOne_eq_usable] at h; exact usable_usableGlobal c v u h

theorem good_recordReport {c : Cfg} {s : LH} (h : Good c s) (id : Nat) (owner vpn : Addr) (d : Details) :
    Good c (recordReport c s id owner vpn d) := by
  unfold recordReport
  cases hg : s.getList id with
  | none => exact h
  | some rl =>
    apply good_setList h
    apply setRelay_good
    apply setV6_good _ _ _ _ (fun u hu => shouldAddOne_global c vpn u hu)
    exact setV4_good (good_getList h hg) _ _ _ (fun u hu => shouldAddOne_global c vpn u hu)

theorem good_handleRequest {c : Cfg} {s : LH} (h : Good c s) (f : List Addr) (m : Msg) :
    Good c (handleRequest c s f m).1 := by
  unfold handleRequest
  simp only
  split
  · rw [(query_keeps_state c s f _).1]; exact h
  · split
    · unfold handleHostQueryReply
      split
      · exact h
      · split
        · exact h
        · exact good_recordReport (good_getRemoteList h _) _ _ _ _
    · split
      · unfold handleHostUpdateNotification
        split
        · exact h
        · exact good_recordReport (good_getRemoteList h _) _ _ _ _
      · split
        · rw [punch_keeps_state]; exact h
        · exact h

theorem out_not_mapped (a : AP) : a.out.addr.is4in6 = false := by
  simp only [AP.out, Addr.unmap]
  split
  · simp [Addr.is4in6]
  · rename_i h; simpa using h

theorem out_out (a : AP) : a.out.out = a.out := by
  have := out_not_mapped a
  simp only [AP.out, Addr.unmap] at this ⊢
  simp [this]

theorem mem_dedupFold (l : List AP) : ∀ (acc : List AP) (x : AP),
    x ∈ l.foldl (fun acc a => if acc.contains a then acc else acc ++ [a]) acc → x ∈ acc ∨ x ∈ l := by
  induction l with
  | nil => intro acc x h; exact Or.inl h
  | cons a l ih =>
    intro acc x h
    simp only [List.foldl_cons] at h
    rcases ih _ x h with h' | h'
    · split at h'
      · exact Or.inl h'
      · rcases List.mem_append.mp h' with h'' | h''
        · exact Or.inl h''
        · simp at h''; subst h''; exact Or.inr (by simp)
    · exact Or.inr (List.mem_cons_of_mem _ h')

theorem good_addStatic {c : Cfg} {s : LH} (h : Good c s) (vpn : Addr) (addrs : List AP) :
    Good c (addStatic c s vpn addrs) := by
  unfold addStatic
  simp only
  have h1 := good_getRemoteList h [vpn]
  cases hg : (getRemoteList s [vpn]).1.getList (getRemoteList s [vpn]).2 with
  | none => exact h1
  | some rl =>
    apply good_setList h1
    have hrl := good_getList h1 hg
    -- the fold prepends only addresses that passed `shouldAdd`; all of them are unmapped
    suffices H : ∀ (l : List AP), (∀ a ∈ l, a.addr.is4in6 = false) → ∀ (r : RL), RLGood c r →
        RLGood c (l.foldl (fun rl ap => if !shouldAddAll c [vpn] ap.addr then rl
          else if ap.addr.is4 then prependV4 rl c.me ap else prependV6 rl c.me ap) r) by
      apply H
      · intro a ha
        rcases mem_dedupFold _ _ _ ha with h' | h'
        · simp at h'
        · obtain ⟨b, _, rfl⟩ := List.mem_map.mp h'; exact out_not_mapped b
      · exact ⟨hrl.1, hrl.2⟩
    intro l
    induction l with
    | nil => intro _ r hr; exact hr
    | cons a l ih =>
      intro hl r hr
      simp only [List.foldl_cons]
      apply ih (fun x hx => hl x (List.mem_cons_of_mem _ hx))
      cases hsa : shouldAddAll c [vpn] a.addr with
      | false => simpa using hr
      | true =>
        have hu := shouldAddAll_usableGlobal c _ _ hsa
        simp only [Bool.not_true, Bool.false_eq_true, if_false]
        cases h4 : a.addr.is4 with
        | true => simp only [if_true]; exact prependV4_good hr _ _ hu
        | false =>
          simp only [Bool.false_eq_true, if_false]
          apply prependV6_good hr
          have hm := hl a (by simp)
          have : a.out.addr = a.addr := by simp [AP.out, Addr.unmap, hm]
          rw [this]; exact hu


theorem good_addCalculated {c : Cfg} {s : LH} (h : Good c s) (vpn : Addr) (c4 c6 : List AP) :
    Good c (addCalculated c s vpn c4 c6) := by
  unfold addCalculated
  simp only
  have h1 := good_getRemoteList h [vpn]
  cases hg : (getRemoteList s [vpn]).1.getList (getRemoteList s [vpn]).2 with
  | none => exact h1
  | some rl =>
    apply good_setList h1
    have hrl := good_getList h1 hg
    have h4 : RLGood c (if c4.isEmpty then rl else setV4 rl c.me c4 (fun u => shouldAddOne c vpn u)) := by
      split
      · exact hrl
      · exact setV4_good hrl _ _ _ (fun u hu => shouldAddOne_global c vpn u hu)
    split
    · exact h4
    · exact setV6_good h4 _ _ _ (fun u hu => shouldAddOne_global c vpn u hu)

theorem good_learnRemote {c : Cfg} {s : LH} (h : Good c s) (vpns : List Addr) (a : AP)
    (ha : usableGlobal c a.addr = true) (hun : a.addr.is4in6 = false) : Good c (learnRemote s vpns a) := by
  have hout : a.out.addr = a.addr := by simp [AP.out, Addr.unmap, hun]
  unfold learnRemote
  cases hl : s.lookup (vpns.headD ⟨.v4, 0⟩) with
  | some id =>
    simp only
    cases hg : s.getList id with
    | none => exact h
    | some rl => exact good_setList h id (learn_good (good_getList h hg) _ _ (by rw [hout]; exact ha) hun)
  | none =>
    simp only
    have h1 := good_getRemoteList h vpns
    cases hg : (getRemoteList s vpns).1.getList (getRemoteList s vpns).2 with
    | none => exact h1
    | some rl => exact good_setList h1 _ (learn_good (good_getList h1 hg) _ _ (by rw [hout]; exact ha) hun)

/-- THE GATE: whatever the packet path hands to `SetRemote` is outside my overlay networks and allowed by the
remote allow list for all of the peer's overlay addresses. -/
theorem learnGate_usable {c : Cfg} {k : LearnKind} {vpns : List Addr} {cur : Option AP} {via : Via}
    {sup : Bool} {r : AP} (h : learnGate c k vpns cur via sup = some r) :
    r = via.udp ∧ via.relayed = false ∧ inMyNets c r.addr = false ∧ c.ral.allowAll vpns r.addr = true := by
  unfold learnGate at h
  split at h
  · cases h
  · rename_i hadm
    have hadm' : outsideAdmits c via = true := by simpa using hadm
    cases hrel : via.relayed with
    | true => cases k <;> simp [hrel] at h
    | false =>
      have hnet : inMyNets c via.udp.addr = false := by
        simp only [outsideAdmits, hrel, Bool.not_false, if_true] at hadm'
        cases hn : inMyNets c via.udp.addr with
        | false => rfl
        | true => simp [hn] at hadm'
      cases k with
      | stage1 | stage2 =>
        simp only [hrel, Bool.not_false, if_true] at h
        split at h
        · cases h
        · split at h
          · cases h
          · rename_i hall
            split at h
            · cases h
            · simp only [Option.some.injEq] at h
              subst h
              exact ⟨rfl, rfl, hnet, by simpa using hall⟩
      | roam =>
        simp only [hrel, Bool.not_false, Bool.true_and] at h
        split at h
        · split at h
          · cases h
          · rename_i hall
            split at h
            · cases h
            · simp only [Option.some.injEq] at h
              subst h
              exact ⟨rfl, rfl, hnet, by simpa using hall⟩
        · cases h

theorem allowAll_global (c : Cfg) (vpns : List Addr) (u : Addr) (h : c.ral.allowAll vpns u = true) :
    AllowList.allow c.ral.allowList u = true := by
  simp only [AllowList.Remote.allowAll] at h
  cases hg : AllowList.allow c.ral.allowList u with
  | true => rfl
  | false => simp [hg] at h

theorem good_learnEvent {c : Cfg} {s : LH} (h : Good c s) (k : LearnKind) (vpns : List Addr) (cur : Option AP)
    (via : Via) (sup : Bool) (hun : via.udp.addr.is4in6 = false) : Good c (learnEvent c s k vpns cur via sup) := by
  unfold learnEvent
  cases hg : learnGate c k vpns cur via sup with
  | none => exact h
  | some r =>
    simp only
    split
    · exact h
    · obtain ⟨hr, _, hn, ha⟩ := learnGate_usable hg
      subst hr
      apply good_learnRemote h
      · simp [usableGlobal, hn, allowAll_global c vpns _ ha]
      · exact hun

theorem good_delete {c : Cfg} {s : LH} (h : Good c s) (all : List Addr) : Good c (deleteVpnAddrs c s all) := by
  unfold deleteVpnAddrs
  split
  · exact h
  · split
    · exact h
    · exact h

/-- the underlay source addresses of learn events are unmapped (the udp listeners call `Unmap`). -/
def EvWF : Ev → Prop
  | .learn _ _ _ via _ => via.udp.addr.is4in6 = false
  | _ => True

theorem good_applyEv {c : Cfg} {s : LH} (h : Good c s) (e : Ev) (hwf : EvWF e) : Good c (applyEv c s e) := by
  cases e with
  | msg f m => exact good_handleRequest h f m
  | static vpn addrs => exact good_addStatic h vpn addrs
  | resetOwner id => exact good_onList h id _ (fun rl hr => resetForOwner_good hr _)
  | clearDNS id => exact good_onList h id _ (fun rl hr => dirty_good hr rfl rfl)
  | dns id ips => exact good_onList h id _ (fun rl hr => dirty_good hr rfl rfl)
  | calcRemotes vpn c4 c6 => exact good_addCalculated h vpn c4 c6
  | learn k vs cur via sup => exact good_learnEvent h k vs cur via sup hwf
  | block id a rel => exact good_onList h id _ (fun rl hr => blockRemote_good hr a rel)
  | unblock id => exact good_onList h id _ (fun rl hr => dirty_good hr rfl rfl)
  | refresh id vs => exact good_onList h id _ (fun rl hr => dirty_good hr rfl rfl)
  | delete vs => exact good_delete h vs
  | read id pref => exact good_onList h id _ (fun rl hr => (rebuild_good hr pref).1)
  | query vs =>
    simp only [applyEv, queryCache]
    split
    · exact h
    · exact good_getRemoteList h vs

theorem good_history {c : Cfg} (evs : List Ev) (hwf : ∀ e ∈ evs, EvWF e) :
    ∀ s, Good c s → Good c (evs.foldl (applyEv c) s) := by
  induction evs with
  | nil => intro s h; exact h
  | cons e evs ih =>
    intro s h
    exact ih (fun x hx => hwf x (List.mem_cons_of_mem _ hx)) _ (good_applyEv h e (hwf e (by simp)))

theorem good_empty (c : Cfg) : Good c {} := fun e he => by simp at he


/-! ### reloads that keep the filter (remote allow list, my networks) -/

theorem usableGlobal_congr {c c' : Cfg} (hn : c.myNets = c'.myNets) (hr : c.ral = c'.ral) :
    usableGlobal c = usableGlobal c' := by
  funext u; simp [usableGlobal, inMyNets, hn, hr]

theorem good_congr {c c' : Cfg} (hn : c.myNets = c'.myNets) (hr : c.ral = c'.ral) {s : LH} (h : Good c s) :
    Good c' s := by
  have hu := usableGlobal_congr hn hr
  intro e he
  have := h e he
  simp only [RLGood, OCGood, hu] at this ⊢
  exact this

theorem good_foldl {c : Cfg} {α : Type} (l : List α) (f : LH → α → LH)
    (hf : ∀ s a, Good c s → Good c (f s a)) : ∀ s, Good c s → Good c (l.foldl f s) := by
  induction l with
  | nil => intro s h; exact h
  | cons a l ih => intro s h; exact ih _ (hf s a h)

theorem good_reloadStatics {c : Cfg} {s : LH} (h : Good c s) (new : List (Addr × List AP)) :
    Good c (reloadStatics c s new).2 := by
  unfold reloadStatics
  simp only
  apply good_foldl
  · intro s v hs
    split
    · exact hs
    · split
      · exact good_onList hs _ _ (fun rl hr => dirty_good hr rfl rfl)
      · exact hs
  · apply good_foldl
    · intro s e hs; exact good_addStatic hs e.1 e.2
    · apply good_foldl
      · intro s v hs
        split
        · exact good_onList hs _ _ (fun rl hr => resetForOwner_good hr _)
        · exact hs
      · exact h

/-- a reload that leaves the remote allow lists as they are (lighthouse hosts, static map, am_lighthouse …)
preserves the cache invariant. -/
theorem good_reloadNode {n : Node} (h : Good n.cfg n.lh) (new : RawCfg)
    (hsame : new.g = n.raw.g ∧ new.ranges = n.raw.ranges) :
    Good (reloadNode n new).cfg (reloadNode n new).lh := by
  have hA : decide (new.g ≠ n.raw.g ∨ new.ranges ≠ n.raw.ranges) = false := by simp [hsame.1, hsame.2]
  unfold reloadNode
  simp only [hA, Bool.false_eq_true, if_false]
  have hH : ∀ (c : Cfg) (hosts : List Addr), (reloadHosts c hosts).myNets = c.myNets ∧ (reloadHosts c hosts).ral = c.ral := by
    intro c hosts; unfold reloadHosts; split <;> exact ⟨rfl, rfl⟩
  unfold reloadApply
  cases decide (new.statics ≠ n.raw.statics) <;> cases decide (new.hosts ≠ n.raw.hosts) <;> simp only [if_true, if_false, Bool.false_eq_true]
  · exact h
  · exact good_congr (hH _ _).1.symm (hH _ _).2.symm h
  · exact good_congr (c := n.cfg) rfl rfl (good_reloadStatics h _)
  · have := good_congr (c := n.cfg) (c' := (reloadStatics n.cfg n.lh new.statics).1) rfl rfl (good_reloadStatics h new.statics)
    exact good_congr (hH _ _).1.symm (hH _ _).2.symm this

end Nebula.Lemmas.LighthouseInv
