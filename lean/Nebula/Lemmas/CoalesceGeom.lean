/-
C23: every offloaded write produced by `Flush` has the geometry `tio.Offload.WriteGSO` and the kernel accept.
-/
import Nebula.Lemmas.CoalesceMulti

namespace Nebula.Lemmas.Coalesce
open Nebula.Coalesce Nebula.Gen
open Nebula.Spec
open Nebula.Spec.KernelGSO (geometryOk writeGeometryOk allButLast)

theorem u16At_putU16 (b : Bytes) (off v : Nat) (h : off + 1 < b.length) : u16At (putU16 b off v) off = v % 65536 := by
  rw [putU16_eq]; exact u16At_setBe16 b off v h

theorem u16At_putU16_ne (b : Bytes) (off v j : Nat) (h : j + 1 < off ∨ off + 1 < j) :
    u16At (putU16 b off v) j = u16At b j := by
  rw [putU16_eq]; exact u16At_setBe16_ne b off v j h

theorem u16At_set_ne (b : Bytes) (k j : Nat) (v : UInt8) (h : k ≠ j ∧ k ≠ j + 1) :
    u16At (b.set k v) j = u16At b j := by
  simp only [u16At, byteAt_rd]
  rw [rd_set_ne _ _ _ _ h.1, rd_set_ne _ _ _ _ h.2]

/-- the length fields `flushSlot` writes -/
theorem flushHdr_lens (tcp : Bool) (s : Slot) (hl : s.hdrLen ≤ s.rawPkt.length)
    (h20 : 20 ≤ s.ipHdrLen) (h8 : s.ipHdrLen + 8 ≤ s.hdrLen) :
    (s.isV6 = false → u16At (flushHdr tcp s) 2 = (s.hdrLen + s.totalPay) % 65536) ∧
    (s.isV6 = true → u16At (flushHdr tcp s) 4 = (s.hdrLen + s.totalPay - s.ipHdrLen) % 65536) ∧
    (tcp = false → u16At (flushHdr tcp s) (s.ipHdrLen + 4) = (s.hdrLen + s.totalPay - s.ipHdrLen) % 65536) := by
  have hlen0 : (slice s.rawPkt 0 s.hdrLen).length = s.hdrLen := by rw [slice_zero]; simp; omega
  unfold flushHdr
  simp only
  refine ⟨?_, ?_, ?_⟩
  · intro h6
    simp only [h6, Bool.false_eq_true, ↓reduceIte]
    cases tcp with
    | true =>
      simp only [↓reduceIte]
      rw [u16At_putU16_ne _ _ _ _ (by omega), u16At_putU16_ne _ _ _ _ (by omega),
        u16At_set_ne _ _ _ _ (by omega), u16At_set_ne _ _ _ _ (by omega), u16At_putU16 _ _ _ (by omega)]
    | false =>
      simp only [Bool.false_eq_true, ↓reduceIte]
      rw [u16At_putU16_ne _ _ _ _ (by omega), u16At_putU16_ne _ _ _ _ (by omega), u16At_putU16_ne _ _ _ _ (by omega),
        u16At_set_ne _ _ _ _ (by omega), u16At_set_ne _ _ _ _ (by omega), u16At_putU16 _ _ _ (by omega)]
  · intro h6
    simp only [h6, ↓reduceIte]
    cases tcp with
    | true =>
      simp only [↓reduceIte]
      rw [u16At_putU16_ne _ _ _ _ (by omega), u16At_putU16 _ _ _ (by omega)]
    | false =>
      simp only [Bool.false_eq_true, ↓reduceIte]
      rw [u16At_putU16_ne _ _ _ _ (by omega), u16At_putU16_ne _ _ _ _ (by omega), u16At_putU16 _ _ _ (by omega)]
  · intro ht
    subst ht
    simp only [Bool.false_eq_true, ↓reduceIte]
    rw [u16At_putU16_ne _ _ _ _ (by omega), u16At_putU16 _ _ _ (by
      cases s.isV6 <;> simp [length_putU16, hlen0] <;> omega)]

theorem allButLast_of_index {α} (p : α → Bool) (l : List α)
    (h : ∀ (i : Nat) (x : α), l[i]? = some x → i + 1 < l.length → p x = true) : allButLast p l = true := by
  induction l with
  | nil => rfl
  | cons a t ih =>
    cases t with
    | nil => rfl
    | cons b r =>
      simp only [allButLast, Bool.and_eq_true]
      refine ⟨h 0 a rfl (by simp), ih ?_⟩
      intro i x hx hi
      exact h (i + 1) x (by simpa using hx) (by simp at hi ⊢; omega)

theorem length_flatten_eq_sum (l : List Bytes) : l.flatten.length = (l.map List.length).sum := by
  induction l with
  | nil => rfl
  | cons a t ih => simp [ih]

theorem slotOut_geometry {tcp : Bool} {s : Slot} (hok : SlotOK tcp s) : writeGeometryOk (slotOut tcp s) = true := by
  unfold slotOut
  cases hv : s.verbatim with
  | true => simp [writeGeometryOk]
  | false =>
    have hc := hok.coal hv
    simp only [Bool.false_eq_true, false_or]
    by_cases h1 : s.numSeg = 1
    · rw [if_pos h1]; rfl
    · rw [if_neg h1]
      have SF := seedFacts hc
      have hn : 2 ≤ s.ghost.length := by
        have h2 := hc.numSeg
        have h3 : s.ghost.length ≠ 0 := fun e => hc.ne (List.eq_nil_of_length_eq_zero e)
        omega
      have hmin := SF.hmin
      have hl8 : s.ipHdrLen + 8 ≤ s.hdrLen := by cases tcp <;> simp at hmin <;> omega
      have hl20 : 20 ≤ s.ipHdrLen := by have := SF.l4; cases h6 : s.isV6 <;> simp [h6] at this <;> omega
      have hraw : s.rawPkt.length = (seedOf s).length := length_rawPkt hc
      have hLraw : s.hdrLen ≤ s.rawPkt.length := by rw [hraw]; have := SF.lenP0; omega
      have hhl : (flushHdr tcp s).length = s.hdrLen := by rw [length_flushHdr]; omega
      obtain ⟨len4, len6, lenU⟩ := flushHdr_lens tcp s hLraw hl20 hl8
      have hnp : 2 ≤ s.payIovs.length := by rw [hc.npay]; exact hn
      obtain ⟨a, rest, hpays⟩ : ∃ a rest, s.payIovs = a :: rest := by
        cases hp : s.payIovs with
        | nil => rw [hp] at hnp; simp at hnp
        | cons a t => exact ⟨a, t, rfl⟩
      have ha : a.length = s.gsoSize := by
        have := pay_len hc (i := 0) (x := a) (by rw [hpays]; rfl)
        exact this.2.2 (by omega)
      have hH : (slice (flushHdr tcp s) 0 s.ipHdrLen).length = s.ipHdrLen := by
        rw [slice_zero]; simp; omega
      have hT : ((flushHdr tcp s).drop s.ipHdrLen).length = s.hdrLen - s.ipHdrLen := by simp [hhl]
      have hflat : s.payIovs.flatten.length = s.totalPay := by rw [length_flatten_eq_sum, hc.total]
      have hcap := hc.cap
      have rdH : ∀ k, k < s.ipHdrLen → rd (slice (flushHdr tcp s) 0 s.ipHdrLen) k = rd (flushHdr tcp s) k := by
        intro k hk; rw [slice_zero]; exact rd_take _ _ _ hk
      -- byte 0 and the TCP data offset byte are the seed's
      have nfree0 : ¬ FlushW tcp s.isV6 s.ipHdrLen 0 := by
        intro hw; rcases hw with ⟨_, e⟩ | ⟨_, e⟩ | ⟨_, e⟩ | ⟨_, e⟩ <;> omega
      have b0 : byteAt (slice (flushHdr tcp s) 0 s.ipHdrLen) 0 = byteAt (seedOf s) 0 := by
        simp only [byteAt_rd]
        rw [rdH 0 (by omega), rd_flushHdr tcp s 0 (by omega) nfree0, rd_rawPkt hc 0 (by omega)]
      unfold flushSlot
      simp only [writeGeometryOk]
      unfold geometryOk
      rw [hpays]
      simp only
      rw [← hpays]
      simp only [Bool.and_eq_true, decide_eq_true_eq, List.all_eq_true, get_eq, be16_eq]
      refine ⟨⟨⟨⟨⟨⟨?_, ?_⟩, ?_⟩, ?_⟩, ?_⟩, ?_⟩, ?_⟩
      · rw [ha]; exact SF.gPos
      · intro x hx
        obtain ⟨i, hi⟩ := List.getElem?_of_mem hx
        have := pay_len hc hi
        rw [ha]; exact ⟨this.1, this.2.1⟩
      · apply allButLast_of_index
        intro i x hx hlt
        simp only [decide_eq_true_eq]
        rw [ha]; exact (pay_len hc hx).2.2 hlt
      · rw [hc.npay, ← hc.numSeg]; exact hc.segs
      · rw [hH, hT, hflat]; omega
      · cases h6 : s.isV6 with
        | false =>
          have h45 := SF.v4 h6
          have hl4 : s.ipHdrLen = 20 := by have := SF.l4; simpa [h6] using this
          have b0' : byteAt (slice (flushHdr tcp s) 0 s.ipHdrLen) 0 = 69 := by rw [b0, h45]
          simp only [b0', Nat.reduceDiv, ↓reduceIte, Bool.and_eq_true, decide_eq_true_eq]
          refine ⟨⟨trivial, by rw [hH, hl4]⟩, ?_⟩
          have : u16At (slice (flushHdr tcp s) 0 s.ipHdrLen) 2 = u16At (flushHdr tcp s) 2 :=
            u16At_congr (rdH 2 (by omega)) (rdH 3 (by omega))
          first | apply decide_eq_true | skip
          try simp only [be16_eq]
          rw [this, len4 h6, hH, hT, hflat]; omega
        | true =>
          have h66 := SF.v6 h6
          have hl4 : s.ipHdrLen = 40 := by have := SF.l4; simpa [h6] using this
          have b0' : byteAt (slice (flushHdr tcp s) 0 s.ipHdrLen) 0 / 16 = 6 := by rw [b0, h66]
          simp only [b0', Nat.reduceEqDiff, ↓reduceIte, Bool.and_eq_true, decide_eq_true_eq]
          refine ⟨⟨trivial, by rw [hH, hl4]⟩, ?_⟩
          have : u16At (slice (flushHdr tcp s) 0 s.ipHdrLen) 4 = u16At (flushHdr tcp s) 4 :=
            u16At_congr (rdH 4 (by omega)) (rdH 5 (by omega))
          first | apply decide_eq_true | skip
          try simp only [be16_eq]
          rw [this, len6 h6, hH, hT, hflat]; omega
      · cases tcp with
        | true =>
          simp only [↓reduceIte, Bool.and_eq_true, decide_eq_true_eq] at hmin ⊢
          have h0 := headD_eq_of_ne ([] : Bytes) hc.ne
          obtain ⟨info0, parse0, F0⟩ := hc.pk 0 (seedOf s) h0
          have P0 := (parseAt_facts parse0).tcpF rfl
          have e12 : byteAt ((flushHdr true s).drop s.ipHdrLen) 12 = byteAt (seedOf s) (s.ipHdrLen + 12) := by
            simp only [byteAt_rd]
            rw [rd_drop, rd_flushHdr true s _ (by omega) (by
              intro hw; rcases hw with ⟨_, e⟩ | ⟨_, e⟩ | ⟨e, _⟩ | ⟨_, e⟩
              · omega
              · omega
              · cases e
              · omega), rd_rawPkt hc _ (by omega)]
          have := F0.hHdr
          refine ⟨by rw [hT]; omega, ?_⟩
          first | apply decide_eq_true | skip
          try simp only [get_eq]
          rw [hT, e12]
          omega
        | false =>
          simp only [Bool.false_eq_true, ↓reduceIte, Bool.and_eq_true, decide_eq_true_eq]
          have hu := SF.udp rfl
          refine ⟨by rw [hT]; omega, ?_⟩
          have : u16At ((flushHdr false s).drop s.ipHdrLen) 4 = u16At (flushHdr false s) (s.ipHdrLen + 4) := by
            simp only [u16At, byteAt_rd, rd_drop, Nat.add_assoc]
          first | apply decide_eq_true | skip
          try simp only [be16_eq]
          rw [this, lenU rfl, hH, hT, hflat]; omega

theorem multiFlush_geometry {m : Multi} (h : MultiInv m) : ∀ w ∈ m.flush, writeGeometryOk w = true := by
  intro w hw
  simp only [Multi.flush, Lane.flush, List.mem_append, List.mem_map] at hw
  rcases hw with (⟨s, hs, rfl⟩ | ⟨s, hs, rfl⟩) | ⟨b, _, rfl⟩
  · exact slotOut_geometry (h.tcp.ok s hs)
  · exact slotOut_geometry (h.udp.ok s hs)
  · rfl

end Nebula.Lemmas.Coalesce
