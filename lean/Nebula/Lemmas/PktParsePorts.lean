/-
Lemmas for C20, ports clause at full strength (`Spec/IPPorts.lean`): whenever the model of newPacket
accepts, every reported port is found in the packet (`portsFromPacket`), and `portsFromPacket` implies
the weaker `portsOK`.
-/
import Nebula.Lemmas.PktParse
import Nebula.Spec.IPPorts
namespace Nebula.Lemmas.PktParse
open Nebula.Pkt Nebula.Spec.IP

/-- the strict ports clause is a strengthening of the ports clause of `acceptable` -/
theorem portsFromPacket_portsOK (p : Pkt) (inc : Bool) (c : Class) (h : portsFromPacket p inc c = true) :
    portsOK p inc c = true := by
  simp only [portsFromPacket] at h
  simp only [portsOK]
  by_cases hnf : p.nonFirstFrag = true
  · simpa [hnf] using h
  · simp only [hnf, Bool.false_eq_true, if_false] at h ⊢
    by_cases hp : p.proto = 6 ∨ p.proto = 17
    · simp only [hp, if_true, firstFourOriented, Bool.and_eq_true, decide_eq_true_eq] at h ⊢
      obtain ⟨hl, h⟩ := h
      have : p.ports = some (be16 p.upper 0, be16 p.upper 2) := by
        simp [Pkt.ports, hp, hnf, hl]
      rw [this]
      exact h
    · simp only [hp, if_false] at h ⊢
      by_cases hi : p.isIcmp = true
      · simp only [hi, if_true, Bool.and_eq_true, Bool.or_eq_true, decide_eq_true_eq, Pkt.icmpTypeHasId,
          Bool.not_eq_true', Bool.and_eq_false_iff, decide_eq_false_iff_not] at h ⊢
        refine ⟨h.1, ?_⟩
        by_cases hid : 1 ≤ p.upper.length ∧ icmpHasId p.version (byte p.upper 0) = true
        · rw [if_pos hid]
          rcases h.2 with ⟨hl, hr⟩ | ⟨hn, _⟩
          · have : p.icmpId = some (be16 p.upper 4) := by
              simp [Pkt.icmpId, hi, hnf, hl, hid.2]
            rw [this]; exact hr
          · rcases hn with hn | hn
            · exact absurd hid.1 hn
            · rw [hid.2] at hn; cases hn
        · rw [if_neg hid]
      · simp [hi]

theorem parseV4_ports (d : List UInt8) (inc : Bool) (fp : Parsed) (h : parseV4 d inc = .ok fp) :
    portsFromPacket (pkt4 d) inc (toClass fp) = true := by
  simp only [parseV4] at h
  by_cases hlen : d.length < 20
  · simp [hlen] at h
  · simp only [if_neg hlen, idx_eq d 0 (by omega), ok_bind, and_0f] at h
    by_cases hihl : (byte d 0 % 16) * 4 < 20
    · rw [if_pos hihl] at h; simp at h
    · simp only [if_neg hihl, u16At_eq d 6 (by omega), idx_eq d 9 (by omega), ok_bind, and_1fff, and_3fff,
        v4_frag, v4_fragAny] at h
      by_cases hfr : v4NonFirst d = true
      · simp only [hfr, Bool.not_true, Bool.false_eq_true, if_false, if_true] at h
        by_cases hmin : d.length < (byte d 0 % 16) * 4
        · simp [hmin] at h
        · simp only [hmin, if_false, slice_eq d 12 16 (by omega) (by omega), slice_eq d 16 20 (by omega) (by omega),
            ok_bind, Res.ok.injEq] at h
          subst h
          simp [portsFromPacket, toClass, pkt4, hfr]
      · simp only [Bool.not_eq_true] at hfr
        simp only [hfr, Bool.not_false, if_true, Bool.false_eq_true, if_false] at h
        by_cases hic : byte d 9 = Gen.firewall_ProtoICMP
        · simp only [hic, if_true, Gen.nebula_minFwPacketLen] at h
          by_cases hmin : d.length < (byte d 0 % 16) * 4 + 4 + 2
          · simp [hmin] at h
          · simp only [hmin, if_false, slice_eq d 12 16 (by omega) (by omega), slice_eq d 16 20 (by omega) (by omega),
              u16At_eq d ((byte d 0 % 16) * 4 + 4) (by omega), ok_bind, Res.ok.injEq] at h
            subst h
            have hl6 : 6 ≤ d.length - byte d 0 % 16 * 4 := by omega
            simp [portsFromPacket, toClass, pkt4, hfr, hic, Pkt.isIcmp, be16_drop, Gen.firewall_ProtoICMP, hl6]
        · simp only [hic, if_false, Gen.nebula_minFwPacketLen] at h
          by_cases hmin : d.length < (byte d 0 % 16) * 4 + 4
          · simp [hmin] at h
          · simp only [hmin, if_false, slice_eq d 12 16 (by omega) (by omega), slice_eq d 16 20 (by omega) (by omega),
              u16At_eq d ((byte d 0 % 16) * 4) (by omega), u16At_eq d ((byte d 0 % 16) * 4 + 2) (by omega),
              ok_bind] at h
            have hl4 : 4 ≤ d.length - byte d 0 % 16 * 4 := by omega
            simp only [Gen.firewall_ProtoICMP] at hic
            cases inc
            · simp only [Bool.false_eq_true, if_false, Res.ok.injEq] at h
              subst h
              by_cases hp : byte d 9 = 6 ∨ byte d 9 = 17
              · simp [portsFromPacket, firstFourOriented, toClass, pkt4, hfr, hp, be16_drop, hl4]
              · simp [portsFromPacket, firstFourOriented, toClass, pkt4, hfr, hp, Pkt.isIcmp, hic, be16_drop, hl4]
            · simp only [if_true, Res.ok.injEq] at h
              subst h
              by_cases hp : byte d 9 = 6 ∨ byte d 9 = 17
              · simp [portsFromPacket, firstFourOriented, toClass, pkt4, hfr, hp, be16_drop, hl4]
              · simp [portsFromPacket, firstFourOriented, toClass, pkt4, hfr, hp, Pkt.isIcmp, hic, be16_drop, hl4]

theorem parseV6_ports (d : List UInt8) (inc : Bool) (fp : Parsed) (w : V6Walk) (k : Nat)
    (hw : findUpper d = .ok w) (h : parseV6 d inc = .ok fp) :
    portsFromPacket (pkt6 d w k) inc (toClass fp) = true := by
  simp only [parseV6] at h
  by_cases hlen : d.length < 40
  · simp [hlen] at h
  · simp only [if_neg hlen, slice_eq d 8 24 (by omega) (by omega), slice_eq d 24 40 (by omega) (by omega), ok_bind,
      hw] at h
    by_cases hfr : w.isFrag = true
    · simp only [hfr, if_true, Res.ok.injEq] at h
      subst h
      simp [portsFromPacket, toClass, pkt6, hfr]
    · simp only [Bool.not_eq_true] at hfr
      simp only [hfr, Bool.false_eq_true, if_false, Gen.firewall_ProtoICMPv6, Gen.firewall_ProtoTCP, Gen.firewall_ProtoUDP] at h
      by_cases h58 : w.nh = 58
      · simp only [h58, if_true] at h
        by_cases hl4 : d.length < w.off + 4
        · simp [hl4] at h
        · simp only [if_neg hl4, idx_eq d w.off (by omega), ok_bind] at h
          by_cases hecho : byte d w.off = 128 ∨ byte d w.off = 129
          · simp only [hecho, if_true] at h
            by_cases hl6 : d.length < w.off + 6
            · simp [hl6] at h
            · simp only [if_neg hl6, u16At_eq d (w.off + 4) (by omega), ok_bind, Res.ok.injEq] at h
              subst h
              have hl6' : 6 ≤ d.length - w.off := by omega
              simp [portsFromPacket, toClass, pkt6, hfr, h58, Pkt.isIcmp, be16_drop, hl6']
          · simp only [hecho, if_false, Res.ok.injEq] at h
            subst h
            have hid : icmpHasId 6 (byte d w.off) = false := by
              simp only [not_or] at hecho
              simp [icmpHasId, hecho.1, hecho.2]
            simp [portsFromPacket, toClass, pkt6, hfr, h58, Pkt.isIcmp, Pkt.icmpTypeHasId, byte_drop, hid]
      · simp only [h58, if_false] at h
        by_cases hp : w.nh = 6 ∨ w.nh = 17
        · simp only [hp, if_true] at h
          by_cases hl4 : d.length < w.off + 4
          · simp [hl4] at h
          · simp only [if_neg hl4, u16At_eq d w.off (by omega), u16At_eq d (w.off + 2) (by omega), ok_bind] at h
            have hl4' : 4 ≤ d.length - w.off := by omega
            cases inc
            · simp only [Bool.false_eq_true, if_false, Res.ok.injEq] at h
              subst h
              simp [portsFromPacket, firstFourOriented, toClass, pkt6, hfr, hp, be16_drop, hl4']
            · simp only [if_true, Res.ok.injEq] at h
              subst h
              simp [portsFromPacket, firstFourOriented, toClass, pkt6, hfr, hp, be16_drop, hl4']
        · simp only [hp, if_false, Res.ok.injEq] at h
          subst h
          simp [portsFromPacket, toClass, pkt6, hfr, hp, Pkt.isIcmp, h58]

/-- Whenever the model accepts, the independent parser parses the same bytes and the reported
classification is acceptable with every port found in the packet. -/
theorem newPacket_agree_strict (d : List UInt8) (inc : Bool) (fp : Parsed) (h : newPacket d inc = .ok fp) :
    ∃ sp, parse d = some sp ∧ acceptable sp inc (toClass fp) = true ∧
      portsFromPacket sp inc (toClass fp) = true := by
  simp only [newPacket] at h
  by_cases hlen : d.length < 1
  · simp [hlen] at h
  · simp only [if_neg hlen, idx_eq d 0 (by omega), ok_bind, version_eq _ (byte_lt d 0)] at h
    match d, hlen with
    | b :: tl, _ =>
      have hb : byte (b :: tl) 0 = b.toNat := by simp [byte]
      simp only [hb] at h
      simp only [parse]
      by_cases h4 : b.toNat / 16 = 4
      · simp only [h4, if_true] at h ⊢
        obtain ⟨h1, h2⟩ := parseV4_agree _ _ _ h
        exact ⟨_, h1, h2, parseV4_ports _ _ _ h⟩
      · by_cases h6 : b.toNat / 16 = 6
        · simp only [h6, if_true, show ¬ ((6:Nat) = 4) by decide, if_false] at h ⊢
          obtain ⟨w, k, hw, h1, h2⟩ := parseV6_agree _ _ _ h
          exact ⟨_, h1, h2, parseV6_ports _ _ _ w k hw h⟩
        · simp [h4, h6] at h

end Nebula.Lemmas.PktParse
