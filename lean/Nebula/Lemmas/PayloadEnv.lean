/-
The outer `NebulaHandshake` envelope and the rejecting branches of `unmarshalPayloadDetails`.
-/
import Nebula.Lemmas.PayloadSchema

namespace Nebula.Payload
open Nebula.Wire
open Nebula.Spec.HandshakeSchema

theorem payloadField_details (p : Payload) (X rest : Bytes) (hX : X.length < 2 ^ 64) :
    payloadField p 1 BytesType (appendBytes X ++ rest) =
      match unmarshalDetails p X with
      | .ok p' => .next p' rest
      | r => .stop r := by
  unfold payloadField
  simp only [and_self, if_true, consumeBytes_append _ _ hX, sliceFrom_append]
  rfl

theorem payloadField_skip_bytes (p : Payload) (num : Nat) (X rest : Bytes) (hn : num ≠ 1) (hX : X.length < 2 ^ 64) :
    payloadField p num BytesType (appendBytes X ++ rest) = .next p rest := by
  unfold payloadField
  simp only [hn, false_and, if_false, cfv_bytes _ _ _ hX, sliceFrom_append]

/-- A message consisting of one `Details` field reads as its details. -/
theorem unmarshalPayload_envelope (X : Bytes) (hX : X.length < 2 ^ 64) :
    unmarshalPayload (appendTag 1 BytesType ++ appendBytes X) = unmarshalDetails {} X := by
  unfold unmarshalPayload
  have hpos := appendTag_length_pos 1 BytesType
  have e : payloadField {} 1 BytesType (appendBytes X) = payloadField {} 1 BytesType (appendBytes X ++ []) := by simp
  rw [payloadLoop_step _ _ 1 BytesType _ (by omega) (by omega) (by decide), e, payloadField_details _ _ _ hX]
  cases h : unmarshalDetails {} X with
  | ok p => simp only; exact payloadLoop_nil _ _ (by rw [List.length_append]; omega)
  | errMessage => rfl
  | errDetails => rfl
  | panic => rfl
  | stuck => rfl

theorem detailsField_wrong_type (p : Payload) (num typ : Nat) (b : Bytes)
    (hnum : num = 1 ∨ num = 2 ∨ num = 3 ∨ num = 5 ∨ num = 8)
    (hwrong : typ ≠ (if num = 1 then BytesType else VarintType)) :
    detailsField p num typ b = .stop .errDetails := by
  unfold detailsField
  simp only [fieldCert, fieldInitiatorIndex, fieldResponderIndex, fieldTime, fieldCertVersion,
    Gen.handshake_fieldCert, Gen.handshake_fieldInitiatorIndex, Gen.handshake_fieldResponderIndex,
    Gen.handshake_fieldTime, Gen.handshake_fieldCertVersion]
  rcases hnum with rfl | rfl | rfl | rfl | rfl <;> simp at hwrong <;>
    simp [hwrong, varintField, ofVarintField]

theorem detailsField_out_of_range (p : Payload) (num v : Nat) (rest : Bytes)
    (hnum : num = 2 ∨ num = 3 ∨ num = 8) (hv : 2 ^ 32 ≤ v) (hv64 : v < 2 ^ 64) :
    detailsField p num VarintType (appendVarint v ++ rest) = .stop .errDetails := by
  unfold detailsField
  simp only [fieldCert, fieldInitiatorIndex, fieldResponderIndex, fieldTime, fieldCertVersion,
    Gen.handshake_fieldCert, Gen.handshake_fieldInitiatorIndex, Gen.handshake_fieldResponderIndex,
    Gen.handshake_fieldTime, Gen.handshake_fieldCertVersion]
  have hm : v > maxUint32 := by unfold maxUint32; omega
  rcases hnum with rfl | rfl | rfl <;>
    simp [varintField, ofVarintField, consumeVarint_append _ _ hv64, hm]

theorem ite_nil_length_le (c : Prop) [Decidable c] (x : Bytes) : (if c then x else []).length ≤ x.length := by
  split <;> simp

/-- The details block is at most 100 bytes longer than the certificate. -/
theorem marshalDetails_length_le (p : Payload) : (marshalDetails p).length ≤ p.cert.length + 100 := by
  have e1 : (appendTag fieldCert BytesType ++ appendBytes p.cert).length ≤ 20 + p.cert.length := by
    simp only [List.length_append, appendBytes, appendTag]
    have := appendVarint_length_le (encodeTag fieldCert BytesType)
    have := appendVarint_length_le p.cert.length
    omega
  have e2 : ∀ n t v, (appendTag n t ++ appendVarint v).length ≤ 20 := by
    intro n t v
    simp only [List.length_append, appendTag]
    have := appendVarint_length_le (encodeTag n t)
    have := appendVarint_length_le v
    omega
  have a1 := ite_nil_length_le (p.cert.length > 0) (appendTag fieldCert BytesType ++ appendBytes p.cert)
  have a2 := ite_nil_length_le (p.initiatorIndex ≠ 0) (appendTag fieldInitiatorIndex VarintType ++ appendVarint p.initiatorIndex)
  have a3 := ite_nil_length_le (p.responderIndex ≠ 0) (appendTag fieldResponderIndex VarintType ++ appendVarint p.responderIndex)
  have a4 := ite_nil_length_le (p.time ≠ 0) (appendTag fieldTime VarintType ++ appendVarint p.time)
  have a5 := ite_nil_length_le (p.certVersion ≠ 0) (appendTag fieldCertVersion VarintType ++ appendVarint p.certVersion)
  have b2 := e2 fieldInitiatorIndex VarintType p.initiatorIndex
  have b3 := e2 fieldResponderIndex VarintType p.responderIndex
  have b4 := e2 fieldTime VarintType p.time
  have b5 := e2 fieldCertVersion VarintType p.certVersion
  unfold marshalDetails
  rw [List.length_append, List.length_append, List.length_append, List.length_append]
  omega

theorem encodeDetails_length_le (d : Details) : (encodeDetails d).length ≤ d.cert.length + 120 := by
  have e1 : (appendTag 1 BytesType ++ appendBytes d.cert).length ≤ 20 + d.cert.length := by
    simp only [List.length_append, appendBytes, appendTag]
    have := appendVarint_length_le (encodeTag 1 BytesType)
    have := appendVarint_length_le d.cert.length
    omega
  have e2 : ∀ n t v, (appendTag n t ++ appendVarint v).length ≤ 20 := by
    intro n t v
    simp only [List.length_append, appendTag]
    have := appendVarint_length_le (encodeTag n t)
    have := appendVarint_length_le v
    omega
  have a1 := ite_nil_length_le (d.cert ≠ []) (appendTag 1 BytesType ++ appendBytes d.cert)
  have a2 := ite_nil_length_le (d.initiatorIndex ≠ 0) (appendTag 2 VarintType ++ appendVarint d.initiatorIndex)
  have a3 := ite_nil_length_le (d.responderIndex ≠ 0) (appendTag 3 VarintType ++ appendVarint d.responderIndex)
  have a4 := ite_nil_length_le (d.cookie ≠ 0) (appendTag 4 VarintType ++ appendVarint d.cookie)
  have a5 := ite_nil_length_le (d.time ≠ 0) (appendTag 5 VarintType ++ appendVarint d.time)
  have a6 := ite_nil_length_le (d.certVersion ≠ 0) (appendTag 8 VarintType ++ appendVarint d.certVersion)
  have b2 := e2 2 VarintType d.initiatorIndex
  have b3 := e2 3 VarintType d.responderIndex
  have b4 := e2 4 VarintType d.cookie
  have b5 := e2 5 VarintType d.time
  have b6 := e2 8 VarintType d.certVersion
  unfold encodeDetails
  rw [List.length_append, List.length_append, List.length_append, List.length_append, List.length_append]
  omega

/-- The canonical encoding of a schema message (Details present, optional Hmac). -/
theorem unmarshalPayload_encode (m : Msg) (hd : m.details.inRange) (hc : m.details.cert.length < 2 ^ 63)
    (hh : m.hmac.length < 2 ^ 64) (hp : m.hasDetails = true) :
    unmarshalPayload (encode m) = .ok (toPayload m.details) := by
  have hdl : (encodeDetails m.details).length < 2 ^ 64 := by
    have := encodeDetails_length_le m.details
    omega
  have hD : unmarshalDetails {} (encodeDetails m.details) = .ok (toPayload m.details) := by
    have := unmarshalDetails_toks (canonToks m.details) {} (canonToks_ok _ hd)
    rw [foldl_canonToks _ hd, ← encodeDetails_eq] at this
    exact this
  have hpos := appendTag_length_pos 1 BytesType
  unfold unmarshalPayload encode
  simp only [hp, if_true, List.append_assoc]
  rw [payloadLoop_step _ _ 1 BytesType _ (by omega) (by omega) (by decide), payloadField_details _ _ _ hdl, hD]
  simp only
  by_cases hm : m.hmac = []
  · simp only [hm, ne_eq, not_true_eq_false, if_false]
    exact payloadLoop_nil _ _ (by simp only [List.length_append]; omega)
  · simp only [hm, ne_eq, not_false_eq_true, if_true]
    have hpos2 := appendTag_length_pos 2 BytesType
    have e : ∀ f, payloadLoop (f + 1) (toPayload m.details) (appendTag 2 BytesType ++ appendBytes m.hmac) =
        payloadLoop f (toPayload m.details) [] := by
      intro f
      have e' : payloadField (toPayload m.details) 2 BytesType (appendBytes m.hmac) =
          payloadField (toPayload m.details) 2 BytesType (appendBytes m.hmac ++ []) := by simp
      rw [payloadLoop_step _ _ 2 BytesType _ (by omega) (by omega) (by decide), e',
        payloadField_skip_bytes _ _ _ _ (by decide) hh]
    have hlen : (appendTag 1 BytesType ++ (appendBytes (encodeDetails m.details) ++
        (appendTag 2 BytesType ++ appendBytes m.hmac))).length =
        ((appendTag 1 BytesType).length + (appendBytes (encodeDetails m.details)).length +
          (appendBytes m.hmac).length + (appendTag 2 BytesType).length - 1) + 1 := by
      simp only [List.length_append]; omega
    rw [hlen, e]
    exact payloadLoop_nil _ _ (by omega)

end Nebula.Payload
