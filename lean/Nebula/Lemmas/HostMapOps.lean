/-
Every operation of the correspondence stream keeps the invariant; so does every sequence of them.
-/
import Nebula.Lemmas.HostMapAddHost

namespace Nebula.HostMap
open FMap

theorem obj_fresh {s : State} (c : Core none s) {h : Nat} (hh : s.next ≤ h) : s.obj h = {} := by
  simp [State.obj, c.fresh h hh]

/-- the next object id is referenced nowhere -/
theorem fresh_unref {s : State} (c : Core none s) {h : Nat} (hh : s.next ≤ h) :
    (∀ a, s.vpnIps.get a ≠ some h) ∧ (∀ i, s.pidx.get i ≠ some h) ∧ ¬ Live s h := by
  have ho := obj_fresh c hh
  refine ⟨fun a e => ?_, fun i e => ?_, fun l => ?_⟩
  · have := (c.vpn a h e).1; rw [ho] at this; cases this
  · obtain ⟨p1, p2, _⟩ := c.pidx i h e; rw [ho] at p1; exact p2 p1.symm
  · simp only [Live, ho] at l
    exact (c.idx _ h l).2 rfl

/-- a fresh or pending tunnel carries no relay index -/
theorem no_relay_idx_of_fresh {s : State} (c : Core none s) {h : Nat} (hh : s.next ≤ h) (i : Nat) :
    ((s.rstate h).byIdx.get i).isSome = false := by
  cases hk : ((s.rstate h).byIdx.get i).isSome with
  | false => rfl
  | true => have := (c.rsPend h i hk).1; omega

theorem no_relay_idx_of_vpn {s : State} (c : Core none s) {h a : Nat} (hv : s.vpnIps.get a = some h) (i : Nat) :
    ((s.rstate h).byIdx.get i).isSome = false := by
  cases hk : ((s.rstate h).byIdx.get i).isSome with
  | false => rfl
  | true => exact absurd hv ((c.rsPend h i hk).2.2.1 a)

theorem no_relay_idx_of_pidx {s : State} (c : Core none s) {h j : Nat} (hv : s.pidx.get j = some h) (i : Nat) :
    ((s.rstate h).byIdx.get i).isSome = false := by
  cases hk : ((s.rstate h).byIdx.get i).isSome with
  | false => rfl
  | true => exact absurd hv ((c.rsPend h i hk).2.1 j)

theorem lt_next_of_lidx {s : State} (c : Core none s) {h : Nat} (hz : (s.obj h).lidx ≠ 0) : h < s.next := by
  apply Nat.lt_of_not_le; intro hh; rw [obj_fresh c hh] at hz; exact hz rfl

theorem inv_init : Inv ({} : State) := by
  refine ⟨⟨?_, ?_, ?_, ?_, ?_, ?_, ?_, ?_, ?_, ?_, ?_, ?_, ?_, ?_⟩, ?_⟩ <;> intros <;>
    simp_all [hostList, Rep, Cap, State.rstate, ROk, AgreeA, AgreeI]

/-! ### StartHandshake -/

theorem startHandshake_inv {s : State} (i : Inv s) (a : Nat) : Inv (startHandshake s a).1 := by
  unfold startHandshake
  cases hv : s.vpnIps.get a with
  | some h => exact i
  | none =>
    simp only
    obtain ⟨u1, u2, u3⟩ := fresh_unref i.core (Nat.le_refl s.next)
    have ho := obj_fresh i.core (Nat.le_refl s.next)
    refine ⟨core_update i.core s.next { addrs := [a] } u3 (by simp) (fun y => by simp [get_set]) rfl rfl rfl rfl rfl rfl
      (no_relay_idx_of_fresh i.core (Nat.le_refl _)) ?_ ?_ ?_ (by intro _ _ hr; simp at hr)
      (fun _ _ _ e => e), fun a' => by simpa [hostList] using i.cap a'⟩
    · intro a' x hx
      simp only [get_set] at hx
      by_cases e : a = a'
      · simp only [e, ↓reduceIte, Option.some.injEq] at hx
        subst hx; subst e
        simp only [↓reduceIte, true_and]
        intro l; exact (i.core.idx _ _ l).2 rfl
      · simp only [e, ↓reduceIte] at hx
        have : x ≠ s.next := fun e' => u1 a' (e' ▸ hx)
        simp [this, hx]
    · intro j x hx
      have hx' : s.pidx.get j = some x := hx
      have : x ≠ s.next := fun e' => u2 j (e' ▸ hx')
      simp [this, hx']
    · intro x hx
      have hx' : s.next + 1 ≤ x := hx
      exact ⟨by omega, by omega⟩

/-! ### allocateIndex -/

theorem allocLoop_spec (h : Nat) (fuel : Nat) : ∀ (s : State) (st : List Nat),
    (∃ idx, allocLoop h fuel s st =
        ({ s.setObj h { s.obj h with lidx := idx } with pidx := s.pidx.set idx h }, .ok idx) ∧
      idx ≠ 0 ∧ s.pidx.get idx = none ∧ s.indexes.get idx = none) ∨
    ((allocLoop h fuel s st).1 = s ∧ ∀ idx, (allocLoop h fuel s st).2 ≠ .ok idx) := by
  induction fuel with
  | zero => intro s st; right; simp [allocLoop]
  | succ n ih =>
    intro s st
    unfold allocLoop
    cases hg : genIndex st with
    | none => right; simp
    | some p =>
      obtain ⟨idx, st'⟩ := p
      simp only
      by_cases c : (s.pidx.get idx).isNone ∧ (s.indexes.get idx).isNone
      · left
        refine ⟨idx, by simp [c], genIndex_nonzero hg, ?_, ?_⟩
        · simpa using c.1
        · simpa using c.2
      · simp only [c, ↓reduceIte]; exact ih s st'

theorem opAlloc_inv {s : State} (i : Inv s) (a : Nat) (st : List Nat) : Inv (opAlloc s a st).1 := by
  unfold opAlloc
  cases hv : s.vpnIps.get a with
  | none => exact i
  | some h =>
    simp only
    by_cases hr : (s.obj h).ready = true
    · simp [hr]; exact i
    · simp only [hr, Bool.false_eq_true, ↓reduceIte, allocateIndex]
      rcases allocLoop_spec h 32 s st with ⟨idx, e, hz, hp, hi⟩ | ⟨e, hne⟩
      · rw [e]
        simp only
        obtain ⟨v1, v2, _⟩ := i.core.vpn a h hv
        have notp : ∀ j, s.pidx.get j ≠ some h := by
          intro j hj; exact hr (i.core.pidx j h hj).2.2.2
        refine ⟨core_update i.core h { s.obj h with lidx := idx, ready := true } v2 (by simp) ?_ rfl rfl rfl rfl rfl rfl
          (no_relay_idx_of_vpn i.core hv) ?_ ?_ ?_ (by intro _ _ _; simp [State.setObj, get_set]) ?_,
          fun a' => by simpa [hostList, State.setObj] using i.cap a'⟩
        · intro y
          simp only [State.setObj, get_set]
          by_cases e' : h = y <;> simp [e', State.obj, get_set]
        · intro a' x hx
          have hx' : s.vpnIps.get a' = some x := hx
          by_cases e' : x = h
          · subst e'
            simp only [↓reduceIte]
            refine ⟨(i.core.vpn a' x hx').1, ?_⟩
            rw [hi]; simp
          · simp [e', hx']
        · intro j x hx
          simp only [State.setObj, get_set] at hx
          by_cases e' : idx = j
          · simp only [e', ↓reduceIte, Option.some.injEq] at hx
            subst hx; subst e'
            simp [hz, hi]
          · simp only [e', ↓reduceIte] at hx
            have : x ≠ h := fun e'' => notp j (e'' ▸ hx)
            simp [this, hx]
        · intro x hx
          have hx' : s.next ≤ x := hx
          refine ⟨hx', ?_⟩
          rintro rfl
          have := obj_fresh i.core hx'
          rw [this] at v1; cases v1
        · intro j x _ hj
          simp only [State.setObj, get_set]
          have : idx ≠ j := by rintro rfl; rw [hp] at hj; cases hj
          simp [this, hj]
      · generalize hal : allocLoop h 32 s st = r at e hne
        obtain ⟨s', res⟩ := r
        simp only at e hne
        subst e
        cases res with
        | ok idx => exact absurd rfl (hne idx)
        | exhausted => exact i
        | randErr => exact i
        | unlinked => exact i

end Nebula.HostMap
