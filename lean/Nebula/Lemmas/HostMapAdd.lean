/-
`unlockedMakePrimary`, `unlockedInnerAddHostInfo` (with the eviction at the cap) and `unlockedAddHostInfo`.
-/
import Nebula.Lemmas.HostMapUpdate

namespace Nebula.HostMap
open FMap

/-- re-writing the list of one address: nothing else moves, members keep their credentials, nobody is dropped -/
theorem core_relist {ex : Option Nat} {s : State} (c : Core ex s) (t : State) (hr : Rep t) (same : SameIdx s t)
    (a : Nat) (l' : List Nat)
    (hl : ∀ a', hostList t a' = if a' = a then l' else hostList s a')
    (hnd : l'.Nodup)
    (hmem : ∀ x ∈ l', (some x = ex ∨ Live s x) ∧ a ∈ (s.obj x).addrs)
    (hkeep : ∀ x ∈ hostList s a, x ∈ l') : Core ex t := by
  have obj : ∀ x, t.obj x = s.obj x := same.obj
  have lv : ∀ x, Live t x ↔ Live s x := fun x => by simp [Live, obj, same.indexes]
  have rst : ∀ x, t.rstate x = s.rstate x := same.rstate
  refine ⟨hr, ?_, ?_, ?_, ?_, ?_, ?_, ?_, ?_, ?_, ?_, ?_, ?_, ?_⟩
  · intro a' x hx
    rw [hl] at hx; rw [obj, lv]
    split at hx
    · rename_i e; subst e; exact hmem x hx
    · exact c.listOk a' x hx
  · intro a'; rw [hl]; split
    · exact hnd
    · exact c.nodup a'
  · intro i x hx; rw [same.indexes] at hx; rw [obj]; exact c.idx i x hx
  · intro i x hx a' ha
    rw [same.indexes] at hx; rw [obj] at ha; rw [hl]
    have := c.reach i x hx a' ha
    split
    · rename_i e; subst e; exact hkeep x this
    · exact this
  · intro r x hx; rw [same.rindexes] at hx; rw [obj, lv]; exact c.ridx r x hx
  · intro i x hx; rw [same.relays] at hx; rw [rst, lv]; exact c.rel i x hx
  · intro x i hl hk; rw [lv] at hl; rw [rst] at hk; rw [same.relays]; exact c.relOwn x i hl hk
  · intro x; rw [rst]; exact c.rok x
  · intro x i hk; rw [rst] at hk; rw [same.next, same.pidx, same.vpnIps]; exact c.rsPend x i hk
  · intro i x hx; rw [same.pidx] at hx; rw [obj, same.indexes]; exact c.pidx i x hx
  · intro a' x hx; rw [same.vpnIps] at hx; rw [obj, lv]; exact c.vpn a' x hx
  · intro x hx; rw [same.next] at hx; rw [same.objs]; exact c.fresh x hx
  · intro a' x hx hr; rw [same.vpnIps] at hx; rw [obj] at hr ⊢; rw [same.pidx]; exact c.vpnReady a' x hx hr

/-! ### `unlockedMakePrimary` -/

theorem primStep_inv {s : State} (c : Core none s) (cap : Cap s) {h a : Nat} (hl : Live s h) (ha : a ∈ (s.obj h).addrs) :
    Core none (primStep h s a) ∧ Cap (primStep h s a) ∧ SameIdx s (primStep h s a) := by
  unfold primStep
  by_cases e : s.hosts.get a = some h
  · simp only [e, ↓reduceIte]; exact ⟨c, cap, SameIdx.refl s⟩
  · simp only [e, ↓reduceIte, removeHost]
    have hmem : h ∈ hostList s a := c.reach _ h hl a ha
    have perm : (h :: (hostList s a).erase h).Perm (hostList s a) := (List.perm_cons_erase hmem).symm
    refine ⟨core_relist c _ (setHosts_rep c.rep a _) (setHosts_same s a _) a _ (setHosts_hostList s a _) ?_ ?_ ?_, ?_,
      setHosts_same s a _⟩
    · exact perm.nodup_iff.mpr (c.nodup a)
    · intro x hx; exact c.listOk a x (perm.mem_iff.mp hx)
    · intro x hx; exact perm.mem_iff.mpr hx
    · intro a'
      rw [setHosts_hostList]
      split
      · rename_i e'; subst e'; rw [perm.length_eq]; exact cap a'
      · exact cap a'

theorem primLoop_inv (h : Nat) (as : List Nat) : ∀ s : State, Core none s → Cap s → Live s h →
    (∀ a ∈ as, a ∈ (s.obj h).addrs) →
    Core none (as.foldl (primStep h) s) ∧ Cap (as.foldl (primStep h) s) ∧ SameIdx s (as.foldl (primStep h) s) := by
  induction as with
  | nil => intro s c cap _ _; exact ⟨c, cap, SameIdx.refl s⟩
  | cons a t ih =>
    intro s c cap hl hs
    obtain ⟨c1, cap1, same1⟩ := primStep_inv c cap hl (hs a (by simp))
    have hl1 : Live (primStep h s a) h := by simpa [Live, same1.obj, same1.indexes] using hl
    have := ih (primStep h s a) c1 cap1 hl1 (by
      intro x hx; rw [same1.obj]; exact hs x (by simp [hx]))
    simp only [List.foldl_cons]
    exact ⟨this.1, this.2.1, same1.trans this.2.2⟩

theorem makePrimary_inv {s : State} (i : Inv s) (h : Nat) :
    Inv (makePrimary s h).1 ∧ SameIdx s (makePrimary s h).1 ∧ ((makePrimary s h).2 = true ↔ Live s h) := by
  unfold makePrimary
  by_cases hl : s.indexes.get (s.obj h).lidx = some h
  · simp only [ne_eq, hl, not_true_eq_false, ↓reduceIte]
    obtain ⟨c, cap, same⟩ := primLoop_inv h (s.obj h).addrs s i.core i.cap hl (fun a ha => ha)
    exact ⟨⟨c, cap⟩, same, by simp [Live, hl]⟩
  · simp only [ne_eq, hl, not_false_eq_true, ↓reduceIte]
    exact ⟨i, SameIdx.refl s, by simp [Live, hl]⟩

/-! ### `unlockedInnerAddHostInfo` / `unlockedAddHostInfo` -/

theorem getLastD_cons_mem (h d : Nat) (r : List Nat) (hr : r ≠ []) : (h :: r).getLastD d ∈ r := by
  have : (h :: r).getLastD d = r.getLast hr := by
    cases r with
    | nil => exact absurd rfl hr
    | cons y ys => simp [List.getLastD, List.getLast_cons]
  rw [this]; exact List.getLast_mem hr

/-- loop invariant of `unlockedAddHostInfo(h)`: `h` sits in lists but is not indexed yet -/
structure Adding (h : Nat) (s : State) : Prop where
  core : Core (some h) s
  cap : Cap s
  free : s.indexes.get (s.obj h).lidx = none

/-- what the address loop may change -/
structure AddFrame (s t : State) : Prop where
  objs : t.objs = s.objs
  vpnIps : t.vpnIps = s.vpnIps
  pidx : t.pidx = s.pidx
  next : t.next = s.next
  rs : ∀ x, RsLe (s.rstate x) (t.rstate x)
  idxSub : ∀ i x, t.indexes.get i = some x → s.indexes.get i = some x
  relSub : ∀ i x, t.relays.get i = some x → s.relays.get i = some x
  ridxKeep : ∀ r x, s.rindexes.get r = some x →
    t.rindexes.get r = some x ∨ t.indexes.get (s.obj x).lidx ≠ some x

theorem AddFrame.refl (s : State) : AddFrame s s :=
  ⟨rfl, rfl, rfl, rfl, fun _ => RsLe.refl _, fun _ _ e => e, fun _ _ e => e, fun _ _ e => Or.inl e⟩
theorem AddFrame.trans {s t u : State} (a : AddFrame s t) (b : AddFrame t u) : AddFrame s u :=
  ⟨b.objs.trans a.objs, b.vpnIps.trans a.vpnIps, b.pidx.trans a.pidx, b.next.trans a.next,
   fun x => (a.rs x).trans (b.rs x), fun i x e => a.idxSub i x (b.idxSub i x e),
   fun i x e => a.relSub i x (b.relSub i x e),
   fun r x e => by
     have ho : t.obj x = s.obj x := by simp [State.obj, a.objs]
     rcases a.ridxKeep r x e with k | k
     · rcases b.ridxKeep r x k with k2 | k2
       · exact Or.inl k2
       · right; rw [← ho]; exact k2
     · right; intro e2; exact k (b.idxSub _ x e2)⟩
theorem SameIdx.addFrame {s t : State} (a : SameIdx s t) : AddFrame s t :=
  ⟨a.objs, a.vpnIps, a.pidx, a.next, fun x => by rw [a.rstate]; exact RsLe.refl _,
   fun i x e => by rw [a.indexes] at e; exact e, fun i x e => by rw [a.relays] at e; exact e,
   fun r x e => Or.inl (by rw [a.rindexes]; exact e)⟩

theorem DeleteSpec.addFrame {s t : State} {h : Nat} {f : Bool} (d : DeleteSpec s h t f)
    (hr : ∀ r x, s.rindexes.get r = some x → (s.obj x).ridx = r) : AddFrame s t := by
  refine ⟨d.objs, d.vpnIps, d.pidx, d.next, d.rs, fun i x e => ?_, fun i x e => ?_, fun r x e => ?_⟩
  · rw [d.indexes] at e; split at e
    · cases e
    · exact e
  · rw [d.relays] at e; split at e
    · cases e
    · exact e
  · rw [d.rindexes]
    by_cases c : r = (s.obj h).ridx ∧ s.rindexes.get r = some h
    · right
      have : x = h := by rw [c.2] at e; exact (Option.some.inj e).symm
      subst this
      rw [d.indexes]
      by_cases c2 : s.indexes.get (s.obj x).lidx = some x
      · simp [c2]
      · simp [c2]
    · left; simp only [c, ↓reduceIte]; exact e

theorem not_indexed_of_free {h : Nat} {s : State} (j : Adding h s) : ∀ i, s.indexes.get i ≠ some h := by
  intro i hi
  have := (j.core.idx i h hi).1
  subst this
  rw [j.free] at hi; cases hi

theorem innerAdd_inv {h a : Nat} {s : State} (j : Adding h s) (ha : a ∈ (s.obj h).addrs) :
    Adding h (innerAdd h s a) ∧ AddFrame s (innerAdd h s a) ∧ h ∈ hostList (innerAdd h s a) a ∧
    (∀ a', h ∈ hostList s a' → h ∈ hostList (innerAdd h s a) a') := by
  unfold innerAdd
  cases hh : s.hosts.get a with
  | none =>
    simp only
    have hm : s.more.get a = none := rep_more_none j.core.rep hh
    have hl0 : hostList s a = [] := by simp [hostList_hosts hm, hh]
    let t : State := { s with hosts := s.hosts.set a h }
    have same : SameIdx s t := ⟨rfl, rfl, rfl, rfl, rfl, rfl, rfl, rfl⟩
    have hl : ∀ a', hostList t a' = if a' = a then [h] else hostList s a' := by
      intro a'
      by_cases e : a' = a
      · subst e; simp [t, hostList, hm, get_set]
      · simp [t, hostList, get_set, e, Ne.symm e]
    have hr : Rep t := by
      intro a' l hml
      have hne : a ≠ a' := by rintro rfl; simp [t, hm] at hml
      have := j.core.rep a' l hml
      simpa [t, get_set, hne] using this
    have c' : Core (some h) t := core_relist j.core t hr same a [h] hl (by simp)
      (by intro x hx; simp at hx; subst hx; exact ⟨Or.inl rfl, ha⟩) (by simp [hl0])
    refine ⟨⟨c', ?_, ?_⟩, same.addFrame, ?_, ?_⟩
    · intro a'; rw [hl]; split
      · simp [maxHostInfos, Nebula.Gen.hostmap_MaxHostInfosPerVpnIp]
      · exact j.cap a'
    · simpa [t, same.obj] using j.free
    · rw [hl]; simp
    · intro a' hm'; rw [hl]; split
      · simp
      · exact hm'
  | some existing =>
    simp only [removeHost]
    have hl0 : (s.more.get a).getD [existing] = hostList s a := by
      cases hm : s.more.get a with
      | none => simp [hostList_hosts hm, hh]
      | some l => simp [hostList_more hm]
    rw [hl0]
    let l := hostList s a
    let list := h :: l.erase h
    let s1 := setHostsForAddr s a list
    have hnd : list.Nodup := by
      refine List.nodup_cons.mpr ⟨?_, (j.core.nodup a).sublist List.erase_sublist⟩
      intro hm; exact ((j.core.nodup a).mem_erase_iff.mp hm).1 rfl
    have hmem : ∀ x ∈ list, (some x = some h ∨ Live s x) ∧ a ∈ (s.obj x).addrs := by
      intro x hx
      rcases List.mem_cons.mp hx with e | e
      · subst e; exact ⟨Or.inl rfl, ha⟩
      · exact j.core.listOk a x (List.mem_of_mem_erase e)
    have hkeep : ∀ x ∈ hostList s a, x ∈ list := by
      intro x hx
      by_cases e : x = h
      · subst e; simp [list]
      · exact List.mem_cons_of_mem _ ((List.mem_erase_of_ne e).mpr hx)
    have same1 : SameIdx s s1 := setHosts_same s a list
    have hl1 : ∀ a', hostList s1 a' = if a' = a then list else hostList s a' := setHosts_hostList s a list
    have c1 : Core (some h) s1 :=
      core_relist j.core s1 (setHosts_rep j.core.rep a list) same1 a list hl1 hnd hmem hkeep
    have free1 : s1.indexes.get (s1.obj h).lidx = none := by simpa [same1.obj, same1.indexes] using j.free
    have len : list.length ≤ maxHostInfos + 1 := by
      have := j.cap a
      have h2 : ((hostList s a).erase h).length ≤ (hostList s a).length := List.length_erase_le
      simp only [list, l, List.length_cons]; omega
    have mono1 : ∀ a', h ∈ hostList s a' → h ∈ hostList s1 a' := by
      intro a' hm'; rw [hl1]; split
      · simp [list]
      · exact hm'
    by_cases hbig : list.length > maxHostInfos
    · simp only [show (h :: (hostList s a).erase h).length > maxHostInfos from hbig, ↓reduceIte]
      -- evict the oldest
      have hne : l.erase h ≠ [] := by
        intro e; simp [list, e, maxHostInfos, Nebula.Gen.hostmap_MaxHostInfosPerVpnIp] at hbig
      have hold_mem : list.getLastD 0 ∈ l.erase h := by
        exact getLastD_cons_mem h 0 (l.erase h) hne
      have hold_ne : list.getLastD 0 ≠ h := by
        intro e; rw [e] at hold_mem
        exact ((j.core.nodup a).mem_erase_iff.mp hold_mem).1 rfl
      generalize list.getLastD 0 = old at hold_mem hold_ne
      obtain ⟨c2, l2, d2⟩ := deleteHost_core c1 old (by simpa using hold_ne)
      refine ⟨⟨c2, ?_, ?_⟩, ?_, ?_, ?_⟩
      · intro a'
        rw [l2 a', hl1 a']
        split
        · rename_i e; subst e
          have hin : old ∈ list := List.mem_cons_of_mem _ hold_mem
          have : (list.filter (· != old)).length < list.length := by
            exact (List.length_filter_lt_length_iff_exists (p := fun x => x != old)).mpr ⟨old, hin, by simp⟩
          omega
        · exact Nat.le_trans (List.length_filter_le _ _) (j.cap a')
      · have ho : (deleteHost s1 old).1.obj h = s1.obj h := by simp [State.obj, d2.objs]
        rw [ho, d2.indexes, free1]; simp
      · exact same1.addFrame.trans (d2.addFrame (fun r x e => (c1.ridx r x e).2))
      · rw [l2 a, hl1 a]; simp [list, Ne.symm hold_ne]
      · intro a' hm'
        rw [l2 a']
        exact List.mem_filter.mpr ⟨mono1 a' hm', by simp [Ne.symm hold_ne]⟩
    · simp only [show ¬ (h :: (hostList s a).erase h).length > maxHostInfos from hbig, ↓reduceIte]
      refine ⟨⟨c1, ?_, free1⟩, same1.addFrame, ?_, mono1⟩
      · intro a'; rw [hl1]; split
        · omega
        · exact j.cap a'
      · rw [hl1]; simp [list]

end Nebula.HostMap
