/-
C23: from slots to lanes to the MultiCoalescer.
-/
import Nebula.Lemmas.CoalesceSlot

namespace Nebula.Lemmas.Coalesce
open Nebula.Coalesce Nebula.Gen
open Nebula.Spec
open Nebula.Spec.KernelGSO (mask kernelSeg ppConsistent)

theorem lane_seg {tcp : Bool} (slots : List Slot) (h : ∀ s ∈ slots, SlotOK tcp s) :
    ((slots.map (slotOut tcp)).flatMap kernelSeg).map mask = (slots.flatMap (·.ghost)).map mask := by
  induction slots with
  | nil => rfl
  | cons s rest ih =>
    simp only [List.map_cons, List.flatMap_cons, List.map_append]
    rw [slot_seg (h s (by simp)), ih (fun x hx => h x (by simp [hx]))]

theorem laneFlush_seg {tcp : Bool} {ex} {c : Lane} (h : LaneInv tcp ex c) :
    ((c.flush tcp).flatMap kernelSeg).map mask = (lanePkts c).map mask :=
  lane_seg c.slots h.ok

structure MultiInv (m : Multi) : Prop where
  tcp : LaneInv true none m.tcp
  udp : LaneInv false none m.udp

/-- every packet the MultiCoalescer holds, in emission order -/
def multiPkts (m : Multi) : List Bytes := lanePkts m.tcp ++ lanePkts m.udp ++ m.pt

theorem multiInv_init (tso uso : Bool) : MultiInv { tso := tso, uso := uso } :=
  ⟨laneInv_init true, laneInv_init false⟩

theorem dispatch_inv {m : Multi} {sp : Staged} (h : MultiInv m)
    (hc : ppConsistent sp.pkt sp.proto sp.ipHdrLen sp.fragAny = true) :
    MultiInv (m.dispatch sp) ∧ (multiPkts (m.dispatch sp)).Perm (multiPkts m ++ [sp.pkt]) ∧
      (m.dispatch sp).tso = m.tso ∧ (m.dispatch sp).uso = m.uso := by
  unfold Multi.dispatch
  by_cases ht : sp.proto = batch_ipProtoTCP ∧ m.tso = true
  · rw [if_pos ht]
    obtain ⟨hi, hp⟩ := commitStaged_inv (tcp := true) h.tcp (by rw [ht.1]; rfl) hc
    refine ⟨⟨hi, h.udp⟩, ?_, rfl, rfl⟩
    simp only [multiPkts]
    have := (hp.append_right (lanePkts m.udp)).append_right m.pt
    refine this.trans ?_
    simp only [List.append_assoc]
    apply List.Perm.append_left
    have : ([sp.pkt] ++ (lanePkts m.udp ++ m.pt)).Perm ((lanePkts m.udp ++ m.pt) ++ [sp.pkt]) := List.perm_append_comm
    simpa using this
  · rw [if_neg ht]
    by_cases hu : sp.proto = batch_ipProtoUDP ∧ m.uso = true
    · rw [if_pos hu]
      obtain ⟨hi, hp⟩ := commitStaged_inv (tcp := false) h.udp (by rw [hu.1]; rfl) hc
      refine ⟨⟨h.tcp, hi⟩, ?_, rfl, rfl⟩
      simp only [multiPkts]
      have := (hp.append_left (lanePkts m.tcp)).append_right m.pt
      refine this.trans ?_
      simp only [List.append_assoc]
      apply List.Perm.append_left
      apply List.Perm.append_left
      exact List.perm_append_comm
    · rw [if_neg hu]
      refine ⟨⟨h.tcp, h.udp⟩, ?_, rfl, rfl⟩
      simp only [multiPkts, List.append_assoc]
      exact List.Perm.refl _

theorem foldl_dispatch_inv (l : List Staged) (m : Multi) (h : MultiInv m)
    (hc : ∀ sp ∈ l, ppConsistent sp.pkt sp.proto sp.ipHdrLen sp.fragAny = true) :
    MultiInv (l.foldl Multi.dispatch m) ∧
      (multiPkts (l.foldl Multi.dispatch m)).Perm (multiPkts m ++ l.map (·.pkt)) := by
  induction l generalizing m with
  | nil => exact ⟨h, by simp⟩
  | cons sp rest ih =>
    obtain ⟨hi, hp, _, _⟩ := dispatch_inv h (hc sp (by simp))
    obtain ⟨hi', hp'⟩ := ih (m.dispatch sp) hi (fun x hx => hc x (by simp [hx]))
    refine ⟨hi', ?_⟩
    simp only [List.foldl_cons, List.map_cons]
    refine hp'.trans ?_
    have := hp.append_right (rest.map (·.pkt))
    simpa using this

theorem dispatchAll_inv (tso uso : Bool) (l : List Staged)
    (hc : ∀ sp ∈ l, ppConsistent sp.pkt sp.proto sp.ipHdrLen sp.fragAny = true) :
    MultiInv (dispatchAll tso uso l) ∧ (multiPkts (dispatchAll tso uso l)).Perm (l.map (·.pkt)) := by
  have := foldl_dispatch_inv l { tso := tso, uso := uso } (multiInv_init tso uso) hc
  refine ⟨this.1, ?_⟩
  have h2 := this.2
  simpa [multiPkts, lanePkts, dispatchAll] using h2

theorem multiFlush_seg {m : Multi} (h : MultiInv m) :
    (m.flush.flatMap kernelSeg).map mask = (multiPkts m).map mask := by
  unfold Multi.flush multiPkts
  simp only [List.flatMap_append, List.map_append]
  rw [laneFlush_seg h.tcp, laneFlush_seg h.udp]
  congr 1
  induction m.pt with
  | nil => rfl
  | cons a t ih => simp only [List.map_cons, List.flatMap_cons, kernelSeg, List.map_append, ih]; rfl

/-- the hypothesis of the C23 theorems: the parser's view (`Protocol`, `IPHdrLen`, `FragAny`) of each
staged packet agrees with its bytes -/
def Consistent (l : List Staged) : Prop :=
  ∀ sp ∈ l, ppConsistent sp.pkt sp.proto sp.ipHdrLen sp.fragAny = true

/-! example packets for the non-vacuity examples of Props/C23 -/
def udpA : Bytes := [0x45,0,0,30, 0,1,0x40,0, 64,17,0,0, 10,0,0,1, 10,0,0,2, 0x13,0x88,0x17,0x70, 0,10,0,0, 1,2]
def udpB : Bytes := [0x45,0,0,30, 0,2,0x40,0, 64,17,0,0, 10,0,0,1, 10,0,0,2, 0x13,0x88,0x17,0x70, 0,10,0,0, 3,4]
def exBatch : List Staged :=
  [{ pkt := udpA, epoch := 1, counter := 1, proto := 17, fragAny := false, ipHdrLen := 20 },
   { pkt := udpB, epoch := 1, counter := 2, proto := 17, fragAny := false, ipHdrLen := 20 }]

end Nebula.Lemmas.Coalesce
