/-
`unlockedAddHostInfo` keeps the invariant when the tunnel's index is free (what `CheckAndComplete` checks / what
owning a pending index guarantees for `Complete`).
-/
import Nebula.Lemmas.HostMapAdd

namespace Nebula.HostMap
open FMap

theorem addLoop_inv (h : Nat) (as : List Nat) : ∀ s : State, Adding h s → (∀ a ∈ as, a ∈ (s.obj h).addrs) →
    Adding h (as.foldl (innerAdd h) s) ∧ AddFrame s (as.foldl (innerAdd h) s) ∧
    (∀ a ∈ as, h ∈ hostList (as.foldl (innerAdd h) s) a) ∧
    (∀ a', h ∈ hostList s a' → h ∈ hostList (as.foldl (innerAdd h) s) a') := by
  induction as with
  | nil => intro s j _; exact ⟨j, AddFrame.refl s, by simp, fun _ hm => hm⟩
  | cons a r ih =>
    intro s j hs
    obtain ⟨j1, f1, m1, mono1⟩ := innerAdd_inv j (hs a (by simp))
    have ho : (innerAdd h s a).obj h = s.obj h := by simp [State.obj, f1.objs]
    obtain ⟨j2, f2, m2, mono2⟩ := ih (innerAdd h s a) j1 (by intro x hx; rw [ho]; exact hs x (by simp [hx]))
    simp only [List.foldl_cons]
    refine ⟨j2, f1.trans f2, ?_, fun a' hm => mono2 a' (mono1 a' hm)⟩
    intro x hx
    rcases List.mem_cons.mp hx with e | e
    · subst e; exact mono2 x m1
    · exact m2 x e

theorem core_weaken {s : State} (c : Core none s) (h : Nat) (hv : ∀ a, s.vpnIps.get a ≠ some h)
    (hnr : ∀ i, ((s.rstate h).byIdx.get i).isSome = false) : Core (some h) s := by
  refine ⟨c.rep, ?_, c.nodup, c.idx, c.reach, c.ridx, c.rel, c.relOwn, c.rok, ?_, c.pidx, ?_, c.fresh, c.vpnReady⟩
  · intro a x hx
    obtain ⟨p1, p2⟩ := c.listOk a x hx
    exact ⟨Or.inr (p1.resolve_left (by simp)), p2⟩
  · intro x i hk
    obtain ⟨p1, p2, p3, _⟩ := c.rsPend x i hk
    refine ⟨p1, p2, p3, ?_⟩
    intro e
    have : x = h := Option.some.inj e
    subst this; rw [hnr i] at hk; cases hk
  · intro a x hx
    obtain ⟨p1, p2, _⟩ := c.vpn a x hx
    refine ⟨p1, p2, ?_⟩
    intro e
    have : x = h := Option.some.inj e
    subst this; exact hv a hx

/-- what `unlockedAddHostInfo(h)` may change -/
structure AddHostFrame (s t : State) (h : Nat) : Prop where
  objs : t.objs = s.objs
  vpnIps : t.vpnIps = s.vpnIps
  pidx : t.pidx = s.pidx
  next : t.next = s.next
  rs : ∀ x, RsLe (s.rstate x) (t.rstate x)
  idxSub : ∀ i x, t.indexes.get i = some x → s.indexes.get i = some x ∨ x = h
  relSub : ∀ i x, t.relays.get i = some x → s.relays.get i = some x
  ridxKeep : ∀ r x, s.rindexes.get r = some x →
    t.rindexes.get r = some x ∨ t.indexes.get (s.obj x).lidx ≠ some x ∨ t.rindexes.get r = some h

theorem addHost_inv {s : State} {h : Nat} (c : Core none s) (cap : Cap s)
    (hfree : s.indexes.get (s.obj h).lidx = none) (hnz : (s.obj h).lidx ≠ 0)
    (hp : s.pidx.get (s.obj h).lidx = none) (hv : ∀ a, s.vpnIps.get a ≠ some h)
    (hnr : ∀ i, ((s.rstate h).byIdx.get i).isSome = false) :
    Inv (addHost s h) ∧ AddHostFrame s (addHost s h) h := by
  obtain ⟨j, f, m, _⟩ := addLoop_inv h (s.obj h).addrs s ⟨core_weaken c h hv hnr, cap, hfree⟩ (fun a ha => ha)
  simp only [addHost]
  generalize (s.obj h).addrs.foldl (innerAdd h) s = s1 at j f m
  have ho : ∀ x, s1.obj x = s.obj x := fun x => by simp [State.obj, f.objs]
  have free1 : s1.indexes.get (s.obj h).lidx = none := by simpa [ho] using j.free
  have nidx := not_indexed_of_free j
  let t : State := { s1 with indexes := s1.indexes.set (s.obj h).lidx h, rindexes := s1.rindexes.set (s.obj h).ridx h }
  have hto : ∀ x, t.obj x = s.obj x := fun x => by simp [t, State.obj, f.objs]
  have hl : ∀ a, hostList t a = hostList s1 a := fun a => by simp [t, hostList]
  have rst : ∀ x, t.rstate x = s1.rstate x := fun x => by simp [t, State.rstate]
  have liveh : Live t h := by simp [Live, hto, t, get_set]
  have liveKeep : ∀ x, Live s1 x → Live t x := by
    intro x hx
    simp only [Live, ho] at hx
    simp only [Live, hto, t, get_set]
    by_cases e : (s.obj h).lidx = (s.obj x).lidx
    · rw [← e, free1] at hx; cases hx
    · simp [e, hx]
  have liveBack : ∀ x, x ≠ h → Live t x → Live s1 x := by
    intro x hx hl'
    simp only [Live, hto, t, get_set] at hl'
    simp only [Live, ho]
    by_cases e : (s.obj h).lidx = (s.obj x).lidx
    · simp [e] at hl'; exact absurd hl'.symm hx
    · simpa [e] using hl'
  show Inv t ∧ AddHostFrame s t h
  have hframe : AddHostFrame s t h := by
    refine ⟨f.objs, f.vpnIps, f.pidx, f.next, f.rs, fun i x e => ?_, fun i x e => f.relSub i x e, fun r x e => ?_⟩
    · have e' : (s1.indexes.set (s.obj h).lidx h).get i = some x := e
      rw [get_set] at e'
      by_cases c : (s.obj h).lidx = i
      · simp only [c, ↓reduceIte, Option.some.injEq] at e'; exact Or.inr e'.symm
      · simp only [c, ↓reduceIte] at e'; exact Or.inl (f.idxSub i x e')
    · show (s1.rindexes.set (s.obj h).ridx h).get r = some x ∨
        (s1.indexes.set (s.obj h).lidx h).get (s.obj x).lidx ≠ some x ∨ (s1.rindexes.set (s.obj h).ridx h).get r = some h
      simp only [get_set]
      by_cases cr : (s.obj h).ridx = r
      · right; right; simp [cr]
      · simp only [cr, ↓reduceIte]
        rcases f.ridxKeep r x e with k | k
        · exact Or.inl k
        · right; left
          by_cases c2 : (s.obj h).lidx = (s.obj x).lidx
          · simp only [c2, ↓reduceIte, ne_eq, Option.some.injEq]
            intro e2; subst e2
            -- x = h would have a remote index entry before being added: impossible, h is not live in s
            have := (c.ridx r h e).1
            simp only [Live] at this
            rw [hfree] at this; cases this
          · simp only [c2, ↓reduceIte]; exact k
  refine ⟨⟨⟨?_, ?_, ?_, ?_, ?_, ?_, ?_, ?_, ?_, ?_, ?_, ?_, ?_, ?_⟩, ?_⟩, hframe⟩
  · exact j.core.rep
  · intro a x hx
    rw [hl] at hx
    obtain ⟨p1, p2⟩ := j.core.listOk a x hx
    rw [hto, ← ho]
    refine ⟨Or.inr ?_, p2⟩
    rcases p1 with e | e
    · have : x = h := Option.some.inj e
      subst this; exact liveh
    · exact liveKeep x e
  · intro a; rw [hl]; exact j.core.nodup a
  · intro i x hx
    simp only [t, get_set] at hx
    rw [hto]
    by_cases e : (s.obj h).lidx = i
    · simp only [e, ↓reduceIte, Option.some.injEq] at hx
      subst hx; exact ⟨e, e ▸ hnz⟩
    · simp only [e, ↓reduceIte] at hx
      rw [← ho]; exact j.core.idx i x hx
  · intro i x hx a ha
    simp only [t, get_set] at hx
    rw [hto] at ha; rw [hl]
    by_cases e : (s.obj h).lidx = i
    · simp only [e, ↓reduceIte, Option.some.injEq] at hx
      subst hx; exact m a ha
    · simp only [e, ↓reduceIte] at hx
      rw [← ho] at ha; exact j.core.reach i x hx a ha
  · intro r x hx
    simp only [t, get_set] at hx
    rw [hto]
    by_cases e : (s.obj h).ridx = r
    · simp only [e, ↓reduceIte, Option.some.injEq] at hx
      subst hx; exact ⟨liveh, e⟩
    · simp only [e, ↓reduceIte] at hx
      obtain ⟨p1, p2⟩ := j.core.ridx r x hx
      rw [← ho]; exact ⟨liveKeep x p1, p2⟩
  · intro i x hx
    have hx' : s1.relays.get i = some x := hx
    obtain ⟨p1, p2⟩ := j.core.rel i x hx'
    rw [rst]; exact ⟨liveKeep x p1, p2⟩
  · intro x i hl' hk
    rw [rst] at hk
    have hxh : x ≠ h := fun e => (j.core.rsPend x i hk).2.2.2 (by rw [e])
    show s1.relays.get i = some x
    exact j.core.relOwn x i (liveBack x hxh hl') hk
  · intro x; rw [rst]; exact j.core.rok x
  · intro x i hk
    rw [rst] at hk
    obtain ⟨p1, p2, p3, _⟩ := j.core.rsPend x i hk
    exact ⟨p1, p2, p3, by simp⟩
  · intro i x hx
    have hx' : s1.pidx.get i = some x := hx
    obtain ⟨p1, p2, p3, p4⟩ := j.core.pidx i x hx'
    rw [hto, ← ho]
    refine ⟨p1, p2, ?_, p4⟩
    simp only [t, get_set]
    by_cases e : (s.obj h).lidx = i
    · subst e; rw [f.pidx, hp] at hx'; cases hx'
    · simp [e, p3]
  · intro a x hx
    have hx' : s1.vpnIps.get a = some x := hx
    obtain ⟨p1, p2, p3⟩ := j.core.vpn a x hx'
    rw [hto, ← ho]
    have hxh : x ≠ h := fun e => p3 (by rw [e])
    exact ⟨p1, fun l => p2 (liveBack x hxh l), by simp⟩
  · intro x hx
    have hx' : s1.next ≤ x := hx
    show s1.objs.get x = none
    exact j.core.fresh x hx'
  · intro a x hx hr
    have hx' : s1.vpnIps.get a = some x := hx
    rw [hto] at hr ⊢; rw [← ho] at hr ⊢
    exact j.core.vpnReady a x hx' hr
  · intro a; rw [hl]; exact j.cap a

end Nebula.HostMap

namespace Nebula.HostMap
open FMap

/-- what an operation may do to the index maps and to the tunnels that hold indexes; `fresh` = the tunnels it may bring
into the main hostmap -/
structure OpFrame (pre post : State) (fresh : List Nat) : Prop where
  idxSub : ∀ i x, post.indexes.get i = some x → pre.indexes.get i = some x ∨ x ∈ fresh
  objLive : ∀ x, Live pre x → post.obj x = pre.obj x
  keysMono : ∀ x i, ((pre.rstate x).byIdx.get i).isSome = true → ((post.rstate x).byIdx.get i).isSome = true
  objPend : ∀ i x, pre.pidx.get i = some x → (post.obj x).lidx = i ∧ (post.obj x).ready = true
  ridxKeep : ∀ r x, pre.rindexes.get r = some x →
    post.rindexes.get r = some x ∨ ¬ Live post x ∨ ∃ h', post.rindexes.get r = some h' ∧ h' ∈ fresh

theorem OpFrame.mono {pre post : State} {f g : List Nat} (o : OpFrame pre post f) (h : ∀ x ∈ f, x ∈ g) :
    OpFrame pre post g :=
  ⟨fun i x e => (o.idxSub i x e).imp id (h x), o.objLive, o.keysMono, o.objPend,
   fun r x e => (o.ridxKeep r x e).imp id (Or.imp id fun ⟨h', a, b⟩ => ⟨h', a, h h' b⟩)⟩

/-- operations that leave `Indexes` / `RemoteIndexes` alone and do not touch tunnels holding an index -/
theorem opFrame_basic {pre post : State} (c : Core none pre) (hi : post.indexes = pre.indexes)
    (hr : post.rindexes = pre.rindexes)
    (ho : ∀ x, (Live pre x ∨ ∃ i, pre.pidx.get i = some x) → post.obj x = pre.obj x)
    (hk : ∀ x i, ((pre.rstate x).byIdx.get i).isSome = true → ((post.rstate x).byIdx.get i).isSome = true) :
    OpFrame pre post [] := by
  refine ⟨fun i x e => Or.inl (hi ▸ e), fun x hl => ho x (Or.inl hl), hk, fun i x e => ?_, fun r x e => Or.inl (by rw [hr]; exact e)⟩
  rw [ho x (Or.inr ⟨i, e⟩)]
  obtain ⟨p1, _, _, p4⟩ := c.pidx i x e
  exact ⟨p1, p4⟩

end Nebula.HostMap
