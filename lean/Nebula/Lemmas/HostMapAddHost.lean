/-
`unlockedAddHostInfo` keeps the invariant when the tunnel's index is free (what `CheckAndComplete` checks / what
owning a pending index guarantees for `Complete`).
-/
import Nebula.Lemmas.HostMapAdd

namespace Nebula.HostMap
open FMap

theorem addLoop_inv (h : Nat) (as : List Nat) : ∀ s : State, Adding h s → (∀ a ∈ as, a ∈ (s.obj h).addrs) →
    Adding h (as.foldl (innerAdd h) s) ∧ AddFrame s (as.foldl (innerAdd h) s) ∧
    (∀ a ∈ as, h ∈ hostList (as.foldl (innerAdd h) s) a) ∧
    (∀ a', h ∈ hostList s a' → h ∈ hostList (as.foldl (innerAdd h) s) a') := by
  induction as with
  | nil => intro s j _; exact ⟨j, AddFrame.refl s, by simp, fun _ hm => hm⟩
  | cons a r ih =>
    intro s j hs
    obtain ⟨j1, f1, m1, mono1⟩ := innerAdd_inv j (hs a (by simp))
    have ho : (innerAdd h s a).obj h = s.obj h := by simp [State.obj, f1.objs]
    obtain ⟨j2, f2, m2, mono2⟩ := ih (innerAdd h s a) j1 (by intro x hx; rw [ho]; exact hs x (by simp [hx]))
    simp only [List.foldl_cons]
    refine ⟨j2, f1.trans f2, ?_, fun a' hm => mono2 a' (mono1 a' hm)⟩
    intro x hx
    rcases List.mem_cons.mp hx with e | e
    · subst e; exact mono2 x m1
    · exact m2 x e

theorem core_weaken {s : State} (c : Core none s) (h : Nat) (hv : ∀ a, s.vpnIps.get a ≠ some h)
    (hnr : ∀ i, ((s.rstate h).byIdx.get i).isSome = false) : Core (some h) s := by
  refine ⟨c.rep, ?_, c.nodup, c.idx, c.reach, c.ridx, c.rel, c.relOwn, c.rok, ?_, c.pidx, ?_, c.fresh, c.vpnReady⟩
  · intro a x hx
    obtain ⟨p1, p2⟩ := c.listOk a x hx
    exact ⟨Or.inr (p1.resolve_left (by simp)), p2⟩
  · intro x i hk
    obtain ⟨p1, p2, p3, _⟩ := c.rsPend x i hk
    refine ⟨p1, p2, p3, ?_⟩
    intro e
    have : x = h := Option.some.inj e
    subst this; rw [hnr i] at hk; cases hk
  · intro a x hx
    obtain ⟨p1, p2, _⟩ := c.vpn a x hx
    refine ⟨p1, p2, ?_⟩
    intro e
    have : x = h := Option.some.inj e
    subst this; exact hv a hx

theorem addHost_inv {s : State} {h : Nat} (c : Core none s) (cap : Cap s)
    (hfree : s.indexes.get (s.obj h).lidx = none) (hnz : (s.obj h).lidx ≠ 0)
    (hp : s.pidx.get (s.obj h).lidx = none) (hv : ∀ a, s.vpnIps.get a ≠ some h)
    (hnr : ∀ i, ((s.rstate h).byIdx.get i).isSome = false) :
    Inv (addHost s h) ∧ AddFrame s (addHost s h) := by
  obtain ⟨j, f, m, _⟩ := addLoop_inv h (s.obj h).addrs s ⟨core_weaken c h hv hnr, cap, hfree⟩ (fun a ha => ha)
  simp only [addHost]
  generalize (s.obj h).addrs.foldl (innerAdd h) s = s1 at j f m
  have ho : ∀ x, s1.obj x = s.obj x := fun x => by simp [State.obj, f.objs]
  have free1 : s1.indexes.get (s.obj h).lidx = none := by simpa [ho] using j.free
  have nidx := not_indexed_of_free j
  let t : State := { s1 with indexes := s1.indexes.set (s.obj h).lidx h, rindexes := s1.rindexes.set (s.obj h).ridx h }
  have hto : ∀ x, t.obj x = s.obj x := fun x => by simp [t, State.obj, f.objs]
  have hl : ∀ a, hostList t a = hostList s1 a := fun a => by simp [t, hostList]
  have rst : ∀ x, t.rstate x = s1.rstate x := fun x => by simp [t, State.rstate]
  have liveh : Live t h := by simp [Live, hto, t, get_set]
  have liveKeep : ∀ x, Live s1 x → Live t x := by
    intro x hx
    simp only [Live, ho] at hx
    simp only [Live, hto, t, get_set]
    by_cases e : (s.obj h).lidx = (s.obj x).lidx
    · rw [← e, free1] at hx; cases hx
    · simp [e, hx]
  have liveBack : ∀ x, x ≠ h → Live t x → Live s1 x := by
    intro x hx hl'
    simp only [Live, hto, t, get_set] at hl'
    simp only [Live, ho]
    by_cases e : (s.obj h).lidx = (s.obj x).lidx
    · simp [e] at hl'; exact absurd hl'.symm hx
    · simpa [e] using hl'
  show Inv t ∧ AddFrame s t
  refine ⟨⟨⟨?_, ?_, ?_, ?_, ?_, ?_, ?_, ?_, ?_, ?_, ?_, ?_, ?_, ?_⟩, ?_⟩, ⟨f.objs, f.vpnIps, f.pidx, f.next, f.rs⟩⟩
  · exact j.core.rep
  · intro a x hx
    rw [hl] at hx
    obtain ⟨p1, p2⟩ := j.core.listOk a x hx
    rw [hto, ← ho]
    refine ⟨Or.inr ?_, p2⟩
    rcases p1 with e | e
    · have : x = h := Option.some.inj e
      subst this; exact liveh
    · exact liveKeep x e
  · intro a; rw [hl]; exact j.core.nodup a
  · intro i x hx
    simp only [t, get_set] at hx
    rw [hto]
    by_cases e : (s.obj h).lidx = i
    · simp only [e, ↓reduceIte, Option.some.injEq] at hx
      subst hx; exact ⟨e, e ▸ hnz⟩
    · simp only [e, ↓reduceIte] at hx
      rw [← ho]; exact j.core.idx i x hx
  · intro i x hx a ha
    simp only [t, get_set] at hx
    rw [hto] at ha; rw [hl]
    by_cases e : (s.obj h).lidx = i
    · simp only [e, ↓reduceIte, Option.some.injEq] at hx
      subst hx; exact m a ha
    · simp only [e, ↓reduceIte] at hx
      rw [← ho] at ha; exact j.core.reach i x hx a ha
  · intro r x hx
    simp only [t, get_set] at hx
    rw [hto]
    by_cases e : (s.obj h).ridx = r
    · simp only [e, ↓reduceIte, Option.some.injEq] at hx
      subst hx; exact ⟨liveh, e⟩
    · simp only [e, ↓reduceIte] at hx
      obtain ⟨p1, p2⟩ := j.core.ridx r x hx
      rw [← ho]; exact ⟨liveKeep x p1, p2⟩
  · intro i x hx
    have hx' : s1.relays.get i = some x := hx
    obtain ⟨p1, p2⟩ := j.core.rel i x hx'
    rw [rst]; exact ⟨liveKeep x p1, p2⟩
  · intro x i hl' hk
    rw [rst] at hk
    have hxh : x ≠ h := fun e => (j.core.rsPend x i hk).2.2.2 (by rw [e])
    show s1.relays.get i = some x
    exact j.core.relOwn x i (liveBack x hxh hl') hk
  · intro x; rw [rst]; exact j.core.rok x
  · intro x i hk
    rw [rst] at hk
    obtain ⟨p1, p2, p3, _⟩ := j.core.rsPend x i hk
    exact ⟨p1, p2, p3, by simp⟩
  · intro i x hx
    have hx' : s1.pidx.get i = some x := hx
    obtain ⟨p1, p2, p3, p4⟩ := j.core.pidx i x hx'
    rw [hto, ← ho]
    refine ⟨p1, p2, ?_, p4⟩
    simp only [t, get_set]
    by_cases e : (s.obj h).lidx = i
    · subst e; rw [f.pidx, hp] at hx'; cases hx'
    · simp [e, p3]
  · intro a x hx
    have hx' : s1.vpnIps.get a = some x := hx
    obtain ⟨p1, p2, p3⟩ := j.core.vpn a x hx'
    rw [hto, ← ho]
    have hxh : x ≠ h := fun e => p3 (by rw [e])
    exact ⟨p1, fun l => p2 (liveBack x hxh l), by simp⟩
  · intro x hx
    have hx' : s1.next ≤ x := hx
    show s1.objs.get x = none
    exact j.core.fresh x hx'
  · intro a x hx hr
    have hx' : s1.vpnIps.get a = some x := hx
    rw [hto] at hr ⊢; rw [← ho] at hr ⊢
    exact j.core.vpnReady a x hx' hr
  · intro a; rw [hl]; exact j.cap a

end Nebula.HostMap
