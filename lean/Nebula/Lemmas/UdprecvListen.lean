import Nebula.Model.UdprecvListen
import Nebula.Props.C27

/-! Helper definitions and lemmas for `Props/C27Listen` (slot reuse across recvmmsg reads). -/
namespace Nebula.Lemmas.UdprecvListen
open Nebula.Udprecv Nebula.Spec.Udprecv Nebula.Lemmas.Udprecv

/-- a fill the kernel can produce for a slot armed with `cmsgSpace` bytes: well-formed messages that fit. -/
def KernelFormed (f : Fill) : Prop :=
  (∀ m ∈ f.msgs, MsgOK m) ∧ (encode f.msgs).length ≤ groCmsgSpace

/-- the slot's ancillary buffer is the `cmsgSpace`-byte slice `prepareRawMessages` wired it to. -/
def SlotOK (s : Slot) : Prop := s.ctrl.length = groCmsgSpace

/-- what the property demands for one fill: the datagram split by ITS OWN reported size (none → whole). -/
def wantFill (f : Fill) : List (List UInt8) := want f.payload (groOf f.msgs)

/-- a plain datagram / a coalesced one with gso_size `g` (as 4 little-endian bytes). -/
def plainFill (p : List UInt8) : Fill := { payload := p, msgs := [] }
def groFill (p : List UInt8) (g : Nat) : Fill := { payload := p, msgs := [{ level := 17, type := 104, data := leBytes 4 g }] }

theorem kernelRead_arm (s : Slot) (f : Fill) (hs : SlotOK s) (hf : KernelFormed f) :
    kernelRead (arm s) f =
      { ctrl := encode f.msgs ++ s.ctrl.drop (encode f.msgs).length, controllen := (encode f.msgs).length } := by
  unfold SlotOK at hs
  obtain ⟨_, hfit⟩ := hf
  simp only [kernelRead, arm, hs, Nat.min_self]
  rw [List.take_of_length_le hfit]

theorem listenStep_spec (s : Slot) (f : Fill) (hs : SlotOK s) (hf : KernelFormed f) :
    (listenStep s f).2 = wantFill f ∧ SlotOK (listenStep s f).1 := by
  have hk := kernelRead_arm s f hs hf
  unfold listenStep
  simp only [hk, parseSlot, List.take_left']
  rw [Nebula.Props.C27.cmsg_kernel_formed f.msgs hf.1]
  refine ⟨by simp [wantFill, Nebula.Props.C27.deliver_eq_spec], ?_⟩
  unfold SlotOK at *
  have := hf.2
  simp only [List.length_append, List.length_drop]; omega

theorem listenRun_spec (s : Slot) (fs : List Fill) (hs : SlotOK s) (hf : ∀ f ∈ fs, KernelFormed f) :
    (listenRun s fs).2 = (fs.map wantFill).flatten ∧ SlotOK (listenRun s fs).1 := by
  induction fs generalizing s with
  | nil => simp [listenRun, hs]
  | cons f fs ih =>
    obtain ⟨h1, h2⟩ := listenStep_spec s f hs (hf f List.mem_cons_self)
    obtain ⟨h3, h4⟩ := ih (listenStep s f).1 h2 (fun x hx => hf x (List.mem_cons_of_mem _ hx))
    simp [listenRun, h1, h3, h4]

theorem arm_ok (s : Slot) (hs : SlotOK s) : SlotOK (arm s) := hs

theorem listenBatch_spec (ss : List Slot) (fs : List Fill) (hs : ∀ s ∈ ss, SlotOK s)
    (hn : fs.length ≤ ss.length) (hf : ∀ f ∈ fs, KernelFormed f) :
    (listenBatch ss fs).2 = (fs.map wantFill).flatten ∧ (∀ s ∈ (listenBatch ss fs).1, SlotOK s) ∧
      (listenBatch ss fs).1.length = ss.length := by
  induction ss generalizing fs with
  | nil =>
    cases fs with
    | nil => simp [listenBatch]
    | cons f fs => simp at hn
  | cons s ss ih =>
    cases fs with
    | nil =>
      obtain ⟨_, h2, h3⟩ := ih [] (fun x hx => hs x (List.mem_cons_of_mem _ hx)) (by simp) (by simp)
      refine ⟨by simp [listenBatch], ?_, by simp [listenBatch, h3]⟩
      intro x hx
      simp only [listenBatch, List.mem_cons] at hx
      rcases hx with rfl | hx
      · exact arm_ok s (hs s List.mem_cons_self)
      · exact h2 x hx
    | cons f fs =>
      obtain ⟨h1, h2⟩ := listenStep_spec s f (hs s List.mem_cons_self) (hf f List.mem_cons_self)
      obtain ⟨h3, h4, h5⟩ := ih fs (fun x hx => hs x (List.mem_cons_of_mem _ hx))
        (by simp at hn; omega) (fun x hx => hf x (List.mem_cons_of_mem _ hx))
      refine ⟨by simp [listenBatch, h1, h3], ?_, by simp [listenBatch, h5]⟩
      intro x hx
      simp only [listenBatch, List.mem_cons] at hx
      rcases hx with rfl | hx
      · exact h2
      · exact h4 x hx

theorem listenOut_spec (ss : List Slot) (bs : List (List Fill)) (hs : ∀ s ∈ ss, SlotOK s)
    (hn : ∀ b ∈ bs, b.length ≤ ss.length) (hf : ∀ b ∈ bs, ∀ f ∈ b, KernelFormed f) :
    (listenOut ss bs).2 = (bs.flatten.map wantFill).flatten := by
  induction bs generalizing ss with
  | nil => simp [listenOut]
  | cons b bs ih =>
    obtain ⟨h1, h2, h3⟩ := listenBatch_spec ss b hs (hn b List.mem_cons_self) (hf b List.mem_cons_self)
    have := ih (listenBatch ss b).1 h2 (fun x hx => by rw [h3]; exact hn x (List.mem_cons_of_mem _ hx))
      (fun x hx => hf x (List.mem_cons_of_mem _ hx))
    simp [listenOut, h1, this]

theorem plain_kernelFormed (p : List UInt8) : KernelFormed (plainFill p) := by
  simp [KernelFormed, plainFill, encode]

theorem gro_kernelFormed (p : List UInt8) (g : Nat) : KernelFormed (groFill p g) := by
  refine ⟨?_, ?_⟩
  · intro m hm
    simp only [groFill, List.mem_singleton] at hm
    subst hm
    simp [MsgOK, leBytes_length]
  · simp [groFill, encode, encodeOne_length, leBytes_length, groCmsgSpace, cmsgSpace, cmsgAlign, sizeofCmsghdr,
      Gen.urx_udpGROCmsgPayload]

theorem fresh_ok : SlotOK Slot.fresh := by simp [SlotOK, Slot.fresh]

end Nebula.Lemmas.UdprecvListen
