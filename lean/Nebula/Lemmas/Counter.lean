/- Invariant and helper lemmas for the message-counter model (C13). -/
import Nebula.Model.Counter

namespace Nebula.Lemmas.Counter
open Nebula.Counter

/-- The only fact about the two regenerated constants that the proofs use: the ceiling sits exactly
`RejectHeadroom` below the top of `uint64` (`RejectAfterMessages = math.MaxUint64 - RejectHeadroom`).
It is evaluated on the constants as regenerated from the source, so a changed headroom that keeps
this relation re-proves everything. -/
theorem reject_add_headroom : reject.toNat + headroom = 2 ^ 64 - 1 := by decide

/-- the headroom hypothesis: in every state reached along the schedule, fewer than `RejectHeadroom`
`Add`s have happened since the counter was last below the ceiling or pinned to it. -/
def Headroom (s : State) (sched : List Step) : Prop :=
  ∀ p q, sched = p ++ q → (run s p).past < headroom

theorem Headroom.head {s : State} {st : Step} {rest : List Step} (h : Headroom s (st :: rest)) :
    s.past < headroom := h [] (st :: rest) rfl

theorem Headroom.tail {s : State} {st : Step} {rest : List Step} (h : Headroom s (st :: rest)) :
    Headroom (step s st) rest := by
  intro p q e
  have := h (st :: p) q (by simp [e])
  simpa [run] using this

structure Inv (ctr0 : U64) (s : State) : Prop where
  lo : ctr0 ≤ s.ctr
  past : reject ≤ s.ctr → s.ctr.toNat = reject.toNat + s.past
  em : ∀ c ∈ s.emitted, ctr0 < c ∧ c < reject ∧ c ≤ s.ctr
  nodup : s.emitted.Nodup
  pd : ∀ t k c, s.pend t = some (k, c) → c < reject → ctr0 < c ∧ c ≤ s.ctr ∧ c ∉ s.emitted
  inj : ∀ t t' k k' c, s.pend t = some (k, c) → s.pend t' = some (k', c) → c < reject → t = t'

theorem inv_init (ctr0 : U64) (h0 : ctr0 ≤ reject) : Inv ctr0 (init ctr0) := by
  refine ⟨BitVec.le_refl _, ?_, by simp [init], by simp [init], by simp [init], by simp [init]⟩
  intro h
  have := reject_add_headroom
  simp only [init] at *
  bv_omega

theorem finResult_cases (s : State) (t : Nat) :
    (s.pend t = none ∧ finResult s t = .none) ∨
    (∃ c, s.pend t = some (false, c) ∧ c < reject ∧ finResult s t = .sealed c) ∨
    (∃ c, s.pend t = some (false, c) ∧ reject ≤ c ∧ finResult s t = .refused c) ∨
    (∃ c, s.pend t = some (true, c) ∧ reject ≤ c ∧ finResult s t = .pinned c) ∨
    (∃ c, s.pend t = some (true, c) ∧ c < reject ∧ finResult s t = .sealed c) := by
  unfold finResult
  cases h : s.pend t with
  | none => simp
  | some v =>
    obtain ⟨k, c⟩ := v
    cases k
    · by_cases hc : c < reject <;> simp [hc]
      bv_omega
    · by_cases hc : reject ≤ c <;> simp [hc]
      bv_omega

theorem finResult_sealed {s : State} {t : Nat} {c : U64} (h : finResult s t = .sealed c) :
    ∃ k, s.pend t = some (k, c) ∧ c < reject := by
  rcases finResult_cases s t with ⟨_, hf⟩ | ⟨c', hp, hc, hf⟩ | ⟨c', _, _, hf⟩ | ⟨c', _, _, hf⟩ | ⟨c', hp, hc, hf⟩ <;>
    rw [hf] at h <;> cases h
  · exact ⟨false, hp, hc⟩
  · exact ⟨true, hp, hc⟩

theorem finResult_pinned {s : State} {t : Nat} {c : U64} (h : finResult s t = .pinned c) :
    s.pend t = some (true, c) ∧ reject ≤ c := by
  rcases finResult_cases s t with ⟨_, hf⟩ | ⟨c', hp, hc, hf⟩ | ⟨c', _, _, hf⟩ | ⟨c', hp, hc, hf⟩ | ⟨c', hp, hc, hf⟩ <;>
    rw [hf] at h <;> cases h
  exact ⟨hp, hc⟩

theorem pend_fin (s : State) (t t' : Nat) :
    (step s (.fin t)).pend t' = if t' = t then none else s.pend t' := by
  rcases finResult_cases s t with ⟨hp, hf⟩ | ⟨c', hp, hc, hf⟩ | ⟨c', hp, _, hf⟩ | ⟨c', hp, _, hf⟩ | ⟨c', hp, hc, hf⟩ <;>
    simp only [step, hf] <;> by_cases e : t' = t <;> simp [e, hp]

theorem ctr_fin_hot (s : State) (t : Nat) (c : U64) (hp : s.pend t = some (false, c)) :
    (step s (.fin t)).ctr = s.ctr := by
  rcases finResult_cases s t with ⟨hp', hf⟩ | ⟨c', hp', hc, hf⟩ | ⟨c', hp', _, hf⟩ | ⟨c', hp', _, hf⟩ | ⟨c', hp', hc, hf⟩ <;>
    simp only [step, hf] <;> simp_all

theorem emitted_fin_cases (s : State) (t : Nat) :
    (step s (.fin t)).emitted = s.emitted ∨
    ∃ k c, s.pend t = some (k, c) ∧ c < reject ∧ (step s (.fin t)).emitted = c :: s.emitted := by
  cases hf : finResult s t with
  | none => left; simp [step, hf]
  | refused c => left; simp [step, hf]
  | pinned c => left; simp [step, hf]
  | sealed c =>
    right
    obtain ⟨k, hp, hc⟩ := finResult_sealed hf
    exact ⟨k, c, hp, hc, by simp [step, hf]⟩

theorem step_inv {ctr0 : U64} (h0 : ctr0 ≤ reject) {s : State} (hi : Inv ctr0 s)
    (hp : s.past < headroom) (st : Step) : Inv ctr0 (step s st) := by
  have hsum := reject_add_headroom
  obtain ⟨lo, past, em, nodup, pd, inj⟩ := hi
  cases st with
  | add ctl t =>
    simp only [step]
    cases hpt : s.pend t with
    | some v => exact ⟨lo, past, em, nodup, pd, inj⟩
    | none =>
      -- the Add does not wrap
      have hnw : s.ctr.toNat + 1 < 2 ^ 64 := by
        by_cases hc : reject ≤ s.ctr
        · have := past hc; omega
        · have : s.ctr.toNat < reject.toNat := by bv_omega
          omega
      have hlt : s.ctr < s.ctr + 1#64 := by bv_omega
      refine ⟨by bv_omega, ?_, ?_, nodup, ?_, ?_⟩
      · intro hge
        simp only
        by_cases hc : reject ≤ s.ctr
        · have := past hc
          simp only [hc, if_true]; bv_omega
        · simp only [hc, if_false]; bv_omega
      · intro c hc
        obtain ⟨a, b, d⟩ := em c hc
        exact ⟨a, b, by bv_omega⟩
      · intro t' k c hpc hcr
        simp only at hpc
        by_cases htt : t' = t
        · simp only [htt, if_true, Option.some.injEq, Prod.mk.injEq] at hpc
          obtain ⟨-, rfl⟩ := hpc
          refine ⟨by bv_omega, BitVec.le_refl _, ?_⟩
          intro hmem
          have := (em _ hmem).2.2
          bv_omega
        · simp only [htt, if_false] at hpc
          obtain ⟨a, b, d⟩ := pd t' k c hpc hcr
          exact ⟨a, by bv_omega, d⟩
      · intro t1 t2 k1 k2 c h1 h2 hcr
        simp only at h1 h2
        by_cases e1 : t1 = t <;> by_cases e2 : t2 = t
        · rw [e1, e2]
        · simp only [e1, if_true, Option.some.injEq, Prod.mk.injEq] at h1
          simp only [e2, if_false] at h2
          obtain ⟨-, rfl⟩ := h1
          have := (pd t2 k2 _ h2 hcr).2.1
          bv_omega
        · simp only [e2, if_true, Option.some.injEq, Prod.mk.injEq] at h2
          simp only [e1, if_false] at h1
          obtain ⟨-, rfl⟩ := h2
          have := (pd t1 k1 _ h1 hcr).2.1
          bv_omega
        · simp only [e1, e2, if_false] at h1 h2
          exact inj t1 t2 k1 k2 c h1 h2 hcr
  | fin t =>
    simp only [step]
    -- facts about a cleared reservation table
    have pd' : ∀ t' k c, (if t' = t then none else s.pend t') = some (k, c) → s.pend t' = some (k, c) ∧ t' ≠ t := by
      intro t' k c h
      by_cases e : t' = t
      · simp [e] at h
      · simp only [e, if_false] at h; exact ⟨h, e⟩
    cases hf : finResult s t with
    | none => exact ⟨lo, past, em, nodup, pd, inj⟩
    | refused c =>
      refine ⟨lo, past, em, nodup, ?_, ?_⟩
      · intro t' k c h hcr
        exact pd t' k c (pd' t' k c h).1 hcr
      · intro t1 t2 k1 k2 c h1 h2 hcr
        exact inj t1 t2 k1 k2 c (pd' _ _ _ h1).1 (pd' _ _ _ h2).1 hcr
    | sealed c =>
      obtain ⟨k, hpt, hcr⟩ := finResult_sealed hf
      obtain ⟨a, b, d⟩ := pd t k c hpt hcr
      refine ⟨lo, past, ?_, ?_, ?_, ?_⟩
      · intro c' hc'
        simp only [List.mem_cons] at hc'
        rcases hc' with rfl | hc'
        · exact ⟨a, hcr, b⟩
        · exact em c' hc'
      · exact List.nodup_cons.mpr ⟨d, nodup⟩
      · intro t' k' c' h hcr'
        obtain ⟨h1, hne⟩ := pd' t' k' c' h
        obtain ⟨a', b', d'⟩ := pd t' k' c' h1 hcr'
        refine ⟨a', b', ?_⟩
        simp only [List.mem_cons, not_or]
        refine ⟨?_, d'⟩
        intro e
        subst e
        exact hne (inj t' t k' k _ h1 hpt hcr')
      · intro t1 t2 k1 k2 c' h1 h2 hcr'
        exact inj t1 t2 k1 k2 c' (pd' _ _ _ h1).1 (pd' _ _ _ h2).1 hcr'
    | pinned c =>
      refine ⟨h0, ?_, ?_, nodup, ?_, ?_⟩
      · intro _; simp
      · intro c' hc'
        obtain ⟨a, b, _⟩ := em c' hc'
        exact ⟨a, b, by bv_omega⟩
      · intro t' k' c' h hcr'
        obtain ⟨a', _, d'⟩ := pd t' k' c' (pd' _ _ _ h).1 hcr'
        exact ⟨a', by bv_omega, d'⟩
      · intro t1 t2 k1 k2 c' h1 h2 hcr'
        exact inj t1 t2 k1 k2 c' (pd' _ _ _ h1).1 (pd' _ _ _ h2).1 hcr'

theorem run_inv {ctr0 : U64} (h0 : ctr0 ≤ reject) (sched : List Step) :
    ∀ s, Inv ctr0 s → Headroom s sched → Inv ctr0 (run s sched) := by
  induction sched with
  | nil => intro s hi _; exact hi
  | cons st rest ih =>
    intro s hi hh
    exact ih (step s st) (step_inv h0 hi hh.head st) hh.tail

/-! ### locked mode -/

/-- no reservation is outstanding -/
def Idle (s : State) : Prop := ∀ t, s.pend t = none

structure LInv (ctr0 : U64) (s : State) : Prop where
  inv : Inv ctr0 s
  idle : Idle s
  sorted : s.emitted.Pairwise (fun a b => b < a)

theorem step_add_fin (s : State) (ctl : Bool) (t : Nat) (hidle : Idle s) :
    Idle (step (step s (.add ctl t)) (.fin t)) := by
  intro t'
  rw [pend_fin]
  by_cases e : t' = t
  · simp [e]
  · simp [e, step, hidle t, hidle t']

theorem locked_pair_inv {ctr0 : U64} (h0 : ctr0 ≤ reject) {s : State} (hi : LInv ctr0 s)
    (hp1 : s.past < headroom) (hp2 : (step s (.add ctl t)).past < headroom) :
    LInv ctr0 (step (step s (.add ctl t)) (.fin t)) := by
  have i1 := step_inv h0 hi.inv hp1 (.add ctl t)
  have i2 := step_inv h0 i1 hp2 (.fin t)
  refine ⟨i2, step_add_fin s ctl t hi.idle, ?_⟩
  -- whatever is sealed by this send is the freshly reserved counter, above everything sealed before
  have hpt := hi.idle t
  have hs1 : (step s (.add ctl t)).emitted = s.emitted := by simp [step, hpt]
  have hp1' : (step s (.add ctl t)).pend t = some (ctl, s.ctr + 1#64) := by simp [step, hpt]
  rcases emitted_fin_cases (step s (.add ctl t)) t with he | ⟨k, c, hpc, hcr, he⟩
  · rw [he, hs1]; exact hi.sorted
  · rw [hp1'] at hpc
    simp only [Option.some.injEq, Prod.mk.injEq] at hpc
    obtain ⟨-, rfl⟩ := hpc
    rw [he, hs1]
    refine List.pairwise_cons.mpr ⟨?_, hi.sorted⟩
    intro a ha
    have h1 := (hi.inv.em a ha).2.2
    have : s.ctr.toNat + 1 < 2 ^ 64 := by
      have hsum := reject_add_headroom
      by_cases hc : reject ≤ s.ctr
      · have := hi.inv.past hc; omega
      · have : s.ctr.toNat < reject.toNat := by bv_omega
        omega
    bv_omega

theorem run_locked_inv {ctr0 : U64} (h0 : ctr0 ≤ reject) (sends : List (Bool × Nat)) :
    ∀ s, LInv ctr0 s → Headroom s (locked sends) → LInv ctr0 (run s (locked sends)) := by
  induction sends with
  | nil => intro s hi _; exact hi
  | cons p rest ih =>
    intro s hi hh
    have e : locked (p :: rest) = Step.add p.1 p.2 :: Step.fin p.2 :: locked rest := by
      simp [locked]
    rw [e] at hh ⊢
    have hp1 := hh.head
    have hp2 := hh.tail.head
    simp only [run, List.foldl_cons]
    exact ih _ (locked_pair_inv h0 hi hp1 hp2) hh.tail.tail

/-! ### without the headroom hypothesis the counter wraps -/

/-- `n` consecutive hot-path sends by one thread -/
def hotSends (n : Nat) : List Step := (List.replicate n [Step.add false 0, Step.fin 0]).flatten

theorem run_append (s : State) (p q : List Step) : run s (p ++ q) = run (run s p) q := by
  simp [run, List.foldl_append]

theorem hotSends_succ (n : Nat) : hotSends (n + 1) = Step.add false 0 :: Step.fin 0 :: hotSends n := by
  simp [hotSends, List.replicate_succ]

theorem ctr_hotSends (n : Nat) : ∀ s : State, s.pend 0 = none →
    (run s (hotSends n)).ctr = s.ctr + BitVec.ofNat 64 n ∧ (run s (hotSends n)).pend 0 = none := by
  induction n with
  | zero => intro s h; simp [hotSends, run, h]
  | succ n ih =>
    intro s h
    rw [hotSends_succ]
    simp only [run, List.foldl_cons]
    have h1 : (step (step s (.add false 0)) (.fin 0)).pend 0 = none := by
      rw [pend_fin]; simp
    have h2 : (step (step s (.add false 0)) (.fin 0)).ctr = s.ctr + 1#64 := by
      rw [ctr_fin_hot _ 0 (s.ctr + 1#64) (by simp [step, h])]
      simp [step, h]
    obtain ⟨a, b⟩ := ih _ h1
    refine ⟨?_, b⟩
    simp only [run] at a
    rw [a, h2]
    bv_omega

theorem emitted_mono (sched : List Step) : ∀ (s : State) (c : U64), c ∈ s.emitted → c ∈ (run s sched).emitted := by
  induction sched with
  | nil => intro s c h; exact h
  | cons st rest ih =>
    intro s c h
    simp only [run, List.foldl_cons]
    apply ih
    cases st with
    | add ctl t =>
      simp only [step]
      split <;> simp_all
    | fin t =>
      simp only [step]
      cases finResult s t <;> simp_all

theorem hotSend_emits (s : State) (h : s.pend 0 = none) (hc : s.ctr + 1#64 < reject) :
    (run s (hotSends 1)).emitted = (s.ctr + 1#64) :: s.emitted := by
  simp [hotSends, run, step, h, finResult, hc]

theorem ceiling_run (sched : List Step) : ∀ s : State, (∀ c ∈ s.emitted, c < reject) →
    ∀ c ∈ (run s sched).emitted, c < reject := by
  induction sched with
  | nil => intro s h; exact h
  | cons st rest ih =>
    intro s h
    simp only [run, List.foldl_cons]
    apply ih
    cases st with
    | add ctl t =>
      simp only [step]
      split <;> simp_all
    | fin t =>
      rcases emitted_fin_cases s t with he | ⟨k, c, _, hc, he⟩
      · rw [he]; exact h
      · rw [he]; intro c' hc'
        simp only [List.mem_cons] at hc'
        rcases hc' with rfl | hc'
        · exact hc
        · exact h c' hc'

/-- `past` grows by at most one per step: schedules shorter than the headroom satisfy `Headroom`. -/
theorem past_le (sched : List Step) : ∀ s : State, (run s sched).past ≤ s.past + sched.length := by
  induction sched with
  | nil => intro s; simp [run]
  | cons st rest ih =>
    intro s
    simp only [run, List.foldl_cons, List.length_cons]
    have h1 := ih (step s st)
    simp only [run] at h1
    have h2 : (step s st).past ≤ s.past + 1 := by
      cases st with
      | add ctl t =>
        simp only [step]
        split
        · omega
        · simp only; split <;> omega
      | fin t =>
        simp only [step]
        cases finResult s t <;> simp
    omega

theorem headroom_of_short (s : State) (sched : List Step) (h : s.past + sched.length < headroom) :
    Headroom s sched := by
  intro p q e
  have := past_le p s
  have hl : p.length ≤ sched.length := by rw [e]; simp
  omega

end Nebula.Lemmas.Counter
