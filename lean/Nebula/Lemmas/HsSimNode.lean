/-
Simulation, part 2 (C31): one node of the NODE model (Model/HsManager.lean — the model the correspondence
harness ties to the real code) whose only peer is `a`, against one `Side` of the abstract two-node model
(Model/HsRace.lean). `SR n a sd` is the abstraction relation (tunnel list, ready pending handshake,
pendingDeletion marks, own address), `NInv n a` the node invariant it needs. Per event kind: the node's
step is matched by the abstract side function of that kind (or by no abstract step at all).
-/
import Nebula.Lemmas.HsSimMap
import Nebula.Lemmas.HsRaceLive

namespace Nebula.Lemmas.HsSim
open Nebula.HsManager Nebula.Lemmas.HsManager Nebula.HsRace

/-! ### the per-side functions of the abstract steps -/

def swapAt (me peer : Side) (j : Nat) : Side :=
  match me.tunnels[j]? with
  | none => me
  | some t =>
    if j == 0 then me else
    if shouldSwap me peer then { me with tunnels := t :: me.tunnels.eraseIdx j, swaps := me.swaps + 1 } else me

def delAt (me : Side) (j : Nat) : Side :=
  match me.tunnels[j]? with
  | none => me
  | some t => { me with tunnels := me.tunnels.eraseIdx j, removed := me.removed ++ [t] }

theorem step_swap (s : St) (onX : Bool) (j : Nat) :
    s.stepAll (.swap onX j) = s.set onX (swapAt (s.get onX) (s.get (!onX)) j) := by
  cases onX <;> simp only [St.stepAll, St.step, swapAt, St.get, St.set, Bool.not_true, Bool.not_false, if_true, if_false,
    Bool.false_eq_true]
  · cases h : s.y.tunnels[j]? with
    | none => rfl
    | some t =>
      by_cases h0 : (j == 0) = true
      · simp [h0]
      · by_cases hs : shouldSwap s.y s.x = true
        · simp [h0, hs]
        · simp [h0, hs]
  · cases h : s.x.tunnels[j]? with
    | none => rfl
    | some t =>
      by_cases h0 : (j == 0) = true
      · simp [h0]
      · by_cases hs : shouldSwap s.x s.y = true
        · simp [h0, hs]
        · simp [h0, hs]

theorem step_del (s : St) (onX : Bool) (j : Nat) : s.stepAll (.del onX j) = s.set onX (delAt (s.get onX) j) := by
  cases onX <;> simp only [St.stepAll, St.step, delAt, St.get, St.set, if_true, if_false, Bool.false_eq_true]
  · cases h : s.y.tunnels[j]? <;> rfl
  · cases h : s.x.tunnels[j]? <;> rfl

/-! ### abstraction relation and node invariant -/

/-- the pending handshake towards `a`, once its first packet exists -/
def absPending (p : PSide) (a : Addr) : Option (Nat × Nat) :=
  match alookup a p.vpnIps with
  | some hh => if hh.ready then some (encH hh.pkt0, hh.localIndex) else none
  | none => none

structure SR (n : Node) (a : Addr) (sd : Side) : Prop where
  tun : sd.tunnels = (n.main.getList a).map absTun
  pend : sd.pending = absPending n.p a
  pdl : ∀ h, h ∈ n.main.getList a → sd.pdl.contains (absTun h) = n.pdl.contains h.id
  addr : sd.addr = n.cfg.myAddrs.headD 0

structure NInv (n : Node) (a : Addr) : Prop where
  wf : MWF n.main a
  idlt : ∀ h, h ∈ n.main.getList a → h.id < n.p.nextObj
  ini : ∀ h, h ∈ n.main.getList a → h.initiator = h.pkt2.isNone
  blocked : n.blocked = []
  pkeys : ∀ e, e ∈ n.p.vpnIps → e.1 = a ∧ e.2.vpnAddr = a ∧ e.2.id < n.p.nextObj ∧
    ∀ h, h ∈ n.main.getList a → h.id ≠ e.2.id
  one : n.p.vpnIps.length ≤ 1
  pidx : ∀ i id, alookup i n.p.pindexes = some id →
    ∃ hh, alookup a n.p.vpnIps = some hh ∧ hh.id = id ∧ hh.localIndex = i ∧ hh.ready = true
  disj : ∀ i, (alookup i n.p.pindexes).isSome = true → alookup i n.main.indexes = none
  pdlok : ∀ id, id ∈ n.pdl → id < n.p.nextObj ∧ ∀ e, e ∈ n.p.vpnIps → id ≠ e.2.id

/-- distinct listed tunnels have distinct abstractions (their local indexes differ) -/
theorem absTun_inj {n : Node} {a : Addr} (inv : NInv n a) {x y : HostInfo} (hx : x ∈ n.main.getList a)
    (hy : y ∈ n.main.getList a) (e : absTun x = absTun y) : x = y := by
  have e1 : x.localIndex = y.localIndex := by
    have := congrArg Tun.loc e; simpa [absTun] using this
  have h1 := inv.wf.mem_idx x hx
  have h2 := inv.wf.mem_idx y hy
  rw [e1, h2] at h1; simpa using h1.symm

/-- a change of the main hostmap that only removes or reorders listed tunnels, nothing else changing -/
theorem NInv.shrink {n n' : Node} {a : Addr} (inv : NInv n a)
    (hp : n'.p.vpnIps = n.p.vpnIps ∧ n'.p.pindexes = n.p.pindexes ∧ n'.p.nextObj = n.p.nextObj)
    (hb : n'.blocked = n.blocked)
    (wf : MWF n'.main a) (hsub : ∀ h, h ∈ n'.main.getList a → h ∈ n.main.getList a)
    (hidx : ∀ i, alookup i n.main.indexes = none → alookup i n'.main.indexes = none)
    (hpd : ∀ id, id ∈ n'.pdl → id ∈ n.pdl ∨ ∃ h, h ∈ n.main.getList a ∧ h.id = id := by exact fun _ h => Or.inl h) :
    NInv n' a := by
  obtain ⟨hp1, hp2, hp3⟩ := hp
  constructor
  · exact wf
  · intro h hm; rw [hp3]; exact inv.idlt h (hsub h hm)
  · intro h hm; exact inv.ini h (hsub h hm)
  · rw [hb]; exact inv.blocked
  · intro e he; rw [hp1] at he; rw [hp3]
    have := inv.pkeys e he
    exact ⟨this.1, this.2.1, this.2.2.1, fun h hm => this.2.2.2 h (hsub h hm)⟩
  · rw [hp1]; exact inv.one
  · rw [hp1, hp2]; exact inv.pidx
  · intro i hi; rw [hp2] at hi; exact hidx i (inv.disj i hi)
  · intro id hid
    rw [hp1, hp3]
    rcases hpd id hid with h | ⟨h, hm, e⟩
    · exact inv.pdlok id h
    · subst e
      exact ⟨inv.idlt h hm, fun e he => (inv.pkeys e he).2.2.2 h hm⟩

theorem absPending_congr {p p' : PSide} (a : Addr) (h : p'.vpnIps = p.vpnIps) : absPending p' a = absPending p a := by
  unfold absPending; rw [h]

theorem map_eraseIdx_abs (l : List HostInfo) (j : Nat) : (l.eraseIdx j).map absTun = (l.map absTun).eraseIdx j := by
  induction l generalizing j with
  | nil => rfl
  | cons x xs ih => cases j with
    | zero => rfl
    | succ j => simp [List.eraseIdx_cons_succ, ih]

theorem shouldSwap_iff (me peer : Side) (n : Node) (a : Addr) (hme : me.addr = n.cfg.myAddrs.headD 0) (hpa : peer.addr = a) :
    shouldSwap me peer = !decide (a < n.cfg.myAddrs.headD 0) := by
  simp only [shouldSwap, hme, hpa]
  generalize n.cfg.myAddrs.headD 0 = b
  by_cases h : a < b
  · simp [h]
  · have := Nat.le_of_not_lt h; simp [h, this]

/-! ### connection manager: swap -/

theorem swap_sim {n : Node} {a : Addr} {sd peer : Side} (inv : NInv n a) (sr : SR n a sd) (hpa : peer.addr = a)
    (li : Nat) : ∃ j, SR (n.swapCheck li).1 a (swapAt sd peer j) ∧ NInv (n.swapCheck li).1 a := by
  unfold Node.swapCheck
  split
  · refine ⟨sd.tunnels.length, ?_, inv⟩
    have : swapAt sd peer sd.tunnels.length = sd := by simp [swapAt]
    rw [this]; exact sr
  · rename_i hi hk
    obtain ⟨j, hj⟩ := position_of_index inv.wf hk
    have hmem : hi ∈ n.main.getList a := List.mem_of_getElem? hj
    have hva := inv.wf.addrs hi hmem
    have htj : sd.tunnels[j]? = some (absTun hi) := by rw [sr.tun]; simp [hj]
    refine ⟨j, ?_⟩
    simp only [hva, List.headD_cons]
    obtain ⟨p, hp⟩ : ∃ p, (n.main.getList a)[0]? = some p := by
      have : 0 < (n.main.getList a).length := by
        have := (List.getElem?_eq_some_iff.mp hj).1; omega
      exact ⟨_, List.getElem?_eq_getElem this⟩
    have hp' : n.main.primary a = some p := by
      unfold HostMap.primary; rw [List.head?_eq_getElem?]; exact hp
    simp only [hp']
    by_cases hj0 : j = 0
    · subst hj0
      have : p = hi := by rw [hp] at hj; simpa using hj
      subst this
      simp only [beq_self_eq_true, if_true]
      have : swapAt sd peer 0 = sd := by simp [swapAt, htj]
      rw [this]; exact ⟨sr, inv⟩
    · have hne : (p.id == hi.id) = false := by
        simp only [beq_eq_false_iff_ne, ne_eq]
        intro e
        exact hj0 (pos_unique _ 0 j p hi inv.wf.ids hp hj e).symm
      simp only [hne, Bool.false_eq_true, if_false]
      have hss := shouldSwap_iff sd peer n a sr.addr hpa
      generalize n.cfg.myAddrs.headD 0 = b at hss ⊢
      by_cases hlt : a < b
      · simp only [hlt, if_true]
        have : swapAt sd peer j = sd := by
          simp [swapAt, htj, hj0, hss, hlt]
        rw [this]; exact ⟨sr, inv⟩
      · simp only [hlt, if_false]
        have hmp := makePrimary_list inv.wf hj
        rw [if_neg hj0] at hmp
        have hsw : swapAt sd peer j =
            { sd with tunnels := absTun hi :: sd.tunnels.eraseIdx j, swaps := sd.swaps + 1 } := by
          simp [swapAt, htj, hj0, hss, hlt]
        rw [hsw]
        have hsub : ∀ h, h ∈ (n.main.makePrimary hi).getList a → h ∈ n.main.getList a := by
          intro h hm; rw [hmp.1] at hm
          rcases List.mem_cons.mp hm with e | e
          · subst e; exact hmem
          · exact List.mem_of_mem_eraseIdx e
        refine ⟨⟨?_, sr.pend, ?_, sr.addr⟩, ?_⟩
        · show absTun hi :: sd.tunnels.eraseIdx j = _
          rw [hmp.1, sr.tun]; simp [map_eraseIdx_abs]
        · intro h hm; exact sr.pdl h (hsub h hm)
        · exact inv.shrink (n' := { n with main := n.main.makePrimary hi }) ⟨rfl, rfl, rfl⟩ rfl hmp.2 hsub
            (fun i hi' => by show alookup i (n.main.makePrimary hi).indexes = none; rw [makePrimary_indexes]; exact hi')

/-! ### tunnel deletion -/

theorem deleteHostInfo_none {m : HostMap} {hi : HostInfo} (i : Nat) (h : alookup i m.indexes = none) :
    alookup i (m.deleteHostInfo hi).indexes = none := by
  cases hh : alookup i (m.deleteHostInfo hi).indexes with
  | none => rfl
  | some x => have := deleteHostInfo_indexes hh; rw [h] at this; simp at this

theorem del_sim {n : Node} {a : Addr} {sd : Side} (inv : NInv n a) (sr : SR n a sd) (li : Nat) :
    ∃ j, SR (n.deleteTunnel li).1 a (delAt sd j) ∧ NInv (n.deleteTunnel li).1 a := by
  unfold Node.deleteTunnel
  split
  · refine ⟨sd.tunnels.length, ?_, inv⟩
    have : delAt sd sd.tunnels.length = sd := by simp [delAt]
    rw [this]; exact sr
  · rename_i hi hk
    obtain ⟨j, hj⟩ := position_of_index inv.wf hk
    have htj : sd.tunnels[j]? = some (absTun hi) := by rw [sr.tun]; simp [hj]
    have hd := deleteHostInfo_list inv.wf hj
    have hsub : ∀ h, h ∈ (n.main.deleteHostInfo hi).getList a → h ∈ n.main.getList a := by
      intro h hm; rw [hd.1] at hm; exact List.mem_of_mem_eraseIdx hm
    refine ⟨j, ⟨?_, by simp only [delAt, htj]; exact sr.pend, ?_, by simp only [delAt, htj]; exact sr.addr⟩, ?_⟩
    · simp only [delAt, htj]
      show sd.tunnels.eraseIdx j = _
      rw [hd.1, sr.tun, map_eraseIdx_abs]
    · intro h hm
      have : (delAt sd j).pdl = sd.pdl := by simp [delAt, htj]
      rw [this]; exact sr.pdl h (hsub h hm)
    · exact inv.shrink (n' := { n with main := n.main.deleteHostInfo hi }) ⟨rfl, rfl, rfl⟩ rfl hd.2 hsub
        (fun i hi' => deleteHostInfo_none i hi')

/-! ### starting a handshake (GetOrHandshake / StartHandshake / tryRehandshake): no abstract step — the pending
entry is invisible to the abstract model until its first packet exists -/

/-- callbacks that leave alone what the abstraction and the invariant read -/
structure KeepCb (cb : Pending → Pending) : Prop where
  id : ∀ hh, (cb hh).id = hh.id
  addr : ∀ hh, (cb hh).vpnAddr = hh.vpnAddr
  ready : ∀ hh, (cb hh).ready = hh.ready
  pkt0 : ∀ hh, (cb hh).pkt0 = hh.pkt0
  li : ∀ hh, (cb hh).localIndex = hh.localIndex

theorem keepCb_id : KeepCb id := ⟨fun _ => rfl, fun _ => rfl, fun _ => rfl, fun _ => rfl, fun _ => rfl⟩

theorem alookup_single {α : Type} (a : Nat) (v : α) : alookup a [(a, v)] = some v := by simp [alookup]

/-- at most one pending entry, keyed by `a` -/
theorem vpnIps_shape {n : Node} {a : Addr} (inv : NInv n a) :
    n.p.vpnIps = [] ∨ ∃ hh, n.p.vpnIps = [(a, hh)] := by
  have h1 := inv.one
  match hv : n.p.vpnIps with
  | [] => left; rfl
  | [e] =>
    right
    have := (inv.pkeys e (by rw [hv]; simp)).1
    exact ⟨e.2, by rw [← this]⟩
  | _ :: _ :: _ => rw [hv] at h1; simp at h1

theorem startHandshake_sim {n : Node} {a : Addr} {sd : Side} (inv : NInv n a) (sr : SR n a sd)
    (cb : Pending → Pending) (k : KeepCb cb) :
    SR { n with p := n.p.startHandshake n.cfg a cb } a sd ∧ NInv { n with p := n.p.startHandshake n.cfg a cb } a := by
  rcases vpnIps_shape inv with hv | ⟨hh, hv⟩
  · -- a new, not yet ready entry
    have hl : alookup a n.p.vpnIps = none := by rw [hv]; rfl
    have e : n.p.startHandshake n.cfg a cb =
        { n.p with nextObj := n.p.nextObj + 1,
                   vpnIps := [(a, cb { id := n.p.nextObj, vpnAddr := a })],
                   wheel := n.p.wheel.add (a, n.p.nextObj) (n.cfg.interval : Int) } := by
      unfold PSide.startHandshake; simp only [hl]; simp [ainsert, aerase, hv]
    rw [e]
    refine ⟨⟨sr.tun, ?_, sr.pdl, sr.addr⟩, ?_⟩
    · rw [sr.pend]; simp only [absPending, hl, alookup_single]; simp [k.ready]
    · constructor
      · exact inv.wf
      · intro h hm; have := inv.idlt h hm; show h.id < n.p.nextObj + 1; omega
      · exact inv.ini
      · exact inv.blocked
      · intro e' he'
        simp only [List.mem_singleton] at he'
        subst he'
        refine ⟨rfl, by simp [k.addr], by simp [k.id], ?_⟩
        intro h hm; simp only [k.id]; have := inv.idlt h hm; omega
      · simp
      · intro i id hi
        obtain ⟨hh, h1, _⟩ := inv.pidx i id hi
        rw [hl] at h1; simp at h1
      · exact inv.disj
      · intro id hid
        have := (inv.pdlok id hid).1
        refine ⟨by show id < n.p.nextObj + 1; omega, ?_⟩
        intro e' he'
        simp only [List.mem_singleton] at he'
        subst he'
        simp only [k.id]; omega
  · have hl : alookup a n.p.vpnIps = some hh := by rw [hv]; simp [alookup]
    have e : n.p.startHandshake n.cfg a cb = { n.p with vpnIps := [(a, cb hh)] } := by
      unfold PSide.startHandshake PSide.setPending; simp only [hl]; simp [hv, k.id]
    rw [e]
    have hmem : (a, hh) ∈ n.p.vpnIps := by rw [hv]; simp
    have hk := inv.pkeys _ hmem
    refine ⟨⟨sr.tun, ?_, sr.pdl, sr.addr⟩, ?_⟩
    · rw [sr.pend]; simp only [absPending, hl, alookup_single]; simp [k.ready, k.pkt0, k.li]
    · constructor
      · exact inv.wf
      · exact inv.idlt
      · exact inv.ini
      · exact inv.blocked
      · intro e' he'
        simp only [List.mem_singleton] at he'
        subst he'
        refine ⟨rfl, by simp only [k.addr]; exact hk.2.1, by simp only [k.id]; exact hk.2.2.1, ?_⟩
        intro h hm; simp only [k.id]; exact hk.2.2.2 h hm
      · simp
      · intro i id hi
        obtain ⟨hh', h1, h2, h3, h4⟩ := inv.pidx i id hi
        rw [hl] at h1; simp at h1; subst h1
        exact ⟨cb hh, alookup_single _ _, by rw [k.id]; exact h2, by rw [k.li]; exact h3, by rw [k.ready]; exact h4⟩
      · exact inv.disj
      · intro id hid
        refine ⟨(inv.pdlok id hid).1, ?_⟩
        intro e' he'
        simp only [List.mem_singleton] at he'
        subst he'
        simp only [k.id]; exact (inv.pdlok id hid).2 _ hmem

/-! ### connection manager: traffic check -/

theorem rehandshakeAfter_pos : decide (Nebula.ConnMgr.rehandshakeAfter ≤ 0) = false := by decide

theorem no_close (i : Nebula.ConnMgr.In) (hc : i.cert = .ok) (hd : i.dropInactive = false) :
    (Nebula.ConnMgr.trafficDecision i).decision ≠ .closeTunnel := by
  unfold Nebula.ConnMgr.trafficDecision
  simp only [hc, hd, Nebula.ConnMgr.isInvalidCertificate, Nebula.ConnMgr.isInactive]
  repeat' split
  all_goals simp_all

/-- the abstract side after a deleting check -/
def sideDel (sd : Side) (j : Nat) (t : Tun) (pdl' : List Tun) : Side :=
  { sd with tunnels := sd.tunnels.eraseIdx j, removed := sd.removed ++ [t], pdl := pdl'.filter (· != t) }

def markA (pd : Bool) (A : List Tun) (t : Tun) : List Tun :=
  if pd then (if A.contains t then A else t :: A) else A.filter (· != t)

def markB (pd : Bool) (B : List Nat) (i : Nat) : List Nat :=
  if pd then (if B.contains i then B else i :: B) else B.filter (· != i)

theorem mem_markB {pd : Bool} {B : List Nat} {i id : Nat} (h : id ∈ markB pd B i) : id ∈ B ∨ id = i := by
  unfold markB at h
  split at h
  · split at h
    · exact Or.inl h
    · rcases List.mem_cons.mp h with e | e
      · exact Or.inr e
      · exact Or.inl e
  · exact Or.inl (List.mem_filter.mp h).1

/-- the pendingDeletion marks after a check of `hi`, on both levels -/
theorem pdl_step {n : Node} {a : Addr} (inv : NInv n a) {A : List Tun} {B : List Nat}
    (rel : ∀ h, h ∈ n.main.getList a → A.contains (absTun h) = B.contains h.id)
    {hi : HostInfo} (hm : hi ∈ n.main.getList a) (pd : Bool) :
    ∀ h, h ∈ n.main.getList a → (markA pd A (absTun hi)).contains (absTun h) = (markB pd B hi.id).contains h.id := by
  intro h hmh
  unfold markA markB
  have key : (absTun h == absTun hi) = (h.id == hi.id) := by
    by_cases e : h = hi
    · subst e; simp
    · have e1 : absTun h ≠ absTun hi := fun e' => e (absTun_inj inv hmh hm e')
      have e2 : h.id ≠ hi.id := fun e' => e (eq_of_id inv.wf.ids hmh hm e')
      rw [beq_eq_false_iff_ne.mpr e1, beq_eq_false_iff_ne.mpr e2]
  have r1 := rel h hmh
  have r2 := rel hi hm
  cases pd
  · simp only [Bool.false_eq_true, if_false]
    by_cases e : h = hi
    · subst e; simp
    · have e1 : absTun h ≠ absTun hi := fun e' => e (absTun_inj inv hmh hm e')
      have e2 : h.id ≠ hi.id := fun e' => e (eq_of_id inv.wf.ids hmh hm e')
      have c1 : (A.filter (· != absTun hi)).contains (absTun h) = A.contains (absTun h) := by
        rw [Bool.eq_iff_iff]; simp [List.mem_filter, e1]
      have c2 : (B.filter (· != hi.id)).contains h.id = B.contains h.id := by
        rw [Bool.eq_iff_iff]; simp [List.mem_filter, e2]
      rw [c1, c2, r1]
  · simp only [if_true]
    rw [r2]
    by_cases hb : B.contains hi.id = true
    · simp only [hb, if_true]; exact r1
    · simp only [hb, Bool.false_eq_true, if_false]
      rw [List.contains_cons, List.contains_cons, key, r1]

theorem check_sim {n : Node} {a : Addr} {sd peer : Side} (inv : NInv n a) (sr : SR n a sd) (hpa : peer.addr = a)
    (li : Nat) (inT outT : Bool) :
    ∃ j, SR (n.trafficCheck li inT outT).1 a (sd.check peer j inT outT) ∧ NInv (n.trafficCheck li inT outT).1 a := by
  unfold Node.trafficCheck
  split
  · refine ⟨sd.tunnels.length, ?_, inv⟩
    have : sd.check peer sd.tunnels.length inT outT = sd := by simp [Side.check]
    rw [this]; exact sr
  · rename_i hi hk
    obtain ⟨j, hj⟩ := position_of_index inv.wf hk
    have hmem : hi ∈ n.main.getList a := List.mem_of_getElem? hj
    have hva := inv.wf.addrs hi hmem
    have htj : sd.tunnels[j]? = some (absTun hi) := by rw [sr.tun]; simp [hj]
    refine ⟨j, ?_⟩
    obtain ⟨p, hp⟩ : ∃ p, (n.main.getList a)[0]? = some p := by
      have : 0 < (n.main.getList a).length := by
        have := (List.getElem?_eq_some_iff.mp hj).1; omega
      exact ⟨_, List.getElem?_eq_getElem this⟩
    have hp' : n.main.primary a = some p := by
      unfold HostMap.primary; rw [List.head?_eq_getElem?]; exact hp
    have hmain : (p.id == hi.id) = (j == 0) := by
      by_cases hj0 : j = 0
      · subst hj0
        have : p = hi := by rw [hp] at hj; simpa using hj
        subst this; simp
      · have : p.id ≠ hi.id := fun e => hj0 (pos_unique _ 0 j p hi inv.wf.ids hp hj e).symm
        rw [beq_eq_false_iff_ne.mpr this, beq_eq_false_iff_ne.mpr hj0]
    have hci : n.checkIn hi inT outT = checkIn sd peer j (absTun hi) inT outT := by
      have hss := shouldSwap_iff sd peer n a sr.addr hpa
      simp only [Node.checkIn, checkIn, hva, List.headD_cons, hp', hmain, inv.blocked, sr.pdl hi hmem, hss,
        Nebula.ConnMgr.shouldSwapPrimary, rehandshakeAfter_pos]
      simp
    have hnc := no_close (checkIn sd peer j (absTun hi) inT outT) rfl rfl
    have hpdl := pdl_step inv sr.pdl hmem (Nebula.ConnMgr.trafficDecision (checkIn sd peer j (absTun hi) inT outT)).pd
    simp only [Side.check, htj, hci]
    generalize Nebula.ConnMgr.trafficDecision (checkIn sd peer j (absTun hi) inT outT) = o at hnc hpdl ⊢
    have hpdm : ∀ id, id ∈ markB o.pd n.pdl hi.id → id ∈ n.pdl ∨ ∃ h, h ∈ n.main.getList a ∧ h.id = id :=
      fun id h => (mem_markB h).imp (fun x => x) (fun e => ⟨hi, hmem, e.symm⟩)
    cases hd : o.decision with
    | closeTunnel => exact absurd hd hnc
    | deleteTunnel =>
      simp only []
      have hdl := deleteHostInfo_list inv.wf hj
      have hsub : ∀ h, h ∈ (n.main.deleteHostInfo hi).getList a → h ∈ n.main.getList a := by
        intro h hm; rw [hdl.1] at hm; exact List.mem_of_mem_eraseIdx hm
      have hne : ∀ h, h ∈ (n.main.deleteHostInfo hi).getList a → absTun h ≠ absTun hi := by
        intro h hm e
        have := absTun_inj inv (hsub h hm) hmem e
        subst this
        rw [hdl.1] at hm
        exact not_mem_eraseIdx_self inv.wf.ids hj hm
      have srn : ∀ (n' : Node), n'.main = n.main.deleteHostInfo hi → n'.cfg = n.cfg →
          n'.pdl = markB o.pd n.pdl hi.id → absPending n'.p a = absPending n.p a →
          SR n' a (sideDel sd j (absTun hi) (markA o.pd sd.pdl (absTun hi))) := by
        intro n' h1 h2 h3 h4
        refine ⟨?_, by rw [h4]; exact sr.pend, ?_, by rw [h2]; exact sr.addr⟩
        · show sd.tunnels.eraseIdx j = _
          rw [h1, hdl.1, sr.tun, map_eraseIdx_abs]
        · intro h hm
          rw [h1] at hm
          rw [h3, ← hpdl h (hsub h hm)]
          rw [Bool.eq_iff_iff]
          simp [sideDel, List.mem_filter, hne h hm]
      by_cases hf : n.main.deleteIsFinal hi = true
      · simp only [hf, if_true]
        exact ⟨srn _ rfl rfl rfl rfl, inv.shrink ⟨rfl, rfl, rfl⟩ rfl hdl.2 hsub (fun i hi' => deleteHostInfo_none i hi') hpdm⟩
      · simp only [hf, if_false]
        exact ⟨srn _ rfl rfl rfl rfl, inv.shrink ⟨rfl, rfl, rfl⟩ rfl hdl.2 hsub (fun i hi' => deleteHostInfo_none i hi') hpdm⟩
    | swapPrimary =>
      simp only []
      have hmp := makePrimary_list inv.wf hj
      have hlist : (n.main.makePrimary hi).getList a = hi :: (n.main.getList a).eraseIdx j := by
        rw [hmp.1]
        split
        · rename_i hj0; subst hj0
          cases hl : n.main.getList a with
          | nil => rw [hl] at hj; simp at hj
          | cons z zs => rw [hl] at hj; simp at hj; subst hj; rfl
        · rfl
      have hsub : ∀ h, h ∈ (n.main.makePrimary hi).getList a → h ∈ n.main.getList a := by
        intro h hm; rw [hlist] at hm
        rcases List.mem_cons.mp hm with e | e
        · subst e; exact hmem
        · exact List.mem_of_mem_eraseIdx e
      refine ⟨⟨?_, sr.pend, ?_, sr.addr⟩, ?_⟩
      · show absTun hi :: sd.tunnels.eraseIdx j = _
        rw [hlist, sr.tun]; simp [map_eraseIdx_abs]
      · intro h hm; exact hpdl h (hsub h hm)
      · exact inv.shrink ⟨rfl, rfl, rfl⟩ rfl hmp.2 hsub
          (fun i hi' => by show alookup i (n.main.makePrimary hi).indexes = none; rw [makePrimary_indexes]; exact hi') hpdm
    | tryRehandshake =>
      simp only []
      have base : SR { n with pdl := markB o.pd n.pdl hi.id } a { sd with pdl := markA o.pd sd.pdl (absTun hi) } ∧
          NInv { n with pdl := markB o.pd n.pdl hi.id } a :=
        ⟨⟨sr.tun, sr.pend, hpdl, sr.addr⟩, inv.shrink ⟨rfl, rfl, rfl⟩ rfl inv.wf (fun _ h => h) (fun _ h => h) hpdm⟩
      have hhd : hi.vpnAddrs.headD 0 = a := by rw [hva]; rfl
      split
      · rw [hhd]
        exact startHandshake_sim base.2 base.1 (fun hh => { hh with verOverride := hi.certVer })
          ⟨fun _ => rfl, fun _ => rfl, fun _ => rfl, fun _ => rfl, fun _ => rfl⟩
      · exact base
    | migrateRelays =>
      simp only []
      exact ⟨⟨sr.tun, sr.pend, hpdl, sr.addr⟩, inv.shrink ⟨rfl, rfl, rfl⟩ rfl inv.wf (fun _ h => h) (fun _ h => h) hpdm⟩
    | sendTestPacket =>
      simp only []
      exact ⟨⟨sr.tun, sr.pend, hpdl, sr.addr⟩, inv.shrink ⟨rfl, rfl, rfl⟩ rfl inv.wf (fun _ h => h) (fun _ h => h) hpdm⟩
    | doNothing =>
      simp only []
      exact ⟨⟨sr.tun, sr.pend, hpdl, sr.addr⟩, inv.shrink ⟨rfl, rfl, rfl⟩ rfl inv.wf (fun _ h => h) (fun _ h => h) hpdm⟩

end Nebula.Lemmas.HsSim
