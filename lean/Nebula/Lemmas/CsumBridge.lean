/-
One checksum theory: the RFC 1071 definitions local to the C21 engines (`Spec/PktCsum.lean`) are the
shared ones of `Base/Csum.lean`.  With these equalities every lemma of `Lemmas/Csum*.lean` applies to
`PktCsum` statements and vice versa.
-/
import Nebula.Lemmas.Csum
import Nebula.Spec.PktCsum

namespace Nebula.Lemmas.CsumBridge
open Nebula.Csum

/-- `PktCsum.sum16` is `Csum.wsum`. -/
theorem sum16_eq_wsum (b : List UInt8) : Spec.PktCsum.sum16 b = wsum b := by
  fun_induction wsum b with
  | case1 => simp [Spec.PktCsum.sum16]
  | case2 a => simp [Spec.PktCsum.sum16]
  | case3 a b r ih => simp [Spec.PktCsum.sum16, ih]

/-- `PktCsum.fold16` (closed form) is the canonical representative `Csum.ocNorm`, hence the RFC 1071
fold loop `Csum.fold16`. -/
theorem fold16_eq (n : Nat) : Spec.PktCsum.fold16 n = fold16 n := by
  rw [Csum.fold16_eq]; rfl

/-- `PktCsum.verifies` (a `Bool`) holds exactly when `Csum.verifies` (a `Prop`) does. -/
theorem verifies_iff (bs : List UInt8) (pseudo : Nat) :
    Spec.PktCsum.verifies bs pseudo = true ↔ verifies bs pseudo := by
  unfold Spec.PktCsum.verifies verifies
  rw [sum16_eq_wsum, fold16_eq]
  simp

/-- `PktCsum.pseudo` represents the same one's-complement number as `Csum.pseudoSum` over the
concatenated addresses (the 32-bit upper-layer length is summed as two 16-bit words there, as a number
here), for even-length source addresses (4 or 16 bytes). -/
theorem pseudo_rep (src dst : List UInt8) (proto len : Nat) (hs : src.length % 2 = 0) :
    Rep (Spec.PktCsum.pseudo src dst proto len) (pseudoSum (src ++ dst) proto len) := by
  unfold Spec.PktCsum.pseudo pseudoSum
  rw [sum16_eq_wsum, sum16_eq_wsum, wsum_append src dst hs]
  unfold Rep; omega

/-- consequently verification against either pseudo-header sum is the same statement. -/
theorem verifies_pseudo_iff (bs src dst : List UInt8) (proto len : Nat) (hs : src.length % 2 = 0) :
    Spec.PktCsum.verifies bs (Spec.PktCsum.pseudo src dst proto len) = true ↔
      verifies bs (pseudoSum (src ++ dst) proto len) := by
  rw [verifies_iff]
  unfold verifies
  rw [fold16_congr (rep_add (rep_refl (wsum bs)) (pseudo_rep src dst proto len hs))]

end Nebula.Lemmas.CsumBridge
