/-
The secrecy invariant of the symbolic IX model: everything the Dolev-Yao adversary can ever know
"may be public" (`Pub`), by induction over his derivations.
-/
import Nebula.Spec.NoiseIX

namespace Nebula.Spec.NoiseIX
open Term

theorem pub_dhT (W : World) (a b : Nat) : Pub W (dhT a b) ↔ (¬ W.Secret a ∨ ¬ W.Secret b) := by
  unfold dhT
  by_cases h : a ≤ b
  · simp [Pub, Nat.min_eq_left h, Nat.max_eq_right h]
  · have h' : b ≤ a := by omega
    simp [Pub, Nat.min_eq_right h', Nat.max_eq_left h', or_comm]

/-- `dhT` determines the unordered pair of its exponents. -/
theorem dhT_eq {a b c d : Nat} (h : dhT a b = dhT c d) : (a = c ∧ b = d) ∨ (a = d ∧ b = c) := by
  unfold dhT at h
  simp only [dh.injEq] at h
  omega

/-- The invariant: whatever the adversary knows may be public. -/
theorem knows_pub (W : World) (hp : W.payloadsPublic) : ∀ t, Knows W t → Pub W t := by
  intro t h
  induction h with
  | name n hn => exact hn
  | pub n => trivial
  | const c => trivial
  | init i hi => exact ⟨trivial, trivial, hp.1 i hi⟩
  | resp r hr =>
    refine ⟨trivial, ⟨trivial, Or.inr ⟨r, hr, Or.inl ⟨rfl, rfl, rfl⟩⟩⟩, ⟨hp.2 r hr, Or.inr ⟨r, hr, Or.inr ⟨rfl, rfl, rfl⟩⟩⟩⟩
  | fst a b _ ih => exact ih.1
  | snd a b _ ih => exact ih.2
  | pair a b _ _ iha ihb => exact ⟨iha, ihb⟩
  | dh a b _ ih => exact (pub_dhT W a b).mpr (Or.inl ih)
  | mix h t _ _ _ _ => trivial
  | kdf ck d _ _ i1 i2 => exact ⟨i1, i2⟩
  | key ck d _ _ i1 i2 => exact ⟨i1, i2⟩
  | enc k ad pt _ _ _ ik _ ipt => exact ⟨ipt, Or.inl ik⟩
  | dec k ad pt _ _ ih _ => exact ih.1

/-- Secret names stay secret. -/
theorem secret_not_known (W : World) (hp : W.payloadsPublic) (n : Nat) (hs : W.Secret n) :
    ¬ Knows W (name n) := fun h => knows_pub W hp _ h hs

end Nebula.Spec.NoiseIX
