import Nebula.Model.P256
