/-
Tie of the wheel model to the functions regenerated from source (C33): `TimerWheel.findWheel` and the wheel
length computed by `NewTimerWheel`, translated to `BitVec 64` (Go `int` / `time.Duration`), equal the hand-written
`Int` formulas of `Model/Wheel.lean` whenever the durations are below 2^62 ns (146 years) and the wheel has fewer
than 2^61 slots.  An arithmetic edit of either Go function changes `Gen/Wheel.lean` and breaks these theorems.
-/
import Nebula.Model.Wheel

namespace Nebula.Lemmas.WheelTie
open Nebula.Gen Nebula.Wheel

theorem bmod_id (x : Int) (h1 : -(2 ^ 63) ≤ x) (h2 : x < 2 ^ 63) : x.bmod (2 ^ 64) = x := by
  rw [Int.bmod_def]; split <;> omega

/-- hand formula (what Model/Wheel.findWheel computes) -/
def handFW (t tick span cur len : Int) : Int :=
  let t' := if t < tick then tick else if t > span then span else t
  let k := (t' - 1).tdiv tick + 1
  let k := k + cur + 1
  if k ≥ len then k - len else k

theorem fw_eq (t tick span cur len : Int)
    (ht : -(2 ^ 63) ≤ t ∧ t < 2 ^ 63) (htick : 1 ≤ tick ∧ tick < 2 ^ 62) (hspan : 0 ≤ span ∧ span < 2 ^ 62)
    (hcur : 0 ≤ cur ∧ cur < 2 ^ 61) (hlen : 0 ≤ len ∧ len < 2 ^ 61) :
    (wheel_findWheel (BitVec.ofInt 64 t) (BitVec.ofInt 64 tick) (BitVec.ofInt 64 span) (BitVec.ofInt 64 cur)
      (BitVec.ofInt 64 len)).toInt = handFW t tick span cur len := by
  have et : (BitVec.ofInt 64 t).toInt = t := by rw [BitVec.toInt_ofInt]; exact bmod_id _ ht.1 ht.2
  have etick : (BitVec.ofInt 64 tick).toInt = tick := by rw [BitVec.toInt_ofInt]; exact bmod_id _ (by omega) (by omega)
  have espan : (BitVec.ofInt 64 span).toInt = span := by rw [BitVec.toInt_ofInt]; exact bmod_id _ (by omega) (by omega)
  have ecur : (BitVec.ofInt 64 cur).toInt = cur := by rw [BitVec.toInt_ofInt]; exact bmod_id _ (by omega) (by omega)
  have elen : (BitVec.ofInt 64 len).toInt = len := by rw [BitVec.toInt_ofInt]; exact bmod_id _ (by omega) (by omega)
  generalize BitVec.ofInt 64 t = T at *
  generalize BitVec.ofInt 64 tick = TK at *
  generalize BitVec.ofInt 64 span = SP at *
  generalize BitVec.ofInt 64 cur = CU at *
  generalize BitVec.ofInt 64 len = LN at *
  unfold wheel_findWheel handFW
  simp only
  -- the clamped timeout
  have hclamp : ∀ (c : BitVec 64), c = (if T.slt TK then TK else if SP.slt T then SP else T) →
      c.toInt = (if t < tick then tick else if t > span then span else t) := by
    intro c hc; subst hc
    by_cases h1 : t < tick
    · have : T.slt TK = true := BitVec.slt_iff_toInt_lt.mpr (by omega)
      simp [this, h1, etick]
    · have : ¬ (T.slt TK = true) := fun h => h1 (by have := BitVec.slt_iff_toInt_lt.mp h; omega)
      by_cases h2 : t > span
      · have h3 : SP.slt T = true := BitVec.slt_iff_toInt_lt.mpr (by omega)
        simp [this, h1, h2, h3, espan]
      · have h3 : ¬ (SP.slt T = true) := fun h => h2 (by have := BitVec.slt_iff_toInt_lt.mp h; omega)
        simp [this, h1, h2, h3, et]
  generalize hC : (if T.slt TK = true then TK else if SP.slt T = true then SP else T) = C
  have hCi := hclamp C hC.symm
  generalize hc' : (if t < tick then tick else if t > span then span else t) = c' at hCi ⊢
  have hc'r : 0 ≤ c' ∧ c' < 2 ^ 62 := by rw [← hc']; split <;> (try split) <;> omega
  have one : (1#64 : BitVec 64).toInt = 1 := by decide
  have e1 : (C - 1#64).toInt = c' - 1 := by
    rw [BitVec.toInt_sub, hCi, one]; exact bmod_id _ (by omega) (by omega)
  -- the quotient stays between -1 and c' - 1
  have hq : -1 ≤ (c' - 1).tdiv tick ∧ (c' - 1).tdiv tick ≤ c' := by
    by_cases h0 : 0 ≤ c' - 1
    · rw [Int.tdiv_eq_ediv_of_nonneg h0]
      have a := Int.ediv_nonneg h0 (show (0 : Int) ≤ tick by omega)
      have b := Int.ediv_le_self (b := tick) h0
      omega
    · have : c' - 1 = -1 := by omega
      rw [this, show (-1 : Int) = -(1 : Int) from rfl, Int.neg_tdiv, Int.tdiv_eq_ediv_of_nonneg (by decide)]
      have a := Int.ediv_nonneg (show (0 : Int) ≤ 1 by decide) (show (0 : Int) ≤ tick by omega)
      have b := Int.ediv_le_self (a := 1) (b := tick) (by decide)
      omega
  have e2 : ((C - 1#64).sdiv TK).toInt = (c' - 1).tdiv tick := by
    rw [BitVec.toInt_sdiv, e1, etick]; exact bmod_id _ (by omega) (by omega)
  generalize (c' - 1).tdiv tick = q at *
  have e3 : ((C - 1#64).sdiv TK + 1#64).toInt = q + 1 := by
    rw [BitVec.toInt_add, e2, one]; exact bmod_id _ (by omega) (by omega)
  have e4 : (CU + 1#64).toInt = cur + 1 := by
    rw [BitVec.toInt_add, ecur, one]; exact bmod_id _ (by omega) (by omega)
  have e5 : ((C - 1#64).sdiv TK + 1#64 + (CU + 1#64)).toInt = q + 1 + cur + 1 := by
    rw [BitVec.toInt_add, e3, e4]; rw [bmod_id _ (by omega) (by omega)]; omega
  generalize (C - 1#64).sdiv TK + 1#64 + (CU + 1#64) = K at *
  by_cases hge : q + 1 + cur + 1 ≥ len
  · have : LN.sle K = true := BitVec.sle_iff_toInt_le.mpr (by omega)
    simp only [this, if_true, hge]
    rw [BitVec.toInt_sub, e5, elen]; exact bmod_id _ (by omega) (by omega)
  · have : ¬ (LN.sle K = true) := fun h => hge (by have := BitVec.sle_iff_toInt_le.mp h; omega)
    simp only [this, if_false, hge]
    exact e5
theorem newLen_eq (min max : Int) (hmin : 1 ≤ min ∧ min < 2 ^ 62) (hmax : 0 ≤ max ∧ max < 2 ^ 62) :
    (wheel_newLen (BitVec.ofInt 64 min) (BitVec.ofInt 64 max)).toInt = max.tdiv min + 2 := by
  have emin : (BitVec.ofInt 64 min).toInt = min := by rw [BitVec.toInt_ofInt]; exact bmod_id _ (by omega) (by omega)
  have emax : (BitVec.ofInt 64 max).toInt = max := by rw [BitVec.toInt_ofInt]; exact bmod_id _ (by omega) (by omega)
  have two : (2#64 : BitVec 64).toInt = 2 := by decide
  unfold wheel_newLen
  simp only
  have hq : 0 ≤ max.tdiv min ∧ max.tdiv min ≤ max := by
    rw [Int.tdiv_eq_ediv_of_nonneg hmax.1]
    exact ⟨Int.ediv_nonneg hmax.1 (by omega), Int.ediv_le_self _ hmax.1⟩
  rw [BitVec.toInt_add, BitVec.toInt_sdiv, emin, emax, two, bmod_id (max.tdiv min) (by omega) (by omega)]
  exact bmod_id _ (by omega) (by omega)


/-- the model's `findWheel` is the hand formula. -/
theorem findWheel_hand (tw : TW Nat) (t : Int) :
    findWheel tw t = (handFW t tw.tickDuration tw.wheelDuration tw.current tw.wheelLen).toNat := rfl

end Nebula.Lemmas.WheelTie
