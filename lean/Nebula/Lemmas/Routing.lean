/- Helper lemmas for the routing model (C40). Core Lean only. -/
import Nebula.Model.Routing
import Nebula.Spec.Routing

namespace Nebula.Lemmas.Routing
open Nebula.Routing Nebula.Spec.Routing

theorem scaleAndRound_exact (L W : Nat) (hW : 0 < W) (hW64 : W < 2 ^ 64) (hL : L ≤ W) :
    scaleAndRound L W = some ((L * 2 ^ 31 + W / 2) / W) := by
  unfold scaleAndRound mul64 add64 div64
  simp only
  have h1 : (L * 2 ^ 31 / 2 ^ 64 % 2 ^ 64 + (L * 2 ^ 31 % 2 ^ 64 + W / 2 + 0) / 2 ^ 64) % 2 ^ 64
      = (L * 2 ^ 31 + W / 2) / 2 ^ 64 := by omega
  have h2 : (L * 2 ^ 31 + W / 2) / 2 ^ 64 * 2 ^ 64 + (L * 2 ^ 31 % 2 ^ 64 + W / 2 + 0) % 2 ^ 64
      = L * 2 ^ 31 + W / 2 := by omega
  rw [h1, h2]
  have h3 : ¬ (W = 0) := by omega
  have h4 : ¬ (W ≤ (L * 2 ^ 31 + W / 2) / 2 ^ 64) := by omega
  simp [h3, h4]

theorem nearest_eq (x W : Nat) (hW : 0 < W) : (x + W / 2) / W = nearest x W := by
  unfold nearest
  symm
  apply Nat.div_eq_of_lt_le
  · have := Nat.div_mul_le_self (x + W / 2) W
    have e : (x + W / 2) / W * (2 * W) = 2 * ((x + W / 2) / W * W) := by
      rw [Nat.mul_left_comm]
    rw [e]; omega
  · have := Nat.lt_div_mul_add (a := x + W / 2) hW
    have e : ((x + W / 2) / W + 1) * (2 * W) = 2 * ((x + W / 2) / W * W + W) := by
      rw [Nat.add_mul, Nat.mul_left_comm, Nat.one_mul, Nat.mul_add]
    rw [e]; omega

theorem nearest_isNearest (x d : Nat) (hd : 0 < d) : IsNearest (nearest x d) x d := by
  unfold IsNearest nearest
  have h1 := Nat.div_mul_le_self (2 * x + d) (2 * d)
  have h2 := Nat.lt_div_mul_add (a := 2 * x + d) (b := 2 * d) (by omega)
  generalize (2 * x + d) / (2 * d) = q at *
  have e : 2 * d * q = q * (2 * d) := Nat.mul_comm _ _
  rw [e]; constructor <;> omega

theorem nearest_mono (x y d : Nat) (h : x ≤ y) : nearest x d ≤ nearest y d := by
  unfold nearest
  exact Nat.div_le_div_right (by omega)

theorem nearest_zero (d : Nat) : nearest 0 d = 0 := by
  unfold nearest
  by_cases h : d = 0
  · subst h; simp
  · exact Nat.div_eq_of_lt (by omega)

theorem nearest_total (W : Nat) (hW : 0 < W) : nearest (W * space) W = space := by
  unfold nearest
  have : 2 * (W * space) + W = (2 * W) * space + W := by rw [Nat.mul_assoc]
  rw [this, Nat.mul_add_div (by omega)]
  have : W / (2 * W) = 0 := Nat.div_eq_of_lt (by omega)
  omega

/-- share width vs exact proportional share, for consecutive running weights `L` and `L + w`. -/
theorem width_proportional (L w W : Nat) (hW : 0 < W) :
    ((W : Int) * (((nearest ((L + w) * space) W : Int) - 1) - ((nearest (L * space) W : Int) - 1))
        - (w : Int) * space).natAbs < W := by
  obtain ⟨a1, a2⟩ := nearest_isNearest (L * space) W hW
  obtain ⟨b1, b2⟩ := nearest_isNearest ((L + w) * space) W hW
  generalize nearest (L * space) W = q0 at *
  generalize nearest ((L + w) * space) W = q1 at *
  rw [Nat.mul_assoc] at a1 a2 b1 b2
  rw [Nat.add_mul] at b1 b2
  have e : (W : Int) * (((q1 : Int) - 1) - ((q0 : Int) - 1)) = ((W * q1 : Nat) : Int) - ((W * q0 : Nat) : Int) := by
    have : ((q1 : Int) - 1) - ((q0 : Int) - 1) = q1 - q0 := by omega
    rw [this, Int.mul_sub]; simp
  rw [e]
  generalize W * q0 = A at *
  generalize W * q1 = B at *
  have e2 : ((w : Int) * (space : Nat)) = ((w * space : Nat) : Int) := by simp
  rw [e2]
  generalize L * space = X at *
  generalize w * space = Y at *
  omega


def natW (g : Gateway) : Nat := g.weight.toNat

def setBounds (gs : List Gateway) (bs : List Int) : List Gateway :=
  List.zipWith (fun g b => { g with bound := b }) gs bs

theorem wrapI64_id (x : Int) (h1 : -2 ^ 63 ≤ x) (h2 : x < 2 ^ 63) : wrapI64 x = x := by
  unfold wrapI64; omega

theorem toU64_nat (n : Nat) (h : n < 2 ^ 64) : toU64 (n : Int) = n := by
  unfold toU64; omega

theorem weight_eq_natW (g : Gateway) (h : 0 ≤ g.weight) : g.weight = (natW g : Int) := by
  unfold natW; omega

theorem totalWeight_eq (gs : List Gateway) (acc : Nat) (hw : ∀ g ∈ gs, 0 ≤ g.weight)
    (hs : acc + (gs.map natW).sum < 2 ^ 63) :
    gs.foldl (fun acc g => wrapI64 (acc + g.weight)) (acc : Int) = ((acc + (gs.map natW).sum : Nat) : Int) := by
  induction gs generalizing acc with
  | nil => simp
  | cons g rest ih =>
    simp only [List.foldl_cons, List.map_cons, List.sum_cons] at hs ⊢
    have hg := weight_eq_natW g (hw g List.mem_cons_self)
    have e : wrapI64 ((acc : Int) + g.weight) = ((acc + natW g : Nat) : Int) := by
      rw [hg, wrapI64_id] <;> omega
    rw [e, ih (acc + natW g) (fun x hx => hw x (List.mem_cons_of_mem _ hx)) (by omega)]
    congr 1; omega

theorem calcLoop_spec (gs : List Gateway) (lw W : Nat) (hW : 0 < W) (hW63 : W < 2 ^ 63)
    (hw : ∀ g ∈ gs, 0 ≤ g.weight) (hs : lw + (gs.map natW).sum ≤ W) :
    calcLoop (W : Int) (lw : Int) gs = some (setBounds gs (boundsFrom lw W (gs.map natW))) := by
  induction gs generalizing lw with
  | nil => simp [calcLoop, setBounds]
  | cons g rest ih =>
    simp only [List.map_cons, List.sum_cons] at hs
    have hg := weight_eq_natW g (hw g List.mem_cons_self)
    have e : wrapI64 ((lw : Int) + g.weight) = ((lw + natW g : Nat) : Int) := by
      rw [hg, wrapI64_id] <;> omega
    have hq := scaleAndRound_exact (lw + natW g) W hW (by omega) (by omega)
    have hq2 : (lw + natW g) * 2 ^ 31 = (lw + natW g) * space := rfl
    rw [hq2, nearest_eq _ _ hW] at hq
    have hle : nearest ((lw + natW g) * space) W ≤ space := by
      have := nearest_mono ((lw + natW g) * space) (W * space) W (Nat.mul_le_mul_right _ (by omega))
      rw [nearest_total W hW] at this; exact this
    have hsp : space = 2 ^ 31 := rfl
    unfold calcLoop
    simp only [e]
    rw [toU64_nat _ (by omega), toU64_nat _ (by omega), hq]
    simp only
    rw [ih (lw + natW g) (fun x hx => hw x (List.mem_cons_of_mem _ hx)) (by omega)]
    have hb : wrapI64 (ofU64 (nearest ((lw + natW g) * space) W) - 1)
        = (nearest ((lw + natW g) * space) W : Int) - 1 := by
      generalize nearest ((lw + natW g) * space) W = q at *
      unfold ofU64
      rw [wrapI64_id (q : Int) (by omega) (by omega), wrapI64_id _ (by omega) (by omega)]
    rw [hb]
    simp only [setBounds, boundsFrom, List.map_cons, prefixSums, List.zipWith_cons_cons]

theorem boundsFrom_length (acc W : Nat) (ws : List Nat) : (boundsFrom acc W ws).length = ws.length := by
  unfold boundsFrom
  induction ws generalizing acc with
  | nil => simp [prefixSums]
  | cons w ws ih => simp only [prefixSums, List.map_cons, List.length_cons]; have := ih (acc + w); simp at this; simp [this]

theorem sharesOK_boundsFrom (acc W : Nat) (ws : List Nat) (hW : 0 < W) :
    SharesOK W ((nearest (acc * space) W : Int) - 1) ws (boundsFrom acc W ws) := by
  induction ws generalizing acc with
  | nil => simp [boundsFrom, prefixSums, SharesOK]
  | cons w ws ih =>
    simp only [boundsFrom, prefixSums, List.map_cons, SharesOK]
    refine ⟨?_, width_proportional acc w W hW, ih (acc + w)⟩
    have := nearest_mono (acc * space) ((acc + w) * space) W (Nat.mul_le_mul_right _ (by omega))
    omega

theorem boundsFrom_last (acc W : Nat) (ws : List Nat) (hne : ws ≠ []) (hW : 0 < W) (hs : acc + ws.sum = W) :
    (boundsFrom acc W ws).getLast? = some ((space : Int) - 1) := by
  induction ws generalizing acc with
  | nil => exact absurd rfl hne
  | cons w ws ih =>
    simp only [List.sum_cons] at hs
    cases ws with
    | nil =>
      simp only [List.sum_nil, Nat.add_zero] at hs
      simp only [boundsFrom, prefixSums, List.map_cons, List.map_nil, List.getLast?_singleton, hs,
        nearest_total W hW]
    | cons w2 ws2 =>
      have := ih (acc + w) (by simp) (by omega)
      simp only [boundsFrom, prefixSums, List.map_cons, List.getLast?_cons_cons] at this ⊢
      exact this

/-- every bound is within `-1 .. 2^31 - 1`. -/
theorem boundsFrom_range (acc W : Nat) (ws : List Nat) (hW : 0 < W) (hs : acc + ws.sum ≤ W) :
    ∀ b ∈ boundsFrom acc W ws, -1 ≤ b ∧ b ≤ (space : Int) - 1 := by
  induction ws generalizing acc with
  | nil => simp [boundsFrom, prefixSums]
  | cons w ws ih =>
    simp only [List.sum_cons] at hs
    intro b hb
    simp only [boundsFrom, prefixSums, List.map_cons, List.mem_cons] at hb
    cases hb with
    | inl h =>
      have := nearest_mono ((acc + w) * space) (W * space) W (Nat.mul_le_mul_right _ (by omega))
      rw [nearest_total W hW] at this
      omega
    | inr h => exact ih (acc + w) (by omega) b h


theorem hash_range (p : Packet) : 0 ≤ hashPacket p ∧ hashPacket p < 2 ^ 31 := by
  unfold hashPacket Nebula.Gen.routing_hashPacket
  simp only
  generalize (BitVec.setWidth 64 _ : BitVec 64) = y
  have h : (y &&& 2147483647#64).toNat ≤ 2147483647 := by
    rw [BitVec.toNat_and]; exact Nat.and_le_right
  rw [BitVec.toInt_eq_toNat_cond]
  split <;> omega

theorem firstFit_spec (h : Int) (gs : List Gateway) (i : Nat) (hf : firstFit h gs = some i) :
    i < gs.length ∧ h ≤ (gs.map (·.bound)).getD i 0 ∧ ∀ j, j < i → (gs.map (·.bound)).getD j 0 < h := by
  induction gs generalizing i with
  | nil => simp [firstFit] at hf
  | cons g rest ih =>
    unfold firstFit at hf
    split at hf
    · rename_i hle
      cases hf
      simp [hle]
    · rename_i hnle
      cases hr : firstFit h rest with
      | none => simp [hr] at hf
      | some k =>
        simp [hr] at hf
        subst hf
        obtain ⟨a, b, c⟩ := ih k hr
        refine ⟨by simp; omega, by simpa using b, ?_⟩
        intro j hj
        cases j with
        | zero => simp; omega
        | succ j => simpa using c j (by omega)

theorem firstFit_isSome (h : Int) (gs : List Gateway) (hex : ∃ g ∈ gs, h ≤ g.bound) :
    ∃ i, firstFit h gs = some i := by
  induction gs with
  | nil => simp at hex
  | cons g rest ih =>
    unfold firstFit
    by_cases hle : h ≤ g.bound
    · exact ⟨0, by simp [hle]⟩
    · simp only [hle, if_false]
      obtain ⟨x, hx, hxb⟩ := hex
      simp only [List.mem_cons] at hx
      cases hx with
      | inl e => subst e; exact absurd hxb hle
      | inr e =>
        obtain ⟨i, hi⟩ := ih ⟨x, e, hxb⟩
        exact ⟨i + 1, by simp [hi]⟩

theorem boundsFrom_ge (acc W : Nat) (ws : List Nat) :
    ∀ b ∈ boundsFrom acc W ws, (nearest (acc * space) W : Int) - 1 ≤ b := by
  induction ws generalizing acc with
  | nil => simp [boundsFrom, prefixSums]
  | cons w ws ih =>
    intro b hb
    simp only [boundsFrom, prefixSums, List.map_cons, List.mem_cons] at hb
    have hm := nearest_mono (acc * space) ((acc + w) * space) W (Nat.mul_le_mul_right _ (by omega))
    cases hb with
    | inl h => omega
    | inr h => have := ih (acc + w) b h; omega

theorem boundsFrom_pairwise (acc W : Nat) (ws : List Nat) : (boundsFrom acc W ws).Pairwise (· ≤ ·) := by
  induction ws generalizing acc with
  | nil => simp [boundsFrom, prefixSums]
  | cons w ws ih =>
    have e : boundsFrom acc W (w :: ws) = ((nearest ((acc + w) * space) W : Int) - 1) :: boundsFrom (acc + w) W ws := by
      simp [boundsFrom, prefixSums]
    rw [e, List.pairwise_cons]
    exact ⟨boundsFrom_ge (acc + w) W ws, ih (acc + w)⟩

theorem map_bound_setBounds (gs : List Gateway) (bs : List Int) (h : bs.length = gs.length) :
    (setBounds gs bs).map (·.bound) = bs := by
  induction gs generalizing bs with
  | nil => cases bs <;> simp_all [setBounds]
  | cons g rest ih =>
    cases bs with
    | nil => simp at h
    | cons b bs => simp only [setBounds, List.zipWith_cons_cons, List.map_cons]; congr 1; exact ih bs (by simpa using h)

theorem map_addr_setBounds (gs : List Gateway) (bs : List Int) (h : bs.length = gs.length) :
    (setBounds gs bs).map (·.addr) = gs.map (·.addr) ∧ (setBounds gs bs).map (·.weight) = gs.map (·.weight) := by
  induction gs generalizing bs with
  | nil => cases bs <;> simp_all [setBounds]
  | cons g rest ih =>
    cases bs with
    | nil => simp at h
    | cons b bs =>
      have := ih bs (by simpa using h)
      simp only [setBounds, List.zipWith_cons_cons, List.map_cons]
      exact ⟨by congr 1; exact this.1, by congr 1; exact this.2⟩

theorem sum_le_of_bounded (ws : List Nat) (m : Nat) (h : ∀ w ∈ ws, w ≤ m) : ws.sum ≤ ws.length * m := by
  induction ws with
  | nil => simp
  | cons w ws ih =>
    simp only [List.sum_cons, List.length_cons]
    have := ih (fun x hx => h x (List.mem_cons_of_mem _ hx))
    have := h w List.mem_cons_self
    rw [Nat.add_mul]; omega


theorem mono_getD (bs : List Int) (h : bs.Pairwise (· ≤ ·)) (i k : Nat) (hik : i ≤ k) (hk : k < bs.length) :
    bs.getD i 0 ≤ bs.getD k 0 := by
  have hi : i < bs.length := by omega
  have e1 : bs.getD i 0 = bs[i] := by simp [List.getD, hi]
  have e2 : bs.getD k 0 = bs[k] := by simp [List.getD, hk]
  rw [e1, e2]
  by_cases e : i = k
  · subst e; exact Int.le_refl _
  · exact (List.pairwise_iff_getElem.mp h) i k hi hk (by omega)

end Nebula.Lemmas.Routing
