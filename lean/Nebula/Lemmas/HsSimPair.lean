/-
Simulation, part 4 (C31): the forward-simulation diagram on the abstract STATE. One event of the node model on the
acting node (X or Y), of one of the covered kinds, is matched by zero or one step of the abstract two-node model:
the acting side stays related (`SR`), the other side changes at most by messages added to its inbox, and the abstract
invariants (`Inv`, `SwapInv`), being invariants of every abstract step, carry over.
-/
import Nebula.Lemmas.HsSimDeliver

namespace Nebula.Lemmas.HsSim
open Nebula.HsManager Nebula.Lemmas.HsManager Nebula.HsRace Nebula.Lemmas.HsRace

/-- the covered event kinds of one node, with what the symbolic network supplies for deliveries -/
inductive PEv
  | swap (li : Nat)                                   -- connection manager: shouldSwapPrimary / swapPrimary
  | del (li : Nat)                                    -- deleteTunnel
  | check (li : Nat) (inT outT : Bool)                -- doTrafficCheck
  | start                                             -- GetOrHandshake / StartHandshake towards the peer
  | stage1 (via : UNode) (pkt : Handle) (c : Completed) (rv now : Nat)      -- a first message arrives (also a duplicate)
  | stage2 (via : UNode) (idx : Nat) (c : Completed) (replyTo : Handle)     -- a reply arrives (also a duplicate / late one)

/-- the node event -/
def PEv.ev (a : Addr) : PEv → Ev
  | .swap li => .swap li
  | .del li => .del li
  | .check li i o => .cmcheck li i o
  | .start => .rehs a
  | .stage1 via pkt c rv now => .stage1 via pkt (some c) rv now
  | .stage2 via idx c _ => .stage2 via idx (.completed c)

/-- what must hold for a delivery: the message is in flight towards the acting side (abstractly), it carries the
peer's certificate, and a reply is read by the Machine only for the pending handshake it answers -/
def PEv.guard (n : Node) (a : Addr) (inbox : List Msg) : PEv → Prop
  | .stage1 _ pkt c _ _ => c.certAddrs = [a] ∧ Msg.m1 (pkt + 1) c.remoteIndex ∈ inbox
  | .stage2 _ idx c replyTo => c.certAddrs = [a] ∧ n.cfg.myAddrs.contains a = false ∧
      Msg.m2 (replyTo + 1) c.remoteIndex idx ∈ inbox ∧
      ∀ hh, (alookup idx n.p.pindexes).bind n.p.pendingById = some hh → hh.pkt0 = some replyTo
  | _ => True

theorem get_set_same (s : St) (onX : Bool) (v : Side) : (s.set onX v).get onX = v := by
  cases onX <;> rfl

theorem get_set_other (s : St) (onX : Bool) (v : Side) : (s.set onX v).get (!onX) = s.get (!onX) := by
  cases onX <;> rfl

/-- the other side after the abstract steps: only its inbox may have grown -/
structure OtherSame (a b : Side) : Prop where
  tun : b.tunnels = a.tunnels
  rem : b.removed = a.removed
  pend : b.pending = a.pending
  pdl : b.pdl = a.pdl
  addr : b.addr = a.addr
  swaps : b.swaps = a.swaps
  inbox : ∀ m, m ∈ a.inbox → m ∈ b.inbox

theorem OtherSame.refl (a : Side) : OtherSame a a := ⟨rfl, rfl, rfl, rfl, rfl, rfl, fun _ h => h⟩

theorem deliver_get (s : St) (toX : Bool) (k ridx : Nat) (m : Msg) (hk : (s.get toX).inbox[k]? = some m) :
    (s.stepAll (.deliver toX k ridx)).get toX = ((s.get toX).receive ridx m).1 ∧
    OtherSame (s.get (!toX)) ((s.stepAll (.deliver toX k ridx)).get (!toX)) := by
  cases toX
  · simp only [St.get, Bool.false_eq_true, if_false] at hk
    simp only [St.stepAll, St.step, St.get, St.set, hk, Bool.not_false, Bool.false_eq_true, if_false, if_true]
    exact ⟨trivial, ⟨rfl, rfl, rfl, rfl, rfl, rfl, fun _ h => List.mem_append_left _ h⟩⟩
  · simp only [St.get, if_true] at hk
    simp only [St.stepAll, St.step, St.get, St.set, hk, Bool.not_true, Bool.false_eq_true, if_false, if_true]
    exact ⟨trivial, ⟨rfl, rfl, rfl, rfl, rfl, rfl, fun _ h => List.mem_append_left _ h⟩⟩

/-- FORWARD SIMULATION, one event of a covered kind on the acting node `n` (side `onX` of the abstract state `s`,
peer address `a`): there are abstract steps (none or one) after which the acting side is related to the node after the
event, the node invariant holds again, and the other side is unchanged up to new messages in its inbox. -/
theorem step_sim (s : St) (onX : Bool) (n : Node) (a : Addr) (inv : NInv n a) (sr : SR n a (s.get onX))
    (hpa : (s.get (!onX)).addr = a) (e : PEv) (g : e.guard n a (s.get onX).inbox) :
    ∃ steps : List Step, steps.length ≤ 1 ∧
      NInv (n.step (e.ev a)).1 a ∧ SR (n.step (e.ev a)).1 a ((s.run steps).get onX) ∧
      OtherSame (s.get (!onX)) ((s.run steps).get (!onX)) := by
  cases e with
  | swap li =>
    obtain ⟨j, h1, h2⟩ := swap_sim inv sr hpa li
    refine ⟨[.swap onX j], by simp, h2, ?_, ?_⟩
    · simp only [St.run, List.foldl_cons, List.foldl_nil, step_swap, get_set_same]; exact h1
    · simp only [St.run, List.foldl_cons, List.foldl_nil, step_swap, get_set_other]; exact OtherSame.refl _
  | del li =>
    obtain ⟨j, h1, h2⟩ := del_sim inv sr li
    refine ⟨[.del onX j], by simp, h2, ?_, ?_⟩
    · simp only [St.run, List.foldl_cons, List.foldl_nil, step_del, get_set_same]; exact h1
    · simp only [St.run, List.foldl_cons, List.foldl_nil, step_del, get_set_other]; exact OtherSame.refl _
  | check li i o =>
    obtain ⟨j, h1, h2⟩ := check_sim inv sr hpa li i o
    refine ⟨[.check onX j i o], by simp, h2, ?_, ?_⟩
    · simp only [St.run, List.foldl_cons, List.foldl_nil, St.stepAll, get_set_same]; exact h1
    · simp only [St.run, List.foldl_cons, List.foldl_nil, St.stepAll, get_set_other]; exact OtherSame.refl _
  | start =>
    have h := startHandshake_sim inv sr id keepCb_id
    exact ⟨[], by simp, h.2, h.1, OtherSame.refl _⟩
  | stage1 via pkt c rv now =>
    obtain ⟨hc, hm⟩ := g
    have h := stage1_sim inv sr via pkt c rv now hc
    rcases h.2 with ⟨h1, _⟩ | ⟨ridx, h1, _⟩
    · exact ⟨[], by simp, h.1, h1, OtherSame.refl _⟩
    · obtain ⟨k, hk⟩ := List.getElem?_of_mem hm
      have d := deliver_get s onX k ridx _ hk
      refine ⟨[.deliver onX k ridx], by simp, h.1, ?_, ?_⟩
      · simp only [St.run, List.foldl_cons, List.foldl_nil]; rw [d.1]; exact h1
      · simp only [St.run, List.foldl_cons, List.foldl_nil]; exact d.2
  | stage2 via idx c replyTo =>
    obtain ⟨hc, hself, hm, hmatch⟩ := g
    have h := stage2_sim inv sr via idx c replyTo hc hself hmatch
    rcases h.2.1 with h1 | h1
    · exact ⟨[], by simp, h.1, h1, OtherSame.refl _⟩
    · obtain ⟨k, hk⟩ := List.getElem?_of_mem hm
      have d := deliver_get s onX k 0 _ hk
      refine ⟨[.deliver onX k 0], by simp, h.1, ?_, ?_⟩
      · simp only [St.run, List.foldl_cons, List.foldl_nil]; rw [d.1]; exact h1
      · simp only [St.run, List.foldl_cons, List.foldl_nil]; exact d.2

/-- the other node stays related when its abstract side only received messages -/
theorem SR.other {n : Node} {a : Addr} {sd sd' : Side} (sr : SR n a sd) (o : OtherSame sd sd') : SR n a sd' :=
  ⟨by rw [o.tun]; exact sr.tun, by rw [o.pend]; exact sr.pend, by rw [o.pdl]; exact sr.pdl, by rw [o.addr]; exact sr.addr⟩

/-- TRANSFER of the abstract safety statements across the relation: if the pair of nodes is related to an abstract
state that satisfies the abstract invariants (every reachable abstract state does: `run_inv`, `run_swapinv`), then
every tunnel X holds as initiator is mirrored — same indexes crossed, same first packet — by a tunnel Y holds, or held
and removed itself. -/
theorem usable_transfer (s : St) (nx ny : Node) (ax ay : Addr) (srx : SR nx ay s.x) (sry : SR ny ax s.y) (hi : Inv s) :
    (∀ t, t ∈ nx.main.getList ay → t.initiator = true →
      (∃ u, u ∈ ny.main.getList ax ∧ absTun u = (absTun t).mirror) ∨ (absTun t).mirror ∈ s.y.removed) ∧
    (∀ t, t ∈ ny.main.getList ax → t.initiator = true →
      (∃ u, u ∈ nx.main.getList ay ∧ absTun u = (absTun t).mirror) ∨ (absTun t).mirror ∈ s.x.removed) := by
  constructor
  · intro t ht hin
    have := hi.1.1 (absTun t) (by rw [srx.tun]; exact List.mem_map.mpr ⟨t, ht, rfl⟩) (by simpa [absTun] using hin)
    simp only [Side.held, List.mem_append] at this
    rcases this with h | h
    · rw [sry.tun] at h
      obtain ⟨u, hu, e⟩ := List.mem_map.mp h
      exact Or.inl ⟨u, hu, e⟩
    · exact Or.inr h
  · intro t ht hin
    have := hi.2.1 (absTun t) (by rw [sry.tun]; exact List.mem_map.mpr ⟨t, ht, rfl⟩) (by simpa [absTun] using hin)
    simp only [Side.held, List.mem_append] at this
    rcases this with h | h
    · rw [srx.tun] at h
      obtain ⟨u, hu, e⟩ := List.mem_map.mp h
      exact Or.inl ⟨u, hu, e⟩
    · exact Or.inr h

/-- the two nodes X (address `ax`) and Y (address `ay`) are related to the abstract state `s`, which satisfies the
invariants of the abstract model -/
structure Rel (ax ay : Addr) (nx ny : Node) (s : St) : Prop where
  invx : NInv nx ay
  invy : NInv ny ax
  srx : SR nx ay s.x
  sry : SR ny ax s.y
  ax : s.x.addr = ax
  ay : s.y.addr = ay
  inv : Inv s
  swap : SwapInv s

theorem run_addrs (steps : List Step) : ∀ (s : St), (s.run steps).x.addr = s.x.addr ∧ (s.run steps).y.addr = s.y.addr := by
  induction steps with
  | nil => intro s; exact ⟨rfl, rfl⟩
  | cons st rest ih =>
    intro s
    have h1 := ih (s.stepAll st)
    have h2 := stepAll_addrs s st
    simp only [St.run, List.foldl_cons] at h1 ⊢
    exact ⟨h1.1.trans h2.1, h1.2.trans h2.2⟩

theorem run_swapinv' (steps : List Step) (s : St) (h : SwapInv s) : SwapInv (s.run steps) := (run_swapinv s steps h).1

/-- one covered event on X or on Y keeps the pair related (to a later abstract state) -/
theorem rel_step {ax ay : Addr} {nx ny : Node} {s : St} (r : Rel ax ay nx ny s) (onX : Bool) (e : PEv)
    (g : if onX then e.guard nx ay s.x.inbox else e.guard ny ax s.y.inbox) :
    ∃ steps : List Step, steps.length ≤ 1 ∧
      if onX then Rel ax ay (nx.step (e.ev ay)).1 ny (s.run steps) else Rel ax ay nx (ny.step (e.ev ax)).1 (s.run steps) := by
  cases onX
  · simp only [Bool.false_eq_true, if_false] at g ⊢
    obtain ⟨steps, hl, h1, h2, h3⟩ := step_sim s false ny ax r.invy r.sry r.ax e g
    have ha := run_addrs steps s
    exact ⟨steps, hl, ⟨r.invx, h1, r.srx.other h3, h2, ha.1.trans r.ax, ha.2.trans r.ay, run_inv s steps r.inv,
      run_swapinv' steps s r.swap⟩⟩
  · simp only [if_true] at g ⊢
    obtain ⟨steps, hl, h1, h2, h3⟩ := step_sim s true nx ay r.invx r.srx r.ay e g
    have ha := run_addrs steps s
    exact ⟨steps, hl, ⟨h1, r.invy, h2, r.sry.other h3, ha.1.trans r.ax, ha.2.trans r.ay, run_inv s steps r.inv,
      run_swapinv' steps s r.swap⟩⟩

/-- two freshly initialised nodes are related to the initial abstract state -/
theorem rel_init (cx cy : Cfg) (ax ay : Addr) (hx : cx.myAddrs = [ax]) (hy : cy.myAddrs = [ay]) :
    Rel ax ay (Node.init cx) (Node.init cy) (St.init ax ay) := by
  have ninv : ∀ (c : Cfg) (a : Addr), NInv (Node.init c) a := by
    intro c a
    constructor
    · exact MWF.empty a
    · intro h hm; simp [Node.init, HostMap.getList, alookup] at hm
    · intro h hm; simp [Node.init, HostMap.getList, alookup] at hm
    · rfl
    · intro e he; simp [Node.init] at he
    · simp [Node.init]
    · intro i id h; simp [Node.init, alookup] at h
    · intro i h; simp [Node.init, alookup] at h
    · intro id h; simp [Node.init] at h
  have sr : ∀ (c : Cfg) (a b : Addr), c.myAddrs = [b] → SR (Node.init c) a ({ addr := b } : Side) := by
    intro c a b hc
    refine ⟨by simp [Node.init, HostMap.getList, alookup], by simp [Node.init, absPending, alookup], ?_, by simp [Node.init, hc]⟩
    intro h hm; simp [Node.init, HostMap.getList, alookup] at hm
  exact ⟨ninv cx ay, ninv cy ax, sr cx ay ax hx, sr cy ax ay hy, rfl, rfl, init_inv ax ay, by simp [SwapInv, St.init]⟩

/-- at most one swapper, transferred: in a related pair with different addresses the abstract ghost counters say that
at most one side ever swapped, and the side whose address is larger cannot swap in its next step either -/
theorem one_swapper_transfer {ax ay : Addr} {nx ny : Node} {s : St} (r : Rel ax ay nx ny s) (hne : ax ≠ ay) :
    s.x.swaps = 0 ∨ s.y.swaps = 0 := by
  have h1 := r.swap.1
  have h2 := r.swap.2
  rw [r.ax, r.ay] at h1 h2
  by_cases hx : s.x.swaps = 0
  · exact Or.inl hx
  · by_cases hy : s.y.swaps = 0
    · exact Or.inr hy
    · have e1 : ay ≥ ax := h1 (Nat.pos_of_ne_zero hx)
      have e2 : ax ≥ ay := h2 (Nat.pos_of_ne_zero hy)
      exact absurd (Nat.le_antisymm e1 e2) hne

end Nebula.Lemmas.HsSim
