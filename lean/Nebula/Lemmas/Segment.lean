/-
Lemmas for C24 (segmenter): bridges from the translated `BitVec` functions to arithmetic, payload
geometry, and the "header ++ payload" normal form of a produced segment.
-/
import Nebula.Lemmas.SegmentList

namespace Nebula.Lemmas.Segment
open Nebula.Csum Nebula.Segment Nebula.Gen Nebula.Lemmas.SegmentList

/-! ### translated functions -/

theorem and65535 (x : Nat) : x &&& 65535 = x % 65536 := by
  have := Nat.and_two_pow_sub_one_eq_mod x 16
  simpa using this

/-- The translated `foldComplement` is the complement of the full RFC 1071 fold, for every `uint32`. -/
theorem foldComplement_eq (x : Nat) (h : x < 4294967296) : foldComplement x = 65535 - fold16 x := by
  have hf := foldStep_twice x h
  unfold foldComplement virtio_foldComplement
  simp only [BitVec.toNat_not, BitVec.toNat_setWidth, BitVec.toNat_add, BitVec.toNat_and,
    BitVec.toNat_ushiftRight, BitVec.toNat_ofNat, Nat.shiftRight_eq_div_pow, Nat.reducePow, Nat.reduceMod,
    and65535, Nat.reduceSub]
  unfold foldStep at hf
  have hx : x % 4294967296 = x := Nat.mod_eq_of_lt h
  rw [hx]
  have h1 : (x % 65536 + x / 65536) % 4294967296 = x % 65536 + x / 65536 := by omega
  rw [h1]
  have h2 : ((x % 65536 + x / 65536) % 65536 + (x % 65536 + x / 65536) / 65536) % 4294967296
      = (x % 65536 + x / 65536) % 65536 + (x % 65536 + x / 65536) / 65536 := by omega
  rw [h2, hf]
  have := fold16_lt x
  omega

/-- The translated `segCount` is `max 1 ⌈n/g⌉` on every input a Go slice length can take. -/
theorem segCount_eq (n g : Nat) (hn : n < 2 ^ 62) (hg : g < 2 ^ 62) (hg0 : 0 < g) :
    segCount n g = max 1 ((n + g - 1) / g) := by
  unfold segCount virtio_segCount
  have e : (BitVec.ofNat 64 n + BitVec.ofNat 64 g - 1#64) = BitVec.ofNat 64 (n + g - 1) := by
    apply BitVec.eq_of_toNat_eq
    simp [BitVec.toNat_sub, BitVec.toNat_add]
    omega
  rw [e]
  have hm1 : (BitVec.ofNat 64 (n + g - 1)).msb = false := by
    rw [BitVec.msb_eq_decide]; simp; omega
  have hm2 : (BitVec.ofNat 64 g).msb = false := by
    rw [BitVec.msb_eq_decide]; simp; omega
  have hqle : (n + g - 1) / g ≤ n + g - 1 := Nat.div_le_self _ _
  have hd : BitVec.sdiv (BitVec.ofNat 64 (n + g - 1)) (BitVec.ofNat 64 g) = BitVec.ofNat 64 ((n + g - 1) / g) := by
    rw [BitVec.sdiv_eq, hm1, hm2]
    apply BitVec.eq_of_toNat_eq
    simp [BitVec.toNat_udiv]
    have h1 : (n + g - 1) % 18446744073709551616 = n + g - 1 := by omega
    have h2 : g % 18446744073709551616 = g := by omega
    rw [h1, h2]
    generalize (n + g - 1) / g = q at hqle
    omega
  simp only [hd]
  generalize (n + g - 1) / g = q at hqle
  by_cases h0 : q = 0
  · simp [h0]
  · have : (BitVec.ofNat 64 q == 0#64) = false := by
      simp; intro hc
      have := congrArg BitVec.toNat hc
      simp at this; omega
    simp [this]
    omega

theorem fold2_eq (x : Nat) (h : x < 4294967296) : fold2 x = fold16 x := foldStep_twice x h

/-- the 64 → 32 double fold of the TCP checksum accumulator keeps the one's-complement number. -/
theorem wide_fold_rep (w : Nat) : Rep (w % 4294967296 + w / 4294967296) w := by
  unfold Rep
  constructor
  · have h1 : w = w % 4294967296 + 4294967296 * (w / 4294967296) := by omega
    conv => rhs; rw [h1]
    have h2 : 4294967296 * (w / 4294967296) = w / 4294967296 + 65535 * (65537 * (w / 4294967296)) := by
      omega
    rw [h2, ← Nat.add_assoc, Nat.add_mul_mod_self_left]
  · omega

theorem mod32_rep (w : Nat) (h : w < 4294967296) : w % 4294967296 = w := Nat.mod_eq_of_lt h

/-! ### payload geometry -/

theorem segPayload_length (pkt : List UInt8) (hl g i : Nat) :
    (segPayload pkt hl g i).length = min g (pkt.length - hl - i * g) := by
  simp [segPayload]; omega

theorem chunks_flatMap (P : List UInt8) (g n : Nat) :
    (List.range n).flatMap (fun i => (P.drop (i * g)).take g) = P.take (n * g) := by
  induction n with
  | zero => simp
  | succ n ih =>
    rw [List.range_succ, List.flatMap_append, ih]
    simp only [List.flatMap_cons, List.flatMap_nil, List.append_nil]
    rw [Nat.succ_mul, List.take_add]

/-- The payload slices of `numSeg` segments concatenate to the superpacket's payload, in order. -/
theorem payload_concat (pkt : List UInt8) (hl g n : Nat) (hn : pkt.length - hl ≤ n * g) :
    (List.range n).flatMap (segPayload pkt hl g) = pkt.drop hl := by
  unfold segPayload
  rw [chunks_flatMap (pkt.drop hl) g n]
  exact List.take_of_length_le (by simp; omega)

theorem count_covers (p g : Nat) (hg : 0 < g) : p ≤ max 1 ((p + g - 1) / g) * g := by
  have h1 := Nat.div_add_mod (p + g - 1) g
  have h2 := Nat.mod_lt (p + g - 1) hg
  have h3 : (p + g - 1) / g * g ≤ max 1 ((p + g - 1) / g) * g :=
    Nat.mul_le_mul_right g (Nat.le_max_right _ _)
  rw [Nat.mul_comm] at h1
  generalize (p + g - 1) / g * g = a at *
  generalize max 1 ((p + g - 1) / g) * g = b at *
  omega

/-- every segment but the last is full: for `i + 1 < numSeg` at least `g` payload bytes remain. -/
theorem nonlast_full (p g i : Nat) (hg : 0 < g) (hi : i + 1 < max 1 ((p + g - 1) / g)) :
    (i + 1) * g ≤ p := by
  have hq : i + 1 < (p + g - 1) / g := by
    have : max 1 ((p + g - 1) / g) = (p + g - 1) / g ∨ max 1 ((p + g - 1) / g) = 1 := by omega
    omega
  have hq' : (i + 1) + 1 ≤ (p + g - 1) / g := hq
  have h1 := Nat.mul_le_mul_right g hq'
  rw [Nat.add_mul, Nat.one_mul] at h1
  have h2 : (p + g - 1) / g * g ≤ p + g - 1 := Nat.div_mul_le_self _ _
  generalize (p + g - 1) / g * g = a at *
  generalize (i + 1) * g = c at *
  omega

/-! ### "header ++ payload" normal form -/

theorem patchIP_left (H P : List UInt8) (isV4 : Bool) (hdrLen spl origID baseIP i : Nat)
    (h : 12 ≤ H.length) :
    patchIP (H ++ P) isV4 hdrLen spl origID baseIP i = patchIP H isV4 hdrLen spl origID baseIP i ++ P := by
  unfold patchIP
  simp only [virtio_ipv4TotalLenOff, virtio_ipv4IDOff, virtio_ipv4ChecksumOff, virtio_ipv6PayloadLenOff]
  split
  · rw [set16_left _ _ _ _ (by omega)]
    rw [set16_left _ _ _ _ (by rw [set16_length _ _ _ (by omega)]; omega)]
    rw [set16_left _ _ _ _ (by rw [set16_length _ _ _ (by rw [set16_length _ _ _ (by omega)]; omega),
      set16_length _ _ _ (by omega)]; omega)]
  · rw [set16_left _ _ _ _ (by omega)]

theorem patchIP_length (H : List UInt8) (isV4 : Bool) (hdrLen spl origID baseIP i : Nat)
    (h : 12 ≤ H.length) : (patchIP H isV4 hdrLen spl origID baseIP i).length = H.length := by
  unfold patchIP
  simp only [virtio_ipv4TotalLenOff, virtio_ipv4IDOff, virtio_ipv4ChecksumOff, virtio_ipv6PayloadLenOff]
  split
  · rw [set16_length _ _ _ (by rw [set16_length _ _ _ (by rw [set16_length _ _ _ (by omega)]; omega),
      set16_length _ _ _ (by omega)]; omega),
      set16_length _ _ _ (by rw [set16_length _ _ _ (by omega)]; omega), set16_length _ _ _ (by omega)]
  · rw [set16_length _ _ _ (by omega)]

theorem set8_left (y z : List UInt8) (k v : Nat) (h : k + 1 ≤ y.length) :
    set8 (y ++ z) k v = set8 y k v ++ z := by
  have := set8_mid [] y z k v h
  simpa using this

theorem set32_left (y z : List UInt8) (k v : Nat) (h : k + 4 ≤ y.length) :
    set32 (y ++ z) k v = set32 y k v ++ z := by
  have := set32_mid [] y z k v h
  simpa using this

/-- A TCP segment is a patched copy of the saved header followed by its payload slice, and the patched
header has the saved header's length. -/
theorem tcpSeg_normal (c : TcpCtx) (pkt : List UInt8) (i : Nat)
    (hlen : c.saved.length = c.hdrLen) (hcs : c.csumStart + 18 ≤ c.hdrLen) :
    ∃ H' : List UInt8, H'.length = c.hdrLen ∧
      tcpSeg c pkt i = H' ++ segPayload pkt c.hdrLen c.g i := by
  unfold tcpSeg
  simp only [virtio_tcpSeqOff, virtio_tcpFlagsOff, virtio_tcpChecksumOff]
  generalize segPayload pkt c.hdrLen c.g i = P
  have h12 : 12 ≤ c.saved.length := by omega
  rw [patchIP_left _ _ _ _ _ _ _ _ h12]
  have l1 := patchIP_length c.saved c.isV4 c.hdrLen P.length c.origID c.baseIP i h12
  generalize patchIP c.saved c.isV4 c.hdrLen P.length c.origID c.baseIP i = H1 at l1 ⊢
  rw [set32_left _ _ _ _ (by omega)]
  have l2 := set32_length H1 (c.csumStart + 4) ((c.origSeq + i * c.g % 4294967296) % 4294967296) (by omega)
  generalize set32 H1 (c.csumStart + 4) ((c.origSeq + i * c.g % 4294967296) % 4294967296) = H2 at l2 ⊢
  rw [set8_left _ _ _ _ (by omega)]
  have l3 := set8_length H2 (c.csumStart + 13) (segFlags c.origFlags i c.numSeg) (by omega)
  generalize set8 H2 (c.csumStart + 13) (segFlags c.origFlags i c.numSeg) = H3 at l3 ⊢
  rw [set16_left _ _ _ _ (by omega)]
  exact ⟨_, by rw [set16_length _ _ _ (by omega)]; omega, rfl⟩

theorem udp_nf_aux (H P : List UInt8) (isV4 : Bool) (hdrLen spl origID baseIP i cs v X : Nat)
    (hcs : cs + 8 = H.length) (h12 : 12 ≤ H.length) :
    ∃ H' : List UInt8, H'.length = H.length ∧
      set16 (set16 (set16 (patchIP (H ++ P) isV4 hdrLen spl origID baseIP i) (cs + 4) v) (cs + 6) 0) (cs + 6) X
        = H' ++ P := by
  rw [patchIP_left _ _ _ _ _ _ _ _ h12]
  have l1 := patchIP_length H isV4 hdrLen spl origID baseIP i h12
  generalize patchIP H isV4 hdrLen spl origID baseIP i = H1 at l1 ⊢
  rw [set16_left _ _ _ _ (by omega)]
  have l2 := set16_length H1 (cs + 4) v (by omega)
  generalize set16 H1 (cs + 4) v = H2 at l2 ⊢
  rw [set16_left _ _ _ _ (by omega)]
  have l3 := set16_length H2 (cs + 6) 0 (by omega)
  generalize set16 H2 (cs + 6) 0 = H3 at l3 ⊢
  rw [set16_left _ _ _ _ (by omega)]
  exact ⟨_, by rw [set16_length _ _ _ (by omega)]; omega, rfl⟩

/-- Same for UDP (header length `csumStart + 8`). -/
theorem udpSeg_normal (c : UdpCtx) (pkt : List UInt8) (i : Nat)
    (hlen : c.saved.length = c.hdrLen) (hcs : c.csumStart + 8 = c.hdrLen) (h12 : 12 ≤ c.hdrLen) :
    ∃ H' : List UInt8, H'.length = c.hdrLen ∧
      udpSeg c pkt i = H' ++ segPayload pkt c.hdrLen c.g i := by
  unfold udpSeg
  simp only [virtio_udpLengthOff, virtio_udpChecksumOff, virtio_udpHeaderLen]
  rw [← hlen]
  exact udp_nf_aux c.saved _ c.isV4 _ _ c.origID c.baseIP i c.csumStart _ _ (by omega) (by omega)

end Nebula.Lemmas.Segment
