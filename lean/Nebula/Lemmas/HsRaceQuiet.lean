/-
Liveness of C31 on the abstract two-node model under the fairness assumption "traffic follows primaries":
after the last handshake message, each side keeps sending on its primary tunnel, so a tunnel sees inbound traffic
exactly when it is the mirror of the peer's primary, and outbound traffic exactly when it is the primary. The
connection-manager checks of the quiet phase take their traffic flags from that rule (`St.qcheck`); a schedule of
the quiet phase is a list of (side, tunnel) checks in ANY order; it is fair if it splits into rounds each of which
checks every tunnel of both sides exactly once (`coversRound`).
-/
import Nebula.Lemmas.HsRaceLive

namespace Nebula.Lemmas.HsRace
open Nebula.HsRace

/-! ### the quiet phase -/

/-- one traffic check of tunnel `t` of side `me` with the flags of "traffic follows primaries" -/
def qc (me peer : Side) (t : Tun) : Side :=
  me.check peer (me.tunnels.idxOf t) (peer.tunnels.head? == some t.mirror) (me.tunnels.head? == some t)

def qcheck (s : St) (c : Bool × Tun) : St := s.set c.1 (qc (s.get c.1) (s.get (!c.1)) c.2)

def qrun (s : St) (b : List (Bool × Tun)) : St := b.foldl qcheck s

/-- `qcheck` is a `check` step of the model with the flags derived from the primaries -/
theorem qcheck_is_check (s : St) (onX : Bool) (t : Tun) :
    qcheck s (onX, t) = s.stepAll (.check onX ((s.get onX).tunnels.idxOf t)
      ((s.get (!onX)).tunnels.head? == some t.mirror) ((s.get onX).tunnels.head? == some t)) := rfl

/-- a round: no check twice, every tunnel the two sides held at the start of the quiet phase checked -/
def coversRound (s0 : St) (b : List (Bool × Tun)) : Bool :=
  decide b.Nodup && s0.x.tunnels.all (fun t => b.contains (true, t)) && s0.y.tunnels.all (fun t => b.contains (false, t))

theorem mirror_mirror (t : Tun) : t.mirror.mirror = t := by cases t; simp [Tun.mirror]

theorem mirror_inj {t u : Tun} (h : t.mirror = u.mirror) : t = u := by
  have := congrArg Tun.mirror h; rwa [mirror_mirror, mirror_mirror] at this

/-! ### exact effect of one check -/

theorem check_noin (me peer : Side) (j : Nat) (t : Tun) (outT : Bool) (ht : me.tunnels[j]? = some t)
    (hj : j ≠ 0 ∨ outT = true) :
    (t ∈ me.pdl → (me.check peer j false outT).tunnels = me.tunnels.eraseIdx j ∧
        (me.check peer j false outT).pdl = me.pdl.filter (· != t)) ∧
    (t ∉ me.pdl → (me.check peer j false outT).tunnels = me.tunnels ∧ (me.check peer j false outT).pdl = t :: me.pdl) ∧
    (me.check peer j false outT).addr = me.addr := by
  refine ⟨fun hp => ?_, fun hp => ?_, (check_shrink me peer j false outT).2.2.2.1⟩
  · have hp' : me.pdl.contains t = true := by simpa using hp
    simp [Side.check, ht, checkIn, Nebula.ConnMgr.trafficDecision, Nebula.ConnMgr.isInvalidCertificate,
      rejectAfter_pos, rejectAfter_ne, hp, hp']
  · have hp' : me.pdl.contains t = false := by simpa using hp
    rcases hj with hj | hj
    · have h0 : (j == 0) = false := by simp [hj]
      simp [Side.check, ht, checkIn, Nebula.ConnMgr.trafficDecision, Nebula.ConnMgr.isInvalidCertificate,
        rejectAfter_pos, rejectAfter_ne, hp, hp', h0]
    · by_cases h0 : (j == 0) = true
      · simp [Side.check, ht, checkIn, Nebula.ConnMgr.trafficDecision, Nebula.ConnMgr.isInvalidCertificate,
          rejectAfter_pos, rejectAfter_ne, hp, hp', h0, hj]
      · have h0' : (j == 0) = false := by simpa using h0
        simp [Side.check, ht, checkIn, Nebula.ConnMgr.trafficDecision, Nebula.ConnMgr.isInvalidCertificate,
          rejectAfter_pos, rejectAfter_ne, hp, hp', h0']

theorem check_in (me peer : Side) (j : Nat) (t : Tun) (outT : Bool) (ht : me.tunnels[j]? = some t) :
    (me.check peer j true outT).tunnels =
      (if j = 0 ∨ shouldSwap me peer = false then me.tunnels else t :: me.tunnels.eraseIdx j) ∧
    (me.check peer j true outT).pdl = me.pdl.filter (· != t) ∧ (me.check peer j true outT).addr = me.addr := by
  refine ⟨?_, ?_, (check_shrink me peer j true outT).2.2.2.1⟩
  · by_cases h0 : j = 0
    · subst h0
      simp [Side.check, ht, checkIn, Nebula.ConnMgr.trafficDecision, Nebula.ConnMgr.isInvalidCertificate, rejectAfter_ne]
    · have h0' : (j == 0) = false := by simp [h0]
      by_cases hs : shouldSwap me peer = true
      · simp [Side.check, ht, checkIn, Nebula.ConnMgr.trafficDecision, Nebula.ConnMgr.isInvalidCertificate,
          rejectAfter_ne, h0, h0', hs]
      · have hs' : shouldSwap me peer = false := by simpa using hs
        simp [Side.check, ht, checkIn, Nebula.ConnMgr.trafficDecision, Nebula.ConnMgr.isInvalidCertificate,
          rejectAfter_ne, h0, h0', hs']
  · by_cases h0 : (j == 0) = true
    · simp [Side.check, ht, checkIn, Nebula.ConnMgr.trafficDecision, Nebula.ConnMgr.isInvalidCertificate, rejectAfter_ne, h0]
    · have h0' : (j == 0) = false := by simpa using h0
      by_cases hs : shouldSwap me peer = true
      · simp [Side.check, ht, checkIn, Nebula.ConnMgr.trafficDecision, Nebula.ConnMgr.isInvalidCertificate,
          rejectAfter_ne, h0', hs]
      · have hs' : shouldSwap me peer = false := by simpa using hs
        simp [Side.check, ht, checkIn, Nebula.ConnMgr.trafficDecision, Nebula.ConnMgr.isInvalidCertificate,
          rejectAfter_ne, h0', hs']

theorem idxOf_get {l : List Tun} {t : Tun} (h : t ∈ l) : l[l.idxOf t]? = some t := by
  induction l with
  | nil => simp at h
  | cons x xs ih =>
    by_cases e : x = t
    · subst e; simp [List.idxOf_cons]
    · have hm : t ∈ xs := by
        rcases List.mem_cons.mp h with e' | e'
        · exact absurd e'.symm e
        · exact e'
      have : (x == t) = false := by simp [e]
      simp [List.idxOf_cons, this, ih hm]

theorem idxOf_zero_iff {l : List Tun} {t m : Tun} (hh : l.head? = some m) (h : t ∈ l) : l.idxOf t = 0 ↔ t = m := by
  cases l with
  | nil => simp at h
  | cons x xs =>
    simp at hh; subst hh
    by_cases e : x = t
    · subst e; simp [List.idxOf_cons]
    · have : (x == t) = false := by simp [e]
      simp [List.idxOf_cons, this]; exact fun e' => e e'.symm

theorem not_mem_eraseIdx_nodup {l : List Tun} (nd : l.Nodup) {j : Nat} {t : Tun} (h : l[j]? = some t) :
    t ∉ l.eraseIdx j := by
  induction l generalizing j with
  | nil => simp at h
  | cons x xs ih =>
    simp only [List.nodup_cons] at nd
    cases j with
    | zero => simp at h; subst h; simpa using nd.1
    | succ j =>
      simp only [List.getElem?_cons_succ] at h
      simp only [List.eraseIdx_cons_succ, List.mem_cons, not_or]
      refine ⟨?_, ih nd.2 h⟩
      intro e; subst e; exact nd.1 (List.mem_of_getElem? h)

theorem head_eraseIdx {l : List Tun} {j : Nat} (hj : j ≠ 0) : (l.eraseIdx j).head? = l.head? := by
  cases l with
  | nil => rfl
  | cons x xs => cases j with
    | zero => exact absurd rfl hj
    | succ j => simp [List.eraseIdx_cons_succ]

/-! ### one check while the two primaries are mirrors of each other -/

/-- a quiet check on a side whose primary `m` is the mirror of the peer's primary -/
theorem qc_K (me peer : Side) (m t : Tun) (hm : me.tunnels.head? = some m) (nd : me.tunnels.Nodup)
    (hp : peer.tunnels.head? = some m.mirror) :
    ((qc me peer t).tunnels.head? = some m ∧ (qc me peer t).tunnels.Nodup ∧
      (∀ u, u ∈ (qc me peer t).tunnels → u ∈ me.tunnels) ∧ (qc me peer t).addr = me.addr) ∧
    (∀ u, u ≠ t → (u ∈ (qc me peer t).pdl ↔ u ∈ me.pdl)) ∧
    (t ≠ m → t ∈ me.tunnels → (t ∈ me.pdl → t ∉ (qc me peer t).tunnels) ∧ (t ∉ me.pdl → t ∈ (qc me peer t).pdl)) := by
  by_cases hmem : t ∈ me.tunnels
  · have hget := idxOf_get hmem
    by_cases htm : t = m
    · subst htm
      have hj0 : me.tunnels.idxOf t = 0 := (idxOf_zero_iff hm hmem).mpr rfl
      have hin : (peer.tunnels.head? == some t.mirror) = true := by simp [hp]
      have c := check_in me peer (me.tunnels.idxOf t) t (me.tunnels.head? == some t) hget
      unfold qc
      rw [hin]
      rw [hj0] at c ⊢
      simp only [true_or, if_true] at c
      refine ⟨⟨by rw [c.1]; exact hm, by rw [c.1]; exact nd, fun u hu => by rw [c.1] at hu; exact hu, c.2.2⟩, ?_, ?_⟩
      · intro u hu; rw [c.2.1]; simp [List.mem_filter, hu]
      · intro h; exact absurd rfl h
    · have hj0 : me.tunnels.idxOf t ≠ 0 := fun e => htm ((idxOf_zero_iff hm hmem).mp e)
      have hin : (peer.tunnels.head? == some t.mirror) = false := by
        rw [hp]; simp; exact fun e => htm (mirror_inj e).symm
      have c := check_noin me peer (me.tunnels.idxOf t) t (me.tunnels.head? == some t) hget (Or.inl hj0)
      unfold qc
      rw [hin]
      by_cases hpd : t ∈ me.pdl
      · have c1 := c.1 hpd
        refine ⟨⟨by rw [c1.1, head_eraseIdx hj0]; exact hm, by rw [c1.1]; exact nd.sublist (List.eraseIdx_sublist _ _),
          fun u hu => by rw [c1.1] at hu; exact List.mem_of_mem_eraseIdx hu, c.2.2⟩, ?_, ?_⟩
        · intro u hu; rw [c1.2]; simp [List.mem_filter, hu]
        · intro _ _
          exact ⟨fun _ => by rw [c1.1]; exact not_mem_eraseIdx_nodup nd hget, fun h => absurd hpd h⟩
      · have c2 := c.2.1 hpd
        refine ⟨⟨by rw [c2.1]; exact hm, by rw [c2.1]; exact nd, fun u hu => by rw [c2.1] at hu; exact hu, c.2.2⟩, ?_, ?_⟩
        · intro u hu; rw [c2.2]; simp [hu]
        · intro _ _
          exact ⟨fun h => absurd h hpd, fun _ => by rw [c2.2]; simp⟩
  · have hnone : me.tunnels[me.tunnels.idxOf t]? = none := by
      rw [List.getElem?_eq_none_iff]
      exact Nat.le_of_eq (List.idxOf_eq_length hmem).symm
    have e : qc me peer t = me := by unfold qc Side.check; simp [hnone]
    rw [e]
    exact ⟨⟨hm, nd, fun u hu => hu, rfl⟩, fun u _ => Iff.rfl, fun _ h => absurd h hmem⟩

/-! ### rounds while the two primaries are mirrors -/

/-- the two primaries are the two ends of one tunnel -/
structure QK (s : St) (m h : Tun) : Prop where
  xh : s.x.tunnels.head? = some m
  yh : s.y.tunnels.head? = some h
  mir : h = m.mirror
  xnd : s.x.tunnels.Nodup
  ynd : s.y.tunnels.Nodup

def SideM2 (me : Side) (m : Tun) (tag : Bool) (rem : List (Bool × Tun)) : Prop :=
  ∀ t, t ∈ me.tunnels → t ≠ m → t ∈ me.pdl ∨ (tag, t) ∈ rem

def SideM3 (me : Side) (m : Tun) (tag : Bool) (rem : List (Bool × Tun)) : Prop :=
  ∀ t, t ∈ me.tunnels → t ≠ m → t ∈ me.pdl ∧ (tag, t) ∈ rem

theorem sideM2_self {me peer : Side} {m t : Tun} {tag : Bool} {rem : List (Bool × Tun)}
    (hm : me.tunnels.head? = some m) (nd : me.tunnels.Nodup) (hp : peer.tunnels.head? = some m.mirror)
    (h : SideM2 me m tag ((tag, t) :: rem)) : SideM2 (qc me peer t) m tag rem := by
  have k := qc_K me peer m t hm nd hp
  intro u hu hne
  have hu' := k.1.2.2.1 u hu
  by_cases e : u = t
  · subst e
    by_cases hpd : u ∈ me.pdl
    · exact absurd hu ((k.2.2 hne hu').1 hpd)
    · exact Or.inl ((k.2.2 hne hu').2 hpd)
  · rcases h u hu' hne with h1 | h1
    · exact Or.inl ((k.2.1 u e).mpr h1)
    · rcases List.mem_cons.mp h1 with e' | e'
      · exact absurd (Prod.mk.inj e').2 e
      · exact Or.inr e'

theorem sideM3_self {me peer : Side} {m t : Tun} {tag : Bool} {rem : List (Bool × Tun)}
    (hm : me.tunnels.head? = some m) (nd : me.tunnels.Nodup) (hp : peer.tunnels.head? = some m.mirror)
    (h : SideM3 me m tag ((tag, t) :: rem)) : SideM3 (qc me peer t) m tag rem := by
  have k := qc_K me peer m t hm nd hp
  intro u hu hne
  have hu' := k.1.2.2.1 u hu
  by_cases e : u = t
  · subst e
    exact absurd hu ((k.2.2 hne hu').1 (h u hu' hne).1)
  · have h1 := h u hu' hne
    refine ⟨(k.2.1 u e).mpr h1.1, ?_⟩
    rcases List.mem_cons.mp h1.2 with e' | e'
    · exact absurd (Prod.mk.inj e').2 e
    · exact e'

theorem sideM2_other {me : Side} {m t : Tun} {tag : Bool} {rem : List (Bool × Tun)}
    (h : SideM2 me m tag ((!tag, t) :: rem)) : SideM2 me m tag rem := by
  intro u hu hne
  rcases h u hu hne with h1 | h1
  · exact Or.inl h1
  · rcases List.mem_cons.mp h1 with e' | e'
    · have := (Prod.mk.inj e').1; cases tag <;> simp at this
    · exact Or.inr e'

theorem sideM3_other {me : Side} {m t : Tun} {tag : Bool} {rem : List (Bool × Tun)}
    (h : SideM3 me m tag ((!tag, t) :: rem)) : SideM3 me m tag rem := by
  intro u hu hne
  have h1 := h u hu hne
  refine ⟨h1.1, ?_⟩
  rcases List.mem_cons.mp h1.2 with e' | e'
  · have := (Prod.mk.inj e').1; cases tag <;> simp at this
  · exact e'

theorem qcheck_K {s : St} {m h : Tun} (k : QK s m h) (c : Bool × Tun) : QK (qcheck s c) m h := by
  obtain ⟨onX, t⟩ := c
  have hp2 : s.x.tunnels.head? = some h.mirror := by rw [k.mir, mirror_mirror]; exact k.xh
  cases onX
  · have q := qc_K s.y s.x h t k.yh k.ynd hp2
    exact ⟨k.xh, q.1.1, k.mir, k.xnd, q.1.2.1⟩
  · have q := qc_K s.x s.y m t k.xh k.xnd (by rw [← k.mir]; exact k.yh)
    exact ⟨q.1.1, k.yh, k.mir, q.1.2.1, k.ynd⟩

theorem round2 (b : List (Bool × Tun)) : ∀ (s : St) (m h : Tun), QK s m h → SideM2 s.x m true b → SideM2 s.y h false b →
    QK (qrun s b) m h ∧ SideM2 (qrun s b).x m true [] ∧ SideM2 (qrun s b).y h false [] := by
  induction b with
  | nil => intro s m h k hx hy; exact ⟨k, hx, hy⟩
  | cons c rest ih =>
    intro s m h k hx hy
    have k' := qcheck_K k c
    have hp2 : s.x.tunnels.head? = some h.mirror := by rw [k.mir, mirror_mirror]; exact k.xh
    obtain ⟨onX, t⟩ := c
    cases onX
    · exact ih _ m h k' (sideM2_other (tag := true) hx) (sideM2_self k.yh k.ynd hp2 hy)
    · exact ih _ m h k' (sideM2_self k.xh k.xnd (by rw [← k.mir]; exact k.yh) hx) (sideM2_other (tag := false) hy)

theorem round3 (b : List (Bool × Tun)) : ∀ (s : St) (m h : Tun), QK s m h → SideM3 s.x m true b → SideM3 s.y h false b →
    QK (qrun s b) m h ∧ SideM3 (qrun s b).x m true [] ∧ SideM3 (qrun s b).y h false [] := by
  induction b with
  | nil => intro s m h k hx hy; exact ⟨k, hx, hy⟩
  | cons c rest ih =>
    intro s m h k hx hy
    have k' := qcheck_K k c
    have hp2 : s.x.tunnels.head? = some h.mirror := by rw [k.mir, mirror_mirror]; exact k.xh
    obtain ⟨onX, t⟩ := c
    cases onX
    · exact ih _ m h k' (sideM3_other (tag := true) hx) (sideM3_self k.yh k.ynd hp2 hy)
    · exact ih _ m h k' (sideM3_self k.xh k.xnd (by rw [← k.mir]; exact k.yh) hx) (sideM3_other (tag := false) hy)

/-- checks never add tunnels -/
theorem qrun_subset (b : List (Bool × Tun)) : ∀ (s : St),
    (∀ t, t ∈ (qrun s b).x.tunnels → t ∈ s.x.tunnels) ∧ (∀ t, t ∈ (qrun s b).y.tunnels → t ∈ s.y.tunnels) := by
  induction b with
  | nil => intro s; exact ⟨fun _ h => h, fun _ h => h⟩
  | cons c rest ih =>
    intro s
    have r := ih (qcheck s c)
    obtain ⟨onX, t⟩ := c
    cases onX
    · exact ⟨fun u hu => r.1 u hu, fun u hu => (check_shrink s.y s.x _ _ _).1 u (r.2 u hu)⟩
    · exact ⟨fun u hu => (check_shrink s.x s.y _ _ _).1 u (r.1 u hu), fun u hu => r.2 u hu⟩

theorem singleton_of_head {l : List Tun} {m : Tun} (hh : l.head? = some m) (nd : l.Nodup) (h : ∀ t, t ∈ l → t = m) :
    l = [m] := by
  cases l with
  | nil => simp at hh
  | cons x xs =>
    simp at hh; subst hh
    cases xs with
    | nil => rfl
    | cons y ys =>
      have : y = x := h y (by simp)
      subst this
      simp at nd

theorem covers_mem {s0 : St} {b : List (Bool × Tun)} (hc : coversRound s0 b = true) :
    b.Nodup ∧ (∀ t, t ∈ s0.x.tunnels → (true, t) ∈ b) ∧ (∀ t, t ∈ s0.y.tunnels → (false, t) ∈ b) := by
  simp only [coversRound, Bool.and_eq_true, decide_eq_true_eq, List.all_eq_true, List.contains_iff_mem] at hc
  exact ⟨hc.1.1, hc.1.2, hc.2⟩

/-- two fair rounds after the primaries have become mirrors of each other: exactly that pair is left -/
theorem mirrored_primaries_converge (s0 s : St) (m h : Tun) (k : QK s m h)
    (hsx : ∀ t, t ∈ s.x.tunnels → t ∈ s0.x.tunnels) (hsy : ∀ t, t ∈ s.y.tunnels → t ∈ s0.y.tunnels)
    (b2 b3 : List (Bool × Tun)) (c2 : coversRound s0 b2 = true) (c3 : coversRound s0 b3 = true) :
    (qrun (qrun s b2) b3).x.tunnels = [m] ∧ (qrun (qrun s b2) b3).y.tunnels = [h] := by
  have m2 := covers_mem c2
  have m3 := covers_mem c3
  have r2 := round2 b2 s m h k (fun t ht _ => Or.inr (m2.2.1 t (hsx t ht))) (fun t ht _ => Or.inr (m2.2.2 t (hsy t ht)))
  have sub2 := qrun_subset b2 s
  have r3 := round3 b3 (qrun s b2) m h r2.1
    (fun t ht hne => ⟨(r2.2.1 t ht hne).resolve_right (by simp), m3.2.1 t (hsx t (sub2.1 t ht))⟩)
    (fun t ht hne => ⟨(r2.2.2 t ht hne).resolve_right (by simp), m3.2.2 t (hsy t (sub2.2 t ht))⟩)
  refine ⟨singleton_of_head r3.1.xh r3.1.xnd ?_, singleton_of_head r3.1.yh r3.1.ynd ?_⟩
  · intro t ht
    by_cases e : t = m
    · exact e
    · exact absurd (r3.2.1 t ht e).2 (by simp)
  · intro t ht
    by_cases e : t = h
    · exact e
    · exact absurd (r3.2.2 t ht e).2 (by simp)

end Nebula.Lemmas.HsRace
