/-
Liveness of C31 on the abstract two-node model under the fairness assumption "traffic follows primaries":
after the last handshake message, each side keeps sending on its primary tunnel, so a tunnel sees inbound traffic
exactly when it is the mirror of the peer's primary, and outbound traffic exactly when it is the primary. The
connection-manager checks of the quiet phase take their traffic flags from that rule (`St.qcheck`); a schedule of
the quiet phase is a list of (side, tunnel) checks in ANY order; it is fair if it splits into rounds each of which
checks every tunnel of both sides exactly once (`coversRound`).
-/
import Nebula.Lemmas.HsRaceLive

namespace Nebula.Lemmas.HsRace
open Nebula.HsRace

/-! ### the quiet phase -/

/-- one traffic check of tunnel `t` of side `me` with the flags of "traffic follows primaries" -/
def qc (me peer : Side) (t : Tun) : Side :=
  me.check peer (me.tunnels.idxOf t) (peer.tunnels.head? == some t.mirror) (me.tunnels.head? == some t)

def qcheck (s : St) (c : Bool × Tun) : St := s.set c.1 (qc (s.get c.1) (s.get (!c.1)) c.2)

def qrun (s : St) (b : List (Bool × Tun)) : St := b.foldl qcheck s

/-- `qcheck` is a `check` step of the model with the flags derived from the primaries -/
theorem qcheck_is_check (s : St) (onX : Bool) (t : Tun) :
    qcheck s (onX, t) = s.stepAll (.check onX ((s.get onX).tunnels.idxOf t)
      ((s.get (!onX)).tunnels.head? == some t.mirror) ((s.get onX).tunnels.head? == some t)) := rfl

/-- a round: no check twice, every tunnel the two sides held at the start of the quiet phase checked -/
def coversRound (s0 : St) (b : List (Bool × Tun)) : Bool :=
  decide b.Nodup && s0.x.tunnels.all (fun t => b.contains (true, t)) && s0.y.tunnels.all (fun t => b.contains (false, t))

theorem mirror_mirror (t : Tun) : t.mirror.mirror = t := by cases t; simp [Tun.mirror]

theorem mirror_inj {t u : Tun} (h : t.mirror = u.mirror) : t = u := by
  have := congrArg Tun.mirror h; rwa [mirror_mirror, mirror_mirror] at this

/-! ### exact effect of one check -/

theorem check_noin (me peer : Side) (j : Nat) (t : Tun) (outT : Bool) (ht : me.tunnels[j]? = some t)
    (hj : j ≠ 0 ∨ outT = true) :
    (t ∈ me.pdl → (me.check peer j false outT).tunnels = me.tunnels.eraseIdx j ∧
        (me.check peer j false outT).pdl = me.pdl.filter (· != t)) ∧
    (t ∉ me.pdl → (me.check peer j false outT).tunnels = me.tunnels ∧ (me.check peer j false outT).pdl = t :: me.pdl) ∧
    (me.check peer j false outT).addr = me.addr := by
  refine ⟨fun hp => ?_, fun hp => ?_, (check_shrink me peer j false outT).2.2.2.1⟩
  · have hp' : me.pdl.contains t = true := by simpa using hp
    simp [Side.check, ht, checkIn, Nebula.ConnMgr.trafficDecision, Nebula.ConnMgr.isInvalidCertificate,
      rejectAfter_pos, rejectAfter_ne, hp, hp']
  · have hp' : me.pdl.contains t = false := by simpa using hp
    rcases hj with hj | hj
    · have h0 : (j == 0) = false := by simp [hj]
      simp [Side.check, ht, checkIn, Nebula.ConnMgr.trafficDecision, Nebula.ConnMgr.isInvalidCertificate,
        rejectAfter_pos, rejectAfter_ne, hp, hp', h0]
    · by_cases h0 : (j == 0) = true
      · simp [Side.check, ht, checkIn, Nebula.ConnMgr.trafficDecision, Nebula.ConnMgr.isInvalidCertificate,
          rejectAfter_pos, rejectAfter_ne, hp, hp', h0, hj]
      · have h0' : (j == 0) = false := by simpa using h0
        simp [Side.check, ht, checkIn, Nebula.ConnMgr.trafficDecision, Nebula.ConnMgr.isInvalidCertificate,
          rejectAfter_pos, rejectAfter_ne, hp, hp', h0']

theorem check_in (me peer : Side) (j : Nat) (t : Tun) (outT : Bool) (ht : me.tunnels[j]? = some t) :
    (me.check peer j true outT).tunnels =
      (if j = 0 ∨ shouldSwap me peer = false then me.tunnels else t :: me.tunnels.eraseIdx j) ∧
    (me.check peer j true outT).pdl = me.pdl.filter (· != t) ∧ (me.check peer j true outT).addr = me.addr := by
  refine ⟨?_, ?_, (check_shrink me peer j true outT).2.2.2.1⟩
  · by_cases h0 : j = 0
    · subst h0
      simp [Side.check, ht, checkIn, Nebula.ConnMgr.trafficDecision, Nebula.ConnMgr.isInvalidCertificate, rejectAfter_ne]
    · have h0' : (j == 0) = false := by simp [h0]
      by_cases hs : shouldSwap me peer = true
      · simp [Side.check, ht, checkIn, Nebula.ConnMgr.trafficDecision, Nebula.ConnMgr.isInvalidCertificate,
          rejectAfter_ne, h0, h0', hs]
      · have hs' : shouldSwap me peer = false := by simpa using hs
        simp [Side.check, ht, checkIn, Nebula.ConnMgr.trafficDecision, Nebula.ConnMgr.isInvalidCertificate,
          rejectAfter_ne, h0, h0', hs']
  · by_cases h0 : (j == 0) = true
    · simp [Side.check, ht, checkIn, Nebula.ConnMgr.trafficDecision, Nebula.ConnMgr.isInvalidCertificate, rejectAfter_ne, h0]
    · have h0' : (j == 0) = false := by simpa using h0
      by_cases hs : shouldSwap me peer = true
      · simp [Side.check, ht, checkIn, Nebula.ConnMgr.trafficDecision, Nebula.ConnMgr.isInvalidCertificate,
          rejectAfter_ne, h0', hs]
      · have hs' : shouldSwap me peer = false := by simpa using hs
        simp [Side.check, ht, checkIn, Nebula.ConnMgr.trafficDecision, Nebula.ConnMgr.isInvalidCertificate,
          rejectAfter_ne, h0', hs']

theorem idxOf_get {l : List Tun} {t : Tun} (h : t ∈ l) : l[l.idxOf t]? = some t := by
  induction l with
  | nil => simp at h
  | cons x xs ih =>
    by_cases e : x = t
    · subst e; simp [List.idxOf_cons]
    · have hm : t ∈ xs := by
        rcases List.mem_cons.mp h with e' | e'
        · exact absurd e'.symm e
        · exact e'
      have : (x == t) = false := by simp [e]
      simp [List.idxOf_cons, this, ih hm]

theorem idxOf_zero_iff {l : List Tun} {t m : Tun} (hh : l.head? = some m) (h : t ∈ l) : l.idxOf t = 0 ↔ t = m := by
  cases l with
  | nil => simp at h
  | cons x xs =>
    simp at hh; subst hh
    by_cases e : x = t
    · subst e; simp [List.idxOf_cons]
    · have : (x == t) = false := by simp [e]
      simp [List.idxOf_cons, this]; exact fun e' => e e'.symm

theorem not_mem_eraseIdx_nodup {l : List Tun} (nd : l.Nodup) {j : Nat} {t : Tun} (h : l[j]? = some t) :
    t ∉ l.eraseIdx j := by
  induction l generalizing j with
  | nil => simp at h
  | cons x xs ih =>
    simp only [List.nodup_cons] at nd
    cases j with
    | zero => simp at h; subst h; simpa using nd.1
    | succ j =>
      simp only [List.getElem?_cons_succ] at h
      simp only [List.eraseIdx_cons_succ, List.mem_cons, not_or]
      refine ⟨?_, ih nd.2 h⟩
      intro e; subst e; exact nd.1 (List.mem_of_getElem? h)

theorem head_eraseIdx {l : List Tun} {j : Nat} (hj : j ≠ 0) : (l.eraseIdx j).head? = l.head? := by
  cases l with
  | nil => rfl
  | cons x xs => cases j with
    | zero => exact absurd rfl hj
    | succ j => simp [List.eraseIdx_cons_succ]

/-! ### one check while the two primaries are mirrors of each other -/

/-- a quiet check on a side whose primary `m` is the mirror of the peer's primary -/
theorem qc_K (me peer : Side) (m t : Tun) (hm : me.tunnels.head? = some m) (nd : me.tunnels.Nodup)
    (hp : peer.tunnels.head? = some m.mirror) :
    ((qc me peer t).tunnels.head? = some m ∧ (qc me peer t).tunnels.Nodup ∧
      (∀ u, u ∈ (qc me peer t).tunnels → u ∈ me.tunnels) ∧ (qc me peer t).addr = me.addr) ∧
    (∀ u, u ≠ t → (u ∈ (qc me peer t).pdl ↔ u ∈ me.pdl)) ∧
    (t ≠ m → t ∈ me.tunnels → (t ∈ me.pdl → t ∉ (qc me peer t).tunnels) ∧ (t ∉ me.pdl → t ∈ (qc me peer t).pdl)) := by
  by_cases hmem : t ∈ me.tunnels
  · have hget := idxOf_get hmem
    by_cases htm : t = m
    · subst htm
      have hj0 : me.tunnels.idxOf t = 0 := (idxOf_zero_iff hm hmem).mpr rfl
      have hin : (peer.tunnels.head? == some t.mirror) = true := by simp [hp]
      have c := check_in me peer (me.tunnels.idxOf t) t (me.tunnels.head? == some t) hget
      unfold qc
      rw [hin]
      rw [hj0] at c ⊢
      simp only [true_or, if_true] at c
      refine ⟨⟨by rw [c.1]; exact hm, by rw [c.1]; exact nd, fun u hu => by rw [c.1] at hu; exact hu, c.2.2⟩, ?_, ?_⟩
      · intro u hu; rw [c.2.1]; simp [List.mem_filter, hu]
      · intro h; exact absurd rfl h
    · have hj0 : me.tunnels.idxOf t ≠ 0 := fun e => htm ((idxOf_zero_iff hm hmem).mp e)
      have hin : (peer.tunnels.head? == some t.mirror) = false := by
        rw [hp]; simp; exact fun e => htm (mirror_inj e).symm
      have c := check_noin me peer (me.tunnels.idxOf t) t (me.tunnels.head? == some t) hget (Or.inl hj0)
      unfold qc
      rw [hin]
      by_cases hpd : t ∈ me.pdl
      · have c1 := c.1 hpd
        refine ⟨⟨by rw [c1.1, head_eraseIdx hj0]; exact hm, by rw [c1.1]; exact nd.sublist (List.eraseIdx_sublist _ _),
          fun u hu => by rw [c1.1] at hu; exact List.mem_of_mem_eraseIdx hu, c.2.2⟩, ?_, ?_⟩
        · intro u hu; rw [c1.2]; simp [List.mem_filter, hu]
        · intro _ _
          exact ⟨fun _ => by rw [c1.1]; exact not_mem_eraseIdx_nodup nd hget, fun h => absurd hpd h⟩
      · have c2 := c.2.1 hpd
        refine ⟨⟨by rw [c2.1]; exact hm, by rw [c2.1]; exact nd, fun u hu => by rw [c2.1] at hu; exact hu, c.2.2⟩, ?_, ?_⟩
        · intro u hu; rw [c2.2]; simp [hu]
        · intro _ _
          exact ⟨fun h => absurd h hpd, fun _ => by rw [c2.2]; simp⟩
  · have hnone : me.tunnels[me.tunnels.idxOf t]? = none := by
      rw [List.getElem?_eq_none_iff]
      exact Nat.le_of_eq (List.idxOf_eq_length hmem).symm
    have e : qc me peer t = me := by unfold qc Side.check; simp [hnone]
    rw [e]
    exact ⟨⟨hm, nd, fun u hu => hu, rfl⟩, fun u _ => Iff.rfl, fun _ h => absurd h hmem⟩

/-! ### rounds while the two primaries are mirrors -/

/-- the two primaries are the two ends of one tunnel -/
structure QK (s : St) (m h : Tun) : Prop where
  xh : s.x.tunnels.head? = some m
  yh : s.y.tunnels.head? = some h
  mir : h = m.mirror
  xnd : s.x.tunnels.Nodup
  ynd : s.y.tunnels.Nodup

def SideM2 (me : Side) (m : Tun) (tag : Bool) (rem : List (Bool × Tun)) : Prop :=
  ∀ t, t ∈ me.tunnels → t ≠ m → t ∈ me.pdl ∨ (tag, t) ∈ rem

def SideM3 (me : Side) (m : Tun) (tag : Bool) (rem : List (Bool × Tun)) : Prop :=
  ∀ t, t ∈ me.tunnels → t ≠ m → t ∈ me.pdl ∧ (tag, t) ∈ rem

theorem sideM2_self {me peer : Side} {m t : Tun} {tag : Bool} {rem : List (Bool × Tun)}
    (hm : me.tunnels.head? = some m) (nd : me.tunnels.Nodup) (hp : peer.tunnels.head? = some m.mirror)
    (h : SideM2 me m tag ((tag, t) :: rem)) : SideM2 (qc me peer t) m tag rem := by
  have k := qc_K me peer m t hm nd hp
  intro u hu hne
  have hu' := k.1.2.2.1 u hu
  by_cases e : u = t
  · subst e
    by_cases hpd : u ∈ me.pdl
    · exact absurd hu ((k.2.2 hne hu').1 hpd)
    · exact Or.inl ((k.2.2 hne hu').2 hpd)
  · rcases h u hu' hne with h1 | h1
    · exact Or.inl ((k.2.1 u e).mpr h1)
    · rcases List.mem_cons.mp h1 with e' | e'
      · exact absurd (Prod.mk.inj e').2 e
      · exact Or.inr e'

theorem sideM3_self {me peer : Side} {m t : Tun} {tag : Bool} {rem : List (Bool × Tun)}
    (hm : me.tunnels.head? = some m) (nd : me.tunnels.Nodup) (hp : peer.tunnels.head? = some m.mirror)
    (h : SideM3 me m tag ((tag, t) :: rem)) : SideM3 (qc me peer t) m tag rem := by
  have k := qc_K me peer m t hm nd hp
  intro u hu hne
  have hu' := k.1.2.2.1 u hu
  by_cases e : u = t
  · subst e
    exact absurd hu ((k.2.2 hne hu').1 (h u hu' hne).1)
  · have h1 := h u hu' hne
    refine ⟨(k.2.1 u e).mpr h1.1, ?_⟩
    rcases List.mem_cons.mp h1.2 with e' | e'
    · exact absurd (Prod.mk.inj e').2 e
    · exact e'

theorem sideM2_other {me : Side} {m t : Tun} {tag : Bool} {rem : List (Bool × Tun)}
    (h : SideM2 me m tag ((!tag, t) :: rem)) : SideM2 me m tag rem := by
  intro u hu hne
  rcases h u hu hne with h1 | h1
  · exact Or.inl h1
  · rcases List.mem_cons.mp h1 with e' | e'
    · have := (Prod.mk.inj e').1; cases tag <;> simp at this
    · exact Or.inr e'

theorem sideM3_other {me : Side} {m t : Tun} {tag : Bool} {rem : List (Bool × Tun)}
    (h : SideM3 me m tag ((!tag, t) :: rem)) : SideM3 me m tag rem := by
  intro u hu hne
  have h1 := h u hu hne
  refine ⟨h1.1, ?_⟩
  rcases List.mem_cons.mp h1.2 with e' | e'
  · have := (Prod.mk.inj e').1; cases tag <;> simp at this
  · exact e'

theorem qcheck_K {s : St} {m h : Tun} (k : QK s m h) (c : Bool × Tun) : QK (qcheck s c) m h := by
  obtain ⟨onX, t⟩ := c
  have hp2 : s.x.tunnels.head? = some h.mirror := by rw [k.mir, mirror_mirror]; exact k.xh
  cases onX
  · have q := qc_K s.y s.x h t k.yh k.ynd hp2
    exact ⟨k.xh, q.1.1, k.mir, k.xnd, q.1.2.1⟩
  · have q := qc_K s.x s.y m t k.xh k.xnd (by rw [← k.mir]; exact k.yh)
    exact ⟨q.1.1, k.yh, k.mir, q.1.2.1, k.ynd⟩

theorem round2 (b : List (Bool × Tun)) : ∀ (s : St) (m h : Tun), QK s m h → SideM2 s.x m true b → SideM2 s.y h false b →
    QK (qrun s b) m h ∧ SideM2 (qrun s b).x m true [] ∧ SideM2 (qrun s b).y h false [] := by
  induction b with
  | nil => intro s m h k hx hy; exact ⟨k, hx, hy⟩
  | cons c rest ih =>
    intro s m h k hx hy
    have k' := qcheck_K k c
    have hp2 : s.x.tunnels.head? = some h.mirror := by rw [k.mir, mirror_mirror]; exact k.xh
    obtain ⟨onX, t⟩ := c
    cases onX
    · exact ih _ m h k' (sideM2_other (tag := true) hx) (sideM2_self k.yh k.ynd hp2 hy)
    · exact ih _ m h k' (sideM2_self k.xh k.xnd (by rw [← k.mir]; exact k.yh) hx) (sideM2_other (tag := false) hy)

theorem round3 (b : List (Bool × Tun)) : ∀ (s : St) (m h : Tun), QK s m h → SideM3 s.x m true b → SideM3 s.y h false b →
    QK (qrun s b) m h ∧ SideM3 (qrun s b).x m true [] ∧ SideM3 (qrun s b).y h false [] := by
  induction b with
  | nil => intro s m h k hx hy; exact ⟨k, hx, hy⟩
  | cons c rest ih =>
    intro s m h k hx hy
    have k' := qcheck_K k c
    have hp2 : s.x.tunnels.head? = some h.mirror := by rw [k.mir, mirror_mirror]; exact k.xh
    obtain ⟨onX, t⟩ := c
    cases onX
    · exact ih _ m h k' (sideM3_other (tag := true) hx) (sideM3_self k.yh k.ynd hp2 hy)
    · exact ih _ m h k' (sideM3_self k.xh k.xnd (by rw [← k.mir]; exact k.yh) hx) (sideM3_other (tag := false) hy)

/-- checks never add tunnels -/
theorem qrun_subset (b : List (Bool × Tun)) : ∀ (s : St),
    (∀ t, t ∈ (qrun s b).x.tunnels → t ∈ s.x.tunnels) ∧ (∀ t, t ∈ (qrun s b).y.tunnels → t ∈ s.y.tunnels) := by
  induction b with
  | nil => intro s; exact ⟨fun _ h => h, fun _ h => h⟩
  | cons c rest ih =>
    intro s
    have r := ih (qcheck s c)
    obtain ⟨onX, t⟩ := c
    cases onX
    · exact ⟨fun u hu => r.1 u hu, fun u hu => (check_shrink s.y s.x _ _ _).1 u (r.2 u hu)⟩
    · exact ⟨fun u hu => (check_shrink s.x s.y _ _ _).1 u (r.1 u hu), fun u hu => r.2 u hu⟩

theorem singleton_of_head {l : List Tun} {m : Tun} (hh : l.head? = some m) (nd : l.Nodup) (h : ∀ t, t ∈ l → t = m) :
    l = [m] := by
  cases l with
  | nil => simp at hh
  | cons x xs =>
    simp at hh; subst hh
    cases xs with
    | nil => rfl
    | cons y ys =>
      have : y = x := h y (by simp)
      subst this
      simp at nd

theorem covers_mem {s0 : St} {b : List (Bool × Tun)} (hc : coversRound s0 b = true) :
    b.Nodup ∧ (∀ t, t ∈ s0.x.tunnels → (true, t) ∈ b) ∧ (∀ t, t ∈ s0.y.tunnels → (false, t) ∈ b) := by
  simp only [coversRound, Bool.and_eq_true, decide_eq_true_eq, List.all_eq_true, List.contains_iff_mem] at hc
  exact ⟨hc.1.1, hc.1.2, hc.2⟩

/-- two fair rounds after the primaries have become mirrors of each other: exactly that pair is left -/
theorem mirrored_primaries_converge (s0 s : St) (m h : Tun) (k : QK s m h)
    (hsx : ∀ t, t ∈ s.x.tunnels → t ∈ s0.x.tunnels) (hsy : ∀ t, t ∈ s.y.tunnels → t ∈ s0.y.tunnels)
    (b2 b3 : List (Bool × Tun)) (c2 : coversRound s0 b2 = true) (c3 : coversRound s0 b3 = true) :
    (qrun (qrun s b2) b3).x.tunnels = [m] ∧ (qrun (qrun s b2) b3).y.tunnels = [h] := by
  have m2 := covers_mem c2
  have m3 := covers_mem c3
  have r2 := round2 b2 s m h k (fun t ht _ => Or.inr (m2.2.1 t (hsx t ht))) (fun t ht _ => Or.inr (m2.2.2 t (hsy t ht)))
  have sub2 := qrun_subset b2 s
  have r3 := round3 b3 (qrun s b2) m h r2.1
    (fun t ht hne => ⟨(r2.2.1 t ht hne).resolve_right (by simp), m3.2.1 t (hsx t (sub2.1 t ht))⟩)
    (fun t ht hne => ⟨(r2.2.2 t ht hne).resolve_right (by simp), m3.2.2 t (hsy t (sub2.2 t ht))⟩)
  refine ⟨singleton_of_head r3.1.xh r3.1.xnd ?_, singleton_of_head r3.1.yh r3.1.ynd ?_⟩
  · intro t ht
    by_cases e : t = m
    · exact e
    · exact absurd (r3.2.1 t ht e).2 (by simp)
  · intro t ht
    by_cases e : t = h
    · exact e
    · exact absurd (r3.2.2 t ht e).2 (by simp)

/-! ### the first round: the side allowed to swap follows the other side's primary -/

theorem head_of_idxOf_zero {l : List Tun} {t : Tun} (h : t ∈ l) (h0 : l.idxOf t = 0) : l.head? = some t := by
  cases l with
  | nil => simp at h
  | cons x xs =>
    by_cases e : x = t
    · subst e; rfl
    · have : (x == t) = false := by simp [e]
      simp [List.idxOf_cons, this] at h0

theorem mem_eraseIdx_ne {l : List Tun} {j : Nat} {t u : Tun} (ht : l[j]? = some t) (hu : u ∈ l) (e : u ≠ t) :
    u ∈ l.eraseIdx j := mem_eraseIdx_of_ne ht hu e

/-- what every quiet check preserves, whatever the primaries are -/
theorem qc_gen (me peer : Side) (t : Tun) (nd : me.tunnels.Nodup) :
    (qc me peer t).tunnels.Nodup ∧ (∀ u, u ∈ (qc me peer t).tunnels → u ∈ me.tunnels) ∧
    (∀ u, u ≠ t → u ∈ me.tunnels → u ∈ (qc me peer t).tunnels) ∧
    (∀ u, u ≠ t → (u ∈ (qc me peer t).pdl ↔ u ∈ me.pdl)) ∧ (qc me peer t).addr = me.addr := by
  by_cases hmem : t ∈ me.tunnels
  · have hget := idxOf_get hmem
    unfold qc
    cases hin : (peer.tunnels.head? == some t.mirror) with
    | true =>
      have c := check_in me peer (me.tunnels.idxOf t) t (me.tunnels.head? == some t) hget
      refine ⟨?_, ?_, ?_, ?_, c.2.2⟩
      · rw [c.1]; split
        · exact nd
        · exact List.nodup_cons.mpr ⟨not_mem_eraseIdx_nodup nd hget, nd.sublist (List.eraseIdx_sublist _ _)⟩
      · intro u hu; rw [c.1] at hu; split at hu
        · exact hu
        · rcases List.mem_cons.mp hu with e | e
          · rw [e]; exact hmem
          · exact List.mem_of_mem_eraseIdx e
      · intro u hne hu; rw [c.1]; split
        · exact hu
        · exact List.mem_cons_of_mem _ (mem_eraseIdx_ne hget hu hne)
      · intro u hu; rw [c.2.1]; simp [List.mem_filter, hu]
    | false =>
      have hj : me.tunnels.idxOf t ≠ 0 ∨ (me.tunnels.head? == some t) = true := by
        by_cases h0 : me.tunnels.idxOf t = 0
        · right; rw [head_of_idxOf_zero hmem h0]; simp
        · left; exact h0
      have c := check_noin me peer (me.tunnels.idxOf t) t (me.tunnels.head? == some t) hget hj
      by_cases hpd : t ∈ me.pdl
      · have c1 := c.1 hpd
        refine ⟨by rw [c1.1]; exact nd.sublist (List.eraseIdx_sublist _ _),
          fun u hu => by rw [c1.1] at hu; exact List.mem_of_mem_eraseIdx hu,
          fun u hne hu => by rw [c1.1]; exact mem_eraseIdx_ne hget hu hne, ?_, c.2.2⟩
        intro u hu; rw [c1.2]; simp [List.mem_filter, hu]
      · have c2 := c.2.1 hpd
        refine ⟨by rw [c2.1]; exact nd, fun u hu => by rw [c2.1] at hu; exact hu,
          fun u _ hu => by rw [c2.1]; exact hu, ?_, c.2.2⟩
        intro u hu; rw [c2.2]; simp [hu]
  · have hnone : me.tunnels[me.tunnels.idxOf t]? = none := by
      rw [List.getElem?_eq_none_iff]
      exact Nat.le_of_eq (List.idxOf_eq_length hmem).symm
    have e : qc me peer t = me := by unfold qc Side.check; simp [hnone]
    rw [e]
    exact ⟨nd, fun u hu => hu, fun u _ hu => hu, fun u _ => Iff.rfl, rfl⟩

/-- a check of a tunnel other than the primary `p` of a side that is not allowed to swap, or of one that sees no
inbound traffic, leaves the primary in place -/
theorem qc_head_other (me peer : Side) (p t : Tun) (hh : me.tunnels.head? = some p) (nd : me.tunnels.Nodup) (hne : t ≠ p)
    (hcase : shouldSwap me peer = false ∨ (peer.tunnels.head? == some t.mirror) = false) :
    (qc me peer t).tunnels.head? = some p := by
  by_cases hmem : t ∈ me.tunnels
  · have hget := idxOf_get hmem
    have hj0 : me.tunnels.idxOf t ≠ 0 := fun e => hne ((idxOf_zero_iff hh hmem).mp e)
    unfold qc
    cases hin : (peer.tunnels.head? == some t.mirror) with
    | true =>
      have c := check_in me peer (me.tunnels.idxOf t) t (me.tunnels.head? == some t) hget
      rcases hcase with hs | hs
      · rw [c.1, if_pos (Or.inr hs)]; exact hh
      · rw [hin] at hs; exact absurd hs (by simp)
    | false =>
      have c := check_noin me peer (me.tunnels.idxOf t) t (me.tunnels.head? == some t) hget (Or.inl hj0)
      by_cases hpd : t ∈ me.pdl
      · rw [(c.1 hpd).1, head_eraseIdx hj0]; exact hh
      · rw [(c.2.1 hpd).1]; exact hh
  · have hnone : me.tunnels[me.tunnels.idxOf t]? = none := by
      rw [List.getElem?_eq_none_iff]
      exact Nat.le_of_eq (List.idxOf_eq_length hmem).symm
    have e : qc me peer t = me := by unfold qc Side.check; simp [hnone]
    rw [e]; exact hh

/-- the swapping side checks the mirror of the peer's primary: it becomes (or stays) its primary -/
theorem qc_follow (me peer : Side) (h : Tun) (hp : peer.tunnels.head? = some h) (hm : h.mirror ∈ me.tunnels)
    (hs : shouldSwap me peer = true) : (qc me peer h.mirror).tunnels.head? = some h.mirror := by
  have hget := idxOf_get hm
  have hin : (peer.tunnels.head? == some h.mirror.mirror) = true := by rw [mirror_mirror, hp]; simp
  unfold qc
  rw [hin]
  have c := check_in me peer (me.tunnels.idxOf h.mirror) h.mirror (me.tunnels.head? == some h.mirror) hget
  rw [c.1]
  split
  · rename_i hc
    rcases hc with h0 | h0
    · exact head_of_idxOf_zero hm h0
    · rw [hs] at h0; exact absurd h0 (by simp)
  · rfl

/-- the other side's unmarked primary survives one check without inbound traffic (it is only marked) -/
theorem qc_primary_marked (me peer : Side) (h : Tun) (hh : me.tunnels.head? = some h) (hpd : h ∉ me.pdl) :
    (qc me peer h).tunnels.head? = some h := by
  have hmem : h ∈ me.tunnels := by
    cases hl : me.tunnels with
    | nil => rw [hl] at hh; simp at hh
    | cons x xs => rw [hl] at hh; simp at hh; subst hh; simp
  have hget := idxOf_get hmem
  have hj0 : me.tunnels.idxOf h = 0 := (idxOf_zero_iff hh hmem).mpr rfl
  unfold qc
  cases hin : (peer.tunnels.head? == some h.mirror) with
  | true =>
    have c := check_in me peer (me.tunnels.idxOf h) h (me.tunnels.head? == some h) hget
    rw [c.1, if_pos (Or.inl hj0)]; exact hh
  | false =>
    have c := check_noin me peer (me.tunnels.idxOf h) h (me.tunnels.head? == some h) hget (Or.inr (by rw [hh]; simp))
    rw [(c.2.1 hpd).1]; exact hh

/-- invariant of the first round (X is the side allowed to swap) -/
structure R1 (s : St) (h : Tun) (rem : List (Bool × Tun)) : Prop where
  yh : s.y.tunnels.head? = some h
  mx : h.mirror ∈ s.x.tunnels
  xnd : s.x.tunnels.Nodup
  ynd : s.y.tunnels.Nodup
  swx : shouldSwap s.x s.y = true
  swy : shouldSwap s.y s.x = false
  prog : s.x.tunnels.head? = some h.mirror ∨ ((true, h.mirror) ∈ rem ∧ (h ∉ s.y.pdl ∨ (false, h) ∉ rem))

theorem shouldSwap_addr {a b a' b' : Side} (h1 : a'.addr = a.addr) (h2 : b'.addr = b.addr) :
    shouldSwap a' b' = shouldSwap a b := by simp [shouldSwap, h1, h2]

theorem round1 (b : List (Bool × Tun)) : ∀ (s : St) (h : Tun), b.Nodup → R1 s h b → R1 (qrun s b) h [] := by
  induction b with
  | nil => intro s h _ r; exact r
  | cons c rest ih =>
    intro s h nd r
    have ndr : rest.Nodup := (List.nodup_cons.mp nd).2
    have hnotin : c ∉ rest := (List.nodup_cons.mp nd).1
    apply ih _ h ndr
    obtain ⟨onX, t⟩ := c
    cases onX
    · -- Y checks t
      have g := qc_gen s.y s.x t r.ynd
      have hhead : (qc s.y s.x t).tunnels.head? = some h := by
        by_cases e : t = h
        · subst e
          rcases r.prog with hx | ⟨_, hx⟩
          · -- X already follows: inbound traffic on the primary
            have k := qc_K s.y s.x t t r.yh r.ynd (by rw [hx])
            exact k.1.1
          · rcases hx with hx | hx
            · exact qc_primary_marked s.y s.x t r.yh hx
            · exact absurd (List.mem_cons_self) hx
        · exact qc_head_other s.y s.x h t r.yh r.ynd e (Or.inl r.swy)
      refine ⟨hhead, r.mx, r.xnd, g.1, ?_, ?_, ?_⟩
      · show shouldSwap s.x (qc s.y s.x t) = true
        rw [shouldSwap_addr rfl g.2.2.2.2]; exact r.swx
      · show shouldSwap (qc s.y s.x t) s.x = false
        rw [shouldSwap_addr g.2.2.2.2 rfl]; exact r.swy
      · rcases r.prog with hx | ⟨h1, h2⟩
        · exact Or.inl hx
        · right
          refine ⟨?_, ?_⟩
          · rcases List.mem_cons.mp h1 with e | e
            · cases e
            · exact e
          · by_cases e : t = h
            · subst e; right; exact hnotin
            · rcases h2 with h2 | h2
              · left; show h ∉ (qc s.y s.x t).pdl
                rw [g.2.2.2.1 h (fun e' => e e'.symm)]; exact h2
              · right; exact fun hm => h2 (List.mem_cons_of_mem _ hm)
    · -- X checks t
      have g := qc_gen s.x s.y t r.xnd
      by_cases e : t = h.mirror
      · subst e
        have hf := qc_follow s.x s.y h r.yh r.mx r.swx
        refine ⟨r.yh, ?_, g.1, r.ynd, ?_, ?_, Or.inl hf⟩
        · show h.mirror ∈ (qc s.x s.y h.mirror).tunnels
          cases hl : (qc s.x s.y h.mirror).tunnels with
          | nil => rw [hl] at hf; simp at hf
          | cons x xs => rw [hl] at hf; simp at hf; subst hf; simp
        · show shouldSwap (qc s.x s.y h.mirror) s.y = true
          rw [shouldSwap_addr g.2.2.2.2 rfl]; exact r.swx
        · show shouldSwap s.y (qc s.x s.y h.mirror) = false
          rw [shouldSwap_addr rfl g.2.2.2.2]; exact r.swy
      · have hin : (s.y.tunnels.head? == some t.mirror) = false := by
          rw [r.yh]; simp; intro e'; apply e; rw [e', mirror_mirror]
        refine ⟨r.yh, g.2.2.1 _ (fun e' => e e'.symm) r.mx, g.1, r.ynd, ?_, ?_, ?_⟩
        · show shouldSwap (qc s.x s.y t) s.y = true
          rw [shouldSwap_addr g.2.2.2.2 rfl]; exact r.swx
        · show shouldSwap s.y (qc s.x s.y t) = false
          rw [shouldSwap_addr rfl g.2.2.2.2]; exact r.swy
        · rcases r.prog with hx | ⟨h1, h2⟩
          · exact Or.inl (qc_head_other s.x s.y h.mirror t hx r.xnd e (Or.inr hin))
          · right
            refine ⟨?_, ?_⟩
            · rcases List.mem_cons.mp h1 with e' | e'
              · exact absurd (Prod.mk.inj e').2.symm e
              · exact e'
            · rcases h2 with h2 | h2
              · exact Or.inl h2
              · exact Or.inr (fun hm => h2 (List.mem_cons_of_mem _ hm))

/-! ### three fair rounds -/

/-- the hypothesis on the state at the start of the quiet phase: the primary `h` of the side that is NOT allowed to
swap carries no pendingDeletion mark and the side allowed to swap holds its mirror -/
def Ready (s : St) : Bool :=
  decide s.x.tunnels.Nodup && decide s.y.tunnels.Nodup &&
  (if s.x.addr < s.y.addr then
     match s.y.tunnels.head? with
     | some h => !s.y.pdl.contains h && s.x.tunnels.contains h.mirror
     | none => false
   else if s.y.addr < s.x.addr then
     match s.x.tunnels.head? with
     | some h => !s.x.pdl.contains h && s.y.tunnels.contains h.mirror
     | none => false
   else false)

theorem three_rounds_x (s : St) (h : Tun) (hlt : s.x.addr < s.y.addr) (xnd : s.x.tunnels.Nodup) (ynd : s.y.tunnels.Nodup)
    (yh : s.y.tunnels.head? = some h) (hpd : h ∉ s.y.pdl) (hm : h.mirror ∈ s.x.tunnels)
    (b1 b2 b3 : List (Bool × Tun)) (c1 : coversRound s b1 = true) (c2 : coversRound s b2 = true)
    (c3 : coversRound s b3 = true) :
    (qrun (qrun (qrun s b1) b2) b3).x.tunnels = [h.mirror] ∧ (qrun (qrun (qrun s b1) b2) b3).y.tunnels = [h] := by
  have m1 := covers_mem c1
  have r0 : R1 s h b1 :=
    ⟨yh, hm, xnd, ynd, by simp [shouldSwap]; omega, by simp [shouldSwap]; omega, Or.inr ⟨m1.2.1 _ hm, Or.inl hpd⟩⟩
  have r1 := round1 b1 s h m1.1 r0
  have hx : (qrun s b1).x.tunnels.head? = some h.mirror := by
    rcases r1.prog with e | ⟨e, _⟩
    · exact e
    · simp at e
  have sub := qrun_subset b1 s
  exact mirrored_primaries_converge s (qrun s b1) h.mirror h
    ⟨hx, r1.yh, (mirror_mirror h).symm, r1.xnd, r1.ynd⟩ sub.1 sub.2 b2 b3 c2 c3

/-- exchanging the roles of X and Y -/
def flip (s : St) : St := { x := s.y, y := s.x }
def flipC (c : Bool × Tun) : Bool × Tun := (!c.1, c.2)

theorem flipC_flipC (c : Bool × Tun) : flipC (flipC c) = c := by cases c; simp [flipC]

theorem qcheck_flip (s : St) (c : Bool × Tun) : qcheck (flip s) (flipC c) = flip (qcheck s c) := by
  obtain ⟨onX, t⟩ := c
  cases onX <;> rfl

theorem qrun_flip (b : List (Bool × Tun)) : ∀ s, qrun (flip s) (b.map flipC) = flip (qrun s b) := by
  induction b with
  | nil => intro s; rfl
  | cons c rest ih =>
    intro s
    simp only [List.map_cons, qrun, List.foldl_cons]
    rw [qcheck_flip]; exact ih _

theorem covers_flip (s : St) (b : List (Bool × Tun)) (hc : coversRound s b = true) :
    coversRound (flip s) (b.map flipC) = true := by
  have m := covers_mem hc
  have memf : ∀ c, c ∈ b → flipC c ∈ b.map flipC := fun c hcm => List.mem_map.mpr ⟨c, hcm, rfl⟩
  have nd : (b.map flipC).Nodup := by
    have : ∀ (l : List (Bool × Tun)), l.Nodup → (l.map flipC).Nodup := by
      intro l
      induction l with
      | nil => intro _; simp
      | cons c rest ih =>
        intro hn
        have hn' := List.nodup_cons.mp hn
        simp only [List.map_cons, List.nodup_cons]
        refine ⟨?_, ih hn'.2⟩
        intro hmem
        obtain ⟨c', hc', e⟩ := List.mem_map.mp hmem
        have : c' = c := by have := congrArg flipC e; rwa [flipC_flipC, flipC_flipC] at this
        subst this; exact hn'.1 hc'
    exact this b m.1
  simp only [coversRound, Bool.and_eq_true, decide_eq_true_eq, List.all_eq_true, List.contains_iff_mem]
  exact ⟨⟨nd, fun t ht => memf (false, t) (m.2.2 t ht)⟩, fun t ht => memf (true, t) (m.2.1 t ht)⟩

/-- LIVENESS, general form: from EVERY state (reachable or not — in particular after every race schedule prefix) in
which the two addresses differ, the tunnel lists have no duplicates, and the primary of the side not allowed to swap is
unmarked and mirrored on the other side (`Ready`), every quiet-phase schedule made of three fair rounds — the checks
of a round in ANY order, traffic flags following the primaries — ends with ONE tunnel on each side, the two being
mirrors of each other. -/
theorem quiet_converges (s : St) (hr : Ready s = true) (b1 b2 b3 : List (Bool × Tun))
    (c1 : coversRound s b1 = true) (c2 : coversRound s b2 = true) (c3 : coversRound s b3 = true) :
    ∃ t, (qrun (qrun (qrun s b1) b2) b3).x.tunnels = [t] ∧ (qrun (qrun (qrun s b1) b2) b3).y.tunnels = [t.mirror] := by
  simp only [Ready, Bool.and_eq_true, decide_eq_true_eq] at hr
  obtain ⟨⟨xnd, ynd⟩, hr⟩ := hr
  by_cases hlt : s.x.addr < s.y.addr
  · rw [if_pos hlt] at hr
    cases yh : s.y.tunnels.head? with
    | none => rw [yh] at hr; simp at hr
    | some h =>
      rw [yh] at hr
      simp only [Bool.and_eq_true, Bool.not_eq_true', List.contains_iff_mem] at hr
      have hpd : h ∉ s.y.pdl := by
        intro hm; have := hr.1; simp [hm] at this
      have r := three_rounds_x s h hlt xnd ynd yh hpd hr.2 b1 b2 b3 c1 c2 c3
      exact ⟨h.mirror, r.1, by rw [mirror_mirror]; exact r.2⟩
  · rw [if_neg hlt] at hr
    by_cases hgt : s.y.addr < s.x.addr
    · rw [if_pos hgt] at hr
      cases xh : s.x.tunnels.head? with
      | none => rw [xh] at hr; simp at hr
      | some h =>
        rw [xh] at hr
        simp only [Bool.and_eq_true, Bool.not_eq_true', List.contains_iff_mem] at hr
        have hpd : h ∉ s.x.pdl := by
          intro hm; have := hr.1; simp [hm] at this
        have r := three_rounds_x (flip s) h hgt ynd xnd xh hpd hr.2 (b1.map flipC) (b2.map flipC) (b3.map flipC)
          (covers_flip s b1 c1) (covers_flip s b2 c2) (covers_flip s b3 c3)
        rw [qrun_flip, qrun_flip, qrun_flip] at r
        exact ⟨h, r.2, r.1⟩
    · rw [if_neg hgt] at hr; simp at hr

end Nebula.Lemmas.HsRace
