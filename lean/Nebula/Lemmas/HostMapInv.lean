/-
The hostmap invariant (C28 clauses a–d, C29 state clauses) and its preservation by `unlockedDeleteHostInfo`.
-/
import Nebula.Lemmas.HostMapDeleteSpec

namespace Nebula.HostMap
open FMap

/-- a tunnel is live when `Indexes[localIndexId]` is this very tunnel -/
def Live (s : State) (h : Nat) : Prop := s.indexes.get (s.obj h).lidx = some h

/-- Everything but the per-address cap.  `ex` is a tunnel that may sit in address lists without being registered in
`Indexes` yet (the one `unlockedAddHostInfo` is in the middle of adding); `none` for every state between operations. -/
structure Core (ex : Option Nat) (s : State) : Prop where
  rep : Rep s
  listOk : ∀ a h, h ∈ hostList s a → (some h = ex ∨ Live s h) ∧ a ∈ (s.obj h).addrs
  nodup : ∀ a, (hostList s a).Nodup
  idx : ∀ i h, s.indexes.get i = some h → (s.obj h).lidx = i ∧ i ≠ 0
  reach : ∀ i h, s.indexes.get i = some h → ∀ a ∈ (s.obj h).addrs, h ∈ hostList s a
  ridx : ∀ r h, s.rindexes.get r = some h → Live s h ∧ (s.obj h).ridx = r
  rel : ∀ i h, s.relays.get i = some h → Live s h ∧ ((s.rstate h).byIdx.get i).isSome = true ∧ i ≠ 0
  relOwn : ∀ h i, Live s h → ((s.rstate h).byIdx.get i).isSome = true → s.relays.get i = some h
  rok : ∀ h, ROk (s.rstate h)
  rsPend : ∀ h i, ((s.rstate h).byIdx.get i).isSome = true →
    h < s.next ∧ (∀ j, s.pidx.get j ≠ some h) ∧ (∀ a, s.vpnIps.get a ≠ some h) ∧ some h ≠ ex
  pidx : ∀ i h, s.pidx.get i = some h → (s.obj h).lidx = i ∧ i ≠ 0 ∧ s.indexes.get i = none ∧ (s.obj h).ready = true
  vpn : ∀ a h, s.vpnIps.get a = some h → (s.obj h).addrs = [a] ∧ ¬ Live s h ∧ some h ≠ ex
  fresh : ∀ h, s.next ≤ h → s.objs.get h = none
  vpnReady : ∀ a h, s.vpnIps.get a = some h → (s.obj h).ready = true → s.pidx.get (s.obj h).lidx = some h

def Cap (s : State) : Prop := ∀ a, (hostList s a).length ≤ maxHostInfos

/-- the C28 / C29 state invariant -/
structure Inv (s : State) : Prop where
  core : Core none s
  cap : Cap s

theorem live_of_same {s t : State} {h : Nat} (ho : t.objs = s.objs) (hi : t.indexes.get (s.obj h).lidx = some h) :
    Live t h := by
  simp only [Live, State.obj, ho]; exact hi

/-- `unlockedDeleteHostInfo(h)` keeps `Core` (for any tunnel other than the one being added), and every list only
loses `h`. -/
theorem deleteHost_core {ex : Option Nat} {s : State} (c : Core ex s) (h : Nat) (hne : some h ≠ ex) :
    Core ex (deleteHost s h).1 ∧
    (∀ a, hostList (deleteHost s h).1 a = (hostList s a).filter (· != h)) ∧
    DeleteSpec s h (deleteHost s h).1 (deleteHost s h).2 := by
  have d := deleteHost_spec s h c.rep c.nodup
  generalize (deleteHost s h).1 = t at d
  generalize (deleteHost s h).2 = fin at d
  have lists : ∀ a, hostList t a = (hostList s a).filter (· != h) := by
    intro a
    rw [d.lists a]
    split
    · rfl
    · rename_i hna
      symm
      apply List.filter_eq_self.mpr
      intro x hx
      by_cases e : x = h
      · subst e; exact absurd (c.listOk a x hx).2 hna
      · simp [e]
  have obj : ∀ x, t.obj x = s.obj x := fun x => by simp [State.obj, d.objs]
  have keep : ∀ x, x ≠ h → Live s x → Live t x := by
    intro x hx hl
    simp only [Live, obj, d.indexes] at hl ⊢
    rw [if_neg]; exact hl
    rintro ⟨_, h2⟩; rw [hl] at h2; exact hx (Option.some.inj h2)
  have back : ∀ x, Live t x → Live s x := by
    intro x hl
    simp only [Live, obj, d.indexes] at hl ⊢
    split at hl
    · cases hl
    · exact hl
  have keys : ∀ x i, ((t.rstate x).byIdx.get i).isSome = ((s.rstate x).byIdx.get i).isSome :=
    fun x i => ((d.rs x (c.rok x)).2.2.1 i)
  have deadh : ¬ Live t h := by
    intro hl
    simp only [Live, obj, d.indexes] at hl
    split at hl
    · cases hl
    · rename_i hn; exact hn (by simpa using hl)
  refine ⟨⟨d.rep, ?_, ?_, ?_, ?_, ?_, ?_, ?_, ?_, ?_, ?_, ?_, ?_, ?_⟩, lists, d⟩
  · intro a x hx
    rw [lists a, List.mem_filter] at hx
    have hxh : x ≠ h := by simpa using hx.2
    obtain ⟨h1, h2⟩ := c.listOk a x hx.1
    rw [obj]
    exact ⟨h1.imp id (keep x hxh), h2⟩
  · intro a; rw [lists a]; exact (c.nodup a).sublist List.filter_sublist
  · intro i x hx
    rw [d.indexes] at hx; rw [obj]
    split at hx
    · cases hx
    · exact c.idx i x hx
  · intro i x hx a ha
    rw [d.indexes] at hx
    split at hx
    · cases hx
    · rename_i hn
      rw [obj] at ha
      rw [lists a, List.mem_filter]
      refine ⟨c.reach i x hx a ha, ?_⟩
      have hxh : x ≠ h := by
        rintro rfl
        exact hn ⟨((c.idx i x hx).1).symm, hx⟩
      simp [hxh]
  · intro r x hx
    rw [d.rindexes] at hx; rw [obj]
    split at hx
    · cases hx
    · rename_i hn
      obtain ⟨h1, h2⟩ := c.ridx r x hx
      have hxh : x ≠ h := by
        rintro rfl
        exact hn ⟨h2.symm, hx⟩
      exact ⟨keep x hxh h1, h2⟩
  · intro i x hx
    rw [d.relays] at hx
    split at hx
    · cases hx
    · rename_i hn
      obtain ⟨h1, h2, h3⟩ := c.rel i x hx
      have hxh : x ≠ h := by
        rintro rfl
        exact hn ⟨by rw [keys]; exact h2, hx⟩
      exact ⟨keep x hxh h1, by rw [keys]; exact h2, h3⟩
  · intro x i hl hk
    have hxh : x ≠ h := by rintro rfl; exact deadh hl
    rw [keys] at hk
    have := c.relOwn x i (back x hl) hk
    rw [d.relays, if_neg]; exact this
    rintro ⟨_, h2⟩; rw [this] at h2; exact hxh (Option.some.inj h2)
  · intro x; exact (d.rs x (c.rok x)).1
  · intro x i hk
    rw [keys] at hk
    obtain ⟨p1, p2, p3, p4⟩ := c.rsPend x i hk
    rw [d.next, d.pidx, d.vpnIps]; exact ⟨p1, p2, p3, p4⟩
  · intro i x hx
    rw [d.pidx] at hx; rw [obj]
    obtain ⟨h1, h2, h3, h4⟩ := c.pidx i x hx
    refine ⟨h1, h2, ?_, h4⟩
    rw [d.indexes, h3]; simp
  · intro a x hx
    rw [d.vpnIps] at hx; rw [obj]
    obtain ⟨h1, h2, h3⟩ := c.vpn a x hx
    exact ⟨h1, fun hl => h2 (back x hl), h3⟩
  · intro x hx
    rw [d.next] at hx; rw [d.objs]; exact c.fresh x hx
  · intro a x hx hr
    rw [d.vpnIps] at hx; rw [obj] at hr ⊢; rw [d.pidx]; exact c.vpnReady a x hx hr

theorem deleteHost_inv {s : State} (i : Inv s) (h : Nat) : Inv (deleteHost s h).1 := by
  obtain ⟨c, l, _⟩ := deleteHost_core i.core h (by simp)
  refine ⟨c, fun a => ?_⟩
  rw [l a]
  exact Nat.le_trans (List.length_filter_le _ _) (i.cap a)

end Nebula.HostMap
