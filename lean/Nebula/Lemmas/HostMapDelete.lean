/-
`unlockedDeleteHostInfo`: what it does to every per-address list and to every index entry.
-/
import Nebula.Lemmas.HostMapFrame

namespace Nebula.HostMap
open FMap

/-- the fields the address loops never touch -/
structure SameIdx (s t : State) : Prop where
  indexes : t.indexes = s.indexes
  rindexes : t.rindexes = s.rindexes
  relays : t.relays = s.relays
  objs : t.objs = s.objs
  vpnIps : t.vpnIps = s.vpnIps
  pidx : t.pidx = s.pidx
  next : t.next = s.next
  rs : t.rs = s.rs

theorem SameIdx.refl (s : State) : SameIdx s s := ⟨rfl, rfl, rfl, rfl, rfl, rfl, rfl, rfl⟩

theorem SameIdx.trans {s t u : State} (a : SameIdx s t) (b : SameIdx t u) : SameIdx s u :=
  ⟨b.indexes.trans a.indexes, b.rindexes.trans a.rindexes, b.relays.trans a.relays, b.objs.trans a.objs,
   b.vpnIps.trans a.vpnIps, b.pidx.trans a.pidx, b.next.trans a.next, b.rs.trans a.rs⟩

theorem SameIdx.obj {s t : State} (a : SameIdx s t) (h : Nat) : t.obj h = s.obj h := by
  simp [State.obj, a.objs]

theorem SameIdx.rstate {s t : State} (a : SameIdx s t) (h : Nat) : t.rstate h = s.rstate h := by
  simp [State.rstate, a.rs]

theorem setHosts_same (s : State) (a : Nat) (l : List Nat) : SameIdx s (setHostsForAddr s a l) :=
  ⟨by simp, by simp, by simp, by simp, by simp, by simp, by simp, by simp⟩

theorem hostList_more {s : State} {a : Nat} {l : List Nat} (h : s.more.get a = some l) : hostList s a = l := by
  simp [hostList, h]

theorem hostList_hosts {s : State} {a : Nat} (hm : s.more.get a = none) : hostList s a = (s.hosts.get a).toList := by
  simp only [hostList, hm]; cases s.hosts.get a <;> rfl

theorem delAddrStep_spec (h : Nat) (s : State) (f : Bool) (a : Nat) (hr : Rep s) :
    let r := delAddrStep h (s, f) a
    (∀ a', hostList r.1 a' = if a' = a then (hostList s a).erase h else hostList s a') ∧
    r.2 = (f && ((hostList s a).erase h).isEmpty) ∧ Rep r.1 ∧ SameIdx s r.1 := by
  simp only [delAddrStep, removeHost]
  cases hm : s.more.get a with
  | some l =>
    simp only [hostList_more hm]
    exact ⟨fun a' => setHosts_hostList s a _ a', by first | rfl | trivial, setHosts_rep hr a _, setHosts_same s a _⟩
  | none =>
    cases hh : s.hosts.get a with
    | none =>
      have hl : hostList s a = [] := by simp [hostList_hosts hm, hh]
      simp only [hl]
      refine ⟨fun a' => ?_, by simp, hr, SameIdx.refl s⟩
      by_cases e : a' = a
      · simp [e, hl]
      · simp [e]
    | some e =>
      have hl : hostList s a = [e] := by simp [hostList_hosts hm, hh]
      simp only [hl]
      by_cases he : e = h
      · subst he
        simp only [↓reduceIte, List.erase_cons_head, List.isEmpty_nil, Bool.and_true]
        refine ⟨fun a' => ?_, trivial, ?_, ⟨rfl, rfl, rfl, rfl, rfl, rfl, rfl, rfl⟩⟩
        · by_cases e' : a' = a
          · subst e'; simp [hostList, hm, get_del]
          · simp [hostList, get_del, e', Ne.symm e']
        · intro a' l' h'
          have := hr a' l' h'
          simp only [get_del]
          by_cases e' : a = a'
          · subst e'; rw [hm] at h'; cases h'
          · simpa [e'] using this
      · have : [e].erase h = [e] := by simp [he]
        simp only [he, ↓reduceIte, this]
        refine ⟨fun a' => ?_, by simp, hr, SameIdx.refl s⟩
        by_cases e' : a' = a
        · simp [e', hl]
        · simp [e']

/-- the address loop of `unlockedDeleteHostInfo` over any address list -/
theorem delLoop_spec (h : Nat) (as : List Nat) : ∀ (s : State) (f : Bool), Rep s → (∀ a, (hostList s a).Nodup) →
    let r := as.foldl (delAddrStep h) (s, f)
    (∀ a', hostList r.1 a' = if a' ∈ as then (hostList s a').filter (· != h) else hostList s a') ∧
    r.2 = (f && as.all (fun a => ((hostList s a).filter (· != h)).isEmpty)) ∧ Rep r.1 ∧ SameIdx s r.1 := by
  induction as with
  | nil => intro s f hr _; simp [hr, SameIdx.refl]
  | cons a t ih =>
    intro s f hr hn
    obtain ⟨h1, h2, h3, h4⟩ := delAddrStep_spec h s f a hr
    have e1 : (hostList s a).erase h = (hostList s a).filter (· != h) := (hn a).erase_eq_filter h
    have hn' : ∀ a', (hostList (delAddrStep h (s, f) a).1 a').Nodup := by
      intro a'; rw [h1]; split
      · exact (hn a).sublist (List.erase_sublist)
      · exact hn a'
    have := ih (delAddrStep h (s, f) a).1 (delAddrStep h (s, f) a).2 h3 hn'
    simp only [List.foldl_cons]
    obtain ⟨g1, g2, g3, g4⟩ := this
    refine ⟨fun a' => ?_, ?_, g3, h4.trans g4⟩
    · rw [g1 a', h1 a']
      by_cases ea : a' = a
      · subst ea
        simp only [↓reduceIte, List.mem_cons, true_or, e1]
        split
        · simp [List.filter_filter]
        · rfl
      · simp [ea]
    · rw [g2, h2, e1]
      simp only [List.all_cons, Bool.and_assoc]
      congr 2
      congr 1
      funext x
      rw [h1 x]
      by_cases ex : x = a
      · subst ex; simp [e1, List.filter_filter]
      · simp [ex]

/-- the relay-index cleanup loop -/
theorem delRelayLoop_spec (h : Nat) (l : List Nat) : ∀ s : State,
    let r := l.foldl (delRelayStep h) s
    (∀ i, r.relays.get i = if i ∈ l ∧ s.relays.get i = some h then none else s.relays.get i) ∧
    r.hosts = s.hosts ∧ r.more = s.more ∧ r.indexes = s.indexes ∧ r.rindexes = s.rindexes ∧ r.objs = s.objs ∧
    r.vpnIps = s.vpnIps ∧ r.pidx = s.pidx ∧ r.next = s.next ∧ r.rs = s.rs := by
  induction l with
  | nil => intro s; simp
  | cons x t ih =>
    intro s
    simp only [List.foldl_cons]
    obtain ⟨g1, g2, g3, g4, g5, g6, g7, g8, g9, g10⟩ := ih (delRelayStep h s x)
    have fr : (delRelayStep h s x).hosts = s.hosts ∧ (delRelayStep h s x).more = s.more ∧
        (delRelayStep h s x).indexes = s.indexes ∧ (delRelayStep h s x).rindexes = s.rindexes ∧
        (delRelayStep h s x).objs = s.objs ∧ (delRelayStep h s x).vpnIps = s.vpnIps ∧
        (delRelayStep h s x).pidx = s.pidx ∧ (delRelayStep h s x).next = s.next ∧ (delRelayStep h s x).rs = s.rs := by
      unfold delRelayStep; split <;> simp
    refine ⟨fun i => ?_, g2.trans fr.1, g3.trans fr.2.1, g4.trans fr.2.2.1, g5.trans fr.2.2.2.1,
      g6.trans fr.2.2.2.2.1, g7.trans fr.2.2.2.2.2.1, g8.trans fr.2.2.2.2.2.2.1, g9.trans fr.2.2.2.2.2.2.2.1,
      g10.trans fr.2.2.2.2.2.2.2.2⟩
    rw [g1 i]
    unfold delRelayStep
    by_cases hx : s.relays.get x = some h
    · simp only [hx, ↓reduceIte, get_del, List.mem_cons]
      by_cases e : x = i
      · subst e; simp [hx]
      · simp only [e, ↓reduceIte]
        by_cases hi : s.relays.get i = some h
        · by_cases ht : i ∈ t <;> simp [ht, hi, Ne.symm e]
        · simp [hi]
    · simp only [hx, ↓reduceIte, List.mem_cons]
      by_cases e : i = x
      · subst e; simp [hx]
      · simp [e]

end Nebula.HostMap
