/-
encoding/base64 (`StdEncoding`) as modelled in `Model/CertPem.lean`: decode ∘ encode = id for **every** byte string,
also through the 64-column line breaker of encoding/pem (the decoder skips the line breaks).
-/
import Nebula.Model.CertPem

namespace Nebula.Lemmas.CertPemB64
open Nebula.Cert Nebula.CertPem

/-- the alphabet table, complete: value of the n-th character is n, and no alphabet character is `=`, CR, LF, `-`,
`:`, space or tab. -/
theorem b64_table : ∀ n, n < 64 →
    b64Val (b64Char n) = some n ∧ b64Char n ≠ 61 ∧ b64Char n ≠ 10 ∧ b64Char n ≠ 13 ∧ b64Char n ≠ 45 ∧
    b64Char n ≠ 58 ∧ b64Char n ≠ 32 ∧ b64Char n ≠ 9 := by decide

theorem ofNat_toNat (a : UInt8) : UInt8.ofNat a.toNat = a := by
  apply UInt8.toNat_inj.mp
  simp

private theorem lt256 (a : UInt8) : a.toNat < 256 := UInt8.toNat_lt a

/-- **base64 round trip** (unbounded, by induction on the input three bytes at a time). -/
theorem b64DecQ_enc (l : Bytes) : b64DecQ (b64Enc l) = some l := by
  fun_induction b64Enc l with
  | case1 => rfl
  | case2 a =>
    have ha := lt256 a
    obtain ⟨v1, p1, -⟩ := b64_table (a.toNat / 4) (by omega)
    obtain ⟨v2, p2, -⟩ := b64_table (a.toNat % 4 * 16) (by omega)
    simp only [b64DecQ, v1, v2, if_true, and_self]
    congr 2
    rw [show a.toNat / 4 * 4 + a.toNat % 4 * 16 / 16 = a.toNat by omega]
    exact ofNat_toNat a
  | case3 a b =>
    have ha := lt256 a
    have hb := lt256 b
    obtain ⟨v1, -⟩ := b64_table (a.toNat / 4) (by omega)
    obtain ⟨v2, -⟩ := b64_table (a.toNat % 4 * 16 + b.toNat / 16) (by omega)
    obtain ⟨v3, p3, -⟩ := b64_table (b.toNat % 16 * 4) (by omega)
    simp only [b64DecQ, v1, v2, v3, p3, if_false, if_true]
    congr 2
    · rw [show a.toNat / 4 * 4 + (a.toNat % 4 * 16 + b.toNat / 16) / 16 = a.toNat by omega]
      exact ofNat_toNat a
    · congr 1
      rw [show (a.toNat % 4 * 16 + b.toNat / 16) % 16 * 16 + b.toNat % 16 * 4 / 4 = b.toNat by omega]
      exact ofNat_toNat b
  | case4 a b c rest ih =>
    have ha := lt256 a
    have hb := lt256 b
    have hc := lt256 c
    obtain ⟨v1, -⟩ := b64_table (a.toNat / 4) (by omega)
    obtain ⟨v2, -⟩ := b64_table (a.toNat % 4 * 16 + b.toNat / 16) (by omega)
    obtain ⟨v3, p3, -⟩ := b64_table (b.toNat % 16 * 4 + c.toNat / 64) (by omega)
    obtain ⟨v4, p4, -⟩ := b64_table (c.toNat % 64) (by omega)
    simp only [b64DecQ, v1, v2, v3, v4, p3, p4, if_false, ih]
    congr 2
    · rw [show a.toNat / 4 * 4 + (a.toNat % 4 * 16 + b.toNat / 16) / 16 = a.toNat by omega]
      exact ofNat_toNat a
    · congr 1
      · rw [show (a.toNat % 4 * 16 + b.toNat / 16) % 16 * 16 + (b.toNat % 16 * 4 + c.toNat / 64) / 4 = b.toNat by omega]
        exact ofNat_toNat b
      · congr 1
        rw [show (b.toNat % 16 * 4 + c.toNat / 64) % 4 * 64 + c.toNat % 64 = c.toNat by omega]
        exact ofNat_toNat c

/-- characters that no part of `pem.Decode` treats specially: not LF, CR, `-`, `:`, space or tab. -/
def Plain (c : UInt8) : Prop := c ≠ 10 ∧ c ≠ 13 ∧ c ≠ 45 ∧ c ≠ 58 ∧ c ≠ 32 ∧ c ≠ 9

theorem plain_b64Char (n : Nat) (h : n < 64) : Plain (b64Char n) := by
  obtain ⟨-, -, h2, h3, h4, h5, h6, h7⟩ := b64_table n h
  exact ⟨h2, h3, h4, h5, h6, h7⟩

theorem plain_pad : Plain 61 := by unfold Plain; decide

/-- the output of the encoder consists of alphabet characters and `=`. -/
theorem b64Enc_plain (l : Bytes) : ∀ c ∈ b64Enc l, Plain c := by
  fun_induction b64Enc l with
  | case1 => intro c hc; cases hc
  | case2 a =>
    have ha := lt256 a
    intro c hc
    simp only [List.mem_cons, List.not_mem_nil, or_false] at hc
    rcases hc with rfl | rfl | rfl | rfl
    · exact plain_b64Char _ (by omega)
    · exact plain_b64Char _ (by omega)
    · exact plain_pad
    · exact plain_pad
  | case3 a b =>
    have ha := lt256 a
    have hb := lt256 b
    intro c hc
    simp only [List.mem_cons, List.not_mem_nil, or_false] at hc
    rcases hc with rfl | rfl | rfl | rfl
    · exact plain_b64Char _ (by omega)
    · exact plain_b64Char _ (by omega)
    · exact plain_b64Char _ (by omega)
    · exact plain_pad
  | case4 a b c rest ih =>
    have ha := lt256 a
    have hb := lt256 b
    have hc := lt256 c
    intro x hx
    simp only [List.mem_cons] at hx
    rcases hx with rfl | rfl | rfl | rfl | hx
    · exact plain_b64Char _ (by omega)
    · exact plain_b64Char _ (by omega)
    · exact plain_b64Char _ (by omega)
    · exact plain_b64Char _ (by omega)
    · exact ih x hx

theorem b64Enc_length_ge (l : Bytes) (h : l ≠ []) : 4 ≤ (b64Enc l).length := by
  fun_induction b64Enc l with
  | case1 => exact absurd rfl h
  | case2 a => simp
  | case3 a b => simp
  | case4 a b c rest ih => simp only [List.length_cons]; omega

/-- the line breaker only inserts LF: filtering CR/LF out of the wrapped text gives the text back. -/
theorem filter_wrapGo (s : Bytes) (hs : ∀ c ∈ s, Plain c) (col : Nat) : (wrapGo col s).filter notCRLF = s := by
  induction s generalizing col with
  | nil => unfold wrapGo; split <;> simp [notCRLF]
  | cons c t ih =>
    have hc : notCRLF c = true := by
      obtain ⟨h1, h2, -⟩ := hs c (List.mem_cons_self ..)
      simp [notCRLF, h1, h2]
    have ht : ∀ x ∈ t, Plain x := fun x hx => hs x (List.mem_cons_of_mem _ hx)
    unfold wrapGo
    split
    · simp only [List.filter_cons, hc, if_true]
      rw [show notCRLF 10 = false by decide]
      simp only [Bool.false_eq_true, if_false]
      rw [ih ht]
    · simp only [List.filter_cons, hc, if_true]
      rw [ih ht]

/-- **base64 round trip through the 64-column wrapping** (every byte string, every starting column). -/
theorem b64Dec_wrap (l : Bytes) (col : Nat) : b64Dec (wrapGo col (b64Enc l)) = some l := by
  unfold b64Dec
  rw [filter_wrapGo _ (b64Enc_plain l)]
  exact b64DecQ_enc l

/-- every character of the wrapped text is LF or a character of the text. -/
theorem mem_wrapGo (s : Bytes) (col : Nat) : ∀ c ∈ wrapGo col s, c = 10 ∨ c ∈ s := by
  induction s generalizing col with
  | nil => unfold wrapGo; split <;> simp
  | cons a t ih =>
    unfold wrapGo
    split
    · intro c hc
      simp only [List.mem_cons] at hc ⊢
      rcases hc with rfl | rfl | hc
      · exact Or.inr (Or.inl rfl)
      · exact Or.inl rfl
      · rcases ih 0 c hc with h | h
        · exact Or.inl h
        · exact Or.inr (Or.inr h)
    · intro c hc
      simp only [List.mem_cons] at hc ⊢
      rcases hc with rfl | hc
      · exact Or.inr (Or.inl rfl)
      · rcases ih _ c hc with h | h
        · exact Or.inl h
        · exact Or.inr (Or.inr h)

/-- a non-empty text wraps to lines: a first line of its characters, a LF, and more. -/
theorem wrapGo_first_line (s : Bytes) (hs : s ≠ []) (col : Nat) :
    ∃ L R, wrapGo col s = L ++ 10 :: R ∧ (∀ c ∈ L, c ∈ s) ∧ L ≠ [] := by
  induction s generalizing col with
  | nil => exact absurd rfl hs
  | cons a t ih =>
    unfold wrapGo
    split
    · exact ⟨[a], wrapGo 0 t, rfl, by simp, by simp⟩
    · cases t with
      | nil =>
        refine ⟨[a], [], ?_, by simp, by simp⟩
        unfold wrapGo
        simp
      | cons b t' =>
        obtain ⟨L, R, h, hm, -⟩ := ih (by simp) (col + 1)
        refine ⟨a :: L, R, by rw [h]; rfl, ?_, by simp⟩
        intro c hc
        simp only [List.mem_cons] at hc ⊢
        rcases hc with rfl | hc
        · exact Or.inl rfl
        · exact Or.inr (by simpa using hm c hc)

/-- the wrapped text is empty (empty input) or ends with LF. -/
theorem wrapGo_last (s : Bytes) (col : Nat) (hcol : s = [] → col = 0) :
    (s = [] ∧ wrapGo col s = []) ∨ ∃ body', wrapGo col s = body' ++ [10] := by
  induction s generalizing col with
  | nil => left; exact ⟨rfl, by unfold wrapGo; simp [hcol rfl]⟩
  | cons a t ih =>
    right
    unfold wrapGo
    split
    · rcases ih 0 (fun _ => rfl) with ⟨-, h⟩ | ⟨b', h⟩
      · exact ⟨[a], by rw [h]; rfl⟩
      · exact ⟨a :: 10 :: b', by rw [h]; rfl⟩
    · cases t with
      | nil => exact ⟨[a], by unfold wrapGo; simp⟩
      | cons b t' =>
        rcases ih (col + 1) (fun h => by cases h) with ⟨h, -⟩ | ⟨b', h⟩
        · cases h
        · exact ⟨a :: b', by rw [h]; rfl⟩

theorem wrapGo_length_ge (s : Bytes) (col : Nat) : s.length ≤ (wrapGo col s).length := by
  induction s generalizing col with
  | nil => simp
  | cons a t ih =>
    unfold wrapGo
    split <;> simp only [List.length_cons] <;> have := ih 0 <;> have := ih (col + 1) <;> omega

end Nebula.Lemmas.CertPemB64
