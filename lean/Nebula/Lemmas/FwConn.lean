/-
Lemmas about `Firewall.Drop` / `inConns` / `addConn` / `evict` (C16 "then tracked", C17, C18, C19).
-/
import Nebula.Lemmas.FwRules

namespace Nebula.Lemmas.Fw
open Nebula.Net Nebula.Fw Nebula.Spec.Fw

theorem samePkt_iff (a b : Packet) : samePkt a b = true ↔ a = b := by simp [samePkt]

theorem aget_aset_pkt {α : Type} (m : List (Packet × α)) (k k' : Packet) (v : α) :
    aget samePkt (aset samePkt m k v) k' = if k = k' then some v else aget samePkt m k' :=
  aget_aset_eq samePkt samePkt_iff m k k' v

theorem aget_aerase_pkt {α : Type} (m : List (Packet × α)) (k k' : Packet) :
    aget samePkt (aerase samePkt m k) k' = if k = k' then none else aget samePkt m k' := by
  induction m with
  | nil => simp [aerase, aget]
  | cons e m ih =>
    simp only [aerase] at ih ⊢
    by_cases hek : e.1 = k
    · have h1 : samePkt e.1 k = true := (samePkt_iff _ _).2 hek
      simp only [List.filter_cons, h1, Bool.not_true, Bool.false_eq_true, if_false, ih]
      by_cases hkk : k = k'
      · simp [hkk]
      · have : samePkt e.1 k' = false := by
          cases h : samePkt e.1 k'
          · rfl
          · exact absurd (hek.symm.trans ((samePkt_iff _ _).1 h)) hkk
        simp [hkk, aget, this]
    · have h1 : samePkt e.1 k = false := by
        cases h : samePkt e.1 k
        · rfl
        · exact absurd ((samePkt_iff _ _).1 h) hek
      simp only [List.filter_cons, h1, Bool.not_false, if_true, aget]
      cases h2 : samePkt e.1 k'
      · simp [ih]
      · have : ¬ k = k' := fun h => hek (((samePkt_iff _ _).1 h2).trans h.symm)
        simp [this]

/-- `AddRule` touches nothing but the rule tables. -/
theorem stepFw_fields (fw : Fw) (r : Rule) :
    (stepFw fw r).routable = fw.routable ∧ (stepFw fw r).tcpTimeout = fw.tcpTimeout
      ∧ (stepFw fw r).udpTimeout = fw.udpTimeout ∧ (stepFw fw r).defaultTimeout = fw.defaultTimeout
      ∧ (stepFw fw r).rulesVersion = fw.rulesVersion := by
  unfold stepFw Fw.addRule
  cases r.incoming
  · simp only [Bool.false_eq_true, if_false]
    cases fw.outRules.addRule fw.cfg r <;> simp
  · simp only [if_true]
    cases fw.inRules.addRule fw.cfg r <;> simp

theorem addRules_fields (fw : Fw) (rules : List Rule) :
    (fw.addRules rules).routable = fw.routable ∧ (fw.addRules rules).tcpTimeout = fw.tcpTimeout
      ∧ (fw.addRules rules).udpTimeout = fw.udpTimeout ∧ (fw.addRules rules).defaultTimeout = fw.defaultTimeout
      ∧ (fw.addRules rules).rulesVersion = fw.rulesVersion := by
  rw [addRules_eq_foldl]
  induction rules generalizing fw with
  | nil => simp
  | cons r rs ih =>
    have h := stepFw_fields fw r
    have h2 := ih (stepFw fw r)
    simp only [List.foldl_cons]
    refine ⟨h2.1.trans h.1, h2.2.1.trans h.2.1, h2.2.2.1.trans h.2.2.1, h2.2.2.2.1.trans h.2.2.2.1,
      h2.2.2.2.2.trans h.2.2.2.2⟩

theorem addRules_routable (fw : Fw) (rules : List Rule) : (fw.addRules rules).routable = fw.routable :=
  (addRules_fields fw rules).1

/-- the address checks never answer "pass": they either object or say nothing. -/
theorem remoteCheck_ne_pass (h : Host) (p : Packet) : remoteCheck h p ≠ some .pass := by
  unfold remoteCheck
  intro hp
  repeat' split at hp
  all_goals simp_all

theorem addrCheck_ne_pass (routable : Lite) (h : Host) (p : Packet) : addrCheck routable h p ≠ some .pass := by
  unfold addrCheck
  intro hp
  cases hr : remoteCheck h p with
  | some v =>
    simp only [hr, Option.some.injEq] at hp
    exact remoteCheck_ne_pass h p (by rw [hr, hp])
  | none =>
    simp only [hr] at hp
    split at hp <;> simp_all

/-- the empty table matches nothing. -/
theorem table_empty (p : Packet) (incoming : Bool) (pr : Peer) : ({} : Table).matches p incoming pr = false := by
  simp [table_matches, FPort.matches]

/-- `evict` never touches an entry that has not expired. -/
theorem evict_keeps (ct : Conntrack) (now : Nat) (ep p : Packet) (c : Conn)
    (h : aget samePkt ct.conns p = some c) (hlive : now < c.expires) :
    aget samePkt (evict ct now ep).conns p = some c := by
  unfold evict
  cases he : aget samePkt ct.conns ep with
  | none => simpa using h
  | some t =>
    by_cases hl : now < t.expires
    · simpa [hl] using h
    · simp only [hl, if_false, aget_aerase_pkt]
      by_cases hep : ep = p
      · subst hep
        rw [h] at he
        cases he
        exact absurd hlive hl
      · simp [hep, h]

theorem evict_none (ct : Conntrack) (now : Nat) (ep p : Packet)
    (h : aget samePkt ct.conns p = none) : aget samePkt (evict ct now ep).conns p = none := by
  unfold evict
  cases he : aget samePkt ct.conns ep with
  | none => simpa using h
  | some t =>
    by_cases hl : now < t.expires
    · simpa [hl] using h
    · simp only [hl, if_false, aget_aerase_pkt]
      by_cases hep : ep = p <;> simp [hep, h]

theorem purgeStep_keeps (ct : Conntrack) (now : Nat) (p : Packet) (c : Conn)
    (h : aget samePkt ct.conns p = some c) (hlive : now < c.expires) :
    aget samePkt (purgeStep ct now).conns p = some c := by
  unfold purgeStep
  cases ct.wheel.purge with
  | none => simpa using h
  | some x => exact evict_keeps _ now x.1 p c h hlive

theorem purgeStep_none (ct : Conntrack) (now : Nat) (p : Packet)
    (h : aget samePkt ct.conns p = none) : aget samePkt (purgeStep ct now).conns p = none := by
  unfold purgeStep
  cases ct.wheel.purge with
  | none => simpa using h
  | some x => exact evict_none _ now x.1 p h

/-- `inConns` on a tuple with no entry and no cache line: miss; and still no entry afterwards. -/
theorem inConns_miss (fw : Fw) (ct : Conntrack) (now : Nat) (cache : Cache) (p : Packet) (pr : Peer)
    (hct : aget samePkt ct.conns p = none) (hcache : cache.has p = false) :
    (inConns fw ct now cache p pr).1 = false
      ∧ aget samePkt (inConns fw ct now cache p pr).2.1.conns p = none
      ∧ (inConns fw ct now cache p pr).2.2 = cache := by
  unfold inConns
  simp only [hcache, Bool.false_eq_true, if_false]
  have := purgeStep_none ct now p hct
  simp [this]

theorem drop_untracked (fw : Fw) (ct : Conntrack) (now : Nat) (cache : Cache) (p : Packet) (incoming : Bool)
    (h : HostInfo) (hct : aget samePkt ct.conns p = none) (hcache : cache.has p = false) :
    (drop fw ct now cache p incoming h).1 =
      match addrCheck fw.routable h.host p with
      | some v => v
      | none => if (fw.table incoming).matches p incoming h.peer then .pass else .noRule := by
  unfold drop
  cases ha : addrCheck fw.routable h.host p with
  | some v => rfl
  | none =>
    simp only
    have hm := inConns_miss fw ct now cache p h.peer hct hcache
    rcases hic : inConns fw ct now cache p h.peer with ⟨b, ct', cache'⟩
    rw [hic] at hm
    simp only at hm
    rw [hm.1]
    simp only
    cases (fw.table incoming).matches p incoming h.peer <;> simp


/-- `evict` only ever deletes, and only expired entries. -/
theorem evict_sub (ct : Conntrack) (now : Nat) (ep q : Packet) (c : Conn)
    (h : aget samePkt (evict ct now ep).conns q = some c) : aget samePkt ct.conns q = some c := by
  unfold evict at h
  cases he : aget samePkt ct.conns ep with
  | none => simpa [he] using h
  | some t =>
    by_cases hl : now < t.expires
    · simpa [he, hl] using h
    · simp only [he, hl, if_false, aget_aerase_pkt] at h
      by_cases hep : ep = q
      · simp [hep] at h
      · simpa [hep] using h

theorem purgeStep_sub (ct : Conntrack) (now : Nat) (q : Packet) (c : Conn)
    (h : aget samePkt (purgeStep ct now).conns q = some c) : aget samePkt ct.conns q = some c := by
  unfold purgeStep at h
  cases hp : ct.wheel.purge with
  | none => simpa [hp] using h
  | some x =>
    simp only [hp] at h
    exact evict_sub { ct with wheel := x.2 } now x.1 q c h

/-- what `inConns` does to the entry of the packet it is asked about (cache miss). -/
theorem inConns_entry (fw : Fw) (ct : Conntrack) (now : Nat) (cache : Cache) (p : Packet) (pr : Peer)
    (hcache : cache.has p = false) :
    (∃ c, aget samePkt ct.conns p = some c ∧ now < c.expires
        ∧ (c.rulesVersion = fw.rulesVersion ∨ (fw.table c.incoming).matches p c.incoming pr = true)
        ∧ (inConns fw ct now cache p pr).1 = true
        ∧ aget samePkt (inConns fw ct now cache p pr).2.1.conns p
            = some { expires := now + fw.timeoutFor p.proto, incoming := c.incoming, rulesVersion := fw.rulesVersion })
    ∨ ((inConns fw ct now cache p pr).1 = false
        ∧ aget samePkt (inConns fw ct now cache p pr).2.1.conns p = none
        ∧ (inConns fw ct now cache p pr).2.2 = cache
        ∧ ∀ c, aget samePkt ct.conns p = some c →
            ¬ (now < c.expires ∧ (c.rulesVersion = fw.rulesVersion
                ∨ (fw.table c.incoming).matches p c.incoming pr = true))) := by
  unfold inConns
  simp only [hcache, Bool.false_eq_true, if_false]
  cases hp : aget samePkt (purgeStep ct now).conns p with
  | none =>
    right
    refine ⟨rfl, hp, rfl, ?_⟩
    intro c hc hlive
    have := purgeStep_keeps ct now p c hc hlive.1
    rw [hp] at this
    cases this
  | some c =>
    have hc := purgeStep_sub ct now p c hp
    simp only
    by_cases hl : now < c.expires
    · simp only [hl, not_true_eq_false, if_false]
      by_cases hv : c.rulesVersion = fw.rulesVersion
      · left
        refine ⟨c, hc, hl, Or.inl hv, ?_, ?_⟩
        · simp [hv]
        · simp [hv, aget_aset_pkt]
      · cases hm : (fw.table c.incoming).matches p c.incoming pr
        · right
          simp only [ne_eq, hv, not_false_eq_true, hm, Bool.not_false, and_self, if_true, aget_aerase_pkt, true_and]
          intro c' hc' hlive
          rw [hc] at hc'
          cases hc'
          rcases hlive.2 with h | h
          · exact hv h
          · rw [hm] at h
            cases h
        · left
          refine ⟨c, hc, hl, Or.inr hm, ?_, ?_⟩
          · simp [hm]
          · simp [hm, aget_aset_pkt]
    · right
      simp only [hl, not_false_eq_true, if_true, aget_aerase_pkt, true_and]
      intro c' hc' hlive
      rw [hc] at hc'
      cases hc'
      exact hl hlive.1

/-- entries of other tuples are only ever deleted (never created or changed) by `inConns`. -/
theorem inConns_other (fw : Fw) (ct : Conntrack) (now : Nat) (cache : Cache) (p q : Packet) (pr : Peer) (c : Conn)
    (hq : q ≠ p) (h : aget samePkt (inConns fw ct now cache p pr).2.1.conns q = some c) :
    aget samePkt ct.conns q = some c := by
  unfold inConns at h
  by_cases hcache : cache.has p = true
  · simpa [hcache] using h
  · simp only [hcache, Bool.false_eq_true, if_false] at h
    have hne : ¬ p = q := fun e => hq e.symm
    cases hp : aget samePkt (purgeStep ct now).conns p with
    | none =>
      simp only [hp] at h
      exact purgeStep_sub ct now q c h
    | some c0 =>
      simp only [hp] at h
      apply purgeStep_sub ct now q c
      split at h
      · simpa [aget_aerase_pkt, hne] using h
      · split at h
        · simpa [aget_aerase_pkt, hne] using h
        · simpa [aget_aset_pkt, hne] using h

/-- `Drop` with the result of `inConns` in projection form. -/
theorem drop_eq (fw : Fw) (ct : Conntrack) (now : Nat) (cache : Cache) (p : Packet) (incoming : Bool) (h : HostInfo) :
    drop fw ct now cache p incoming h =
      match addrCheck fw.routable h.host p with
      | some v => (v, ct, cache)
      | none =>
        let r := inConns fw ct now cache p h.peer
        if r.1 then (.pass, r.2.1, r.2.2)
        else if (fw.table incoming).matches p incoming h.peer then (.pass, addConn fw r.2.1 now p incoming, r.2.2)
        else (.noRule, r.2.1, r.2.2) := by
  unfold drop
  cases addrCheck fw.routable h.host p with
  | some v => rfl
  | none =>
    simp only
    rcases inConns fw ct now cache p h.peer with ⟨b, ct', cache'⟩
    cases b
    · cases (fw.table incoming).matches p incoming h.peer <;> simp
    · simp

theorem addConn_entry (fw : Fw) (ct : Conntrack) (now : Nat) (p : Packet) (incoming : Bool) :
    aget samePkt (addConn fw ct now p incoming).conns p
      = some { expires := now + fw.timeoutFor p.proto, incoming := incoming, rulesVersion := fw.rulesVersion } := by
  simp [addConn, aget_aset_pkt]

theorem addConn_other (fw : Fw) (ct : Conntrack) (now : Nat) (p q : Packet) (incoming : Bool) (hq : q ≠ p) :
    aget samePkt (addConn fw ct now p incoming).conns q = aget samePkt ct.conns q := by
  have : ¬ p = q := fun e => hq e.symm
  simp [addConn, aget_aset_pkt, this]


end Nebula.Lemmas.Fw
