/-
Helper lemmas for C39: the forwarding decision (`relayPacket`) against the specification `okForward`.
-/
import Nebula.Model.Relay
import Nebula.Spec.Relay

namespace Nebula.Lemmas.Relay
open Nebula.Relay Nebula.Gen Nebula.Spec.Relay

theorem byAddr_some {h : Host} {a : Addr} {r : Relay} (e : h.byAddr a = some r) :
    r ∈ h.recs ∧ r.peerAddr = a := by
  unfold Host.byAddr at e
  exact ⟨List.mem_of_find?_eq_some e, by simpa using List.find?_some e⟩

theorem byIdx_some {h : Host} {i : Nat} {r : Relay} (e : h.byIdx i = some r) :
    r ∈ h.recs ∧ r.localIndex = i := by
  unfold Host.byIdx at e
  exact ⟨List.mem_of_find?_eq_some e, by simpa using List.find?_some e⟩

theorem findHost_some {n : Node} {hid : Nat} {h : Host} (e : n.findHost hid = some h) :
    h ∈ n.hosts ∧ h.id = hid := by
  unfold Node.findHost at e
  exact ⟨List.mem_of_find?_eq_some e, by simpa using List.find?_some e⟩

theorem firstEstablished_some {h : Host} {ts : List Addr} {r : Relay} (e : firstEstablished h ts = some r) :
    r ∈ h.recs ∧ r.peerAddr ∈ ts ∧ r.state = nebula_Established := by
  unfold firstEstablished at e
  obtain ⟨a, ha, fa⟩ := List.exists_of_findSome?_eq_some e
  split at fa
  · rename_i r' hr'
    split at fa
    · rename_i hs
      have := byAddr_some hr'
      simp at fa
      subst fa
      exact ⟨this.1, by rw [this.2]; exact ha, by simpa using hs⟩
    · simp at fa
  · simp at fa

theorem queryRelayFor_some {n : Node} {ts : List Addr} {a : Addr} {t : Host} {tr : Relay}
    (e : queryRelayFor n ts a = some (t, tr)) :
    t ∈ n.hosts ∧ t.vpnAddrs.contains a = true ∧ tr ∈ t.recs ∧ tr.peerAddr ∈ ts ∧ tr.state = nebula_Established := by
  unfold queryRelayFor at e
  obtain ⟨h, hh, fh⟩ := List.exists_of_findSome?_eq_some e
  unfold Node.hostsFor at hh
  rw [List.mem_filter] at hh
  cases hfe : firstEstablished h ts with
  | none => simp [hfe] at fh
  | some r =>
    simp [hfe] at fh
    obtain ⟨rfl, rfl⟩ := fh
    have := firstEstablished_some hfe
    exact ⟨hh.1, hh.2, this.1, this.2.1, this.2.2⟩

/-- The forwarding decision, for ANY node state: a relay packet on index `idx` is forwarded to hostinfo
`tid` with outer index `outIdx` only if the node is a relay, `idx` is a Forwarding record `r` of the
hostinfo `hid` that owns the index (whose key authenticated the packet), `tid` is a tunnel to
`r.peerAddr`, and that tunnel holds an Established Forwarding record for one of the sender's certified
addresses whose remote index is `outIdx`. -/
theorem relayPacket_forward {n : Node} {idx tid outIdx : Nat}
    (e : relayPacket n idx = .forward tid outIdx) :
    n.amRelay = true ∧ ∃ hid, n.relayOwner idx = some hid ∧ ∃ s ∈ n.hosts, s.id = hid ∧ ∃ r ∈ s.recs,
      r.localIndex = idx ∧ r.type = nebula_ForwardingType ∧
      ∃ t ∈ n.hosts, t.id = tid ∧ t.vpnAddrs.contains r.peerAddr = true ∧ ∃ tr ∈ t.recs,
        tr.peerAddr ∈ s.vpnAddrs ∧ tr.state = nebula_Established ∧ tr.type = nebula_ForwardingType ∧
        tr.remoteIndex = outIdx := by
  unfold relayPacket at e
  split at e
  · simp at e
  · rename_i hid hown
    split at e
    · simp at e
    · rename_i hi hfind
      split at e
      · simp at e
      · rename_i r hr
        split at e
        · simp at e
        · split at e
          · rename_i hty
            split at e
            · simp at e
            · rename_i ham
              split at e
              · simp at e
              · rename_i t tr hq
                split at e
                · split at e
                  · rename_i hst htt
                    simp at e
                    obtain ⟨rfl, rfl⟩ := e
                    have hf := findHost_some hfind
                    have hb := byIdx_some hr
                    have hqq := queryRelayFor_some hq
                    refine ⟨by simpa using ham, hid, hown, hi, hf.1, hf.2, r, hb.1, hb.2, by simpa using hty,
                      t, hqq.1, rfl, hqq.2.1, tr, hqq.2.2.1, hqq.2.2.2.1, hqq.2.2.2.2, by simpa using htt, rfl⟩
                  · simp at e
                · simp at e
          · simp at e

end Nebula.Lemmas.Relay
