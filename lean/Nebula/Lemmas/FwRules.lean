/-
Lemmas for C16: every builder of the nested rule structure adds exactly one disjunct to what its evaluator
computes. Level by level (firewallLocalCIDR → FirewallRule → FirewallCA → firewallPort → FirewallTable).
-/
import Nebula.Model.Conntrack
import Nebula.Spec.FwRules

namespace Nebula.Lemmas.Fw
open Nebula.Net Nebula.Fw Nebula.Spec.Fw

/-! ### association lists -/

theorem aget_aset_eq {κ α : Type} (same : κ → κ → Bool) (hsame : ∀ a b, same a b = true ↔ a = b)
    (m : List (κ × α)) (k k' : κ) (v : α) [DecidableEq κ] :
    aget same (aset same m k v) k' = if k = k' then some v else aget same m k' := by
  induction m with
  | nil =>
    by_cases h2 : k = k'
    · subst h2
      have := (hsame k k).2 rfl
      simp [aset, aget, this]
    · have : same k k' = false := by
        cases h : same k k'
        · rfl
        · exact absurd ((hsame _ _).1 h) h2
      simp [aset, aget, this, h2]
  | cons e m ih =>
    cases hs : same e.1 k
    · have hne : e.1 ≠ k := fun h => by have := (hsame e.1 k).2 h; simp [hs] at this
      cases hs' : same e.1 k'
      · simp [aset, aget, hs, hs', ih]
      · have he : e.1 = k' := (hsame _ _).1 hs'
        have : ¬ k = k' := fun h => hne (he.trans h.symm)
        simp [aset, aget, hs, hs', this]
    · have he : e.1 = k := (hsame _ _).1 hs
      by_cases h2 : k = k'
      · subst h2
        have hkk : same k k = true := (hsame _ _).2 rfl
        simp [aset, aget, hs, hkk]
      · have hkk : same k k' = false := by
          cases h : same k k'
          · rfl
          · exact absurd ((hsame _ _).1 h) h2
        have : same e.1 k' = false := by rw [he]; exact hkk
        simp [aset, aget, hs, hkk, h2, this]

theorem sameStr_iff (a b : String) : sameStr a b = true ↔ a = b := by simp [sameStr]

theorem aget_aset_str {α : Type} (m : List (String × α)) (k k' : String) (v : α) :
    aget sameStr (aset sameStr m k v) k' = if k = k' then some v else aget sameStr m k' :=
  aget_aset_eq sameStr sameStr_iff m k k' v

theorem mem_aset {κ α : Type} (same : κ → κ → Bool) (m : List (κ × α)) (k : κ) (v : α) (e : κ × α)
    (h : e ∈ aset same m k v) : e = (k, v) ∨ e ∈ m := by
  induction m with
  | nil => simp [aset] at h; exact Or.inl h
  | cons x m ih =>
    cases hs : same x.1 k
    · simp only [aset, hs, Bool.false_eq_true, if_false, List.mem_cons] at h
      rcases h with h | h
      · exact Or.inr (by simp [h])
      · rcases ih h with h | h
        · exact Or.inl h
        · exact Or.inr (List.mem_cons_of_mem _ h)
    · simp only [aset, hs, if_true, List.mem_cons] at h
      rcases h with h | h
      · exact Or.inl h
      · exact Or.inr (List.mem_cons_of_mem _ h)

/-- `any` over a table after "get-or-default, extend, put back": one more disjunct. -/
theorem any_aset_get {κ α : Type} (same : κ → κ → Bool) (kp : κ → Bool) (vp : α → Bool)
    (m : List (κ × α)) (k : κ) (v dflt : α) (x : Bool)
    (hk : ∀ k', same k' k = true → kp k' = kp k)
    (hv : vp v = (vp ((aget same m k).getD dflt) || x))
    (hd : vp dflt = false) :
    (aset same m k v).any (fun e => kp e.1 && vp e.2) = (m.any (fun e => kp e.1 && vp e.2) || (kp k && x)) := by
  induction m with
  | nil => simp [aset, aget, hd] at hv ⊢; simp [hv]
  | cons e m ih =>
    cases hs : same e.1 k
    · simp only [aget, hs, Bool.false_eq_true, if_false] at hv
      simp only [aset, hs, Bool.false_eq_true, if_false, List.any_cons, ih hv]
      simp [Bool.or_assoc]
    · simp only [aget, hs, if_true, Option.getD_some] at hv
      simp only [aset, hs, if_true, List.any_cons]
      rw [hv, hk e.1 hs]
      cases kp k <;> cases vp e.2 <;> cases x <;> simp

/-- `any` of a key predicate after an insert. -/
theorem any_aset_key {κ α : Type} (same : κ → κ → Bool) (kp : κ → Bool) (m : List (κ × α)) (k : κ) (v : α)
    (hk : ∀ k', same k' k = true → kp k' = kp k) :
    (aset same m k v).any (fun e => kp e.1) = (m.any (fun e => kp e.1) || kp k) := by
  induction m with
  | nil => simp [aset]
  | cons e m ih =>
    cases hs : same e.1 k
    · simp only [aset, hs, Bool.false_eq_true, if_false, List.any_cons, ih]
      simp [Bool.or_assoc]
    · simp only [aset, hs, if_true, List.any_cons, hk e.1 hs]
      cases kp k <;> simp

/-! ### prefixes -/

theorem fam_beq (f g : Fam) : (f == g) = decide (f = g) := by
  cases f <;> cases g <;> decide

theorem samePfx_contains (q k : Prefix) (a : Addr) (h : samePfx q k = true) : q.contains a = k.contains a := by
  simp only [samePfx, Bool.and_eq_true, beq_iff_eq, fam_beq, decide_eq_true_eq] at h
  obtain ⟨⟨hf, hl⟩, ht⟩ := h
  rw [hf, hl] at ht
  simp only [Prefix.contains, fam_beq, hf, hl]
  by_cases hfa : k.addr.fam = a.fam
  · rw [hfa] at ht
    simp [ht]
  · simp [hfa]

theorem samePfx_covers (q k p : Prefix) (h : samePfx q k = true) : q.covers p = k.covers p := by
  have hl : q.len = k.len := by
    simp only [samePfx, Bool.and_eq_true, beq_iff_eq] at h
    exact h.1.2
  simp [Prefix.covers, samePfx_contains q k p.addr h, hl]

theorem covers_hostPrefix (q : Prefix) (a : Addr) : q.covers (hostPrefix a) = q.contains a := by
  simp only [Prefix.covers, hostPrefix, Prefix.contains]
  by_cases hle : q.len ≤ a.fam.bits <;> simp [hle]

theorem hostPrefix_contains (x a : Addr) : (hostPrefix x).contains a = decide (x = a) := by
  simp only [hostPrefix, Prefix.contains, fam_beq]
  by_cases hf : x.fam = a.fam
  · cases x with
    | mk xf xv =>
    cases a with
    | mk af av =>
    simp only at hf
    subst hf
    simp [topBits]
    rw [Bool.eq_iff_iff]; simp
  · have : x ≠ a := fun h => hf (by rw [h])
    simp [hf, this]

theorem anyContains_insert (t : Lite) (k : Prefix) (a : Addr) :
    anyContains (t.insert k) a = (anyContains t a || k.contains a) := by
  simp only [anyContains, Lite.insert]
  exact any_aset_key samePfx (fun q => q.contains a) t k () (fun k' h => samePfx_contains k' k a h)

theorem anyContains_foldl_insert (nets : List Prefix) (t : Lite) (a : Addr) :
    anyContains (nets.foldl Lite.insert t) a = (anyContains t a || nets.any (·.contains a)) := by
  induction nets generalizing t with
  | nil => simp
  | cons n nets ih => simp [List.foldl_cons, ih, anyContains_insert, Bool.or_assoc]

theorem supernets_any {α : Type} (tbl : List (Prefix × α)) (p : Prefix) (f : Prefix × α → Bool) :
    (supernets tbl p).any f = tbl.any (fun e => e.1.covers p && f e) := by
  unfold supernets
  have hperm := List.mergeSort_perm (tbl.filter (fun e => e.1.covers p)) (fun x y => x.1.len ≥ y.1.len)
  rw [Bool.eq_iff_iff]
  simp only [List.any_eq_true]
  constructor
  · rintro ⟨x, hx, hfx⟩
    have := (hperm.mem_iff).1 hx
    simp only [List.mem_filter] at this
    exact ⟨x, this.1, by simp [this.2, hfx]⟩
  · rintro ⟨x, hx, hfx⟩
    simp only [Bool.and_eq_true] at hfx
    exact ⟨x, (hperm.mem_iff).2 (by simp [List.mem_filter, hx, hfx.1]), hfx.2⟩

/-! ### firewallLocalCIDR -/

@[simp] theorem lc_none (p : Packet) : LocalCIDR.matches none p = false := rfl

@[simp] theorem lc_empty (p : Packet) : LocalCIDR.matches (some {}) p = false := by
  simp [LocalCIDR.matches, anyContains]

theorem lc_getD (x : Option LocalCIDR) (p : Packet) :
    LocalCIDR.matches (some (x.getD {})) p = LocalCIDR.matches x p := by
  cases x <;> simp

theorem lc_addRule (cfg : Cfg) (lc : LocalCIDR) (sel : CidrSel) (p : Packet) :
    LocalCIDR.matches (some (lc.addRule cfg sel)) p = (LocalCIDR.matches (some lc) p || localOK cfg sel p) := by
  cases sel with
  | any => simp [LocalCIDR.addRule, LocalCIDR.matches, localOK]
  | pfx c =>
    simp [LocalCIDR.addRule, LocalCIDR.matches, localOK, anyContains_insert, Bool.or_assoc]
  | none =>
    simp only [LocalCIDR.addRule, localOK]
    by_cases h : cfg.unsafeNetworks = []
    · simp [h, LocalCIDR.matches]
    · have hl : (cfg.unsafeNetworks.length == 0) = false := by
        cases hu : cfg.unsafeNetworks with
        | nil => exact absurd hu h
        | cons _ _ => simp
      cases hd : cfg.defaultLocalCIDRAny
      · simp [hl, h, hd, LocalCIDR.matches, anyContains_foldl_insert, Bool.or_assoc]
      · simp [hd, LocalCIDR.matches]

/-! ### FirewallRule -/

theorem isAny_iff (groups : List String) (host : String) (cidr : CidrSel) :
    isAny groups host cidr = true ↔
      ((groups = [] ∧ host = "" ∧ cidr = .none) ∨ "any" ∈ groups ∨ host = "any" ∨ cidr = .any) := by
  simp only [isAny, Bool.or_eq_true, Bool.and_eq_true, beq_iff_eq, decide_eq_true_eq, List.length_eq_zero_iff,
    List.contains_iff_mem, or_assoc, and_assoc]

theorem groupsFound_eq (cg : List String) (gs : List String) (b : Bool) :
    groupsFound cg gs b = if gs = [] then b else gs.all (cg.contains ·) := by
  induction gs generalizing b with
  | nil => simp [groupsFound]
  | cons g gs ih =>
    by_cases h : g ∈ cg
    · by_cases hg : gs = []
      · simp [groupsFound, h, ih, hg]
      · simp [groupsFound, h, ih, hg]
    · simp [groupsFound, h]

theorem groupsFound_spec (cg gs : List String) :
    groupsFound cg gs false = decide (gs ≠ [] ∧ ∀ g ∈ gs, g ∈ cg) := by
  rw [groupsFound_eq]
  by_cases h : gs = []
  · simp [h]
  · simp only [h, if_false, ne_eq, not_false_eq_true, true_and]
    rw [Bool.eq_iff_iff]
    simp [List.all_eq_true]

/-- `FirewallRule.match` as a plain disjunction. -/
theorem frule_matches (fr : FRule) (p : Packet) (c : Cert) :
    FRule.matches (some fr) p c =
      (LocalCIDR.matches fr.any p
        || fr.groups.any (fun sg => groupsFound c.groups sg.groups false && LocalCIDR.matches (some sg.lc) p)
        || LocalCIDR.matches (aget sameStr fr.hosts c.name) p
        || fr.cidr.any (fun e => e.1.contains p.remoteAddr && LocalCIDR.matches (some e.2) p)) := by
  simp only [FRule.matches, supernets_any, covers_hostPrefix]
  cases aget sameStr fr.hosts c.name <;> simp

@[simp] theorem frule_none (p : Packet) (c : Cert) : FRule.matches none p c = false := rfl

@[simp] theorem frule_empty (p : Packet) (c : Cert) : FRule.matches (some {}) p c = false := by
  simp [frule_matches, aget]

theorem frule_getD (x : Option FRule) (p : Packet) (c : Cert) :
    FRule.matches (some (x.getD {})) p c = FRule.matches x p c := by
  cases x <;> simp

end Nebula.Lemmas.Fw
