/-
Lemmas for C16: every builder of the nested rule structure adds exactly one disjunct to what its evaluator
computes. Level by level (firewallLocalCIDR → FirewallRule → FirewallCA → firewallPort → FirewallTable).
-/
import Nebula.Model.Conntrack
import Nebula.Spec.FwRules

namespace Nebula.Lemmas.Fw
open Nebula.Net Nebula.Fw Nebula.Spec.Fw

/-! ### association lists -/

theorem aget_aset_eq {κ α : Type} (same : κ → κ → Bool) (hsame : ∀ a b, same a b = true ↔ a = b)
    (m : List (κ × α)) (k k' : κ) (v : α) [DecidableEq κ] :
    aget same (aset same m k v) k' = if k = k' then some v else aget same m k' := by
  induction m with
  | nil =>
    by_cases h2 : k = k'
    · subst h2
      have := (hsame k k).2 rfl
      simp [aset, aget, this]
    · have : same k k' = false := by
        cases h : same k k'
        · rfl
        · exact absurd ((hsame _ _).1 h) h2
      simp [aset, aget, this, h2]
  | cons e m ih =>
    cases hs : same e.1 k
    · have hne : e.1 ≠ k := fun h => by have := (hsame e.1 k).2 h; simp [hs] at this
      cases hs' : same e.1 k'
      · simp [aset, aget, hs, hs', ih]
      · have he : e.1 = k' := (hsame _ _).1 hs'
        have : ¬ k = k' := fun h => hne (he.trans h.symm)
        simp [aset, aget, hs, hs', this]
    · have he : e.1 = k := (hsame _ _).1 hs
      by_cases h2 : k = k'
      · subst h2
        have hkk : same k k = true := (hsame _ _).2 rfl
        simp [aset, aget, hs, hkk]
      · have hkk : same k k' = false := by
          cases h : same k k'
          · rfl
          · exact absurd ((hsame _ _).1 h) h2
        have : same e.1 k' = false := by rw [he]; exact hkk
        simp [aset, aget, hs, hkk, h2, this]

theorem sameStr_iff (a b : String) : sameStr a b = true ↔ a = b := by simp [sameStr]

theorem aget_aset_str {α : Type} (m : List (String × α)) (k k' : String) (v : α) :
    aget sameStr (aset sameStr m k v) k' = if k = k' then some v else aget sameStr m k' :=
  aget_aset_eq sameStr sameStr_iff m k k' v

theorem mem_aset {κ α : Type} (same : κ → κ → Bool) (m : List (κ × α)) (k : κ) (v : α) (e : κ × α)
    (h : e ∈ aset same m k v) : e = (k, v) ∨ e ∈ m := by
  induction m with
  | nil => simp [aset] at h; exact Or.inl h
  | cons x m ih =>
    cases hs : same x.1 k
    · simp only [aset, hs, Bool.false_eq_true, if_false, List.mem_cons] at h
      rcases h with h | h
      · exact Or.inr (by simp [h])
      · rcases ih h with h | h
        · exact Or.inl h
        · exact Or.inr (List.mem_cons_of_mem _ h)
    · simp only [aset, hs, if_true, List.mem_cons] at h
      rcases h with h | h
      · exact Or.inl h
      · exact Or.inr (List.mem_cons_of_mem _ h)

/-- `any` over a table after "get-or-default, extend, put back": one more disjunct. -/
theorem any_aset_get {κ α : Type} (same : κ → κ → Bool) (kp : κ → Bool) (vp : α → Bool)
    (m : List (κ × α)) (k : κ) (v dflt : α) (x : Bool)
    (hk : ∀ k', same k' k = true → kp k' = kp k)
    (hv : vp v = (vp ((aget same m k).getD dflt) || x))
    (hd : vp dflt = false) :
    (aset same m k v).any (fun e => kp e.1 && vp e.2) = (m.any (fun e => kp e.1 && vp e.2) || (kp k && x)) := by
  induction m with
  | nil => simp [aset, aget, hd] at hv ⊢; simp [hv]
  | cons e m ih =>
    cases hs : same e.1 k
    · simp only [aget, hs, Bool.false_eq_true, if_false] at hv
      simp only [aset, hs, Bool.false_eq_true, if_false, List.any_cons, ih hv]
      simp [Bool.or_assoc]
    · simp only [aget, hs, if_true, Option.getD_some] at hv
      simp only [aset, hs, if_true, List.any_cons]
      rw [hv, hk e.1 hs]
      cases kp k <;> cases vp e.2 <;> cases x <;> simp

/-- `any` of a key predicate after an insert. -/
theorem any_aset_key {κ α : Type} (same : κ → κ → Bool) (kp : κ → Bool) (m : List (κ × α)) (k : κ) (v : α)
    (hk : ∀ k', same k' k = true → kp k' = kp k) :
    (aset same m k v).any (fun e => kp e.1) = (m.any (fun e => kp e.1) || kp k) := by
  induction m with
  | nil => simp [aset]
  | cons e m ih =>
    cases hs : same e.1 k
    · simp only [aset, hs, Bool.false_eq_true, if_false, List.any_cons, ih]
      simp [Bool.or_assoc]
    · simp only [aset, hs, if_true, List.any_cons, hk e.1 hs]
      cases kp k <;> simp

/-! ### prefixes -/

theorem fam_beq (f g : Fam) : (f == g) = decide (f = g) := by
  cases f <;> cases g <;> decide

theorem samePfx_contains (q k : Prefix) (a : Addr) (h : samePfx q k = true) : q.contains a = k.contains a := by
  simp only [samePfx, Bool.and_eq_true, beq_iff_eq, fam_beq, decide_eq_true_eq] at h
  obtain ⟨⟨hf, hl⟩, ht⟩ := h
  rw [hf, hl] at ht
  simp only [Prefix.contains, fam_beq, hf, hl]
  by_cases hfa : k.addr.fam = a.fam
  · rw [hfa] at ht
    simp [ht]
  · simp [hfa]

theorem samePfx_covers (q k p : Prefix) (h : samePfx q k = true) : q.covers p = k.covers p := by
  have hl : q.len = k.len := by
    simp only [samePfx, Bool.and_eq_true, beq_iff_eq] at h
    exact h.1.2
  simp [Prefix.covers, samePfx_contains q k p.addr h, hl]

theorem covers_hostPrefix (q : Prefix) (a : Addr) : q.covers (hostPrefix a) = q.contains a := by
  simp only [Prefix.covers, hostPrefix, Prefix.contains]
  by_cases hle : q.len ≤ a.fam.bits <;> simp [hle]

theorem hostPrefix_contains (x a : Addr) : (hostPrefix x).contains a = decide (x = a) := by
  simp only [hostPrefix, Prefix.contains, fam_beq]
  by_cases hf : x.fam = a.fam
  · cases x with
    | mk xf xv =>
    cases a with
    | mk af av =>
    simp only at hf
    subst hf
    simp [topBits]
    rw [Bool.eq_iff_iff]; simp
  · have : x ≠ a := fun h => hf (by rw [h])
    simp [hf, this]

theorem anyContains_insert (t : Lite) (k : Prefix) (a : Addr) :
    anyContains (t.insert k) a = (anyContains t a || k.contains a) := by
  simp only [anyContains, Lite.insert]
  exact any_aset_key samePfx (fun q => q.contains a) t k () (fun k' h => samePfx_contains k' k a h)

theorem anyContains_foldl_insert (nets : List Prefix) (t : Lite) (a : Addr) :
    anyContains (nets.foldl Lite.insert t) a = (anyContains t a || nets.any (·.contains a)) := by
  induction nets generalizing t with
  | nil => simp
  | cons n nets ih => simp [List.foldl_cons, ih, anyContains_insert, Bool.or_assoc]

theorem supernets_any {α : Type} (tbl : List (Prefix × α)) (p : Prefix) (f : Prefix × α → Bool) :
    (supernets tbl p).any f = tbl.any (fun e => e.1.covers p && f e) := by
  unfold supernets
  have hperm := List.mergeSort_perm (tbl.filter (fun e => e.1.covers p)) (fun x y => x.1.len ≥ y.1.len)
  rw [Bool.eq_iff_iff]
  simp only [List.any_eq_true]
  constructor
  · rintro ⟨x, hx, hfx⟩
    have := (hperm.mem_iff).1 hx
    simp only [List.mem_filter] at this
    exact ⟨x, this.1, by simp [this.2, hfx]⟩
  · rintro ⟨x, hx, hfx⟩
    simp only [Bool.and_eq_true] at hfx
    exact ⟨x, (hperm.mem_iff).2 (by simp [List.mem_filter, hx, hfx.1]), hfx.2⟩

/-! ### firewallLocalCIDR -/

@[simp] theorem lc_none (p : Packet) : LocalCIDR.matches none p = false := rfl

@[simp] theorem lc_empty (p : Packet) : LocalCIDR.matches (some {}) p = false := by
  simp [LocalCIDR.matches, anyContains]

theorem lc_getD (x : Option LocalCIDR) (p : Packet) :
    LocalCIDR.matches (some (x.getD {})) p = LocalCIDR.matches x p := by
  cases x <;> simp

theorem lc_addRule (cfg : Cfg) (lc : LocalCIDR) (sel : CidrSel) (p : Packet) :
    LocalCIDR.matches (some (lc.addRule cfg sel)) p = (LocalCIDR.matches (some lc) p || localOK cfg sel p) := by
  cases sel with
  | any => simp [LocalCIDR.addRule, LocalCIDR.matches, localOK]
  | pfx c =>
    simp [LocalCIDR.addRule, LocalCIDR.matches, localOK, anyContains_insert, Bool.or_assoc]
  | none =>
    simp only [LocalCIDR.addRule, localOK]
    by_cases h : cfg.unsafeNetworks = []
    · simp [h, LocalCIDR.matches]
    · have hl : (cfg.unsafeNetworks.length == 0) = false := by
        cases hu : cfg.unsafeNetworks with
        | nil => exact absurd hu h
        | cons _ _ => simp
      cases hd : cfg.defaultLocalCIDRAny
      · simp [hl, h, hd, LocalCIDR.matches, anyContains_foldl_insert, Bool.or_assoc]
      · simp [hd, LocalCIDR.matches]

/-! ### FirewallRule -/

theorem isAny_iff (groups : List String) (host : String) (cidr : CidrSel) :
    isAny groups host cidr = true ↔
      ((groups = [] ∧ host = "" ∧ cidr = .none) ∨ "any" ∈ groups ∨ host = "any" ∨ cidr = .any) := by
  simp only [isAny, Bool.or_eq_true, Bool.and_eq_true, beq_iff_eq, decide_eq_true_eq, List.length_eq_zero_iff,
    List.contains_iff_mem, or_assoc, and_assoc]

theorem groupsFound_eq (cg : List String) (gs : List String) (b : Bool) :
    groupsFound cg gs b = if gs = [] then b else gs.all (cg.contains ·) := by
  induction gs generalizing b with
  | nil => simp [groupsFound]
  | cons g gs ih =>
    by_cases h : g ∈ cg
    · by_cases hg : gs = []
      · simp [groupsFound, h, ih, hg]
      · simp [groupsFound, h, ih, hg]
    · simp [groupsFound, h]

theorem groupsFound_spec (cg gs : List String) :
    groupsFound cg gs false = decide (gs ≠ [] ∧ ∀ g ∈ gs, g ∈ cg) := by
  rw [groupsFound_eq]
  by_cases h : gs = []
  · simp [h]
  · simp only [h, if_false, ne_eq, not_false_eq_true, true_and]
    rw [Bool.eq_iff_iff]
    simp [List.all_eq_true]

/-- `FirewallRule.match` as a plain disjunction. -/
theorem frule_matches (fr : FRule) (p : Packet) (c : Cert) :
    FRule.matches (some fr) p c =
      (LocalCIDR.matches fr.any p
        || fr.groups.any (fun sg => groupsFound c.groups sg.groups false && LocalCIDR.matches (some sg.lc) p)
        || LocalCIDR.matches (aget sameStr fr.hosts c.name) p
        || fr.cidr.any (fun e => e.1.contains p.remoteAddr && LocalCIDR.matches (some e.2) p)) := by
  simp only [FRule.matches, supernets_any, covers_hostPrefix]
  cases aget sameStr fr.hosts c.name <;> simp

@[simp] theorem frule_none (p : Packet) (c : Cert) : FRule.matches none p c = false := rfl

@[simp] theorem frule_empty (p : Packet) (c : Cert) : FRule.matches (some {}) p c = false := by
  simp [frule_matches, aget]

theorem frule_getD (x : Option FRule) (p : Packet) (c : Cert) :
    FRule.matches (some (x.getD {})) p c = FRule.matches x p c := by
  cases x <;> simp

theorem frule_addGroups (cfg : Cfg) (fr : FRule) (groups : List String) (localCidr : CidrSel) (p : Packet) (c : Cert) :
    FRule.matches (some (fr.addGroups cfg groups localCidr)) p c
      = (FRule.matches (some fr) p c
          || (decide (groups ≠ [] ∧ ∀ g ∈ groups, g ∈ c.groups) && localOK cfg localCidr p)) := by
  unfold FRule.addGroups
  by_cases hg : groups = []
  · simp [hg]
  · have : groups.length > 0 := List.length_pos_iff.2 hg
    simp only [this, if_true, frule_matches, List.any_append, List.any_cons, List.any_nil, Bool.or_false,
      groupsFound_spec, lc_addRule, lc_empty, Bool.false_or]
    generalize LocalCIDR.matches fr.any p = a
    generalize List.any fr.groups _ = b
    generalize LocalCIDR.matches (aget sameStr fr.hosts c.name) p = d
    generalize List.any fr.cidr _ = e
    generalize decide (groups ≠ [] ∧ ∀ g ∈ groups, g ∈ c.groups) = g
    generalize localOK cfg localCidr p = l
    cases a <;> cases b <;> cases d <;> cases e <;> cases g <;> cases l <;> rfl

theorem frule_addHost (cfg : Cfg) (fr : FRule) (host : String) (localCidr : CidrSel) (p : Packet) (c : Cert) :
    FRule.matches (some (fr.addHost cfg host localCidr)) p c
      = (FRule.matches (some fr) p c
          || (decide (host ≠ "" ∧ host = c.name) && localOK cfg localCidr p)) := by
  unfold FRule.addHost
  by_cases hh : host = ""
  · simp [hh]
  · simp only [ne_eq, hh, not_false_eq_true, if_true, true_and, frule_matches, aget_aset_str]
    by_cases hn : host = c.name
    · simp only [hn, if_true, lc_addRule, lc_getD, decide_true, Bool.true_and]
      generalize LocalCIDR.matches fr.any p = a
      generalize List.any fr.groups _ = b
      generalize LocalCIDR.matches (aget sameStr fr.hosts c.name) p = d
      generalize List.any fr.cidr _ = e
      generalize localOK cfg localCidr p = l
      cases a <;> cases b <;> cases d <;> cases e <;> cases l <;> rfl
    · simp [hn]

theorem frule_addCidr (cfg : Cfg) (fr : FRule) (cidr localCidr : CidrSel) (p : Packet) (c : Cert) :
    FRule.matches (some (fr.addCidr cfg cidr localCidr)) p c
      = (FRule.matches (some fr) p c || (remoteCidrOK cidr p && localOK cfg localCidr p)) := by
  unfold FRule.addCidr
  cases cidr with
  | none => simp [remoteCidrOK]
  | any => simp [remoteCidrOK]
  | pfx q =>
    simp only [frule_matches, remoteCidrOK]
    rw [any_aset_get samePfx (fun k => k.contains p.remoteAddr) (fun lc => LocalCIDR.matches (some lc) p)
      fr.cidr q _ {} (localOK cfg localCidr p)
      (fun k' h => samePfx_contains k' q p.remoteAddr h)
      (by rw [lc_addRule]) (lc_empty p)]
    generalize LocalCIDR.matches fr.any p = a
    generalize List.any fr.groups _ = b
    generalize LocalCIDR.matches (aget sameStr fr.hosts c.name) p = d
    generalize List.any fr.cidr _ = e
    generalize localOK cfg localCidr p = l
    generalize q.contains p.remoteAddr = g
    cases a <;> cases b <;> cases d <;> cases e <;> cases g <;> cases l <;> rfl

/-- what one rule's selectors + local cidr contribute. -/
def inner (cfg : Cfg) (groups : List String) (host : String) (cidr localCidr : CidrSel) (p : Packet) (c : Cert) : Bool :=
  selectorOK groups host cidr p c && localOK cfg localCidr p

theorem frule_addRule (cfg : Cfg) (fr : FRule) (groups : List String) (host : String) (cidr localCidr : CidrSel)
    (p : Packet) (c : Cert) :
    FRule.matches (some (fr.addRule cfg groups host cidr localCidr)) p c
      = (FRule.matches (some fr) p c || inner cfg groups host cidr localCidr p c) := by
  unfold FRule.addRule inner
  by_cases hany : isAny groups host cidr = true
  · have hsel : selectorOK groups host cidr p c = true := by
      have := (isAny_iff groups host cidr).1 hany
      simp only [selectorOK, decide_eq_true_eq]
      rcases this with h | h | h | h
      · exact Or.inl h
      · exact Or.inr (Or.inl h)
      · exact Or.inr (Or.inr (Or.inl h))
      · exact Or.inr (Or.inr (Or.inr (Or.inl h)))
    simp only [hany, if_true, hsel, Bool.true_and]
    simp only [frule_matches, lc_addRule, lc_getD]
    generalize LocalCIDR.matches fr.any p = a
    generalize localOK cfg localCidr p = l
    cases a <;> cases l <;> simp
  · have hnot := fun h => hany ((isAny_iff groups host cidr).2 h)
    have hsel : selectorOK groups host cidr p c =
        (decide (groups ≠ [] ∧ ∀ g ∈ groups, g ∈ c.groups) || decide (host ≠ "" ∧ host = c.name)
          || remoteCidrOK cidr p) := by
      simp only [selectorOK]
      rw [Bool.eq_iff_iff]
      simp only [decide_eq_true_eq, Bool.or_eq_true]
      constructor
      · rintro (h | h | h | h | h | h | h)
        · exact absurd (Or.inl h) hnot
        · exact absurd (Or.inr (Or.inl h)) hnot
        · exact absurd (Or.inr (Or.inr (Or.inl h))) hnot
        · exact absurd (Or.inr (Or.inr (Or.inr h))) hnot
        · exact Or.inl (Or.inl h)
        · exact Or.inl (Or.inr h)
        · exact Or.inr h
      · rintro ((h | h) | h)
        · exact Or.inr (Or.inr (Or.inr (Or.inr (Or.inl h))))
        · exact Or.inr (Or.inr (Or.inr (Or.inr (Or.inr (Or.inl h)))))
        · exact Or.inr (Or.inr (Or.inr (Or.inr (Or.inr (Or.inr h)))))
    simp only [hany, Bool.false_eq_true, if_false, hsel, frule_addCidr, frule_addHost, frule_addGroups]
    generalize FRule.matches (some fr) p c = a
    generalize decide (groups ≠ [] ∧ ∀ g ∈ groups, g ∈ c.groups) = g
    generalize decide (host ≠ "" ∧ host = c.name) = h
    generalize remoteCidrOK cidr p = r
    generalize localOK cfg localCidr p = l
    cases a <;> cases g <;> cases h <;> cases r <;> cases l <;> rfl

/-! ### FirewallCA -/

theorem fca_matches (fc : FCA) (p : Packet) (pr : Peer) :
    FCA.matches (some fc) p pr =
      (FRule.matches fc.any p pr.cert
        || FRule.matches (aget sameStr fc.caShas pr.cert.issuer) p pr.cert
        || fc.nameMatches p pr) := by
  simp only [FCA.matches]
  cases h1 : FRule.matches fc.any p pr.cert
  · cases h2 : aget sameStr fc.caShas pr.cert.issuer with
    | none => simp
    | some t => cases h3 : FRule.matches (some t) p pr.cert <;> simp [h3]
  · simp

@[simp] theorem fca_none (p : Packet) (pr : Peer) : FCA.matches none p pr = false := rfl

@[simp] theorem fca_empty (p : Packet) (pr : Peer) : FCA.matches (some {}) p pr = false := by
  simp [fca_matches, aget, FCA.nameMatches]
  cases caNameFor pr.pool pr.cert.issuer <;> simp

theorem fca_getD (x : Option FCA) (p : Packet) (pr : Peer) :
    FCA.matches (some (x.getD {})) p pr = FCA.matches x p pr := by
  cases x <;> simp

theorem fca_addSha (cfg : Cfg) (fc : FCA) (groups : List String) (host : String) (cidr localCidr : CidrSel)
    (caSha : String) (p : Packet) (pr : Peer) :
    FCA.matches (some (fc.addSha cfg groups host cidr localCidr caSha)) p pr
      = (FCA.matches (some fc) p pr
          || (decide (caSha ≠ "" ∧ caSha = pr.cert.issuer) && inner cfg groups host cidr localCidr p pr.cert)) := by
  unfold FCA.addSha
  by_cases hs : caSha = ""
  · simp [hs]
  · simp only [ne_eq, hs, not_false_eq_true, if_true, true_and, fca_matches, FCA.nameMatches, aget_aset_str]
    by_cases hi : caSha = pr.cert.issuer
    · simp only [hi, if_true, frule_addRule, frule_getD, decide_true, Bool.true_and]
      generalize FRule.matches fc.any p pr.cert = a
      generalize FRule.matches (aget sameStr fc.caShas pr.cert.issuer) p pr.cert = b
      generalize inner cfg groups host cidr localCidr p pr.cert = i
      cases a <;> cases b <;> cases i <;> simp
    · simp [hi]

theorem fca_addName (cfg : Cfg) (fc : FCA) (groups : List String) (host : String) (cidr localCidr : CidrSel)
    (caName : String) (p : Packet) (pr : Peer) :
    FCA.matches (some (fc.addName cfg groups host cidr localCidr caName)) p pr
      = (FCA.matches (some fc) p pr
          || (decide (caName ≠ "" ∧ caNameFor pr.pool pr.cert.issuer = some caName)
              && inner cfg groups host cidr localCidr p pr.cert)) := by
  unfold FCA.addName
  by_cases hn : caName = ""
  · simp [hn]
  · simp only [ne_eq, hn, not_false_eq_true, if_true, true_and, fca_matches, FCA.nameMatches]
    cases hc : caNameFor pr.pool pr.cert.issuer with
    | none => simp
    | some n =>
      simp only [aget_aset_str]
      by_cases hnn : caName = n
      · subst hnn
        simp only [if_true, frule_addRule, frule_getD, decide_true, Bool.true_and]
        generalize FRule.matches fc.any p pr.cert = a
        generalize FRule.matches (aget sameStr fc.caShas pr.cert.issuer) p pr.cert = b
        generalize FRule.matches (aget sameStr fc.caNames caName) p pr.cert = d
        generalize inner cfg groups host cidr localCidr p pr.cert = i
        cases a <;> cases b <;> cases d <;> cases i <;> rfl
      · have : ¬ n = caName := fun h => hnn h.symm
        simp [hnn, this]

def caOK' (caName caSha : String) (pr : Peer) : Bool :=
  (caSha = "" ∧ caName = "")
    ∨ (caSha ≠ "" ∧ caSha = pr.cert.issuer)
    ∨ (caName ≠ "" ∧ caNameFor pr.pool pr.cert.issuer = some caName)

theorem fca_addRule (cfg : Cfg) (fc : FCA) (groups : List String) (host : String) (cidr localCidr : CidrSel)
    (caName caSha : String) (p : Packet) (pr : Peer) :
    FCA.matches (some (fc.addRule cfg groups host cidr localCidr caName caSha)) p pr
      = (FCA.matches (some fc) p pr || (caOK' caName caSha pr && inner cfg groups host cidr localCidr p pr.cert)) := by
  unfold FCA.addRule caOK'
  by_cases hboth : caSha = "" ∧ caName = ""
  · simp only [hboth, and_self, if_true, fca_matches, frule_addRule, frule_getD, FCA.nameMatches]
    simp
    generalize FRule.matches fc.any p pr.cert = a
    generalize inner cfg groups host cidr localCidr p pr.cert = i
    cases a <;> cases i <;> simp
  · simp only [hboth, if_false, fca_addName, fca_addSha]
    simp only [false_or, Bool.decide_or]
    generalize FCA.matches (some fc) p pr = a
    generalize decide (caSha ≠ "" ∧ caSha = pr.cert.issuer) = b
    generalize decide (caName ≠ "" ∧ caNameFor pr.pool pr.cert.issuer = some caName) = d
    generalize inner cfg groups host cidr localCidr p pr.cert = i
    cases a <;> cases b <;> cases d <;> cases i <;> rfl

/-! ### firewallPort -/

def portOK' (s e : Int) (p : Packet) (incoming : Bool) : Bool :=
  if Spec.Fw.isICMP p.proto then decide (s ≤ 0 ∧ 0 ≤ e)
  else decide (s ≤ pktPort p incoming ∧ pktPort p incoming ≤ e) || decide (s ≤ 0 ∧ 0 ≤ e)

theorem isICMP_eq (n : Nat) : Nebula.Fw.isICMP n = Spec.Fw.isICMP n := by
  simp only [Nebula.Fw.isICMP, Spec.Fw.isICMP, Gen.firewall_ProtoICMP, Gen.firewall_ProtoICMPv6, Bool.decide_or]
  by_cases h1 : n = 1 <;> by_cases h2 : n = 58 <;> simp [h1, h2]

theorem fport_addRule (cfg : Cfg) (fp : FPort) (s e : Int) (groups : List String) (host : String)
    (cidr localCidr : CidrSel) (caName caSha : String) (p : Packet) (incoming : Bool) (pr : Peer) :
    (fp.addRule cfg s e groups host cidr localCidr caName caSha).matches p incoming pr
      = (fp.matches p incoming pr
          || (portOK' s e p incoming && (caOK' caName caSha pr && inner cfg groups host cidr localCidr p pr.cert))) := by
  have hM : ∀ i : Int, FCA.matches ((fp.addRule cfg s e groups host cidr localCidr caName caSha) i) p pr
      = (FCA.matches (fp i) p pr
          || (decide (s ≤ i ∧ i ≤ e) && (caOK' caName caSha pr && inner cfg groups host cidr localCidr p pr.cert))) := by
    intro i
    unfold FPort.addRule
    by_cases hi : s ≤ i ∧ i ≤ e
    · simp only [hi, and_self, if_true, fca_addRule, fca_getD, decide_true, Bool.true_and]
    · simp [hi]
  have hport : (if p.fragment = true then (Gen.firewall_PortFragment : Int)
      else if incoming = true then (p.localPort : Int) else (p.remotePort : Int)) = pktPort p incoming := by
    simp [pktPort, Gen.firewall_PortFragment]
  simp only [FPort.matches, hM, isICMP_eq, portOK', hport]
  have h0 : ((Gen.firewall_PortAny : Nat) : Int) = 0 := by simp [Gen.firewall_PortAny]
  rw [h0]
  generalize hx : (caOK' caName caSha pr && inner cfg groups host cidr localCidr p pr.cert) = x
  generalize FCA.matches (fp (pktPort p incoming)) p pr = a
  generalize FCA.matches (fp 0) p pr = b
  generalize decide (s ≤ pktPort p incoming ∧ pktPort p incoming ≤ e) = c
  generalize decide (s ≤ 0 ∧ 0 ≤ e) = d
  cases Spec.Fw.isICMP p.proto <;> cases a <;> cases b <;> cases c <;> cases d <;> cases x <;> rfl


/-! ### FirewallTable -/

/-- a rule's contribution apart from validity and direction. -/
def ruleBody (cfg : Cfg) (r : Rule) (p : Packet) (incoming : Bool) (pr : Peer) : Bool :=
  protoOK r p && portOK r p incoming && caOK r pr && localOK cfg r.localCidr p
    && selectorOK r.groups r.host r.cidr p pr.cert

theorem table_matches (t : Table) (p : Packet) (incoming : Bool) (pr : Peer) :
    t.matches p incoming pr =
      (t.anyProto.matches p incoming pr
        || (decide (p.proto = 6) && t.tcp.matches p incoming pr)
        || (decide (p.proto = 17) && t.udp.matches p incoming pr)
        || (Spec.Fw.isICMP p.proto && t.icmp.matches p incoming pr)) := by
  simp only [Table.matches, isICMP_eq, Gen.firewall_ProtoTCP, Gen.firewall_ProtoUDP, beq_iff_eq]
  by_cases h6 : p.proto = 6
  · simp [h6, Spec.Fw.isICMP]
  · by_cases h17 : p.proto = 17
    · simp [h17, Spec.Fw.isICMP]
    · cases hi : Spec.Fw.isICMP p.proto <;> simp [h6, h17]

theorem caOK_eq (r : Rule) (pr : Peer) : caOK' r.caName r.caSha pr = caOK r pr := rfl

theorem ruleBody_eq (cfg : Cfg) (r : Rule) (p : Packet) (incoming : Bool) (pr : Peer) :
    ruleBody cfg r p incoming pr
      = (protoOK r p && portOK r p incoming
          && (caOK' r.caName r.caSha pr && inner cfg r.groups r.host r.cidr r.localCidr p pr.cert)) := by
  simp only [ruleBody, inner, caOK_eq]
  generalize protoOK r p = a
  generalize portOK r p incoming = b
  generalize caOK r pr = c
  generalize localOK cfg r.localCidr p = d
  generalize selectorOK r.groups r.host r.cidr p pr.cert = e
  cases a <;> cases b <;> cases c <;> cases d <;> cases e <;> rfl

theorem portOK_nonicmp (r : Rule) (p : Packet) (incoming : Bool) (h : Spec.Fw.isICMP r.proto = false) :
    portOK r p incoming = portOK' r.startPort r.endPort p incoming := by
  simp only [portOK, h, Bool.false_eq_true, if_false, portOK', inRange]
  cases Spec.Fw.isICMP p.proto <;> simp

theorem ruleValid_port (r : Rule) (h : r.proto = 0 ∨ r.proto = 6 ∨ r.proto = 17) :
    ruleValid r = decide (r.startPort ≤ r.endPort) := by
  rcases h with h | h | h <;> simp [ruleValid, h, Spec.Fw.isICMP]

/-- the three port-carrying protocols share one argument: which table is touched and which packets look there. -/
theorem table_addRule_port (cfg : Cfg) (t t' : Table) (r : Rule) (p : Packet) (incoming : Bool) (pr : Peer)
    (hr : r.proto = 0 ∨ r.proto = 6 ∨ r.proto = 17) (hle : r.startPort ≤ r.endPort)
    (sel : Bool)
    (hproto : protoOK r p = sel)
    (ht : t'.matches p incoming pr =
      (t.matches p incoming pr || (sel && (portOK' r.startPort r.endPort p incoming
        && (caOK' r.caName r.caSha pr && inner cfg r.groups r.host r.cidr r.localCidr p pr.cert))))) :
    t'.matches p incoming pr = (t.matches p incoming pr || (ruleValid r && ruleBody cfg r p incoming pr)) := by
  have hi : Spec.Fw.isICMP r.proto = false := by
    rcases hr with h | h | h <;> simp [Spec.Fw.isICMP, h]
  have hv : ruleValid r = true := by simp [ruleValid_port r hr, hle]
  rw [ht, hv, ruleBody_eq, portOK_nonicmp r p incoming hi, hproto]
  generalize t.matches p incoming pr = a
  generalize portOK' r.startPort r.endPort p incoming = h
  generalize (caOK' r.caName r.caSha pr && inner cfg r.groups r.host r.cidr r.localCidr p pr.cert) = x
  cases a <;> cases sel <;> cases h <;> cases x <;> rfl

theorem table_addRule (cfg : Cfg) (t : Table) (r : Rule) (p : Packet) (incoming : Bool) (pr : Peer) :
    (match t.addRule cfg r with
      | .ok t' => t'.matches p incoming pr
      | .error _ => t.matches p incoming pr)
      = (t.matches p incoming pr || (ruleValid r && ruleBody cfg r p incoming pr)) := by
  unfold Table.addRule
  simp only [Gen.firewall_ProtoTCP, Gen.firewall_ProtoUDP, Gen.firewall_ProtoAny, Gen.firewall_PortAny,
    isICMP_eq, beq_iff_eq]
  by_cases h6 : r.proto = 6
  · simp only [h6, if_true]
    by_cases hp : r.startPort > r.endPort
    · have hv : ruleValid r = false := by
        rw [ruleValid_port r (Or.inr (Or.inl h6))]; simp; omega
      simp [hp, hv]
    · simp only [hp, if_false]
      apply table_addRule_port cfg t _ r p incoming pr (Or.inr (Or.inl h6)) (by omega) (decide (p.proto = 6))
      · simp [protoOK, h6, Spec.Fw.isICMP]
      · simp only [table_matches, fport_addRule]
        generalize t.anyProto.matches p incoming pr = a
        generalize t.tcp.matches p incoming pr = b
        generalize t.udp.matches p incoming pr = c
        generalize t.icmp.matches p incoming pr = d
        generalize decide (p.proto = 6) = e
        generalize decide (p.proto = 17) = f
        generalize Spec.Fw.isICMP p.proto = g
        generalize (portOK' r.startPort r.endPort p incoming
          && (caOK' r.caName r.caSha pr && inner cfg r.groups r.host r.cidr r.localCidr p pr.cert)) = x
        cases a <;> cases b <;> cases c <;> cases d <;> cases e <;> cases f <;> cases g <;> cases x <;> rfl
  · simp only [h6, if_false]
    by_cases h17 : r.proto = 17
    · simp only [h17, if_true]
      by_cases hp : r.startPort > r.endPort
      · have hv : ruleValid r = false := by
          rw [ruleValid_port r (Or.inr (Or.inr h17))]; simp; omega
        simp [hp, hv]
      · simp only [hp, if_false]
        apply table_addRule_port cfg t _ r p incoming pr (Or.inr (Or.inr h17)) (by omega) (decide (p.proto = 17))
        · simp [protoOK, h17, Spec.Fw.isICMP]
        · simp only [table_matches, fport_addRule]
          generalize t.anyProto.matches p incoming pr = a
          generalize t.tcp.matches p incoming pr = b
          generalize t.udp.matches p incoming pr = c
          generalize t.icmp.matches p incoming pr = d
          generalize decide (p.proto = 6) = e
          generalize decide (p.proto = 17) = f
          generalize Spec.Fw.isICMP p.proto = g
          generalize (portOK' r.startPort r.endPort p incoming
            && (caOK' r.caName r.caSha pr && inner cfg r.groups r.host r.cidr r.localCidr p pr.cert)) = x
          cases a <;> cases b <;> cases c <;> cases d <;> cases e <;> cases f <;> cases g <;> cases x <;> rfl
    · simp only [h17, if_false]
      cases hi : Spec.Fw.isICMP r.proto
      · simp only [Bool.false_eq_true, if_false]
        by_cases h0 : r.proto = 0
        · simp only [h0, if_true]
          by_cases hp : r.startPort > r.endPort
          · have hv : ruleValid r = false := by
              rw [ruleValid_port r (Or.inl h0)]; simp; omega
            simp [hp, hv]
          · simp only [hp, if_false]
            apply table_addRule_port cfg t _ r p incoming pr (Or.inl h0) (by omega) true
            · simp [protoOK, h0]
            · simp only [table_matches, fport_addRule]
              generalize t.anyProto.matches p incoming pr = a
              generalize t.tcp.matches p incoming pr = b
              generalize t.udp.matches p incoming pr = c
              generalize t.icmp.matches p incoming pr = d
              generalize decide (p.proto = 6) = e
              generalize decide (p.proto = 17) = f
              generalize Spec.Fw.isICMP p.proto = g
              generalize (portOK' r.startPort r.endPort p incoming
                && (caOK' r.caName r.caSha pr && inner cfg r.groups r.host r.cidr r.localCidr p pr.cert)) = x
              cases a <;> cases b <;> cases c <;> cases d <;> cases e <;> cases f <;> cases g <;> cases x <;> rfl
        · have hv : ruleValid r = false := by
            simp only [Spec.Fw.isICMP, decide_eq_false_iff_not, Bool.decide_or, Bool.or_eq_false_iff] at hi
            simp [ruleValid, h6, h17, h0, hi.1, hi.2]
          simp [h0, hv]
      · have hv : ruleValid r = true := by
          simp only [ruleValid, hi]
          simp only [Spec.Fw.isICMP, Bool.decide_or, Bool.or_eq_true, decide_eq_true_eq] at hi
          rcases hi with h | h <;> simp [h]
        have hproto : protoOK r p = Spec.Fw.isICMP p.proto := by
          simp only [protoOK, hi]
          simp [h6, h17]
          intro h0
          simp [Spec.Fw.isICMP, h0] at hi
        have hport : portOK r p incoming = true := by simp [portOK, hi]
        simp only [if_true, hv, Bool.true_and, ruleBody_eq, hproto, hport, table_matches, fport_addRule]
        cases hg : Spec.Fw.isICMP p.proto
        · simp
        · have : portOK' (0 : Nat) (0 : Nat) p incoming = true := by simp [portOK', hg]
          simp only [this, Bool.true_and]
          generalize t.anyProto.matches p incoming pr = a
          generalize t.tcp.matches p incoming pr = b
          generalize t.udp.matches p incoming pr = c
          generalize t.icmp.matches p incoming pr = d
          generalize decide (p.proto = 6) = e
          generalize decide (p.proto = 17) = f
          generalize (caOK' r.caName r.caSha pr && inner cfg r.groups r.host r.cidr r.localCidr p pr.cert) = x
          cases a <;> cases b <;> cases c <;> cases d <;> cases e <;> cases f <;> cases x <;> rfl


theorem table_refused_iff (cfg : Cfg) (t : Table) (r : Rule) :
    (∃ e, t.addRule cfg r = .error e) ↔ ruleValid r = false := by
  unfold Table.addRule ruleValid
  simp only [Gen.firewall_ProtoTCP, Gen.firewall_ProtoUDP, Gen.firewall_ProtoAny, isICMP_eq, beq_iff_eq]
  by_cases h6 : r.proto = 6
  · by_cases hp : r.startPort > r.endPort <;> simp [h6, hp, Spec.Fw.isICMP] <;> omega
  · by_cases h17 : r.proto = 17
    · by_cases hp : r.startPort > r.endPort <;> simp [h17, hp, Spec.Fw.isICMP] <;> omega
    · by_cases h1 : r.proto = 1
      · simp [h1, Spec.Fw.isICMP]
      · by_cases h58 : r.proto = 58
        · simp [h58, Spec.Fw.isICMP]
        · by_cases h0 : r.proto = 0
          · by_cases hp : r.startPort > r.endPort <;> simp [h0, hp, Spec.Fw.isICMP] <;> omega
          · simp [h6, h17, h1, h58, h0, Spec.Fw.isICMP]

/-! ### Firewall.AddRule over a rule list -/

theorem ruleMatches_eq (cfg : Cfg) (r : Rule) (p : Packet) (incoming : Bool) (pr : Peer) :
    ruleMatches cfg r p incoming pr
      = (decide (r.incoming = incoming) && (ruleValid r && ruleBody cfg r p incoming pr)) := by
  simp only [ruleMatches, ruleBody]
  generalize ruleValid r = a
  generalize decide (r.incoming = incoming) = b
  generalize protoOK r p = c
  generalize portOK r p incoming = d
  generalize caOK r pr = e
  generalize localOK cfg r.localCidr p = f
  generalize selectorOK r.groups r.host r.cidr p pr.cert = g
  cases a <;> cases b <;> cases c <;> cases d <;> cases e <;> cases f <;> cases g <;> rfl

/-- one `AddRule` (refused ⇒ unchanged). -/
def stepFw (fw : Fw) (r : Rule) : Fw :=
  match fw.addRule r with
  | .ok fw' => fw'
  | .error _ => fw

theorem stepFw_cfg (fw : Fw) (r : Rule) : (stepFw fw r).cfg = fw.cfg := by
  unfold stepFw Fw.addRule
  cases r.incoming
  · simp only [Bool.false_eq_true, if_false]
    cases fw.outRules.addRule fw.cfg r <;> rfl
  · simp only [if_true]
    cases fw.inRules.addRule fw.cfg r <;> rfl

theorem stepFw_table (fw : Fw) (r : Rule) (p : Packet) (incoming : Bool) (pr : Peer) :
    ((stepFw fw r).table incoming).matches p incoming pr
      = ((fw.table incoming).matches p incoming pr || ruleMatches fw.cfg r p incoming pr) := by
  rw [ruleMatches_eq]
  unfold stepFw Fw.addRule
  cases hri : r.incoming <;> cases incoming
  · have := table_addRule fw.cfg fw.outRules r p false pr
    simp only [Bool.false_eq_true, if_false, Fw.table, decide_true, Bool.true_and]
    cases h : fw.outRules.addRule fw.cfg r <;> simp only [h] at this ⊢ <;> exact this
  · simp only [Bool.false_eq_true, if_false, Fw.table, if_true]
    cases h : fw.outRules.addRule fw.cfg r <;> simp
  · simp only [Bool.false_eq_true, if_false, Fw.table, if_true]
    cases h : fw.inRules.addRule fw.cfg r <;> simp
  · have := table_addRule fw.cfg fw.inRules r p true pr
    simp only [if_true, Fw.table, decide_true, Bool.true_and]
    cases h : fw.inRules.addRule fw.cfg r <;> simp only [h] at this ⊢ <;> exact this

theorem addRules_eq_foldl (fw : Fw) (rules : List Rule) : fw.addRules rules = rules.foldl stepFw fw := rfl

theorem addRules_cfg (fw : Fw) (rules : List Rule) : (fw.addRules rules).cfg = fw.cfg := by
  rw [addRules_eq_foldl]
  induction rules generalizing fw with
  | nil => rfl
  | cons r rs ih => simp [List.foldl_cons, ih, stepFw_cfg]

theorem addRules_table (fw : Fw) (rules : List Rule) (p : Packet) (incoming : Bool) (pr : Peer) :
    ((fw.addRules rules).table incoming).matches p incoming pr
      = ((fw.table incoming).matches p incoming pr || allow fw.cfg rules p incoming pr) := by
  rw [addRules_eq_foldl]
  induction rules generalizing fw with
  | nil => simp [allow]
  | cons r rs ih =>
    simp only [List.foldl_cons, ih, stepFw_table, stepFw_cfg, allow, List.any_cons, Bool.or_assoc]


end Nebula.Lemmas.Fw
