import Nebula.Lemmas.WritebatchCtl
namespace Nebula.Lemmas.Writebatch
open Nebula.Writebatch List
variable {δ : Type} [DecidableEq δ]

/-- the call on which `WriteBatch` disables GSO: nothing sent, EIO, and the first remaining entry is an
offloaded run -/
def IsDisable (c : Call) : Prop :=
  c.out.sent ≤ 0 ∧ c.out.err = .eio ∧ ∃ e, c.ents.head? = some e ∧ 2 ≤ e.cnt

theorem drain_disable (kern : Nat → Nat → Outcome) (chunk : List Entry) (ctl : Ctl) (done k : Nat) :
    ∀ a c b, (drain kern true chunk ctl done k).calls = a ++ c :: b → IsDisable c →
      b = [] ∧ ∃ i, (drain kern true chunk ctl done k).stop = .replay i := by
  fun_induction drain kern true chunk ctl done k with
  | case1 done k h n o call hpos hover =>
    intro a c b he hd
    simp only at he
    rcases List.cons_eq_append_iff.mp he with ⟨rfl, h2⟩ | ⟨a', rfl, h2⟩
    · cases h2; exfalso; have := hd.1; simp only [call] at this; omega
    · exfalso; have := congrArg List.length h2; simp at this
  | case2 done k h n o call hpos hover s r ih =>
    intro a c b he hd
    simp only at he
    rcases List.cons_eq_append_iff.mp he with ⟨rfl, h2⟩ | ⟨a', rfl, h2⟩
    · cases h2; exfalso; have := hd.1; simp only [call] at this; omega
    · exact ih a' c b h2 hd
  | case3 done k h n o call hpos herr =>
    intro a c b he hd
    simp only at he
    rcases List.cons_eq_append_iff.mp he with ⟨rfl, h2⟩ | ⟨a', rfl, h2⟩
    · cases h2; exfalso; have := hd.2.1; simp only [call] at this; rw [herr] at this; cases this
    · exfalso; have := congrArg List.length h2; simp at this
  | case4 done k h n o call hpos herr hrep =>
    intro a c b he hd
    simp only at he
    rcases List.cons_eq_append_iff.mp he with ⟨rfl, h2⟩ | ⟨a', rfl, h2⟩
    · cases h2; exact ⟨rfl, _, rfl⟩
    · exfalso; have := congrArg List.length h2; simp at this
  | case5 done k h n o call hpos herr hrep r ih =>
    intro a c b he hd
    simp only at he
    rcases List.cons_eq_append_iff.mp he with ⟨rfl, h2⟩ | ⟨a', rfl, h2⟩
    · cases h2; exfalso
      obtain ⟨_, h2, e, he, hc⟩ := hd
      simp only [call] at h2 he
      rw [List.drop_eq_getElem_cons h] at he
      simp only [List.head?_cons, Option.some.injEq] at he
      subst he
      exact hrep ⟨rfl, hc, h2⟩
    · exact ih a' c b h2 hd
  | case6 done k h => intro a c b he; simp at he

theorem drain_ents_mem (kern : Nat → Nat → Outcome) (gso : Bool) (chunk : List Entry) (ctl : Ctl) (done k : Nat) :
    ∀ c ∈ (drain kern gso chunk ctl done k).calls, ∀ e ∈ c.ents, e ∈ chunk := by
  intro c hc e he
  rw [(drain_ctl kern gso chunk ctl done k c hc).1] at he
  exact List.mem_of_mem_drop he

theorem run_off_single (c : Cfg δ) (kern : Nat → Nat → Outcome) (pk : List (Pkt δ)) (gso : Bool)
    (i k : Nat) (ctl : Ctl) (hi : i ≤ pk.length) (hg : gso = false) :
    ∀ call ∈ (run c kern pk gso i k ctl).calls, ∀ e ∈ call.ents, e.cnt = 1 := by
  fun_induction run c kern pk gso i k ctl with
  | case1 => simp
  | case2 gso i k ctl h p hp d hd r ih =>
    have ps := pack_spec c gso pk i 0 0 ctl hi
    simp only at ps
    rw [show pack c gso pk i 0 0 ctl = p from rfl] at ps
    intro call hc e he
    rcases List.mem_append.mp hc with hc | hc
    · exact (ps.2.2.1 e (drain_ents_mem kern gso p.ents p.ctl 0 k call hc e he)).2.2.2.2 hg
    · exact ih ps.2.1 hg call hc e he
  | case3 gso i k ctl h p hp d i' hd r ih =>
    exfalso
    have := drain_replay_gso kern gso p.ents p.ctl 0 k i' hd
    rw [hg] at this; cases this
  | case4 gso i k ctl h p hp d hd =>
    have ps := pack_spec c gso pk i 0 0 ctl hi
    simp only at ps
    rw [show pack c gso pk i 0 0 ctl = p from rfl] at ps
    intro call hc e he
    exact (ps.2.2.1 e (drain_ents_mem kern gso p.ents p.ctl 0 k call hc e he)).2.2.2.2 hg
  | case5 gso i k ctl h p hp d hd =>
    have ps := pack_spec c gso pk i 0 0 ctl hi
    simp only at ps
    rw [show pack c gso pk i 0 0 ctl = p from rfl] at ps
    intro call hc e he
    exact (ps.2.2.1 e (drain_ents_mem kern gso p.ents p.ctl 0 k call hc e he)).2.2.2.2 hg
  | case6 => simp

theorem not_disable_of_single (c : Call) (h : ∀ e ∈ c.ents, e.cnt = 1) : ¬ IsDisable c := by
  rintro ⟨_, _, e, he, hc⟩
  have : e ∈ c.ents := List.mem_of_mem_head? he
  have := h e this
  omega

theorem run_disable (c : Cfg δ) (kern : Nat → Nat → Outcome) (pk : List (Pkt δ)) (gso : Bool)
    (i k : Nat) (ctl : Ctl) (hi : i ≤ pk.length) :
    ∀ a x b, (run c kern pk gso i k ctl).calls = a ++ x :: b → IsDisable x →
      ∀ y ∈ b, ∀ e ∈ y.ents, e.cnt = 1 := by
  fun_induction run c kern pk gso i k ctl with
  | case1 => intro a x b he; simp at he
  | case2 gso i k ctl h p hp d hd r ih =>
    have ps := pack_spec c gso pk i 0 0 ctl hi
    simp only at ps
    rw [show pack c gso pk i 0 0 ctl = p from rfl] at ps
    intro a x b he hx
    simp only at he
    rcases List.append_eq_append_iff.mp he with ⟨a', ha, hr⟩ | ⟨c', hdc, hxb⟩
    · exact ih ps.2.1 a' x b hr hx
    · cases c' with
      | nil => simp only [List.nil_append] at hxb; exact ih ps.2.1 [] x b (by simpa using hxb.symm) hx
      | cons x' c'' =>
        simp only [List.cons_append, List.cons.injEq] at hxb
        obtain ⟨rfl, hb⟩ := hxb
        exfalso
        cases gso with
        | true =>
          have := (drain_disable kern p.ents p.ctl 0 k a x c'' hdc hx).2
          rw [show drain kern true p.ents p.ctl 0 k = d from rfl] at this
          obtain ⟨i', hi'⟩ := this
          rw [hd] at hi'; cases hi'
        | false =>
          have hm : x ∈ d.calls := by rw [hdc]; simp
          exact not_disable_of_single x (fun e he =>
            (ps.2.2.1 e (drain_ents_mem kern false p.ents p.ctl 0 k x hm e he)).2.2.2.2 rfl) hx
  | case3 gso i k ctl h p hp d i' hd r ih =>
    have ps := pack_spec c gso pk i 0 0 ctl hi
    simp only at ps
    rw [show pack c gso pk i 0 0 ctl = p from rfl] at ps
    obtain ⟨p1, p2, p3, p4, p5⟩ := ps
    have hg : gso = true := drain_replay_gso kern gso p.ents p.ctl 0 k i' hd
    have dc := (drain_calls kern gso p.ents p.ctl 0 k).2
    rw [show drain kern gso p.ents p.ctl 0 k = d from rfl] at dc
    obtain ⟨j, hj, _, hij, _⟩ := dc i' hd
    have gj := p3 p.ents[j] (List.getElem_mem hj)
    have hi' : i' ≤ pk.length := by rw [hij]; have := gj.2.1; have := gj.2.2.1.1; omega
    intro a x b he hx
    simp only at he
    rcases List.append_eq_append_iff.mp he with ⟨a', ha, hr⟩ | ⟨c', hdc, hxb⟩
    · exact ih hi' a' x b hr hx
    · cases c' with
      | nil => simp only [List.nil_append] at hxb; exact ih hi' [] x b (by simpa using hxb.symm) hx
      | cons x' c'' =>
        simp only [List.cons_append, List.cons.injEq] at hxb
        obtain ⟨rfl, hb⟩ := hxb
        subst hg
        have hb0 := (drain_disable kern p.ents p.ctl 0 k a x c'' hdc hx).1
        subst hb0
        simp only [List.nil_append] at hb
        intro y hy e he
        rw [hb] at hy
        exact run_off_single c kern pk false i' (k + d.calls.length) p.ctl hi' rfl y hy e he
  | case4 gso i k ctl h p hp d hd =>
    have ps := pack_spec c gso pk i 0 0 ctl hi
    simp only at ps
    rw [show pack c gso pk i 0 0 ctl = p from rfl] at ps
    intro a x b he hx
    simp only at he
    cases gso with
    | true =>
      have := (drain_disable kern p.ents p.ctl 0 k a x b he hx).1
      subst this; simp
    | false =>
      exfalso
      have hm : x ∈ d.calls := by rw [he]; simp
      exact not_disable_of_single x (fun e he' =>
        (ps.2.2.1 e (drain_ents_mem kern false p.ents p.ctl 0 k x hm e he')).2.2.2.2 rfl) hx
  | case5 gso i k ctl h p hp d hd =>
    have ps := pack_spec c gso pk i 0 0 ctl hi
    simp only at ps
    rw [show pack c gso pk i 0 0 ctl = p from rfl] at ps
    intro a x b he hx
    simp only at he
    cases gso with
    | true =>
      have := (drain_disable kern p.ents p.ctl 0 k a x b he hx).1
      subst this; simp
    | false =>
      exfalso
      have hm : x ∈ d.calls := by rw [he]; simp
      exact not_disable_of_single x (fun e he' =>
        (ps.2.2.1 e (drain_ents_mem kern false p.ents p.ctl 0 k x hm e he')).2.2.2.2 rfl) hx
  | case6 => intro a x b he; simp at he
theorem run_gso_false (c : Cfg δ) (kern : Nat → Nat → Outcome) (pk : List (Pkt δ)) (gso : Bool)
    (i k : Nat) (ctl : Ctl) (hg : gso = false) : (run c kern pk gso i k ctl).gso = false := by
  fun_induction run c kern pk gso i k ctl with
  | case1 => exact hg
  | case2 gso i k ctl h p hp d hd r ih => exact ih hg
  | case3 gso i k ctl h p hp d i' hd r ih => exact ih rfl
  | case4 => exact hg
  | case5 => exact hg
  | case6 => exact hg

theorem drain_no_disable (kern : Nat → Nat → Outcome) (gso : Bool) (chunk : List Entry) (ctl : Ctl) (k : Nat)
    (hsingle : gso = false → ∀ e ∈ chunk, e.cnt = 1)
    (hstop : ∀ i, (drain kern gso chunk ctl 0 k).stop ≠ .replay i)
    (x : Call) (hm : x ∈ (drain kern gso chunk ctl 0 k).calls) : ¬ IsDisable x := by
  intro hx
  cases gso with
  | true =>
    obtain ⟨a, b, hab⟩ := List.append_of_mem hm
    obtain ⟨_, i, hi⟩ := drain_disable kern chunk ctl 0 k a x b hab hx
    exact hstop i hi
  | false =>
    exact not_disable_of_single x (fun e he =>
      hsingle rfl e (drain_ents_mem kern false chunk ctl 0 k x hm e he)) hx

theorem run_disable_flag (c : Cfg δ) (kern : Nat → Nat → Outcome) (pk : List (Pkt δ)) (gso : Bool)
    (i k : Nat) (ctl : Ctl) (hi : i ≤ pk.length) :
    ∀ x ∈ (run c kern pk gso i k ctl).calls, IsDisable x → (run c kern pk gso i k ctl).gso = false := by
  fun_induction run c kern pk gso i k ctl with
  | case1 => simp
  | case2 gso i k ctl h p hp d hd r ih =>
    have ps := pack_spec c gso pk i 0 0 ctl hi
    simp only at ps
    rw [show pack c gso pk i 0 0 ctl = p from rfl] at ps
    intro x hx hdx
    rcases List.mem_append.mp hx with hx | hx
    · exfalso
      exact drain_no_disable kern gso p.ents p.ctl k (fun hg e he => (ps.2.2.1 e he).2.2.2.2 hg)
        (fun i => by rw [show drain kern gso p.ents p.ctl 0 k = d from rfl, hd]; simp) x hx hdx
    · exact ih ps.2.1 x hx hdx
  | case3 gso i k ctl h p hp d i' hd r ih =>
    intro x hx hdx
    exact run_gso_false c kern pk false i' (k + d.calls.length) p.ctl rfl
  | case4 gso i k ctl h p hp d hd =>
    have ps := pack_spec c gso pk i 0 0 ctl hi
    simp only at ps
    rw [show pack c gso pk i 0 0 ctl = p from rfl] at ps
    intro x hx hdx
    exfalso
    exact drain_no_disable kern gso p.ents p.ctl k (fun hg e he => (ps.2.2.1 e he).2.2.2.2 hg)
      (fun i => by rw [show drain kern gso p.ents p.ctl 0 k = d from rfl, hd]; simp) x hx hdx
  | case5 gso i k ctl h p hp d hd =>
    have ps := pack_spec c gso pk i 0 0 ctl hi
    simp only at ps
    rw [show pack c gso pk i 0 0 ctl = p from rfl] at ps
    intro x hx hdx
    exfalso
    exact drain_no_disable kern gso p.ents p.ctl k (fun hg e he => (ps.2.2.1 e he).2.2.2.2 hg)
      (fun i => by rw [show drain kern gso p.ents p.ctl 0 k = d from rfl, hd]; simp) x hx hdx
  | case6 => simp

end Nebula.Lemmas.Writebatch
