/-
Lemmas for C44: the table invariant over all histories, and what `parseLoop` can produce.
-/
import Nebula.Spec.Dns

namespace Nebula.Lemmas.Dns
open Nebula.Net Nebula.Dns Nebula.Spec.Dns

/-- where a table entry `(key, a)` comes from: a completed handshake's certificate name and overlay
addresses, or the responder's own certificate. -/
def Src (me : Self) (evs : List Ev) (key : Name) (a : Addr) : Prop :=
  (∃ k n as, Ev.hs k n as ∈ evs ∧ key = lower (n ++ ['.']) ∧ a ∈ as) ∨
  (∃ n as, me = some (n, as) ∧ key = lower n ++ ['.'] ∧ a ∈ as)

def TblOK (me : Self) (evs : List Ev) (f : Fam) (m : Tbl) : Prop :=
  ∀ e ∈ m, e.2.fam = f ∧ Src me evs e.1 e.2

def HostsOK (evs : List Ev) (h : List (Addr × Nat)) : Prop :=
  ∀ e ∈ h, ∃ n as, Ev.hs e.2 n as ∈ evs ∧ e.1 ∈ as

structure Inv (me : Self) (evs : List Ev) (s : St) : Prop where
  self_eq : s.self = me
  m4 : TblOK me evs .v4 s.map4
  m6 : TblOK me evs .v6 s.map6
  hosts : HostsOK evs s.hosts

theorem Src.mono {me : Self} {evs evs' : List Ev} {key a} (h : ∀ e ∈ evs, e ∈ evs')
    (hs : Src me evs key a) : Src me evs' key a := by
  rcases hs with ⟨k, n, as, h1, h2, h3⟩ | h2
  · exact Or.inl ⟨k, n, as, h _ h1, h2, h3⟩
  · exact Or.inr h2

theorem TblOK.mono {me : Self} {evs evs' : List Ev} {f m} (h : ∀ e ∈ evs, e ∈ evs')
    (ht : TblOK me evs f m) : TblOK me evs' f m :=
  fun e he => ⟨(ht e he).1, (ht e he).2.mono h⟩

theorem TblOK.del {me : Self} {evs f m} (k : Name) (ht : TblOK me evs f m) :
    TblOK me evs f (m.del k) :=
  fun e he => ht e (List.mem_filter.mp he).1

theorem TblOK.set {me : Self} {evs f m key a} (ht : TblOK me evs f m) (hf : a.fam = f)
    (hs : Src me evs key a) : TblOK me evs f (m.set key a) := by
  intro e he
  simp only [Tbl.set, List.mem_cons] at he
  rcases he with rfl | he
  · exact ⟨hf, hs⟩
  · exact ht e he

theorem is4_fam {a : Addr} (h : a.is4 = true) : a.fam = .v4 := by
  cases a with | mk fam val =>
    cases fam
    · rfl
    · have : (Fam.v6 == Fam.v4) = false := by decide
      simp [Addr.is4, this] at h
theorem is6_fam {a : Addr} (h : a.is6 = true) : a.fam = .v6 := by
  cases a with | mk fam val =>
    cases fam
    · have : (Fam.v4 == Fam.v6) = false := by decide
      simp [Addr.is6, this] at h
    · rfl

theorem addLoop_ok {me : Self} {evs : List Ev} (host : Name) (addrs : List Addr)
    (hsrc : ∀ a ∈ addrs, Src me evs host a) :
    ∀ (h4 h6 : Bool) (m4 m6 : Tbl), TblOK me evs .v4 m4 → TblOK me evs .v6 m6 →
      TblOK me evs .v4 (addLoop host addrs h4 h6 m4 m6).1 ∧ TblOK me evs .v6 (addLoop host addrs h4 h6 m4 m6).2 := by
  induction addrs with
  | nil => intro h4 h6 m4 m6 a b; exact ⟨a, b⟩
  | cons a as ih =>
    intro h4 h6 m4 m6 ok4 ok6
    have hsa := hsrc a (List.mem_cons_self ..)
    have ih' := ih (fun x hx => hsrc x (List.mem_cons_of_mem _ hx))
    unfold addLoop
    split
    · exact ⟨ok4, ok6⟩
    · split
      · rename_i hc
        have hf : a.fam = .v4 := is4_fam (by simp at hc; exact hc.1)
        have ok4' := ok4.set hf hsa
        split
        · exact ⟨ok4', ok6⟩
        · exact ih' _ _ _ _ ok4' ok6
      · split
        · rename_i hc
          have hf : a.fam = .v6 := is6_fam (by simp at hc; exact hc.1)
          have ok6' := ok6.set hf hsa
          split
          · exact ⟨ok4, ok6'⟩
          · exact ih' _ _ _ _ ok4 ok6'
        · exact ih' _ _ _ _ ok4 ok6

theorem inv_init (me : Self) : Inv me [] (St.init me) :=
  ⟨rfl, fun _ h => by simp [St.init] at h, fun _ h => by simp [St.init] at h, fun _ h => by simp [St.init] at h⟩

theorem Inv.mono {me : Self} {evs : List Ev} {s : St} (e : Ev) (h : Inv me evs s) :
    Inv me (evs ++ [e]) s :=
  have sub : ∀ x ∈ evs, x ∈ evs ++ [e] := fun x hx => List.mem_append_left _ hx
  ⟨h.self_eq, h.m4.mono sub, h.m6.mono sub,
    fun x hx => by obtain ⟨n, as, h1, h2⟩ := h.hosts x hx; exact ⟨n, as, sub _ h1, h2⟩⟩

theorem TblOK.delIf {me : Self} {evs f m} (c : Bool) (k : Name) (ht : TblOK me evs f m) :
    TblOK me evs f (if c then m.del k else m) := by
  cases c
  · exact ht
  · exact ht.del k

theorem inv_seedSelf {me : Self} {evs : List Ev} {s : St} (h : Inv me evs s) :
    Inv me evs (seedSelf s) := by
  unfold seedSelf
  split
  · exact h
  · split
    · exact h
    · rename_i name addrs hself
      have hs : me = some (name, addrs) := by rw [← h.self_eq]; exact hself
      have src : ∀ a ∈ addrs, Src me evs (lower name ++ ['.']) a :=
        fun a ha => Or.inr ⟨name, addrs, hs, rfl, ha⟩
      have := addLoop_ok (me := me) (evs := evs) (lower name ++ ['.']) addrs src false false _ _
        ((h.m4.delIf (s.selfHost != [] && s.selfHost != lower name ++ ['.']) s.selfHost).del (lower name ++ ['.']))
        ((h.m6.delIf (s.selfHost != [] && s.selfHost != lower name ++ ['.']) s.selfHost).del (lower name ++ ['.']))
      exact ⟨h.self_eq, this.1, this.2, h.hosts⟩

theorem inv_enabled {me : Self} {evs : List Ev} {s : St} (b : Bool) (h : Inv me evs s) :
    Inv me evs { s with enabled := b } := ⟨h.self_eq, h.m4, h.m6, h.hosts⟩

theorem inv_clear {me : Self} {evs : List Ev} {s : St} (h : Inv me evs s) :
    Inv me evs (clearRecords s) :=
  ⟨h.self_eq, fun _ h => by simp [clearRecords] at h, fun _ h => by simp [clearRecords] at h, h.hosts⟩

theorem inv_add {me : Self} {evs : List Ev} {s : St} (host : Name) (addrs : List Addr)
    (src : ∀ a ∈ addrs, Src me evs (lower host) a) (h : Inv me evs s) :
    Inv me evs (add s host addrs) := by
  unfold add
  split
  · exact h
  · have := addLoop_ok (me := me) (evs := evs) (lower host) addrs src false false _ _ h.m4 h.m6
    exact ⟨h.self_eq, this.1, this.2, h.hosts⟩

theorem hosts_foldl (evs : List Ev) (k : Nat) (n : Name) (all as : List Addr) (hm : Ev.hs k n all ∈ evs)
    (hsub : ∀ a ∈ as, a ∈ all) :
    ∀ (h : List (Addr × Nat)), HostsOK evs h → HostsOK evs (as.foldl (fun h a => (a, k) :: h) h) := by
  induction as with
  | nil => intro h hh; exact hh
  | cons a as ih =>
    intro h hh
    simp only [List.foldl_cons]
    apply ih (fun x hx => hsub x (List.mem_cons_of_mem _ hx))
    intro e he
    simp only [List.mem_cons] at he
    rcases he with rfl | he
    · exact ⟨n, all, hm, hsub a (List.mem_cons_self ..)⟩
    · exact hh e he

theorem inv_apply {me : Self} {evs : List Ev} {s : St} (e : Ev) (h : Inv me evs s) :
    Inv me (evs ++ [e]) (apply s e) := by
  have h' := h.mono e
  cases e with
  | seed => exact inv_seedSelf h'
  | disable => exact inv_clear (inv_enabled false h')
  | enable => exact inv_seedSelf (inv_enabled true h')
  | hs k n as =>
    have hm : Ev.hs k n as ∈ evs ++ [Ev.hs k n as] := List.mem_append_right _ (List.mem_singleton.mpr rfl)
    have h1 : Inv me (evs ++ [Ev.hs k n as]) (add s (n ++ ['.']) as) :=
      inv_add _ _ (fun a ha => Or.inl ⟨k, n, as, hm, rfl, ha⟩) h'
    exact ⟨h1.self_eq, h1.m4, h1.m6, hosts_foldl _ k n as as hm (fun _ h => h) _ h1.hosts⟩

theorem inv_foldl {me : Self} (evs : List Ev) :
    ∀ (evs0 : List Ev) (s : St), Inv me evs0 s → Inv me (evs0 ++ evs) (evs.foldl apply s) := by
  induction evs with
  | nil => intro evs0 s h; simpa using h
  | cons e es ih =>
    intro evs0 s h
    have := ih (evs0 ++ [e]) (apply s e) (inv_apply e h)
    simpa using this

/-- every state reachable by a history satisfies the invariant with respect to that history. -/
theorem inv_run (me : Self) (evs : List Ev) : Inv me evs (run me evs) := by
  have := inv_foldl (me := me) evs [] (St.init me) (inv_init me)
  simpa [run] using this

/-! ### lookups -/

theorem get_mem {m : Tbl} {key : Name} {a : Addr} (h : m.get key = some a) : (key, a) ∈ m := by
  unfold Tbl.get at h
  cases hf : m.find? (fun e => e.1 == key) with
  | none => simp [hf] at h
  | some e =>
    simp [hf] at h
    have h1 := List.find?_some hf
    have h2 := List.mem_of_find?_eq_some hf
    simp at h1
    cases e with | mk k v => simp_all

/-- does the (lower-cased) name have an address record -/
def nameExists (s : St) (name : Name) : Bool :=
  (s.map4.get (lower name)).isSome || (s.map6.get (lower name)).isSome

theorem query_snd (s : St) (t : Nat) (n : Name) : (query s t n).2 = nameExists s n := by
  unfold query nameExists
  split
  · rfl
  · split <;> rfl

/-- what an answer of the responder in state `s` to question list `qs` looks like -/
def AnsOK (s : St) (client : Addr) (qs : List Question) : Answer → Prop
  | .a name addr => s.map4.get (lower name) = some addr ∧ ∃ q ∈ qs, q.qtype = typeA ∧ q.name = name
  | .aaaa name addr => s.map6.get (lower name) = some addr ∧ ∃ q ∈ qs, q.qtype = typeAAAA ∧ q.name = name
  | .txt name c => isSelfNebulaOrLocalhost s client = true ∧
      ∃ q ∈ qs, q.qtype = typeTXT ∧ q.name = name ∧ queryCert s q.name q.parsed = some c

theorem parseLoop_answers (s : St) (client : Addr) (all : List Question) :
    ∀ (qs : List Question) (ans : List Answer) (any : Bool), (∀ q ∈ qs, q ∈ all) →
      (∀ a ∈ ans, AnsOK s client all a) →
      ∀ a ∈ (parseLoop s client qs ans any).1, AnsOK s client all a := by
  intro qs
  induction qs with
  | nil => intro ans any _ h; simpa [parseLoop] using h
  | cons q qs ih =>
    intro ans any hsub h
    have hq : q ∈ all := hsub q (List.mem_cons_self ..)
    have hsub' : ∀ x ∈ qs, x ∈ all := fun x hx => hsub x (List.mem_cons_of_mem _ hx)
    unfold parseLoop
    split
    · rename_i hty
      cases hip : (query s q.qtype q.name).1 with
      | none => simp only [hip]; exact ih _ _ hsub' h
      | some ip =>
        simp only [hip]
        apply ih _ _ hsub'
        intro a ha
        simp only [List.mem_append, List.mem_singleton] at ha
        rcases ha with ha | rfl
        · exact h a ha
        · split
          · rename_i hA
            refine ⟨?_, q, hq, hA, rfl⟩
            simpa [query, hA] using hip
          · rename_i hA
            have h6 : q.qtype = typeAAAA := by rcases hty with h | h; exact absurd h hA; exact h
            refine ⟨?_, q, hq, h6, rfl⟩
            have : ¬ (typeAAAA = typeA) := by decide
            simpa [query, h6, this] using hip
    · split
      · rename_i hT
        split
        · exact h
        · rename_i hloc
          apply ih _ _ hsub'
          cases hc : queryCert s q.name q.parsed with
          | none => simpa using h
          | some c =>
            intro a ha
            simp only [List.mem_append, List.mem_singleton] at ha
            rcases ha with ha | rfl
            · exact h a ha
            · exact ⟨by simpa using hloc, q, hq, hT, rfl, hc⟩
      · exact ih _ _ hsub' h

/-- if the loop finishes without the early return and without having seen an existing name, no
question's name exists. -/
theorem parseLoop_noname (s : St) (client : Addr) :
    ∀ (qs : List Question) (ans : List Answer) (any : Bool),
      (parseLoop s client qs ans any).2 = (false, false) →
      any = false ∧ ∀ q ∈ qs, nameExists s q.name = false := by
  intro qs
  induction qs with
  | nil => intro ans any h; simp [parseLoop] at h; simp [h]
  | cons q qs ih =>
    intro ans any h
    unfold parseLoop at h
    split at h
    · cases hip : (query s q.qtype q.name).1 with
      | none =>
        simp only [hip] at h
        have := ih _ _ h
        rw [query_snd] at this
        simp at this
        refine ⟨this.1.1, ?_⟩
        intro x hx
        simp only [List.mem_cons] at hx
        rcases hx with rfl | hx
        · exact this.1.2
        · exact this.2 x hx
      | some ip =>
        simp only [hip] at h
        have := ih _ _ h
        rw [query_snd] at this
        simp at this
        refine ⟨this.1.1, ?_⟩
        intro x hx
        simp only [List.mem_cons] at hx
        rcases hx with rfl | hx
        · exact this.1.2
        · exact this.2 x hx
    · split at h
      · split at h
        · simp at h
        · have := ih _ _ h
          rw [query_snd] at this
          simp at this
          refine ⟨this.1.1, ?_⟩
          intro x hx
          simp only [List.mem_cons] at hx
          rcases hx with rfl | hx
          · exact this.1.2
          · exact this.2 x hx
      · have := ih _ _ h
        rw [query_snd] at this
        simp at this
        refine ⟨this.1.1, ?_⟩
        intro x hx
        simp only [List.mem_cons] at hx
        rcases hx with rfl | hx
        · exact this.1.2
        · exact this.2 x hx

end Nebula.Lemmas.Dns
