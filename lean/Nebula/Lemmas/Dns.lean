/-
Lemmas for C44: the table invariant over all histories, and what `parseLoop` can produce.
-/
import Nebula.Spec.Dns

namespace Nebula.Lemmas.Dns
open Nebula.Net Nebula.Dns Nebula.Spec.Dns

/-- a table entry `(key, a)` comes from a completed handshake's certificate name and overlay addresses -/
def HsSrc (evs : List Ev) (key : Name) (a : Addr) : Prop :=
  ∃ k n as, Ev.hs k n as ∈ evs ∧ key = lower (n ++ ['.']) ∧ a ∈ as

/-- … or from the own certificate `cur` -/
def SelfSrc (cur : Self) (key : Name) (a : Addr) : Prop :=
  ∃ n as, cur = some (n, as) ∧ key = lower n ++ ['.'] ∧ a ∈ as

/-- where an answer may come from: a handshaked peer's certificate or the *current* own certificate -/
def Src (cur : Self) (evs : List Ev) (key : Name) (a : Addr) : Prop := HsSrc evs key a ∨ SelfSrc cur key a

/-- every entry of a table has the right family and satisfies `P` -/
def TblP (P : Name → Addr → Prop) (f : Fam) (m : Tbl) : Prop := ∀ e ∈ m, e.2.fam = f ∧ P e.1 e.2

/-- entry invariant: from a handshake, or seeded from the current own certificate under `selfHost` -/
def EntryOK (evs : List Ev) (cur : Self) (selfHost : Name) (key : Name) (a : Addr) : Prop :=
  HsSrc evs key a ∨ (key = selfHost ∧ SelfSrc cur key a)

def HostsOK (evs : List Ev) (h : List (Addr × Nat)) : Prop :=
  ∀ e ∈ h, ∃ n as, Ev.hs e.2 n as ∈ evs ∧ e.1 ∈ as

structure Inv (me : Self) (evs : List Ev) (s : St) : Prop where
  self_eq : s.self = selfAfter me evs
  m4 : TblP (EntryOK evs s.self s.selfHost) .v4 s.map4
  m6 : TblP (EntryOK evs s.self s.selfHost) .v6 s.map6
  hosts : HostsOK evs s.hosts
  off : s.enabled = false → s.map4 = [] ∧ s.map6 = []

theorem HsSrc.mono {evs evs' : List Ev} {key a} (h : ∀ e ∈ evs, e ∈ evs') (hs : HsSrc evs key a) :
    HsSrc evs' key a := by
  obtain ⟨k, n, as, h1, h2, h3⟩ := hs
  exact ⟨k, n, as, h _ h1, h2, h3⟩

theorem TblP.imp {P Q : Name → Addr → Prop} {f m} (h : ∀ k a, P k a → Q k a) (ht : TblP P f m) : TblP Q f m :=
  fun e he => ⟨(ht e he).1, h _ _ (ht e he).2⟩

theorem TblP.del {P : Name → Addr → Prop} {f m} (k : Name) (ht : TblP P f m) : TblP P f (m.del k) :=
  fun e he => ht e (List.mem_filter.mp he).1

theorem del_key_ne {m : Tbl} {k : Name} : ∀ e ∈ m.del k, e.1 ≠ k := by
  intro e he
  have := (List.mem_filter.mp he).2
  simpa using this

theorem TblP.set {P : Name → Addr → Prop} {f m key a} (ht : TblP P f m) (hf : a.fam = f) (hs : P key a) :
    TblP P f (m.set key a) := by
  intro e he
  simp only [Tbl.set, List.mem_cons] at he
  rcases he with rfl | he
  · exact ⟨hf, hs⟩
  · exact ht e he

theorem is4_fam {a : Addr} (h : a.is4 = true) : a.fam = .v4 := by
  cases a with | mk fam val =>
    cases fam
    · rfl
    · have : (Fam.v6 == Fam.v4) = false := by decide
      simp [Addr.is4, this] at h
theorem is6_fam {a : Addr} (h : a.is6 = true) : a.fam = .v6 := by
  cases a with | mk fam val =>
    cases fam
    · have : (Fam.v4 == Fam.v6) = false := by decide
      simp [Addr.is6, this] at h
    · rfl

theorem addLoop_ok (P : Name → Addr → Prop) (host : Name) (addrs : List Addr)
    (hsrc : ∀ a ∈ addrs, P host a) :
    ∀ (h4 h6 : Bool) (m4 m6 : Tbl), TblP P .v4 m4 → TblP P .v6 m6 →
      TblP P .v4 (addLoop host addrs h4 h6 m4 m6).1 ∧ TblP P .v6 (addLoop host addrs h4 h6 m4 m6).2 := by
  induction addrs with
  | nil => intro h4 h6 m4 m6 a b; exact ⟨a, b⟩
  | cons a as ih =>
    intro h4 h6 m4 m6 ok4 ok6
    have hsa := hsrc a (List.mem_cons_self ..)
    have ih' := ih (fun x hx => hsrc x (List.mem_cons_of_mem _ hx))
    unfold addLoop
    split
    · exact ⟨ok4, ok6⟩
    · split
      · rename_i hc
        have hf : a.fam = .v4 := is4_fam (by simp at hc; exact hc.1)
        have ok4' := ok4.set hf hsa
        split
        · exact ⟨ok4', ok6⟩
        · exact ih' _ _ _ _ ok4' ok6
      · split
        · rename_i hc
          have hf : a.fam = .v6 := is6_fam (by simp at hc; exact hc.1)
          have ok6' := ok6.set hf hsa
          split
          · exact ⟨ok4, ok6'⟩
          · exact ih' _ _ _ _ ok4 ok6'
        · exact ih' _ _ _ _ ok4 ok6

theorem selfAfter_append (me : Self) (evs : List Ev) (e : Ev) :
    selfAfter me (evs ++ [e]) = (match e with
      | .renew n as => some (n, as)
      | _ => selfAfter me evs) := by
  simp only [selfAfter, List.foldl_append, List.foldl_cons, List.foldl_nil]
  cases e <;> rfl

theorem inv_init (me : Self) : Inv me [] (St.init me) :=
  ⟨rfl, fun _ h => by simp [St.init] at h, fun _ h => by simp [St.init] at h,
    fun _ h => by simp [St.init] at h, fun _ => ⟨rfl, rfl⟩⟩

/-- `seedSelf` on an enabled responder with own certificate `(name, addrs)`, whatever was seeded before:
it suffices that every entry is from a handshake or sits under the previously seeded own name. -/
theorem seedSelf_tables {evs : List Ev} {s : St} (hen : s.enabled = true) (name : Name) (addrs : List Addr)
    (hself : s.self = some (name, addrs))
    (w4 : TblP (fun k a => HsSrc evs k a ∨ (k = s.selfHost ∧ s.selfHost ≠ [])) .v4 s.map4)
    (w6 : TblP (fun k a => HsSrc evs k a ∨ (k = s.selfHost ∧ s.selfHost ≠ [])) .v6 s.map6) :
    (seedSelf s).self = s.self ∧ (seedSelf s).hosts = s.hosts ∧ (seedSelf s).enabled = true ∧
    TblP (EntryOK evs s.self (seedSelf s).selfHost) .v4 (seedSelf s).map4 ∧
    TblP (EntryOK evs s.self (seedSelf s).selfHost) .v6 (seedSelf s).map6 := by
  have clean : ∀ (f : Fam) (m : Tbl),
      TblP (fun k a => HsSrc evs k a ∨ (k = s.selfHost ∧ s.selfHost ≠ [])) f m →
      TblP (EntryOK evs s.self (lower name ++ ['.'])) f
        ((if (s.selfHost != [] && s.selfHost != lower name ++ ['.']) = true then m.del s.selfHost else m).del
          (lower name ++ ['.'])) := by
    intro f m w e he
    have hne : e.1 ≠ lower name ++ ['.'] := del_key_ne e he
    have he1 := (List.mem_filter.mp he).1
    by_cases hst : (s.selfHost != [] && s.selfHost != lower name ++ ['.']) = true
    · rw [if_pos hst] at he1
      have hne2 : e.1 ≠ s.selfHost := del_key_ne e he1
      have := w e (List.mem_filter.mp he1).1
      refine ⟨this.1, Or.inl ?_⟩
      rcases this.2 with h | ⟨h, _⟩
      · exact h
      · exact absurd h hne2
    · rw [if_neg hst] at he1
      have := w e he1
      refine ⟨this.1, Or.inl ?_⟩
      rcases this.2 with h | ⟨h, h0⟩
      · exact h
      · exfalso
        apply hst
        have h1 : (s.selfHost != []) = true := by simpa using h0
        have h2 : (s.selfHost != lower name ++ ['.']) = true := by
          simp only [bne_iff_ne, ne_eq]
          intro e2; exact hne (h.trans e2)
        simp [h1, h2]
  have src : ∀ a ∈ addrs, EntryOK evs s.self (lower name ++ ['.']) (lower name ++ ['.']) a :=
    fun a ha => Or.inr ⟨rfl, name, addrs, hself, rfl, ha⟩
  have := addLoop_ok (EntryOK evs s.self (lower name ++ ['.'])) (lower name ++ ['.']) addrs src false false _ _
    (clean .v4 s.map4 w4) (clean .v6 s.map6 w6)
  rw [hself] at this
  unfold seedSelf
  simp only [hen, Bool.not_true, Bool.false_eq_true, if_false, hself]
  exact ⟨trivial, trivial, trivial, this.1, this.2⟩

theorem selfSrc_key_ne_nil {cur : Self} {k : Name} {a : Addr} (h : SelfSrc cur k a) : k ≠ [] := by
  obtain ⟨n, as, _, hk, _⟩ := h
  rw [hk]; simp

/-- the weak table condition needed by `seedSelf_tables` follows from the invariant. -/
theorem weak_of_entry {evs : List Ev} {cur : Self} {sh : Name} {f m}
    (h : TblP (EntryOK evs cur sh) f m) : TblP (fun k a => HsSrc evs k a ∨ (k = sh ∧ sh ≠ [])) f m := by
  intro e he
  refine ⟨(h e he).1, ?_⟩
  rcases (h e he).2 with h1 | ⟨h1, h2⟩
  · exact Or.inl h1
  · exact Or.inr ⟨h1, h1 ▸ selfSrc_key_ne_nil h2⟩

/-- `seedSelf` preserves the invariant (history unchanged). -/
theorem inv_seedSelf {me : Self} {evs : List Ev} {s : St} (h : Inv me evs s) :
    Inv me evs (seedSelf s) := by
  cases hen : s.enabled
  · have : seedSelf s = s := by simp [seedSelf, hen]
    rw [this]; exact h
  · cases hs : s.self with
    | none =>
      have : seedSelf s = s := by simp [seedSelf, hen, hs]
      rw [this]; exact h
    | some p =>
      cases p with | mk name addrs =>
      obtain ⟨e1, e2, e3, t4, t6⟩ := seedSelf_tables (evs := evs) hen name addrs hs (weak_of_entry h.m4) (weak_of_entry h.m6)
      refine ⟨by rw [e1]; exact h.self_eq, by rw [e1]; exact t4, by rw [e1]; exact t6, by rw [e2]; exact h.hosts, ?_⟩
      intro hoff; rw [e3] at hoff; cases hoff

theorem Inv.mono {me : Self} {evs : List Ev} {s : St} (e : Ev) (hne : ∀ n as, e ≠ .renew n as)
    (h : Inv me evs s) : Inv me (evs ++ [e]) s := by
  have sub : ∀ x ∈ evs, x ∈ evs ++ [e] := fun x hx => List.mem_append_left _ hx
  have up : ∀ k a, EntryOK evs s.self s.selfHost k a → EntryOK (evs ++ [e]) s.self s.selfHost k a := by
    intro k a hk
    rcases hk with h1 | h1
    · exact Or.inl (h1.mono sub)
    · exact Or.inr h1
  refine ⟨?_, h.m4.imp up, h.m6.imp up, ?_, h.off⟩
  · rw [selfAfter_append, h.self_eq]
    cases e <;> first | rfl | exact absurd rfl (hne _ _)
  · intro x hx
    obtain ⟨n, as, h1, h2⟩ := h.hosts x hx
    exact ⟨n, as, sub _ h1, h2⟩

theorem inv_enabled {me : Self} {evs : List Ev} {s : St} (h : Inv me evs s) :
    Inv me evs { s with enabled := true } :=
  ⟨h.self_eq, h.m4, h.m6, h.hosts, fun hc => by cases hc⟩

theorem inv_disable {me : Self} {evs : List Ev} {s : St} (h : Inv me evs s) :
    Inv me evs (clearRecords { s with enabled := false }) :=
  ⟨h.self_eq, fun _ h => by simp [clearRecords] at h, fun _ h => by simp [clearRecords] at h, h.hosts,
    fun _ => ⟨rfl, rfl⟩⟩

theorem inv_add {me : Self} {evs : List Ev} {s : St} (host : Name) (addrs : List Addr)
    (src : ∀ a ∈ addrs, HsSrc evs (lower host) a) (h : Inv me evs s) :
    Inv me evs (add s host addrs) := by
  unfold add
  cases hen : s.enabled
  · simp only [Bool.not_false, if_true]; exact h
  · simp only [Bool.not_true, Bool.false_eq_true, if_false]
    have := addLoop_ok (EntryOK evs s.self s.selfHost) (lower host) addrs (fun a ha => Or.inl (src a ha))
      false false _ _ h.m4 h.m6
    exact ⟨h.self_eq, this.1, this.2, h.hosts, fun hc => by simp [hen] at hc⟩

theorem hosts_foldl (evs : List Ev) (k : Nat) (n : Name) (all as : List Addr) (hm : Ev.hs k n all ∈ evs)
    (hsub : ∀ a ∈ as, a ∈ all) :
    ∀ (h : List (Addr × Nat)), HostsOK evs h → HostsOK evs (as.foldl (fun h a => (a, k) :: h) h) := by
  induction as with
  | nil => intro h hh; exact hh
  | cons a as ih =>
    intro h hh
    simp only [List.foldl_cons]
    apply ih (fun x hx => hsub x (List.mem_cons_of_mem _ hx))
    intro e he
    simp only [List.mem_cons] at he
    rcases he with rfl | he
    · exact ⟨n, all, hm, hsub a (List.mem_cons_self ..)⟩
    · exact hh e he

/-- replacing the own certificate and reseeding (`renew`) preserves the invariant. -/
theorem inv_renew {me : Self} {evs : List Ev} {s : St} (n : Name) (as : List Addr) (h : Inv me evs s) :
    Inv me (evs ++ [Ev.renew n as]) (seedSelf { s with self := some (n, as) }) := by
  have sub : ∀ x ∈ evs, x ∈ evs ++ [Ev.renew n as] := fun x hx => List.mem_append_left _ hx
  have hosts' : HostsOK (evs ++ [Ev.renew n as]) s.hosts := by
    intro x hx
    obtain ⟨n', as', h1, h2⟩ := h.hosts x hx
    exact ⟨n', as', sub _ h1, h2⟩
  have hsa : selfAfter me (evs ++ [Ev.renew n as]) = some (n, as) := by rw [selfAfter_append]
  by_cases hen : s.enabled = true
  case neg =>
    have hen : s.enabled = false := by simpa using hen
    have : seedSelf { s with self := some (n, as) } = { s with self := some (n, as) } := by simp [seedSelf, hen]
    rw [this]
    obtain ⟨e4, e6⟩ := h.off hen
    exact ⟨hsa.symm, fun _ hx => by simp [e4] at hx, fun _ hx => by simp [e6] at hx, hosts', fun _ => ⟨e4, e6⟩⟩
  case pos =>
    have weak : ∀ f m, TblP (EntryOK evs s.self s.selfHost) f m →
        TblP (fun k a => HsSrc (evs ++ [Ev.renew n as]) k a ∨ (k = s.selfHost ∧ s.selfHost ≠ [])) f m := by
      intro f m hm e he
      have := weak_of_entry hm e he
      refine ⟨this.1, ?_⟩
      rcases this.2 with h1 | h1
      · exact Or.inl (h1.mono sub)
      · exact Or.inr h1
    obtain ⟨e1, e2, e3, t4, t6⟩ := seedSelf_tables (evs := evs ++ [Ev.renew n as]) (s := { s with self := some (n, as) })
      hen n as rfl (weak _ _ h.m4) (weak _ _ h.m6)
    refine ⟨by rw [e1]; exact hsa.symm, by rw [e1]; exact t4, by rw [e1]; exact t6, by rw [e2]; exact hosts', ?_⟩
    intro hoff; rw [e3] at hoff; cases hoff

theorem inv_apply {me : Self} {evs : List Ev} {s : St} (e : Ev) (h : Inv me evs s) :
    Inv me (evs ++ [e]) (apply s e) := by
  cases e with
  | seed => exact inv_seedSelf (h.mono _ (by intro n as hc; cases hc))
  | disable => exact inv_disable (h.mono _ (by intro n as hc; cases hc))
  | enable => exact inv_seedSelf (inv_enabled (h.mono _ (by intro n as hc; cases hc)))
  | renew n as => exact inv_renew n as h
  | drop k =>
    have h' := h.mono (Ev.drop k) (by intro n as hc; cases hc)
    exact ⟨h'.self_eq, h'.m4, h'.m6, fun x hx => h'.hosts x (List.mem_filter.mp hx).1, h'.off⟩
  | hs k n as =>
    have h' := h.mono (Ev.hs k n as) (by intro n as hc; cases hc)
    have hm : Ev.hs k n as ∈ evs ++ [Ev.hs k n as] := List.mem_append_right _ (List.mem_singleton.mpr rfl)
    have h1 : Inv me (evs ++ [Ev.hs k n as]) (add s (n ++ ['.']) as) :=
      inv_add _ _ (fun a ha => ⟨k, n, as, hm, rfl, ha⟩) h'
    exact ⟨h1.self_eq, h1.m4, h1.m6, hosts_foldl _ k n as as hm (fun _ h => h) _ h1.hosts, h1.off⟩

theorem inv_foldl {me : Self} (evs : List Ev) :
    ∀ (evs0 : List Ev) (s : St), Inv me evs0 s → Inv me (evs0 ++ evs) (evs.foldl apply s) := by
  induction evs with
  | nil => intro evs0 s h; simpa using h
  | cons e es ih =>
    intro evs0 s h
    have := ih (evs0 ++ [e]) (apply s e) (inv_apply e h)
    simpa using this

/-- every state reachable by a history satisfies the invariant with respect to that history. -/
theorem inv_run (me : Self) (evs : List Ev) : Inv me evs (run me evs) := by
  have := inv_foldl (me := me) evs [] (St.init me) (inv_init me)
  simpa [run] using this

/-- what the invariant says about an entry: it is authentic w.r.t. the history and the current own certificate. -/
theorem Inv.src4 {me : Self} {evs : List Ev} {s : St} (h : Inv me evs s) {key : Name} {a : Addr}
    (hm : (key, a) ∈ s.map4) : a.fam = .v4 ∧ Src (selfAfter me evs) evs key a := by
  obtain ⟨hf, hs⟩ := h.m4 _ hm
  refine ⟨hf, ?_⟩
  rcases hs with h1 | ⟨_, h1⟩
  · exact Or.inl h1
  · exact Or.inr (h.self_eq ▸ h1)

theorem Inv.src6 {me : Self} {evs : List Ev} {s : St} (h : Inv me evs s) {key : Name} {a : Addr}
    (hm : (key, a) ∈ s.map6) : a.fam = .v6 ∧ Src (selfAfter me evs) evs key a := by
  obtain ⟨hf, hs⟩ := h.m6 _ hm
  refine ⟨hf, ?_⟩
  rcases hs with h1 | ⟨_, h1⟩
  · exact Or.inl h1
  · exact Or.inr (h.self_eq ▸ h1)

/-! ### lookups -/

theorem get_mem {m : Tbl} {key : Name} {a : Addr} (h : m.get key = some a) : (key, a) ∈ m := by
  unfold Tbl.get at h
  cases hf : m.find? (fun e => e.1 == key) with
  | none => simp [hf] at h
  | some e =>
    simp [hf] at h
    have h1 := List.find?_some hf
    have h2 := List.mem_of_find?_eq_some hf
    simp at h1
    cases e with | mk k v => simp_all

/-- does the (lower-cased) name have an address record -/
def nameExists (s : St) (name : Name) : Bool :=
  (s.map4.get (lower name)).isSome || (s.map6.get (lower name)).isSome

theorem query_snd (s : St) (t : Nat) (n : Name) : (query s t n).2 = nameExists s n := by
  unfold query nameExists
  split
  · rfl
  · split <;> rfl

/-- what an answer of the responder in state `s` to question list `qs` looks like -/
def AnsOK (s : St) (client : Addr) (qs : List Question) : Answer → Prop
  | .a name addr => s.map4.get (lower name) = some addr ∧ ∃ q ∈ qs, q.qtype = typeA ∧ q.name = name
  | .aaaa name addr => s.map6.get (lower name) = some addr ∧ ∃ q ∈ qs, q.qtype = typeAAAA ∧ q.name = name
  | .txt name c => isSelfNebulaOrLocalhost s client = true ∧
      ∃ q ∈ qs, q.qtype = typeTXT ∧ q.name = name ∧ queryCert s q.name q.parsed = some c

theorem parseLoop_answers (s : St) (client : Addr) (all : List Question) :
    ∀ (qs : List Question) (ans : List Answer) (any : Bool), (∀ q ∈ qs, q ∈ all) →
      (∀ a ∈ ans, AnsOK s client all a) →
      ∀ a ∈ (parseLoop s client qs ans any).1, AnsOK s client all a := by
  intro qs
  induction qs with
  | nil => intro ans any _ h; simpa [parseLoop] using h
  | cons q qs ih =>
    intro ans any hsub h
    have hq : q ∈ all := hsub q (List.mem_cons_self ..)
    have hsub' : ∀ x ∈ qs, x ∈ all := fun x hx => hsub x (List.mem_cons_of_mem _ hx)
    unfold parseLoop
    split
    · rename_i hty
      cases hip : (query s q.qtype q.name).1 with
      | none => simp only [hip]; exact ih _ _ hsub' h
      | some ip =>
        simp only [hip]
        apply ih _ _ hsub'
        intro a ha
        simp only [List.mem_append, List.mem_singleton] at ha
        rcases ha with ha | rfl
        · exact h a ha
        · split
          · rename_i hA
            refine ⟨?_, q, hq, hA, rfl⟩
            simpa [query, hA] using hip
          · rename_i hA
            have h6 : q.qtype = typeAAAA := by rcases hty with h | h; exact absurd h hA; exact h
            refine ⟨?_, q, hq, h6, rfl⟩
            have : ¬ (typeAAAA = typeA) := by decide
            simpa [query, h6, this] using hip
    · split
      · rename_i hT
        split
        · exact h
        · rename_i hloc
          apply ih _ _ hsub'
          cases hc : queryCert s q.name q.parsed with
          | none => simpa using h
          | some c =>
            intro a ha
            simp only [List.mem_append, List.mem_singleton] at ha
            rcases ha with ha | rfl
            · exact h a ha
            · exact ⟨by simpa using hloc, q, hq, hT, rfl, hc⟩
      · exact ih _ _ hsub' h

/-- if the loop finishes without the early return and without having seen an existing name, no
question's name exists. -/
theorem parseLoop_noname (s : St) (client : Addr) :
    ∀ (qs : List Question) (ans : List Answer) (any : Bool),
      (parseLoop s client qs ans any).2 = (false, false) →
      any = false ∧ ∀ q ∈ qs, nameExists s q.name = false := by
  intro qs
  induction qs with
  | nil => intro ans any h; simp [parseLoop] at h; simp [h]
  | cons q qs ih =>
    intro ans any h
    unfold parseLoop at h
    split at h
    · cases hip : (query s q.qtype q.name).1 with
      | none =>
        simp only [hip] at h
        have := ih _ _ h
        rw [query_snd] at this
        simp at this
        refine ⟨this.1.1, ?_⟩
        intro x hx
        simp only [List.mem_cons] at hx
        rcases hx with rfl | hx
        · exact this.1.2
        · exact this.2 x hx
      | some ip =>
        simp only [hip] at h
        have := ih _ _ h
        rw [query_snd] at this
        simp at this
        refine ⟨this.1.1, ?_⟩
        intro x hx
        simp only [List.mem_cons] at hx
        rcases hx with rfl | hx
        · exact this.1.2
        · exact this.2 x hx
    · split at h
      · split at h
        · simp at h
        · have := ih _ _ h
          rw [query_snd] at this
          simp at this
          refine ⟨this.1.1, ?_⟩
          intro x hx
          simp only [List.mem_cons] at hx
          rcases hx with rfl | hx
          · exact this.1.2
          · exact this.2 x hx
      · have := ih _ _ h
        rw [query_snd] at this
        simp at this
        refine ⟨this.1.1, ?_⟩
        intro x hx
        simp only [List.mem_cons] at hx
        rcases hx with rfl | hx
        · exact this.1.2
        · exact this.2 x hx

end Nebula.Lemmas.Dns
