import Nebula.Lemmas.WritebatchRun
namespace Nebula.Lemmas.Writebatch
open Nebula.Writebatch List
variable {δ : Type} [DecidableEq δ]

/-- a call that made no progress and reported no error -/
def Stuck (c : Call) : Prop := c.out.sent ≤ 0 ∧ c.out.err = .none

theorem drain_stuck (kern : Nat → Nat → Outcome) (gso : Bool) (chunk : List Entry) (ctl : Ctl) (done k : Nat) :
    let d := drain kern gso chunk ctl done k
    (d.stop = .noProgress → ∃ init last, d.calls = init ++ [last] ∧ Stuck last ∧ ∀ c ∈ init, ¬ Stuck c) ∧
    (d.stop ≠ .noProgress → ∀ c ∈ d.calls, ¬ Stuck c) := by
  fun_induction drain kern gso chunk ctl done k with
  | case1 done k h n o call hpos hover =>
    refine ⟨by simp, fun _ c hc => ?_⟩
    simp at hc; subst hc; simp only [Stuck, call]; omega
  | case2 done k h n o call hpos hover s r ih =>
    rw [show drain kern gso chunk ctl (done + s) (k + 1) = r from rfl] at ih
    have hns : ¬ Stuck call := by simp only [Stuck, call]; omega
    refine ⟨fun hs => ?_, fun hs c hc => ?_⟩
    · obtain ⟨init, last, h1, h2, h3⟩ := ih.1 hs
      refine ⟨call :: init, last, by simp [h1], h2, ?_⟩
      intro c hc
      rcases List.mem_cons.mp hc with rfl | hc
      · exact hns
      · exact h3 c hc
    · rcases List.mem_cons.mp hc with rfl | hc
      · exact hns
      · exact ih.2 hs c hc
  | case3 done k h n o call hpos herr =>
    refine ⟨fun _ => ⟨[], call, by simp, ?_, by simp⟩, by simp⟩
    simp only [Stuck, call]; exact ⟨by omega, herr⟩
  | case4 done k h n o call hpos herr hrep =>
    refine ⟨by simp, fun _ c hc => ?_⟩
    simp at hc; subst hc; simp only [Stuck, call]; exact fun h => herr h.2
  | case5 done k h n o call hpos herr hrep r ih =>
    rw [show drain kern gso chunk ctl (done + 1) (k + 1) = r from rfl] at ih
    have hns : ¬ Stuck call := by simp only [Stuck, call]; exact fun h => herr h.2
    refine ⟨fun hs => ?_, fun hs c hc => ?_⟩
    · obtain ⟨init, last, h1, h2, h3⟩ := ih.1 hs
      refine ⟨call :: init, last, by simp [h1], h2, ?_⟩
      intro c hc
      rcases List.mem_cons.mp hc with rfl | hc
      · exact hns
      · exact h3 c hc
    · rcases List.mem_cons.mp hc with rfl | hc
      · exact hns
      · exact ih.2 hs c hc
  | case6 done k h => simp

theorem run_stuck (c : Cfg δ) (kern : Nat → Nat → Outcome) (pk : List (Pkt δ)) (gso : Bool) (i k : Nat) (ctl : Ctl) :
    let r := run c kern pk gso i k ctl
    (r.err = true → ∃ init last, r.calls = init ++ [last] ∧ Stuck last ∧ ∀ c ∈ init, ¬ Stuck c) ∧
    (r.err = false → ∀ c ∈ r.calls, ¬ Stuck c) := by
  fun_induction run c kern pk gso i k ctl with
  | case1 gso i k ctl h p hp => simp
  | case2 gso i k ctl h p hp d hd r ih =>
    rw [show run c kern pk gso p.next (k + d.calls.length) p.ctl = r from rfl] at ih
    have ds := drain_stuck kern gso p.ents p.ctl 0 k
    simp only at ds
    rw [show drain kern gso p.ents p.ctl 0 k = d from rfl] at ds
    have hd' : d.stop ≠ .noProgress := by rw [hd]; simp
    have hn := ds.2 hd'
    refine ⟨fun he => ?_, fun he cc hc => ?_⟩
    · obtain ⟨init, last, h1, h2, h3⟩ := ih.1 he
      refine ⟨d.calls ++ init, last, by simp [h1], h2, ?_⟩
      intro cc hc
      rcases List.mem_append.mp hc with hc | hc
      · exact hn cc hc
      · exact h3 cc hc
    · rcases List.mem_append.mp hc with hc | hc
      · exact hn cc hc
      · exact ih.2 he cc hc
  | case3 gso i k ctl h p hp d i' hd r ih =>
    rw [show run c kern pk false i' (k + d.calls.length) p.ctl = r from rfl] at ih
    have ds := drain_stuck kern gso p.ents p.ctl 0 k
    simp only at ds
    rw [show drain kern gso p.ents p.ctl 0 k = d from rfl] at ds
    have hd' : d.stop ≠ .noProgress := by rw [hd]; simp
    have hn := ds.2 hd'
    refine ⟨fun he => ?_, fun he cc hc => ?_⟩
    · obtain ⟨init, last, h1, h2, h3⟩ := ih.1 he
      refine ⟨d.calls ++ init, last, by simp [h1], h2, ?_⟩
      intro cc hc
      rcases List.mem_append.mp hc with hc | hc
      · exact hn cc hc
      · exact h3 cc hc
    · rcases List.mem_append.mp hc with hc | hc
      · exact hn cc hc
      · exact ih.2 he cc hc
  | case4 gso i k ctl h p hp d hd =>
    have ds := drain_stuck kern gso p.ents p.ctl 0 k
    simp only at ds
    rw [show drain kern gso p.ents p.ctl 0 k = d from rfl] at ds
    exact ⟨fun _ => ds.1 hd, by simp⟩
  | case5 gso i k ctl h p hp d hd =>
    have ds := drain_stuck kern gso p.ents p.ctl 0 k
    simp only at ds
    rw [show drain kern gso p.ents p.ctl 0 k = d from rfl] at ds
    have hd' : d.stop ≠ .noProgress := by rw [hd]; simp
    exact ⟨by simp, fun _ => ds.2 hd'⟩
  | case6 gso i k ctl h => simp

theorem chain_lower (l : List Entry) (lo : Nat) (hp : l.Pairwise Before)
    (hg : ∀ e ∈ l, lo ≤ e.start ∧ 1 ≤ e.cnt) : ∀ j (h : j < l.length), lo + j ≤ l[j].start := by
  induction l generalizing lo with
  | nil => intro j h; simp at h
  | cons e rest ih =>
    intro j h
    cases j with
    | zero => simpa using (hg e List.mem_cons_self).1
    | succ j =>
      have hp' := List.pairwise_cons.mp hp
      have := ih (lo + 1) hp'.2 (fun f hf => by
        have h1 := hp'.1 f hf
        have h2 := hg e List.mem_cons_self
        have h3 := hg f (List.mem_cons_of_mem _ hf)
        simp only [Before] at h1; omega) j (by simpa using h)
      simp only [List.getElem_cons_succ]; omega

theorem chain_length (l : List Entry) (lo hi : Nat) (hlh : lo ≤ hi) (hp : l.Pairwise Before)
    (hg : ∀ e ∈ l, lo ≤ e.start ∧ 1 ≤ e.cnt ∧ e.start + e.cnt ≤ hi) : lo + l.length ≤ hi := by
  rcases Nat.eq_zero_or_pos l.length with h0 | hpos
  · omega
  · have hj : l.length - 1 < l.length := by omega
    have h1 := chain_lower l lo hp (fun e he => ⟨(hg e he).1, (hg e he).2.1⟩) (l.length - 1) hj
    have h2 := hg _ (List.getElem_mem hj)
    omega

theorem drain_calls (kern : Nat → Nat → Outcome) (gso : Bool) (chunk : List Entry) (ctl : Ctl) (done k : Nat) :
    let d := drain kern gso chunk ctl done k
    d.calls.length ≤ chunk.length - done ∧
    (∀ i, d.stop = .replay i → ∃ j, ∃ h : j < chunk.length, done ≤ j ∧ i = chunk[j].start ∧ d.calls.length ≤ j - done + 1) := by
  fun_induction drain kern gso chunk ctl done k with
  | case1 done k h n o call hpos hover => simp; omega
  | case2 done k h n o call hpos hover s r ih =>
    rw [show drain kern gso chunk ctl (done + s) (k + 1) = r from rfl] at ih
    have hs : 1 ≤ s := by simp only [s]; omega
    refine ⟨by simp only [List.length_cons]; omega, fun i hi => ?_⟩
    obtain ⟨j, hj, h1, h2, h3⟩ := ih.2 i hi
    exact ⟨j, hj, by omega, h2, by simp only [List.length_cons]; omega⟩
  | case3 done k h n o call hpos herr => simp; omega
  | case4 done k h n o call hpos herr hrep =>
    refine ⟨by simp; omega, fun i hi => ?_⟩
    simp only [Stop.replay.injEq] at hi
    exact ⟨done, h, Nat.le_refl _, hi.symm, by simp⟩
  | case5 done k h n o call hpos herr hrep r ih =>
    rw [show drain kern gso chunk ctl (done + 1) (k + 1) = r from rfl] at ih
    refine ⟨by simp only [List.length_cons]; omega, fun i hi => ?_⟩
    obtain ⟨j, hj, h1, h2, h3⟩ := ih.2 i hi
    exact ⟨j, hj, by omega, h2, by simp only [List.length_cons]; omega⟩
  | case6 done k h => simp

theorem run_calls (c : Cfg δ) (kern : Nat → Nat → Outcome) (pk : List (Pkt δ)) (gso : Bool)
    (i k : Nat) (ctl : Ctl) (hi : i ≤ pk.length) :
    (run c kern pk gso i k ctl).calls.length ≤ (pk.length - i) + (if gso then (pk.length - i) + 1 else 0) := by
  fun_induction run c kern pk gso i k ctl with
  | case1 gso i k ctl h p hp => simp
  | case2 gso i k ctl h p hp d hd r ih =>
    have ps := pack_spec c gso pk i 0 0 ctl hi
    simp only at ps
    rw [show pack c gso pk i 0 0 ctl = p from rfl] at ps
    obtain ⟨p1, p2, p3, p4, p5⟩ := ps
    have ih := ih p2
    rw [show run c kern pk gso p.next (k + d.calls.length) p.ctl = r from rfl] at ih
    have dc := (drain_calls kern gso p.ents p.ctl 0 k).1
    rw [show drain kern gso p.ents p.ctl 0 k = d from rfl] at dc
    have hl := chain_length p.ents i p.next p1 p4 (fun e he => ⟨(p3 e he).1, (p3 e he).2.2.1.1, (p3 e he).2.1⟩)
    simp only [List.length_append]
    split at ih <;> simp_all <;> omega
  | case3 gso i k ctl h p hp d i' hd r ih =>
    have ps := pack_spec c gso pk i 0 0 ctl hi
    simp only at ps
    rw [show pack c gso pk i 0 0 ctl = p from rfl] at ps
    obtain ⟨p1, p2, p3, p4, p5⟩ := ps
    have hg : gso = true := drain_replay_gso kern gso p.ents p.ctl 0 k i' hd
    have dc := (drain_calls kern gso p.ents p.ctl 0 k).2
    rw [show drain kern gso p.ents p.ctl 0 k = d from rfl] at dc
    obtain ⟨j, hj, _, hij, hcl⟩ := dc i' hd
    have gj := p3 p.ents[j] (List.getElem_mem hj)
    have hlow := chain_lower p.ents i p4 (fun e he => ⟨(p3 e he).1, (p3 e he).2.2.1.1⟩) j hj
    have hi' : i' ≤ pk.length := by rw [hij]; have := gj.2.1; have := gj.2.2.1.1; omega
    have ih := ih hi'
    rw [show run c kern pk false i' (k + d.calls.length) p.ctl = r from rfl] at ih
    simp only [List.length_append, hg, if_true]
    simp at ih
    omega
  | case4 gso i k ctl h p hp d hd =>
    have ps := pack_spec c gso pk i 0 0 ctl hi
    simp only at ps
    rw [show pack c gso pk i 0 0 ctl = p from rfl] at ps
    obtain ⟨p1, p2, p3, p4, p5⟩ := ps
    have dc := (drain_calls kern gso p.ents p.ctl 0 k).1
    rw [show drain kern gso p.ents p.ctl 0 k = d from rfl] at dc
    have hl := chain_length p.ents i p.next p1 p4 (fun e he => ⟨(p3 e he).1, (p3 e he).2.2.1.1, (p3 e he).2.1⟩)
    simp only; split <;> omega
  | case5 gso i k ctl h p hp d hd =>
    have ps := pack_spec c gso pk i 0 0 ctl hi
    simp only at ps
    rw [show pack c gso pk i 0 0 ctl = p from rfl] at ps
    obtain ⟨p1, p2, p3, p4, p5⟩ := ps
    have dc := (drain_calls kern gso p.ents p.ctl 0 k).1
    rw [show drain kern gso p.ents p.ctl 0 k = d from rfl] at dc
    have hl := chain_length p.ents i p.next p1 p4 (fun e he => ⟨(p3 e he).1, (p3 e he).2.2.1.1, (p3 e he).2.1⟩)
    simp only; split <;> omega
  | case6 gso i k ctl h => simp

end Nebula.Lemmas.Writebatch
