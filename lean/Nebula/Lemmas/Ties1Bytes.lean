/-
Byte-assembly arithmetic shared by the `ties1` source ties: the flat big-endian OR of shifted bytes that the
translator emits for `binary.BigEndian.UintN` equals the positional value, and the bytes `PutUintN` stores are
the base-256 digits.
-/
namespace Nebula.Lemmas.Ties1Bytes

theorem or_byte (x d : Nat) (hd : d < 256) : (x <<< 8) ||| d = x * 256 + d := by
  rw [← Nat.shiftLeft_add_eq_or_of_lt (by simpa using hd), Nat.shiftLeft_eq]

theorem be2 (a b : Nat) (_ha : a < 256) (hb : b < 256) :
    (a <<< 8 ||| b <<< 0) = a * 256 + b := by
  simp only [Nat.shiftLeft_zero, or_byte _ _ hb]

theorem be4 (a b c d : Nat) (_ha : a < 256) (hb : b < 256) (hc : c < 256) (hd : d < 256) :
    (a <<< 24 ||| b <<< 16 ||| c <<< 8 ||| d <<< 0) = a * 256 ^ 3 + b * 256 ^ 2 + c * 256 + d := by
  have e : (a <<< 24 ||| b <<< 16 ||| c <<< 8 ||| d <<< 0) = (((a <<< 8 ||| b) <<< 8 ||| c) <<< 8 ||| d) := by
    simp only [Nat.shiftLeft_or_distrib, ← Nat.shiftLeft_add, Nat.shiftLeft_zero, Nat.reduceAdd]
  rw [e, or_byte _ _ hd, or_byte _ _ hc, or_byte _ _ hb]
  omega

theorem be8 (a b c d e f g h : Nat) (_ha : a < 256) (hb : b < 256) (hc : c < 256) (hd : d < 256)
    (he : e < 256) (hf : f < 256) (hg : g < 256) (hh : h < 256) :
    (a <<< 56 ||| b <<< 48 ||| c <<< 40 ||| d <<< 32 ||| e <<< 24 ||| f <<< 16 ||| g <<< 8 ||| h <<< 0)
      = a * 256 ^ 7 + b * 256 ^ 6 + c * 256 ^ 5 + d * 256 ^ 4 + e * 256 ^ 3 + f * 256 ^ 2 + g * 256 + h := by
  have e' : (a <<< 56 ||| b <<< 48 ||| c <<< 40 ||| d <<< 32 ||| e <<< 24 ||| f <<< 16 ||| g <<< 8 ||| h <<< 0)
      = (((((((a <<< 8 ||| b) <<< 8 ||| c) <<< 8 ||| d) <<< 8 ||| e) <<< 8 ||| f) <<< 8 ||| g) <<< 8 ||| h) := by
    simp only [Nat.shiftLeft_or_distrib, ← Nat.shiftLeft_add, Nat.shiftLeft_zero, Nat.reduceAdd]
  rw [e', or_byte _ _ hh, or_byte _ _ hg, or_byte _ _ hf, or_byte _ _ he, or_byte _ _ hd, or_byte _ _ hc,
    or_byte _ _ hb]
  omega

/-- the byte `PutUintN` stores at distance `s/8` from the least significant end. -/
theorem byte_of_shift {w : Nat} (x : BitVec w) (s : Nat) :
    (BitVec.setWidth 8 (x >>> s)).toNat = x.toNat / 2 ^ s % 256 := by
  simp [BitVec.toNat_setWidth, BitVec.toNat_ushiftRight, Nat.shiftRight_eq_div_pow]

theorem toNat_byte_shl {w : Nat} (b : BitVec 8) (s : Nat) (h : s + 8 ≤ w) :
    (BitVec.setWidth w b <<< s).toNat = b.toNat <<< s := by
  have hb := b.isLt
  have h1 : b.toNat < 2 ^ w := Nat.lt_of_lt_of_le hb (Nat.pow_le_pow_right (by decide) (by omega))
  rw [BitVec.toNat_shiftLeft, BitVec.toNat_setWidth, Nat.mod_eq_of_lt h1, Nat.shiftLeft_eq]
  apply Nat.mod_eq_of_lt
  calc b.toNat * 2 ^ s < 2 ^ 8 * 2 ^ s := Nat.mul_lt_mul_of_pos_right hb (Nat.pow_pos (by decide))
    _ = 2 ^ (8 + s) := by rw [Nat.pow_add]
    _ ≤ 2 ^ w := Nat.pow_le_pow_right (by decide) (by omega)

end Nebula.Lemmas.Ties1Bytes
