import Nebula.Lemmas.DnsSpec

namespace Nebula.Lemmas.Dns
open Nebula.Net Nebula.Dns Nebula.Spec.Dns

def hasKey (m : Tbl) (n : Name) : Bool := (m.get n).isSome

theorem get_set (m : Tbl) (k n : Name) (v : Addr) :
    (m.set k v).get n = if k == n then some v else m.get n := by
  simp only [Tbl.get, Tbl.set, List.find?_cons]
  split <;> simp_all

theorem get_del (m : Tbl) (k n : Name) : (m.del k).get n = if n == k then none else m.get n := by
  simp only [Tbl.get, Tbl.del, List.find?_filter]
  split
  · rename_i h
    have hk : n = k := by simpa using h
    subst hk
    have : m.find? (fun a => a.1 != n && a.1 == n) = none := by
      rw [List.find?_eq_none]; intro x _; simp
    simp [this]
  · rename_i h
    have hk : ¬ n = k := by simpa using h
    have : (fun (a : Name × Addr) => decide ((a.1 != k) = true ∧ (a.1 == n) = true)) = (fun a => a.1 == n) := by
      funext a
      by_cases ha : a.1 = n
      · subst ha; simp [hk]
      · simp [ha]
    rw [this]

theorem hasKey_set (m : Tbl) (k n : Name) (v : Addr) : hasKey (m.set k v) n = (k == n || hasKey m n) := by
  simp only [hasKey, get_set]; split <;> simp_all

theorem hasKey_del (m : Tbl) (k n : Name) : hasKey (m.del k) n = (!(n == k) && hasKey m n) := by
  simp only [hasKey, get_del]; split <;> simp_all

theorem fam_cases (a : Addr) : a.is4 = true ∨ a.is6 = true := by
  cases a with | mk fam val =>
    cases fam
    · left; rfl
    · right; rfl

/-- the add loop only ever adds the key `host`, and never removes a key. -/
theorem addLoop_keys (host : Name) (addrs : List Addr) :
    ∀ (h4 h6 : Bool) (m4 m6 : Tbl) (n : Name),
      (hasKey (addLoop host addrs h4 h6 m4 m6).1 n = true → hasKey m4 n = true ∨ n = host) ∧
      (hasKey (addLoop host addrs h4 h6 m4 m6).2 n = true → hasKey m6 n = true ∨ n = host) ∧
      (hasKey m4 n = true → hasKey (addLoop host addrs h4 h6 m4 m6).1 n = true) ∧
      (hasKey m6 n = true → hasKey (addLoop host addrs h4 h6 m4 m6).2 n = true) := by
  induction addrs with
  | nil => intro h4 h6 m4 m6 n; simp only [addLoop]; exact ⟨Or.inl, Or.inl, id, id⟩
  | cons a as ih =>
    intro h4 h6 m4 m6 n
    unfold addLoop
    split
    · exact ⟨Or.inl, Or.inl, id, id⟩
    · split
      · have hs : ∀ x, hasKey (m4.set host a) x = (host == x || hasKey m4 x) := fun x => hasKey_set _ _ _ _
        split
        · simp only [hs]
          refine ⟨?_, ?_, ?_, ?_⟩
          · intro h; simp at h; rcases h with h | h; right; exact h.symm; left; exact h
          · intro h; left; exact h
          · intro h; simp [h]
          · intro h; exact h
        · obtain ⟨i1, i2, i3, i4⟩ := ih true h6 (m4.set host a) m6 n
          refine ⟨?_, i2, ?_, i4⟩
          · intro h
            rcases i1 h with h | h
            · rw [hs] at h; simp at h; rcases h with h | h; right; exact h.symm; left; exact h
            · right; exact h
          · intro h; apply i3; rw [hs]; simp [h]
      · split
        · have hs : ∀ x, hasKey (m6.set host a) x = (host == x || hasKey m6 x) := fun x => hasKey_set _ _ _ _
          split
          · simp only [hs]
            refine ⟨?_, ?_, ?_, ?_⟩
            · intro h; left; exact h
            · intro h; simp at h; rcases h with h | h; right; exact h.symm; left; exact h
            · intro h; exact h
            · intro h; simp [h]
          · obtain ⟨i1, i2, i3, i4⟩ := ih h4 true m4 (m6.set host a) n
            refine ⟨i1, ?_, i3, ?_⟩
            · intro h
              rcases i2 h with h | h
              · rw [hs] at h; simp at h; rcases h with h | h; right; exact h.symm; left; exact h
              · right; exact h
            · intro h; apply i4; rw [hs]; simp [h]
        · exact ih h4 h6 m4 m6 n

/-- on a non-empty address list (every address is IPv4 or IPv6) the loop publishes `host`. -/
theorem addLoop_adds (host : Name) (a : Addr) (as : List Addr) (m4 m6 : Tbl) :
    hasKey (addLoop host (a :: as) false false m4 m6).1 host = true ∨
    hasKey (addLoop host (a :: as) false false m4 m6).2 host = true := by
  unfold addLoop
  simp only [Bool.false_and, Bool.false_eq_true, if_false, Bool.not_false, Bool.and_true]
  rcases fam_cases a with h | h
  · left
    rw [if_pos h]
    exact (addLoop_keys host as true false (m4.set host a) m6 host).2.2.1 (by rw [hasKey_set]; simp)
  · by_cases h4 : a.is4 = true
    · left
      rw [if_pos h4]
      exact (addLoop_keys host as true false (m4.set host a) m6 host).2.2.1 (by rw [hasKey_set]; simp)
    · right
      rw [if_neg h4, if_pos h]
      exact (addLoop_keys host as false true m4 (m6.set host a) host).2.2.2 (by rw [hasKey_set]; simp)

/-- the published-key effect of the loop started with both flags clear. -/
theorem addLoop_published (host : Name) (addrs : List Addr) (m4 m6 : Tbl) (n : Name) :
    (hasKey (addLoop host addrs false false m4 m6).1 n || hasKey (addLoop host addrs false false m4 m6).2 n) =
      ((hasKey m4 n || hasKey m6 n) || (n == host && !addrs.isEmpty)) := by
  obtain ⟨i1, i2, i3, i4⟩ := addLoop_keys host addrs false false m4 m6 n
  cases addrs with
  | nil => simp [addLoop]
  | cons a as =>
    by_cases hn : n = host
    · subst hn
      have := addLoop_adds n a as m4 m6
      rcases this with h | h <;> simp [h]
    · have hne : (n == host) = false := by simpa using hn
      rw [hne]
      simp only [Bool.false_and, Bool.or_false]
      cases h4 : hasKey m4 n <;> cases h6 : hasKey m6 n
      · have e1 : hasKey (addLoop host (a :: as) false false m4 m6).1 n = false := by
          cases h : hasKey (addLoop host (a :: as) false false m4 m6).1 n
          · rfl
          · rcases i1 h with h' | h'
            · rw [h4] at h'; cases h'
            · exact absurd h' hn
        have e2 : hasKey (addLoop host (a :: as) false false m4 m6).2 n = false := by
          cases h : hasKey (addLoop host (a :: as) false false m4 m6).2 n
          · rfl
          · rcases i2 h with h' | h'
            · rw [h6] at h'; cases h'
            · exact absurd h' hn
        simp [e1, e2]
      · simp [i4 h6]
      · simp [i3 h4]
      · simp [i3 h4]

end Nebula.Lemmas.Dns
