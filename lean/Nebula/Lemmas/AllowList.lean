/-
Helper lemmas for C38 (allow lists): characterisation of `Nebula.Net.lpm`, `tinsert`, and the loop
invariant of `newAllowList`.
-/
import Nebula.Model.AllowList
import Nebula.Spec.AllowList

namespace Nebula.Lemmas.AllowList
open Nebula.Net Nebula.AllowList

instance : LawfulBEq Fam where
  eq_of_beq {a b} h := by cases a <;> cases b <;> first | rfl | cases h
  rfl {a} := by cases a <;> rfl

/-! ### longest-prefix match -/

def lpmStep {α : Type} (a : Addr) (acc : Option (Prefix × α)) (e : Prefix × α) : Option (Prefix × α) :=
  if e.1.contains a then
    match acc with
    | none => some e
    | some b => if b.1.len < e.1.len then some e else acc
  else acc

theorem lpm_eq {α : Type} (tbl : List (Prefix × α)) (a : Addr) :
    lpm tbl a = (tbl.foldl (lpmStep a) none).map (·.2) := rfl

/-- `acc` is a best match among `seen`. -/
def BestIn {α : Type} (a : Addr) (acc : Option (Prefix × α)) (seen : List (Prefix × α)) : Prop :=
  match acc with
  | none => ∀ e ∈ seen, e.1.contains a = false
  | some b => b ∈ seen ∧ b.1.contains a = true ∧ ∀ e ∈ seen, e.1.contains a = true → e.1.len ≤ b.1.len

theorem bestIn_foldl {α : Type} (a : Addr) (l : List (Prefix × α)) :
    ∀ (acc : Option (Prefix × α)) (seen : List (Prefix × α)), BestIn a acc seen →
      BestIn a (l.foldl (lpmStep a) acc) (seen ++ l) := by
  induction l with
  | nil => intro acc seen h; simpa using h
  | cons e l ih =>
    intro acc seen h
    have : seen ++ e :: l = (seen ++ [e]) ++ l := by simp
    rw [List.foldl_cons, this]
    apply ih
    unfold lpmStep
    by_cases hc : e.1.contains a = true
    · simp only [hc, if_true]
      cases acc with
      | none =>
        simp only [BestIn] at h ⊢
        refine ⟨by simp, hc, ?_⟩
        intro e' he' hc'
        rcases List.mem_append.mp he' with h1 | h1
        · rw [h _ h1] at hc'; cases hc'
        · simp at h1; subst h1; exact Nat.le_refl _
      | some b =>
        simp only [BestIn] at h
        obtain ⟨hb, hbc, hmax⟩ := h
        by_cases hlt : b.1.len < e.1.len
        · simp only [hlt, if_true, BestIn]
          refine ⟨by simp, hc, ?_⟩
          intro e' he' hc'
          rcases List.mem_append.mp he' with h1 | h1
          · have := hmax _ h1 hc'; omega
          · simp at h1; subst h1; exact Nat.le_refl _
        · simp only [hlt, if_false, BestIn]
          refine ⟨by simp [hb], hbc, ?_⟩
          intro e' he' hc'
          rcases List.mem_append.mp he' with h1 | h1
          · exact hmax _ h1 hc'
          · simp at h1; subst h1; omega
    · have hc' : e.1.contains a = false := by simpa using hc
      simp only [hc', Bool.false_eq_true, if_false]
      cases acc with
      | none =>
        simp only [BestIn] at h ⊢
        intro e' he'
        rcases List.mem_append.mp he' with h1 | h1
        · exact h _ h1
        · simp at h1; subst h1; exact hc'
      | some b =>
        simp only [BestIn] at h ⊢
        obtain ⟨hb, hbc, hmax⟩ := h
        refine ⟨by simp [hb], hbc, ?_⟩
        intro e' he' hc''
        rcases List.mem_append.mp he' with h1 | h1
        · exact hmax _ h1 hc''
        · simp at h1; subst h1; rw [hc'] at hc''; cases hc''

theorem lpm_none {α : Type} (tbl : List (Prefix × α)) (a : Addr) :
    lpm tbl a = none ↔ ∀ e ∈ tbl, e.1.contains a = false := by
  have h := bestIn_foldl a tbl none [] (by simp [BestIn])
  rw [lpm_eq]
  simp only [List.nil_append] at h
  cases hr : tbl.foldl (lpmStep a) none with
  | none => rw [hr] at h; simpa [BestIn] using h
  | some b =>
    rw [hr] at h
    simp only [BestIn] at h
    simp only [Option.map_some, reduceCtorEq, false_iff]
    intro hall
    rw [hall _ h.1] at h
    exact absurd h.2.1 (by simp)

theorem lpm_some {α : Type} (tbl : List (Prefix × α)) (a : Addr) (v : α) (h : lpm tbl a = some v) :
    ∃ e ∈ tbl, e.2 = v ∧ e.1.contains a = true ∧
      ∀ e' ∈ tbl, e'.1.contains a = true → e'.1.len ≤ e.1.len := by
  have hb := bestIn_foldl a tbl none [] (by simp [BestIn])
  rw [lpm_eq] at h
  simp only [List.nil_append] at hb
  cases hr : tbl.foldl (lpmStep a) none with
  | none => rw [hr] at h; simp at h
  | some b =>
    rw [hr] at h hb
    simp only [BestIn] at hb
    simp only [Option.map_some, Option.some.injEq] at h
    exact ⟨b, hb.1, h, hb.2.1, hb.2.2⟩


/-! ### prefixes -/

theorem norm_eq_unmapPrefix (p : Prefix) : Spec.AllowList.norm p = unmapPrefix p := rfl

theorem samePfx_fam {p q : Prefix} (h : samePfx p q = true) : p.addr.fam = q.addr.fam := by
  simp [samePfx] at h; exact h.1.1

theorem samePfx_len {p q : Prefix} (h : samePfx p q = true) : p.len = q.len := by
  simp [samePfx] at h; exact h.1.2

theorem samePfx_contains {p q : Prefix} (h : samePfx p q = true) (a : Addr) :
    p.contains a = q.contains a := by
  simp only [samePfx, Bool.and_eq_true, beq_iff_eq] at h
  obtain ⟨⟨hf, hl⟩, ht⟩ := h
  simp only [Prefix.contains, ← hf, ← hl]
  by_cases hfa : p.addr.fam = a.fam
  · rw [← hfa, ht]
  · have : (p.addr.fam == a.fam) = false := by simpa using hfa
    simp [this]

theorem samePfx_refl (p : Prefix) : samePfx p p = true := by simp [samePfx]

theorem mem_tinsert {α : Type} (t : Table α) (p : Prefix) (v : α) (x : Prefix × α) :
    x ∈ tinsert t p v ↔
      (pfxValid p = true ∧ (x = (p, v) ∨ (x ∈ t ∧ samePfx x.1 p = false))) ∨ (pfxValid p = false ∧ x ∈ t) := by
  unfold tinsert
  by_cases hv : pfxValid p = true
  · simp only [hv, if_true, List.mem_append, List.mem_filter, List.mem_singleton, true_and,
      Bool.true_eq_false, false_and, or_false, Bool.not_eq_true']
    constructor
    · rintro (h | h)
      · exact Or.inr h
      · exact Or.inl h
    · rintro (h | h)
      · exact Or.inr h
      · exact Or.inl h
  · have hv' : pfxValid p = false := by simpa using hv
    simp [hv']

theorem unmap_wf {a : Addr} (h : a.WF) : a.unmap.WF := by
  unfold Addr.unmap
  split
  · simp only [Addr.WF, Fam.bits]; exact Nat.mod_lt _ (by decide)
  · exact h

theorem unmap_unmap (a : Addr) : a.unmap.unmap = a.unmap := by
  unfold Addr.unmap
  split
  · simp [Addr.is4in6]
  · rename_i h; simp [h]

theorem unmap_fam_of_is4in6 {a : Addr} (h : a.is4in6 = true) : a.unmap.fam = .v4 := by
  simp [Addr.unmap, h]

theorem is4in6_fam {a : Addr} (h : a.is4in6 = true) : a.fam = .v6 := by
  simp [Addr.is4in6] at h; exact h.1

theorem unmapPrefix_wf {p : Prefix} (h : p.WF) : (unmapPrefix p).WF := by
  unfold unmapPrefix
  split
  · rename_i hc
    simp only [Bool.and_eq_true, decide_eq_true_eq] at hc
    refine ⟨unmap_wf h.1, ?_⟩
    have hl := h.2
    rw [is4in6_fam hc.1] at hl
    simp only [unmap_fam_of_is4in6 hc.1, Fam.bits] at hl ⊢
    omega
  · exact h

theorem unmapPrefix_valid {p : Prefix} (h : p.WF) : pfxValid (unmapPrefix p) = true := by
  have := (unmapPrefix_wf h).2
  simpa [pfxValid] using this

theorem unmapPrefix_idem (p : Prefix) : unmapPrefix (unmapPrefix p) = unmapPrefix p := by
  unfold unmapPrefix
  split
  · rename_i hc
    simp only [Bool.and_eq_true, decide_eq_true_eq] at hc
    have : (Addr.unmap p.addr).is4in6 = false := by
      have := unmap_fam_of_is4in6 hc.1
      simp [Addr.is4in6, this]
    simp [this]
  · rename_i hc; simp [hc]

theorem topBits_zero {f : Fam} {v : Nat} (h : v < 2 ^ f.bits) : topBits f v 0 = 0 := by
  simp [topBits, Nat.shiftRight_eq_div_pow, Nat.div_eq_of_lt h]

/-- a /0 prefix contains every address of its family. -/
theorem contains_len0 {p : Prefix} (hp : p.WF) (h0 : p.len = 0) {a : Addr} (ha : a.WF)
    (hf : p.addr.fam = a.fam) : p.contains a = true := by
  have h1 := topBits_zero (f := a.fam) (v := p.addr.val) (by rw [← hf]; exact hp.1)
  have h2 := topBits_zero (f := a.fam) (v := a.val) ha
  simp [Prefix.contains, hf, h0, h1, h2]

theorem contains_fam {p : Prefix} {a : Addr} (h : p.contains a = true) : p.addr.fam = a.fam := by
  simp [Prefix.contains] at h; exact h.1.1


/-! ### the bookkeeping of `newAllowList` -/

open Spec.AllowList (Cfg ofFam normed norm)

structure RulesInv (r : Rules) (l : Cfg) : Prop where
  first : r.firstValue = true → l = [] ∧ r.allValuesMatch = true ∧ r.allValues = false
  later : r.firstValue = false →
    (∃ e ∈ l, e.2 = r.allValues) ∧ (r.allValuesMatch = true ↔ ∀ e ∈ l, e.2 = r.allValues)
  dflt : r.defaultSet = l.any (fun e => e.1.len == 0)

theorem rulesInv_init : RulesInv {} [] :=
  ⟨fun _ => ⟨rfl, rfl, rfl⟩, fun h => by simp at h, rfl⟩

theorem rulesInv_step {r : Rules} {l : Cfg} (h : RulesInv r l) (p : Prefix) (v : Bool) :
    RulesInv (r.step v p.len) (l ++ [(p, v)]) := by
  obtain ⟨h1, h2, h3⟩ := h
  cases hf : r.firstValue with
  | true =>
    obtain ⟨hl, hm, ha⟩ := h1 hf
    subst hl
    simp only [List.any_nil] at h3
    constructor
    · intro hfv; simp only [Rules.step, hf, if_true] at hfv; split at hfv <;> simp at hfv
    · intro _
      simp only [Rules.step, hf, if_true]
      split <;> simp [hm]
    · simp only [Rules.step, hf, if_true]
      split <;> simp_all
  | false =>
    obtain ⟨⟨e, he, hev⟩, hm⟩ := h2 hf
    constructor
    · intro hfv
      simp only [Rules.step, hf, Bool.false_eq_true, if_false] at hfv
      split at hfv <;> split at hfv <;> simp [hf] at hfv
    · intro _
      by_cases hv : v = r.allValues
      · subst hv
        simp only [Rules.step, hf, Bool.false_eq_true, if_false, bne_self_eq_false]
        split
        · refine ⟨⟨e, by simp [he], hev⟩, ?_⟩
          simp only [List.mem_append, List.mem_singleton]
          rw [hm]
          constructor
          · intro hh x hx; rcases hx with hx | hx
            · exact hh x hx
            · subst hx; rfl
          · intro hh x hx; exact hh x (Or.inl hx)
        · refine ⟨⟨e, by simp [he], hev⟩, ?_⟩
          simp only [List.mem_append, List.mem_singleton]
          rw [hm]
          constructor
          · intro hh x hx; rcases hx with hx | hx
            · exact hh x hx
            · subst hx; rfl
          · intro hh x hx; exact hh x (Or.inl hx)
      · have hne : (v != r.allValues) = true := by simpa using hv
        simp only [Rules.step, hf, Bool.false_eq_true, if_false, hne, if_true]
        split
        · refine ⟨⟨e, by simp [he], hev⟩, ?_⟩
          simp only [Bool.false_eq_true, false_iff]
          intro hh
          exact hv (hh (p, v) (by simp))
        · refine ⟨⟨e, by simp [he], hev⟩, ?_⟩
          simp only [Bool.false_eq_true, false_iff]
          intro hh
          exact hv (hh (p, v) (by simp))
    · simp only [Rules.step, hf, Bool.false_eq_true, if_false]
      split <;> split <;> simp_all


theorem samePfx_symm {p q : Prefix} (h : samePfx p q = true) : samePfx q p = true := by
  simp only [samePfx, Bool.and_eq_true, beq_iff_eq] at h ⊢
  obtain ⟨⟨hf, hl⟩, ht⟩ := h
  exact ⟨⟨hf.symm, hl.symm⟩, by rw [← hf, ← hl]; exact ht.symm⟩

theorem samePfx_trans {p q r : Prefix} (h1 : samePfx p q = true) (h2 : samePfx q r = true) :
    samePfx p r = true := by
  simp only [samePfx, Bool.and_eq_true, beq_iff_eq] at h1 h2 ⊢
  obtain ⟨⟨hf, hl⟩, ht⟩ := h1
  obtain ⟨⟨hf', hl'⟩, ht'⟩ := h2
  exact ⟨⟨hf.trans hf', hl.trans hl'⟩, by rw [ht, hf, hl]; exact ht'⟩

/-- inserting keeps every network that was represented, represented. -/
theorem tinsert_represents {α : Type} (t : Table α) (p : Prefix) (v : α) (q : Prefix)
    (h : ∃ x ∈ t, samePfx x.1 q = true) : ∃ x ∈ tinsert t p v, samePfx x.1 q = true := by
  obtain ⟨x, hx, hs⟩ := h
  by_cases hv : pfxValid p = true
  · by_cases hsp : samePfx x.1 p = true
    · exact ⟨(p, v), (mem_tinsert t p v _).mpr (Or.inl ⟨hv, Or.inl rfl⟩), samePfx_trans (samePfx_symm hsp) hs⟩
    · have hsp' : samePfx x.1 p = false := by simpa using hsp
      exact ⟨x, (mem_tinsert t p v _).mpr (Or.inl ⟨hv, Or.inr ⟨hx, hsp'⟩⟩), hs⟩
  · have hv' : pfxValid p = false := by simpa using hv
    exact ⟨x, (mem_tinsert t p v _).mpr (Or.inr ⟨hv', hx⟩), hs⟩

theorem mem_tinsert_cases {α : Type} {t : Table α} {p : Prefix} {v : α} {x : Prefix × α}
    (h : x ∈ tinsert t p v) : x = (p, v) ∨ x ∈ t := by
  rcases (mem_tinsert t p v x).mp h with ⟨_, h | h⟩ | ⟨_, h⟩
  · exact Or.inl h
  · exact Or.inr h.1
  · exact Or.inr h

theorem self_mem_tinsert {α : Type} (t : Table α) {p : Prefix} (v : α) (hv : pfxValid p = true) :
    (p, v) ∈ tinsert t p v := (mem_tinsert t p v _).mpr (Or.inl ⟨hv, Or.inl rfl⟩)

theorem ofFam_append_single (f : Fam) (done : Cfg) (e : Prefix × Bool) :
    ofFam f (done ++ [e]) =
      ofFam f done ++ (if (unmapPrefix e.1).addr.fam == f then [(unmapPrefix e.1, e.2)] else []) := by
  simp only [ofFam, normed, List.map_append, List.filter_append, List.map_cons, List.map_nil,
    norm_eq_unmapPrefix]
  congr 1
  by_cases h : ((unmapPrefix e.1).addr.fam == f) = true
  · simp [List.filter, h]
  · have h' : ((unmapPrefix e.1).addr.fam == f) = false := by simpa using h
    simp [List.filter, h']

structure Inv (s : St) (done : Cfg) : Prop where
  sound : ∀ x ∈ s.tree, ∃ e ∈ done, unmapPrefix e.1 = x.1 ∧ e.2 = x.2
  complete : ∀ e ∈ done, ∃ x ∈ s.tree, samePfx x.1 (unmapPrefix e.1) = true
  r4 : RulesInv s.r4 (ofFam .v4 done)
  r6 : RulesInv s.r6 (ofFam .v6 done)

theorem inv_init : Inv {} [] :=
  ⟨fun x hx => by simp [St.tree] at hx, fun e he => by simp at he, rulesInv_init, rulesInv_init⟩

theorem fam_cases (f : Fam) : f = .v4 ∨ f = .v6 := by cases f <;> simp

theorem inv_step {s : St} {done : Cfg} (h : Inv s done) (e : Prefix × Bool) (hwf : e.1.WF) :
    ∃ s', loopStep s { key := some e.1, val := some e.2 } = .ok s' ∧ Inv s' (done ++ [e]) := by
  have hval := unmapPrefix_valid hwf
  have hsound : ∀ x ∈ tinsert s.tree (unmapPrefix e.1) e.2,
      ∃ e' ∈ done ++ [e], unmapPrefix e'.1 = x.1 ∧ e'.2 = x.2 := by
    intro x hx
    rcases mem_tinsert_cases hx with hx | hx
    · subst hx; exact ⟨e, by simp, rfl, rfl⟩
    · obtain ⟨e', he', h1, h2⟩ := h.sound x hx
      exact ⟨e', by simp [he'], h1, h2⟩
  have hcomplete : ∀ e' ∈ done ++ [e],
      ∃ x ∈ tinsert s.tree (unmapPrefix e.1) e.2, samePfx x.1 (unmapPrefix e'.1) = true := by
    intro e' he'
    rcases List.mem_append.mp he' with he' | he'
    · exact tinsert_represents _ _ _ _ (h.complete e' he')
    · simp at he'; subst he'
      exact ⟨_, self_mem_tinsert _ _ hval, samePfx_refl _⟩
  simp only [loopStep]
  by_cases h4 : (unmapPrefix e.1).addr.is4 = true
  · simp only [h4, if_true]
    refine ⟨_, rfl, hsound, hcomplete, ?_, ?_⟩
    · have hf : ((unmapPrefix e.1).addr.fam == Fam.v4) = true := by simpa [Addr.is4] using h4
      rw [ofFam_append_single, hf]; exact rulesInv_step h.r4 _ _
    · have hf : ((unmapPrefix e.1).addr.fam == Fam.v6) = false := by
        have : (unmapPrefix e.1).addr.fam = Fam.v4 := by simpa [Addr.is4] using h4
        simp [this]
      rw [ofFam_append_single, hf]; simpa using h.r6
  · have h4' : (unmapPrefix e.1).addr.is4 = false := by simpa using h4
    simp only [h4', Bool.false_eq_true, if_false]
    have hne : (unmapPrefix e.1).addr.fam ≠ Fam.v4 := by simpa [Addr.is4] using h4'
    have h6 : (unmapPrefix e.1).addr.fam = Fam.v6 := by
      rcases fam_cases (unmapPrefix e.1).addr.fam with h | h
      · exact absurd h hne
      · exact h
    refine ⟨_, rfl, hsound, hcomplete, ?_, ?_⟩
    · have hf : ((unmapPrefix e.1).addr.fam == Fam.v4) = false := by simp [h6]
      rw [ofFam_append_single, hf]; simpa using h.r4
    · have hf : ((unmapPrefix e.1).addr.fam == Fam.v6) = true := by simp [h6]
      rw [ofFam_append_single, hf]; exact rulesInv_step h.r6 _ _

/-- raw entries of a well-formed configuration. -/
def entriesOf (es : Cfg) : List Entry := es.map fun e => { key := some e.1, val := some e.2 }

theorem loop_inv (rest : Cfg) : ∀ (s : St) (done : Cfg), Inv s done → (∀ e ∈ rest, e.1.WF) →
    ∃ s', loop s (entriesOf rest) = .ok s' ∧ Inv s' (done ++ rest) := by
  induction rest with
  | nil => intro s done h _; exact ⟨s, rfl, by simpa using h⟩
  | cons e rest ih =>
    intro s done h hwf
    obtain ⟨s1, hs1, h1⟩ := inv_step h e (hwf e (by simp))
    obtain ⟨s2, hs2, h2⟩ := ih s1 (done ++ [e]) h1 (fun x hx => hwf x (by simp [hx]))
    refine ⟨s2, ?_, by simpa using h2⟩
    simp only [entriesOf, List.map_cons, loop, hs1]
    exact hs2


/-! ### after the loop -/

open Spec.AllowList (hasDefault mixed refused implicitDefault matching admissible)

theorem rulesInv_match {r : Rules} {l : Cfg} (h : RulesInv r l) :
    r.allValuesMatch = !(l.any (fun e => e.2) && l.any (fun e => !e.2)) := by
  cases hf : r.firstValue with
  | true => obtain ⟨hl, hm, _⟩ := h.first hf; subst hl; simp [hm]
  | false =>
    obtain ⟨⟨e0, he0, hv0⟩, hm⟩ := h.later hf
    by_cases hall : ∀ e ∈ l, e.2 = r.allValues
    · rw [hm.mpr hall]
      symm
      simp only [Bool.not_eq_true', Bool.and_eq_false_iff]
      cases hav : r.allValues with
      | true =>
        right
        rw [List.any_eq_false]
        intro e he; simp [hall e he, hav]
      | false =>
        left
        rw [List.any_eq_false]
        intro e he; simp [hall e he, hav]
    · have hm' : r.allValuesMatch = false := by
        cases hmm : r.allValuesMatch with
        | false => rfl
        | true => exact absurd (hm.mp hmm) hall
      rw [hm']
      symm
      simp only [Bool.not_eq_false', Bool.and_eq_true, List.any_eq_true]
      have ⟨e1, he1, hv1⟩ : ∃ e ∈ l, e.2 ≠ r.allValues := by
        simp only [Classical.not_forall, Classical.not_imp] at hall
        obtain ⟨e, he, hne⟩ := hall
        exact ⟨e, he, hne⟩
      cases hav : r.allValues with
      | true =>
        rw [hav] at hv0 hv1
        refine ⟨⟨e0, he0, hv0⟩, ⟨e1, he1, ?_⟩⟩
        cases h2 : e1.2 <;> simp_all
      | false =>
        rw [hav] at hv0 hv1
        refine ⟨⟨e1, he1, ?_⟩, ⟨e0, he0, by simp [hv0]⟩⟩
        cases h2 : e1.2 <;> simp_all

theorem rulesInv_default {r : Rules} {l : Cfg} (h : RulesInv r l) (hm : r.allValuesMatch = true) :
    (!r.allValues) = !(l.any (fun e => e.2)) := by
  cases hf : r.firstValue with
  | true => obtain ⟨hl, _, ha⟩ := h.first hf; subst hl; simp [ha]
  | false =>
    obtain ⟨⟨e0, he0, hv0⟩, hmm⟩ := h.later hf
    have hall := hmm.mp hm
    congr 1
    cases hav : r.allValues with
    | true => symm; rw [List.any_eq_true]; exact ⟨e0, he0, by rw [hv0, hav]⟩
    | false => symm; rw [List.any_eq_false]; intro e he; simp [hall e he, hav]

def PSound (t : Table Bool) (es : Cfg) : Prop :=
  ∀ x ∈ t, (∃ e ∈ es, unmapPrefix e.1 = x.1 ∧ e.2 = x.2) ∨
    (x.1.len = 0 ∧ hasDefault x.1.addr.fam es = false ∧ x.2 = implicitDefault x.1.addr.fam es)

def PComplete (t : Table Bool) (es : Cfg) : Prop :=
  ∀ e ∈ es, ∃ x ∈ t, samePfx x.1 (unmapPrefix e.1) = true

def PTotal (f : Fam) (t : Table Bool) : Prop :=
  ∃ x ∈ t, x.1.addr.fam = f ∧ x.1.len = 0 ∧ x.1.WF

structure Final (t : Table Bool) (es : Cfg) : Prop where
  sound : PSound t es
  complete : PComplete t es
  total : ∀ f, PTotal f t

def dflt (f : Fam) : Prefix := { addr := { fam := f, val := 0 }, len := 0 }

theorem dflt_wf (f : Fam) : (dflt f).WF := by
  constructor
  · simp only [Addr.WF, dflt]; exact Nat.two_pow_pos _
  · simp [dflt]

theorem dflt_valid (f : Fam) : pfxValid (dflt f) = true := by simp [pfxValid, dflt]

theorem ptotal_tinsert {f g : Fam} {t : Table Bool} (v : Bool) (h : PTotal g t) :
    PTotal g (tinsert t (dflt f) v) := by
  obtain ⟨x, hx, hf, hl, hw⟩ := h
  by_cases hs : samePfx x.1 (dflt f) = true
  · refine ⟨(dflt f, v), self_mem_tinsert _ _ (dflt_valid f), ?_, rfl, dflt_wf f⟩
    rw [← hf]; exact (samePfx_fam hs).symm
  · have hs' : samePfx x.1 (dflt f) = false := by simpa using hs
    exact ⟨x, (mem_tinsert _ _ _ _).mpr (Or.inl ⟨dflt_valid f, Or.inr ⟨hx, hs'⟩⟩), hf, hl, hw⟩

theorem insert_default {t : Table Bool} {es : Cfg} (f : Fam) (hs : PSound t es) (hc : PComplete t es)
    (hd : hasDefault f es = false) :
    PSound (tinsert t (dflt f) (implicitDefault f es)) es ∧
    PComplete (tinsert t (dflt f) (implicitDefault f es)) es ∧
    PTotal f (tinsert t (dflt f) (implicitDefault f es)) := by
  refine ⟨?_, ?_, ?_⟩
  · intro x hx
    rcases mem_tinsert_cases hx with hx | hx
    · subst hx; exact Or.inr ⟨rfl, hd, rfl⟩
    · exact hs x hx
  · intro e he; exact tinsert_represents _ _ _ _ (hc e he)
  · exact ⟨_, self_mem_tinsert _ _ (dflt_valid f), rfl, rfl, dflt_wf f⟩

theorem explicit_default {t : Table Bool} {es : Cfg} (f : Fam) (hwf : ∀ e ∈ es, e.1.WF)
    (hs : ∀ x ∈ t, ∃ e ∈ es, unmapPrefix e.1 = x.1 ∧ e.2 = x.2) (hc : PComplete t es)
    (hd : hasDefault f es = true) : PTotal f t := by
  simp only [hasDefault, ofFam, normed, List.any_eq_true, List.mem_filter, List.mem_map,
    beq_iff_eq] at hd
  obtain ⟨x, ⟨⟨e, he, hex⟩, hxf⟩, hl⟩ := hd
  obtain ⟨y, hy, hsy⟩ := hc e he
  obtain ⟨e', he', h1, _⟩ := hs y hy
  have hnx : unmapPrefix e.1 = x.1 := by rw [← hex]; rfl
  refine ⟨y, hy, ?_, ?_, ?_⟩
  · rw [samePfx_fam hsy, hnx]; exact hxf
  · rw [samePfx_len hsy, hnx]; exact hl
  · rw [← h1]; exact unmapPrefix_wf (hwf e' he')

theorem default4_eq : default4 = dflt .v4 := rfl
theorem default6_eq : default6 = dflt .v6 := rfl

theorem finish_spec {s : St} {es : Cfg} (h : Inv s es) (hwf : ∀ e ∈ es, e.1.WF) :
    (refused es = false → ∃ t, finish s = .ok t ∧ Final t es) ∧
    (refused es = true → ∃ x, finish s = .error x) := by
  have hd4 : s.r4.defaultSet = hasDefault .v4 es := h.r4.dflt
  have hd6 : s.r6.defaultSet = hasDefault .v6 es := h.r6.dflt
  have hm4 : s.r4.allValuesMatch = !mixed .v4 es := rulesInv_match h.r4
  have hm6 : s.r6.allValuesMatch = !mixed .v6 es := rulesInv_match h.r6
  have hs0 : PSound s.tree es := fun x hx => Or.inl (h.sound x hx)
  have hc0 : PComplete s.tree es := h.complete
  constructor
  · intro hr
    simp only [refused, Bool.or_eq_false_iff, Bool.and_eq_false_iff, Bool.not_eq_false'] at hr
    obtain ⟨hr4, hr6⟩ := hr
    -- first block
    have step4 : ∃ t4, (if !s.r4.defaultSet then
          (if s.r4.allValuesMatch then Except.ok (tinsert s.tree default4 (!s.r4.allValues)) else Except.error Err.mixed4)
        else (Except.ok s.tree : Except Err (Table Bool))) = .ok t4 ∧ PSound t4 es ∧ PComplete t4 es ∧ PTotal .v4 t4 ∧
          (∀ x ∈ t4, x.1.addr.fam = .v6 → ∃ e ∈ es, unmapPrefix e.1 = x.1 ∧ e.2 = x.2) := by
      cases hds : s.r4.defaultSet with
      | true =>
        refine ⟨s.tree, by simp, hs0, hc0, explicit_default .v4 hwf h.sound hc0 (by rw [← hd4, hds]), ?_⟩
        intro x hx _; exact h.sound x hx
      | false =>
        have hnd : hasDefault .v4 es = false := by rw [← hd4, hds]
        have hmx : mixed .v4 es = false := by
          rcases hr4 with h1 | h1
          · exact h1
          · rw [hnd] at h1; cases h1
        have hmt : s.r4.allValuesMatch = true := by rw [hm4, hmx]; rfl
        have hv : (!s.r4.allValues) = implicitDefault .v4 es := rulesInv_default h.r4 hmt
        obtain ⟨a, b, c⟩ := insert_default .v4 hs0 hc0 hnd
        refine ⟨tinsert s.tree default4 (!s.r4.allValues), by simp [hmt], ?_, ?_, ?_, ?_⟩
        · rw [hv, default4_eq]; exact a
        · rw [hv, default4_eq]; exact b
        · rw [hv, default4_eq]; exact c
        · intro x hx hf6
          rcases mem_tinsert_cases hx with hx | hx
          · subst hx; simp [default4] at hf6
          · exact h.sound x hx
    obtain ⟨t4, ht4, hs4, hc4, htot4, h64⟩ := step4
    simp only [finish, ht4]
    cases hds : s.r6.defaultSet with
    | true =>
      refine ⟨t4, by simp, hs4, hc4, ?_⟩
      intro f
      rcases fam_cases f with hf | hf
      · subst hf; exact htot4
      · subst hf
        -- explicit ::/0 entry
        have hd : hasDefault .v6 es = true := by rw [← hd6, hds]
        simp only [hasDefault, ofFam, normed, List.any_eq_true, List.mem_filter, List.mem_map,
          beq_iff_eq] at hd
        obtain ⟨x, ⟨⟨e, he, hex⟩, hxf⟩, hl⟩ := hd
        obtain ⟨y, hy, hsy⟩ := hc4 e he
        have hnx : unmapPrefix e.1 = x.1 := by rw [← hex]; rfl
        have hyf : y.1.addr.fam = .v6 := by rw [samePfx_fam hsy, hnx]; exact hxf
        obtain ⟨e', he', h1, _⟩ := h64 y hy hyf
        refine ⟨y, hy, hyf, ?_, ?_⟩
        · rw [samePfx_len hsy, hnx]; exact hl
        · rw [← h1]; exact unmapPrefix_wf (hwf e' he')
    | false =>
      have hnd : hasDefault .v6 es = false := by rw [← hd6, hds]
      have hmx : mixed .v6 es = false := by
        rcases hr6 with h1 | h1
        · exact h1
        · rw [hnd] at h1; cases h1
      have hmt : s.r6.allValuesMatch = true := by rw [hm6, hmx]; rfl
      have hv : (!s.r6.allValues) = implicitDefault .v6 es := rulesInv_default h.r6 hmt
      obtain ⟨a, b, c⟩ := insert_default .v6 hs4 hc4 hnd
      refine ⟨tinsert t4 default6 (!s.r6.allValues), by simp [hmt], ?_, ?_, ?_⟩
      · rw [hv, default6_eq]; exact a
      · rw [hv, default6_eq]; exact b
      · intro f
        rcases fam_cases f with hf | hf
        · subst hf; rw [default6_eq]; exact ptotal_tinsert _ htot4
        · subst hf; rw [hv, default6_eq]; exact c
  · intro hr
    simp only [refused, Bool.or_eq_true, Bool.and_eq_true, Bool.not_eq_true'] at hr
    simp only [finish]
    rcases hr with ⟨hmx, hnd⟩ | ⟨hmx, hnd⟩
    · have h1 : s.r4.defaultSet = false := by rw [hd4, hnd]
      have h2 : s.r4.allValuesMatch = false := by rw [hm4, hmx]; rfl
      exact ⟨.mixed4, by simp [h1, h2]⟩
    · have h1 : s.r6.defaultSet = false := by rw [hd6, hnd]
      have h2 : s.r6.allValuesMatch = false := by rw [hm6, hmx]; rfl
      cases h3 : s.r4.defaultSet <;> cases h4 : s.r4.allValuesMatch <;> simp [h1, h2]


/-! ### the answer of a finished table -/

theorem mem_matching {es : Cfg} {a : Addr} {x : Prefix × Bool} :
    x ∈ matching es a ↔ (∃ e ∈ es, (unmapPrefix e.1, e.2) = x) ∧ x.1.contains a.unmap = true := by
  simp only [matching, normed, List.mem_filter, List.mem_map, norm_eq_unmapPrefix]

theorem final_lookup {t : Table Bool} {es : Cfg} (hF : Final t es) (hwf : ∀ e ∈ es, e.1.WF)
    (a : Addr) (ha : a.WF) :
    ∃ v, lpm t a.unmap = some v ∧ admissible es a v = true := by
  have ha' := unmap_wf ha
  -- the table has a /0 entry of the address family, so the lookup succeeds
  obtain ⟨d, hd, hdf, hdl, hdw⟩ := hF.total a.unmap.fam
  have hdc : d.1.contains a.unmap = true := contains_len0 hdw hdl ha' hdf
  cases hl : lpm t a.unmap with
  | none => rw [(lpm_none t a.unmap).mp hl d hd] at hdc; cases hdc
  | some v =>
    refine ⟨v, rfl, ?_⟩
    obtain ⟨x, hx, hxv, hxc, hmax⟩ := lpm_some t a.unmap v hl
    -- every matching configured entry is represented in the table by an entry no longer than x
    have hle : ∀ m ∈ matching es a, m.1.len ≤ x.1.len := by
      intro m hm
      obtain ⟨⟨e, he, hem⟩, hmc⟩ := mem_matching.mp hm
      obtain ⟨y, hy, hsy⟩ := hF.complete e he
      have : unmapPrefix e.1 = m.1 := by rw [← hem]
      rw [this] at hsy
      have hyc : y.1.contains a.unmap = true := by rw [samePfx_contains hsy]; exact hmc
      rw [← samePfx_len hsy]; exact hmax y hy hyc
    simp only [admissible]
    rcases hF.sound x hx with ⟨e, he, hex, hev⟩ | ⟨hx0, hnd, hxd⟩
    · -- x stems from a configured entry: it is a best matching entry
      have hmem : (unmapPrefix e.1, e.2) ∈ matching es a :=
        mem_matching.mpr ⟨⟨e, he, rfl⟩, by simp only [hex]; exact hxc⟩
      have hne : (matching es a).isEmpty = false := by
        cases hmm : matching es a with
        | nil => rw [hmm] at hmem; cases hmem
        | cons _ _ => rfl
      rw [hne]
      simp only [Bool.false_eq_true, if_false, List.any_eq_true, Bool.and_eq_true, beq_iff_eq,
        List.all_eq_true, decide_eq_true_eq]
      refine ⟨_, hmem, by rw [hev, hxv], ?_⟩
      intro m hm
      simp only [hex]; exact hle m hm
    · -- x is an implicit default: nothing configured matches
      have hxf : x.1.addr.fam = a.unmap.fam := contains_fam hxc
      have hempty : matching es a = [] := by
        cases hmm : matching es a with
        | nil => rfl
        | cons m ms =>
          exfalso
          have hm : m ∈ matching es a := by rw [hmm]; simp
          have hl0 : m.1.len = 0 := by have := hle m hm; omega
          obtain ⟨⟨e, he, hem⟩, hmc⟩ := mem_matching.mp hm
          have hmf : m.1.addr.fam = x.1.addr.fam := by rw [contains_fam hmc, hxf]
          have : hasDefault x.1.addr.fam es = true := by
            simp only [hasDefault, ofFam, normed, List.any_eq_true, List.mem_filter, List.mem_map,
              beq_iff_eq]
            exact ⟨m, ⟨⟨e, he, by rw [← hem]; rfl⟩, hmf⟩, hl0⟩
          rw [this] at hnd; cases hnd
      rw [hempty]
      simp only [List.isEmpty_nil, if_true, beq_iff_eq]
      rw [← hxv, hxd, hxf]

theorem newAllowList_spec (es : Cfg) (hwf : ∀ e ∈ es, e.1.WF) :
    (refused es = false → ∃ t, newAllowList (entriesOf es) = .ok t ∧ Final t es) ∧
    (refused es = true → ∃ x, newAllowList (entriesOf es) = .error x) := by
  obtain ⟨s, hs, hinv⟩ := loop_inv es {} [] inv_init hwf
  simp only [List.nil_append] at hinv
  have hf := finish_spec hinv hwf
  simp only [newAllowList, hs]
  exact hf


/-! ### order independence, uniqueness -/

open Spec.AllowList (consistent)

theorem normed_perm {es es' : Cfg} (hp : es.Perm es') : (normed es).Perm (normed es') := hp.map _

theorem ofFam_perm {es es' : Cfg} (hp : es.Perm es') (f : Fam) : (ofFam f es).Perm (ofFam f es') :=
  (normed_perm hp).filter _

theorem any_perm {α : Type} {l l' : List α} (hp : l.Perm l') (p : α → Bool) : l.any p = l'.any p := by
  cases h : l'.any p with
  | true =>
    rw [List.any_eq_true] at h ⊢
    obtain ⟨x, hx, hpx⟩ := h
    exact ⟨x, hp.mem_iff.mpr hx, hpx⟩
  | false =>
    rw [List.any_eq_false] at h ⊢
    intro x hx; exact h x (hp.mem_iff.mp hx)

theorem all_perm {α : Type} {l l' : List α} (hp : l.Perm l') (p : α → Bool) : l.all p = l'.all p := by
  cases h : l'.all p with
  | true =>
    rw [List.all_eq_true] at h ⊢
    intro x hx; exact h x (hp.mem_iff.mp hx)
  | false =>
    rw [List.all_eq_false] at h ⊢
    obtain ⟨x, hx, hpx⟩ := h
    exact ⟨x, hp.mem_iff.mpr hx, hpx⟩

theorem isEmpty_perm {α : Type} {l l' : List α} (hp : l.Perm l') : l.isEmpty = l'.isEmpty := by
  cases l with
  | nil => rw [hp.symm.eq_nil]
  | cons a l =>
    cases l' with
    | nil => exact absurd hp.eq_nil (by simp)
    | cons b l' => rfl

theorem refused_perm {es es' : Cfg} (hp : es.Perm es') : refused es = refused es' := by
  simp only [refused, mixed, hasDefault, any_perm (ofFam_perm hp .v4), any_perm (ofFam_perm hp .v6)]

theorem matching_perm {es es' : Cfg} (hp : es.Perm es') (a : Addr) :
    (matching es a).Perm (matching es' a) := (normed_perm hp).filter _

theorem admissible_perm {es es' : Cfg} (hp : es.Perm es') (a : Addr) (b : Bool) :
    admissible es a b = admissible es' a b := by
  have hm := matching_perm hp a
  simp only [admissible, isEmpty_perm hm, implicitDefault, any_perm (ofFam_perm hp _)]
  split
  · rfl
  · rw [any_perm hm]
    congr 1
    funext e
    rw [all_perm hm]

theorem consistent_perm {es es' : Cfg} (hp : es.Perm es') (hc : consistent es) : consistent es' := by
  intro e he e' he'
  exact hc e ((normed_perm hp).mem_iff.mpr he) e' ((normed_perm hp).mem_iff.mpr he')

theorem admissible_unique {es : Cfg} (hc : consistent es) (a : Addr) (b b' : Bool)
    (h : admissible es a b = true) (h' : admissible es a b' = true) : b = b' := by
  simp only [admissible] at h h'
  cases hemp : (matching es a).isEmpty with
  | true =>
    simp only [hemp, if_true, beq_iff_eq] at h h'
    rw [h, h']
  | false =>
    simp only [hemp, Bool.false_eq_true, if_false, List.any_eq_true, Bool.and_eq_true, beq_iff_eq,
      List.all_eq_true, decide_eq_true_eq] at h h'
    obtain ⟨e, hem, heb, hmax⟩ := h
    obtain ⟨e', hem', heb', hmax'⟩ := h'
    have hl : e.1.len = e'.1.len := Nat.le_antisymm (hmax' e hem) (hmax e' hem')
    simp only [matching, List.mem_filter] at hem hem'
    have hf : e.1.addr.fam = a.unmap.fam := contains_fam hem.2
    have hf' : e'.1.addr.fam = a.unmap.fam := contains_fam hem'.2
    have ht : topBits e.1.addr.fam e.1.addr.val e.1.len = topBits e.1.addr.fam e'.1.addr.val e.1.len := by
      have h1 := hem.2
      have h2 := hem'.2
      simp only [Prefix.contains, Bool.and_eq_true, beq_iff_eq, decide_eq_true_eq] at h1 h2
      rw [hf, h1.2, hl, h2.2]
    have := hc e hem.1 e' hem'.1 (hf.trans hf'.symm) hl ht
    rw [← heb, ← heb', this]

/-! ### mapped CIDRs -/

theorem loopStep_norm (s : St) (p : Prefix) (v : Option Bool) :
    loopStep s { key := some p, val := v } = loopStep s { key := some (unmapPrefix p), val := v } := by
  simp only [loopStep, unmapPrefix_idem]

theorem loop_normed (es : Cfg) : ∀ s : St, loop s (entriesOf es) = loop s (entriesOf (normed es)) := by
  induction es with
  | nil => intro s; rfl
  | cons e es ih =>
    intro s
    simp only [entriesOf, normed, List.map_cons, loop, norm_eq_unmapPrefix]
    rw [← loopStep_norm]
    cases loopStep s { key := some e.1, val := some e.2 } with
    | error x => rfl
    | ok s' => exact ih s'

/-! ### ranges -/

structure RInv (t : Table (Option (Table Bool))) (done : List (Prefix × List Entry)) : Prop where
  sound : ∀ x ∈ t, ∃ e ∈ done, unmapPrefix e.1 = x.1 ∧ ∃ al, newAllowList e.2 = .ok al ∧ x.2 = some al
  complete : ∀ e ∈ done, ∃ x ∈ t, samePfx x.1 (unmapPrefix e.1) = true

def rangeEntries (rs : List (Prefix × List Entry)) : List RangeEntry :=
  rs.map fun e => { key := some e.1, list := some e.2 }

theorem rangesLoop_inv (rest : List (Prefix × List Entry)) :
    ∀ (t : Table (Option (Table Bool))) (done : List (Prefix × List Entry)), RInv t done →
      (∀ e ∈ rest, e.1.WF) → ∀ t', rangesLoop t (rangeEntries rest) = .ok t' → RInv t' (done ++ rest) := by
  induction rest with
  | nil =>
    intro t done h _ t' ht'
    simp only [rangeEntries, List.map_nil, rangesLoop, Except.ok.injEq] at ht'
    subst ht'; simpa using h
  | cons e rest ih =>
    intro t done h hwf t' ht'
    simp only [rangeEntries, List.map_cons, rangesLoop] at ht'
    cases hal : newAllowList e.2 with
    | error x => rw [hal] at ht'; cases ht'
    | ok al =>
      rw [hal] at ht'
      simp only at ht'
      have hval := unmapPrefix_valid (hwf e (by simp))
      have h1 : RInv (tinsert t (unmapPrefix e.1) (some al)) (done ++ [e]) := by
        constructor
        · intro x hx
          rcases mem_tinsert_cases hx with hx | hx
          · subst hx; exact ⟨e, by simp, rfl, al, hal, rfl⟩
          · obtain ⟨e', he', h1, h2⟩ := h.sound x hx
            exact ⟨e', by simp [he'], h1, h2⟩
        · intro e' he'
          rcases List.mem_append.mp he' with he' | he'
          · exact tinsert_represents _ _ _ _ (h.complete e' he')
          · simp at he'; subst he'
            exact ⟨_, self_mem_tinsert _ _ hval, samePfx_refl _⟩
      have := ih _ (done ++ [e]) h1 (fun x hx => hwf x (by simp [hx])) t' ht'
      simpa using this

/-! ### name rules -/

theorem namesLoop_some (v : Bool) (vs : List Bool) :
    namesLoop (some v) (vs.map fun x => (true, some x)) = .ok () ↔ vs.all (· == v) = true := by
  induction vs with
  | nil => simp [namesLoop]
  | cons x vs ih =>
    simp only [List.map_cons, namesLoop, Bool.not_true, Bool.false_eq_true, if_false, List.all_cons,
      Bool.and_eq_true, beq_iff_eq]
    by_cases hx : x = v
    · subst hx; simp [ih]
    · have : (x != v) = true := by simpa using hx
      simp [this, hx]

end Nebula.Lemmas.AllowList
