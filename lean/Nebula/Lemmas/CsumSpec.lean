/- The literal word-by-word RFC 1071 specification equals the "sum wide, fold once" form of `Base/Csum`. -/
import Nebula.Lemmas.Csum
import Nebula.Spec.Rfc1071

namespace Nebula.Lemmas.CsumSpec
open Nebula.Csum Nebula.Spec

theorem ocAdd_rep (a b : Nat) (ha : a < 65536) (hb : b < 65536) :
    Rep (Rfc1071.ocAdd a b) (a + b) ∧ Rfc1071.ocAdd a b < 65536 := by
  unfold Rfc1071.ocAdd Rep; simp only; split <;> omega

theorem foldl_rep (ws : List Nat) (hw : ∀ w ∈ ws, w < 65536) (s x : Nat) (hs : s < 65536) (h : Rep s x) :
    Rep (ws.foldl Rfc1071.ocAdd s) (x + ws.sum) ∧ ws.foldl Rfc1071.ocAdd s < 65536 := by
  induction ws generalizing s x with
  | nil => simpa using ⟨h, hs⟩
  | cons w r ih =>
    have hw0 : w < 65536 := hw w (by simp)
    have h1 := ocAdd_rep s w hs hw0
    have := ih (fun w hw' => hw w (by simp [hw'])) (Rfc1071.ocAdd s w) (x + w) h1.2
      (rep_trans h1.1 (rep_add h (rep_refl w)))
    simpa [Nat.add_assoc] using this

theorem words_lt (b : List UInt8) : ∀ w ∈ Rfc1071.words b, w < 65536 := by
  fun_induction Rfc1071.words b with
  | case1 => simp
  | case2 a => have := a.toNat_lt; simp; omega
  | case3 a b r ih =>
    have := a.toNat_lt; have := b.toNat_lt
    intro w hw; simp at hw; rcases hw with rfl | hw
    · omega
    · exact ih w hw

theorem words_sum (b : List UInt8) : (Rfc1071.words b).sum = wsum b := by
  fun_induction Rfc1071.words b with
  | case1 => simp [wsum]
  | case2 a => simp [wsum]
  | case3 a b r ih => simp [wsum, ih]

/-- The literal RFC 1071 computation = `Csum.checksum` for every buffer and every 16-bit seed. -/
theorem spec_eq (b : List UInt8) (s : Nat) (hs : s < 65536) : Rfc1071.checksum b s = checksum b s := by
  have h := foldl_rep (Rfc1071.words b) (words_lt b) s s hs (rep_refl s)
  rw [words_sum] at h
  unfold Rfc1071.checksum checksum
  rw [fold16_eq]
  have e : wsum b + s = s + wsum b := by omega
  rw [e]; exact rep_norm h.1 h.2

end Nebula.Lemmas.CsumSpec
