/- Helper lemmas for the calculated-remote model (C48). Core Lean only. -/
import Nebula.Model.CalcRemote
import Nebula.Spec.CalcRemote

namespace Nebula.Lemmas.CalcRemote
open Nebula.CalcRemote Nebula.Spec.CalcRemote Nebula.Net

theorem testBit_splice (w len m a j : Nat) :
    (splice w len m a).testBit j = if j < w - len then a.testBit j else m.testBit j := by
  unfold splice
  rw [Nat.mul_comm, Nat.testBit_two_pow_mul_add _ (Nat.mod_lt _ (Nat.two_pow_pos _))]
  split
  · simp [Nat.testBit_mod_two_pow, *]
  · rename_i h
    rw [Nat.testBit_div_two_pow]
    congr 1; omega

theorem testBit_ge {x w j : Nat} (hx : x < 2 ^ w) (hj : w ≤ j) : x.testBit j = false :=
  Nat.testBit_lt_two_pow (Nat.lt_of_lt_of_le hx (Nat.pow_le_pow_right (by decide) hj))

theorem testBit_combine (w len m a j : Nat) (hm : m < 2 ^ w) (ha : a < 2 ^ w) :
    (combine w m ((2 ^ len - 1) <<< (w - len)) a).testBit j
      = if j < w - len then a.testBit j else m.testBit j := by
  unfold combine
  simp only [Nat.testBit_or, Nat.testBit_and, Nat.testBit_xor, Nat.testBit_shiftLeft, Nat.testBit_two_pow_sub_one]
  by_cases h1 : j < w - len
  · have : ¬ (j ≥ w - len) := by omega
    have h2 : j < w := by omega
    simp [h1, this, h2]
  · have h3 : j ≥ w - len := by omega
    by_cases h2 : j < w
    · by_cases h4 : len ≤ w
      · have : j - (w - len) < len := by omega
        simp [h1, h3, h2, this]
      · have : w - len = 0 := by omega
        have h5 : j < len := by omega
        simp [this, h2, h5]
    · have hmj : m.testBit j = false := testBit_ge hm (by omega)
      have haj : a.testBit j = false := testBit_ge ha (by omega)
      simp [h1, hmj, haj]

/-- `(maskAddr & mask) | (addr & ^mask)` with the CIDR mask of `len` ones is the arithmetic splice. -/
theorem combine_eq_splice (w len m a : Nat) (hm : m < 2 ^ w) (ha : a < 2 ^ w) :
    combine w m ((2 ^ len - 1) <<< (w - len)) a = splice w len m a := by
  apply Nat.eq_of_testBit_eq
  intro j
  rw [testBit_combine w len m a j hm ha, testBit_splice]

/-- value of `Prefix.masked`. -/
def maskedVal (w len v : Nat) : Nat := (v >>> (w - len)) <<< (w - len)

theorem testBit_maskedVal (w len v j : Nat) :
    (maskedVal w len v).testBit j = (decide (w - len ≤ j) && v.testBit j) := by
  unfold maskedVal
  simp only [Nat.testBit_shiftLeft, Nat.testBit_shiftRight]
  by_cases h : w - len ≤ j
  · have : w - len + (j - (w - len)) = j := by omega
    simp [h, this]
  · simp [h]

theorem maskedVal_lt (w len v : Nat) (hv : v < 2 ^ w) : maskedVal w len v < 2 ^ w := by
  apply Nat.lt_pow_two_of_testBit
  intro j hj
  rw [testBit_maskedVal, testBit_ge hv hj]; simp

/-- masking the mask address first does not change the splice. -/
theorem splice_maskedVal (w len m a : Nat) : splice w len (maskedVal w len m) a = splice w len m a := by
  apply Nat.eq_of_testBit_eq
  intro j
  rw [testBit_splice, testBit_splice, testBit_maskedVal]
  split
  · rfl
  · rename_i h; have : w - len ≤ j := by omega
    simp [this]

theorem combine_lt (w m mask a : Nat) (hm : m < 2 ^ w) (ha : a < 2 ^ w) : combine w m mask a < 2 ^ w := by
  unfold combine
  exact Nat.or_lt_two_pow (Nat.lt_of_le_of_lt Nat.and_le_left hm) (Nat.lt_of_le_of_lt Nat.and_le_left ha)

/-- the two 64-bit halves computed by `ApplyV6` are the 128-bit combination. -/
theorem halves_eq_combine (ma mf ca : Nat) (hma : ma < 2 ^ 128) (hca : ca < 2 ^ 128) :
    combine 64 (ma >>> 64) (mf >>> 64) (ca >>> 64) * 2 ^ 64 + combine 64 (ma % 2 ^ 64) (mf % 2 ^ 64) (ca % 2 ^ 64)
      = combine 128 ma mf ca := by
  have hlo : combine 64 (ma % 2 ^ 64) (mf % 2 ^ 64) (ca % 2 ^ 64) < 2 ^ 64 :=
    combine_lt 64 _ _ _ (Nat.mod_lt _ (by decide)) (Nat.mod_lt _ (by decide))
  apply Nat.eq_of_testBit_eq
  intro j
  rw [Nat.mul_comm, Nat.testBit_two_pow_mul_add _ hlo]
  unfold combine
  simp only [Nat.testBit_or, Nat.testBit_and, Nat.testBit_xor, Nat.testBit_shiftRight,
    Nat.testBit_two_pow_sub_one, Nat.testBit_mod_two_pow]
  by_cases h : j < 64
  · have : j < 128 := by omega
    simp [h, this]
  · have e : 64 + (j - 64) = j := by omega
    simp only [h, if_false, e]
    by_cases h2 : j < 128
    · have : j - 64 < 64 := by omega
      simp [h2, this]
    · have h3 := testBit_ge hma (show 128 ≤ j by omega)
      have h4 := testBit_ge hca (show 128 ≤ j by omega)
      simp [h3, h4]

theorem fam_eq_of_bits {f g : Fam} (h : f.bits = g.bits) : f = g := by
  cases f <;> cases g <;> simp [Fam.bits] at h ⊢

theorem contains_fam {p : Prefix} {a : Addr} (h : p.contains a = true) : p.addr.fam = a.fam := by
  unfold Prefix.contains at h
  simp only [Bool.and_eq_true] at h
  have h1 := h.1.1
  cases hp : p.addr.fam <;> cases ha : a.fam <;> rw [hp, ha] at h1 <;> first | rfl | exact absurd h1 (by decide)

/-- `lpm` only ever answers with the value of an entry whose prefix contains the address. -/
theorem lpm_mem {α : Type} (tbl : List (Prefix × α)) (a : Addr) (v : α) (h : lpm tbl a = some v) :
    ∃ p, (p, v) ∈ tbl ∧ p.contains a = true := by
  unfold lpm at h
  have key : ∀ (l : List (Prefix × α)) (acc : Option (Prefix × α)),
      (∀ e, acc = some e → e ∈ tbl ∧ e.1.contains a = true) → (∀ e ∈ l, e ∈ tbl) →
      ∀ e, l.foldl (fun (acc : Option (Prefix × α)) e =>
        if e.1.contains a then
          match acc with
          | none => some e
          | some b => if b.1.len < e.1.len then some e else acc
        else acc) acc = some e → e ∈ tbl ∧ e.1.contains a = true := by
    intro l
    induction l with
    | nil => intro acc hacc _ e he; exact hacc e he
    | cons x xs ih =>
      intro acc hacc hl e he
      simp only [List.foldl_cons] at he
      refine ih _ ?_ (fun e he => hl e (List.mem_cons_of_mem _ he)) e he
      intro e' he'
      by_cases hx : x.1.contains a = true
      · simp only [hx, if_true] at he'
        cases acc with
        | none => simp at he'; subst he'; exact ⟨hl _ List.mem_cons_self, hx⟩
        | some b =>
          simp only at he'
          split at he'
          · simp at he'; subst he'; exact ⟨hl _ List.mem_cons_self, hx⟩
          · exact hacc e' he'
      · simp only [hx] at he'
        exact hacc e' (by simpa using he')
  simp only [] at h
  generalize hf : List.foldl _ none tbl = r at h
  cases r with
  | none => simp at h
  | some e =>
    simp at h
    have := key tbl none (by simp) (fun e he => he) e hf
    exact ⟨e.1, by rw [← h]; exact this.1, this.2⟩

theorem resList_map_ok {α β : Type} (l : List α) (f : α → Res β) (g : α → β)
    (h : ∀ x ∈ l, f x = .ok (g x)) : resList (l.map f) = .ok (l.map g) := by
  induction l with
  | nil => rfl
  | cons x xs ih =>
    simp only [List.map_cons]
    rw [h x List.mem_cons_self]
    simp only [resList]
    rw [ih (fun y hy => h y (List.mem_cons_of_mem _ hy))]

end Nebula.Lemmas.CalcRemote
