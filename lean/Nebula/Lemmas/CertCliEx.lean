/-
A concrete run of the `signCert` model (non-vacuity of the C04 command line theorems): a v2 CA written as a PEM
file, an Ed25519 key file, flags with padded items.
-/
import Nebula.Model.CertCli
import Nebula.Lemmas.CertSign

namespace Nebula.Lemmas.CertCliEx
open Nebula.Net Nebula.Cert Nebula.CertPem Nebula.CertCli

def exCA : Cert :=
  { version := 2, curve := 0, name := [99, 97], networks := [⟨⟨.v4, 0x0a000000⟩, 8⟩], unsafeNetworks := [],
    groups := [[103], [104]], isCA := true, notBefore := 0, notAfter := 10000000000, issuer := "",
    publicKey := [1, 2, 3], signature := [9, 9] }

def exCACrt : Bytes := (marshalPEM exCA).getD []
def exCAKey : Bytes := pemEncode (asBytes Gen.cert_Ed25519PrivateKeyBanner) (List.replicate 64 7)

/-- " 10.0.0.1/24" -/
def exItem : Bytes := [49, 48, 46, 48, 46, 48, 46, 49, 47, 50, 52]

def exEnv : Env :=
  { now := 5000000000, caCrt := exCACrt, caKey := exCAKey, keyMatches := true, keyParses := true,
    parsePrefix := fun b => if b = exItem then some ⟨⟨.v4, 0x0a000001⟩, 24⟩ else none, newPub := fun _ => [4] }

/-- `-name h -networks " 10.0.0.1/24," -groups "g ,"` -/
def exFlags : Flags :=
  { version := 0, name := [104], networks := [32] ++ exItem ++ [44], ip := [], unsafeNetworks := [], subnets := [],
    groups := [103, 32, 44], duration := 0, inPub := none, outKeySet := true }

def exIssued : Cert :=
  { version := 2, curve := 0, name := [104], networks := [⟨⟨.v4, 0x0a000001⟩, 24⟩], unsafeNetworks := [],
    groups := [[103]], isCA := false, notBefore := 5000000000, notAfter := 9000000000, issuer := "ca01",
    publicKey := [4], signature := [9] }

end Nebula.Lemmas.CertCliEx
