/-
Bounded progress of the connection manager on the abstract two-node model: traffic checks never add tunnels,
and a tunnel that sees no inbound traffic is gone after two checks (marked pendingDeletion, then deleted).
-/
import Nebula.Lemmas.HsRaceSwap

namespace Nebula.Lemmas.HsRace
open Nebula.HsRace

theorem rejectAfter_pos : decide (Nebula.ConnMgr.rejectAfter ≤ 0) = false := by decide
theorem rejectAfter_ne : Nebula.ConnMgr.rejectAfter ≠ 0 := by decide

/-- first check without inbound traffic: a non-primary tunnel, or a primary one that has been sending, is only
marked (nothing deleted, nothing reordered) -/
theorem check_marks (me peer : Side) (j : Nat) (t : Tun) (outT : Bool) (ht : me.tunnels[j]? = some t)
    (hp : me.pdl.contains t = false) (hj : j ≠ 0 ∨ outT = true) :
    (me.check peer j false outT).tunnels = me.tunnels ∧ (me.check peer j false outT).pdl.contains t = true := by
  have hp' : t ∉ me.pdl := by simpa using hp
  rcases hj with hj | hj
  · have h0 : (j == 0) = false := by simp [hj]
    simp [Side.check, ht, checkIn, Nebula.ConnMgr.trafficDecision, Nebula.ConnMgr.isInvalidCertificate,
      rejectAfter_pos, rejectAfter_ne, hp, hp', h0]
  · by_cases h0 : (j == 0) = true
    · simp [Side.check, ht, checkIn, Nebula.ConnMgr.trafficDecision, Nebula.ConnMgr.isInvalidCertificate,
        rejectAfter_pos, rejectAfter_ne, hp, hp', h0, hj]
    · have h0' : (j == 0) = false := by simpa using h0
      simp [Side.check, ht, checkIn, Nebula.ConnMgr.trafficDecision, Nebula.ConnMgr.isInvalidCertificate,
        rejectAfter_pos, rejectAfter_ne, hp, hp', h0']

/-- a marked tunnel that still sees no inbound traffic at its next check is deleted -/
theorem check_deletes_marked (me peer : Side) (j : Nat) (t : Tun) (outT : Bool) (ht : me.tunnels[j]? = some t)
    (hp : me.pdl.contains t = true) :
    (me.check peer j false outT).tunnels = me.tunnels.eraseIdx j ∧ t ∈ (me.check peer j false outT).removed := by
  have hp' : t ∈ me.pdl := by simpa using hp
  simp [Side.check, ht, checkIn, Nebula.ConnMgr.trafficDecision, Nebula.ConnMgr.isInvalidCertificate,
    rejectAfter_pos, rejectAfter_ne, hp, hp']

/-- inbound traffic clears the mark and never deletes -/
theorem check_alive_keeps (me peer : Side) (j : Nat) (t : Tun) (outT : Bool) (ht : me.tunnels[j]? = some t) :
    (me.check peer j true outT).tunnels.length = me.tunnels.length ∧
    (me.check peer j true outT).pdl.contains t = false := by
  have hj : j < me.tunnels.length := (List.getElem?_eq_some_iff.mp ht).1
  by_cases h0 : (j == 0) = true
  · simp [Side.check, ht, checkIn, Nebula.ConnMgr.trafficDecision, Nebula.ConnMgr.isInvalidCertificate,
      rejectAfter_pos, rejectAfter_ne, h0]
  · have h0' : (j == 0) = false := by simpa using h0
    by_cases hs : shouldSwap me peer = true
    · simp [Side.check, ht, checkIn, Nebula.ConnMgr.trafficDecision, Nebula.ConnMgr.isInvalidCertificate,
        rejectAfter_pos, rejectAfter_ne, h0', hs, List.length_eraseIdx, hj]
      exact ⟨by omega, fun _ => (List.getElem?_eq_some_iff.mp ht).2.symm⟩
    · have hs' : shouldSwap me peer = false := by simpa using hs
      simp [Side.check, ht, checkIn, Nebula.ConnMgr.trafficDecision, Nebula.ConnMgr.isInvalidCertificate,
        rejectAfter_pos, rejectAfter_ne, h0', hs']

end Nebula.Lemmas.HsRace
