import Nebula.Lemmas.WritebatchPlan
namespace Nebula.Lemmas.Writebatch
open Nebula.Writebatch List

theorem accepted_cons (c : Call) (cs : List Call) : accepted (c :: cs) = c.accepted ++ accepted cs := by
  simp [accepted]

theorem accepted_append (a b : List Call) : accepted (a ++ b) = accepted a ++ accepted b := by
  simp [accepted]

theorem sumCnt_append (a b : List Entry) : sumCnt (a ++ b) = sumCnt a + sumCnt b := by
  simp [sumCnt]

theorem drain_spec (kern : Nat → Nat → Outcome) (hk : KernOK kern) (gso : Bool) (chunk : List Entry) (ctl : Ctl) (done k : Nat) :
    let d := drain kern gso chunk ctl done k
    d.stop ≠ .overrun ∧ d.written = sumCnt (accepted d.calls) ∧
    (∀ c ∈ d.calls, ∃ j, j < chunk.length ∧ c.ents = chunk.drop j ∧ c.done = j) ∧
    accepted d.calls <+ chunk.drop done ∧
    (∀ i, d.stop = .replay i → ∃ j, ∃ h : j < chunk.length, done ≤ j ∧ i = chunk[j].start ∧ 2 ≤ chunk[j].cnt ∧
        accepted d.calls <+ (chunk.drop done).take (j - done)) := by
  fun_induction drain kern gso chunk ctl done k with
  | case1 done k h n o call hpos hover =>
    exfalso; have := hk k n; simp only [o, n] at *; omega
  | case2 done k h n o call hpos hover s r ih =>
    rw [show drain kern gso chunk ctl (done + s) (k + 1) = r from rfl] at ih
    obtain ⟨i1, i2, i3, i4, i5⟩ := ih
    have hacc : call.accepted = (chunk.drop done).take s := by
      simp only [Call.accepted, call]; rw [if_pos hpos]
    have hsn : s ≤ n := by omega
    refine ⟨i1, ?_, ?_, ?_, ?_⟩
    · simp only [accepted_cons, sumCnt_append, hacc, i2]
    · intro c hc
      rcases List.mem_cons.mp hc with rfl | hc
      · exact ⟨done, h, rfl, rfl⟩
      · exact i3 c hc
    · simp only [accepted_cons, hacc]
      have e : chunk.drop done = (chunk.drop done).take s ++ chunk.drop (done + s) := by
        rw [← List.drop_drop]; exact (List.take_append_drop s _).symm
      conv => rhs; rw [e]
      exact List.Sublist.append (List.Sublist.refl _) i4
    · intro i hi
      obtain ⟨j, hj, hdj, hij, hc2, hsub⟩ := i5 i hi
      refine ⟨j, hj, by omega, hij, hc2, ?_⟩
      simp only [accepted_cons, hacc]
      have e : j - done = s + (j - (done + s)) := by omega
      rw [e, List.take_add, List.drop_drop]
      exact List.Sublist.append (List.Sublist.refl _) hsub
  | case3 done k h n o call hpos herr =>
    refine ⟨by simp, ?_, ?_, ?_, by simp⟩
    · simp [accepted, Call.accepted, call, hpos, sumCnt]
    · intro c hc; simp at hc; subst hc; exact ⟨done, h, rfl, rfl⟩
    · simp [accepted, Call.accepted, call, hpos]
  | case4 done k h n o call hpos herr hrep =>
    refine ⟨by simp, ?_, ?_, ?_, ?_⟩
    · simp [accepted, Call.accepted, call, hpos, sumCnt]
    · intro c hc; simp at hc; subst hc; exact ⟨done, h, rfl, rfl⟩
    · simp [accepted, Call.accepted, call, hpos]
    · intro i hi
      simp only [Stop.replay.injEq] at hi
      exact ⟨done, h, Nat.le_refl _, hi.symm, hrep.2.1, by simp [accepted, Call.accepted, call, hpos]⟩
  | case5 done k h n o call hpos herr hrep r ih =>
    rw [show drain kern gso chunk ctl (done + 1) (k + 1) = r from rfl] at ih
    obtain ⟨i1, i2, i3, i4, i5⟩ := ih
    have hacc : call.accepted = [] := by simp [Call.accepted, call, hpos]
    refine ⟨i1, ?_, ?_, ?_, ?_⟩
    · simp only [accepted_cons, hacc, List.nil_append, i2]
    · intro c hc
      rcases List.mem_cons.mp hc with rfl | hc
      · exact ⟨done, h, rfl, rfl⟩
      · exact i3 c hc
    · simp only [accepted_cons, hacc, List.nil_append]
      exact i4.trans (by rw [← List.drop_drop]; exact List.drop_sublist _ _)
    · intro i hi
      obtain ⟨j, hj, hdj, hij, hc2, hsub⟩ := i5 i hi
      refine ⟨j, hj, by omega, hij, hc2, ?_⟩
      simp only [accepted_cons, hacc, List.nil_append]
      have e : j - done = 1 + (j - (done + 1)) := by omega
      rw [e, List.take_add, List.drop_drop]
      exact List.sublist_append_of_sublist_right hsub
  | case6 done k h => simp [accepted, sumCnt]

end Nebula.Lemmas.Writebatch
