import Nebula.Lemmas.RoutesSound

namespace Nebula.Lemmas.Routes
open Nebula.Net Nebula.Routes Nebula.Spec.Routes

theorem all2_mapOpt {α β : Type} (g : α → Option β) (R : α → β → Prop) (h : ∀ a b, R a b → g a = some b) :
    ∀ (l : List α) (xs : List β), All2 R l xs → mapOpt g l = some xs := by
  intro l xs hall
  induction hall with
  | nil => rfl
  | cons hr _ ih => simp [mapOpt, h _ _ hr, ih]

theorem specRoute_complete (o : Oracle) (nets : List Prefix) (e : Yaml) (r : Route)
    (h : RouteOK o nets e r) : specRoute o nets e = some r := by
  obtain ⟨m, rfl, ⟨v1, hl1, hs1⟩, h500, ⟨v2, hl2, hp2⟩, ⟨n, hn, hc, hlen⟩, hm, hv, hi⟩ := h
  have hany : nets.any (fun n => n.contains r.cidr.addr && decide (n.len ≤ r.cidr.len)) = true :=
    List.any_eq_true.mpr ⟨n, hn, by simp [hc, hlen]⟩
  simp only [specRoute, hl1, hl2, Option.bind_some, hs1, hp2]
  rw [if_pos ⟨h500, hany⟩]
  cases r; simp_all

theorem specGateway_complete (o : Oracle) (v : Yaml) (g : Gateway) (h : GatewayOK o v g) :
    specGateway o v = some g := by
  obtain ⟨gm, rfl, ⟨s, hl, ha⟩, hw, h1, h2⟩ := h
  simp only [specGateway, hl, ha, hw]
  rw [if_pos ⟨h1, h2⟩]

theorem specVia_complete (o : Oracle) (v : Yaml) (gs : List Gateway) (h : ViaOK o v gs) :
    specVia o v = some gs := by
  rcases h with ⟨s, a, rfl, ha, rfl⟩ | ⟨l, rfl, hall⟩
  · simp [specVia, ha]
  · exact all2_mapOpt _ _ (specGateway_complete o) l gs hall

theorem specUnsafe_complete (o : Oracle) (nets : List Prefix) (e : Yaml) (r : Route)
    (h : UnsafeOK o nets e r) : specUnsafe o nets e = some r := by
  obtain ⟨m, rfl, hmtu, hmr, hmet, hm0, hm1, ⟨v1, hl1, hv1⟩, ⟨v2, hl2, hp2⟩, hinst, hout⟩ := h
  have hi : specInstall (lookup "install" m) = some r.install := by
    unfold specInstall
    cases hl : lookup "install" m with
    | none => simp [hl] at hinst; simp [hinst]
    | some v => simpa [hl] using hinst
  have hany : nets.any (fun n => n.contains r.cidr.addr) = false := by
    rw [List.any_eq_false]; intro n hn; simp [hout n hn]
  simp only [specUnsafe, hmtu, hmet, hl1, hl2, Option.bind_some, specVia_complete o v1 r.via hv1, hp2, hi]
  rw [if_pos ⟨hmr, ⟨hm0, hm1⟩, hany⟩]

theorem specLoad_complete (g : Yaml → Option Route) (R : Yaml → Route → Prop)
    (h : ∀ e r, R e r → g e = some r) (v : Option Yaml) (rs : List Route)
    (hl : Loads R v rs) : specLoad g v = some rs := by
  rcases hl with ⟨hv, rfl⟩ | ⟨l, rfl, hall⟩
  · rcases hv with rfl | rfl <;> rfl
  · exact all2_mapOpt g R h l rs hall

end Nebula.Lemmas.Routes
