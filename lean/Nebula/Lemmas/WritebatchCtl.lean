import Nebula.Lemmas.WritebatchProgress
namespace Nebula.Lemmas.Writebatch
open Nebula.Writebatch List
variable {δ : Type} [DecidableEq δ]

theorem pack_ctl (c : Cfg δ) (gso : Bool) (pk : List (Pkt δ)) (i entry iovIdx : Nat) (ctl : Ctl) :
    let p := pack c gso pk i entry iovIdx ctl
    p.ctl.length = ctl.length ∧ (∀ j, j < entry → p.ctl[j]? = ctl[j]?) ∧
    (entry + p.ents.length ≤ ctl.length → ∀ j (h : j < p.ents.length), p.ctl[entry + j]? = some (p.ents[j]).rawCtl) := by
  fun_induction pack c gso pk i entry iovIdx ctl with
  | case1 => simp
  | case2 => simp
  | case3 i entry iovIdx ctl h budget hb pr hr hroute r ih =>
    rw [show pack c gso pk (i + pr.1) (entry + 1) (iovIdx + pr.1) (writeEntryCmsg ctl entry pr.1 pr.2) = r from rfl] at ih
    obtain ⟨i1, i2, i3⟩ := ih
    have hl : (writeEntryCmsg ctl entry pr.1 pr.2).length = ctl.length := by simp [writeEntryCmsg]
    refine ⟨by simp only; omega, ?_, ?_⟩
    · intro j hj
      simp only
      rw [i2 j (by omega)]
      simp only [writeEntryCmsg]
      rw [List.getElem?_set_ne (by omega)]
    · intro hle j hj
      simp only [List.length_cons] at hle hj
      cases j with
      | zero =>
        simp only [Nat.add_zero, List.getElem_cons_zero]
        rw [i2 entry (by omega)]
        simp only [writeEntryCmsg, Entry.rawCtl]
        rw [List.getElem?_set_self (by omega)]
      | succ j =>
        have := i3 (by rw [hl]; omega) j (by omega)
        simp only [List.getElem_cons_succ]
        rw [← this]; congr 1; omega
  | case4 i entry iovIdx ctl h budget hb pr hr hroute ih => exact ih
  | case5 => simp

theorem pack_ctl_take (c : Cfg δ) (gso : Bool) (pk : List (Pkt δ)) (i : Nat) (ctl : Ctl) (hc : ctl.length = c.n)
    (hi : i ≤ pk.length) :
    let p := pack c gso pk i 0 0 ctl
    p.ctl.length = c.n ∧ p.ctl.take p.ents.length = p.ents.map Entry.wantCtl := by
  intro p
  have h1 := pack_ctl c gso pk i 0 0 ctl
  have h2 := pack_spec c gso pk i 0 0 ctl hi
  simp only at h1 h2
  rw [show pack c gso pk i 0 0 ctl = p from rfl] at h1 h2
  obtain ⟨a1, _, a3⟩ := h1
  obtain ⟨_, _, b3, _, b5⟩ := h2
  have hlen : p.ents.length ≤ ctl.length := by omega
  refine ⟨by omega, ?_⟩
  apply List.ext_getElem?
  intro j
  by_cases hj : j < p.ents.length
  · have := a3 (by omega) j hj
    simp only [Nat.zero_add] at this
    rw [List.getElem?_take_of_lt hj, this, List.getElem?_map, List.getElem?_eq_getElem hj]
    simp only [Option.map_some, Entry.rawCtl, Entry.wantCtl]
    have hs := (b3 _ (List.getElem_mem hj)).2.2.1
    by_cases h2 : (p.ents[j]).cnt ≥ 2
    · have := (hs.2.2.2 h2).2.1
      have hm : maxGSOBytes < 65536 := by decide
      simp only [h2, if_true]
      rw [Nat.mod_eq_of_lt (show (p.ents[j]).seg < 65536 by omega)]
    · simp [h2]
  · rw [List.getElem?_eq_none (by simp; omega), List.getElem?_eq_none (by simp; omega)]

theorem drain_ctl (kern : Nat → Nat → Outcome) (gso : Bool) (chunk : List Entry) (ctl : Ctl) (done k : Nat) :
    ∀ c ∈ (drain kern gso chunk ctl done k).calls,
      c.ents = chunk.drop c.done ∧ c.ctl = (ctl.drop c.done).take (chunk.length - c.done) := by
  fun_induction drain kern gso chunk ctl done k with
  | case1 done k h n o call hpos hover => intro c hc; simp at hc; subst hc; exact ⟨rfl, rfl⟩
  | case2 done k h n o call hpos hover s r ih =>
    intro c hc
    rcases List.mem_cons.mp hc with rfl | hc
    · exact ⟨rfl, rfl⟩
    · exact ih c hc
  | case3 done k h n o call hpos herr => intro c hc; simp at hc; subst hc; exact ⟨rfl, rfl⟩
  | case4 done k h n o call hpos herr hrep => intro c hc; simp at hc; subst hc; exact ⟨rfl, rfl⟩
  | case5 done k h n o call hpos herr hrep r ih =>
    intro c hc
    rcases List.mem_cons.mp hc with rfl | hc
    · exact ⟨rfl, rfl⟩
    · exact ih c hc
  | case6 done k h => simp

theorem drain_ctl_want (kern : Nat → Nat → Outcome) (gso : Bool) (chunk : List Entry) (ctl : Ctl) (done k : Nat)
    (hw : ctl.take chunk.length = chunk.map Entry.wantCtl) :
    ∀ c ∈ (drain kern gso chunk ctl done k).calls, c.ctl = c.ents.map Entry.wantCtl := by
  intro c hc
  obtain ⟨h1, h2⟩ := drain_ctl kern gso chunk ctl done k c hc
  rw [h2, h1, List.map_drop, ← hw, List.drop_take]

theorem run_ctl (c : Cfg δ) (kern : Nat → Nat → Outcome) (pk : List (Pkt δ)) (gso : Bool)
    (i k : Nat) (ctl : Ctl) (hi : i ≤ pk.length) (hc : ctl.length = c.n) :
    let r := run c kern pk gso i k ctl
    r.ctl.length = c.n ∧ ∀ call ∈ r.calls, call.ctl = call.ents.map Entry.wantCtl := by
  fun_induction run c kern pk gso i k ctl with
  | case1 gso i k ctl h p hp =>
    have := (pack_ctl_take c gso pk i ctl hc hi).1
    exact ⟨this, by simp⟩
  | case2 gso i k ctl h p hp d hd r ih =>
    have pc := pack_ctl_take c gso pk i ctl hc hi
    have ps := pack_spec c gso pk i 0 0 ctl hi
    simp only at pc ps
    rw [show pack c gso pk i 0 0 ctl = p from rfl] at pc ps
    have ih := ih ps.2.1 pc.1
    rw [show run c kern pk gso p.next (k + d.calls.length) p.ctl = r from rfl] at ih
    refine ⟨ih.1, fun call hcall => ?_⟩
    rcases List.mem_append.mp hcall with hcall | hcall
    · exact drain_ctl_want kern gso p.ents p.ctl 0 k pc.2 call hcall
    · exact ih.2 call hcall
  | case3 gso i k ctl h p hp d i' hd r ih =>
    have pc := pack_ctl_take c gso pk i ctl hc hi
    have ps := pack_spec c gso pk i 0 0 ctl hi
    simp only at pc ps
    rw [show pack c gso pk i 0 0 ctl = p from rfl] at pc ps
    obtain ⟨p1, p2, p3, p4, p5⟩ := ps
    have dc := (drain_calls kern gso p.ents p.ctl 0 k).2
    rw [show drain kern gso p.ents p.ctl 0 k = d from rfl] at dc
    obtain ⟨j, hj, _, hij, _⟩ := dc i' hd
    have gj := p3 p.ents[j] (List.getElem_mem hj)
    have hi' : i' ≤ pk.length := by rw [hij]; have := gj.2.1; have := gj.2.2.1.1; omega
    have ih := ih hi' pc.1
    rw [show run c kern pk false i' (k + d.calls.length) p.ctl = r from rfl] at ih
    refine ⟨ih.1, fun call hcall => ?_⟩
    rcases List.mem_append.mp hcall with hcall | hcall
    · exact drain_ctl_want kern gso p.ents p.ctl 0 k pc.2 call hcall
    · exact ih.2 call hcall
  | case4 gso i k ctl h p hp d hd =>
    have pc := pack_ctl_take c gso pk i ctl hc hi
    simp only at pc
    rw [show pack c gso pk i 0 0 ctl = p from rfl] at pc
    exact ⟨pc.1, fun call hcall => drain_ctl_want kern gso p.ents p.ctl 0 k pc.2 call hcall⟩
  | case5 gso i k ctl h p hp d hd =>
    have pc := pack_ctl_take c gso pk i ctl hc hi
    simp only at pc
    rw [show pack c gso pk i 0 0 ctl = p from rfl] at pc
    exact ⟨pc.1, fun call hcall => drain_ctl_want kern gso p.ents p.ctl 0 k pc.2 call hcall⟩
  | case6 gso i k ctl h => exact ⟨hc, by simp⟩
end Nebula.Lemmas.Writebatch
