/-
getOrHandshakeConsiderRouting on a multi-gateway route (C32): a tun packet is either transmitted (once, through
the chosen gateway or a fallback gateway that has a tunnel) or queued on the chosen gateway's pending handshake —
never both.
-/
import Nebula.Lemmas.HsPendingNode

namespace Nebula.Lemmas.HsPending
open Nebula.HsManager Nebula.Lemmas.HsManager Nebula.Gen

/-- the queue of the pending handshake for address `a` (empty if there is none) -/
def queueOf (p : PSide) (a : Addr) : List Cached := ((alookup a p.vpnIps).map (·.store)).getD []

/-- writing back the record that is already stored changes nothing -/
theorem setPending_self {p : PSide} (h : PInv p) {a : Addr} {hh : Pending} (hm : (a, hh) ∈ p.vpnIps) :
    (p.setPending hh).vpnIps = p.vpnIps := by
  unfold PSide.setPending
  dsimp only
  conv => rhs; rw [← List.map_id p.vpnIps]
  apply List.map_congr_left
  intro x hx
  by_cases e : x.2.id = hh.id
  · have := same_of_id h (a := x.1) (hh := x.2) hx hm e
    have e' : (x.2.id == hh.id) = true := by simp [e]
    simp only [e', if_true, id]
    rw [← this.2]
  · have e' : (x.2.id == hh.id) = false := by simp [e]
    simp [e']

theorem startHandshake_id_queue (c : Cfg) (p : PSide) (a : Addr) (h : PInv p) (b : Addr) :
    queueOf (p.startHandshake c a id) b = queueOf p b := by
  unfold PSide.startHandshake
  cases hl : alookup a p.vpnIps with
  | some hh =>
    dsimp only [id]
    unfold queueOf
    rw [setPending_self h (mem_of_alookup hl)]
  | none =>
    dsimp only [id]
    unfold queueOf
    dsimp only
    rw [alookup_ainsert]
    by_cases e : b = a
    · subst e; simp [hl]
    · simp [e]

theorem getOrHandshake_id_queue (n : Node) (a : Addr) (h : PInv n.p) (b : Addr) :
    queueOf (n.getOrHandshake a id).1.p b = queueOf n.p b := by
  unfold Node.getOrHandshake
  split
  · rfl
  · exact startHandshake_id_queue n.cfg n.p a h b

theorem firstReady_queue (gs : List Addr) (n : Node) (h : PInv n.p) (b : Addr) :
    queueOf (n.firstReady gs).1.p b = queueOf n.p b := by
  induction gs generalizing n with
  | nil => rfl
  | cons g gs ih =>
    simp only [Node.firstReady]
    have h1 := getOrHandshake_id_queue n g h b
    have k1 := getOrHandshake_keep n g id goodCb_id h
    generalize n.getOrHandshake g id = r at h1 k1 ⊢
    obtain ⟨n', o⟩ := r
    cases o with
    | some hi => exact h1
    | none => exact (ih n' k1.2.1).trans h1

theorem sendVia_le_one (c : Cfg) (hi : HostInfo) (q : Cached) : (c.sendVia hi q).tx.length ≤ 1 := by
  unfold Cfg.sendVia
  split
  · split <;> simp
  · simp

/-- a routed tun packet: at most one transmission, and if it is transmitted no queue changes -/
theorem sendRouted_sent_not_queued (n : Node) (q : Cached) (h : PInv n.p) :
    (n.sendRouted q).2.tx.length ≤ 1 ∧
    ((n.sendRouted q).2.tx ≠ [] → ∀ b, queueOf (n.sendRouted q).1.p b = queueOf n.p b) := by
  unfold Node.sendRouted
  split
  next => exact ⟨by simp, fun _ _ => rfl⟩
  next g _ =>
    cases hp : n.main.primary g.1 with
    | some hi =>
      simp only [Node.getOrHandshake, hp]
      exact ⟨sendVia_le_one .., fun _ _ => trivial⟩
    | none =>
      simp only [Node.getOrHandshake, hp]
      exact ⟨by simp, fun hne => absurd rfl hne⟩
  next =>
    split
    next => exact ⟨by simp, fun _ _ => rfl⟩
    next chosen _ =>
      have q1 := getOrHandshake_id_queue n chosen h
      have k1 := getOrHandshake_keep n chosen id goodCb_id h
      generalize n.getOrHandshake chosen id = r at q1 k1 ⊢
      obtain ⟨n1, o⟩ := r
      cases o with
      | some hi => exact ⟨sendVia_le_one .., fun _ b => q1 b⟩
      | none =>
        dsimp only
        have q2 := firstReady_queue ((n.cfg.routes.map (·.1)).filter (· != chosen)) n1 k1.2.1
        generalize n1.firstReady ((n.cfg.routes.map (·.1)).filter (· != chosen)) = r2 at q2 ⊢
        obtain ⟨n2, o2⟩ := r2
        cases o2 with
        | some hi => exact ⟨sendVia_le_one .., fun _ b => (q2 b).trans (q1 b)⟩
        | none =>
          dsimp only
          split
          · exact ⟨by simp, fun hne => absurd rfl hne⟩
          · exact ⟨by simp, fun hne => absurd rfl hne⟩

end Nebula.Lemmas.HsPending
